(** Proofs about the balancing model (C10, C11). *)
From Cooler Require Import Model.Balance.
From Coq Require Import Permutation Setoid Morphisms Lia Lqa ZifyBool Sorting.Sorted.
Open Scope Z_scope.

(** * 1. Spans cover the pixel table exactly once (C11) *)

Lemma firstn_firstn_skipn {A} : forall (p q : nat) (l : list A),
  firstn p l ++ firstn q (skipn p l) = firstn (p + q) l.
Proof.
  induction p as [|p IH]; intros q l; simpl; [reflexivity|].
  destruct l as [|x l]; simpl.
  - now rewrite firstn_nil.
  - now rewrite IH.
Qed.

Lemma skipn_skipn' {A} : forall (p q : nat) (l : list A), skipn q (skipn p l) = skipn (p + q) l.
Proof.
  induction p as [|p IH]; intros q l; simpl; [reflexivity|].
  destruct l as [|x l]; simpl; [now rewrite skipn_nil | apply IH].
Qed.

Lemma slice_app {A} : forall (l : list A) a m b,
  0 <= a -> a <= m -> m <= b -> slice l a m ++ slice l m b = slice l a b.
Proof.
  intros l a m b Ha Hm Hb. unfold slice.
  replace (Z.to_nat m) with (Z.to_nat a + Z.to_nat (m - a))%nat by lia.
  rewrite <- skipn_skipn'. rewrite firstn_firstn_skipn. f_equal. lia.
Qed.

Lemma slice_all {A} : forall (l : list A) b, zlen l <= b -> slice l 0 b = l.
Proof.
  intros l b Hb. unfold slice, zlen in *. simpl. apply firstn_all2. lia.
Qed.

Lemma slice_empty {A} : forall (l : list A) a, slice l a a = [].
Proof. intros. unfold slice. now rewrite Z.sub_diag. Qed.

(** consecutive spans from [a] to [b] *)
Inductive Chain : Z -> list (Z * Z) -> Z -> Prop :=
| Chain_nil : forall a, Chain a [] a
| Chain_cons : forall a m b r, a <= m -> Chain m r b -> Chain a ((a, m) :: r) b.

Lemma chain_le : forall a s b, Chain a s b -> a <= b.
Proof. induction 1; lia. Qed.

Lemma chain_concat {A} : forall (l : list A) a s b,
  Chain a s b -> 0 <= a -> concat (map (fun sp => slice l (fst sp) (snd sp)) s) = slice l a b.
Proof.
  intros l a s b H. induction H as [a|a m b r Ham Hc IH]; intros Ha; simpl.
  - now rewrite slice_empty.
  - rewrite IH by lia. apply slice_app; try lia. now apply chain_le in Hc.
Qed.

(** every index of [a, b) lies in exactly one span of a chain *)
Definition in_span (k : Z) (s : Z * Z) : bool := (fst s <=? k) && (k <? snd s).

Lemma chain_none_below : forall a s b k, Chain a s b -> k < a -> filter (in_span k) s = [].
Proof.
  intros a s b k H. induction H as [a|a m b r Ham Hc IH]; intros Hk; simpl; [reflexivity|].
  unfold in_span at 1. simpl. replace (a <=? k) with false by lia. simpl. apply IH. lia.
Qed.

Lemma chain_exactly_one : forall a s b k, Chain a s b -> a <= k < b ->
  exists sp, filter (in_span k) s = [sp].
Proof.
  intros a s b k H. induction H as [a|a m b r Ham Hc IH]; intros Hk; simpl; [lia|].
  unfold in_span at 1. simpl.
  destruct (Z.ltb_spec k m) as [Hlt|Hge].
  - replace (a <=? k) with true by lia. simpl. exists (a, m). f_equal.
    eapply chain_none_below; eauto.
  - replace ((a <=? k) && false) with false by (now rewrite andb_false_r). apply IH. lia.
Qed.

(** closed form of the two span generators *)
Lemma pairs_cons2 {A} : forall (x y : A) l,
  combine (removelast (x :: y :: l)) (tl (x :: y :: l)) = (x, y) :: combine (removelast (y :: l)) (tl (y :: l)).
Proof. intros. reflexivity. Qed.

Lemma combine_removelast_tl {A} : forall (f : nat -> A) m s,
  combine (removelast (map f (seq s (S m)))) (tl (map f (seq s (S m)))) =
  map (fun k => (f k, f (S k))) (seq s m).
Proof.
  intros f m. induction m as [|m IH]; intros s; [reflexivity|].
  change (seq s (S (S m))) with (s :: S s :: seq (S (S s)) m).
  rewrite !map_cons. rewrite pairs_cons2.
  change (f (S s) :: map f (seq (S (S s)) m)) with (map f (seq (S s) (S m))).
  rewrite IH. reflexivity.
Qed.

Lemma cdiv_shift : forall n c, 1 <= c -> cdiv (n + c - 0) c = cdiv n c + 1.
Proof.
  intros n c Hc. unfold cdiv. replace (n + c - 0 + c - 1) with ((n + c - 1) + 1 * c) by lia.
  rewrite Z.div_add by lia. lia.
Qed.

Lemma cdiv_nonneg : forall n c, 0 <= n -> 1 <= c -> 0 <= cdiv n c.
Proof. intros. unfold cdiv. apply Z.div_pos; lia. Qed.

Lemma cdiv_ge : forall n c, 1 <= c -> n <= cdiv n c * c.
Proof.
  intros n c Hc. unfold cdiv.
  pose proof (Z.div_mod (n + c - 1) c ltac:(lia)).
  pose proof (Z.mod_pos_bound (n + c - 1) c ltac:(lia)). nia.
Qed.

Lemma cdiv_lt : forall n c, 1 <= c -> 0 < n -> (cdiv n c - 1) * c < n.
Proof.
  intros n c Hc Hn. unfold cdiv.
  pose proof (Z.div_mod (n + c - 1) c ltac:(lia)).
  pose proof (Z.mod_pos_bound (n + c - 1) c ltac:(lia)). nia.
Qed.

Lemma balance_spans_closed : forall nnz c, 0 <= nnz -> 1 <= c ->
  balance_spans nnz (Some c) =
  map (fun k => (0 + Z.of_nat k * c, 0 + Z.of_nat (S k) * c)) (seq 0 (Z.to_nat (cdiv nnz c))).
Proof.
  intros nnz c Hn Hc. unfold balance_spans, arange.
  rewrite cdiv_shift by lia.
  pose proof (cdiv_nonneg nnz c Hn Hc).
  replace (Z.to_nat (cdiv nnz c + 1)) with (S (Z.to_nat (cdiv nnz c))) by lia.
  apply (combine_removelast_tl (fun k => 0 + Z.of_nat k * c)).
Qed.

Lemma chain_uniform : forall c a m s,
  1 <= c ->
  Chain (a + Z.of_nat s * c)
        (map (fun k => (a + Z.of_nat k * c, a + Z.of_nat (S k) * c)) (seq s m))
        (a + Z.of_nat (s + m) * c).
Proof.
  intros c a m. induction m as [|m IH]; intros s Hc; cbn [seq map].
  - rewrite Nat.add_0_r. constructor.
  - constructor; [lia|]. replace (s + S m)%nat with (S s + m)%nat by lia. now apply IH.
Qed.

Lemma balance_spans_chain : forall nnz c, 0 <= nnz -> 1 <= c ->
  Chain 0 (balance_spans nnz (Some c)) (cdiv nnz c * c).
Proof.
  intros nnz c Hn Hc. rewrite balance_spans_closed by lia.
  pose proof (cdiv_nonneg nnz c Hn Hc).
  pose proof (chain_uniform c 0 (Z.to_nat (cdiv nnz c)) 0 Hc) as H1.
  simpl (0 + Z.of_nat 0 * c) in H1. rewrite Nat.add_0_l in H1.
  replace (0 + Z.of_nat (Z.to_nat (cdiv nnz c)) * c) with (cdiv nnz c * c) in H1 by lia.
  exact H1.
Qed.

Theorem spans_exact_cover : forall (px : list pixel) c, 1 <= c ->
  concat (map (get_chunk px) (balance_spans (zlen px) (Some c))) = px.
Proof.
  intros px c Hc. unfold get_chunk.
  assert (Hn : 0 <= zlen px) by (unfold zlen; lia).
  rewrite (chain_concat px 0 _ _ (balance_spans_chain _ _ Hn Hc)) by lia.
  apply slice_all. now apply cdiv_ge.
Qed.

Theorem spans_none_cover : forall (px : list pixel),
  concat (map (get_chunk px) (balance_spans (zlen px) None)) = px.
Proof.
  intros px. simpl. rewrite app_nil_r. unfold get_chunk. simpl. apply slice_all. lia.
Qed.

(** every pixel index lies in exactly one span; spans are consecutive from 0 and reach nnz *)
Theorem spans_index_once : forall nnz c k, 1 <= c -> 0 <= k < nnz ->
  exists sp, filter (in_span k) (balance_spans nnz (Some c)) = [sp].
Proof.
  intros nnz c k Hc Hk.
  apply (chain_exactly_one 0 _ (cdiv nnz c * c)); [apply balance_spans_chain; lia|].
  pose proof (cdiv_ge nnz c Hc). lia.
Qed.

(** util.partition: consecutive, clipped at [stop] *)
Lemma partition_chain_aux : forall c a stop m s,
  1 <= c -> a + Z.of_nat (s + m) * c <= stop ->
  Chain (a + Z.of_nat s * c)
        (map (fun i => (i, Z.min (i + c) stop)) (map (fun k => a + Z.of_nat k * c) (seq s m)))
        (a + Z.of_nat (s + m) * c).
Proof.
  intros c a stop m. induction m as [|m IH]; intros s Hc Hs; cbn [seq map].
  - rewrite Nat.add_0_r. constructor.
  - replace (Z.min (a + Z.of_nat s * c + c) stop) with (a + Z.of_nat (S s) * c) by lia.
    constructor; [lia|]. replace (s + S m)%nat with (S s + m)%nat in * by lia. now apply IH.
Qed.

Lemma seq_snoc : forall s m, seq s (S m) = seq s m ++ [(s + m)%nat].
Proof. intros. rewrite seq_S. reflexivity. Qed.

Lemma chain_app : forall a s1 m s2 b, Chain a s1 m -> Chain m s2 b -> Chain a (s1 ++ s2) b.
Proof. intros a s1 m s2 b H. induction H; intros; simpl; [assumption|constructor; auto]. Qed.

Lemma partition_chain : forall start stop c, 1 <= c -> start <= stop ->
  Chain start (partition start stop c) stop.
Proof.
  intros start stop c Hc Hle. unfold partition, arange.
  destruct (Z.eq_dec start stop) as [->|Hne].
  - unfold cdiv. replace (stop - stop + c - 1) with (c - 1) by lia.
    rewrite Z.div_small by lia. simpl. constructor.
  - set (K := cdiv (stop - start) c).
    assert (HK : 1 <= K).
    { pose proof (cdiv_ge (stop - start) c Hc). fold K in H. nia. }
    assert (Hlt : (K - 1) * c < stop - start) by (apply cdiv_lt; lia).
    assert (Hge : stop - start <= K * c) by (apply cdiv_ge; lia).
    replace (Z.to_nat K) with (S (Z.to_nat (K - 1))) by lia.
    rewrite seq_snoc, !map_app. simpl.
    eapply chain_app.
    + pose proof (partition_chain_aux c start stop (Z.to_nat (K - 1)) 0 Hc) as H1.
      simpl (start + Z.of_nat 0 * c) in H1. rewrite Z.add_0_r in H1. apply H1. lia.
    + rewrite Nat.add_0_l.
      rewrite Z2Nat.id by lia.
      replace (Z.min (start + (K - 1) * c + c) stop) with stop by nia.
      constructor; [lia|constructor].
Qed.

Theorem partition_exact_cover : forall (px : list pixel) plo phi c,
  1 <= c -> 0 <= plo <= phi ->
  concat (map (get_chunk px) (partition plo phi c)) = slice px plo phi.
Proof.
  intros px plo phi c Hc H. unfold get_chunk.
  apply chain_concat; [apply partition_chain; lia | lia].
Qed.

Theorem partition_index_once : forall plo phi c k, 1 <= c -> plo <= k < phi ->
  exists sp, filter (in_span k) (partition plo phi c) = [sp].
Proof.
  intros plo phi c k Hc Hk. apply (chain_exactly_one plo _ phi); [apply partition_chain; lia | lia].
Qed.

(** * 2. Folding per-chunk results in any order: the commutative-monoid argument (C11) *)
Section Monoid.
  Context {A : Type} (eqA : relation A) {Heq : Equivalence eqA}.
  Context (op : A -> A -> A) {Hop : Proper (eqA ==> eqA ==> eqA) op} (e : A).
  Hypothesis op_assoc : forall x y z, eqA (op x (op y z)) (op (op x y) z).
  Hypothesis op_comm : forall x y, eqA (op x y) (op y x).
  Hypothesis op_unit : forall x, eqA (op e x) x.

  Definition msum (l : list A) : A := fold_right op e l.

  Lemma msum_app : forall l1 l2, eqA (msum (l1 ++ l2)) (op (msum l1) (msum l2)).
  Proof.
    induction l1 as [|x l1 IH]; intros l2; simpl.
    - symmetry. apply op_unit.
    - rewrite IH. apply op_assoc.
  Qed.

  Lemma msum_perm : forall l l', Permutation l l' -> eqA (msum l) (msum l').
  Proof.
    induction 1; simpl.
    - reflexivity.
    - now rewrite IHPermutation.
    - rewrite !op_assoc. now rewrite (op_comm y x).
    - etransitivity; eauto.
  Qed.

  Lemma fold_left_msum : forall l a, eqA (fold_left op l a) (op a (msum l)).
  Proof.
    induction l as [|x l IH]; intros a; simpl.
    - rewrite op_comm. symmetry. apply op_unit.
    - rewrite IH. symmetry. apply op_assoc.
  Qed.

  Lemma msum_concat : forall ls, eqA (msum (map msum ls)) (msum (concat ls)).
  Proof.
    induction ls as [|l ls IH]; simpl; [reflexivity|].
    rewrite msum_app. now rewrite IH.
  Qed.

  Lemma msum_Forall2 : forall l l', Forall2 eqA l l' -> eqA (msum l) (msum l').
  Proof. induction 1; simpl; [reflexivity|]. now apply Hop. Qed.

  (** results of the chunks, delivered in ANY order (and each only up to [eqA]), folded from [init]:
      the monoid sum over all items of all chunks *)
  Theorem reduce_perm_invariant : forall (P : Type) (f : P -> A) (chunks : list (list P)) (rs rs' : list A) (init : A),
    Permutation rs rs' ->
    Forall2 eqA rs' (map (fun c => msum (map f c)) chunks) ->
    eqA (fold_left op rs init) (op init (msum (map f (concat chunks)))).
  Proof.
    intros P f chunks rs rs' init Hp Hf.
    rewrite fold_left_msum. rewrite (msum_perm _ _ Hp). rewrite (msum_Forall2 _ _ Hf).
    rewrite concat_map, <- msum_concat, map_map. reflexivity.
  Qed.

  (** hence two runs with different chunkings of the same items and different completion orders agree *)
  Corollary reduce_chunking_invariant : forall (P : Type) (f : P -> A) (ch1 ch2 : list (list P)) rs1 rs2 init,
    Permutation (concat ch1) (concat ch2) ->
    Permutation rs1 (map (fun c => msum (map f c)) ch1) ->
    Permutation rs2 (map (fun c => msum (map f c)) ch2) ->
    eqA (fold_left op rs1 init) (fold_left op rs2 init).
  Proof.
    intros P f ch1 ch2 rs1 rs2 init Hc H1 H2.
    assert (R : forall l : list A, Forall2 eqA l l) by (induction l; constructor; auto; reflexivity).
    rewrite (reduce_perm_invariant P f ch1 rs1 _ init H1 (R _)),
            (reduce_perm_invariant P f ch2 rs2 _ init H2 (R _)).
    apply Hop; [reflexivity|]. apply msum_perm. now apply Permutation_map.
  Qed.
End Monoid.

(** * 3. The balancing pipeline is such a fold: marginals are functions of the data alone (C11) *)
Local Open Scope Q_scope.

Definition pipe1 (fs : list (wpx -> wpx)) (w : wpx) : wpx := fold_left (fun x f => f x) fs w.
Definition init1 (p : pixel) : wpx := (fst p, inject_Z (snd p)).

Lemma pipe_map : forall fs l, pipe fs l = map (pipe1 fs) l.
Proof.
  induction fs as [|f fs IH]; intros l; simpl.
  - unfold pipe. simpl. now rewrite map_id.
  - unfold pipe in *. simpl. rewrite IH, map_map. reflexivity.
Qed.

Lemma init_map : forall l, init l = map init1 l.
Proof. reflexivity. Qed.

Lemma marg_at_sum : forall i l, marg_at i l == sumQ (map (contrib i) l).
Proof. intros. unfold marg_at. apply Qred_correct. Qed.

Lemma length_marginalize : forall n l, length (marginalize n l) = n.
Proof. intros. unfold marginalize, zrange. now rewrite !map_length, seq_length. Qed.

Lemma nth_zrange_map {B} : forall (g : Z -> B) (n : nat) (k : nat) (d : B),
  (k < n)%nat -> nth k (map g (zrange 0 n)) d = g (Z.of_nat k).
Proof.
  intros g n k d Hk. unfold zrange. rewrite map_map.
  rewrite (nth_indep _ d (g (0 + Z.of_nat 0)%Z)) by (now rewrite map_length, seq_length).
  rewrite (map_nth (fun x => g (0 + Z.of_nat x)%Z)). rewrite seq_nth by lia. f_equal.
Qed.

Lemma qnth_marginalize : forall n l i, (0 <= i < Z.of_nat n)%Z -> qnth (marginalize n l) i = marg_at i l.
Proof.
  intros n l i Hi. unfold qnth, marginalize.
  rewrite nth_zrange_map by lia. f_equal. lia.
Qed.

Lemma length_vadd : forall a b, length a = length b -> length (vadd a b) = length a.
Proof. intros. unfold vadd. rewrite map_length, combine_length. lia. Qed.

Lemma nth_vadd : forall a b k, length a = length b ->
  nth k (vadd a b) 0 == nth k a 0 + nth k b 0.
Proof.
  induction a as [|x a IH]; intros b k Hl; destruct b as [|y b]; simpl in Hl; try discriminate.
  - destruct k; simpl; ring.
  - change (vadd (x :: a) (y :: b)) with (Qred (x + y) :: vadd a b).
    destruct k; cbn [nth].
    + apply Qred_correct.
    + apply IH. congruence.
Qed.

Lemma qnth_reduce : forall n rs init i,
  Forall (fun r => length r = n) rs -> length init = n ->
  qnth (fold_left vadd rs init) i == fold_left Qplus (map (fun r => qnth r i) rs) (qnth init i).
Proof.
  intros n rs. induction rs as [|r rs IH]; intros init i Hf Hl; simpl; [reflexivity|].
  inversion Hf as [|? ? Hr Hrs]; subst.
  rewrite IH; [| assumption | rewrite length_vadd; congruence].
  assert (E : qnth (vadd init r) i == qnth init i + qnth r i) by (apply nth_vadd; congruence).
  generalize (map (fun r0 => qnth r0 i) rs). intros l.
  revert E. generalize (qnth (vadd init r) i) (qnth init i + qnth r i).
  induction l as [|z l IHl]; intros u v E; simpl; [exact E|]. apply IHl. now rewrite E.
Qed.

Lemma qnth_zeros : forall n i, qnth (zeros n) i = 0.
Proof.
  intros n i. unfold qnth, zeros. generalize (Z.to_nat i) as k. induction n as [|n IH]; intros [|k]; simpl; auto.
Qed.

Global Instance Qplus_proper : Proper (Qeq ==> Qeq ==> Qeq) Qplus.
Proof. intros a b H c d H'. now rewrite H, H'. Qed.

(** the per-pixel contribution to marginal [i] after the filters [fs] *)
Definition pcontrib (i : Z) (fs : list (wpx -> wpx)) (p : pixel) : Q := contrib i (pipe1 fs (init1 p)).

Lemma chunk_result_at : forall n fs i (chunk : list pixel), (0 <= i < Z.of_nat n)%Z ->
  qnth (marginalize n (pipe fs (init chunk))) i == sumQ (map (pcontrib i fs) chunk).
Proof.
  intros. rewrite qnth_marginalize by assumption. rewrite marg_at_sum.
  rewrite pipe_map, init_map, !map_map. reflexivity.
Qed.

(** For ANY list of spans that covers the pixel table and ANY order in which the map functor hands back the
    per-chunk results, the reduced marginal of bin i is the sum over all pixels of their contribution:
    the right-hand side mentions neither the spans nor the order. *)
Theorem marg_schedule_invariant : forall n spans fs (px : list pixel) rs i,
  concat (map (get_chunk px) spans) = px ->
  Permutation rs (marg_chunks n spans fs px) ->
  (0 <= i < Z.of_nat n)%Z ->
  qnth (reduce_add n rs) i == sumQ (map (pcontrib i fs) px).
Proof.
  intros n spans fs px rs i Hcov Hperm Hi. unfold reduce_add.
  assert (Hlen : Forall (fun r => length r = n) rs).
  { rewrite Forall_forall. intros r Hr.
    apply (Permutation_in _ Hperm) in Hr. unfold marg_chunks in Hr.
    rewrite in_map_iff in Hr. destruct Hr as [sp [<- _]]. apply length_marginalize. }
  rewrite (qnth_reduce n) by (auto; unfold zeros; now rewrite repeat_length).
  rewrite qnth_zeros.
  pose proof (reduce_perm_invariant Qeq Qplus 0 Qplus_assoc Qplus_comm Qplus_0_l
               pixel (pcontrib i fs) (map (get_chunk px) spans)
               (map (fun r => qnth r i) rs) (map (fun r => qnth r i) (marg_chunks n spans fs px)) 0) as H.
  rewrite H.
  - rewrite Hcov. unfold msum. fold (sumQ (map (pcontrib i fs) px)). ring.
  - now apply Permutation_map.
  - unfold marg_chunks. rewrite !map_map.
    clear - Hi. induction spans as [|sp spans IH]; simpl; constructor; [|exact IH].
    now apply chunk_result_at.
Qed.

(** two complete runs (any chunk sizes, any completion orders) give the same marginal for every bin *)
Corollary marg_data_only : forall n fs (px : list pixel) c1 c2 rs1 rs2 i,
  (1 <= c1)%Z -> (1 <= c2)%Z ->
  Permutation rs1 (marg_chunks n (balance_spans (zlen px) (Some c1)) fs px) ->
  Permutation rs2 (marg_chunks n (balance_spans (zlen px) (Some c2)) fs px) ->
  (0 <= i < Z.of_nat n)%Z ->
  qnth (reduce_add n rs1) i == qnth (reduce_add n rs2) i.
Proof.
  intros n fs px c1 c2 rs1 rs2 i H1 H2 P1 P2 Hi.
  rewrite (marg_schedule_invariant n _ fs px rs1 i (spans_exact_cover px c1 H1) P1 Hi).
  rewrite (marg_schedule_invariant n _ fs px rs2 i (spans_exact_cover px c2 H2) P2 Hi).
  reflexivity.
Qed.

(** the sequential run of the model ([marg_of]) is one such run *)
Corollary marg_of_spec : forall n fs (px : list pixel) chunk i,
  (match chunk with Some c => 1 <= c | None => True end)%Z ->
  (0 <= i < Z.of_nat n)%Z ->
  qnth (marg_of n (balance_spans (zlen px) chunk) fs px) i == sumQ (map (pcontrib i fs) px).
Proof.
  intros n fs px chunk i Hc Hi. unfold marg_of.
  apply (marg_schedule_invariant n (balance_spans (zlen px) chunk) fs px); auto.
  destruct chunk as [c|]; [now apply spans_exact_cover | apply spans_none_cover].
Qed.

(** * 4. The sparse marginal is the row sum of the dense symmetric matrix, diagonal once (C10.1 / C11.3) *)
Lemma sumQ_app : forall l1 l2, sumQ (l1 ++ l2) == sumQ l1 + sumQ l2.
Proof. induction l1 as [|x l1 IH]; intros; simpl; [ring | rewrite IH; ring]. Qed.

Lemma sumQ_ext {B} : forall (L : list B) f g, (forall j, In j L -> f j == g j) -> sumQ (map f L) == sumQ (map g L).
Proof.
  induction L as [|x L IH]; intros f g H; simpl; [reflexivity|].
  rewrite (H x) by (now left). rewrite (IH f g); [reflexivity|]. intros; apply H; now right.
Qed.

Lemma sumQ_plus {B} : forall (L : list B) f g, sumQ (map (fun j => f j + g j) L) == sumQ (map f L) + sumQ (map g L).
Proof. induction L as [|x L IH]; intros; simpl; [ring | rewrite IH; ring]. Qed.

Lemma sumQ_scal {B} : forall (L : list B) c f, sumQ (map (fun j => c * f j) L) == c * sumQ (map f L).
Proof. induction L as [|x L IH]; intros; simpl; [ring | rewrite IH; ring]. Qed.

Lemma sumQ_zero {B} : forall (L : list B), sumQ (map (fun _ => 0) L) == 0.
Proof. induction L as [|x L IH]; simpl; [reflexivity | rewrite IH; ring]. Qed.

Lemma sumQ_ind_out : forall (L : list Z) k g, ~ In k L -> sumQ (map (fun j => if (j =? k)%Z then g j else 0) L) == 0.
Proof.
  induction L as [|x L IH]; intros k g H; simpl; [reflexivity|].
  destruct (Z.eqb_spec x k) as [->|Hne]; [exfalso; apply H; now left|].
  rewrite IH; [ring|]. intro; apply H; now right.
Qed.

Lemma sumQ_ind_in : forall (L : list Z) k g, NoDup L -> In k L ->
  sumQ (map (fun j => if (j =? k)%Z then g j else 0) L) == g k.
Proof.
  induction L as [|x L IH]; intros k g Hnd Hin; simpl; [contradiction|].
  inversion Hnd as [|? ? Hx HL]; subst.
  destruct (Z.eqb_spec x k) as [->|Hne].
  - rewrite sumQ_ind_out by assumption. ring.
  - destruct Hin as [->|Hin]; [congruence|]. rewrite IH by assumption. ring.
Qed.

Lemma in_zrange : forall n k, In k (zrange 0 n) <-> (0 <= k < Z.of_nat n)%Z.
Proof.
  intros n k. unfold zrange. rewrite in_map_iff. split.
  - intros [x [<- Hx]]. apply in_seq in Hx. lia.
  - intros Hk. exists (Z.to_nat k). split; [lia|]. apply in_seq. lia.
Qed.

Lemma nodup_zrange : forall n, NoDup (zrange 0 n).
Proof.
  intros n. unfold zrange. apply FinFun.Injective_map_NoDup; [|apply seq_NoDup].
  intros a b H. lia.
Qed.

Lemma sumQ_single : forall n k g, (0 <= k < Z.of_nat n)%Z ->
  sumQ (map (fun j => if (j =? k)%Z then g j else 0) (zrange 0 n)) == g k.
Proof. intros. apply sumQ_ind_in; [apply nodup_zrange | now apply in_zrange]. Qed.

Definition ind (w : wpx) (i j : Z) : Q :=
  if (b1 w =? Z.min i j)%Z && (b2 w =? Z.max i j)%Z then dat w else 0.

Lemma dense_cons : forall w l i j, dense (w :: l) i j = ind w i j + dense l i j.
Proof. reflexivity. Qed.

Lemma f_times_parts : forall b w, b1 (f_times b w) = b1 w /\ b2 (f_times b w) = b2 w /\
  dat (f_times b w) = qnth b (b1 w) * qnth b (b2 w) * dat w.
Proof. intros. repeat split. Qed.

(** one pixel: its contribution to marginal i = b_i * sum_j [its dense symmetric entry (i,j)] * b_j *)
Lemma single_rowsum : forall n b w i,
  (b1 w <= b2 w)%Z -> (0 <= b1 w)%Z -> (b2 w < Z.of_nat n)%Z -> (0 <= i < Z.of_nat n)%Z ->
  contrib i (f_times b w) == qnth b i * sumQ (map (fun j => ind w i j * qnth b j) (zrange 0 n)).
Proof.
  intros n b w i Hu Hp Hq Hi. unfold contrib.
  destruct (f_times_parts b w) as [-> [-> ->]].
  set (p := b1 w) in *. set (q := b2 w) in *. set (x := dat w).
  destruct (Z.eqb_spec p i) as [Hpi|Hpi].
  - (* i = p: the only partner is j = q *)
    rewrite (sumQ_ext _ _ (fun j => if (j =? q)%Z then x * qnth b j else 0)).
    + rewrite (sumQ_single n q (fun j => x * qnth b j)) by lia.
      destruct (Z.eqb_spec q i), (Z.eqb_spec p q); simpl; subst; try lia; ring.
    + intros j Hj. apply in_zrange in Hj. unfold ind. fold p q x.
      destruct (Z.eqb_spec j q), (Z.eqb_spec p (Z.min i j)), (Z.eqb_spec q (Z.max i j)); simpl; try ring; lia.
  - destruct (Z.eqb_spec q i) as [Hqi|Hqi].
    + (* i = q <> p: the only partner is j = p *)
      rewrite (sumQ_ext _ _ (fun j => if (j =? p)%Z then x * qnth b j else 0)).
      * rewrite (sumQ_single n p (fun j => x * qnth b j)) by lia.
        destruct (Z.eqb_spec p q); simpl; subst; try lia; ring.
      * intros j Hj. apply in_zrange in Hj. unfold ind. fold p q x.
        destruct (Z.eqb_spec j p), (Z.eqb_spec p (Z.min i j)), (Z.eqb_spec q (Z.max i j)); simpl; try ring; lia.
    + rewrite (sumQ_ext _ _ (fun _ => 0)).
      * rewrite sumQ_zero. simpl. ring.
      * intros j Hj. unfold ind. fold p q x.
        destruct (Z.eqb_spec p (Z.min i j)), (Z.eqb_spec q (Z.max i j)); simpl; try ring; lia.
Qed.

Definition UpperIn (n : nat) (l : list wpx) : Prop :=
  Forall (fun w => (b1 w <= b2 w)%Z /\ (0 <= b1 w)%Z /\ (b2 w < Z.of_nat n)%Z) l.

Theorem marg_is_rowsum : forall n b (l : list wpx) i,
  UpperIn n l -> (0 <= i < Z.of_nat n)%Z ->
  marg_at i (map (f_times b) l) == rowsum (dense l) n b i.
Proof.
  intros n b l i Hl Hi. rewrite marg_at_sum. unfold rowsum.
  induction Hl as [|w l [Hu [Hp Hq]] Hl IH]; simpl.
  - rewrite (sumQ_ext _ _ (fun _ => 0)); [rewrite sumQ_zero; ring|]. intros; unfold dense; simpl; ring.
  - rewrite IH. rewrite (single_rowsum n b w i Hu Hp Hq Hi).
    rewrite (sumQ_ext (zrange 0 n) (fun j => dense (w :: l) i j * qnth b j)
               (fun j => ind w i j * qnth b j + dense l i j * qnth b j)).
    + rewrite sumQ_plus. ring.
    + intros j _. rewrite dense_cons. ring.
Qed.

Lemma dense_sym : forall l i j, dense l i j = dense l j i.
Proof. intros. unfold dense. now rewrite Z.min_comm, Z.max_comm. Qed.

Lemma sumQ_nonneg {B} : forall (L : list B) f, (forall j, In j L -> 0 <= f j) -> 0 <= sumQ (map f L).
Proof.
  induction L as [|x L IH]; intros f H; simpl; [apply Qle_refl|].
  assert (0 <= f x) by (apply H; now left).
  assert (0 <= sumQ (map f L)) by (apply IH; intros; apply H; now right). lra.
Qed.

Lemma dense_nonneg : forall l i j, Forall (fun w => 0 <= dat w) l -> 0 <= dense l i j.
Proof.
  intros l i j H. unfold dense. apply sumQ_nonneg. intros w Hw.
  rewrite Forall_forall in H. specialize (H w Hw).
  destruct (_ && _); [assumption | apply Qle_refl].
Qed.

(** filters never touch the bin ids of a pixel *)
Definition keyfix (f : wpx -> wpx) : Prop := forall w, fst (f w) = fst w.

Lemma keyfix_binarize : keyfix f_binarize. Proof. intros w. reflexivity. Qed.
Lemma keyfix_zero_diags : forall d, keyfix (f_zero_diags d).
Proof. intros d w. unfold f_zero_diags. now destruct (_ <? _)%Z. Qed.
Lemma keyfix_zero_trans : forall c, keyfix (f_zero_trans c).
Proof. intros c w. unfold f_zero_trans. now destruct (_ =? _)%Z. Qed.
Lemma keyfix_zero_cis : forall c, keyfix (f_zero_cis c).
Proof. intros c w. unfold f_zero_cis. now destruct (_ =? _)%Z. Qed.
Lemma keyfix_times : forall v, keyfix (f_times v). Proof. intros v w. reflexivity. Qed.

Lemma keyfix_base_filters : forall o chroms, Forall keyfix (base_filters o chroms).
Proof.
  intros o chroms. unfold base_filters. apply Forall_app. split.
  - destruct (o_cis o); constructor; [apply keyfix_zero_trans | constructor].
  - destruct (_ =? _)%Z; constructor; [apply keyfix_zero_diags | constructor].
Qed.

Lemma pipe1_keyfix : forall fs w, Forall keyfix fs -> fst (pipe1 fs w) = fst w.
Proof.
  induction fs as [|f fs IH]; intros w H; simpl; [reflexivity|].
  inversion H; subst. unfold pipe1 in *. simpl. rewrite IH by assumption. auto.
Qed.

Lemma pipe1_app : forall fs gs w, pipe1 (fs ++ gs) w = pipe1 gs (pipe1 fs w).
Proof. intros. unfold pipe1. now rewrite fold_left_app. Qed.

(** the filtered, weighted pixels of a table: what the dense matrix F is built from *)
Definition filtered (fs : list (wpx -> wpx)) (px : list pixel) : list wpx := map (fun p => pipe1 fs (init1 p)) px.

Lemma filtered_upper : forall n fs px, Forall keyfix fs ->
  upper_b px = true -> inrange_b (Z.of_nat n) px = true -> UpperIn n (filtered fs px).
Proof.
  intros n fs px Hk Hu Hr. unfold UpperIn, filtered. rewrite Forall_map. rewrite Forall_forall. intros p Hp.
  unfold upper_b in Hu. unfold inrange_b in Hr. rewrite forallb_forall in Hu, Hr.
  specialize (Hu p Hp). specialize (Hr p Hp).
  unfold b1, b2. rewrite pipe1_keyfix by assumption. unfold init1. simpl.
  unfold row, col in *. lia.
Qed.

(** genome-wide sweep of the model: marginal i = row sum i of diag(b) F diag(b), F = dense symmetric
    completion of the filtered upper-triangular pixels (diagonal once) — for every chunk size *)
Theorem margf_gw_is_rowsum : forall n chunk fs (px : list pixel) b i,
  (match chunk with Some c => 1 <= c | None => True end)%Z ->
  Forall keyfix fs -> upper_b px = true -> inrange_b (Z.of_nat n) px = true ->
  (0 <= i < Z.of_nat n)%Z ->
  qnth (margf_gw n (balance_spans (zlen px) chunk) fs px b) i == rowsum (dense (filtered fs px)) n b i.
Proof.
  intros n chunk fs px b i Hc Hk Hu Hr Hi. unfold margf_gw.
  rewrite marg_of_spec by assumption.
  rewrite <- (marg_is_rowsum n b (filtered fs px) i (filtered_upper n fs px Hk Hu Hr) Hi).
  rewrite marg_at_sum. unfold filtered. rewrite !map_map.
  apply sumQ_ext. intros p _. unfold pcontrib. rewrite pipe1_app. reflexivity.
Qed.

(** the per-chunk pipeline is local: a pure per-pixel map, so the result for a chunk is determined by the
    chunk alone and splitting a chunk splits the result (no state carried between chunks) *)
Theorem pipeline_local : forall fs (c1 c2 : list pixel),
  pipe fs (init (c1 ++ c2)) = pipe fs (init c1) ++ pipe fs (init c2).
Proof. intros. rewrite !pipe_map, !init_map, !map_app. reflexivity. Qed.

Theorem pipeline_pointwise : forall fs (c : list pixel),
  pipe fs (init c) = map (fun p => pipe1 fs (init1 p)) c.
Proof. intros. now rewrite pipe_map, init_map, map_map. Qed.

(** * 5. One sweep: zero stays zero, positive stays positive, flatness bound (C10) *)
Lemma qz_true : forall x, qz x = true <-> x == 0.
Proof. intros. unfold qz. apply Qeq_bool_iff. Qed.

Lemma qz_false : forall x, qz x = false <-> ~ x == 0.
Proof. intros. rewrite <- qz_true. destruct (qz x); split; congruence. Qed.

Lemma Qltb_true : forall x y, Qltb x y = true <-> x < y.
Proof.
  intros. unfold Qltb. rewrite negb_true_iff. rewrite <- not_true_iff_false, Qle_bool_iff. split; intros H.
  - now apply Qnot_le_lt.
  - now apply Qlt_not_le.
Qed.

Lemma in_nzs : forall x m, In x (nzs m) <-> In x m /\ ~ x == 0.
Proof. intros. unfold nzs. rewrite filter_In, negb_true_iff, qz_false. tauto. Qed.

Lemma mean_eq : forall l, mean l == sumQ l / qlen l.
Proof. intros. unfold mean. apply Qred_correct. Qed.

Lemma variance_eq : forall l, variance l == sumQ (map (fun x => (x - mean l) * (x - mean l)) l) / qlen l.
Proof. intros. unfold variance. rewrite mean_eq. unfold qlen, zlen. now rewrite map_length. Qed.

Lemma qlen_pos : forall {B} (l : list B), l <> [] -> 0 < qlen l.
Proof.
  intros B l H. unfold qlen, zlen. destruct l; [congruence|].
  replace 0 with (inject_Z 0) by reflexivity. rewrite <- Zlt_Qlt. simpl length. lia.
Qed.

Lemma sumQ_pos : forall l, l <> [] -> (forall x, In x l -> 0 < x) -> 0 < sumQ l.
Proof.
  induction l as [|x l IH]; intros Hne H; [congruence|]. simpl.
  assert (0 < x) by (apply H; now left).
  destruct l as [|y l]; [simpl; lra|].
  assert (0 < sumQ (y :: l)) by (apply IH; [discriminate | intros; apply H; now right]). lra.
Qed.

Lemma Qdiv_pos : forall a b, 0 < a -> 0 < b -> 0 < a / b.
Proof. intros. apply Qlt_shift_div_l; lra. Qed.

Lemma Qsq_nonneg : forall z : Q, 0 <= z * z.
Proof. intros. nra. Qed.

Lemma sq_le_sum : forall c x l, In x l -> (x - c) * (x - c) <= sumQ (map (fun y => (y - c) * (y - c)) l).
Proof.
  induction l as [|y l IH]; intros H; [contradiction|]. simpl.
  assert (Hs : 0 <= sumQ (map (fun y => (y - c) * (y - c)) l)).
  { apply sumQ_nonneg. intros; cbv beta; apply Qsq_nonneg. }
  pose proof (Qsq_nonneg (y - c)).
  destruct H as [->|H]; [lra|]. specialize (IH H). lra.
Qed.

Lemma qnth_in : forall m i, (0 <= i < zlen m)%Z -> In (qnth m i) m.
Proof. intros m i H. unfold qnth. apply nth_In. unfold zlen in H. lia. Qed.

Lemma qnth_upd : forall mu m b i, length m = length b ->
  qnth (map (upd mu) (combine m b)) i = upd mu (qnth m i, qnth b i).
Proof.
  intros mu m b i. unfold qnth. generalize (Z.to_nat i) as k.
  revert b. induction m as [|x m IH]; intros b k Hl; destruct b as [|y b]; simpl in Hl; try discriminate.
  - destruct k; reflexivity.
  - destruct k; simpl; [reflexivity|]. apply IH. congruence.
Qed.

Lemma upd_eq : forall mu mi bi, ~ mu == 0 ->
  upd mu (mi, bi) == if qz mi then bi else bi * (mu / mi).
Proof.
  intros mu mi bi Hmu. unfold upd. destruct (qz mi) eqn:E; [reflexivity|].
  apply qz_false in E. rewrite Qred_correct. field. split; assumption.
Qed.

Lemma rowsum_nonneg : forall F n b i,
  (forall i j, 0 <= F i j) -> (forall i, 0 <= qnth b i) -> 0 <= rowsum F n b i.
Proof.
  intros F n b i HF Hb. unfold rowsum.
  assert (0 <= sumQ (map (fun j => F i j * qnth b j) (zrange 0 n))).
  { apply sumQ_nonneg. intros j _. specialize (HF i j). specialize (Hb j). nra. }
  specialize (Hb i). nra.
Qed.

Lemma sumQ_term_le : forall (L : list Z) f k, (forall j, In j L -> 0 <= f j) -> In k L -> f k <= sumQ (map f L).
Proof.
  induction L as [|x L IH]; intros f k H Hin; [contradiction|]. simpl.
  assert (0 <= f x) by (apply H; now left).
  assert (0 <= sumQ (map f L)) by (apply sumQ_nonneg; intros; apply H; now right).
  destruct Hin as [->|Hin]; [lra|].
  assert (f k <= sumQ (map f L)) by (apply IH; auto; intros; apply H; now right). lra.
Qed.

Lemma sumQ_le {B} : forall (L : list B) f g, (forall j, In j L -> f j <= g j) -> sumQ (map f L) <= sumQ (map g L).
Proof.
  induction L as [|x L IH]; intros f g H; simpl; [apply Qle_refl|].
  assert (f x <= g x) by (apply H; now left).
  assert (sumQ (map f L) <= sumQ (map g L)) by (apply IH; intros; apply H; now right). lra.
Qed.

Section Sweep.
  Variable F : Z -> Z -> Q.
  Variable n : nat.
  Hypothesis F_sym : forall i j, F i j == F j i.
  Hypothesis F_nonneg : forall i j, 0 <= F i j.

  Definition InR (i : Z) : Prop := (0 <= i < Z.of_nat n)%Z.
  Definition NonNeg (b : list Q) : Prop := forall i, 0 <= qnth b i.

  (** marginals given as a list that agrees pointwise (==) with the row sums of diag(b) F diag(b) *)
  Definition MargOf (m b : list Q) : Prop :=
    length m = n /\ forall i, InR i -> qnth m i == rowsum F n b i.

  Lemma marg_nonneg : forall m b i, MargOf m b -> NonNeg b -> InR i -> 0 <= qnth m i.
  Proof. intros m b i [_ H] Hb Hi. rewrite H by assumption. now apply rowsum_nonneg. Qed.

  Lemma inr_zlen : forall m b i, MargOf m b -> InR i -> (0 <= i < zlen m)%Z.
  Proof. intros m b i [Hl _] Hi. unfold zlen, InR in *. lia. Qed.

  (** every non-zero marginal is positive; the mean over the non-zero ones is positive *)
  Lemma nz_pos : forall m b x, MargOf m b -> NonNeg b -> In x (nzs m) -> 0 < x.
  Proof.
    intros m b x HM Hb Hx. apply in_nzs in Hx. destruct Hx as [Hin Hnz].
    apply In_nth with (d := 0) in Hin. destruct Hin as [k [Hk <-]].
    assert (Hi : InR (Z.of_nat k)) by (destruct HM as [Hl _]; unfold InR; lia).
    pose proof (marg_nonneg m b (Z.of_nat k) HM Hb Hi) as H0. unfold qnth in H0.
    rewrite Nat2Z.id in H0. destruct (Qlt_le_dec 0 (nth k m 0)); [assumption|]. exfalso. apply Hnz. lra.
  Qed.

  Lemma mean_nz_pos : forall m b, MargOf m b -> NonNeg b -> nzs m <> [] -> 0 < mean (nzs m).
  Proof.
    intros m b HM Hb Hne. rewrite mean_eq. apply Qdiv_pos.
    - apply sumQ_pos; [assumption|]. intros x Hx. eapply nz_pos; eauto.
    - now apply qlen_pos.
  Qed.

  Lemma ic_update_some : forall m b b' var mu,
    ic_update m b = Some (b', var, mu) ->
    nzs m <> [] /\ mu = mean (nzs m) /\ var = variance (nzs m) /\ b' = map (upd mu) (combine m b).
  Proof.
    intros m b b' var mu H. unfold ic_update in H. destruct (nzs m) as [|x l] eqn:E; [discriminate|].
    inversion H; subst. repeat split; congruence.
  Qed.

  (** C10.2a  a zero weight stays zero under a sweep *)
  Theorem zero_stays_zero : forall m b b' var mu i,
    ic_update m b = Some (b', var, mu) -> length m = length b ->
    qnth b i == 0 -> qnth b' i == 0.
  Proof.
    intros m b b' var mu i H Hl Hz. apply ic_update_some in H. destruct H as [_ [_ [_ ->]]].
    rewrite qnth_upd by assumption. unfold upd. destruct (qz (qnth m i)); [assumption|].
    rewrite Qred_correct, Hz. unfold Qdiv. ring.
  Qed.

  (** C10.2b  a positive weight stays positive; weights stay non-negative *)
  Theorem positive_stays_positive : forall m b b' var mu i,
    MargOf m b -> NonNeg b -> length b = n ->
    ic_update m b = Some (b', var, mu) -> InR i ->
    0 < qnth b i -> 0 < qnth b' i.
  Proof.
    intros m b b' var mu i HM Hb Hlb H Hi Hp. apply ic_update_some in H. destruct H as [Hne [-> [_ ->]]].
    pose proof (mean_nz_pos m b HM Hb Hne) as Hmu.
    rewrite qnth_upd by (destruct HM; congruence).
    rewrite upd_eq by lra. destruct (qz (qnth m i)) eqn:E; [assumption|].
    apply qz_false in E.
    assert (0 < qnth m i).
    { pose proof (marg_nonneg m b i HM Hb Hi). destruct (Qlt_le_dec 0 (qnth m i)); [assumption|]. exfalso; apply E; lra. }
    assert (0 < mean (nzs m) / qnth m i) by (now apply Qdiv_pos). nra.
  Qed.

  Lemma marg_nonneg_all : forall m b i, MargOf m b -> NonNeg b -> 0 <= qnth m i.
  Proof.
    intros m b i HM Hb. destruct (Nat.lt_ge_cases (Z.to_nat i) n) as [Hlt|Hge].
    - assert (E : qnth m i = qnth m (Z.of_nat (Z.to_nat i))) by (unfold qnth; now rewrite Nat2Z.id).
      rewrite E. apply (marg_nonneg m b); auto. unfold InR. lia.
    - unfold qnth. rewrite nth_overflow; [apply Qle_refl | destruct HM; lia].
  Qed.

  Theorem sweep_nonneg : forall m b b' var mu,
    MargOf m b -> NonNeg b -> length b = n ->
    ic_update m b = Some (b', var, mu) -> NonNeg b'.
  Proof.
    intros m b b' var mu HM Hb Hlb H i. apply ic_update_some in H. destruct H as [Hne [-> [_ ->]]].
    pose proof (mean_nz_pos m b HM Hb Hne) as Hmu.
    rewrite qnth_upd by (destruct HM; congruence).
    rewrite upd_eq by lra. destruct (qz (qnth m i)) eqn:E; [apply Hb|].
    apply qz_false in E.
    assert (0 < qnth m i).
    { pose proof (marg_nonneg_all m b i HM Hb). destruct (Qlt_le_dec 0 (qnth m i)); [assumption|]. exfalso; apply E; lra. }
    assert (0 < mean (nzs m) / qnth m i) by (now apply Qdiv_pos).
    specialize (Hb i). nra.
  Qed.
  (** the squared deviation of a non-zero marginal is at most N * var *)
  Lemma dev_bound : forall (l : list Q) x, In x l ->
    (x - mean l) * (x - mean l) <= qlen l * variance l.
  Proof.
    intros l x Hx. rewrite variance_eq.
    assert (Hne : l <> []) by (intro; subst; contradiction).
    pose proof (qlen_pos l Hne) as HN.
    setoid_replace (qlen l * (sumQ (map (fun x0 => (x0 - mean l) * (x0 - mean l)) l) / qlen l))
      with (sumQ (map (fun x0 => (x0 - mean l) * (x0 - mean l)) l)) by (field; lra).
    now apply sq_le_sum.
  Qed.

  Lemma abs_from_sq : forall d e : Q, 0 <= e -> d * d < e * e -> - e < d /\ d < e.
  Proof. intros d e He H. split; nra. Qed.

  Lemma ratio_bounds : forall mu mk eps, 0 < mk -> mu * (1 - eps) <= mk -> mk <= mu * (1 + eps) ->
    1 <= (mu / mk) * (1 + eps) /\ (mu / mk) * (1 - eps) <= 1.
  Proof.
    intros mu mk eps Hk H1 H2. split.
    - apply (Qmult_le_r _ _ mk Hk).
      setoid_replace (mu / mk * (1 + eps) * mk) with (mu * (1 + eps)) by (field; lra). lra.
    - apply (Qmult_le_r _ _ mk Hk).
      setoid_replace (mu / mk * (1 - eps) * mk) with (mu * (1 - eps)) by (field; lra). lra.
  Qed.

  Definition cf (mu : Q) (m : list Q) (k : Z) : Q := if qz (qnth m k) then 1 else mu / qnth m k.

  Lemma rowsum_as_terms : forall b i, rowsum F n b i == sumQ (map (fun j => qnth b i * F i j * qnth b j) (zrange 0 n)).
  Proof.
    intros. unfold rowsum. rewrite <- sumQ_scal. apply sumQ_ext. intros; ring.
  Qed.

  (** C10.4  flatness bound.  The sweep that passes the test var < tol returns weights b' that are one update
      ahead of the tested marginals m; for every eps in [0,1) with N*tol <= eps^2 * mu^2 the row sums of
      diag(b') F diag(b') on every bin with a non-zero marginal lie in [mu/(1+eps), mu/(1-eps)]. *)
  Theorem flatness_bound : forall m b b' var mu tol eps i,
    MargOf m b -> NonNeg b -> length b = n ->
    ic_update m b = Some (b', var, mu) ->
    var < tol -> 0 <= eps -> eps < 1 ->
    qlen (nzs m) * tol <= eps * eps * mu * mu ->
    InR i -> ~ qnth m i == 0 ->
    mu / (1 + eps) <= rowsum F n b' i /\ rowsum F n b' i <= mu / (1 - eps).
  Proof.
    intros m b b' var mu tol eps i HM Hb Hlb Hup Hvar He0 He1 Hbound Hi Hmi.
    apply ic_update_some in Hup. destruct Hup as [Hne [Emu [Evar Eb']]].
    assert (Hmu : 0 < mu) by (subst mu; eapply mean_nz_pos; eauto).
    assert (HN : 0 < qlen (nzs m)) by (now apply qlen_pos).
    assert (Hlm : length m = length b) by (destruct HM; congruence).
    (* A: every non-zero marginal is within eps*mu of mu *)
    assert (A : forall k, ~ qnth m k == 0 -> 0 < qnth m k /\ mu * (1 - eps) <= qnth m k /\ qnth m k <= mu * (1 + eps)).
    { intros k Hk.
      assert (Hin : In (qnth m k) (nzs m)).
      { apply in_nzs. split; [|assumption]. unfold qnth.
        destruct (Nat.lt_ge_cases (Z.to_nat k) (length m)) as [Hlt|Hge]; [now apply nth_In|].
        exfalso. apply Hk. unfold qnth. now rewrite nth_overflow. }
      pose proof (dev_bound (nzs m) (qnth m k) Hin) as Hd. rewrite <- Emu, <- Evar in Hd.
      assert (Hsq : (qnth m k - mu) * (qnth m k - mu) < (eps * mu) * (eps * mu)).
      { assert (qlen (nzs m) * var < qlen (nzs m) * tol) by (apply Qmult_lt_l; assumption).
        setoid_replace (eps * mu * (eps * mu)) with (eps * eps * mu * mu) by ring. lra. }
      assert (0 <= eps * mu) by nra.
      destruct (abs_from_sq _ _ H Hsq) as [H1 H2].
      split; [eapply nz_pos; eauto|]. split; nra. }
    (* B: the new weights *)
    assert (B : forall k, qnth b' k == qnth b k * cf mu m k).
    { intros k. rewrite Eb', qnth_upd by assumption. rewrite upd_eq by lra.
      unfold cf. destruct (qz (qnth m k)); ring. }
    assert (Cpos : forall k, 0 < cf mu m k).
    { intros k. unfold cf. destruct (qz (qnth m k)) eqn:E; [lra|]. apply qz_false in E.
      apply Qdiv_pos; [assumption | apply (A k E)]. }
    assert (Cb : forall k, ~ qnth m k == 0 -> 1 <= cf mu m k * (1 + eps) /\ cf mu m k * (1 - eps) <= 1).
    { intros k Hk. destruct (A k Hk) as [Hp [H1 H2]]. unfold cf.
      destruct (qz (qnth m k)) eqn:E; [apply qz_true in E; contradiction|]. now apply ratio_bounds. }
    (* the new row sum as c_i * sum_j t_j c_j with t_j = b_i F_ij b_j >= 0 *)
    set (t := fun j => qnth b i * F i j * qnth b j).
    assert (Ht0 : forall j, 0 <= t j).
    { intros j. unfold t. pose proof (Hb i). pose proof (Hb j). pose proof (F_nonneg i j).
      assert (0 <= qnth b i * F i j) by nra. nra. }
    assert (ER : rowsum F n b' i == cf mu m i * sumQ (map (fun j => t j * cf mu m j) (zrange 0 n))).
    { rewrite rowsum_as_terms. rewrite <- sumQ_scal. apply sumQ_ext. intros j _.
      rewrite (B i), (B j). unfold t. ring. }
    assert (Esum : sumQ (map t (zrange 0 n)) == qnth m i).
    { destruct HM as [_ HM]. rewrite (HM i Hi). rewrite rowsum_as_terms. reflexivity. }
    (* a non-zero term has a partner with a non-zero marginal *)
    assert (Hpartner : forall j, In j (zrange 0 n) -> ~ t j == 0 -> ~ qnth m j == 0).
    { intros j Hj Htj Hmj. apply in_zrange in Hj.
      destruct HM as [_ HM]. rewrite (HM j Hj) in Hmj. rewrite rowsum_as_terms in Hmj.
      assert (Hle : qnth b j * F j i * qnth b i <= sumQ (map (fun k => qnth b j * F j k * qnth b k) (zrange 0 n))).
      { apply (sumQ_term_le (zrange 0 n) (fun k => qnth b j * F j k * qnth b k)).
        - intros k _. pose proof (Hb j). pose proof (Hb k). pose proof (F_nonneg j k).
          assert (0 <= qnth b j * F j k) by nra. nra.
        - now apply in_zrange. }
      apply Htj. unfold t. pose proof (Ht0 j) as H0. unfold t in H0.
      rewrite (F_sym j i) in Hle. rewrite Hmj in Hle.
      setoid_replace (qnth b j * F i j * qnth b i) with (qnth b i * F i j * qnth b j) in Hle by ring.
      lra. }
    assert (Hlo : sumQ (map t (zrange 0 n)) <= sumQ (map (fun j => t j * cf mu m j * (1 + eps)) (zrange 0 n))).
    { apply sumQ_le. intros j Hj. pose proof (Ht0 j) as H0.
      destruct (Qeq_dec (t j) 0) as [Ez|Enz]; [rewrite Ez; lra|].
      destruct (Cb j (Hpartner j Hj Enz)) as [H1 _].
      setoid_replace (t j * cf mu m j * (1 + eps)) with (t j * (cf mu m j * (1 + eps))) by ring. nra. }
    assert (Hhi : sumQ (map (fun j => t j * cf mu m j * (1 - eps)) (zrange 0 n)) <= sumQ (map t (zrange 0 n))).
    { apply sumQ_le. intros j Hj. pose proof (Ht0 j) as H0.
      destruct (Qeq_dec (t j) 0) as [Ez|Enz]; [rewrite Ez; lra|].
      destruct (Cb j (Hpartner j Hj Enz)) as [_ H2].
      setoid_replace (t j * cf mu m j * (1 - eps)) with (t j * (cf mu m j * (1 - eps))) by ring. nra. }
    assert (Eci : cf mu m i * qnth m i == mu).
    { unfold cf. destruct (qz (qnth m i)) eqn:E; [apply qz_true in E; contradiction|]. field. assumption. }
    set (S := sumQ (map (fun j => t j * cf mu m j) (zrange 0 n))) in *.
    assert (E1 : sumQ (map (fun j => t j * cf mu m j * (1 + eps)) (zrange 0 n)) == (1 + eps) * S).
    { unfold S. rewrite <- sumQ_scal. apply sumQ_ext. intros; ring. }
    assert (E2 : sumQ (map (fun j => t j * cf mu m j * (1 - eps)) (zrange 0 n)) == (1 - eps) * S).
    { unfold S. rewrite <- sumQ_scal. apply sumQ_ext. intros; ring. }
    rewrite E1 in Hlo. rewrite E2 in Hhi. rewrite Esum in Hlo, Hhi.
    pose proof (Cpos i) as Hci.
    split.
    - apply Qle_shift_div_r; [lra|]. rewrite ER.
      assert (cf mu m i * qnth m i <= cf mu m i * ((1 + eps) * S)) by (apply Qmult_le_l; assumption).
      rewrite Eci in H. lra.
    - apply Qle_shift_div_l; [lra|]. rewrite ER.
      assert (cf mu m i * ((1 - eps) * S) <= cf mu m i * qnth m i) by (apply Qmult_le_l; assumption).
      rewrite Eci in H. lra.
  Qed.

  (** ** the loop: zero pattern, NaN set, last sweep *)
  Definition ZPat (b b' : list Q) : Prop := forall i, InR i -> (qnth b i == 0 <-> qnth b' i == 0).
  Definition AllZero (b : list Q) : Prop := forall i, InR i -> rowsum F n b i == 0.

  Lemma zpat_refl : forall b, ZPat b b. Proof. intros b i _. tauto. Qed.
  Lemma zpat_trans : forall a b c, ZPat a b -> ZPat b c -> ZPat a c.
  Proof. intros a b c H1 H2 i Hi. rewrite (H1 i Hi). now apply H2. Qed.
  Lemma zpat_sym : forall a b, ZPat a b -> ZPat b a.
  Proof. intros a b H i Hi. symmetry. now apply H. Qed.

  Lemma sumQ_exists_pos : forall (L : list Z) f, (forall j, In j L -> 0 <= f j) -> 0 < sumQ (map f L) ->
    exists j, In j L /\ 0 < f j.
  Proof.
    induction L as [|x L IH]; intros f H Hs; simpl in Hs; [lra|].
    destruct (Qlt_le_dec 0 (f x)) as [Hp|Hn].
    - exists x. split; [now left | assumption].
    - assert (f x == 0) by (pose proof (H x (or_introl eq_refl)); lra).
      destruct (IH f) as [j [Hj Hpj]]; [intros; apply H; now right | lra |].
      exists j. split; [now right | assumption].
  Qed.

  Lemma rowsum_pos_witness : forall b i, NonNeg b -> 0 < rowsum F n b i ->
    0 < qnth b i /\ exists j, InR j /\ 0 < F i j /\ 0 < qnth b j.
  Proof.
    intros b i Hb Hp. unfold rowsum in Hp.
    assert (Hs : 0 <= sumQ (map (fun j => F i j * qnth b j) (zrange 0 n))).
    { apply sumQ_nonneg. intros j _. pose proof (F_nonneg i j). pose proof (Hb j). nra. }
    pose proof (Hb i) as Hbi.
    assert (0 < qnth b i) by nra.
    assert (Hs' : 0 < sumQ (map (fun j => F i j * qnth b j) (zrange 0 n))) by nra.
    split; [assumption|].
    assert (Hnn : forall j, In j (zrange 0 n) -> 0 <= (fun j => F i j * qnth b j) j).
    { intros j _. pose proof (F_nonneg i j). pose proof (Hb j). cbv beta. nra. }
    destruct (sumQ_exists_pos _ _ Hnn Hs') as [j [Hj Hpj]]. cbv beta in Hpj.
    exists j. apply in_zrange in Hj. pose proof (F_nonneg i j). pose proof (Hb j).
    split; [exact Hj|]. split; nra.
  Qed.

  Lemma rowsum_support : forall b b' i, NonNeg b -> NonNeg b' -> ZPat b b' -> InR i ->
    0 < rowsum F n b i -> 0 < rowsum F n b' i.
  Proof.
    intros b b' i Hb Hb' Hz Hi Hp.
    destruct (rowsum_pos_witness b i Hb Hp) as [Hbi [j [Hj [HF Hbj]]]].
    assert (0 < qnth b' i).
    { pose proof (Hb' i). destruct (Qeq_dec (qnth b' i) 0) as [E|E]; [apply (Hz i Hi) in E; lra | lra]. }
    assert (0 < qnth b' j).
    { pose proof (Hb' j). destruct (Qeq_dec (qnth b' j) 0) as [E|E]; [apply (Hz j Hj) in E; lra | lra]. }
    rewrite rowsum_as_terms.
    assert (Hle : qnth b' i * F i j * qnth b' j <= sumQ (map (fun k => qnth b' i * F i k * qnth b' k) (zrange 0 n))).
    { apply (sumQ_term_le (zrange 0 n) (fun k => qnth b' i * F i k * qnth b' k)).
      - intros k _. pose proof (Hb' i). pose proof (Hb' k). pose proof (F_nonneg i k).
        assert (0 <= qnth b' i * F i k) by nra. nra.
      - now apply in_zrange. }
    assert (0 < qnth b' i * F i j) by nra. nra.
  Qed.

  Lemma allzero_zpat : forall b b', NonNeg b -> NonNeg b' -> ZPat b b' -> AllZero b -> AllZero b'.
  Proof.
    intros b b' Hb Hb' Hz Ha i Hi.
    pose proof (rowsum_nonneg F n b' i F_nonneg Hb').
    destruct (Qlt_le_dec 0 (rowsum F n b' i)) as [Hp|Hn]; [|lra].
    pose proof (rowsum_support b' b i Hb' Hb (zpat_sym _ _ Hz) Hi Hp). rewrite (Ha i Hi) in H0. lra.
  Qed.

  Lemma nzs_nil_iff : forall m, length m = n -> (nzs m = [] <-> forall i, InR i -> qnth m i == 0).
  Proof.
    intros m Hl. split.
    - intros H i Hi. destruct (Qeq_dec (qnth m i) 0) as [E|E]; [assumption|].
      assert (In (qnth m i) (nzs m)).
      { apply in_nzs. split; [|assumption]. apply qnth_in. unfold zlen, InR in *. lia. }
      rewrite H in H0. contradiction.
    - intros H. destruct (nzs m) as [|x l] eqn:E; [reflexivity|].
      assert (Hx : In x (nzs m)) by (rewrite E; now left).
      apply in_nzs in Hx. destruct Hx as [Hin Hnz].
      apply In_nth with (d := 0) in Hin. destruct Hin as [k [Hk <-]].
      exfalso. apply Hnz. specialize (H (Z.of_nat k)). unfold qnth in H. rewrite Nat2Z.id in H.
      apply H. unfold InR. lia.
  Qed.

  Lemma update_none_iff : forall m b, MargOf m b -> (ic_update m b = None <-> AllZero b).
  Proof.
    intros m b HM. unfold ic_update.
    assert (E : nzs m = [] <-> AllZero b).
    { rewrite (nzs_nil_iff m (proj1 HM)). unfold AllZero. destruct HM as [_ HM].
      split; intros H i Hi; [rewrite <- (HM i Hi) | rewrite (HM i Hi)]; now apply H. }
    destruct (nzs m) as [|x l]; split; intros H; try reflexivity; try discriminate.
    - now apply E.
    - apply E in H. discriminate.
  Qed.

  Lemma length_update : forall m b b' var mu, ic_update m b = Some (b', var, mu) -> length m = length b ->
    length b' = length b.
  Proof.
    intros m b b' var mu H Hl. apply ic_update_some in H. destruct H as [_ [_ [_ ->]]].
    rewrite map_length, combine_length. lia.
  Qed.

  Lemma update_zpat : forall m b b' var mu, MargOf m b -> NonNeg b -> length b = n ->
    ic_update m b = Some (b', var, mu) -> ZPat b b'.
  Proof.
    intros m b b' var mu HM Hb Hl H i Hi. split.
    - intros Hz. eapply zero_stays_zero; eauto. destruct HM; congruence.
    - intros Hz. pose proof (Hb i) as H0.
      destruct (Qeq_dec (qnth b i) 0) as [E|E]; [assumption|].
      assert (0 < qnth b i) by lra.
      pose proof (positive_stays_positive m b b' var mu i HM Hb Hl H Hi H1). lra.
  Qed.

  Variable margf : list Q -> list Q.
  Hypothesis margf_spec : forall b, length b = n -> MargOf (margf b) b.

  (** invariant of the loop, by induction on the iteration budget *)
  Theorem loop_inv : forall tol fuel b bb s v k,
    length b = n -> NonNeg b -> ic_loop margf tol fuel b = Some (bb, s, v, k) ->
    length bb = n /\ NonNeg bb /\ ZPat b bb /\ (s = None <-> AllZero b) /\ (1 <= k <= fuel)%nat /\
    (forall mu, s = Some mu ->
       exists bp, length bp = n /\ NonNeg bp /\ ZPat b bp /\ ic_update (margf bp) bp = Some (bb, v, mu) /\
                  ((k < fuel)%nat -> v < tol)).
  Proof.
    intros tol fuel. induction fuel as [|f IH]; intros b bb s v k Hl Hb H; [discriminate|].
    simpl in H. pose proof (margf_spec b Hl) as HM.
    destruct (ic_update (margf b) b) as [[[b' var] mu]|] eqn:E.
    - assert (Hnz : ~ AllZero b).
      { intro Ha. apply (update_none_iff _ _ HM) in Ha. congruence. }
      assert (Hl' : length b' = n) by (erewrite length_update; eauto; destruct HM; congruence).
      assert (Hb' : NonNeg b') by (eapply sweep_nonneg; eauto).
      assert (Hz' : ZPat b b') by (eapply update_zpat; eauto).
      destruct (Qltb var tol) eqn:Ec.
      + inversion H; subst.
        refine (conj Hl' (conj Hb' (conj Hz' (conj _ (conj _ _))))).
        * split; [discriminate | intros Ha; contradiction].
        * lia.
        * intros mu0 Hs. inversion Hs; subst. exists b.
          refine (conj Hl (conj Hb (conj (zpat_refl b) (conj E _)))).
          intros _. now apply Qltb_true.
      + destruct (ic_loop margf tol f b') as [[[[bb2 s2] v2] k2]|] eqn:E2.
        * inversion H; subst. destruct (IH _ _ _ _ _ Hl' Hb' E2) as [L2 [N2 [Z2 [S2 [K2 P2]]]]].
          refine (conj L2 (conj N2 (conj (zpat_trans _ _ _ Hz' Z2) (conj _ (conj _ _))))).
          -- split.
             ++ intros Hs. apply S2 in Hs. exfalso. apply Hnz.
                apply (allzero_zpat b' b); auto using zpat_sym.
             ++ intros Ha. contradiction.
          -- lia.
          -- intros mu0 Hs. destruct (P2 mu0 Hs) as [bp [Lp [Np [Zp [Up Cp]]]]].
             exists bp. refine (conj Lp (conj Np (conj (zpat_trans _ _ _ Hz' Zp) (conj Up _)))).
             intros Hk. apply Cp. lia.
        * inversion H; subst.
          refine (conj Hl' (conj Hb' (conj Hz' (conj _ (conj _ _))))).
          -- split; [discriminate | intros Ha; contradiction].
          -- lia.
          -- intros mu0 Hs. inversion Hs; subst. exists b.
             refine (conj Hl (conj Hb (conj (zpat_refl b) (conj E _)))).
             intros Hk. exfalso. destruct f; [lia|]. simpl in E2.
             destruct (ic_update (margf bb) bb) as [[[l1 q1] q2]|]; [|discriminate].
             destruct (Qltb q1 tol); [discriminate|].
             destruct (ic_loop margf tol f l1) as [[[[? ?] ?] ?]|]; discriminate.
    - inversion H; subst. apply (update_none_iff _ _ HM) in E.
      refine (conj Hl (conj Hb (conj (zpat_refl _) (conj _ (conj _ _))))).
      + split; auto.
      + lia.
      + intros; discriminate.
  Qed.

  Definition onth (l : list (option Q)) (i : Z) : option Q := nth (Z.to_nat i) l None.

  (** C10.2  NaN-set characterisation: after the loop a bin is NaN iff it entered with weight 0 (masked) or the
      whole (sub)problem has no non-zero marginal; every other bin has a positive weight *)
  Theorem nan_set : forall tol fuel b bb s v k i,
    length b = n -> NonNeg b -> ic_loop margf tol fuel b = Some (bb, s, v, k) -> InR i ->
    (onth (mark_nan s bb) i = None <-> (AllZero b \/ qnth b i == 0)) /\
    (forall x, onth (mark_nan s bb) i = Some x -> 0 < x /\ x = qnth bb i).
  Proof.
    intros tol fuel b bb s v k i Hl Hb H Hi.
    destruct (loop_inv tol fuel b bb s v k Hl Hb H) as [L [N [Z [S _]]]].
    assert (Hk : (Z.to_nat i < length bb)%nat) by (unfold InR in Hi; lia).
    unfold onth, mark_nan. destruct s as [mu|].
    - assert (Hn : ~ AllZero b) by (intro Ha; apply S in Ha; discriminate).
      rewrite (nth_indep _ None ((fun x => if qz x then None else Some x) 0)) by (now rewrite map_length).
      rewrite (map_nth (fun x => if qz x then None else Some x)). fold (qnth bb i).
      destruct (qz (qnth bb i)) eqn:E.
      + apply qz_true in E. split; [|intros; discriminate]. split; [intros _|reflexivity].
        right. now apply (Z i Hi).
      + apply qz_false in E. split.
        * split; [discriminate|]. intros [Ha|Hz]; [contradiction|]. apply (Z i Hi) in Hz. contradiction.
        * intros x Hx. inversion Hx; subst. split; [|reflexivity]. pose proof (N i). lra.
    - assert (Ha : AllZero b) by (now apply S).
      assert (En : forall (l : list Q) k0, nth k0 (map (fun _ : Q => @None Q) l) None = None).
      { induction l as [|y l IHl]; intros [|k0]; simpl; auto. }
      rewrite En. split; [tauto | intros; discriminate].
  Qed.

  (** number of bins with a non-zero row sum: the N of the flatness bound, a function of the zero pattern only *)
  Definition nnz_rows (b : list Q) : Q :=
    qlen (filter (fun i => negb (qz (rowsum F n b i))) (zrange 0 n)).

  Lemma list_as_map : forall m : list Q, length m = n -> m = map (qnth m) (zrange 0 n).
  Proof.
    intros m Hl. apply (nth_ext _ _ 0 (qnth m 0)).
    - unfold zrange. now rewrite !map_length, seq_length.
    - intros k Hk. rewrite nth_zrange_map by lia. unfold qnth. now rewrite Nat2Z.id.
  Qed.

  Lemma filter_map_length {A B} : forall (g : A -> B) p (L : list A),
    length (filter p (map g L)) = length (filter (fun x => p (g x)) L).
  Proof. induction L as [|x L IH]; simpl; [reflexivity|]. destruct (p (g x)); simpl; now rewrite IH. Qed.

  Lemma qz_proper : forall x y, x == y -> qz x = qz y.
  Proof.
    intros x y H. destruct (qz x) eqn:Ex, (qz y) eqn:Ey; auto.
    - apply qz_true in Ex. apply qz_false in Ey. exfalso. apply Ey. now rewrite <- H.
    - apply qz_true in Ey. apply qz_false in Ex. exfalso. apply Ex. now rewrite H.
  Qed.

  Lemma rowsum_zero_zpat : forall b b' i, NonNeg b -> NonNeg b' -> ZPat b b' -> InR i ->
    qz (rowsum F n b i) = qz (rowsum F n b' i).
  Proof.
    intros b b' i Hb Hb' Hz Hi.
    pose proof (rowsum_nonneg F n b i F_nonneg Hb). pose proof (rowsum_nonneg F n b' i F_nonneg Hb').
    destruct (qz (rowsum F n b i)) eqn:E1, (qz (rowsum F n b' i)) eqn:E2; auto.
    - apply qz_true in E1. apply qz_false in E2.
      assert (0 < rowsum F n b' i) by (destruct (Qlt_le_dec 0 (rowsum F n b' i)); [assumption | exfalso; apply E2; lra]).
      pose proof (rowsum_support b' b i Hb' Hb (zpat_sym _ _ Hz) Hi H1). lra.
    - apply qz_true in E2. apply qz_false in E1.
      assert (0 < rowsum F n b i) by (destruct (Qlt_le_dec 0 (rowsum F n b i)); [assumption | exfalso; apply E1; lra]).
      pose proof (rowsum_support b b' i Hb Hb' Hz Hi H1). lra.
  Qed.

  Lemma nzs_count : forall m b bp, MargOf m bp -> NonNeg b -> NonNeg bp -> ZPat b bp ->
    qlen (nzs m) = nnz_rows b.
  Proof.
    intros m b bp [Hl HM] Hb Hbp Hz. unfold nnz_rows, qlen, zlen. f_equal. f_equal.
    unfold nzs. rewrite (list_as_map m Hl) at 1. rewrite filter_map_length.
    f_equal. apply filter_ext_in. intros i Hi. apply in_zrange in Hi. f_equal.
    rewrite (qz_proper _ _ (HM i Hi)). symmetry. now apply rowsum_zero_zpat.
  Qed.

  (** C10.4 on the loop: a run that stops with var < tol returns weights whose row sums lie in the band *)
  Theorem loop_flatness : forall tol fuel b bb mu v k eps i,
    length b = n -> NonNeg b ->
    ic_loop margf tol fuel b = Some (bb, Some mu, v, k) -> v < tol ->
    0 <= eps -> eps < 1 -> nnz_rows b * tol <= eps * eps * mu * mu ->
    InR i -> ~ rowsum F n b i == 0 ->
    mu / (1 + eps) <= rowsum F n bb i /\ rowsum F n bb i <= mu / (1 - eps).
  Proof.
    intros tol fuel b bb mu v k eps i Hl Hb H Hv He0 He1 HN Hi Hnz.
    destruct (loop_inv tol fuel b bb (Some mu) v k Hl Hb H) as [L [N [Z [S [K P]]]]].
    destruct (P mu eq_refl) as [bp [Lp [Np [Zp [Up _]]]]].
    pose proof (margf_spec bp Lp) as HM.
    apply (flatness_bound (margf bp) bp bb v mu tol eps i); auto.
    - rewrite (nzs_count (margf bp) b bp HM Hb Np Zp). exact HN.
    - destruct HM as [_ HM]. rewrite (HM i Hi).
      intro E. apply Hnz. apply qz_true. rewrite (rowsum_zero_zpat b bp i Hb Np Zp Hi). now apply qz_true.
  Qed.

  (** the rescaled weights: any non-negative w with w_i^2 * scale = b_i^2 (i.e. w = b / sqrt(scale)) *)
  Lemma sq_inj : forall x y : Q, 0 <= x -> 0 <= y -> x * x == y * y -> x == y.
  Proof.
    intros x y Hx Hy H. destruct (Qlt_le_dec x y) as [Hlt|Hge].
    - exfalso. assert (x * x < y * y) by nra. lra.
    - destruct (Qlt_le_dec y x) as [Hlt|Hle]; [|lra]. exfalso. assert (y * y < x * x) by nra. lra.
  Qed.

  Theorem rescaled_rowsum : forall (w bb : list Q) mu i, 0 < mu -> NonNeg bb ->
    (forall k, 0 <= qnth w k /\ qnth w k * qnth w k * mu == qnth bb k * qnth bb k) ->
    rowsum F n bb i == mu * rowsum F n w i.
  Proof.
    intros w bb mu i Hmu Hbb Hw. rewrite !rowsum_as_terms. rewrite <- sumQ_scal. apply sumQ_ext. intros j _.
    assert (E : qnth bb i * qnth bb j == mu * (qnth w i * qnth w j)).
    { destruct (Hw i) as [Wi Ei]. destruct (Hw j) as [Wj Ej]. pose proof (Hbb i). pose proof (Hbb j).
      apply sq_inj; [nra | | ].
      - assert (0 <= qnth w i * qnth w j) by nra. nra.
      - setoid_replace (qnth bb i * qnth bb j * (qnth bb i * qnth bb j))
          with ((qnth bb i * qnth bb i) * (qnth bb j * qnth bb j)) by ring.
        rewrite <- Ei, <- Ej. ring. }
    setoid_replace (qnth bb i * F i j * qnth bb j) with (F i j * (qnth bb i * qnth bb j)) by ring.
    rewrite E. ring.
  Qed.

  Theorem loop_flatness_rescaled : forall tol fuel b bb mu v k eps i (w : list Q),
    length b = n -> NonNeg b ->
    ic_loop margf tol fuel b = Some (bb, Some mu, v, k) -> v < tol ->
    0 <= eps -> eps < 1 -> nnz_rows b * tol <= eps * eps * mu * mu ->
    (forall k, 0 <= qnth w k /\ qnth w k * qnth w k * mu == qnth bb k * qnth bb k) ->
    InR i -> ~ rowsum F n b i == 0 ->
    1 / (1 + eps) <= rowsum F n w i /\ rowsum F n w i <= 1 / (1 - eps).
  Proof.
    intros tol fuel b bb mu v k eps i w Hl Hb H Hv He0 He1 HN Hw Hi Hnz.
    destruct (loop_flatness tol fuel b bb mu v k eps i Hl Hb H Hv He0 He1 HN Hi Hnz) as [H1 H2].
    destruct (loop_inv tol fuel b bb (Some mu) v k Hl Hb H) as [L [N [Z [S [K P]]]]].
    destruct (P mu eq_refl) as [bp [Lp [Np [Zp [Up _]]]]].
    assert (Hmu : 0 < mu).
    { apply ic_update_some in Up. destruct Up as [Hne [-> _]]. eapply mean_nz_pos; eauto. }
    rewrite (rescaled_rowsum w bb mu i Hmu N Hw) in H1, H2.
    split.
    - apply Qle_shift_div_r; [lra|].
      assert (A1 : mu / (1 + eps) * (1 + eps) <= mu * rowsum F n w i * (1 + eps)) by (apply Qmult_le_r; [lra | exact H1]).
      setoid_replace (mu / (1 + eps) * (1 + eps)) with (mu * 1) in A1 by (field; lra).
      setoid_replace (mu * rowsum F n w i * (1 + eps)) with (mu * (rowsum F n w i * (1 + eps))) in A1 by ring.
      now apply (Qmult_le_l _ _ mu Hmu).
    - apply Qle_shift_div_l; [lra|].
      assert (A2 : mu * rowsum F n w i * (1 - eps) <= mu / (1 - eps) * (1 - eps)) by (apply Qmult_le_r; [lra | exact H2]).
      setoid_replace (mu / (1 - eps) * (1 - eps)) with (mu * 1) in A2 by (field; lra).
      setoid_replace (mu * rowsum F n w i * (1 - eps)) with (mu * (rowsum F n w i * (1 - eps))) in A2 by ring.
      now apply (Qmult_le_l _ _ mu Hmu).
  Qed.
End Sweep.

(** * 6. Instantiation on the model pipeline: genome-wide and trans-only modes *)
Definition datnn (f : wpx -> wpx) : Prop := forall w, 0 <= dat w -> 0 <= dat (f w).

Lemma datnn_binarize : datnn f_binarize.
Proof. intros w _. unfold f_binarize, dat. simpl. destruct (qz (snd w)); lra. Qed.
Lemma datnn_zero_diags : forall d, datnn (f_zero_diags d).
Proof. intros d w H. unfold f_zero_diags. destruct (_ <? _)%Z; [unfold dat; simpl; lra | assumption]. Qed.
Lemma datnn_zero_trans : forall c, datnn (f_zero_trans c).
Proof. intros c w H. unfold f_zero_trans. destruct (_ =? _)%Z; [assumption | unfold dat; simpl; lra]. Qed.
Lemma datnn_zero_cis : forall c, datnn (f_zero_cis c).
Proof. intros c w H. unfold f_zero_cis. destruct (_ =? _)%Z; [unfold dat; simpl; lra | assumption]. Qed.

Lemma datnn_base_filters : forall o chroms, Forall datnn (base_filters o chroms).
Proof.
  intros o chroms. unfold base_filters. apply Forall_app. split.
  - destruct (o_cis o); constructor; [apply datnn_zero_trans | constructor].
  - destruct (_ =? _)%Z; constructor; [apply datnn_zero_diags | constructor].
Qed.

Lemma pipe1_datnn : forall fs w, Forall datnn fs -> 0 <= dat w -> 0 <= dat (pipe1 fs w).
Proof.
  induction fs as [|f fs IH]; intros w H Hw; [exact Hw|].
  inversion H; subst. unfold pipe1 in *. simpl. apply IH; auto.
Qed.

(** well-formed pixel table: upper triangular, bin ids in range, non-negative counts (executable check) *)
Definition good_px (n : nat) (px : list pixel) : bool :=
  upper_b px && inrange_b (Z.of_nat n) px && forallb (fun p => (0 <=? val p)%Z) px.

Lemma filtered_nonneg : forall n fs px, Forall datnn fs -> good_px n px = true ->
  Forall (fun w => 0 <= dat w) (filtered fs px).
Proof.
  intros n fs px Hf Hg. unfold good_px in Hg. rewrite !andb_true_iff in Hg. destruct Hg as [_ Hv].
  rewrite forallb_forall in Hv. unfold filtered. rewrite Forall_map, Forall_forall. intros p Hp.
  apply pipe1_datnn; [assumption|]. unfold init1, dat. simpl. specialize (Hv p Hp). unfold val in Hv.
  replace 0 with (inject_Z 0) by reflexivity. rewrite <- Zle_Qle. lia.
Qed.

Lemma length_reduce : forall n rs init, Forall (fun r => length r = n) rs -> length init = n ->
  length (fold_left vadd rs init) = n.
Proof.
  intros n rs. induction rs as [|r rs IH]; intros init Hf Hl; simpl; [assumption|].
  inversion Hf; subst. apply IH; [assumption|]. rewrite length_vadd; congruence.
Qed.

Lemma length_marg_of : forall n spans fs px, length (marg_of n spans fs px) = n.
Proof.
  intros. unfold marg_of, reduce_add. apply length_reduce.
  - unfold marg_chunks. rewrite Forall_map, Forall_forall. intros; apply length_marginalize.
  - unfold zeros. apply repeat_length.
Qed.

Definition chunk_ok (chunk : option Z) : Prop := match chunk with Some c => (1 <= c)%Z | None => True end.

(** the dense symmetric filtered matrix of a run *)
Definition Fmat (fs : list (wpx -> wpx)) (px : list pixel) : Z -> Z -> Q := dense (filtered fs px).

Lemma Fmat_sym : forall fs px i j, Fmat fs px i j == Fmat fs px j i.
Proof. intros. unfold Fmat. now rewrite dense_sym. Qed.

Lemma Fmat_nonneg : forall n fs px, Forall datnn fs -> good_px n px = true -> forall i j, 0 <= Fmat fs px i j.
Proof. intros. unfold Fmat. apply dense_nonneg. eapply filtered_nonneg; eauto. Qed.

Lemma gw_margof : forall n chunk fs px, chunk_ok chunk -> good_px n px = true -> Forall keyfix fs ->
  forall b, length b = n -> MargOf (Fmat fs px) n (margf_gw n (balance_spans (zlen px) chunk) fs px b) b.
Proof.
  intros n chunk fs px Hc Hg Hk b Hl. split.
  - unfold margf_gw. apply length_marg_of.
  - intros i Hi. unfold good_px in Hg. rewrite !andb_true_iff in Hg. destruct Hg as [[Hu Hr] _].
    unfold Fmat. apply margf_gw_is_rowsum; auto.
Qed.

(** trans-only: the loop runs on u = b * cweights over the cis-zeroed matrix T, i.e. on G = diag(cw) T diag(cw) *)
Definition Gmat (c : list Q) (T : Z -> Z -> Q) (i j : Z) : Q := qnth c i * T i j * qnth c j.

Lemma qnth_vmul : forall a b i, length a = length b -> qnth (vmul a b) i == qnth a i * qnth b i.
Proof.
  intros a b i. unfold qnth. generalize (Z.to_nat i) as k. revert b.
  induction a as [|x a IH]; intros b k Hl; destruct b as [|y b]; simpl in Hl; try discriminate.
  - destruct k; simpl; ring.
  - destruct k; simpl; [reflexivity|]. apply IH. congruence.
Qed.

Lemma rowsum_vmul : forall T n b c i, length b = length c ->
  rowsum T n (vmul b c) i == rowsum (Gmat c T) n b i.
Proof.
  intros T n b c i Hl. unfold rowsum, Gmat. rewrite (qnth_vmul b c i Hl).
  rewrite <- !sumQ_scal. apply sumQ_ext. intros j _. rewrite (qnth_vmul b c j Hl). ring.
Qed.

Lemma trans_margof : forall n chunk fs chroms offsets px,
  chunk_ok chunk -> good_px n px = true -> Forall keyfix fs ->
  length (cweights n offsets) = n ->
  forall b, length b = n ->
    MargOf (Gmat (cweights n offsets) (Fmat (fs ++ [f_zero_cis chroms]) px)) n
           (margf_trans n (balance_spans (zlen px) chunk) fs chroms offsets px b) b.
Proof.
  intros n chunk fs chroms offsets px Hc Hg Hk Hcw b Hl.
  assert (E : margf_trans n (balance_spans (zlen px) chunk) fs chroms offsets px b =
              margf_gw n (balance_spans (zlen px) chunk) (fs ++ [f_zero_cis chroms]) px (vmul b (cweights n offsets))).
  { unfold margf_trans, margf_gw. now rewrite <- app_assoc. }
  rewrite E.
  assert (Hk' : Forall keyfix (fs ++ [f_zero_cis chroms])).
  { apply Forall_app. split; [assumption|]. constructor; [apply keyfix_zero_cis | constructor]. }
  assert (Hlv : length (vmul b (cweights n offsets)) = n).
  { unfold vmul. rewrite map_length, combine_length. lia. }
  destruct (gw_margof n chunk _ px Hc Hg Hk' _ Hlv) as [L S]. split; [exact L|].
  intros i Hi. rewrite (S i Hi). apply rowsum_vmul. congruence.
Qed.

Lemma Gmat_sym : forall c T, (forall i j, T i j == T j i) -> forall i j, Gmat c T i j == Gmat c T j i.
Proof. intros c T H i j. unfold Gmat. rewrite (H i j). ring. Qed.

Lemma Gmat_nonneg : forall c T, (forall i, 0 <= qnth c i) -> (forall i j, 0 <= T i j) -> forall i j, 0 <= Gmat c T i j.
Proof.
  intros c T Hc HT i j. unfold Gmat. pose proof (Hc i). pose proof (Hc j). pose proof (HT i j).
  assert (0 <= qnth c i * T i j) by nra. nra.
Qed.

(** ** genome-wide mode of the model *)
Section GenomeWide.
  Variables (n : nat) (chunk : option Z) (fs : list (wpx -> wpx)) (px : list pixel).
  Hypothesis Hc : chunk_ok chunk.
  Hypothesis Hg : good_px n px = true.
  Hypothesis Hk : Forall keyfix fs.
  Hypothesis Hd : Forall datnn fs.
  Let margf := margf_gw n (balance_spans (zlen px) chunk) fs px.
  Let F := Fmat fs px.

  Theorem gw_nan_set : forall tol fuel b bb s v k i,
    length b = n -> NonNeg b -> ic_loop margf tol fuel b = Some (bb, s, v, k) -> InR n i ->
    (onth (mark_nan s bb) i = None <-> AllZero F n b \/ qnth b i == 0) /\
    (forall x, onth (mark_nan s bb) i = Some x -> 0 < x /\ x = qnth bb i).
  Proof.
    intros. eapply (nan_set F n (Fmat_nonneg n fs px Hd Hg) margf); eauto.
    intros b0 Hl0. now apply gw_margof.
  Qed.

  Theorem gw_flatness : forall tol fuel b bb mu v k eps i,
    length b = n -> NonNeg b ->
    ic_loop margf tol fuel b = Some (bb, Some mu, v, k) -> v < tol ->
    0 <= eps -> eps < 1 -> nnz_rows F n b * tol <= eps * eps * mu * mu ->
    InR n i -> ~ rowsum F n b i == 0 ->
    mu / (1 + eps) <= rowsum F n bb i /\ rowsum F n bb i <= mu / (1 - eps).
  Proof.
    intros. eapply (loop_flatness F n (Fmat_sym fs px) (Fmat_nonneg n fs px Hd Hg) margf); eauto.
    intros b0 Hl0. now apply gw_margof.
  Qed.

  Theorem gw_flatness_rescaled : forall tol fuel b bb mu v k eps i (w : list Q),
    length b = n -> NonNeg b ->
    ic_loop margf tol fuel b = Some (bb, Some mu, v, k) -> v < tol ->
    0 <= eps -> eps < 1 -> nnz_rows F n b * tol <= eps * eps * mu * mu ->
    (forall j, 0 <= qnth w j /\ qnth w j * qnth w j * mu == qnth bb j * qnth bb j) ->
    InR n i -> ~ rowsum F n b i == 0 ->
    1 / (1 + eps) <= rowsum F n w i /\ rowsum F n w i <= 1 / (1 - eps).
  Proof.
    intros. eapply (loop_flatness_rescaled F n (Fmat_sym fs px) (Fmat_nonneg n fs px Hd Hg) margf); eauto.
    intros b0 Hl0. now apply gw_margof.
  Qed.
End GenomeWide.

(** ** trans-only mode of the model: everything holds for the matrix G = diag(cw) T diag(cw), i.e. for the
    weights b_i * cweight_i on the cis-zeroed matrix T *)
Section TransOnly.
  Variables (n : nat) (chunk : option Z) (fs : list (wpx -> wpx)) (chroms offsets : list Z) (px : list pixel).
  Hypothesis Hc : chunk_ok chunk.
  Hypothesis Hg : good_px n px = true.
  Hypothesis Hk : Forall keyfix fs.
  Hypothesis Hd : Forall datnn fs.
  Hypothesis Hcwl : length (cweights n offsets) = n.
  Hypothesis Hcwp : forall i, 0 <= qnth (cweights n offsets) i.
  Let margf := margf_trans n (balance_spans (zlen px) chunk) fs chroms offsets px.
  Let T := Fmat (fs ++ [f_zero_cis chroms]) px.
  Let G := Gmat (cweights n offsets) T.

  Lemma trans_T_nonneg : forall i j, 0 <= T i j.
  Proof.
    apply (Fmat_nonneg n); [|assumption]. apply Forall_app. split; [assumption|].
    constructor; [apply datnn_zero_cis | constructor].
  Qed.

  Theorem trans_nan_set : forall tol fuel b bb s v k i,
    length b = n -> NonNeg b -> ic_loop margf tol fuel b = Some (bb, s, v, k) -> InR n i ->
    (onth (mark_nan s bb) i = None <-> AllZero G n b \/ qnth b i == 0) /\
    (forall x, onth (mark_nan s bb) i = Some x -> 0 < x /\ x = qnth bb i).
  Proof.
    intros. eapply (nan_set G n (Gmat_nonneg _ _ Hcwp trans_T_nonneg) margf); eauto.
    intros b0 Hl0. now apply trans_margof.
  Qed.

  (** C10.5  the flatness bound holds for the weights b_i * cweight_i (row sums of G under b = row sums of T under b*cw) *)
  Theorem trans_flatness : forall tol fuel b bb mu v k eps i,
    length b = n -> NonNeg b ->
    ic_loop margf tol fuel b = Some (bb, Some mu, v, k) -> v < tol ->
    0 <= eps -> eps < 1 -> nnz_rows G n b * tol <= eps * eps * mu * mu ->
    InR n i -> ~ rowsum G n b i == 0 ->
    mu / (1 + eps) <= rowsum T n (vmul bb (cweights n offsets)) i /\
    rowsum T n (vmul bb (cweights n offsets)) i <= mu / (1 - eps).
  Proof.
    intros tol fuel b bb mu v k eps i Hl Hb H Hv He0 He1 HN Hi Hnz.
    assert (Hspec : forall b0, length b0 = n -> MargOf G n (margf b0) b0) by (intros; now apply trans_margof).
    destruct (loop_inv G n (Gmat_nonneg _ _ Hcwp trans_T_nonneg) margf Hspec tol fuel b bb (Some mu) v k Hl Hb H) as [L _].
    rewrite (rowsum_vmul T n bb (cweights n offsets) i) by congruence.
    exact (loop_flatness G n (Gmat_sym _ _ (Fmat_sym _ px)) (Gmat_nonneg _ _ Hcwp trans_T_nonneg) margf Hspec
             tol fuel b bb mu v k eps i Hl Hb H Hv He0 He1 HN Hi Hnz).
  Qed.
End TransOnly.

(** C10.5  for the returned weights alone the row sums of T are NOT flat within the band when chromosomes
    differ in bin count: a concrete run of the model (chromosomes of 1/2/2 bins, tol = 1/100, three sweeps,
    eps = 1/40 admissible) whose trans row sums differ by more than (1+eps)/(1-eps). Known finding D15. *)
Definition d15_px : list pixel :=
  [(0,1,1); (0,2,1); (0,3,1); (0,4,1); (1,3,2); (1,4,1); (2,3,1); (2,4,2)]%Z.
Definition d15_chroms : list Z := [0; 1; 1; 2; 2]%Z.
Definition d15_offsets : list Z := [0; 1; 3; 5]%Z.
Definition d15_T : Z -> Z -> Q := Fmat [f_zero_cis d15_chroms] d15_px.

Theorem trans_rowsum_refuted :
  exists bb mu v k eps i j,
    ic_loop (margf_trans 5 (balance_spans 8 None) [] d15_chroms d15_offsets d15_px) (1#100) 10 (repeat 1 5)
      = Some (bb, Some mu, v, k) /\
    v < 1#100 /\ 0 <= eps /\ eps < 1 /\
    nnz_rows (Gmat (cweights 5 d15_offsets) d15_T) 5 (repeat 1 5) * (1#100) <= eps * eps * mu * mu /\
    InR 5 i /\ InR 5 j /\
    (1 + eps) / (1 - eps) * rowsum d15_T 5 bb j < rowsum d15_T 5 bb i.
Proof.
  eexists. eexists. eexists. eexists. exists (1#40). exists 0%Z. exists 1%Z.
  split; [vm_compute; reflexivity|].
  split; [vm_compute; reflexivity|].
  split; [vm_compute; discriminate|].
  split; [vm_compute; reflexivity|].
  split; [vm_compute; discriminate|].
  split; [unfold InR; lia|]. split; [unfold InR; lia|].
  vm_compute. reflexivity.
Qed.

(** * 7. Bin masks: each documented filter as an exact predicate (C10.3) *)
Lemma qnth_mask {A} : forall (cond : A -> bool) (aux : list A) (d : A) (b : list Q) i,
  length aux = length b -> (0 <= i < zlen b)%Z ->
  qnth (map (fun p => if cond (fst p) then 0 else snd p) (combine aux b)) i
  = if cond (nth (Z.to_nat i) aux d) then 0 else qnth b i.
Proof.
  intros cond aux d b i Hl Hi. unfold qnth.
  assert (Hk : (Z.to_nat i < length b)%nat) by (unfold zlen in Hi; lia).
  revert Hk. generalize (Z.to_nat i) as k. clear Hi. revert b Hl.
  induction aux as [|x aux IH]; intros b Hl k Hk; destruct b as [|y b]; simpl in *; try discriminate; try lia.
  destruct k; simpl; [reflexivity|]. apply IH; [congruence | lia].
Qed.

Lemma length_mask {A} : forall (f : A * Q -> Q) (aux : list A) (b : list Q),
  length aux = length b -> length (map f (combine aux b)) = length b.
Proof. intros. rewrite map_length, combine_length. lia. Qed.

Lemma mask_step {A} : forall (cond : A -> bool) (aux : list A) (d : A) (b : list Q) i,
  length aux = length b -> (0 <= i < zlen b)%Z ->
  (qnth (map (fun p => if cond (fst p) then 0 else snd p) (combine aux b)) i == 0 <->
   cond (nth (Z.to_nat i) aux d) = true \/ qnth b i == 0).
Proof.
  intros cond aux d b i Hl Hi. rewrite (qnth_mask cond aux d b i Hl Hi).
  destruct (cond (nth (Z.to_nat i) aux d)); split; intros H; auto.
  - reflexivity.
  - destruct H as [H|H]; [discriminate | assumption].
Qed.

Lemma mask_nonneg {A} : forall (cond : A -> bool) (aux : list A) (b : list Q),
  length aux = length b -> NonNeg b ->
  NonNeg (map (fun p => if cond (fst p) then 0 else snd p) (combine aux b)).
Proof.
  intros cond aux b Hl Hb i. unfold qnth. generalize (Z.to_nat i) as k. revert b Hl Hb.
  induction aux as [|x aux IH]; intros b Hl Hb k; destruct b as [|y b]; simpl in *; try discriminate.
  - destruct k; apply Qle_refl.
  - destruct k; simpl.
    + destruct (cond x); [apply Qle_refl | apply (Hb 0%Z)].
    + apply IH; [congruence|]. intros j. specialize (Hb (Z.of_nat (S (Z.to_nat j)))).
      unfold qnth in *. rewrite Nat2Z.id in Hb. exact Hb.
Qed.

Lemma nth_zrange : forall n i d, (0 <= i < Z.of_nat n)%Z -> nth (Z.to_nat i) (zrange 0 n) d = i.
Proof.
  intros n i d Hi. pose proof (nth_zrange_map (fun x => x) n (Z.to_nat i) d ltac:(lia)) as H.
  rewrite map_id in H. rewrite H. lia.
Qed.

Lemma length_zrange : forall n, length (zrange 0 n) = n.
Proof. intros. unfold zrange. now rewrite map_length, seq_length. Qed.

Section Masks.
  Variables (o : opts) (n : nat) (chroms offsets : list Z) (px : list pixel).
  Let spans := balance_spans (zlen px) (o_chunk o).
  Let bf := base_filters o chroms.
  Let marg_nnz := marg_of n spans (f_binarize :: bf) px.
  Let marg := marg_of n spans bf px.
  Let nm := norm_marg marg offsets.
  Let c4 := mad_cutoff4 (optpos nm) (o_mad o).
  Hypothesis Hx0 : length (x0_bias n (o_x0 o)) = n.
  Hypothesis Hnm : length nm = n.

  Definition masked_nnz (i : Z) : Prop := (0 < o_nnz o)%Z /\ qnth marg_nnz i < inject_Z (o_nnz o).
  Definition masked_count (i : Z) : Prop := o_count o <> 0%Z /\ qnth marg i < inject_Z (o_count o).
  Definition masked_mad (i : Z) : Prop := (0 < o_mad o)%Z /\ mad_masked c4 (nth (Z.to_nat i) nm None) = true.

  (** C10.3  a bin enters the loop with weight zero iff its initial weight is zero/NaN or one of the four
      documented filters excludes it *)
  Theorem mask_rules : forall i, InR n i ->
    (qnth (initial_bias o n chroms offsets px) i == 0 <->
       qnth (x0_bias n (o_x0 o)) i == 0 \/ masked_nnz i \/ masked_count i \/ masked_mad i \/ In i (o_black o)).
  Proof.
    intros i Hi. unfold initial_bias. fold spans bf. fold marg_nnz. fold marg. fold nm.
    set (w0 := x0_bias n (o_x0 o)).
    assert (L0 : length w0 = n) by exact Hx0.
    set (w1 := if (0 <? o_nnz o)%Z then mask_lt marg_nnz (inject_Z (o_nnz o)) w0 else w0).
    set (w2 := if (o_count o =? 0)%Z then w1 else mask_lt marg (inject_Z (o_count o)) w1).
    set (w3 := if (0 <? o_mad o)%Z then mask_mad nm (o_mad o) w2 else w2).
    assert (Lm1 : length marg_nnz = n) by apply length_marg_of.
    assert (Lm : length marg = n) by apply length_marg_of.
    assert (L1 : length w1 = n).
    { unfold w1. destruct (0 <? o_nnz o)%Z; [|exact L0]. unfold mask_lt. rewrite length_mask; congruence. }
    assert (L2 : length w2 = n).
    { unfold w2. destruct (o_count o =? 0)%Z; [exact L1|]. unfold mask_lt. rewrite length_mask; congruence. }
    assert (L3 : length w3 = n).
    { unfold w3. destruct (0 <? o_mad o)%Z; [|exact L2]. unfold mask_mad. rewrite length_mask; congruence. }
    assert (R : forall w : list Q, length w = n -> (0 <= i < zlen w)%Z) by (intros w Hw; unfold zlen, InR in *; lia).
    (* blacklist *)
    unfold mask_black, enumerate.
    rewrite (mask_step (fun x => existsb (Z.eqb x) (o_black o)) (zrange 0 (length w3)) 0%Z w3 i)
      by (try apply length_zrange; now apply R).
    rewrite nth_zrange by (rewrite L3; exact Hi).
    assert (Eb : existsb (Z.eqb i) (o_black o) = true <-> In i (o_black o)).
    { rewrite existsb_exists. split; [intros [x [Hx He]]; apply Z.eqb_eq in He; rewrite He; exact Hx | intros H; exists i; split; [assumption | apply Z.eqb_refl]]. }
    rewrite Eb.
    (* MAD *)
    assert (E3 : qnth w3 i == 0 <-> masked_mad i \/ qnth w2 i == 0).
    { unfold w3, masked_mad. destruct (0 <? o_mad o)%Z eqn:Em.
      - unfold mask_mad. fold c4. rewrite (mask_step (mad_masked c4) nm None w2 i) by (try congruence; now apply R).
        apply Z.ltb_lt in Em. tauto.
      - apply Z.ltb_ge in Em. split; [tauto | intros [[H _]|H]; [lia | assumption]]. }
    (* min_count *)
    assert (E2 : qnth w2 i == 0 <-> masked_count i \/ qnth w1 i == 0).
    { unfold w2, masked_count. destruct (o_count o =? 0)%Z eqn:Ec.
      - apply Z.eqb_eq in Ec. split; [tauto | intros [[H _]|H]; [congruence | assumption]].
      - apply Z.eqb_neq in Ec. unfold mask_lt.
        rewrite (mask_step (fun x => Qltb x (inject_Z (o_count o))) marg 0 w1 i) by (try congruence; now apply R).
        rewrite Qltb_true. fold (qnth marg i). tauto. }
    (* min_nnz *)
    assert (E1 : qnth w1 i == 0 <-> masked_nnz i \/ qnth w0 i == 0).
    { unfold w1, masked_nnz. destruct (0 <? o_nnz o)%Z eqn:En.
      - apply Z.ltb_lt in En. unfold mask_lt.
        rewrite (mask_step (fun x => Qltb x (inject_Z (o_nnz o))) marg_nnz 0 w0 i) by (try congruence; apply R; exact L0).
        rewrite Qltb_true. fold (qnth marg_nnz i). tauto.
      - apply Z.ltb_ge in En. split; [tauto | intros [[H _]|H]; [lia | assumption]]. }
    rewrite E3, E2, E1. tauto.
  Qed.

  Theorem initial_bias_length : length (initial_bias o n chroms offsets px) = n.
  Proof.
    unfold initial_bias. fold spans bf. fold marg_nnz. fold marg. fold nm.
    assert (Lm1 : length marg_nnz = n) by apply length_marg_of.
    assert (Lm : length marg = n) by apply length_marg_of.
    set (w0 := x0_bias n (o_x0 o)).
    assert (L0 : length w0 = n) by exact Hx0.
    set (w1 := if (0 <? o_nnz o)%Z then mask_lt marg_nnz (inject_Z (o_nnz o)) w0 else w0).
    set (w2 := if (o_count o =? 0)%Z then w1 else mask_lt marg (inject_Z (o_count o)) w1).
    set (w3 := if (0 <? o_mad o)%Z then mask_mad nm (o_mad o) w2 else w2).
    assert (L1 : length w1 = n).
    { unfold w1. destruct (0 <? o_nnz o)%Z; [|exact L0]. unfold mask_lt. rewrite length_mask; congruence. }
    assert (L2 : length w2 = n).
    { unfold w2. destruct (o_count o =? 0)%Z; [exact L1|]. unfold mask_lt. rewrite length_mask; congruence. }
    assert (L3 : length w3 = n).
    { unfold w3. destruct (0 <? o_mad o)%Z; [|exact L2]. unfold mask_mad. rewrite length_mask; congruence. }
    unfold mask_black, enumerate. rewrite length_mask; [exact L3 | apply length_zrange].
  Qed.

  Theorem initial_bias_nonneg : NonNeg (x0_bias n (o_x0 o)) -> NonNeg (initial_bias o n chroms offsets px).
  Proof.
    intros H0. unfold initial_bias. fold spans bf. fold marg_nnz. fold marg. fold nm.
    assert (Lm1 : length marg_nnz = n) by apply length_marg_of.
    assert (Lm : length marg = n) by apply length_marg_of.
    set (w0 := x0_bias n (o_x0 o)) in *.
    assert (L0 : length w0 = n) by exact Hx0.
    set (w1 := if (0 <? o_nnz o)%Z then mask_lt marg_nnz (inject_Z (o_nnz o)) w0 else w0).
    set (w2 := if (o_count o =? 0)%Z then w1 else mask_lt marg (inject_Z (o_count o)) w1).
    set (w3 := if (0 <? o_mad o)%Z then mask_mad nm (o_mad o) w2 else w2).
    assert (L1 : length w1 = n /\ NonNeg w1).
    { unfold w1. destruct (0 <? o_nnz o)%Z; [|split; [exact L0 | exact H0]]. unfold mask_lt.
      split; [rewrite length_mask; congruence | apply (mask_nonneg (fun x => Qltb x (inject_Z (o_nnz o)))); [congruence | exact H0]]. }
    destruct L1 as [L1 N1].
    assert (L2 : length w2 = n /\ NonNeg w2).
    { unfold w2. destruct (o_count o =? 0)%Z; [split; assumption|]. unfold mask_lt.
      split; [rewrite length_mask; congruence | apply (mask_nonneg (fun x => Qltb x (inject_Z (o_count o)))); [congruence | exact N1]]. }
    destruct L2 as [L2 N2].
    assert (L3 : length w3 = n /\ NonNeg w3).
    { unfold w3. destruct (0 <? o_mad o)%Z; [|split; assumption]. unfold mask_mad.
      split; [rewrite length_mask; congruence | apply (mask_nonneg (mad_masked c4)); [congruence | exact N2]]. }
    destruct L3 as [L3 N3].
    unfold mask_black, enumerate. apply (mask_nonneg (fun x => existsb (Z.eqb x) (o_black o))); [apply length_zrange | exact N3].
  Qed.
End Masks.

Lemma length_norm_chrom : forall marg lohi, length (norm_chrom marg lohi) = length (slice marg (fst lohi) (snd lohi)).
Proof. intros. unfold norm_chrom. destruct (median _); now rewrite map_length. Qed.

Lemma length_concat_map_eq {A B C} : forall (f : A -> list B) (g : A -> list C) l,
  (forall x, length (f x) = length (g x)) -> length (concat (map f l)) = length (concat (map g l)).
Proof. intros f g l H. induction l as [|x l IH]; simpl; [reflexivity|]. now rewrite !app_length, H, IH. Qed.

(** chromosome offsets that tile the bin table: norm_marg keeps the length *)
Lemma length_norm_marg : forall n marg offsets, length marg = n ->
  Chain 0 (combine (removelast offsets) (tl offsets)) (Z.of_nat n) ->
  length (norm_marg marg offsets) = n.
Proof.
  intros n marg offsets Hl Hc. unfold norm_marg.
  rewrite (length_concat_map_eq _ (fun sp => slice marg (fst sp) (snd sp)) _ (length_norm_chrom marg)).
  rewrite (chain_concat marg 0 _ _ Hc) by lia. rewrite slice_all; [assumption | unfold zlen; lia].
Qed.

(** * 8. The whole genome-wide run of the model: NaN exactly on masked bins or when there is no data *)
Theorem balance_gw_nan_set : forall o n chroms offsets px rs,
  o_cis o = false -> o_trans o = false -> chunk_ok (o_chunk o) -> good_px n px = true ->
  length (x0_bias n (o_x0 o)) = n -> NonNeg (x0_bias n (o_x0 o)) ->
  Chain 0 (combine (removelast offsets) (tl offsets)) (Z.of_nat n) ->
  balance o n chroms offsets px = Some rs ->
  let b0 := initial_bias o n chroms offsets px in
  let F := Fmat (base_filters o chroms) px in
  exists r, rs = [r] /\
    forall i, InR n i ->
      (onth (c_bias r) i = None <->
         AllZero F n b0 \/ qnth (x0_bias n (o_x0 o)) i == 0 \/ masked_nnz o n chroms px i \/
         masked_count o n chroms px i \/ masked_mad o n chroms offsets px i \/ In i (o_black o)) /\
      (forall x, onth (c_bias r) i = Some x -> 0 < x).
Proof.
  intros o n chroms offsets px rs Hcis Htr Hc Hg Hx0 Hx0n Hoff Hbal b0 F.
  assert (Hnm : length (norm_marg (marg_of n (balance_spans (zlen px) (o_chunk o)) (base_filters o chroms) px) offsets) = n).
  { apply length_norm_marg; [apply length_marg_of | assumption]. }
  pose proof (initial_bias_length o n chroms offsets px Hx0 Hnm) as Lb.
  pose proof (initial_bias_nonneg o n chroms offsets px Hx0 Hnm Hx0n) as Nb.
  unfold balance in Hbal. rewrite Hcis, Htr in Hbal. fold b0 in Hbal, Lb, Nb.
  destruct (ic_loop _ (o_tol o) (o_iters o) b0) as [[[[bb s] v] k]|] eqn:E; [|discriminate].
  inversion Hbal; subst rs. eexists. split; [reflexivity|]. intros i Hi. simpl.
  destruct (gw_nan_set n (o_chunk o) (base_filters o chroms) px Hc Hg (keyfix_base_filters o chroms)
              (datnn_base_filters o chroms) (o_tol o) (o_iters o) b0 bb s v k i Lb Nb E Hi) as [H1 H2].
  split.
  - rewrite H1. unfold b0 at 2. rewrite (mask_rules o n chroms offsets px Hx0 Hnm i Hi). reflexivity.
  - intros x Hx. now destruct (H2 x Hx).
Qed.

Local Open Scope Z_scope.

(** * 9. cis-only mode: the per-chromosome pixel range suffices and gives the chromosome's own sub-matrix *)

(** generalised schedule invariance: the spans read back any sub-table [sub] *)
Lemma marg_schedule_invariant_sub : forall n spans fs (px sub : list pixel) rs i,
  concat (map (get_chunk px) spans) = sub ->
  Permutation rs (marg_chunks n spans fs px) ->
  0 <= i < Z.of_nat n ->
  (qnth (reduce_add n rs) i == sumQ (map (pcontrib i fs) sub))%Q.
Proof.
  intros n spans fs px sub rs i Hcov Hperm Hi. unfold reduce_add.
  assert (Hlen : Forall (fun r => length r = n) rs).
  { rewrite Forall_forall. intros r Hr.
    apply (Permutation_in _ Hperm) in Hr. unfold marg_chunks in Hr.
    rewrite in_map_iff in Hr. destruct Hr as [sp [<- _]]. apply length_marginalize. }
  rewrite (qnth_reduce n) by (auto; unfold zeros; now rewrite repeat_length).
  rewrite qnth_zeros.
  pose proof (reduce_perm_invariant Qeq Qplus 0%Q Qplus_assoc Qplus_comm Qplus_0_l
               pixel (pcontrib i fs) (map (get_chunk px) spans)
               (map (fun r => qnth r i) rs) (map (fun r => qnth r i) (marg_chunks n spans fs px)) 0%Q) as H.
  rewrite H.
  - rewrite Hcov. unfold msum. fold (sumQ (map (pcontrib i fs) sub)). ring.
  - now apply Permutation_map.
  - unfold marg_chunks. rewrite !map_map.
    clear - Hi. induction spans as [|sp spans IH]; simpl; constructor; [|exact IH].
    now apply chunk_result_at.
Qed.

(** rows sorted: the pixels of rows < t are a prefix *)
Definition rows_sorted (px : list pixel) : Prop := StronglySorted Z.le (map row px).

Lemma sorted_filter_split : forall px t, rows_sorted px ->
  px = filter (fun p => row p <? t) px ++ filter (fun p => negb (row p <? t)) px.
Proof.
  induction px as [|x l IH]; intros t Hs; [reflexivity|].
  unfold rows_sorted in Hs. simpl in Hs. inversion Hs as [|? ? Hl Hx]; subst.
  simpl. destruct (Z.ltb_spec (row x) t) as [Hlt|Hge]; simpl.
  - f_equal. now apply IH.
  - assert (E1 : filter (fun p => row p <? t) l = []).
    { rewrite Forall_map in Hx. clear - Hx Hge. induction l as [|y l IHl]; [reflexivity|]. inversion Hx; subst. simpl.
      destruct (Z.ltb_spec (row y) t); [lia | auto]. }
    assert (E2 : filter (fun p => negb (row p <? t)) l = l).
    { rewrite Forall_map in Hx. clear - Hx Hge. induction l as [|y l IHl]; [reflexivity|]. inversion Hx; subst. simpl.
      destruct (Z.ltb_spec (row y) t); [lia | simpl; f_equal; auto]. }
    now rewrite E1, E2.
Qed.

Lemma slice_prefix_rows : forall px t, rows_sorted px ->
  slice px 0 (bin1_offset px t) = filter (fun p => row p <? t) px /\
  slice px (bin1_offset px t) (zlen px) = filter (fun p => negb (row p <? t)) px.
Proof.
  intros px t Hs. pose proof (sorted_filter_split px t Hs) as E. unfold bin1_offset, slice, zlen.
  set (A := filter (fun p => row p <? t) px) in *. set (B := filter (fun p => negb (row p <? t)) px) in *.
  rewrite Z.sub_0_r, !Nat2Z.id. simpl skipn. split.
  - rewrite E at 1. rewrite firstn_app, Nat.sub_diag, firstn_all. simpl. now rewrite app_nil_r.
  - rewrite E at 2. rewrite skipn_app, Nat.sub_diag, skipn_all. simpl.
    replace (Z.to_nat (Z.of_nat (length px) - Z.of_nat (length A))) with (length B).
    + apply firstn_all.
    + rewrite E at 1. rewrite app_length. lia.
Qed.

Definition BlockSep (chroms : list Z) (n : nat) (lo hi : Z) : Prop :=
  forall a b, lo <= a < hi -> 0 <= b < Z.of_nat n -> (b < lo \/ hi <= b) -> chrom_of chroms a <> chrom_of chroms b.

Lemma cis_dat_zero : forall o chroms v a b x, o_cis o = true -> chrom_of chroms a <> chrom_of chroms b ->
  (dat (pipe1 (base_filters o chroms ++ [f_times v]) ((a, b), x)) == 0)%Q.
Proof.
  intros o chroms v a b x Hcis Hne.
  assert (E : f_zero_trans chroms ((a, b), x) = ((a, b), 0%Q)).
  { unfold f_zero_trans, b1, b2. simpl. destruct (Z.eqb_spec (chrom_of chroms a) (chrom_of chroms b)); [contradiction | reflexivity]. }
  unfold base_filters. rewrite Hcis.
  destruct (o_diags o =? 0); unfold pipe1; simpl; rewrite E.
  - unfold f_times, dat. simpl. ring.
  - unfold f_zero_diags, b1, b2. simpl. destruct (_ <? _); unfold f_times, dat; simpl; ring.
Qed.

Lemma keyfix_all : forall o chroms v, Forall keyfix (base_filters o chroms ++ [f_times v]).
Proof.
  intros. apply Forall_app. split; [apply keyfix_base_filters|]. constructor; [apply keyfix_times | constructor].
Qed.

Lemma cis_contrib_outside : forall o chroms n lo hi v (p : pixel) i, o_cis o = true -> BlockSep chroms n lo hi ->
  row p <= col p -> 0 <= row p -> col p < Z.of_nat n ->
  ~ (lo <= row p < hi) -> lo <= i < hi ->
  (pcontrib i (base_filters o chroms ++ [f_times v]) p == 0)%Q.
Proof.
  intros o chroms n lo hi v p i Hcis Hsep Hu H0 Hn Hout Hi.
  unfold pcontrib, contrib.
  pose proof (pipe1_keyfix _ (init1 p) (keyfix_all o chroms v)) as Hk.
  set (w := pipe1 (base_filters o chroms ++ [f_times v]) (init1 p)) in *.
  assert (E1 : b1 w = row p) by (unfold b1; rewrite Hk; reflexivity).
  assert (E2 : b2 w = col p) by (unfold b2; rewrite Hk; reflexivity).
  rewrite E1, E2.
  destruct (Z.eqb_spec (row p) i) as [Heq|Hne]; [exfalso; lia|].
  destruct (Z.eqb_spec (col p) i) as [Hci|Hci]; simpl; [|ring].
  destruct (Z.eqb_spec (row p) (col p)) as [Hrc|Hrc]; simpl; [ring|].
  assert (Hz : (dat w == 0)%Q).
  { unfold w. destruct p as [[a b] x]. unfold init1. simpl fst. simpl snd.
    unfold row, col in *. simpl in *.
    apply cis_dat_zero; [assumption|]. intro Heq. symmetry in Heq. revert Heq.
    apply Hsep; lia. }
  rewrite Hz. ring.
Qed.

Lemma filter_length_le {A} : forall (f g : A -> bool) l, (forall x, f x = true -> g x = true) ->
  (length (filter f l) <= length (filter g l))%nat.
Proof.
  intros f g l H. induction l as [|x l IH]; simpl; [lia|].
  destruct (f x) eqn:Ef; [rewrite (H x Ef); simpl; lia|]. destruct (g x); simpl; lia.
Qed.

Lemma bin1_offset_mono : forall px a b, a <= b -> bin1_offset px a <= bin1_offset px b.
Proof.
  intros px a b Hab. unfold bin1_offset, zlen. apply inj_le. apply filter_length_le. intros x H.
  apply Z.ltb_lt in H. apply Z.ltb_lt. lia.
Qed.

Lemma bin1_offset_bounds : forall px a, 0 <= bin1_offset px a <= zlen px.
Proof.
  intros. unfold bin1_offset, zlen. split; [lia|]. apply inj_le.
  induction px as [|x l IH]; simpl; [lia|]. destruct (row x <? a); simpl; lia.
Qed.

Lemma good_px_forall : forall n px, good_px n px = true ->
  Forall (fun p => row p <= col p /\ 0 <= row p /\ col p < Z.of_nat n) px.
Proof.
  intros n px H. unfold good_px in H. rewrite !andb_true_iff in H. destruct H as [[Hu Hr] _].
  unfold upper_b in Hu. unfold inrange_b in Hr. rewrite forallb_forall in Hu, Hr.
  rewrite Forall_forall. intros p Hp. specialize (Hu p Hp). specialize (Hr p Hp). lia.
Qed.

Lemma sumQ_zero_ext {B} : forall (L : list B) f, (forall x, In x L -> (f x == 0)%Q) -> (sumQ (map f L) == 0)%Q.
Proof. intros L f H. rewrite (sumQ_ext L f (fun _ => 0%Q) H). apply sumQ_zero. Qed.

(** C10/C11, cis-only: reading only the chromosome's own pixel range [bin1_offset lo, bin1_offset hi) gives the
    same marginals on the chromosome's bins as reading the whole table *)
Lemma cis_range_suffices : forall o chroms n lo hi v (px : list pixel) i,
  o_cis o = true -> BlockSep chroms n lo hi -> good_px n px = true -> rows_sorted px ->
  lo <= hi -> lo <= i < hi ->
  (sumQ (map (pcontrib i (base_filters o chroms ++ [f_times v])) (slice px (bin1_offset px lo) (bin1_offset px hi)))
   == sumQ (map (pcontrib i (base_filters o chroms ++ [f_times v])) px))%Q.
Proof.
  intros o chroms n lo hi v px i Hcis Hsep Hg Hs Hlh Hi.
  set (fs := base_filters o chroms ++ [f_times v]).
  set (plo := bin1_offset px lo). set (phi := bin1_offset px hi).
  pose proof (bin1_offset_bounds px lo) as B1. pose proof (bin1_offset_bounds px hi) as B2.
  pose proof (bin1_offset_mono px lo hi Hlh) as B3. fold plo phi in B1, B2, B3.
  assert (E : px = slice px 0 plo ++ slice px plo phi ++ slice px phi (zlen px)).
  { rewrite (slice_app px plo phi (zlen px)) by lia. rewrite (slice_app px 0 plo (zlen px)) by lia.
    symmetry. apply slice_all. lia. }
  rewrite E at 2. rewrite !map_app, !sumQ_app.
  destruct (slice_prefix_rows px lo Hs) as [P1 _]. destruct (slice_prefix_rows px hi Hs) as [_ P2].
  fold plo in P1. fold phi in P2.
  pose proof (good_px_forall n px Hg) as Hgood. rewrite Forall_forall in Hgood.
  assert (Z1 : (sumQ (map (pcontrib i fs) (slice px 0 plo)) == 0)%Q).
  { apply sumQ_zero_ext. intros p Hp. rewrite P1 in Hp. apply filter_In in Hp. destruct Hp as [Hin Hr].
    apply Z.ltb_lt in Hr. destruct (Hgood p Hin) as [G1 [G2 G3]].
    apply (cis_contrib_outside o chroms n lo hi v p i); auto; lia. }
  assert (Z2 : (sumQ (map (pcontrib i fs) (slice px phi (zlen px))) == 0)%Q).
  { apply sumQ_zero_ext. intros p Hp. rewrite P2 in Hp. apply filter_In in Hp. destruct Hp as [Hin Hr].
    apply negb_true_iff in Hr. apply Z.ltb_ge in Hr. destruct (Hgood p Hin) as [G1 [G2 G3]].
    apply (cis_contrib_outside o chroms n lo hi v p i); auto; lia. }
  rewrite Z1, Z2. ring.
Qed.

Lemma sum_pcontrib_rowsum : forall n fs (px : list pixel) b i,
  Forall keyfix fs -> good_px n px = true -> 0 <= i < Z.of_nat n ->
  (sumQ (map (pcontrib i (fs ++ [f_times b])) px) == rowsum (Fmat fs px) n b i)%Q.
Proof.
  intros n fs px b i Hk Hg Hi. unfold good_px in Hg. rewrite !andb_true_iff in Hg. destruct Hg as [[Hu Hr] _].
  unfold Fmat. rewrite <- (marg_is_rowsum n b (filtered fs px) i (filtered_upper n fs px Hk Hu Hr) Hi).
  rewrite marg_at_sum. unfold filtered. rewrite !map_map.
  apply sumQ_ext. intros p _. unfold pcontrib. rewrite pipe1_app. reflexivity.
Qed.

Lemma cis_dat_zero_bf : forall o chroms a b x, o_cis o = true -> chrom_of chroms a <> chrom_of chroms b ->
  (dat (pipe1 (base_filters o chroms) ((a, b), x)) == 0)%Q.
Proof.
  intros o chroms a b x Hcis Hne.
  assert (E : f_zero_trans chroms ((a, b), x) = ((a, b), 0%Q)).
  { unfold f_zero_trans, b1, b2. simpl. destruct (Z.eqb_spec (chrom_of chroms a) (chrom_of chroms b)); [contradiction | reflexivity]. }
  unfold base_filters. rewrite Hcis.
  destruct (o_diags o =? 0); unfold pipe1; simpl; rewrite E.
  - reflexivity.
  - unfold f_zero_diags, b1, b2. simpl. destruct (_ <? _); reflexivity.
Qed.

Lemma Fmat_cis_zero : forall o chroms n lo hi (px : list pixel) i j,
  o_cis o = true -> BlockSep chroms n lo hi -> lo <= i < hi -> 0 <= j < Z.of_nat n -> ~ (lo <= j < hi) ->
  (Fmat (base_filters o chroms) px i j == 0)%Q.
Proof.
  intros o chroms n lo hi px i j Hcis Hsep Hi Hj Hout. unfold Fmat, dense, filtered. rewrite map_map.
  apply sumQ_zero_ext. intros p _. cbv beta.
  pose proof (pipe1_keyfix _ (init1 p) (keyfix_base_filters o chroms)) as Hk.
  assert (Hz : chrom_of chroms (row p) <> chrom_of chroms (col p) ->
             (dat (pipe1 (base_filters o chroms) (init1 p)) == 0)%Q).
  { intros Hne. destruct p as [[a b] x]. unfold init1, row, col in *. simpl in *. now apply cis_dat_zero_bf. }
  remember (pipe1 (base_filters o chroms) (init1 p)) as w eqn:Ew.
  assert (E1 : b1 w = row p) by (unfold b1; rewrite Hk; reflexivity).
  assert (E2 : b2 w = col p) by (unfold b2; rewrite Hk; reflexivity).
  rewrite E1, E2.
  destruct (Z.eqb_spec (row p) (Z.min i j)) as [Hr|Hr]; simpl; [|reflexivity].
  destruct (Z.eqb_spec (col p) (Z.max i j)) as [Hc|Hc]; simpl; [|reflexivity].
  apply Hz. rewrite Hr, Hc.
  destruct (Z.le_ge_cases i j) as [Hij|Hij].
  - rewrite Z.min_l by lia. rewrite Z.max_r by lia. apply Hsep; lia.
  - rewrite Z.min_r by lia. rewrite Z.max_l by lia.
    intro Heq. symmetry in Heq. revert Heq. apply Hsep; lia.
Qed.

Lemma seq_add_map : forall k2 k1 s, seq (s + k1) k2 = map (fun t => (t + k1)%nat) (seq s k2).
Proof. induction k2 as [|k2 IH]; intros k1 s; simpl; [reflexivity|]. f_equal. apply (IH k1 (S s)). Qed.

Lemma zrange_app : forall a k1 k2, zrange a (k1 + k2) = zrange a k1 ++ zrange (a + Z.of_nat k1) k2.
Proof.
  intros a k1 k2. unfold zrange. rewrite seq_app, map_app. f_equal.
  rewrite (seq_add_map k2 k1 0). rewrite map_map. apply map_ext. intros t. lia.
Qed.

Lemma qnth_splice : forall (full seg : list Q) lo hi t,
  0 <= lo -> lo <= zlen full -> 0 <= t < zlen seg ->
  qnth (splice full lo hi seg) (lo + t) = qnth seg t.
Proof.
  intros full seg lo hi t Hlo Hlf Ht. unfold qnth, splice, zlen in *.
  assert (Lf : length (firstn (Z.to_nat lo) full) = Z.to_nat lo) by (rewrite firstn_length; lia).
  rewrite app_nth2 by lia. rewrite Lf.
  replace (Z.to_nat (lo + t) - Z.to_nat lo)%nat with (Z.to_nat t) by lia.
  apply app_nth1. lia.
Qed.

Lemma length_splice : forall (full seg : list Q) lo hi,
  0 <= lo <= hi -> hi <= zlen full -> zlen seg = hi - lo -> length (splice full lo hi seg) = length full.
Proof.
  intros full seg lo hi H1 H2 H3. unfold splice, zlen in *. rewrite !app_length, firstn_length, skipn_length. lia.
Qed.

Lemma nth_firstn_lt' {A} : forall (l : list A) m k d, (k < m)%nat -> nth k (firstn m l) d = nth k l d.
Proof.
  induction l as [|x l IH]; intros m k d H; [now rewrite firstn_nil|].
  destruct m; [lia|]. destruct k; simpl; [reflexivity|]. apply IH. lia.
Qed.

Lemma nth_skipn' {A} : forall (l : list A) s k d, nth k (skipn s l) d = nth (s + k) l d.
Proof.
  induction l as [|x l IH]; intros s k d.
  - rewrite skipn_nil. destruct k, (s + 0)%nat, s; reflexivity || (destruct (s + S k)%nat; reflexivity) || auto.
    all: try (destruct (S n + S k)%nat; reflexivity). 
  - destruct s; simpl; [reflexivity|]. apply IH.
Qed.

Lemma qnth_slice : forall (M : list Q) lo hi t, 0 <= lo -> 0 <= t < hi - lo -> qnth (slice M lo hi) t = qnth M (lo + t).
Proof.
  intros M lo hi t Hlo Ht. unfold qnth, slice.
  rewrite nth_firstn_lt' by lia. rewrite nth_skipn'. f_equal. lia.
Qed.

Local Open Scope Q_scope.

Lemma rowsum_block : forall (F : Z -> Z -> Q) (n : nat) (full seg : list Q) (lo hi i' : Z),
  (0 <= lo)%Z -> (lo <= hi)%Z -> (hi <= Z.of_nat n)%Z -> length full = n -> zlen seg = (hi - lo)%Z ->
  (forall j, (0 <= j < Z.of_nat n)%Z -> ~ (lo <= j < hi)%Z -> F (lo + i')%Z j == 0) ->
  (0 <= i' < hi - lo)%Z ->
  rowsum F n (splice full lo hi seg) (lo + i') ==
  rowsum (fun a b => F (lo + a)%Z (lo + b)%Z) (Z.to_nat (hi - lo)) seg i'.
Proof.
  intros F n full seg lo hi i' H0 H1 H2 Hlf Hls Hz Hi. unfold rowsum.
  rewrite (qnth_splice full seg lo hi i') by (unfold zlen in *; lia).
  set (v := splice full lo hi seg).
  set (L := Z.to_nat lo). set (m := Z.to_nat (hi - lo)). set (R := (n - Z.to_nat hi)%nat).
  assert (En : n = (L + (m + R))%nat) by (unfold L, m, R; lia).
  rewrite En at 1. rewrite !zrange_app, !map_app, !sumQ_app.
  assert (Z1 : sumQ (map (fun j => F (lo + i')%Z j * qnth v j) (zrange 0 L)) == 0).
  { apply sumQ_zero_ext. intros j Hj. apply in_zrange in Hj. rewrite Hz; [ring | lia | unfold L in Hj; lia]. }
  assert (Z2 : sumQ (map (fun j => F (lo + i')%Z j * qnth v j) (zrange (0 + Z.of_nat L + Z.of_nat m) R)) == 0).
  { apply sumQ_zero_ext. intros j Hj. unfold zrange in Hj. apply in_map_iff in Hj. destruct Hj as [t [<- Ht]].
    apply in_seq in Ht. unfold L, m, R in *. rewrite Hz; [ring | lia | lia]. }
  rewrite Z1, Z2.
  assert (E : sumQ (map (fun j => F (lo + i')%Z j * qnth v j) (zrange (0 + Z.of_nat L) m)) ==
              sumQ (map (fun j => F (lo + i')%Z (lo + j)%Z * qnth seg j) (zrange 0 m))).
  { unfold zrange. rewrite !map_map. apply sumQ_ext. intros t Ht. apply in_seq in Ht.
    replace (0 + Z.of_nat L + Z.of_nat t)%Z with (lo + (0 + Z.of_nat t))%Z by (unfold L; lia).
    unfold v. rewrite qnth_splice by (unfold zlen, m in *; lia). reflexivity. }
  rewrite E. ring.
Qed.

Theorem cis_margof : forall o chroms (n : nat) c lo hi (px : list pixel) (full : list Q),
  o_cis o = true -> (1 <= c)%Z -> BlockSep chroms n lo hi -> good_px n px = true -> rows_sorted px ->
  (0 <= lo)%Z -> (lo <= hi)%Z -> (hi <= Z.of_nat n)%Z -> length full = n ->
  forall seg, length seg = Z.to_nat (hi - lo) ->
    MargOf (fun a b => Fmat (base_filters o chroms) px (lo + a) (lo + b)) (Z.to_nat (hi - lo))
           (margf_cis n c (base_filters o chroms) px full lo hi seg) seg.
Proof.
  intros o chroms n c lo hi px full Hcis Hc Hsep Hg Hs H0 H1 H2 Hlf seg Hls.
  unfold margf_cis. set (bf := base_filters o chroms).
  set (v := splice full lo hi seg).
  set (M := marg_of n (partition (bin1_offset px lo) (bin1_offset px hi) c) (bf ++ [f_times v]) px).
  assert (LM : length M = n) by apply length_marg_of.
  split.
  - unfold slice. rewrite firstn_length, skipn_length. lia.
  - intros i' Hi. unfold InR in Hi.
    rewrite qnth_slice by lia.
    assert (Hi2 : (0 <= lo + i' < Z.of_nat n)%Z) by lia.
    unfold M, marg_of.
    pose proof (bin1_offset_bounds px lo) as B1. pose proof (bin1_offset_mono px lo hi H1) as B3.
    rewrite (marg_schedule_invariant_sub n _ (bf ++ [f_times v]) px
               (slice px (bin1_offset px lo) (bin1_offset px hi)) _ (lo + i')
               (partition_exact_cover px _ _ c Hc (conj (proj1 B1) B3)) (Permutation_refl _) Hi2).
    unfold bf. rewrite (cis_range_suffices o chroms n lo hi v px (lo + i')) by (auto; lia).
    rewrite (sum_pcontrib_rowsum n _ px v (lo + i') (keyfix_base_filters o chroms) Hg Hi2).
    unfold v. apply rowsum_block; auto; try lia.
    + unfold zlen. lia.
    + intros j Hj Hout. apply (Fmat_cis_zero o chroms n lo hi px); auto. lia.
Qed.

(** ** cis-only mode of the model, one chromosome [lo, hi): the loop runs on the chromosome's own sub-matrix
    Fc(a, b) = F(lo + a, lo + b), whatever the current weights [full] of the other chromosomes are *)
Section CisOnly.
  Variables (o : opts) (chroms : list Z) (n : nat) (c lo hi : Z) (px : list pixel).
  Hypothesis Hcis : o_cis o = true.
  Hypothesis Hc : (1 <= c)%Z.
  Hypothesis Hsep : BlockSep chroms n lo hi.
  Hypothesis Hg : good_px n px = true.
  Hypothesis Hs : rows_sorted px.
  Hypothesis H0 : (0 <= lo)%Z.
  Hypothesis H1 : (lo <= hi)%Z.
  Hypothesis H2 : (hi <= Z.of_nat n)%Z.
  Let m := Z.to_nat (hi - lo).
  Let Fc := fun a b => Fmat (base_filters o chroms) px (lo + a) (lo + b).

  Lemma Fc_sym : forall i j, Fc i j == Fc j i.
  Proof. intros. unfold Fc. apply Fmat_sym. Qed.
  Lemma Fc_nonneg : forall i j, 0 <= Fc i j.
  Proof. intros. unfold Fc. apply (Fmat_nonneg n); [apply datnn_base_filters | assumption]. Qed.

  Theorem cis_nan_set : forall full tol fuel seg bb s v k i,
    length full = n -> length seg = m -> NonNeg seg ->
    ic_loop (margf_cis n c (base_filters o chroms) px full lo hi) tol fuel seg = Some (bb, s, v, k) -> InR m i ->
    (onth (mark_nan s bb) i = None <-> AllZero Fc m seg \/ qnth seg i == 0) /\
    (forall x, onth (mark_nan s bb) i = Some x -> 0 < x /\ x = qnth bb i).
  Proof.
    intros full tol fuel seg bb s v k i Hlf Hls Hn Hloop Hi.
    apply (nan_set Fc m Fc_nonneg (margf_cis n c (base_filters o chroms) px full lo hi)
             (fun b Hb => cis_margof o chroms n c lo hi px full Hcis Hc Hsep Hg Hs H0 H1 H2 Hlf b Hb)
             tol fuel seg bb s v k i Hls Hn Hloop Hi).
  Qed.

  Theorem cis_flatness : forall full tol fuel seg bb mu v k eps i,
    length full = n -> length seg = m -> NonNeg seg ->
    ic_loop (margf_cis n c (base_filters o chroms) px full lo hi) tol fuel seg = Some (bb, Some mu, v, k) ->
    v < tol -> 0 <= eps -> eps < 1 -> nnz_rows Fc m seg * tol <= eps * eps * mu * mu ->
    InR m i -> ~ rowsum Fc m seg i == 0 ->
    mu / (1 + eps) <= rowsum Fc m bb i /\ rowsum Fc m bb i <= mu / (1 - eps).
  Proof.
    intros full tol fuel seg bb mu v k eps i Hlf Hls Hn Hloop Hv He0 He1 HN Hi Hnz.
    exact (loop_flatness Fc m Fc_sym Fc_nonneg (margf_cis n c (base_filters o chroms) px full lo hi)
             (fun b Hb => cis_margof o chroms n c lo hi px full Hcis Hc Hsep Hg Hs H0 H1 H2 Hlf b Hb)
             tol fuel seg bb mu v k eps i Hls Hn Hloop Hv He0 He1 HN Hi Hnz).
  Qed.

  Theorem cis_flatness_rescaled : forall full tol fuel seg bb mu v k eps i (w : list Q),
    length full = n -> length seg = m -> NonNeg seg ->
    ic_loop (margf_cis n c (base_filters o chroms) px full lo hi) tol fuel seg = Some (bb, Some mu, v, k) ->
    v < tol -> 0 <= eps -> eps < 1 -> nnz_rows Fc m seg * tol <= eps * eps * mu * mu ->
    (forall j, 0 <= qnth w j /\ qnth w j * qnth w j * mu == qnth bb j * qnth bb j) ->
    InR m i -> ~ rowsum Fc m seg i == 0 ->
    1 / (1 + eps) <= rowsum Fc m w i /\ rowsum Fc m w i <= 1 / (1 - eps).
  Proof.
    intros full tol fuel seg bb mu v k eps i w Hlf Hls Hn Hloop Hv He0 He1 HN Hw Hi Hnz.
    exact (loop_flatness_rescaled Fc m Fc_sym Fc_nonneg (margf_cis n c (base_filters o chroms) px full lo hi)
             (fun b Hb => cis_margof o chroms n c lo hi px full Hcis Hc Hsep Hg Hs H0 H1 H2 Hlf b Hb)
             tol fuel seg bb mu v k eps i w Hls Hn Hloop Hv He0 He1 HN Hw Hi Hnz).
  Qed.
End CisOnly.

Lemma ic_loop_length : forall (margf : list Q -> list Q) tol (m : nat),
  (forall b, length b = m -> length (margf b) = m) ->
  forall fuel b bb s v k, length b = m -> ic_loop margf tol fuel b = Some (bb, s, v, k) -> length bb = m.
Proof.
  intros margf tol m Hm. induction fuel as [|f IHf]; intros b bb s v k Lb E; [discriminate|]. simpl in E.
  destruct (ic_update (margf b) b) as [[[b' var] mu]|] eqn:Eu.
  - assert (Lb' : length b' = m).
    { unfold ic_update in Eu. destruct (nzs _); [discriminate|]. injection Eu as <- _ _.
      rewrite map_length, combine_length, (Hm b Lb). lia. }
    destruct (Qltb var tol); [injection E as <- _ _ _; exact Lb'|].
    destruct (ic_loop margf tol f b') as [[[[bb2 s2] v2] k2]|] eqn:E3.
    + injection E as <- _ _ _. apply (IHf b' bb2 s2 v2 k2 Lb' E3).
    + injection E as <- _ _ _. exact Lb'.
  - injection E as <- _ _ _. exact Lb.
Qed.

(** the sequential per-chromosome driver: every reported chromosome result is the outcome of the loop of that
    chromosome started from its own slice of some full weight vector of length n *)
Theorem cis_loop_spec : forall o (n : nat) c bf px ranges full rs,
  length full = n ->
  Forall (fun lohi => (0 <= fst lohi)%Z /\ (fst lohi <= snd lohi)%Z /\ (snd lohi <= Z.of_nat n)%Z) ranges ->
  (forall lo hi full' seg, length full' = n -> length seg = Z.to_nat (hi - lo) -> In (lo, hi) ranges ->
      length (margf_cis n c bf px full' lo hi seg) = Z.to_nat (hi - lo)) ->
  cis_loop o n c bf px full ranges = Some rs ->
  Forall2 (fun lohi r => exists full' bb s v k,
             length full' = n /\
             ic_loop (margf_cis n c bf px full' (fst lohi) (snd lohi)) (o_tol o) (o_iters o)
                     (slice full' (fst lohi) (snd lohi)) = Some (bb, s, v, k) /\
             c_bias r = mark_nan s bb /\ c_scale r = s /\ c_var r = v /\ c_iters r = k) ranges rs.
Proof.
  intros o n c bf px ranges. induction ranges as [|[lo hi] rest IH]; intros full rs Hlf Hr Hlen Hloop; simpl in Hloop.
  - inversion Hloop. constructor.
  - inversion_clear Hr as [|? ? [A0 [A1 A2]] Hr']. simpl in A0, A1, A2.
    destruct (ic_loop (margf_cis n c bf px full lo hi) (o_tol o) (o_iters o) (slice full lo hi))
      as [[[[seg s] v] k]|] eqn:E; [|discriminate].
    destruct (cis_loop o n c bf px (splice full lo hi seg) rest) as [rs'|] eqn:E2; [|discriminate].
    injection Hloop as <-. constructor.
    + exists full, seg, s, v, k. simpl. repeat split; auto.
    + apply (IH (splice full lo hi seg)); auto.
      * (* the loop keeps the length of the segment *)
        assert (Lseg : length seg = Z.to_nat (hi - lo)).
        { apply (ic_loop_length (margf_cis n c bf px full lo hi) (o_tol o) (Z.to_nat (hi - lo))) with
            (fuel := o_iters o) (b := slice full lo hi) (s := s) (v := v) (k := k); auto.
          - intros b Hb. apply Hlen; auto. now left.
          - unfold slice. rewrite firstn_length, skipn_length. lia. }
        rewrite length_splice; unfold zlen; lia.
      * intros lo' hi' full' seg' Hf' Hs' Hin. apply Hlen; auto. now right.
Qed.

(** * 10. util.partition clips its last span at [stop] (explicit form) *)
Local Open Scope Z_scope.
Lemma chain_in_bounds : forall a s e lo hi, Chain a s e -> In (lo, hi) s -> a <= lo /\ lo <= hi /\ hi <= e.
Proof.
  intros a s e lo hi H. induction H as [a|a m e r Ham Hc IH]; intros Hin; [contradiction|].
  pose proof (chain_le _ _ _ Hc). destruct Hin as [E|Hin]; [inversion E; subst; lia | specialize (IH Hin); lia].
Qed.

Lemma chain_last : forall a s e d, Chain a s e -> s <> [] -> snd (last s d) = e.
Proof.
  intros a s e d H. induction H as [a|a m e r Ham Hc IH]; intros Hne; [congruence|].
  destruct r as [|x r]; [inversion Hc; subst; reflexivity|].
  change (last ((a, m) :: x :: r) d) with (last (x :: r) d). apply IH. discriminate.
Qed.

(** every span of partition(plo, phi, c) lies inside [plo, phi], and the last one ends exactly at phi:
    the min(i + step, stop) of util.partition is what makes this true *)
Theorem partition_clipped : forall plo phi c, 1 <= c -> plo <= phi ->
  Forall (fun s => plo <= fst s /\ fst s <= snd s /\ snd s <= phi) (partition plo phi c) /\
  (partition plo phi c <> [] -> snd (last (partition plo phi c) (0, 0)) = phi).
Proof.
  intros plo phi c Hc Hle. pose proof (partition_chain plo phi c Hc Hle) as Hch. split.
  - rewrite Forall_forall. intros [lo hi] Hin. cbn [fst snd]. exact (chain_in_bounds _ _ _ lo hi Hch Hin).
  - intros Hne. exact (chain_last _ _ _ (0, 0) Hch Hne).
Qed.
