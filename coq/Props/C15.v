(** C15  File-level operations preserve content and touch nothing else.
    Only statements about the object-store model (Model/H5.v), each closed by a lemma of
    Proofs/H5Proofs.v.  [world_le w w'] = every object of both files is still there with the
    same attributes/payload and every link it had (links and objects were only added). *)
From Cooler Require Import Model.H5 Model.Scool Proofs.H5Proofs Proofs.ScoolProofs.

(** path resolution is monotone: adding links/objects never changes what an already resolving
    path denotes (aliasing through hard, soft and external links included) *)
Theorem C15_resolution_monotone : forall w w' f p f1 o1,
  world_le w w' -> resolves w f p f1 o1 -> resolves w' f p f1 o1.
Proof. intros w w' f p f1 o1. apply resolves_mono. Qed.
Print Assumptions C15_resolution_monotone.

(** frame of cp / ln / ln -s (no overwrite flag), whatever the outcome (success or any error):
    nothing is removed or modified in either file *)
Theorem C15_copy_link_frame : forall w sf sp df dp link soft e w',
  _copy w sf sp df dp false link false soft = (e, w') ->
  (sf = df \/ dp <> [] \/ link = true \/ soft = true) ->
  world_le w w'.
Proof. exact copy_frame. Qed.
Print Assumptions C15_copy_link_frame.

(** the root-destination special case of a cross-file copy additionally updates the root attributes *)
Theorem C15_copy_root_frame : forall w sf sp df e w', sf <> df ->
  _copy w sf sp df [] false false false false = (e, w') ->
  exists w2 a, world_le w w2 /\ (w' = w2 \/ w' = set_attrs w2 df 0%nat a).
Proof. exact copy_root_frame. Qed.
Print Assumptions C15_copy_root_frame.

(** ln (hard): the destination path denotes the very object the source denoted *)
Theorem C15_ln_same_object : forall w f sp dp w',
  ln w f sp f dp false false = (Ok, w') ->
  exists fo o, resolve w f sp = Found fo o /\ resolves w' f dp fo o /\ world_le w w'.
Proof. exact ln_spec. Qed.
Print Assumptions C15_ln_same_object.

(** cp onto a non-root destination of an existing file: the destination resolves to a NEW object that dumps
    - structure, attributes, payloads, link values, sharing pattern - exactly as the source object did
    ([shift_entry k] only renames object ids by +k), and nothing else changed *)
Theorem C15_cp_reads_as_source : forall w sf sp df dp w',
  file_exists w df = true -> (sf = df \/ dp <> []) ->
  cp w sf sp df dp false = (Ok, w') ->
  exists fs o k,
    resolve w sf sp = Found fs o /\ resolves w' df dp df (o + k) /\
    (forall d pre, dump d w' df (o + k) pre = map (shift_entry k) (dump d w fs o pre)) /\
    world_le w w'.
Proof. exact cp_spec. Qed.
Print Assumptions C15_cp_reads_as_source.

(** a refused cp or ln -s (no overwrite flag, existing destination file, not the root-destination case)
    leaves both files exactly as they were *)
Theorem C15_error_leaves_files_unchanged : forall w sf sp df dp soft e w',
  file_exists w df = true -> (sf = df \/ dp <> [] \/ soft = true) ->
  _copy w sf sp df dp false false false soft = (e, w') -> e <> Ok -> w' = w.
Proof. exact copy_error_unchanged. Qed.
Print Assumptions C15_error_leaves_files_unchanged.

(** mv within a file: after a successful move the source name is unbound in its parent group
    (partial: the guarded "destination reads as the source" half is not proved in general - it is
    FALSE for destinations inside the moved group, C15_mv_spec_refuted below) *)
Theorem C15_mv_source_unbound_partial : forall w f sp dp w',
  mv w f sp f dp false = (Ok, w') ->
  exists w2 par n fp gp, sp = par ++ [n] /\ del_link w2 f sp = (Ok, w') /\ world_le w w2 /\
    resolve w2 f par = Found fp gp /\ lookup_link w' fp gp n = None.
Proof. exact mv_source_unbound. Qed.
Print Assumptions C15_mv_source_unbound_partial.

(** mv_spec, guarded.  [mv_guard w f sp dp] is the decidable condition: in the store AFTER the new hard link
    is made, the traversal of the destination path does not pass through the source's own link slot (the
    source's parent group, the source name); it is false exactly for destinations inside the moved group or
    behind a link back to it (D23) and for a root source.  [walk_av s] = path resolution that refuses slot s.
    Then: the destination resolves to THE VERY OBJECT the source denoted, the source name is unbound, and every
    traversal - from any start object, of any path, with any budget - that avoided the slot resolves as before *)
Theorem C15_mv_spec : forall w f sp dp w',
  mv w f sp f dp false = (Ok, w') -> mv_guard w f sp dp = true ->
  exists fo o par n fp gp,
    resolve w f sp = Found fo o /\ resolve w' f dp = Found fo o /\
    sp = par ++ [n] /\ lookup_link w' fp gp n = None /\
    forall k x f0 o0 q f1 o1, walk_av (fp, gp, n) k w x f0 o0 q = Found f1 o1 -> walk k w' x f0 o0 q = Found f1 o1.
Proof. exact mv_spec. Qed.
Print Assumptions C15_mv_spec.

Theorem C15_avoiding_resolution_is_resolution : forall s k w x f o p f1 o1,
  walk_av s k w x f o p = Found f1 o1 -> walk k w x f o p = Found f1 o1.
Proof. exact walk_av_walk. Qed.
Print Assumptions C15_avoiding_resolution_is_resolution.

(** recreate_replaces: re-creating (append mode) at an OCCUPIED non-root path (the first create_group is refused;
    the parent traversal does not pass through the occupied link itself): the name is rebound to a NEW group
    that holds exactly the tables of the new collection - nothing of the old one - and every traversal that
    avoided that link resolves exactly as before *)
Theorem C15_recreate_replaces : forall w f p spec w' par n fp gp e0 w0 t0,
  file_exists w f = true -> create_group w f p = (e0, w0, t0) -> e0 = EValue ->
  split_last p = Some (par, n) -> resolve w f par = Found fp gp ->
  walk_av (fp, gp, n) FUEL w false f 0 par = Found fp gp ->
  create w f p false spec = (Ok, w') ->
  exists g, child w' fp gp n = Some g /\
    (forall m src, In (m, src) (cs_tables spec) -> table_ok w' fp g m src) /\
    (forall m l, lookup_link w' fp g m = Some l -> In m (map fst (cs_tables spec))) /\
    (forall k x f0 o0 q f1 o1, walk_av (fp, gp, n) k w x f0 o0 q = Found f1 o1 -> walk k w' x f0 o0 q = Found f1 o1).
Proof. exact recreate_replaces. Qed.
Print Assumptions C15_recreate_replaces.

(** recognition is total: never an error ... *)
Theorem C15_is_cooler_never_raises : forall w f p e, is_cooler w f p <> TRaise e.
Proof. exact is_cooler_never_raises. Qed.
Print Assumptions C15_is_cooler_never_raises.

(** ... true exactly on member paths that resolve to an object tagged as a cooler ... *)
Theorem C15_is_cooler_true_iff : forall w f p,
  is_cooler w f p = TTrue <->
  file_exists w f = true /\ contains w f p = TTrue /\
  exists f1 o x, resolve w f p = Found f1 o /\ obj_at w f1 o = Some x /\ is_cooler_obj x = true.
Proof. exact is_cooler_true_iff. Qed.
Print Assumptions C15_is_cooler_true_iff.

(** ... and false for a path that is not a member path (D5) or does not resolve (D25) *)
Theorem C15_is_cooler_false_elsewhere : forall w f p,
  (contains w f p <> TTrue \/ (forall f1 o, resolve w f p <> Found f1 o)) -> is_cooler w f p = TFalse.
Proof. exact is_cooler_false_elsewhere. Qed.
Print Assumptions C15_is_cooler_false_elsewhere.

(** listing, partial correctness: whenever list_coolers returns at all, it lists exactly the objects
    reachable through group members ([reach]: each member opened on its own, named as h5py names it)
    that are tagged as coolers, plus "/" when the root is one *)
Theorem C15_listing_exact_when_it_returns : forall w f L, list_coolers w f = (Ok, L) ->
  forall p, In p L <->
    (p = [] /\ is_cooler_at w f 0 = true) \/
    (exists f2 o2, reach w f 0 [] p f2 o2 /\ is_cooler_at w f2 o2 = true).
Proof. exact listing_exact_reach. Qed.
Print Assumptions C15_listing_exact_when_it_returns.

(** listing_exact: in a file without external links, if the listing returns (no link cycle, no dangling
    member) it is exactly the set of paths that resolve - by the file's own path resolution, with any
    budget - to an object tagged as a cooler *)
Theorem C15_listing_exact : forall w f L, no_ext w f -> nodup_keys w f -> list_coolers w f = (Ok, L) ->
  forall p, In p L <-> exists o2, resolves w f p f o2 /\ is_cooler_at w f o2 = true.
Proof. exact listing_exact. Qed.
Print Assumptions C15_listing_exact.

(** totality: [ranked w rk] = the member graph is acyclic (rk strictly decreases along every member that opens),
    [all_open w] = no member dangles or loops.  A budget above the rank of the start object suffices ... *)
Theorem C15_traversal_terminates : forall w rk, ranked w rk -> all_open w ->
  forall k f o name, (rk f o < k)%nat -> fst (visit k w f o name) = Ok.
Proof. exact visit_total. Qed.
Print Assumptions C15_traversal_terminates.

(** ... so on that domain (depth below the interpreter's recursion budget) list_coolers is TOTAL, and without
    external links it returns exactly the paths that resolve to a cooler-tagged object *)
Theorem C15_listing_total_exact : forall w rk f, ranked w rk -> all_open w -> file_exists w f = true ->
  (rk f 0 < VISIT_FUEL)%nat -> no_ext w f -> nodup_keys w f ->
  exists L, list_coolers w f = (Ok, L) /\
            forall p, In p L <-> exists o2, resolves w f p f o2 /\ is_cooler_at w f o2 = true.
Proof. exact listing_total_exact. Qed.
Print Assumptions C15_listing_total_exact.

Theorem C15_rank_check_sound : forall w rk, file_ranked_b w rk FA = true -> file_ranked_b w rk FB = true ->
  ranked w rk /\ all_open w.
Proof. exact file_ranked_b_sound. Qed.
Print Assumptions C15_rank_check_sound.

Theorem C15_wellformed_check_sound : forall w f, file_wf_b w f = true -> no_ext w f /\ nodup_keys w f.
Proof. exact file_wf_b_sound. Qed.
Print Assumptions C15_wellformed_check_sound.

(** append-create at a path whose last name is free keeps every link and every dataset of both files *)
Theorem C15_create_append_frame : forall w f p spec w1 tgt e w',
  file_exists w f = true -> create_group w f p = (Ok, w1, tgt) ->
  create w f p false spec = (e, w') -> keeps w w'.
Proof. exact create_append_frame. Qed.
Print Assumptions C15_create_append_frame.

(** write mode replaces the file: the result does not depend on what the file held *)
Theorem C15_create_w_replaces : forall w f p spec,
  create w f p true spec = create (set_store w f None) f p true spec.
Proof. exact create_w_replaces. Qed.
Print Assumptions C15_create_w_replaces.

(** f::g and f::/g denote the same group path *)
Theorem C15_uri_slash : forall g, path_of_string (uri_group g) = path_of_string g.
Proof. exact uri_slash. Qed.
Print Assumptions C15_uri_slash.

(** ---- the full statements that are FALSE of the faithful model (known findings), with witnesses *)

(** "listing = exactly the collections held" fails on a hard link to an ancestor (D14a): the traversal
    never terminates within its budget (RecursionError) although /a/b is a collection *)
Theorem C15_listing_exact_refuted_cycle :
  list_coolers w_cycle FA = (ERecursion, []) /\ is_cooler w_cycle FA ["a"; "b"]%string = TTrue.
Proof. exact listing_cycle_refuted. Qed.
Print Assumptions C15_listing_exact_refuted_cycle.

(** ... and no budget would do: the traversal of that file fails for EVERY fuel (the real RecursionError
    does not depend on the interpreter's recursion limit) *)
Theorem C15_listing_cycle_no_fuel_suffices : forall k name, fst (visit k w_cycle FA 0 name) <> Ok.
Proof. exact listing_cycle_no_fuel. Qed.
Print Assumptions C15_listing_cycle_no_fuel_suffices.

(** ... on an external link (D14b): /e is a collection of file B but the listing reports /x *)
Theorem C15_listing_exact_refuted_external :
  list_coolers w_ext FB = (Ok, [sx]) /\ is_cooler w_ext FB ["e"%string] = TTrue /\ is_cooler w_ext FB sx = TFalse.
Proof. exact listing_external_refuted. Qed.
Print Assumptions C15_listing_exact_refuted_external.

(** ... on a dangling link (D14c): the listing raises although /z is a collection *)
Theorem C15_listing_exact_refuted_dangling :
  list_coolers w_dangling FA = (EAttr, []) /\ is_cooler w_dangling FA ["z"%string] = TTrue /\
  is_cooler w_dangling FA ["y"%string] = TFalse.
Proof. exact listing_dangling_refuted. Qed.
Print Assumptions C15_listing_exact_refuted_dangling.

(** "after mv the destination reads as the source" fails for a destination inside the moved group (D23) *)
Theorem C15_mv_spec_refuted :
  let w := run world0 [OCreate FA sx false (tiny 1)] in
  let r := mv w FA sx FA sxy false in
  fst r = Ok /\ resolve (snd r) FA sxy = Missing true /\
  resolve (snd r) FA sx = Missing false /\ list_coolers (snd r) FA = (Ok, []).
Proof. exact mv_spec_refuted. Qed.
Print Assumptions C15_mv_spec_refuted.

(** "a failed operation leaves both files unchanged" fails for mv of the root collection (D24) ... *)
Theorem C15_error_frame_refuted_mv_root :
  let w := run world0 [OCreate FA [] false (tiny 1)] in
  let r := mv w FA [] FA sx false in
  fst r = EKey /\ is_cooler w FA sx = TFalse /\ is_cooler (snd r) FA sx = TTrue.
Proof. exact mv_root_error_changes_file. Qed.
Print Assumptions C15_error_frame_refuted_mv_root.

(** ... for a cross-file copy onto an occupied ROOT, which fails midway (D29) ... *)
Theorem C15_error_frame_refuted_root_copy :
  let w := run world0 [OCreate FA [] false (tiny 1); OCreate FA ["c10"%string] false (tiny 2);
                       OCreate FA ["c2"%string] false (tiny 4); OCreate FB ["c2"%string] false (tiny 3)] in
  let r := cp w FA [] FB [] false in
  fst r = ERuntime /\ is_cooler w FB ["c10"%string] = TFalse /\ is_cooler (snd r) FB ["c10"%string] = TTrue.
Proof. exact copy_root_error_partial. Qed.
Print Assumptions C15_error_frame_refuted_root_copy.

(** ... and under the overwrite flag (documented: the destination file is truncated first) *)
Theorem C15_error_frame_refuted_overwrite :
  let w := run world0 [OCreate FA sx false (tiny 1); OCreate FB sx false (tiny 2)] in
  let r := ln w FA sx FB ["y"%string] false true in
  fst r = EOS /\ is_cooler w FB sx = TTrue /\ is_cooler (snd r) FB sx = TFalse.
Proof. exact error_frame_overwrite_refuted. Qed.
Print Assumptions C15_error_frame_refuted_overwrite.

(** "a soft link reads as its source" fails when the destination lies behind an external link (D26) *)
Theorem C15_ln_soft_refuted_behind_external :
  let w := run world0 [OCreate FA sxy false (tiny 1); OCreate FB ["z"%string] false (tiny 2);
                       OCopy FA sxy FB sx false false false true] in
  let r := ln w FB ["z"%string] FB sxy true false in
  fst r = Ok /\ is_cooler w FB ["z"%string] = TTrue /\ is_cooler (snd r) FB sxy = TFalse /\
  lookup_link (snd r) FA 2%nat "y"%string = Some (Soft ["z"%string]).
Proof. exact lns_behind_external_refuted. Qed.
Print Assumptions C15_ln_soft_refuted_behind_external.

(** non-vacuity: a concrete successful hard link *)
Example ex_C15_ln :
  let w := run world0 [OCreate FA sx false (tiny 1)] in
  let r := ln w FA sx FA ["z"%string] false false in
  fst r = Ok /\ resolve (snd r) FA ["z"%string] = resolve w FA sx /\ resolve w FA sx = Found FA 1%nat.
Proof. exact ex_ln_ok. Qed.

(** non-vacuity of C15_listing_exact: a well-formed file (collection, soft link to it, nested collection) *)
Example ex_C15_listing :
  file_wf_b w_listed FA = true /\
  list_coolers w_listed FA = (Ok, [sx; sxy; ["y"%string]; ["y"; "y"]%string]).
Proof. exact ex_listing_exact. Qed.

(** non-vacuity of C15_mv_spec / C15_recreate_replaces / C15_listing_total_exact *)
Example ex_C15_mv_guard :
  let w := run world0 [OCreate FA sx false (tiny 1); OCreate FA sxy false (tiny 2)] in
  mv_guard w FA sx ["z"%string] = true /\ fst (mv w FA sx FA ["z"%string] false) = Ok /\
  mv_guard w FA sx sxy = false /\ mv_guard w FA sx ["x"; "q"]%string = false.
Proof. exact ex_mv_guard. Qed.
Example ex_C15_recreate :
  let w := run world0 [OCreate FA sx false (tiny 1); OCreate FA sxy false (tiny 2); OCreate FA ["z"%string] false (tiny 3)] in
  let r := create w FA sx false (tiny 9) in
  fst (fst (create_group w FA sx)) = EValue /\ fst r = Ok /\
  is_cooler (snd r) FA sx = TTrue /\ is_cooler w FA sxy = TTrue /\ is_cooler (snd r) FA sxy = TFalse /\
  walk_av (FA, 0%nat, "x"%string) FUEL w false FA 0 [] = Found FA 0%nat /\
  resolve (snd r) FA ["z"%string] = resolve w FA ["z"%string].
Proof. exact ex_recreate. Qed.
Example ex_C15_listing_total :
  file_ranked_b w_listed (height 12 w_listed) FA = true /\ file_ranked_b w_listed (height 12 w_listed) FB = true /\
  Nat.ltb (height 12 w_listed FA 0) VISIT_FUEL = true /\ file_wf_b w_listed FA = true.
Proof. exact ex_listing_total. Qed.
