(** C07  Merging coolers is the exact element-wise aggregate of the inputs.
    Only statements; proofs are in Proofs/MergeProofs.v. *)
From Cooler Require Import Model.Merge Proofs.PixelsProofs Proofs.MergeProofs.
From Coq Require Import Sorted Permutation.

(** merge_breakpoints terminates (fuel = length of the index = n_bins + 1 is never exhausted) for every
    family of monotone bin1_offset arrays of equal length L >= 2 starting at 0 and every bufsize >= 0;
    the partition starts at 0, is strictly increasing, stays inside the index, and every row from its
    last element on is empty in every input (so the epochs cover every record). *)
Theorem C07_breakpoints_partition : forall (idxs : list (list Z)) (L : nat) (buf : Z),
  idxs <> [] -> (2 <= L)%nat ->
  Forall (fun a => length a = L /\ MonoN a /\ nth 0 a 0 = 0) idxs -> 0 <= buf ->
  exists p, merge_breakpoints L idxs buf = Ok p /\
    hd 1%nat p = O /\ StronglySorted lt p /\ Forall (fun h => (h < L)%nat) p /\
    Forall (fun a => forall r, (last p O <= r < L)%nat -> nth r a 0 = nth (L - 1) a 0) idxs.
Proof. exact breakpoints_partition. Qed.
Print Assumptions C07_breakpoints_partition.

Theorem C07_sorted_is_monotone : forall l, Sorted Z.le l -> MonoN l.
Proof. exact sorted_mono. Qed.
Print Assumptions C07_sorted_is_monotone.

(** [ValidIn n c]: the pixel table of input c has non-decreasing bin1_id in [0,n) and indexes/bin1_offset is
    its index (property C02 of every written cooler).  [allpx inputs] is the concatenation of all input
    pixel tables, [merged_px agg inputs buf] the concatenation of the chunks CoolerMerger yields. *)

(** any value type (tuple of columns) and any aggregation function: for every non-empty family of valid
    inputs and every buffer size the merger terminates without error, never yields an empty chunk, and
    what it writes is the sorted group-by aggregate of all input records *)
Theorem C07_merger_exact : forall (V : Type) (agg : list V -> V) (n : nat) (inputs : list (mcool V)) (buf : Z),
  inputs <> [] -> (1 <= n)%nat -> Forall (ValidIn n) inputs -> 0 <= buf ->
  exists eps, cooler_merger agg inputs buf = Ok eps /\
    concat eps = groupby_agg agg (allpx inputs) /\ Forall (fun e => e <> []) eps.
Proof. intros V. exact (@merger_exact V). Qed.
Print Assumptions C07_merger_exact.

(** ... i.e. strictly sorted, exactly the pixels present in some input, and for every stored pixel the
    requested aggregate of exactly that pixel's values over the inputs (in input order) *)
Theorem C07_merger_pixelwise : forall (V : Type) (agg : list V -> V) (n : nat) (inputs : list (mcool V)) (buf : Z),
  inputs <> [] -> (1 <= n)%nat -> Forall (ValidIn n) inputs -> 0 <= buf ->
  exists out, merged_px agg inputs buf = Ok out /\
    StronglySorted klt (map fst out) /\
    (forall k, In k (map fst out) <-> In k (map fst (allpx inputs))) /\
    (forall k v, In (k, v) out -> v = agg (vals (allpx inputs) k)).
Proof. intros V. exact (@merger_pixelwise V). Qed.
Print Assumptions C07_merger_pixelwise.

(** count column, sum: the merged table is the canonical aggregate of Model/Pixels.v and the recorded total
    is the sum of the input totals *)
Theorem C07_merger_canon : forall (n : nat) (inputs : list (mcool Z)) (buf : Z),
  inputs <> [] -> (1 <= n)%nat -> Forall (ValidIn n) inputs -> 0 <= buf ->
  exists out, merged_px sumZ inputs buf = Ok out /\
    Canon (allpx inputs) out /\ out = aggregate (allpx inputs) /\
    total out = sumZ (map (fun c => total (mc_px c)) inputs).
Proof. exact merger_canon. Qed.
Print Assumptions C07_merger_canon.

Theorem C07_buffer_independent : forall (V : Type) (agg : list V -> V) (n : nat) (inputs : list (mcool V)) (buf buf' : Z),
  inputs <> [] -> (1 <= n)%nat -> Forall (ValidIn n) inputs -> 0 <= buf -> 0 <= buf' ->
  merged_px agg inputs buf = merged_px agg inputs buf'.
Proof. intros V. exact (@merge_buffer_independent V). Qed.
Print Assumptions C07_buffer_independent.

Theorem C07_order_independent : forall (n : nat) (inputs inputs' : list (mcool Z)) (buf buf' : Z),
  Permutation inputs inputs' ->
  inputs <> [] -> (1 <= n)%nat -> Forall (ValidIn n) inputs -> 0 <= buf -> 0 <= buf' ->
  merged_px sumZ inputs buf = merged_px sumZ inputs' buf'.
Proof. exact merge_order_independent. Qed.
Print Assumptions C07_order_independent.

(** associativity over histories: storing the merge of xs (table + its index) and merging that file with ys
    equals merging xs ++ ys at once; xs = [a;b], ys = [c] is merge [merge [a;b]; c] = merge [a;b;c] *)
Theorem C07_merge_assoc : forall (n : nat) (xs ys : list (mcool Z)) (b1 b2 b3 : Z),
  xs <> [] -> (1 <= n)%nat -> Forall (ValidIn n) xs -> Forall (ValidIn n) ys ->
  0 <= b1 -> 0 <= b2 -> 0 <= b3 ->
  exists m, merged_px sumZ xs b1 = Ok m /\
    merged_px sumZ (mk_cool n m :: ys) b2 = merged_px sumZ (xs ++ ys) b3.
Proof. exact merge_assoc. Qed.
Print Assumptions C07_merge_assoc.

(** the output of a merge is again a valid input (closes the induction over merge histories) *)
Theorem C07_merged_is_valid : forall (V : Type) (agg : list V -> V) (n : nat) (inputs : list (mcool V)),
  Forall (ValidIn n) inputs -> ValidIn n (mk_cool n (groupby_agg agg (allpx inputs))).
Proof. intros V. exact (@valid_merged V). Qed.
Print Assumptions C07_merged_is_valid.

(** non-vacuity: two real-looking indexes (one with leading empty rows), buffer 1 *)
Example ex_C07_breakpoints :
  merge_breakpoints 5 [[0;0;2;3;4]; [0;1;1;1;3]] 1 = Ok [0;1;2;3;4]%nat /\
  merge_breakpoints 5 [[0;0;2;3;4]; [0;1;1;1;3]] 4 = Ok [0;3;4]%nat /\
  merge_breakpoints 4 [[0;0;0;0]] 1 = Ok [0;3]%nat.
Proof. vm_compute. repeat split; reflexivity. Qed.

(** non-vacuity of ValidIn and of the merger theorem: two overlapping inputs, one with leading empty rows,
    buffer of one record *)
Example ex_C07_merge :
  let a := mk_cool 4 [((1,1),2); ((1,2),3); ((2,2),1); ((3,3),4)] in
  let b := mk_cool 4 [((0,1),5); ((1,2),7)] in
  mc_off a = [0;0;2;3;4] /\
    merged_px sumZ [a; b] 1 = Ok [((0,1),5); ((1,1),2); ((1,2),10); ((2,2),1); ((3,3),4)] /\
    merged_px sumZ [b; a] 6 = merged_px sumZ [a; b] 1.
Proof. vm_compute. repeat split; reflexivity. Qed.
