(** Bin tables: binnify, get_binsize, get_chromsizes  (src/cooler/util.py)  *)
From Cooler Require Export Model.Base.

(** a bin is (chromosome id, start, end); chromosome ids are positions in the chromosome table *)
Definition bin := (Z * Z * Z)%type.
Definition bchrom (x : bin) : Z := fst (fst x).
Definition bstart (x : bin) : Z := snd (fst x).
Definition bend   (x : bin) : Z := snd x.
Definition bwidth (x : bin) : Z := bend x - bstart x.

(** util.binnify._each :
      n_bins = int(np.ceil(clen / binsize))
      binedges = np.arange(0, n_bins + 1) * binsize ;  binedges[-1] = clen
      rows (chrom, binedges[:-1], binedges[1:])                                   *)
Definition binnify_chrom (c L b : Z) : list bin :=
  let n := Z.to_nat (cdiv L b) in
  let edges := set_last (map (fun k => k * b) (zrange 0 (S n))) L in
  map (fun se => (c, fst se, snd se)) (combine (removelast edges) (tl edges)).

(** util.binnify : concat over chromsizes.keys() in order *)
Definition binnify (sizes : list Z) (b : Z) : list bin :=
  concat (map (fun ci => binnify_chrom (fst ci) (snd ci) b) (enumerate sizes)).

(** groups of bins.groupby("chrom", observed=True): widths per observed chromosome *)
Definition rows_of (t : list bin) (c : Z) : list bin := filter (fun x => bchrom x =? c) t.
Definition chroms_of (t : list bin) : list Z := nodup Z.eq_dec (map bchrom t).

(** util.get_binsize (after fix D1): the set of widths of all non-last bins of every
    contig must be a singleton {b}, and no contig's last bin may be longer than b *)
Definition get_binsize (t : list bin) : option Z :=
  let groups := map (fun c => map bwidth (rows_of t c)) (chroms_of t) in
  let sizes := nodup Z.eq_dec (concat (map (@removelast Z) groups)) in
  let lasts := map (fun g => last g 0) groups in
  match sizes with
  | [b] => if existsb (fun w => b <? w) lasts then None else Some b
  | _ => None
  end.

(** util.get_chromsizes : drop_duplicates(["chrom"], keep="last")[["chrom","end"]] *)
Fixpoint get_chromsizes (t : list bin) : list (Z * Z) :=
  match t with
  | [] => []
  | x :: r =>
      if existsb (fun y => bchrom y =? bchrom x) r then get_chromsizes r
      else (bchrom x, bend x) :: get_chromsizes r
  end.

(** the exact shape the property demands of a fixed-width bin:  [k*b, min((k+1)*b, L)) *)
Definition ideal_bin (c L b : Z) (k : Z) : bin := (c, k * b, Z.min ((k + 1) * b) L).
Definition ideal_chrom (c L b : Z) : list bin :=
  map (ideal_bin c L b) (zrange 0 (Z.to_nat (cdiv L b))).

(** executable validity check of a bin table given as chromosome blocks:
    block i is non-empty, carries chromosome id i, starts at 0 and is tiled by
    consecutive non-empty bins *)
Fixpoint tiled_b (c s : Z) (l : list bin) : bool :=
  match l with
  | [] => true
  | x :: r => (bchrom x =? c) && (bstart x =? s) && (s <? bend x) && tiled_b c (bend x) r
  end.
Definition valid_blocks_b (blocks : list (list bin)) : bool :=
  forallb (fun ib => negb (match snd ib with [] => true | _ => false end)
                     && tiled_b (fst ib) 0 (snd ib)) (enumerate blocks).
