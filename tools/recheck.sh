#!/bin/bash
# usage: recheck.sh <seed-id> <PROP> <worktree> "<note>"
cd /verif
out=$(VERIF_REPO=$3 timeout 3000 ./check $2 2>&1 | grep -E "^VIOLATION|^KNOWN|ERROR" | cut -c1-250)
echo "$out" > seeded/$1/check_output_after_strengthening.txt
python3 - "$1" "$4" <<'P'
import json,sys
sid,note=sys.argv[1],sys.argv[2]
p=f'/verif/seeded/{sid}/meta.json'; m=json.load(open(p))
out=open(f'/verif/seeded/{sid}/check_output_after_strengthening.txt').read()
first=m['check_result'] if 'first_run' not in m['check_result'] else m['check_result']['first_run']
m['check_result']={'first_run': first, 'after_strengthening': {'output': out.splitlines()}, 'caught':'VIOLATION' in out,'with_failing_input':'VIOLATION' in out and 'no-failing-input-found' not in out}
m['notes']=note
json.dump(m,open(p,'w'),indent=1)
print(sid, 'caught' if m['check_result']['caught'] else 'STILL MISSED')
P
