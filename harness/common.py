"""Shared machinery of the cooler verification harness.

A property module ``harness/cXX.py`` exposes

    PROP = "CXX"
    def run(ctx): ...            # correspondence run + property oracle
    def replay(ctx, case): ...   # optional: re-run one recorded case

and talks to the framework only through :class:`Ctx`.  The framework owns the
proof re-check (make + Print Assumptions + hygiene grep), the verdict rules
(VIOLATION / KNOWN-FINDING / no-failing-input-found) and the evidence file.
"""
from __future__ import annotations

import fcntl
import hashlib
import json
import os
import random
import re
import shutil
import subprocess
import sys
import tempfile
import time
import traceback
from collections import Counter
from pathlib import Path

from coqio import ModelEvalError as coqio_ModelEvalError

VERIF = Path(__file__).resolve().parent.parent
REPO = Path(os.environ.get("VERIF_REPO", "/repo"))
COQDIR = VERIF / "coq"
EVIDENCE = VERIF / "evidence"
REPLAYS = VERIF / "replays"
KNOWN = VERIF / "known_findings.json"

FORBIDDEN = re.compile(
    r"\b(Admitted|admit|Axiom|Axioms|Parameter|Parameters|Conjecture|Conjectures|"
    r"Admit\s+Obligations|bypass_check|give_up)\b|Unset\s+Guard|Unset\s+Positivity|"
    r"Unset\s+Universe|type-in-type|impredicative-set|native_compute")

TRUSTED_BASE_COMMON = [
    "Coq 8.16.1 kernel incl. vm_compute (no native_compute); coqchk re-check in the thorough tier",
    "no Axiom/Parameter/Admitted of ours (grep on every run); axioms per theorem as printed by Print Assumptions (listed under 'assumptions_printed')",
    "correspondence harness (/verif/harness: generators, canonicalisers, Coq literal printer/parser) ties the hand-written Gallina model to /repo's working tree; CPython/numpy/pandas/h5py are the observed implementation stack",
]


# ------------------------------------------------------------------ build
def _v_files():
    files = []
    for sub in ("Gen", "Model", "Proofs", "Props"):
        d = COQDIR / sub
        if d.is_dir():
            files += sorted(str(p.relative_to(COQDIR)) for p in d.glob("*.v"))
    return files


def write_coqproject():
    """(Re)generate _CoqProject and Makefile when the set of .v files changed."""
    body = "-Q . Cooler\n-arg -w -arg -notation-overridden,-deprecated-hint-without-locality,-deprecated-instance-without-locality\n" + "\n".join(_v_files()) + "\n"
    cp = COQDIR / "_CoqProject"
    changed = (not cp.exists()) or cp.read_text() != body
    if changed:
        cp.write_text(body)
    if changed or not (COQDIR / "Makefile").exists():
        subprocess.run(["coq_makefile", "-f", "_CoqProject", "-o", "Makefile"],
                       cwd=COQDIR, check=True, capture_output=True)
    return changed


class _Lock:
    def __init__(self, path):
        self.path = path

    def __enter__(self):
        self.f = open(self.path, "w")
        fcntl.flock(self.f, fcntl.LOCK_EX)
        return self

    def __exit__(self, *a):
        fcntl.flock(self.f, fcntl.LOCK_UN)
        self.f.close()


def build_lock():
    return _Lock(COQDIR / ".build.lock")


def regenerate_gen():
    """Run the translator on /repo's working tree (fail-closed per function)."""
    tool = VERIF / "tools" / "py2v.py"
    if not tool.exists():
        return True, ""
    pr = subprocess.run([sys.executable, str(tool), "--repo", str(REPO),
                         "--out", str(COQDIR / "Gen")],
                        capture_output=True, text=True)
    return pr.returncode == 0, pr.stdout + pr.stderr


def coq_make(targets, jobs=16, timeout=3000):
    """make the given .vo targets (paths relative to coq/). Returns (ok, log)."""
    with build_lock():
        write_coqproject()
        cmd = ["timeout", str(timeout), "make", f"-j{jobs}"] + list(targets)
        pr = subprocess.run(cmd, cwd=COQDIR, capture_output=True, text=True)
    return pr.returncode == 0, pr.stdout[-6000:] + pr.stderr[-6000:]


_THM = re.compile(r"^\s*(Theorem|Lemma|Corollary|Example|Fact|Proposition)\s+([A-Za-z0-9_']+)", re.M)
_PA = re.compile(r"^\s*Print Assumptions\s+([A-Za-z0-9_'.]+)\s*\.", re.M)


def props_file(prop):
    return COQDIR / "Props" / f"{prop}.v"


def theorems_in(path: Path):
    return [m.group(2) for m in _THM.finditer(path.read_text())]


def print_assumptions(prop, timeout=600):
    """Compile Props/<prop>.v afresh (output discarded) and parse what
    Print Assumptions printed.  Returns (ok, {theorem: [axioms]}, log)."""
    src = props_file(prop)
    names = _PA.findall(src.read_text())
    td = tempfile.mkdtemp(prefix="pa_")
    try:
        cmd = ["timeout", str(timeout), "coqc", "-q", "-Q", str(COQDIR), "Cooler",
               "-o", os.path.join(td, src.stem + ".vo"), str(src)]
        pr = subprocess.run(cmd, capture_output=True, text=True, cwd=str(COQDIR))
    finally:
        shutil.rmtree(td, ignore_errors=True)
    if pr.returncode != 0:
        return False, {}, pr.stdout[-3000:] + pr.stderr[-3000:]
    out = pr.stdout
    # split into blocks: each Print Assumptions prints either
    # "Closed under the global context" or "Axioms:\n<name> : <type>..."
    blocks = re.split(r"(?m)^(?=Closed under the global context|Axioms:)", out)
    blocks = [b for b in blocks if b.startswith("Closed under") or b.startswith("Axioms:")]
    res = {}
    if len(blocks) != len(names):
        return False, {}, f"Print Assumptions blocks {len(blocks)} != statements {len(names)}\n{out[-2000:]}"
    for name, blk in zip(names, blocks):
        if blk.startswith("Closed under"):
            res[name] = []
        else:
            axs = re.findall(r"(?m)^([A-Za-z_][A-Za-z0-9_'.]*)\s*:", blk.split("\n", 1)[1] if "\n" in blk else "")   # skip the "Axioms:" header line
            res[name] = axs
    return True, res, ""


def hygiene():
    """grep the whole development for forbidden vernacular."""
    bad = []
    for f in _v_files():
        txt = (COQDIR / f).read_text()
        for i, line in enumerate(txt.splitlines(), 1):
            if FORBIDDEN.search(line):
                bad.append(f"{f}:{i}: {line.strip()[:120]}")
    return bad


# ---------------------------------------------------------------- findings
def load_known():
    if not KNOWN.exists():
        return []
    return json.loads(KNOWN.read_text())["findings"]


def canon(obj):
    return json.dumps(obj, sort_keys=True, default=str, separators=(",", ":"))


def short_hash(obj):
    return hashlib.sha1(canon(obj).encode()).hexdigest()[:12]


# --------------------------------------------------------------------- ctx
class Ctx:
    def __init__(self, prop, tier, seed, allow_axioms=()):
        self.prop = prop
        self.tier = tier
        self.seed = seed
        self.rng = random.Random(seed * 1000003 + int(prop[1:]))
        self.t0 = time.time()
        self.tmp = Path(tempfile.mkdtemp(prefix=f"verif_{prop}_"))
        self.evaluations = 0
        self.nontrivial = set()
        self.samples = []
        self.dist = Counter()
        self.disagreements = []   # (what, case, impl, model)
        self.failures = []        # (case, detail, signature)
        self.broken = []          # broken obligations (strings)
        self.obligations = []
        self.assumptions_printed = {}
        self.allow_axioms = set(allow_axioms)
        self.extra = {}
        self.rule = ""
        self.trusted = []
        self.assumptions = []
        self.residue = []
        self.exhaustive = False
        self.checker_cmd = ""
        self.known_printed = []

    # ---- bookkeeping used by property modules
    def case(self, case, nontrivial=True, kind=None):
        self.evaluations += 1
        if nontrivial:
            self.nontrivial.add(short_hash(case))
        if kind:
            self.dist[kind] += 1
        if len(self.samples) < 4 or (len(self.samples) < 8 and self.rng.random() < 0.01):
            cs = canon(case)
            if len(cs) < 1500:
                self.samples.append(json.loads(cs))

    def count(self, n, nontrivial_keys=(), kind=None):
        """bulk accounting: n evaluations, plus hashes of the distinct non-trivial ones"""
        self.evaluations += n
        for k in nontrivial_keys:
            self.nontrivial.add(k if isinstance(k, str) else short_hash(k))
        if kind:
            self.dist[kind] += n

    def disagree(self, what, case, impl, model):
        self.disagreements.append((what, case, impl, model))

    def fail(self, case, detail, signature=None):
        """the property oracle is violated by the implementation on this case"""
        self.failures.append((case, detail, signature))

    def broke(self, what):
        self.broken.append(what)

    def compare(self, what, case, impl, model):
        if impl != model:
            self.disagree(what, case, impl, model)
            return False
        return True

    # ---- proofs
    def check_proofs(self):
        ok_gen, gen_log = regenerate_gen()
        if not ok_gen:
            self.extra["translator_log"] = gen_log[-2000:]
        pf = props_file(self.prop)
        if not pf.exists():
            print(f"ERROR: {pf} missing", file=sys.stderr)
            sys.exit(2)
        self.obligations = theorems_in(pf)
        self.checker_cmd = (f"make -C /verif/coq Props/{self.prop}.vo (coq_makefile, full .vo build) && "
                            f"coqc -Q /verif/coq Cooler Props/{self.prop}.v (Print Assumptions parsed) && hygiene grep")
        ok, log = coq_make([f"Props/{self.prop}.vo"])
        if not ok:
            m = re.findall(r'File "([^"]+)", line (\d+)', log)
            where = f"{m[-1][0]}:{m[-1][1]}" if m else "?"
            err = log.strip().splitlines()[-12:]
            self.broke(f"proof re-check failed building Props/{self.prop}.vo at {where}: " + " | ".join(err)[-1200:])
            return False
        ok, assum, log = print_assumptions(self.prop)
        if not ok:
            self.broke("Print Assumptions pass failed: " + log[-800:])
            return False
        self.assumptions_printed = assum
        missing = [t for t in self.obligations if t not in assum and not t.endswith("_nonvacuous") and not t.startswith("ex_")]
        for t, axs in assum.items():
            extra = [a for a in axs if a not in self.allow_axioms]
            if extra:
                self.broke(f"theorem {t} depends on axioms outside the allow-list: {extra}")
        bad = hygiene()
        if bad:
            self.broke("hygiene grep: " + "; ".join(bad[:5]))
        if missing:
            self.extra["no_print_assumptions_for"] = missing
        return not self.broken

    def thorough_recheck(self):
        """clean rebuild of the property's cone in a scratch copy + coqchk -o"""
        td = Path(tempfile.mkdtemp(prefix=f"coqclean_{self.prop}_"))
        try:
            for sub in ("Gen", "Model", "Proofs", "Props"):
                if (COQDIR / sub).is_dir():
                    (td / sub).mkdir()
                    for p in (COQDIR / sub).glob("*.v"):
                        shutil.copy(p, td / sub / p.name)
            shutil.copy(COQDIR / "_CoqProject", td / "_CoqProject")
            subprocess.run(["coq_makefile", "-f", "_CoqProject", "-o", "Makefile"], cwd=td, check=True, capture_output=True)
            pr = subprocess.run(["timeout", "3000", "make", "-j16", f"Props/{self.prop}.vo"], cwd=td, capture_output=True, text=True)
            if pr.returncode != 0:
                self.broke("clean rebuild failed: " + (pr.stderr[-800:]))
                return
            pr = subprocess.run(["timeout", "1500", "coqchk", "-silent", "-o", "-Q", ".", "Cooler", f"Cooler.Props.{self.prop}"],
                                cwd=td, capture_output=True, text=True)
            out = pr.stdout + pr.stderr
            self.extra["coqchk_exit"] = pr.returncode
            self.extra["coqchk_tail"] = out.strip().splitlines()[-25:]
            if pr.returncode != 0:
                self.broke("coqchk failed: " + out[-600:])
        finally:
            shutil.rmtree(td, ignore_errors=True)

    # ---- verdict
    def finish(self):
        known = [k for k in load_known() if k["property"] == self.prop]
        known_open = {k["signature"]: k for k in known if k["status"] == "known"}
        unknown_fail = []
        seen_known = {}
        for case, detail, sig in self.failures:
            if sig is not None and sig in known_open:
                seen_known.setdefault(sig, (case, detail))
            else:
                unknown_fail.append((case, detail, sig))
        for sig, (case, detail) in seen_known.items():
            line = f"KNOWN-FINDING: property={self.prop} {known_open[sig]['what']} [{sig}]"
            print(line)
            self.known_printed.append(line)
        violations = 0
        REPLAYS.mkdir(exist_ok=True)
        if unknown_fail:
            case, detail, sig = unknown_fail[0]
            path = REPLAYS / f"{self.prop}-{short_hash(case)}.json"
            path.write_text(json.dumps({
                "property": self.prop, "kind": "failing-input", "seed": self.seed, "tier": self.tier,
                "case": json.loads(canon(case)), "detail": detail, "signature": sig,
                "other_failures": len(unknown_fail) - 1,
                "broken_obligations": self.broken,
                "replay": f"./check {self.prop} --replay {path}",
            }, indent=1, default=str))
            print(f"VIOLATION property={self.prop} replay={path}")
            violations = len(unknown_fail)
        elif self.broken or self.disagreements:
            first = None
            if self.disagreements:
                what, case, impl, model = self.disagreements[0]
                first = {"what": what, "case": json.loads(canon(case)),
                         "implementation": json.loads(canon(impl)), "model": json.loads(canon(model))}
            payload = {
                "property": self.prop, "kind": "no-failing-input-found", "seed": self.seed, "tier": self.tier,
                "broken_obligations": self.broken,
                "correspondence_disagreements": len(self.disagreements),
                "first_disagreement": first,
                "note": "the property oracle held on the implementation for every explored case, "
                        "but the property is no longer shown: the theorem/correspondence named here no longer checks",
            }
            path = REPLAYS / f"{self.prop}-unproved-{short_hash(payload)}.json"
            path.write_text(json.dumps(payload, indent=1, default=str))
            print(f"VIOLATION property={self.prop} replay={path} no-failing-input-found")
            violations = max(1, len(self.disagreements))
        self.write_evidence(violations)
        shutil.rmtree(self.tmp, ignore_errors=True)
        return 1 if violations else 0

    def write_evidence(self, violations):
        EVIDENCE.mkdir(exist_ok=True)
        n_obl = len(self.obligations) + 1  # + correspondence
        broken_n = min(n_obl, len(self.broken) + (1 if self.disagreements else 0))
        axioms = sorted({a for axs in self.assumptions_printed.values() for a in axs})
        ev = {
            "property_id": self.prop,
            "tier": self.tier,
            "seed": self.seed,
            "level": "proof",
            "coverage": {
                "obligations": n_obl,
                "discharged": n_obl - broken_n,
                "obligation_names": self.obligations + ["correspondence(model, implementation)"],
                "checker_cmd": self.checker_cmd,
                "trusted_base": TRUSTED_BASE_COMMON + self.trusted + [
                    "axioms reported by Print Assumptions for this property's theorems: " + (", ".join(axioms) if axioms else "none (every theorem closed under the global context)")],
                "assumptions_printed": self.assumptions_printed,
                "evaluations": self.evaluations,
                "distinct_nontrivial": len(self.nontrivial),
                "rule": self.rule,
                "samples": self.samples[:8] if self.samples else [{"obligations": self.obligations[:5]}],
                "exhaustive": bool(self.exhaustive),
                "input_distribution": dict(self.dist),
                "correspondence_disagreements": len(self.disagreements),
                "oracle_failures": len(self.failures),
                "known_findings_printed": self.known_printed,
                "broken": self.broken,
                "residue_modelled_not_verified": self.residue,
                **self.extra,
            },
            "assumptions": self.assumptions,
            "wall_s": round(time.time() - self.t0, 2),
            "violations": violations,
        }
        # development runs (--no-proofs, or against a scratch tree through VERIF_REPO) never overwrite the real evidence
        dev = (not self.obligations) or str(REPO) != "/repo"
        target = (EVIDENCE / "dev" / f"{self.prop}.json") if dev else (EVIDENCE / f"{self.prop}.json")
        target.parent.mkdir(parents=True, exist_ok=True)
        target.write_text(json.dumps(ev, indent=1, default=str))
