(** C02 — run-length encoder and CSR indexes.
      util.rlencode                       (src/cooler/util.py:455-511)
      create._create.index_pixels / index_bins   (src/cooler/create/_create.py:279-298)
    and the executable structural-validity check of a stored collection.
    No proofs here. *)
From Cooler Require Export Model.Base Model.Pixels.

(* ------------------------------------------------------------------ rlencode *)

(** The Python variable [last_val] starts as NaN, which differs from every
    array element; afterwards it holds the last element of the previous block.
    [None] models NaN. *)
Definition differs (last_val : option Z) (v : Z) : bool :=
  match last_val with None => true | Some p => negb (v =? p) end.

(** inside one block  x :  locs = where(x[1:] != x[:-1]) + 1 ; emitted as
    (i + loc, x[loc]).  [inner_locs p k r] walks r = x[j:], p = x[j-1], k = i + j. *)
Fixpoint inner_locs (p : Z) (k : Z) (r : list Z) : list (Z * Z) :=
  match r with
  | [] => []
  | v :: t => (if v =? p then [] else [(k, v)]) ++ inner_locs v (k + 1) t
  end.

(** one loop iteration on block x = array[i : i+chunksize]:
      locs = where(x[1:] != x[:-1]) + 1
      if x[0] != last_val: locs = np.r_[0, locs]
      starts.append(i + locs); values.append(x[locs])                          *)
Definition rle_block (last_val : option Z) (i : Z) (x : list Z) : list (Z * Z) :=
  match x with
  | [] => []
  | v :: t => (if differs last_val v then [(i, v)] else []) ++ inner_locs v (i + 1) t
  end.

(** array[i : i+c] and the rest, for a block length c given as an integer
    (python slicing: at most c elements; nothing when c <= 0) *)
Fixpoint split_at (c : Z) (l : list Z) : list Z * list Z :=
  match l with
  | [] => ([], [])
  | x :: r => if c <=? 0 then ([], l)
              else let '(a, b) := split_at (c - 1) r in (x :: a, b)
  end.

(** for i in range(0, n, chunksize): ... last_val = x[-1]
    (fuel = number of remaining elements; each iteration consumes >= 1 when c >= 1) *)
Fixpoint rle_loop (fuel : nat) (c : Z) (last_val : option Z) (i : Z) (rest : list Z)
  : list (Z * Z) :=
  match fuel with
  | O => []
  | S f =>
      match rest with
      | [] => []
      | _ => let '(x, rest') := split_at c rest in
             rle_block last_val i x ++ rle_loop f c (Some (last x 0)) (i + c) rest'
      end
  end.

(** np.diff(np.r_[starts, n]) *)
Fixpoint diffs (l : list Z) : list Z :=
  match l with
  | a :: ((b :: _) as t) => (b - a) :: diffs t
  | _ => []
  end.

Definition rle := (list Z * list Z * list Z)%type.       (* starts, lengths, values *)
Definition rle_of_pairs (n : Z) (sv : list (Z * Z)) : rle :=
  (map fst sv, diffs (map fst sv ++ [n]), map snd sv).

(** rlencode with an explicit block size c >= 1 *)
Definition rlencode_c (a : list Z) (c : Z) : rle :=
  rle_of_pairs (zlen a) (rle_loop (length a) c None 0 a).

(** util.rlencode(array, chunksize=None):  n == 0 returns three empty arrays whatever the
    block size; chunksize None means n; chunksize 0 makes range() raise ValueError and a
    negative one leaves nothing to np.concatenate (ValueError) -> None *)
Definition rlencode (a : list Z) (chunksize : option Z) : option rle :=
  match a with
  | [] => Some ([], [], [])
  | _ => match chunksize with
         | None => Some (rlencode_c a (zlen a))
         | Some c => if c <=? 0 then None else Some (rlencode_c a c)
         end
  end.

(** the one-shot encoder (the specification the chunked one must equal):
    a run starts wherever the element differs from its predecessor *)
Fixpoint rle_from (prev : option Z) (off : Z) (a : list Z) : list (Z * Z) :=
  match a with
  | [] => []
  | v :: r => (if differs prev v then [(off, v)] else []) ++ rle_from (Some v) (off + 1) r
  end.
Definition rle_spec (a : list Z) : rle := rle_of_pairs (zlen a) (rle_from None 0 a).

(** decoding: values repeated by their lengths *)
Definition rle_decode (r : rle) : list Z :=
  let '(_, lengths, values) := r in
  concat (map (fun vl => repeat (fst vl) (Z.to_nat (snd vl))) (combine values lengths)).

(* ------------------------------------------------------- slice assignment *)

(** python index normalisation of a slice bound against length n *)
Definition norm_idx (n i : Z) : Z := if i <? 0 then Z.max 0 (i + n) else Z.min i n.

Fixpoint fill_from (k lo hi v : Z) (arr : list Z) : list Z :=
  match arr with
  | [] => []
  | x :: r => (if (lo <=? k) && (k <? hi) then v else x) :: fill_from (k + 1) lo hi v r
  end.

(** arr[lo:hi] = v   (numpy broadcast of a scalar into a possibly empty slice) *)
Definition fill_slice (arr : list Z) (lo hi v : Z) : list Z :=
  let n := zlen arr in fill_from 0 (norm_idx n lo) (norm_idx n hi) v arr.

(** arr[lo:] = v *)
Definition fill_tail (arr : list Z) (lo v : Z) : list Z :=
  let n := zlen arr in fill_from 0 (norm_idx n lo) n v arr.

(** the body shared by index_pixels and index_bins:
      offset = np.zeros(n + 1); curr_val = 0
      for start, _length, value in zip( *rlencode(column, ...)):
          offset[curr_val : value + 1] = start ; curr_val = value + 1
      offset[curr_val:] = total                                                  *)
Definition index_step (st : list Z * Z) (sv : Z * Z) : list Z * Z :=
  let '(arr, curr) := st in
  let '(start, value) := sv in
  (fill_slice arr curr (value + 1) start, value + 1).

Definition index_runs (n : Z) (runs : list (Z * Z)) (total : Z) : list Z :=
  let '(arr, curr) := fold_left index_step runs (repeat 0 (Z.to_nat (n + 1)), 0) in
  fill_tail arr curr total.

Definition runs_of (r : rle) : list (Z * Z) :=
  let '(starts, _, values) := r in combine starts values.

Definition index_with (n : Z) (r : option rle) (total : Z) : option (list Z) :=
  match r with
  | None => None
  | Some r => Some (index_runs n (runs_of r) total)
  end.

(** index_pixels(grp, n_bins, nnz) with the block size of the encoder as a parameter;
    the code uses 1000000 *)
Definition index_pixels_c (c : Z) (bin1 : list Z) (n_bins nnz : Z) : option (list Z) :=
  index_with n_bins (rlencode bin1 (Some c)) nnz.
Definition index_pixels (bin1 : list Z) (n_bins nnz : Z) : option (list Z) :=
  index_pixels_c 1000000 bin1 n_bins nnz.

(** index_bins(grp, n_chroms, n_bins): one-shot encoder *)
Definition index_bins (chrom_ids : list Z) (n_chroms n_bins : Z) : option (list Z) :=
  index_with n_chroms (rlencode chrom_ids None) n_bins.

(* ------------------------------------------------ the specification of an index *)

(** number of entries smaller than b *)
Definition count_lt (a : list Z) (b : Z) : Z := zlen (filter (fun x => x <? b) a).

(** offsets_of n a = [ #{k | a[k] < b}  for b = 0..n ]: the run-length (CSR) index of a
    non-decreasing column with values in [0, n) *)
Definition offsets_of (n : Z) (a : list Z) : list Z :=
  map (count_lt a) (zrange 0 (Z.to_nat (n + 1))).

Fixpoint nondecr_b (a : list Z) : bool :=
  match a with
  | [] => true
  | x :: t => match t with [] => true | y :: _ => (x <=? y) && nondecr_b t end
  end.
Definition inrange1_b (n : Z) (a : list Z) : bool :=
  forallb (fun x => (0 <=? x) && (x <? n)) a.

Fixpoint list_eqb (l1 l2 : list Z) : bool :=
  match l1, l2 with
  | [], [] => true
  | x :: r1, y :: r2 => (x =? y) && list_eqb r1 r2
  | _, _ => false
  end.

(* ------------------------------------------------------- a stored collection *)

(** the raw content of one cooler data collection, as read with h5py *)
Record cooler := mkCooler {
  nbins : Z;                 (* attr nbins *)
  nchroms : Z;               (* attr nchroms *)
  bin_chrom : list Z;        (* bins/chrom (enum codes) *)
  bin1 : list Z;             (* pixels/bin1_id *)
  bin2 : list Z;             (* pixels/bin2_id *)
  counts : list Z;           (* pixels/count *)
  bin1_offset : list Z;      (* indexes/bin1_offset *)
  chrom_offset : list Z;     (* indexes/chrom_offset *)
  nnz : Z;                   (* attr nnz *)
  sum : Z;                   (* attr sum *)
  symmetric_upper : bool     (* attr storage-mode = "symmetric-upper" *)
}.

Definition pixels_of (c : cooler) : list pixel :=
  combine (combine (bin1 c) (bin2 c)) (counts c).

(** executable reading of the schema (re-derives both indexes by counting; never calls
    the index builders) *)
Definition valid_csr_b (c : cooler) : bool :=
  (zlen (bin1 c) =? nnz c) && (zlen (bin2 c) =? nnz c) && (zlen (counts c) =? nnz c)
  && ssorted_b (pixels_of c)
  && inrange_b (nbins c) (pixels_of c)
  && (if symmetric_upper c then upper_b (pixels_of c) else true)
  && list_eqb (bin1_offset c) (offsets_of (nbins c) (bin1 c))
  && (zlen (bin_chrom c) =? nbins c)
  && nondecr_b (bin_chrom c) && inrange1_b (nchroms c) (bin_chrom c)
  && list_eqb (chrom_offset c) (offsets_of (nchroms c) (bin_chrom c))
  && (sum c =? sumZ (counts c)).

(** what create() stores for a bin table with chromosome column [chroms] (nchroms
    distinct ids) and a pixel stream that arrives as [px] (after validation):
    columns, both indexes (built by the code's loops), nnz and sum *)
Definition create_model (n_chroms : Z) (chroms : list Z) (px : list pixel) (symm : bool)
  : option cooler :=
  let n_bins := zlen chroms in
  let b1 := map row px in
  let nnz_ := zlen px in
  match index_bins chroms n_chroms n_bins, index_pixels b1 n_bins nnz_ with
  | Some co, Some bo =>
      Some (mkCooler n_bins n_chroms chroms b1 (map col px) (map val px) bo co
                     nnz_ (sumZ (map val px)) symm)
  | _, _ => None
  end.

(* ------------------------------------------------- write_pixels: the resizable columns *)

(** dset.resize((m,)): truncate or zero-extend *)
Definition resize (col : list Z) (m : Z) : list Z :=
  firstn (Z.to_nat m) col ++ repeat 0 (Z.to_nat m - length col).
(** dset[lo : lo+len(data)] = data   on a dataset that is long enough *)
Definition write_at (col : list Z) (lo : Z) (data : list Z) : list Z :=
  firstn (Z.to_nat lo) col ++ data ++ skipn (Z.to_nat lo + length data) col.
(** one iteration of write_pixels for one column:
      dset.resize((nnz + n,)); dset[nnz : nnz + n] = data; nnz += n *)
Definition write_chunk (st : list Z * Z) (data : list Z) : list Z * Z :=
  let '(col, nnz) := st in
  let n := zlen data in
  (write_at (resize col (nnz + n)) nnz data, nnz + n).
(** write_pixels on one column preallocated by prepare_pixels with init_size zero rows;
    after the loop (repair of defect D21):  if nnz == 0: resize((0,)) *)
Definition write_pixels_col (init_size : Z) (chunks : list (list Z)) : list Z * Z :=
  let '(col, nnz) := fold_left write_chunk chunks (repeat 0 (Z.to_nat init_size), 0) in
  if nnz =? 0 then ([], 0) else (col, nnz).
(** the loop as it was before that repair (kept to state what was wrong) *)
Definition write_pixels_col_old (init_size : Z) (chunks : list (list Z)) : list Z * Z :=
  fold_left write_chunk chunks (repeat 0 (Z.to_nat init_size), 0).

(** create() on a stream that arrives in chunks: prepare_pixels (init_size = min(5*n_bins, max_size)),
    write_pixels per column, total = sum of the chunk sums, then both indexes *)
Definition create_chunked (n_chroms : Z) (chroms : list Z) (chunks : list (list pixel)) (symm : bool)
  : option cooler :=
  let n_bins := zlen chroms in
  let max_size := if symm then n_bins * (n_bins - 1) / 2 + n_bins else n_bins * n_bins in
  let init := Z.min (5 * n_bins) max_size in
  let '(b1, nnz_) := write_pixels_col init (map (map row) chunks) in
  let '(b2, _) := write_pixels_col init (map (map col) chunks) in
  let '(cnt, _) := write_pixels_col init (map (map val) chunks) in
  let total := sumZ (map (fun ch => sumZ (map val ch)) chunks) in
  match index_bins chroms n_chroms n_bins, index_pixels b1 n_bins nnz_ with
  | Some co, Some bo => Some (mkCooler n_bins n_chroms chroms b1 b2 cnt bo co nnz_ total symm)
  | _, _ => None
  end.

(* ------------------------------------------------- helpers of the correspondence run *)

Definition rle_eqb (r1 r2 : rle) : bool :=
  let '(s1, l1, v1) := r1 in let '(s2, l2, v2) := r2 in
  list_eqb s1 s2 && list_eqb l1 l2 && list_eqb v1 v2.
Definition rle_opt_eqb (r1 r2 : option rle) : bool :=
  match r1, r2 with
  | Some a, Some b => rle_eqb a b
  | None, None => true
  | _, _ => false
  end.

(** positional digest of an encoder result in base B (entries + 2 must stay below B):
    starts, -1, lengths, -1, values; "raises" = -1 *)
Definition digest (B : Z) (r : option rle) : Z :=
  match r with
  | None => -1
  | Some (s, l, v) => fold_left (fun acc x => acc * B + (x + 2)) (s ++ [-1] ++ l ++ [-1] ++ v) 0
  end.

(* ------------------------------------------------- bin-type / bin-size attributes *)
From Cooler Require Import Model.Bins.

(** create():  binsize = get_binsize(bins)
      info["bin-type"] = "fixed" if binsize is not None else "variable"
      info["bin-size"] = binsize if binsize is not None else "null"
    returned as (is_fixed, bin-size) *)
Definition info_bins (table : list bin) : bool * option Z :=
  match get_binsize table with
  | Some b => (true, Some b)
  | None => (false, None)
  end.
