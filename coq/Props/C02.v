(** C02  Every cooler any operation writes is a structurally valid CSR collection.
    Only statements, each closed by [exact] of a lemma proved in Proofs/IndexProofs.v.
    Model: Model/Index.v (util.rlencode, create._create.index_pixels / index_bins). *)
From Cooler Require Import Model.Merge Model.Coarsen Model.Bins Model.Index.
From Cooler Require Import Proofs.PixelsProofs Proofs.BinsProofs Proofs.MergeProofs Proofs.CoarsenProofs Proofs.IndexProofs Proofs.HistoryProofs.
From Cooler Require Model.Zoom Proofs.ZoomProofs.
From Coq Require Import Sorted.

(** the block-wise run-length encoder equals the one-shot encoder for every array and every
    block size c >= 1 (starts, lengths, values): the unbounded form of "drive it across the
    1e6-row block boundary" *)
Theorem C02_rlencode_chunked_eq : forall (a : list Z) (c : Z),
  1 <= c -> rlencode a (Some c) = rlencode a None.
Proof. exact rlencode_chunked_eq. Qed.
Print Assumptions C02_rlencode_chunked_eq.

(** ... and both equal the specification: a run starts exactly where an element differs
    from its predecessor *)
Theorem C02_rlencode_spec : forall (a : list Z) (c : Z),
  1 <= c -> rlencode a (Some c) = Some (rle_spec a) /\ rlencode a None = Some (rle_spec a).
Proof. exact rlencode_spec. Qed.
Print Assumptions C02_rlencode_spec.

(** index_pixels on a non-decreasing column of non-negative ids: n+1 entries,
    offset[b] = #{k | a[k] < b} for b = 0..n  (block size 1000000 as in the code) *)
Theorem C02_index_pixels_spec : forall (a : list Z) (n : Z),
  0 <= n -> NonDecr a -> Forall (fun x => 0 <= x) a ->
  index_pixels a n (zlen a) = Some (offsets_of n a).
Proof. exact index_pixels_spec. Qed.
Print Assumptions C02_index_pixels_spec.

Theorem C02_index_pixels_any_block : forall (c : Z) (a : list Z) (n : Z),
  1 <= c -> 0 <= n -> NonDecr a -> Forall (fun x => 0 <= x) a ->
  index_pixels_c c a n (zlen a) = Some (offsets_of n a).
Proof. exact index_pixels_c_spec. Qed.
Print Assumptions C02_index_pixels_any_block.

Theorem C02_index_bins_spec : forall (a : list Z) (n : Z),
  0 <= n -> NonDecr a -> Forall (fun x => 0 <= x) a ->
  index_bins a n (zlen a) = Some (offsets_of n a).
Proof. exact index_bins_spec. Qed.
Print Assumptions C02_index_bins_spec.

(** consequences used by every reader: n+1 entries, offset[0] = 0, offset[n] = nnz, monotone,
    and offset[a[k]] <= k < offset[a[k]+1] *)
Theorem C02_offsets_props : forall (n : Z) (a : list Z),
  0 <= n -> NonDecr a -> Forall (fun x => 0 <= x < n) a ->
  let off := offsets_of n a in
  length off = Z.to_nat (n + 1) /\
  nth 0 off 0 = 0 /\
  nth (Z.to_nat n) off 0 = zlen a /\
  (forall b b', (b <= b')%nat -> (b' <= Z.to_nat n)%nat -> nth b off 0 <= nth b' off 0) /\
  (forall k, (k < length a)%nat ->
     nth (Z.to_nat (nth k a 0)) off 0 <= Z.of_nat k < nth (Z.to_nat (nth k a 0 + 1)) off 0).
Proof. exact offsets_props. Qed.
Print Assumptions C02_offsets_props.

(** row b of the pixel table is exactly the position range [offset b, offset (b+1)) *)
Theorem C02_csr_row_iff : forall (a : list Z) (b : Z) (k : nat),
  NonDecr a -> (k < length a)%nat ->
  (count_lt a b <= Z.of_nat k < count_lt a (b + 1) <-> nth k a 0 = b).
Proof. exact csr_row_iff. Qed.
Print Assumptions C02_csr_row_iff.

(** what create() stores for a validated, strictly sorted stream is a valid collection that
    holds exactly the stream *)
Theorem C02_create_valid : forall (n_chroms : Z) (chroms : list Z) (px : list pixel) (symm : bool),
  0 <= n_chroms -> NonDecr chroms -> (forall x, In x chroms -> 0 <= x < n_chroms) ->
  SSorted px ->
  (forall p, In p px -> 0 <= row p < zlen chroms /\ 0 <= col p < zlen chroms) ->
  (symm = true -> forall p, In p px -> row p <= col p) ->
  exists c, create_model n_chroms chroms px symm = Some c /\ ValidCSR c /\ pixels_of c = px
            /\ nbins c = zlen chroms /\ nnz c = zlen px /\ symmetric_upper c = symm.
Proof. exact create_valid. Qed.
Print Assumptions C02_create_valid.

(** the executable check run on the raw columns of every written file decides ValidCSR *)
Theorem C02_valid_check_sound_complete : forall c : cooler, valid_csr_b c = true <-> ValidCSR c.
Proof. exact valid_csr_b_spec. Qed.
Print Assumptions C02_valid_check_sound_complete.

(** the specification the encoder equals IS the run-length encoding of the array: it decodes
    back to the array, runs are non-empty and maximal (neighbouring values differ), starts are
    strictly increasing and end before the array length *)
Theorem C02_rle_spec_characterised : forall a : list Z,
  let '(starts, lengths, values) := rle_spec a in
  rle_decode (starts, lengths, values) = a /\
  AdjDistinct None values /\
  Forall (fun l => 1 <= l) lengths /\
  StronglySorted Z.lt (starts ++ [zlen a]) /\
  length starts = length values /\ length lengths = length values.
Proof. exact rle_spec_characterised. Qed.
Print Assumptions C02_rle_spec_characterised.

(** bin-type / bin-size attributes agree with the stored bin table: "fixed" iff a size is
    recorded, and a recorded size is true of every chromosome (C20's truthfulness theorem) *)
Theorem C02_info_consistent : forall (blocks : list (list Bins.bin)) (fixed : bool) (bs : option Z),
  ValidBlocks blocks -> info_bins (concat blocks) = (fixed, bs) ->
  (fixed = true <-> exists b, bs = Some b) /\
  (fixed = false <-> bs = None) /\
  bs = Bins.get_binsize (concat blocks) /\
  forall b, bs = Some b ->
    1 <= b /\ forall i blk, nth_error blocks i = Some blk ->
      blk = Bins.ideal_chrom (Z.of_nat i) (chrom_end blk) b.
Proof. exact info_consistent. Qed.
Print Assumptions C02_info_consistent.

(** ValidCSR is an invariant of every history of producing operations, GIVEN the producer
    theorems (every operation streams strictly sorted, in-range, upper-triangular pixels over a
    valid bin table when its inputs are valid).  Those hypotheses are the subject of C06-C09;
    they are not discharged here (this is the partial part of C02). *)
Theorem C02_history_valid_given_producers :
  forall (op : Type) (plan : op -> list cooler -> Z * list Z * list pixel * bool),
  (forall o st, Forall ValidCSR st -> GoodStream (plan o st)) ->
  forall (ops : list op) (init : list cooler),
  Forall ValidCSR init ->
  Forall ValidCSR (run_history op plan ops init) /\
  (length (run_history op plan ops init) = length init + length ops)%nat.
Proof. exact history_valid. Qed.
Print Assumptions C02_history_valid_given_producers.

(** pixel columns have one common length equal to the recorded nnz: whatever the preallocated size
    and however the stream is cut into chunks (no chunk at all and empty chunks included), the
    resize/write loop of write_pixels leaves the concatenation of the chunks and returns its length *)
Theorem C02_write_pixels_col_spec : forall (init : Z) (chunks : list (list Z)),
  write_pixels_col init chunks = (concat chunks, zlen (concat chunks)).
Proof. exact write_pixels_col_spec. Qed.
Print Assumptions C02_write_pixels_col_spec.

(** ... which was false before the repair of defect D21 (empty stream, preallocated rows stay) *)
Theorem C02_write_pixels_col_old_refuted :
  exists init chunks, write_pixels_col_old init chunks <> (concat chunks, zlen (concat chunks)).
Proof. exact write_pixels_col_old_refuted. Qed.
Print Assumptions C02_write_pixels_col_old_refuted.

(** create() fed chunk by chunk = create() on the concatenated stream, so C02_create_valid covers
    every chunking *)
Theorem C02_create_chunked_eq : forall (n_chroms : Z) (chroms : list Z) (chunks : list (list pixel)) (symm : bool),
  create_chunked n_chroms chroms chunks symm = create_model n_chroms chroms (concat chunks) symm.
Proof. exact create_chunked_eq. Qed.
Print Assumptions C02_create_chunked_eq.

(** re-indexing a valid collection with any block size reproduces its stored indexes *)
Theorem C02_reindex_valid : forall (c : cooler) (cs : Z),
  ValidCSR c -> 0 <= nchroms c -> 1 <= cs ->
  index_pixels_c cs (bin1 c) (nbins c) (nnz c) = Some (bin1_offset c) /\
  index_pixels (bin1 c) (nbins c) (nnz c) = Some (bin1_offset c) /\
  index_bins (bin_chrom c) (nchroms c) (nbins c) = Some (chrom_offset c).
Proof. exact reindex_valid. Qed.
Print Assumptions C02_reindex_valid.

(** in a valid collection row b is exactly the position range [bin1_offset b, bin1_offset (b+1)) *)
Theorem C02_valid_row_span : forall (c : cooler) (b : Z) (k : nat),
  ValidCSR c -> (k < length (bin1 c))%nat -> 0 <= b < nbins c ->
  (nth (Z.to_nat b) (bin1_offset c) 0 <= Z.of_nat k < nth (Z.to_nat (b + 1)) (bin1_offset c) 0
   <-> nth k (bin1 c) 0 = b).
Proof. exact ValidCSR_row_span. Qed.
Print Assumptions C02_valid_row_span.

(** the hypotheses are needed.  (1) sortedness for the index; (2) the range check for validity:
    with the bounds check off (`cooler cload pairs`, known finding D2) create() stores a stream with a
    bin id = nbins and the result is NOT a valid collection — the unguarded statement "every written
    collection is valid" is false of the faithful model, C02_create_valid is the guarded one *)
Theorem C02_index_pixels_unsorted_refuted :
  exists a n, Forall (fun x => 0 <= x < n) a /\ index_pixels a n (zlen a) <> Some (offsets_of n a).
Proof. exact index_pixels_unsorted_refuted. Qed.
Print Assumptions C02_index_pixels_unsorted_refuted.

Theorem C02_create_unchecked_refuted :
  exists nc chroms px, 0 <= nc /\ NonDecr chroms /\ (forall x, In x chroms -> 0 <= x < nc) /\
    SSorted px /\ (forall p, In p px -> row p <= col p) /\
    exists c, create_model nc chroms px true = Some c /\ ~ ValidCSR c.
Proof. exact create_unchecked_refuted. Qed.
Print Assumptions C02_create_unchecked_refuted.

(* ============================================================ producers discharged (integration) *)
(** The hypotheses of C02_history_valid_given_producers are discharged from the producers' own theorems
    (C07 merger_exact/merge_g_total, C06 unordered_correct, C08 coarsen_canon/coarsen_bins_spec/
    coarsen_spec_inrange, C09 zoom_level_eq_direct); Proofs/HistoryProofs.v.  [of_csr c] is what the merger
    reads of a stored collection (indexes/bin1_offset, pixel table); [mk_cool n px] is what the merge/ingest
    models store (table + Merge.index_of); the last conjunct of each theorem says that this is exactly the
    index index_pixels computes. *)

(** merge_coolers of valid collections over one bin table and storage mode: never fails, stores the
    canonical aggregate of all input pixels, the result is a valid collection — every buffer size *)
Theorem C02_merge_valid : forall (nc : Z) (chroms : list Z) (symm : bool) (inputs : list Index.cooler) (buf : Z),
  inputs <> [] -> 1 <= zlen chroms -> 0 <= nc -> 0 <= buf ->
  Forall ValidCSR inputs -> Forall (SameAxes nc chroms symm) inputs ->
  let n := length chroms in
  let o := {| o_bounds := true; o_triu := symm; o_dup := true; o_sort := false |} in
  let out := aggregate (concat (map pixels_of inputs)) in
  merge_g n o (fun _ => true) sumZ (map of_csr inputs) buf = Ok (mk_cool n out) /\
  exists c, create_model nc chroms out symm = Some c /\ ValidCSR c /\ pixels_of c = out /\
            SameAxes nc chroms symm c /\ of_csr c = mk_cool n out.
Proof. exact merge_valid. Qed.
Print Assumptions C02_merge_valid.

(** create_cooler(ordered=False) on chunks that meet the documented input conditions: never fails, stores
    the canonical aggregate of all records, the result is a valid collection — every chunking, chunk
    order, mergebuf and max_merge *)
Theorem C02_unordered_valid : forall (nc : Z) (chroms : list Z) (symm : bool) (o : copts)
    (chunks : list (list pixel)) (buf max_merge : Z),
  chunks <> [] -> 1 <= zlen chroms -> 0 <= nc -> 0 <= buf ->
  NonDecr chroms -> (forall x, In x chroms -> 0 <= x < nc) ->
  (o_triu o = true -> symm = true) ->
  let n := length chroms in
  Forall (GoodChunk n symm o) chunks ->
  let out := aggregate (concat chunks) in
  unordered_g n o (fun _ => true) sumZ chunks buf (unordered_edges (length chunks) max_merge) = Ok (mk_cool n out) /\
  exists c, create_model nc chroms out symm = Some c /\ ValidCSR c /\ pixels_of c = out /\
            SameAxes nc chroms symm c /\ of_csr c = mk_cool n out.
Proof. exact unordered_valid. Qed.
Print Assumptions C02_unordered_valid.

(** coarsen_cooler of a valid collection: valid new bin table, canonical aggregate of the re-keyed pixels,
    valid collection — every factor k >= 1, chunk size, batch size *)
Theorem C02_coarsen_valid : forall (blocks : list (list Bins.bin)) (c : Index.cooler) (k chunksize batchsize : Z),
  EntryOK (blocks, c) -> 1 <= k -> 1 <= chunksize -> 1 <= batchsize ->
  let sizes := map chrom_end blocks in
  let r := coarsen_cooler (concat blocks) sizes (pixels_of c) k chunksize batchsize in
  let nb := map (coarsen_block k) blocks in
  fst r = concat nb /\
  snd r = aggregate (map (rekey (index_table (map zlen blocks) k)) (pixels_of c)) /\
  exists c', create_model (zlen nb) (map bchrom (concat nb)) (snd r) (symmetric_upper c) = Some c' /\
             EntryOK (nb, c') /\ pixels_of c' = snd r /\ symmetric_upper c' = symmetric_upper c.
Proof. exact coarsen_valid. Qed.
Print Assumptions C02_coarsen_valid.

(** every level zoomify_cooler writes from valid bases is a copied base or what one coarsen step stores *)
Theorem C02_zoom_levels_valid : forall (ebases : list (Z * entry)) (res : list Z) (cs bs : Z) lv,
  1 <= cs -> 1 <= bs -> ZoomProofs.Positive res -> ZoomProofs.Positive (map fst ebases) ->
  Forall (fun be => EntryOK (snd be)) ebases ->
  Zoom.zoomify_cooler (map (fun be => (fst be, as_zoom (snd be))) ebases) res cs bs = Some lv ->
  forall r zc, Zoom.lookup r lv = Some zc ->
    exists e, EntryOK e /\ zc = as_zoom e /\
      ((exists b, In (b, e) ebases) \/
       (exists b e0 k, In (b, e0) ebases /\ 2 <= k /\ r = b * k /\ Step [e0] ([e0] ++ [e]))).
Proof. exact zoom_levels_valid. Qed.
Print Assumptions C02_zoom_levels_valid.

(** C02 over histories with NO hypothesis about the producers: along every sequence of create (sorted
    stream, any chunking) / unordered create / merge / coarsen (= zoom level) operations starting from
    nothing — the rules of [Step] carry only the documented conditions on the user's input and "this is
    what the producer's model computed" — every collection written is valid, over a valid bin table *)
Theorem C02_history_valid : forall st : list entry,
  Steps [] st -> Forall EntryOK st /\ Forall (fun e => ValidCSR (snd e)) st.
Proof. intros st H. split; [exact (history_valid_all [] st (Forall_nil _) H)|exact (history_from_nothing st H)]. Qed.
Print Assumptions C02_history_valid.

(** ------------------------------------------------------------------ non-vacuity *)
Example ex_C02_blocks_cross_runs :
  rlencode [0;0;1;1;1;3] (Some 2) = Some ([0;2;5], [2;3;1], [0;1;3]) /\
  rlencode [0;0;1;1;1;3] None = Some ([0;2;5], [2;3;1], [0;1;3]).
Proof. vm_compute. split; reflexivity. Qed.

(** a two-chromosome, four-bin collection with an empty row: hypotheses of create_valid hold,
    the stored indexes are the expected ones and the checker accepts it *)
Example ex_C02_create_valid :
  nondecr_b [0;0;1;1] = true /\ inrange1_b 2 [0;0;1;1] = true /\
  ssorted_b [((0,0),1);((0,2),3);((3,3),4)] = true /\
  inrange_b 4 [((0,0),1);((0,2),3);((3,3),4)] = true /\
  upper_b [((0,0),1);((0,2),3);((3,3),4)] = true /\
  option_map (fun c => (bin1_offset c, chrom_offset c, nnz c, sum c, valid_csr_b c))
             (create_model 2 [0;0;1;1] [((0,0),1);((0,2),3);((3,3),4)] true)
  = Some ([0;2;2;2;3], [0;2;4], 3, 8, true).
Proof. vm_compute. repeat split; reflexivity. Qed.

(** the checker refuses the known finding D2 (a pixel whose bin id equals nbins) although the
    index built by the loop is still the counting index (index_pixels_spec needs no upper bound) *)
Example ex_C02_out_of_range_refused :
  index_pixels [0;1;1] 2 3 = Some (offsets_of 2 [0;1;1]) /\
  valid_csr_b (mkCooler 2 1 [0;0] [0;1;1] [1;1;2] [5;6;7] [0;1;3] [0;2] 3 18 true) = false /\
  valid_csr_b (mkCooler 2 1 [0;0] [0;0;1] [0;1;1] [5;6;7] [0;2;3] [0;2] 3 18 true) = true.
Proof. vm_compute. repeat split; reflexivity. Qed.

(** an index that is off by one position, a duplicate pixel and a wrong nnz are each refused *)
Example ex_C02_checker_discriminates :
  valid_csr_b (mkCooler 2 1 [0;0] [0;0;1] [0;1;1] [5;6;7] [0;1;3] [0;2] 3 18 true) = false /\
  valid_csr_b (mkCooler 2 1 [0;0] [0;0;1] [0;0;1] [5;6;7] [0;2;3] [0;2] 3 18 true) = false /\
  valid_csr_b (mkCooler 2 1 [0;0] [0;0;1] [0;1;1] [5;6;7] [0;2;3] [0;2] 2 18 true) = false /\
  valid_csr_b (mkCooler 2 1 [0;0] [1;0;1] [1;1;1] [5;6;7] [0;1;3] [0;2] 3 18 false) = false.
Proof. vm_compute. repeat split; reflexivity. Qed.

(** a concrete history create -> unordered create -> merge -> coarsen exists (the Step rules are satisfiable),
    and its last collection holds the coarsened merged matrix *)
Example ex_C02_history :
  Steps [] [(hx_blocks, hx_c1); (hx_blocks, hx_c2); (hx_blocks, hx_c3); (map (coarsen_block 2) hx_blocks, hx_c4)] /\
  pixels_of hx_c3 = [((0,0),1); ((0,1),5); ((0,2),3); ((2,3),3); ((3,3),5)] /\
  pixels_of hx_c4 = [((0,0),6); ((0,1),3); ((1,2),3); ((2,2),5)] /\
  valid_csr_b hx_c4 = true.
Proof. exact history_example. Qed.

(** ---- tie to the source: the validator that guards every producer's write path — its per-record predicates are
    regenerated from _ingest._validate_pixels on every run and the model's validator is the cascade over them (proved in
    Proofs/GenBridgeCreate.v, restated in Props/C13.v); the surrounding statements, the chaining in create() and the fit
    check / store statements of write_pixels are pinned. *)
From Cooler Require Import Gen.Translated Proofs.GenBridgeCreate.
Theorem C02_source_pins : Gen.validate_pixels_source_pins = true /\ Gen.create_write_source_pins = true.
Proof. exact gen_validate_pins. Qed.
Print Assumptions C02_source_pins.
