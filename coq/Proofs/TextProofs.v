(** C19  Proofs about the string-parser model (Model/Text.v). *)
From Coq Require Import ZifyBool.
From Cooler Require Import Model.Text.
Ltac Zify.zify_post_hook ::= Z.to_euclidean_division_equations.

(** ------------------------------------------------------------ characters *)
Lemma code_spec : forall c, code c = Z.of_N (N_of_ascii c).
Proof. intros [[] [] [] [] [] [] [] []]; reflexivity. Qed.

Lemma code_range : forall c, 0 <= code c < 256.
Proof. intros [[] [] [] [] [] [] [] []]; vm_compute; split; congruence. Qed.

Lemma code_inj : forall a b, code a = code b -> a = b.
Proof.
  intros a b H. rewrite !code_spec in H. apply N2Z.inj in H.
  rewrite <- (ascii_N_embedding a), <- (ascii_N_embedding b). now rewrite H.
Qed.

Lemma code_chr : forall z, 0 <= z < 256 -> code (chr z) = z.
Proof.
  intros z Hz. unfold chr. rewrite code_spec, N_ascii_embedding.
  - now rewrite Z2N.id by lia.
  - change 256%N with (Z.to_N 256). apply Z2N.inj_lt; lia.
Qed.

Ltac cls :=
  unfold is_numch, is_digit_or_comma, is_alpha, is_digit, is_lower, is_upper, is_blank, is_comma, is_dot,
         is_hyphen, is_colon, is_slash, is_newline, digit_val in *.

Lemma c_colon_code : code c_colon = 58. Proof. reflexivity. Qed.
Lemma c_hyphen_code : code c_hyphen = 45. Proof. reflexivity. Qed.
Lemma c_dot_code : code c_dot = 46. Proof. reflexivity. Qed.
Lemma c_comma_code : code c_comma = 44. Proof. reflexivity. Qed.
Lemma c_slash_code : code c_slash = 47. Proof. reflexivity. Qed.

Lemma digit_char_code : forall d, 0 <= d < 10 -> code (digit_char d) = 48 + d.
Proof. intros d Hd. unfold digit_char. apply code_chr. lia. Qed.

(** ------------------------------------------------------------ take_while / drop_while *)
Definition stops {A} (p : A -> bool) (l : list A) : Prop :=
  match l with [] => True | x :: _ => p x = false end.

Lemma take_drop_while : forall {A} (p : A -> bool) l, take_while p l ++ drop_while p l = l.
Proof. induction l as [|x l IH]; simpl; [reflexivity|]. destruct (p x); simpl; [now rewrite IH|reflexivity]. Qed.

Lemma take_while_app : forall {A} (p : A -> bool) a b,
  forallb p a = true -> stops p b -> take_while p (a ++ b) = a.
Proof.
  induction a as [|x a IH]; simpl; intros b Ha Hb.
  - destruct b; simpl in *; [reflexivity|now rewrite Hb].
  - apply andb_true_iff in Ha as [Hx Ha]. rewrite Hx. now rewrite IH.
Qed.

Lemma drop_while_app : forall {A} (p : A -> bool) a b,
  forallb p a = true -> stops p b -> drop_while p (a ++ b) = b.
Proof.
  induction a as [|x a IH]; simpl; intros b Ha Hb.
  - destruct b; simpl in *; [reflexivity|now rewrite Hb].
  - apply andb_true_iff in Ha as [Hx Ha]. rewrite Hx. now apply IH.
Qed.

Lemma take_while_all : forall {A} (p : A -> bool) a, forallb p a = true -> take_while p a = a.
Proof. intros. rewrite <- (app_nil_r a) at 1. now apply take_while_app. Qed.

Lemma drop_while_all : forall {A} (p : A -> bool) a, forallb p a = true -> drop_while p a = [].
Proof. intros. rewrite <- (app_nil_r a) at 1. now apply drop_while_app. Qed.

Lemma drop_while_length : forall {A} (p : A -> bool) l, (length (drop_while p l) <= length l)%nat.
Proof. induction l as [|x l IH]; simpl; [lia|]. destruct (p x); simpl; lia. Qed.

Lemma forallb_impl : forall {A} (p q : A -> bool) l,
  (forall x, p x = true -> q x = true) -> forallb p l = true -> forallb q l = true.
Proof. intros A p q l H. rewrite !forallb_forall. auto. Qed.

(** ------------------------------------------------------------ decimal printing *)
Definition dstep (a : Z) (c : ascii) : Z := 10 * a + digit_val c.

Lemma digits_val_app1 : forall l c, digits_val (l ++ [c]) = 10 * digits_val l + digit_val c.
Proof. intros. unfold digits_val. now rewrite fold_left_app. Qed.

Lemma dec_fuel_acc : forall n z acc, dec_fuel n z acc = dec_fuel n z [] ++ acc.
Proof.
  induction n as [|n IH]; intros z acc; simpl.
  - reflexivity.
  - destruct (z <? 10); [reflexivity|].
    rewrite IH. rewrite (IH _ [_]). now rewrite <- app_assoc.
Qed.

Lemma digit_val_digit_char : forall d, 0 <= d < 10 -> digit_val (digit_char d) = d.
Proof. intros. unfold digit_val. rewrite digit_char_code; lia. Qed.

Lemma is_digit_digit_char : forall d, 0 <= d < 10 -> is_digit (digit_char d) = true.
Proof. intros. unfold is_digit. rewrite digit_char_code; lia. Qed.

Lemma dec_fuel_val : forall n z, 0 <= z < 10 ^ (Z.of_nat n + 1) -> digits_val (dec_fuel n z []) = z.
Proof.
  induction n as [|n IH]; intros z Hz.
  - simpl in *. change (digits_val [digit_char (z mod 10)]) with (10 * 0 + digit_val (digit_char (z mod 10))).
    rewrite digit_val_digit_char; lia.
  - simpl dec_fuel. destruct (z <? 10) eqn:E.
    + change (digits_val [digit_char z]) with (10 * 0 + digit_val (digit_char z)).
      rewrite digit_val_digit_char; lia.
    + rewrite dec_fuel_acc, digits_val_app1, IH.
      * rewrite digit_val_digit_char; lia.
      * replace (Z.of_nat (S n) + 1) with (Z.succ (Z.of_nat n + 1)) in Hz by lia.
        rewrite Z.pow_succ_r in Hz by lia. lia.
Qed.

Lemma dec_fuel_digits : forall n z, 0 <= z -> forallb is_digit (dec_fuel n z []) = true.
Proof.
  induction n as [|n IH]; intros z Hz; simpl.
  - rewrite is_digit_digit_char; [reflexivity|lia].
  - destruct (z <? 10) eqn:E; simpl.
    + rewrite is_digit_digit_char; [reflexivity|lia].
    + rewrite dec_fuel_acc, forallb_app, IH by lia. simpl.
      rewrite is_digit_digit_char; [reflexivity|lia].
Qed.

Lemma dec_fuel_nonempty : forall n z, dec_fuel n z [] <> [].
Proof.
  intros n z. destruct n; simpl; [discriminate|].
  destruct (z <? 10); [discriminate|]. rewrite dec_fuel_acc. now destruct (dec_fuel n (z / 10) []).
Qed.

Lemma log2_fuel_enough : forall z, 0 <= z -> z < 10 ^ (Z.of_nat (Z.to_nat (Z.log2 z)) + 1).
Proof.
  intros z Hz. rewrite Z2Nat.id by apply Z.log2_nonneg.
  destruct (Z.eq_dec z 0) as [->|Hn]; [reflexivity|].
  pose proof (Z.log2_spec z ltac:(lia)) as [_ H2].
  eapply Z.lt_le_trans; [exact H2|].
  replace (Z.succ (Z.log2 z)) with (Z.log2 z + 1) by lia.
  apply Z.pow_le_mono_l. lia.
Qed.

(** [dec] is a right inverse of reading a digit string: int(str(z)) = z *)
Lemma digits_val_dec : forall z, 0 <= z -> digits_val (dec z) = z.
Proof. intros z Hz. unfold dec. apply dec_fuel_val. split; [lia|now apply log2_fuel_enough]. Qed.

Lemma dec_digits : forall z, 0 <= z -> forallb is_digit (dec z) = true.
Proof. intros. unfold dec. now apply dec_fuel_digits. Qed.

Lemma dec_nonempty : forall z, dec z <> [].
Proof. intros. unfold dec. apply dec_fuel_nonempty. Qed.

(** ------------------------------------------------------------ tokenizer: every match consumes input *)
Lemma drop_while_head : forall {A} (p : A -> bool) l x r, drop_while p l = x :: r -> p x = false.
Proof.
  induction l as [|y l IH]; simpl; intros x r H; [discriminate|].
  destruct (p y) eqn:E; [eauto|]. inversion H; subst. exact E.
Qed.

Lemma last_non_newline_shrinks : forall s c rest,
  last_non_newline s = Some (c, rest) -> (length rest < length s)%nat.
Proof.
  induction s as [|a s IH]; simpl; intros c rest H; [discriminate|].
  destruct (last_non_newline s) as [[c' r']|] eqn:E.
  - inversion H; subst. specialize (IH _ _ eq_refl). lia.
  - destruct (is_newline a); inversion H; subst; lia.
Qed.

Lemma match_at_shrinks : forall s t rest, match_at s = Some (t, rest) -> (length rest < length s)%nat.
Proof.
  intros s t rest. unfold match_at.
  destruct (drop_while is_blank s) as [|c r'] eqn:E.
  - destruct (last_non_newline s) as [[c rest']|] eqn:L; [|discriminate].
    intros H; inversion H; subst. eapply last_non_newline_shrinks; eauto.
  - pose proof (drop_while_length is_blank s) as HL. rewrite E in HL. simpl in HL.
    pose proof (drop_while_head _ _ _ _ E) as Hc.
    destruct (is_hyphen c); [intros H; inversion H; subst; lia|].
    destruct (is_digit_or_comma c) eqn:Hdc.
    + intros H; inversion H; subst. clear H. simpl. rewrite Hdc.
      pose proof (drop_while_length is_digit_or_comma r') as H1.
      destruct (drop_while is_digit_or_comma r') as [|d r1'].
      * simpl in *. lia.
      * destruct (is_dot d).
        -- pose proof (drop_while_length is_alpha (drop_while is_digit r1')).
           pose proof (drop_while_length is_digit r1'). simpl in *. lia.
        -- pose proof (drop_while_length is_alpha (d :: r1')). simpl in *. lia.
    + intros H; inversion H; subst. clear H. simpl.
      assert (is_newline c = false) as -> by (cls; lia). simpl.
      pose proof (drop_while_length (fun x => negb (is_newline x)) r'). lia.
Qed.

Lemma tokenize_fuel_enough : forall n m s,
  (length s < n)%nat -> (length s < m)%nat -> tokenize_fuel n s = tokenize_fuel m s.
Proof.
  induction n as [|n IH]; intros m s Hn Hm; [lia|].
  destruct m as [|m]; [lia|]. simpl.
  destruct (match_at s) as [[t rest]|] eqn:E; [|reflexivity].
  apply match_at_shrinks in E. f_equal. apply IH; lia.
Qed.

(** the fuel of [tokenize] is never exhausted: the defining equation of finditer *)
Lemma tokenize_eq : forall s,
  tokenize s = match match_at s with None => [] | Some (t, rest) => t :: tokenize rest end.
Proof.
  intros s. unfold tokenize at 1. simpl.
  destruct (match_at s) as [[t rest]|] eqn:E; [|reflexivity].
  apply match_at_shrinks in E. f_equal. apply tokenize_fuel_enough; lia.
Qed.

(** ------------------------------------------------------------ tokenizer on well-formed pieces *)
(** the next character cannot extend a coordinate token *)
Definition tok_end (r : str) : Prop :=
  match r with
  | [] => True
  | x :: _ => is_alpha x = false /\ is_digit x = false /\ is_comma x = false /\ is_dot x = false
  end.

Definition frac_part (hasdot : bool) (fd : str) : str := if hasdot then c_dot :: fd else [].

Lemma match_at_coord : forall ws ip hasdot fd al r,
  forallb is_blank ws = true -> ip <> [] -> forallb is_digit_or_comma ip = true ->
  forallb is_digit fd = true -> forallb is_alpha al = true -> tok_end r ->
  match_at (ws ++ ip ++ frac_part hasdot fd ++ al ++ r) = Some ((COORD, ip ++ frac_part hasdot fd ++ al), r).
Proof.
  intros ws ip hasdot fd al r Hws Hne Hip Hfd Hal Hr.
  destruct ip as [|c ip']; [congruence|]. clear Hne.
  simpl in Hip. apply andb_true_iff in Hip as [Hc Hip].
  unfold match_at.
  rewrite drop_while_app; [|assumption|simpl; cls; lia].
  change ((c :: ip') ++ frac_part hasdot fd ++ al ++ r) with (c :: (ip' ++ frac_part hasdot fd ++ al ++ r)).
  cbv iota beta.
  assert (is_hyphen c = false) as -> by (cls; lia). rewrite Hc.
  assert (Hstop_al : stops is_digit (al ++ r) /\ stops is_digit_or_comma (al ++ r) /\ stops is_dot (al ++ r)).
  { destruct al as [|x al'].
    - destruct r as [|y r']; simpl in *; [tauto|]. cls. lia.
    - simpl in Hal. apply andb_true_iff in Hal as [Hx _]. simpl. cls. lia. }
  destruct Hstop_al as (Hs1 & Hs2 & Hs3).
  assert (Hstop : stops is_digit_or_comma (frac_part hasdot fd ++ al ++ r)).
  { destruct hasdot; simpl; [cls; rewrite c_dot_code; lia|exact Hs2]. }
  simpl take_while. simpl drop_while. rewrite Hc.
  rewrite take_while_app by assumption. rewrite drop_while_app by assumption.
  assert (Hal_stop : stops is_alpha r).
  { destruct r; simpl in *; tauto. }
  destruct hasdot; simpl frac_part.
  - simpl.
    rewrite (take_while_app is_digit fd), (drop_while_app is_digit fd) by assumption.
    rewrite take_while_app, drop_while_app by assumption.
    reflexivity.
  - simpl app.
    destruct (al ++ r) as [|d q] eqn:Eq.
    + destruct al; [|discriminate]. simpl in Eq. subst r. reflexivity.
    + simpl in Hs3. rewrite Hs3. rewrite <- Eq.
      rewrite take_while_app, drop_while_app by assumption. reflexivity.
Qed.

Lemma match_at_hyphen : forall ws r,
  forallb is_blank ws = true -> match_at (ws ++ c_hyphen :: r) = Some ((HYPHEN, [c_hyphen]), r).
Proof.
  intros ws r Hws. unfold match_at.
  rewrite drop_while_app; [|assumption|reflexivity]. reflexivity.
Qed.

Lemma match_at_nil : match_at [] = None.
Proof. reflexivity. Qed.

(** ------------------------------------------------------------ strip, split *)
Definition nonblank (c : ascii) : bool := negb (is_blank c).
Definition notcolon (c : ascii) : bool := negb (is_colon c).

Lemma lstrip_id : forall s, stops is_blank s -> lstrip s = s.
Proof. intros [|c s] H; simpl in *; [reflexivity|]. unfold lstrip. simpl. now rewrite H. Qed.

Lemma rstrip_id : forall s, stops is_blank (rev s) -> rstrip s = s.
Proof.
  intros s H. unfold rstrip. destruct (rev s) as [|c r] eqn:E.
  - simpl. now rewrite <- (rev_involutive s), E.
  - simpl in *. rewrite H. now rewrite <- E, rev_involutive.
Qed.

Lemma strip_id : forall s, stops is_blank s -> stops is_blank (rev s) -> strip s = s.
Proof. intros s H1 H2. unfold strip. rewrite lstrip_id by assumption. now apply rstrip_id. Qed.

Lemma strip_nonblank : forall s, forallb nonblank s = true -> strip s = s.
Proof.
  intros s H. apply strip_id.
  - destruct s as [|c s]; simpl in *; [exact I|]. apply andb_true_iff in H as [H _].
    unfold nonblank in H. now destruct (is_blank c).
  - destruct (rev s) as [|c r] eqn:E; simpl; [exact I|].
    rewrite forallb_forall in H. specialize (H c). unfold nonblank in H.
    destruct (is_blank c); [|reflexivity]. discriminate H. apply in_rev. rewrite E. now left.
Qed.

Lemma strip_blank : forall w, forallb is_blank w = true -> strip w = [].
Proof. intros w H. unfold strip, lstrip. now rewrite drop_while_all. Qed.

(** a chromosome name that parse_region_string returns unchanged: non-empty, no colon, no blank at either end *)
Definition name_ok_b (name : str) : bool :=
  negb (is_nil name) && forallb notcolon name
  && nonblank (hd c_colon name) && nonblank (last name c_colon).

Lemma name_ok_strip : forall name, name_ok_b name = true -> strip name = name.
Proof.
  intros name H. unfold name_ok_b in H.
  apply andb_true_iff in H as [H Hl]. apply andb_true_iff in H as [H Hh]. apply andb_true_iff in H as [Hn _].
  destruct name as [|c name]; [discriminate|].
  apply strip_id.
  - simpl in *. unfold nonblank in Hh. now destruct (is_blank c).
  - assert (E : c :: name <> []) by discriminate.
    rewrite (app_removelast_last c_colon E), rev_app_distr.
    remember (last (c :: name) c_colon) as l. simpl.
    unfold nonblank in Hl. now destruct (is_blank l).
Qed.

Lemma split_colon_hd : forall s, exists t, split_colon s = take_while notcolon s :: t.
Proof.
  induction s as [|c s [t IH]]; simpl; [now exists []|].
  unfold notcolon at 1. destruct (is_colon c); simpl; [eauto|].
  rewrite IH. eauto.
Qed.

Lemma split_colon_app : forall name rest,
  forallb notcolon name = true -> split_colon (name ++ c_colon :: rest) = name :: split_colon rest.
Proof.
  induction name as [|c name IH]; intros rest H; simpl.
  - reflexivity.
  - simpl in H. apply andb_true_iff in H as [Hc H]. unfold notcolon in Hc.
    destruct (is_colon c); [discriminate|]. now rewrite IH.
Qed.

Lemma split_colon_nocolon : forall s, forallb notcolon s = true -> split_colon s = [s].
Proof.
  induction s as [|c s IH]; intros H; simpl; [reflexivity|].
  simpl in H. apply andb_true_iff in H as [Hc H]. unfold notcolon in Hc.
  destruct (is_colon c); [discriminate|]. now rewrite IH.
Qed.

Lemma parse_region_string_bare : forall name,
  name_ok_b name = true -> parse_region_string name = Some (name, None, None).
Proof.
  intros name H. unfold parse_region_string.
  pose proof (name_ok_strip _ H) as Hs.
  unfold name_ok_b in H. apply andb_true_iff in H as [H _]. apply andb_true_iff in H as [H _].
  apply andb_true_iff in H as [Hn Hc].
  rewrite split_colon_nocolon by assumption. rewrite Hs.
  destruct name; [discriminate|reflexivity].
Qed.

(** with a coordinate part: only the text up to the next colon is ever looked at *)
Lemma parse_region_string_colon : forall name rest,
  name_ok_b name = true ->
  parse_region_string (name ++ c_colon :: rest) =
  match expect (tokenize (take_while notcolon rest)) with
  | None => None
  | Some (a, ob) => Some (name, Some a, ob)
  end.
Proof.
  intros name rest H. unfold parse_region_string.
  pose proof (name_ok_strip _ H) as Hs.
  unfold name_ok_b in H. apply andb_true_iff in H as [H _]. apply andb_true_iff in H as [H _].
  apply andb_true_iff in H as [Hn Hc].
  rewrite split_colon_app by assumption. rewrite Hs.
  destruct (split_colon_hd rest) as [t ->].
  destruct name; [discriminate|reflexivity].
Qed.

(** ------------------------------------------------------------ parse_humanized on coordinate tokens *)
Lemma remove_commas_app : forall a b, remove_commas (a ++ b) = remove_commas a ++ remove_commas b.
Proof. intros. unfold remove_commas. apply filter_app. Qed.

Lemma remove_commas_id : forall s, forallb (fun c => negb (is_comma c)) s = true -> remove_commas s = s.
Proof.
  induction s as [|c s IH]; simpl; intros H; [reflexivity|].
  apply andb_true_iff in H as [Hc H]. rewrite Hc. now rewrite IH.
Qed.

Lemma remove_commas_digits : forall t,
  forallb is_digit_or_comma t = true -> forallb is_digit (remove_commas t) = true.
Proof.
  induction t as [|c t IH]; simpl; intros H; [reflexivity|].
  apply andb_true_iff in H as [Hc H]. destruct (is_comma c) eqn:E; simpl; [auto|].
  rewrite IH by assumption. assert (is_digit c = true) as -> by (cls; lia). reflexivity.
Qed.

Lemma digits_nocomma : forall s, forallb is_digit s = true -> forallb (fun c => negb (is_comma c)) s = true.
Proof. intros s. apply forallb_impl. intros x H. cls. lia. Qed.
Lemma alpha_nocomma : forall s, forallb is_alpha s = true -> forallb (fun c => negb (is_comma c)) s = true.
Proof. intros s. apply forallb_impl. intros x H. cls. lia. Qed.
Lemma digits_numch : forall s, forallb is_digit s = true -> forallb is_numch s = true.
Proof. intros s. apply forallb_impl. intros x H. cls. lia. Qed.

Lemma alpha_no_numch : forall s, forallb is_alpha s = true -> existsb is_numch s = false.
Proof.
  induction s as [|c s IH]; simpl; intros H; [reflexivity|].
  apply andb_true_iff in H as [Hc H]. rewrite IH by assumption.
  assert (is_numch c = false) as -> by (cls; lia). reflexivity.
Qed.

Lemma alpha_drop_nonnum : forall s, forallb is_alpha s = true -> drop_while (fun c => negb (is_numch c)) s = [].
Proof.
  intros s H. apply drop_while_all. revert H. apply forallb_impl. intros x H. cls. lia.
Qed.

Lemma to_upper_alpha_nonblank : forall s, forallb is_alpha s = true -> forallb nonblank (map to_upper s) = true.
Proof.
  induction s as [|c s IH]; simpl; intros H; [reflexivity|].
  apply andb_true_iff in H as [Hc H]. rewrite IH by assumption. rewrite andb_true_r.
  unfold nonblank, to_upper. destruct (is_lower c) eqn:E.
  - pose proof (code_range c). unfold is_blank. rewrite code_chr by (cls; lia). cls. lia.
  - cls. lia.
Qed.

(** what a COORD token  ip [. fd] al  evaluates to; ipd = ip without its commas *)
Definition coord_value (ipd : str) (hasdot : bool) (fd al : str) : option Z :=
  if is_nil al then
    (if hasdot then None else if is_nil ipd then None else Some (digits_val ipd))
  else if is_nil ipd && (negb hasdot || is_nil fd) then None
  else match unit_mult (map to_upper al) with
       | None => None
       | Some m => Some ((digits_val ipd * 10 ^ zlen fd + digits_val fd) * m / 10 ^ zlen fd)
       end.

Lemma parse_humanized_coord : forall ip hasdot fd al,
  forallb is_digit_or_comma ip = true -> forallb is_digit fd = true -> forallb is_alpha al = true ->
  (hasdot = false -> fd = []) ->
  parse_humanized (ip ++ frac_part hasdot fd ++ al) = coord_value (remove_commas ip) hasdot fd al.
Proof.
  intros ip hasdot fd al Hip Hfd Hal Hnd.
  pose proof (remove_commas_digits _ Hip) as Hd. set (ipd := remove_commas ip) in *.
  unfold parse_humanized.
  assert (Hs : remove_commas (ip ++ frac_part hasdot fd ++ al) = ipd ++ frac_part hasdot fd ++ al).
  { rewrite !remove_commas_app. fold ipd. f_equal. f_equal.
    - destruct hasdot; simpl; [|reflexivity].
      f_equal. apply remove_commas_id. now apply digits_nocomma.
    - apply remove_commas_id. now apply alpha_nocomma. }
  rewrite Hs. clear Hs.
  assert (Hstop_al : al <> [] -> stops is_numch al).
  { destruct al as [|x al']; [congruence|]. intros _. simpl in *. apply andb_true_iff in Hal as [Hx _]. cls. lia. }
  destruct hasdot; simpl frac_part.
  - (* ipd . fd al *)
    assert (Hhead : drop_while (fun c => negb (is_numch c)) (ipd ++ (c_dot :: fd) ++ al) = ipd ++ (c_dot :: fd) ++ al).
    { destruct ipd as [|d ipd']; simpl; [reflexivity|].
      simpl in Hd. apply andb_true_iff in Hd as [Hd0 _].
      assert (is_numch d = true) as -> by (cls; lia). reflexivity. }
    rewrite Hhead. clear Hhead.
    assert (Hval : forallb is_numch (ipd ++ c_dot :: fd) = true).
    { rewrite forallb_app, digits_numch by assumption. simpl. now rewrite digits_numch. }
    replace (ipd ++ (c_dot :: fd) ++ al) with ((ipd ++ c_dot :: fd) ++ al) by now rewrite <- app_assoc.
    assert (Hpf : parse_fraction (ipd ++ c_dot :: fd) =
                  if is_nil ipd && is_nil fd then None
                  else Some (digits_val ipd * 10 ^ zlen fd + digits_val fd, zlen fd)).
    { unfold parse_fraction.
      rewrite take_while_app, drop_while_app by (assumption || reflexivity).
      assert (is_dot c_dot = true) as -> by reflexivity.
      now rewrite take_while_all, drop_while_all by assumption. }
    assert (Hnn : is_nil (ipd ++ c_dot :: fd) = false) by (now destruct ipd).
    destruct al as [|x al'].
    + rewrite app_nil_r. rewrite take_while_all, drop_while_all by assumption.
      unfold coord_value. simpl is_nil at 1.
      rewrite Hnn. simpl. unfold parse_int. rewrite Hnn.
      rewrite forallb_app. simpl. now rewrite andb_false_r.
    + rewrite take_while_app, drop_while_app by (try assumption; apply Hstop_al; discriminate).
      rewrite alpha_no_numch by assumption.
      rewrite Hnn. simpl is_nil.
      cbv iota. rewrite Hpf. unfold coord_value. simpl is_nil. simpl negb. simpl orb.
      destruct (is_nil ipd && is_nil fd); [reflexivity|].
      rewrite strip_nonblank by now apply to_upper_alpha_nonblank.
      reflexivity.
  - (* ipd al *)
    rewrite (Hnd eq_refl) in *. simpl app.
    destruct ipd as [|d ipd'] eqn:Eipd.
    + simpl app. rewrite alpha_drop_nonnum by assumption. simpl.
      unfold coord_value. destruct al; reflexivity.
    + assert (Hhead : drop_while (fun c => negb (is_numch c)) ((d :: ipd') ++ al) = (d :: ipd') ++ al).
      { simpl. simpl in Hd. apply andb_true_iff in Hd as [Hd0 _].
        assert (is_numch d = true) as -> by (cls; lia). reflexivity. }
      rewrite Hhead. clear Hhead.
      pose proof (digits_numch _ Hd) as Hval.
      destruct al as [|x al'].
      * rewrite app_nil_r. rewrite take_while_all, drop_while_all by assumption.
        simpl is_nil. simpl existsb. cbv iota. unfold parse_int. simpl is_nil. cbv iota.
        rewrite Hd. reflexivity.
      * rewrite take_while_app, drop_while_app by (try assumption; apply Hstop_al; discriminate).
        rewrite alpha_no_numch by assumption. simpl is_nil. cbv iota.
        unfold parse_fraction. rewrite take_while_all, drop_while_all by assumption.
        simpl is_nil. cbv iota. unfold coord_value. simpl is_nil. simpl andb. cbv iota.
        rewrite strip_nonblank by now apply to_upper_alpha_nonblank.
        destruct (unit_mult (map to_upper (x :: al'))); [|reflexivity].
        f_equal. change (zlen (@nil ascii)) with 0. change (digits_val []) with 0.
        f_equal. lia.
Qed.

(** ------------------------------------------------------------ the region grammar *)
(** a COORD token in parts:  ip = [0-9,]+ ,  optional "." fd with fd = [0-9]* ,  al = [a-zA-Z]*  *)
Record ctok := mk_ctok { t_ip : str; t_dot : bool; t_fd : str; t_al : str }.

Definition ctok_ok_b (t : ctok) : bool :=
  negb (is_nil (t_ip t)) && forallb is_digit_or_comma (t_ip t) && forallb is_digit (t_fd t)
  && forallb is_alpha (t_al t) && (t_dot t || is_nil (t_fd t)).

Definition ctok_str (t : ctok) : str := t_ip t ++ frac_part (t_dot t) (t_fd t) ++ t_al t.
Definition ctok_val (t : ctok) : option Z := coord_value (remove_commas (t_ip t)) (t_dot t) (t_fd t) (t_al t).

Lemma ctok_ok_spec : forall t, ctok_ok_b t = true ->
  t_ip t <> [] /\ forallb is_digit_or_comma (t_ip t) = true /\ forallb is_digit (t_fd t) = true /\
  forallb is_alpha (t_al t) = true /\ (t_dot t = false -> t_fd t = []).
Proof.
  intros [ip d fd al]. unfold ctok_ok_b. simpl. rewrite !andb_true_iff.
  intros [[[[H1 H2] H3] H4] H5]. repeat split; try assumption.
  - destruct ip; [discriminate|discriminate].
  - intros ->. simpl in H5. now destruct fd.
Qed.

Lemma parse_humanized_ctok : forall t, ctok_ok_b t = true -> parse_humanized (ctok_str t) = ctok_val t.
Proof.
  intros t H. apply ctok_ok_spec in H as (_ & H2 & H3 & H4 & H5). now apply parse_humanized_coord.
Qed.

Lemma tok_end_blank : forall w r, forallb is_blank w = true -> tok_end r -> tok_end (w ++ r).
Proof.
  intros [|c w] r H Hr; simpl in *; [assumption|].
  apply andb_true_iff in H as [Hc _]. cls. lia.
Qed.

Lemma tok_end_hyphen : forall r, tok_end (c_hyphen :: r).
Proof. intros. simpl. repeat split; reflexivity. Qed.

Lemma match_at_ctok : forall ws t r,
  forallb is_blank ws = true -> ctok_ok_b t = true -> tok_end r ->
  match_at (ws ++ ctok_str t ++ r) = Some ((COORD, ctok_str t), r).
Proof.
  intros ws t r Hws Ht Hr. apply ctok_ok_spec in Ht as (H1 & H2 & H3 & H4 & H5).
  unfold ctok_str. rewrite <- !app_assoc. now apply match_at_coord.
Qed.

Lemma match_at_newlines : forall nl, forallb is_newline nl = true -> match_at nl = None.
Proof.
  intros nl H. unfold match_at.
  rewrite drop_while_all by (revert H; apply forallb_impl; intros x Hx; cls; lia).
  assert (L : last_non_newline nl = None).
  { induction nl as [|c nl IH]; simpl in *; [reflexivity|].
    apply andb_true_iff in H as [Hc H]. now rewrite IH, Hc. }
  now rewrite L.
Qed.

(** the three tokens the grammar asks for; whatever follows is never requested *)
Lemma tokenize_closed : forall w1 t1 w2 w3 t2 junk,
  forallb is_blank w1 = true -> forallb is_blank w2 = true -> forallb is_blank w3 = true ->
  ctok_ok_b t1 = true -> ctok_ok_b t2 = true -> tok_end junk ->
  exists more,
    tokenize (w1 ++ ctok_str t1 ++ w2 ++ c_hyphen :: w3 ++ ctok_str t2 ++ junk)
    = (COORD, ctok_str t1) :: (HYPHEN, [c_hyphen]) :: (COORD, ctok_str t2) :: more.
Proof.
  intros w1 t1 w2 w3 t2 junk Hw1 Hw2 Hw3 Ht1 Ht2 Hj.
  rewrite tokenize_eq, match_at_ctok; try assumption.
  2:{ apply tok_end_blank; [assumption|apply tok_end_hyphen]. }
  rewrite tokenize_eq, match_at_hyphen by assumption.
  rewrite tokenize_eq, match_at_ctok by assumption.
  eauto.
Qed.

Lemma tokenize_open : forall w1 t1 w2 nl,
  forallb is_blank w1 = true -> forallb is_blank w2 = true -> forallb is_newline nl = true ->
  ctok_ok_b t1 = true ->
  tokenize (w1 ++ ctok_str t1 ++ w2 ++ c_hyphen :: nl) = [(COORD, ctok_str t1); (HYPHEN, [c_hyphen])].
Proof.
  intros w1 t1 w2 nl Hw1 Hw2 Hnl Ht1.
  rewrite tokenize_eq, match_at_ctok; try assumption.
  2:{ apply tok_end_blank; [assumption|apply tok_end_hyphen]. }
  rewrite tokenize_eq, match_at_hyphen by assumption.
  rewrite tokenize_eq, match_at_newlines by assumption. reflexivity.
Qed.

Lemma take_while_app_keep : forall {A} (p : A -> bool) a b,
  forallb p a = true -> take_while p (a ++ b) = a ++ take_while p b.
Proof.
  induction a as [|x a IH]; simpl; intros b H; [reflexivity|].
  apply andb_true_iff in H as [Hx H]. rewrite Hx. now rewrite IH.
Qed.

Lemma blank_notcolon : forall w, forallb is_blank w = true -> forallb notcolon w = true.
Proof. intros w. apply forallb_impl. intros x H. unfold notcolon. cls. lia. Qed.

Lemma newline_notcolon : forall w, forallb is_newline w = true -> forallb notcolon w = true.
Proof. intros w. apply forallb_impl. intros x H. unfold notcolon. cls. lia. Qed.

Lemma ctok_notcolon : forall t, ctok_ok_b t = true -> forallb notcolon (ctok_str t) = true.
Proof.
  intros t Ht. apply ctok_ok_spec in Ht as (H1 & H2 & H3 & H4 & H5).
  unfold ctok_str. rewrite !forallb_app. repeat (apply andb_true_iff; split).
  - revert H2. apply forallb_impl. intros x H. unfold notcolon. cls. lia.
  - destruct (t_dot t); simpl; [|reflexivity].
    revert H3. apply forallb_impl. intros x H. unfold notcolon. cls. lia.
  - revert H4. apply forallb_impl. intros x H. unfold notcolon. cls. lia.
Qed.

Lemma tok_end_take_notcolon : forall j, tok_end j -> tok_end (take_while notcolon j).
Proof. intros [|x j] H; simpl in *; [exact I|]. destruct (notcolon x); simpl; auto. Qed.

(** what follows the coordinate text: nothing, or a second colon and anything *)
Definition colon_tail (j : str) : Prop := match j with [] => True | x :: _ => is_colon x = true end.

Lemma take_notcolon_tail : forall j, colon_tail j -> take_while notcolon j = [].
Proof. intros [|x j] H; simpl in *; [reflexivity|]. unfold notcolon. now rewrite H. Qed.

Definition region_result (name : str) (a b : option Z) : option region :=
  match a, b with
  | Some a, Some b => if b <? a then None else Some (name, Some a, Some b)
  | _, _ => None
  end.

(** GRAMMAR, closed range: name ":" [blanks] COORD [blanks] "-" [blanks] COORD junk *)
Theorem region_grammar_closed : forall name w1 t1 w2 w3 t2 junk,
  name_ok_b name = true ->
  forallb is_blank w1 = true -> forallb is_blank w2 = true -> forallb is_blank w3 = true ->
  ctok_ok_b t1 = true -> ctok_ok_b t2 = true -> tok_end junk ->
  parse_region_string (name ++ c_colon :: w1 ++ ctok_str t1 ++ w2 ++ c_hyphen :: w3 ++ ctok_str t2 ++ junk)
  = region_result name (ctok_val t1) (ctok_val t2).
Proof.
  intros name w1 t1 w2 w3 t2 junk Hn Hw1 Hw2 Hw3 Ht1 Ht2 Hj.
  rewrite parse_region_string_colon by assumption.
  assert (E : take_while notcolon (w1 ++ ctok_str t1 ++ w2 ++ c_hyphen :: w3 ++ ctok_str t2 ++ junk)
              = w1 ++ ctok_str t1 ++ w2 ++ c_hyphen :: w3 ++ ctok_str t2 ++ take_while notcolon junk).
  { rewrite take_while_app_keep by now apply blank_notcolon. f_equal.
    rewrite take_while_app_keep by now apply ctok_notcolon. f_equal.
    rewrite take_while_app_keep by now apply blank_notcolon. f_equal.
    simpl. f_equal.
    rewrite take_while_app_keep by now apply blank_notcolon. f_equal.
    now rewrite take_while_app_keep by now apply ctok_notcolon. }
  rewrite E.
  destruct (tokenize_closed w1 t1 w2 w3 t2 (take_while notcolon junk)) as [more ->];
    try assumption; [now apply tok_end_take_notcolon|].
  unfold expect. rewrite !parse_humanized_ctok by assumption.
  unfold region_result.
  destruct (ctok_val t1) as [a|]; [|reflexivity].
  destruct (ctok_val t2) as [b|]; [|reflexivity].
  destruct (b <? a); reflexivity.
Qed.

(** GRAMMAR, open end: name ":" [blanks] COORD [blanks] "-" [newlines] [":" anything] *)
Theorem region_grammar_open : forall name w1 t1 w2 nl tail,
  name_ok_b name = true ->
  forallb is_blank w1 = true -> forallb is_blank w2 = true -> forallb is_newline nl = true ->
  ctok_ok_b t1 = true -> colon_tail tail ->
  parse_region_string (name ++ c_colon :: w1 ++ ctok_str t1 ++ w2 ++ c_hyphen :: nl ++ tail)
  = match ctok_val t1 with Some a => Some (name, Some a, None) | None => None end.
Proof.
  intros name w1 t1 w2 nl tail Hn Hw1 Hw2 Hnl Ht1 Htl.
  rewrite parse_region_string_colon by assumption.
  assert (E : take_while notcolon (w1 ++ ctok_str t1 ++ w2 ++ c_hyphen :: nl ++ tail)
              = w1 ++ ctok_str t1 ++ w2 ++ c_hyphen :: nl).
  { rewrite take_while_app_keep by now apply blank_notcolon. f_equal.
    rewrite take_while_app_keep by now apply ctok_notcolon. f_equal.
    rewrite take_while_app_keep by now apply blank_notcolon. f_equal.
    simpl. f_equal.
    rewrite take_while_app_keep by now apply newline_notcolon.
    now rewrite take_notcolon_tail, app_nil_r. }
  rewrite E, tokenize_open by assumption.
  unfold expect. rewrite parse_humanized_ctok by assumption.
  destruct (ctok_val t1); reflexivity.
Qed.

(** ------------------------------------------------------------ format -> parse round trip *)
Definition plain_tok (cs : str) : ctok := mk_ctok cs false [] [].

Lemma plain_tok_str : forall cs, ctok_str (plain_tok cs) = cs.
Proof. intros. unfold ctok_str, plain_tok. simpl. now rewrite app_nil_r. Qed.

Lemma plain_tok_ok : forall cs z,
  forallb is_digit_or_comma cs = true -> remove_commas cs = dec z -> ctok_ok_b (plain_tok cs) = true.
Proof.
  intros cs z H E. unfold ctok_ok_b, plain_tok. simpl. rewrite H.
  destruct cs; [|reflexivity]. simpl in E. now destruct (dec_nonempty z).
Qed.

Lemma plain_tok_val : forall cs z, 0 <= z -> remove_commas cs = dec z -> ctok_val (plain_tok cs) = Some z.
Proof.
  intros cs z Hz E. unfold ctok_val, plain_tok, coord_value. simpl. rewrite E.
  destruct (dec z) eqn:D; [now destruct (dec_nonempty z)|]. simpl. rewrite <- D. now rewrite digits_val_dec.
Qed.

(** any placement of commas among the digits of s and of e *)
Theorem parse_commas_roundtrip : forall name s e cs ce,
  name_ok_b name = true -> 0 <= s <= e ->
  forallb is_digit_or_comma cs = true -> remove_commas cs = dec s ->
  forallb is_digit_or_comma ce = true -> remove_commas ce = dec e ->
  parse_region_string (name ++ c_colon :: cs ++ c_hyphen :: ce) = Some (name, Some s, Some e).
Proof.
  intros name s e cs ce Hn Hse Hcs Es Hce Ee.
  pose proof (region_grammar_closed name [] (plain_tok cs) [] [] (plain_tok ce) [] Hn eq_refl eq_refl eq_refl
                (plain_tok_ok _ _ Hcs Es) (plain_tok_ok _ _ Hce Ee) I) as G.
  rewrite !plain_tok_str in G. simpl in G. rewrite app_nil_r in G. rewrite G.
  rewrite (plain_tok_val cs s), (plain_tok_val ce e) by (assumption || lia).
  unfold region_result. destruct (e <? s) eqn:L; [lia|reflexivity].
Qed.

Theorem parse_commas_roundtrip_open : forall name s cs,
  name_ok_b name = true -> 0 <= s ->
  forallb is_digit_or_comma cs = true -> remove_commas cs = dec s ->
  parse_region_string (name ++ c_colon :: cs ++ [c_hyphen]) = Some (name, Some s, None).
Proof.
  intros name s cs Hn Hs Hcs Es.
  pose proof (region_grammar_open name [] (plain_tok cs) [] [] [] Hn eq_refl eq_refl eq_refl
                (plain_tok_ok _ _ Hcs Es) I) as G.
  rewrite !plain_tok_str in G. simpl in G. rewrite G.
  now rewrite (plain_tok_val cs s) by (assumption || lia).
Qed.

Lemma digits_are_dc : forall s, forallb is_digit s = true -> forallb is_digit_or_comma s = true.
Proof. intros s. apply forallb_impl. intros x H. cls. lia. Qed.

Lemma dec_remove_commas : forall z, 0 <= z -> remove_commas (dec z) = dec z.
Proof. intros. apply remove_commas_id, digits_nocomma. now apply dec_digits. Qed.

(** parse (format (name, s, e)) = (name, s, e) *)
Theorem parse_format_roundtrip : forall name s e,
  name_ok_b name = true -> 0 <= s <= e ->
  parse_region_string (fmt_region name s e) = Some (name, Some s, Some e).
Proof.
  intros name s e Hn Hse. unfold fmt_region.
  apply parse_commas_roundtrip; try assumption;
    try (apply digits_are_dc, dec_digits; lia); apply dec_remove_commas; lia.
Qed.

Theorem parse_format_roundtrip_open : forall name s,
  name_ok_b name = true -> 0 <= s ->
  parse_region_string (name ++ c_colon :: dec s ++ [c_hyphen]) = Some (name, Some s, None).
Proof.
  intros name s Hn Hs. apply parse_commas_roundtrip_open; try assumption.
  - apply digits_are_dc, dec_digits; lia.
  - apply dec_remove_commas; lia.
Qed.

(** thousands separators as printed by  f"{z:,}"  *)
Lemma remove_commas_rev : forall s, remove_commas (rev s) = rev (remove_commas s).
Proof.
  induction s as [|c s IH]; simpl; [reflexivity|].
  rewrite remove_commas_app, IH. simpl. destruct (is_comma c); simpl; [now rewrite app_nil_r|reflexivity].
Qed.

Lemma group3_rev_spec : forall n ds, (length ds <= n)%nat -> forallb is_digit ds = true ->
  remove_commas (group3_rev ds) = ds /\ forallb is_digit_or_comma (group3_rev ds) = true.
Proof.
  induction n as [|n IH]; intros ds Hl Hd.
  - destruct ds; [split; reflexivity|simpl in Hl; lia].
  - destruct ds as [|a [|b [|c [|d r]]]];
      try (split; [apply remove_commas_id, digits_nocomma; assumption|apply digits_are_dc; assumption]).
    change (group3_rev (a :: b :: c :: d :: r)) with (a :: b :: c :: c_comma :: group3_rev (d :: r)).
    simpl in Hd. rewrite !andb_true_iff in Hd. destruct Hd as (Ha & Hb & Hc & Hd).
    destruct (IH (d :: r)) as [E1 E2]; [simpl in *; lia|simpl; now rewrite andb_true_iff|].
    remember (group3_rev (d :: r)) as g.
    assert (Ca : is_comma a = false) by (cls; lia).
    assert (Cb : is_comma b = false) by (cls; lia).
    assert (Cc : is_comma c = false) by (cls; lia).
    split.
    + change (a :: b :: c :: c_comma :: g) with ([a; b; c; c_comma] ++ g).
      rewrite remove_commas_app, E1. unfold remove_commas. simpl. now rewrite Ca, Cb, Cc.
    + change (a :: b :: c :: c_comma :: g) with ([a; b; c; c_comma] ++ g).
      rewrite forallb_app, E2. simpl.
      assert (is_digit_or_comma a = true) as -> by (cls; lia).
      assert (is_digit_or_comma b = true) as -> by (cls; lia).
      assert (is_digit_or_comma c = true) as -> by (cls; lia).
      reflexivity.
Qed.

Lemma dec_commas_spec : forall z, 0 <= z ->
  remove_commas (dec_commas z) = dec z /\ forallb is_digit_or_comma (dec_commas z) = true.
Proof.
  intros z Hz. unfold dec_commas.
  assert (Hd : forallb is_digit (rev (dec z)) = true).
  { rewrite forallb_forall. intros x Hx. apply in_rev in Hx.
    pose proof (dec_digits z Hz) as H. rewrite forallb_forall in H. auto. }
  destruct (group3_rev_spec _ _ (le_n _) Hd) as [E1 E2]. split.
  - now rewrite remove_commas_rev, E1, rev_involutive.
  - rewrite forallb_forall. intros x Hx. apply in_rev in Hx.
    rewrite forallb_forall in E2. auto.
Qed.

Theorem parse_format_commas_roundtrip : forall name s e,
  name_ok_b name = true -> 0 <= s <= e ->
  parse_region_string (name ++ c_colon :: dec_commas s ++ c_hyphen :: dec_commas e) = Some (name, Some s, Some e).
Proof.
  intros name s e Hn Hse.
  destruct (dec_commas_spec s) as [A1 A2]; [lia|]. destruct (dec_commas_spec e) as [B1 B2]; [lia|].
  now apply parse_commas_roundtrip.
Qed.

(** ------------------------------------------------------------ exact scaling *)
Lemma str_eqb_eq : forall a b, str_eqb a b = true <-> a = b.
Proof.
  induction a as [|x a IH]; destruct b as [|y b]; simpl; split; intros H; try reflexivity; try discriminate.
  - apply andb_true_iff in H as [H1 H2]. apply Z.eqb_eq in H1. apply code_inj in H1. apply IH in H2. now subst.
  - inversion H; subst. rewrite Z.eqb_refl. simpl. now apply IH.
Qed.

(** the unit table: exactly K, KB -> 10^3; M, MB -> 10^6; G, GB -> 10^9 *)
Lemma unit_mult_spec : forall u m, unit_mult u = Some m <->
  ((u = u_K \/ u = u_KB) /\ m = 1000) \/ ((u = u_M \/ u = u_MB) /\ m = 1000000) \/
  ((u = u_G \/ u = u_GB) /\ m = 1000000000).
Proof.
  intros u m. unfold unit_mult.
  destruct (str_eqb u u_K) eqn:E1; [apply str_eqb_eq in E1; subst; simpl; split; [intros H; inversion H; tauto|intros [[_ ->]|[[[H|H] _]|[[H|H] _]]]; try reflexivity; discriminate H]|].
  destruct (str_eqb u u_KB) eqn:E2; [apply str_eqb_eq in E2; subst; simpl; split; [intros H; inversion H; tauto|intros [[_ ->]|[[[H|H] _]|[[H|H] _]]]; try reflexivity; discriminate H]|].
  destruct (str_eqb u u_M) eqn:E3; [apply str_eqb_eq in E3; subst; simpl; split; [intros H; inversion H; tauto|intros [[[H|H] _]|[[_ ->]|[[H|H] _]]]; try reflexivity; discriminate H]|].
  destruct (str_eqb u u_MB) eqn:E4; [apply str_eqb_eq in E4; subst; simpl; split; [intros H; inversion H; tauto|intros [[[H|H] _]|[[_ ->]|[[H|H] _]]]; try reflexivity; discriminate H]|].
  destruct (str_eqb u u_G) eqn:E5; [apply str_eqb_eq in E5; subst; simpl; split; [intros H; inversion H; tauto|intros [[[H|H] _]|[[[H|H] _]|[_ ->]]]; try reflexivity; discriminate H]|].
  destruct (str_eqb u u_GB) eqn:E6; [apply str_eqb_eq in E6; subst; simpl; split; [intros H; inversion H; tauto|intros [[[H|H] _]|[[[H|H] _]|[_ ->]]]; try reflexivity; discriminate H]|].
  simpl. split; [discriminate|].
  intros [[[H|H] _]|[[[H|H] _]|[[H|H] _]]]; subst; simpl in *; discriminate.
Qed.

(** numeral  ip.fd  with unit al (multiplier m): the result is floor(ip.fd * m) ... *)
Theorem humanized_floor : forall ip fd al m,
  forallb is_digit_or_comma ip = true -> forallb is_digit fd = true -> forallb is_alpha al = true ->
  al <> [] -> (remove_commas ip <> [] \/ fd <> []) -> unit_mult (map to_upper al) = Some m ->
  parse_humanized (ip ++ c_dot :: fd ++ al)
  = Some ((digits_val (remove_commas ip) * 10 ^ zlen fd + digits_val fd) * m / 10 ^ zlen fd).
Proof.
  intros ip fd al m Hip Hfd Hal Hne Hdig Hu.
  pose proof (parse_humanized_coord ip true fd al Hip Hfd Hal ltac:(discriminate)) as P.
  simpl frac_part in P. simpl app in P. rewrite P. unfold coord_value.
  destruct al; [congruence|]. simpl is_nil. simpl negb. simpl orb.
  destruct (remove_commas ip) eqn:E; destruct fd eqn:F; simpl is_nil; simpl andb; cbv iota;
    try (now rewrite Hu). destruct Hdig; congruence.
Qed.

(** ... hence exactly the integer it denotes whenever that is an integer:
    n = (ip + fd / 10^|fd|) * m  stated without division *)
Theorem humanized_exact : forall ip fd al m n,
  forallb is_digit_or_comma ip = true -> forallb is_digit fd = true -> forallb is_alpha al = true ->
  al <> [] -> (remove_commas ip <> [] \/ fd <> []) -> unit_mult (map to_upper al) = Some m ->
  n * 10 ^ zlen fd = (digits_val (remove_commas ip) * 10 ^ zlen fd + digits_val fd) * m ->
  parse_humanized (ip ++ c_dot :: fd ++ al) = Some n.
Proof.
  intros ip fd al m n Hip Hfd Hal Hne Hdig Hu Hn.
  rewrite (humanized_floor ip fd al m) by assumption. rewrite <- Hn.
  rewrite Z.div_mul; [reflexivity|]. apply Z.pow_nonzero; unfold zlen; lia.
Qed.

(** without a fraction: ip al  ->  ip * m *)
Theorem humanized_unit_nodot : forall ip al m,
  forallb is_digit_or_comma ip = true -> forallb is_alpha al = true ->
  al <> [] -> remove_commas ip <> [] -> unit_mult (map to_upper al) = Some m ->
  parse_humanized (ip ++ al) = Some (digits_val (remove_commas ip) * m).
Proof.
  intros ip al m Hip Hal Hne Hdig Hu.
  pose proof (parse_humanized_coord ip false [] al Hip eq_refl Hal ltac:(reflexivity)) as P.
  simpl frac_part in P. simpl app in P. rewrite P. unfold coord_value.
  destruct al; [congruence|]. simpl is_nil.
  destruct (remove_commas ip) eqn:E; [congruence|]. simpl is_nil. simpl andb. cbv iota.
  rewrite Hu. f_equal. change (zlen (@nil ascii)) with 0. change (digits_val []) with 0.
  rewrite Z.pow_0_r, Z.div_1_r. lia.
Qed.

(** an unknown unit is refused *)
Theorem humanized_unknown_unit : forall ip hasdot fd al,
  forallb is_digit_or_comma ip = true -> forallb is_digit fd = true -> forallb is_alpha al = true ->
  (hasdot = false -> fd = []) -> al <> [] -> unit_mult (map to_upper al) = None ->
  parse_humanized (ip ++ frac_part hasdot fd ++ al) = None.
Proof.
  intros ip hasdot fd al Hip Hfd Hal Hnd Hne Hu.
  rewrite parse_humanized_coord by assumption. unfold coord_value.
  destruct al; [congruence|]. simpl is_nil. rewrite Hu.
  now destruct (is_nil (remove_commas ip) && (negb hasdot || is_nil fd)).
Qed.

(** results are never negative *)
Lemma fold_digits_nonneg : forall ds a0, 0 <= a0 -> forallb is_digit ds = true ->
  0 <= fold_left (fun a c => 10 * a + digit_val c) ds a0.
Proof.
  induction ds as [|c ds IH]; intros a0 Ha H; [assumption|].
  cbn [fold_left]. cbn [forallb] in H.
  apply andb_true_iff in H as [Hc H]. apply IH; [|assumption]. cls. lia.
Qed.

Lemma digits_val_nonneg : forall ds, forallb is_digit ds = true -> 0 <= digits_val ds.
Proof. intros ds H. unfold digits_val. apply fold_digits_nonneg; [lia|assumption]. Qed.

(** ------------------------------------------------------------ refusals of parse_region_string *)
Lemma parse_region_string_colon_gen : forall name rest,
  forallb notcolon name = true ->
  parse_region_string (name ++ c_colon :: rest) =
  if is_nil (strip name) then None
  else match expect (tokenize (take_while notcolon rest)) with
       | None => None
       | Some (a, ob) => Some (strip name, Some a, ob)
       end.
Proof.
  intros name rest Hc. unfold parse_region_string.
  rewrite split_colon_app by assumption.
  destruct (split_colon_hd rest) as [t ->]. reflexivity.
Qed.

(** empty (or blank-only) name *)
Theorem refuse_empty_name : forall w rest, forallb is_blank w = true ->
  parse_region_string (w ++ c_colon :: rest) = None /\ parse_region_string w = None.
Proof.
  intros w rest Hw. split.
  - rewrite parse_region_string_colon_gen by now apply blank_notcolon.
    now rewrite strip_blank.
  - unfold parse_region_string. rewrite split_colon_nocolon by now apply blank_notcolon.
    now rewrite strip_blank.
Qed.

Definition suffix (r s : str) : Prop := exists pre, s = pre ++ r.

Lemma suffix_refl : forall s, suffix s s. Proof. intros s. now exists []. Qed.
Lemma suffix_trans : forall a b c, suffix a b -> suffix b c -> suffix a c.
Proof. intros a b c [p ->] [q ->]. exists (q ++ p). now rewrite app_assoc. Qed.
Lemma suffix_cons : forall x r s, suffix r s -> suffix r (x :: s).
Proof. intros x r s [p ->]. now exists (x :: p). Qed.
Lemma drop_while_suffix : forall (p : ascii -> bool) l, suffix (drop_while p l) l.
Proof. intros p l. exists (take_while p l). now rewrite take_drop_while. Qed.

Lemma last_non_newline_suffix : forall s c rest, last_non_newline s = Some (c, rest) -> suffix rest s.
Proof.
  induction s as [|a s IH]; simpl; intros c rest H; [discriminate|].
  destruct (last_non_newline s) as [[c' r']|] eqn:E.
  - inversion H; subst. apply suffix_cons. eapply IH; eauto.
  - destruct (is_newline a); inversion H; subst. apply suffix_cons, suffix_refl.
Qed.

Lemma match_at_suffix : forall s t rest, match_at s = Some (t, rest) -> suffix rest s.
Proof.
  intros s t rest. unfold match_at.
  pose proof (drop_while_suffix is_blank s) as S0.
  destruct (drop_while is_blank s) as [|c r'] eqn:E.
  - destruct (last_non_newline s) as [[c rest']|] eqn:L; [|discriminate].
    intros H; inversion H; subst. eapply last_non_newline_suffix; eauto.
  - assert (S1 : suffix r' s) by (eapply suffix_trans; [apply suffix_cons, suffix_refl|exact S0]).
    destruct (is_hyphen c); [intros H; inversion H; subst; exact S1|].
    destruct (is_digit_or_comma c) eqn:Hdc.
    + intros H; inversion H; subst. clear H. simpl. rewrite Hdc.
      eapply suffix_trans; [|exact S1].
      eapply suffix_trans; [apply drop_while_suffix|].
      pose proof (drop_while_suffix is_digit_or_comma r') as S2.
      destruct (drop_while is_digit_or_comma r') as [|d r1']; [exact S2|].
      destruct (is_dot d); [|exact S2].
      eapply suffix_trans; [apply drop_while_suffix|].
      eapply suffix_trans; [apply suffix_cons, suffix_refl|exact S2].
    + intros H; inversion H; subst. clear H.
      destruct (negb (is_newline c)); [|exact S0].
      eapply suffix_trans; [apply drop_while_suffix|exact S1].
Qed.

Lemma match_at_hyphen_inv : forall s x rest,
  match_at s = Some ((HYPHEN, x), rest) -> existsb is_hyphen s = true.
Proof.
  intros s x rest. unfold match_at.
  pose proof (take_drop_while is_blank s) as TD.
  destruct (drop_while is_blank s) as [|c r'] eqn:E.
  - destruct (last_non_newline s) as [[c rest']|]; [|discriminate]. intros H; inversion H.
  - destruct (is_hyphen c) eqn:Hh.
    + intros _. rewrite <- TD, existsb_app. simpl. rewrite Hh. now rewrite orb_true_r.
    + destruct (is_digit_or_comma c); intros H; inversion H.
Qed.

Lemma existsb_suffix : forall (p : ascii -> bool) r s, suffix r s -> existsb p r = true -> existsb p s = true.
Proof. intros p r s [pre ->] H. rewrite existsb_app, H. apply orb_true_r. Qed.

(** the grammar cannot succeed on a text without a hyphen *)
Lemma expect_needs_hyphen : forall s, expect (tokenize s) <> None -> existsb is_hyphen s = true.
Proof.
  intros s. rewrite tokenize_eq.
  destruct (match_at s) as [[[ty1 x1] r1]|] eqn:E1; [|simpl; congruence].
  destruct ty1; simpl; try congruence.
  destruct (parse_humanized x1); [|congruence].
  rewrite tokenize_eq.
  destruct (match_at r1) as [[[ty2 x2] r2]|] eqn:E2; [|congruence].
  destruct ty2; try congruence. intros _.
  apply match_at_hyphen_inv in E2. apply match_at_suffix in E1.
  eapply existsb_suffix; eauto.
Qed.

Lemma forallb_negb_existsb : forall (p : ascii -> bool) l,
  forallb (fun c => negb (p c)) l = true -> existsb p l = false.
Proof.
  induction l as [|c l IH]; simpl; intros H; [reflexivity|].
  apply andb_true_iff in H as [Hc H]. rewrite IH by assumption. now destruct (p c).
Qed.

(** missing hyphen: the coordinate text (up to the next colon) has no '-' at all *)
Theorem refuse_missing_hyphen : forall name rest,
  forallb notcolon name = true ->
  forallb (fun c => negb (is_hyphen c)) (take_while notcolon rest) = true ->
  parse_region_string (name ++ c_colon :: rest) = None.
Proof.
  intros name rest Hn Hh. rewrite parse_region_string_colon_gen by assumption.
  destruct (is_nil (strip name)); [reflexivity|].
  destruct (expect (tokenize (take_while notcolon rest))) as [[a ob]|] eqn:E; [|reflexivity].
  exfalso. apply forallb_negb_existsb in Hh.
  rewrite expect_needs_hyphen in Hh; [discriminate|]. now rewrite E.
Qed.

Lemma match_at_nonnumeric : forall w x r,
  forallb is_blank w = true -> is_blank x = false -> is_digit_or_comma x = false ->
  exists ty tx rest, match_at (w ++ x :: r) = Some ((ty, tx), rest) /\ ty <> COORD.
Proof.
  intros w x r Hw Hb Hdc. unfold match_at.
  rewrite drop_while_app; [|assumption|exact Hb].
  destruct (is_hyphen x); [do 3 eexists; split; [reflexivity|discriminate]|].
  rewrite Hdc. do 3 eexists; split; [reflexivity|discriminate].
Qed.

(** the coordinate text starts (after blanks) with something that is not a digit or comma:
    a leading '-' (negative start), a letter, a dot, a sign ... *)
Theorem refuse_nonnumeric_start : forall name w x rest,
  forallb notcolon name = true -> forallb is_blank w = true ->
  is_blank x = false -> is_digit_or_comma x = false -> is_colon x = false ->
  parse_region_string (name ++ c_colon :: w ++ x :: rest) = None.
Proof.
  intros name w x rest Hn Hw Hb Hdc Hc. rewrite parse_region_string_colon_gen by assumption.
  destruct (is_nil (strip name)); [reflexivity|].
  rewrite take_while_app_keep by now apply blank_notcolon.
  simpl. unfold notcolon at 1. rewrite Hc. simpl.
  rewrite tokenize_eq.
  destruct (match_at_nonnumeric w x (take_while notcolon rest) Hw Hb Hdc) as (ty & tx & r & -> & Hty).
  destruct ty; try congruence; reflexivity.
Qed.

Corollary refuse_leading_hyphen : forall name w rest,
  forallb notcolon name = true -> forallb is_blank w = true ->
  parse_region_string (name ++ c_colon :: w ++ c_hyphen :: rest) = None.
Proof. intros. now apply refuse_nonnumeric_start. Qed.

(** no coordinates at all after the colon *)
Theorem refuse_no_coordinates : forall name w tail,
  forallb notcolon name = true -> forallb is_blank w = true -> colon_tail tail ->
  parse_region_string (name ++ c_colon :: w ++ tail) = None.
Proof.
  intros name w tail Hn Hw Ht. rewrite parse_region_string_colon_gen by assumption.
  destruct (is_nil (strip name)); [reflexivity|].
  rewrite take_while_app_keep by now apply blank_notcolon.
  rewrite take_notcolon_tail, app_nil_r by assumption.
  rewrite tokenize_eq. unfold match_at. rewrite drop_while_all by assumption.
  destruct (last_non_newline w) as [[c r]|]; reflexivity.
Qed.

(** the end coordinate starts with something that is not a digit or comma ("5--3", "5-x") *)
Theorem refuse_nonnumeric_end : forall name w1 t1 w2 w3 x rest,
  forallb notcolon name = true ->
  forallb is_blank w1 = true -> forallb is_blank w2 = true -> forallb is_blank w3 = true ->
  ctok_ok_b t1 = true -> is_blank x = false -> is_digit_or_comma x = false -> is_colon x = false ->
  parse_region_string (name ++ c_colon :: w1 ++ ctok_str t1 ++ w2 ++ c_hyphen :: w3 ++ x :: rest) = None.
Proof.
  intros name w1 t1 w2 w3 x rest Hn Hw1 Hw2 Hw3 Ht1 Hb Hdc Hc.
  rewrite parse_region_string_colon_gen by assumption.
  destruct (is_nil (strip name)); [reflexivity|].
  assert (E : take_while notcolon (w1 ++ ctok_str t1 ++ w2 ++ c_hyphen :: w3 ++ x :: rest)
              = w1 ++ ctok_str t1 ++ w2 ++ c_hyphen :: w3 ++ x :: take_while notcolon rest).
  { rewrite take_while_app_keep by now apply blank_notcolon. f_equal.
    rewrite take_while_app_keep by now apply ctok_notcolon. f_equal.
    rewrite take_while_app_keep by now apply blank_notcolon. f_equal.
    simpl. f_equal.
    rewrite take_while_app_keep by now apply blank_notcolon. f_equal.
    simpl. unfold notcolon at 1. now rewrite Hc. }
  rewrite E.
  rewrite tokenize_eq, match_at_ctok; try assumption.
  2:{ apply tok_end_blank; [assumption|apply tok_end_hyphen]. }
  rewrite tokenize_eq, match_at_hyphen by assumption.
  rewrite tokenize_eq.
  destruct (match_at_nonnumeric w3 x (take_while notcolon rest) Hw3 Hb Hdc) as (ty & tx & r & -> & Hty).
  unfold expect. destruct (parse_humanized (ctok_str t1)); [|reflexivity].
  destruct ty; try congruence; reflexivity.
Qed.

(** reversed coordinates *)
Theorem refuse_reversed : forall name w1 t1 w2 w3 t2 junk a b,
  name_ok_b name = true ->
  forallb is_blank w1 = true -> forallb is_blank w2 = true -> forallb is_blank w3 = true ->
  ctok_ok_b t1 = true -> ctok_ok_b t2 = true -> tok_end junk ->
  ctok_val t1 = Some a -> ctok_val t2 = Some b -> b < a ->
  parse_region_string (name ++ c_colon :: w1 ++ ctok_str t1 ++ w2 ++ c_hyphen :: w3 ++ ctok_str t2 ++ junk) = None.
Proof.
  intros. rewrite region_grammar_closed by assumption.
  unfold region_result. rewrite H6, H7. destruct (b <? a) eqn:L; [reflexivity|lia].
Qed.

Lemma ctok_val_unknown_unit : forall t,
  t_al t <> [] -> unit_mult (map to_upper (t_al t)) = None -> ctok_val t = None.
Proof.
  intros [ip d fd al] Hne Hu. unfold ctok_val, coord_value. simpl in *.
  destruct al; [congruence|]. simpl is_nil. rewrite Hu.
  now destruct (is_nil (remove_commas ip) && (negb d || is_nil fd)).
Qed.

(** unknown unit in either coordinate *)
Theorem refuse_unknown_unit_region : forall name w1 t1 w2 w3 t2 junk,
  name_ok_b name = true ->
  forallb is_blank w1 = true -> forallb is_blank w2 = true -> forallb is_blank w3 = true ->
  ctok_ok_b t1 = true -> ctok_ok_b t2 = true -> tok_end junk ->
  (t_al t1 <> [] /\ unit_mult (map to_upper (t_al t1)) = None) \/
  (t_al t2 <> [] /\ unit_mult (map to_upper (t_al t2)) = None) ->
  parse_region_string (name ++ c_colon :: w1 ++ ctok_str t1 ++ w2 ++ c_hyphen :: w3 ++ ctok_str t2 ++ junk) = None.
Proof.
  intros name w1 t1 w2 w3 t2 junk Hn Hw1 Hw2 Hw3 Ht1 Ht2 Hj [[A B]|[A B]];
    rewrite region_grammar_closed by assumption; unfold region_result.
  - now rewrite ctok_val_unknown_unit.
  - rewrite (ctok_val_unknown_unit t2) by assumption. now destruct (ctok_val t1).
Qed.

(** whatever is accepted has ordered, non-negative coordinates *)
Lemma coord_value_nonneg : forall ipd hasdot fd al v,
  forallb is_digit ipd = true -> forallb is_digit fd = true ->
  coord_value ipd hasdot fd al = Some v -> 0 <= v.
Proof.
  intros ipd hasdot fd al v Hi Hf. unfold coord_value.
  pose proof (digits_val_nonneg _ Hi). pose proof (digits_val_nonneg _ Hf).
  destruct (is_nil al).
  - destruct hasdot; [discriminate|]. destruct (is_nil ipd); [discriminate|]. intros E; inversion E; lia.
  - destruct (is_nil ipd && (negb hasdot || is_nil fd)); [discriminate|].
    destruct (unit_mult (map to_upper al)) as [m|] eqn:U; [|discriminate].
    intros E; inversion E; subst. clear E.
    assert (0 < m) by (apply unit_mult_spec in U; lia).
    assert (0 < 10 ^ zlen fd) by (apply Z.pow_pos_nonneg; unfold zlen; lia).
    apply Z.div_pos; [|assumption]. nia.
Qed.

Lemma ctok_val_nonneg : forall t v, ctok_ok_b t = true -> ctok_val t = Some v -> 0 <= v.
Proof.
  intros t v Ht Hv. apply ctok_ok_spec in Ht as (_ & H2 & H3 & _ & _).
  eapply coord_value_nonneg; [| |exact Hv]; [now apply remove_commas_digits|assumption].
Qed.

(** ------------------------------------------------------------ parse_region *)
Theorem check_region_sound : forall c oa ob cs c' a b,
  check_region (c, oa, ob) cs = Some (c', a, b) ->
  c' = c /\ 0 <= a <= b /\
  (oa = Some a \/ oa = None /\ a = 0) /\
  match cs with
  | None => ob = Some b
  | Some t => exists L, lookup c t = Some L /\ b <= L /\ (ob = Some b \/ ob = None /\ b = L)
  end.
Proof.
  intros c oa ob cs c' a b. unfold check_region.
  destruct cs as [t|].
  - destruct (lookup c t) as [L|]; [|discriminate].
    destruct oa as [a0|]; destruct ob as [b0|]; simpl;
      repeat match goal with |- context [if ?x then _ else _] => destruct x eqn:? end;
      intros H; inversion H; subst;
      (split; [reflexivity|]); (split; [lia|]); (split; [tauto|]); eexists; (split; [reflexivity|]); (split; [lia|]); tauto.
  - destruct oa as [a0|]; destruct ob as [b0|]; simpl;
      repeat match goal with |- context [if ?x then _ else _] => destruct x eqn:? end;
      intros H; inversion H; subst;
      (split; [reflexivity|]); (split; [lia|]); (split; tauto).
Qed.

Theorem parse_region_sound : forall s cs c a b,
  parse_region s cs = Some (c, a, b) ->
  0 <= a <= b /\
  (exists oa ob, parse_region_string s = Some (c, oa, ob) /\ (oa = Some a \/ oa = None /\ a = 0) /\
                 match cs with
                 | None => ob = Some b
                 | Some t => exists L, lookup c t = Some L /\ b <= L /\ (ob = Some b \/ ob = None /\ b = L)
                 end).
Proof.
  intros s cs c a b. unfold parse_region.
  destruct (parse_region_string s) as [[[c0 oa] ob]|]; [|discriminate].
  intros H. apply check_region_sound in H as (-> & H1 & H2 & H3).
  split; [assumption|]. exists oa, ob. auto.
Qed.

(** unknown chromosome *)
Theorem parse_region_unknown_name : forall s t c oa ob,
  parse_region_string s = Some (c, oa, ob) -> lookup c t = None -> parse_region s (Some t) = None.
Proof. intros s t c oa ob H L. unfold parse_region, check_region. now rewrite H, L. Qed.

(** end beyond the chromosome *)
Theorem parse_region_beyond_end : forall s t c oa b L,
  parse_region_string s = Some (c, oa, Some b) -> lookup c t = Some L -> L < b -> parse_region s (Some t) = None.
Proof.
  intros s t c oa b L H Hl Hb. unfold parse_region, check_region. rewrite H, Hl.
  destruct (b <? match oa with Some a => a | None => 0 end); [reflexivity|].
  assert ((L <? b) = true) as -> by lia. now rewrite orb_true_r.
Qed.

(** acceptance: exactly the in-bounds regions, with the documented defaults *)
Theorem parse_region_complete : forall s t c oa ob L,
  parse_region_string s = Some (c, oa, ob) -> lookup c t = Some L ->
  let a := match oa with Some a => a | None => 0 end in
  let b := match ob with Some b => b | None => L end in
  0 <= a <= b -> b <= L ->
  parse_region s (Some t) = Some (c, a, b).
Proof.
  intros s t c oa ob L H Hl a b Hab HbL. unfold parse_region, check_region. rewrite H, Hl.
  fold a. destruct ob as [b0|]; simpl in b; fold b.
  - assert ((b <? a) = false) as -> by lia. assert ((a <? 0) = false) as -> by lia.
    assert ((L <? b) = false) as -> by lia. reflexivity.
  - subst b. assert ((L <? a) = false) as -> by lia. assert ((a <? 0) = false) as -> by lia.
    assert ((L <? L) = false) as -> by lia. reflexivity.
Qed.

Theorem parse_region_no_chromsizes_open_end : forall s c oa,
  parse_region_string s = Some (c, oa, None) -> parse_region s None = None.
Proof. intros s c oa H. unfold parse_region, check_region. now rewrite H. Qed.

(** ------------------------------------------------------------ parse_cooler_uri *)
(** no two adjacent colons anywhere *)
Fixpoint no_dcolon (s : str) : bool :=
  match s with
  | c :: r => match r with
              | c2 :: _ => negb (is_colon c && is_colon c2) && no_dcolon r
              | [] => true
              end
  | [] => true
  end.

(** the last character, if any, is not a colon *)
Fixpoint last_notcolon (s : str) : bool :=
  match s with
  | [] => true
  | c :: r => match r with [] => negb (is_colon c) | _ :: _ => last_notcolon r end
  end.

Lemma split_dcolon_cons2 : forall c c2 r2,
  split_dcolon (c :: c2 :: r2) =
  if is_colon c && is_colon c2 then [] :: split_dcolon r2
  else match split_dcolon (c2 :: r2) with h :: t => (c :: h) :: t | [] => [[c]] end.
Proof. reflexivity. Qed.

Lemma split_dcolon_nonempty : forall s, split_dcolon s <> [].
Proof.
  intros [|c [|c2 r2]]; try discriminate. rewrite split_dcolon_cons2.
  destruct (is_colon c && is_colon c2); [discriminate|].
  destruct (split_dcolon (c2 :: r2)); discriminate.
Qed.

Lemma split_dcolon_none : forall s, no_dcolon s = true -> split_dcolon s = [s].
Proof.
  induction s as [|c s IH]; intros H; [reflexivity|].
  destruct s as [|c2 r2]; [reflexivity|].
  cbn [no_dcolon] in H. apply andb_true_iff in H as [H1 H2].
  cbn [split_dcolon]. destruct (is_colon c && is_colon c2); [discriminate|].
  cbn [split_dcolon] in IH. now rewrite IH.
Qed.

Lemma split_dcolon_app : forall f g,
  no_dcolon f = true -> last_notcolon f = true ->
  split_dcolon (f ++ c_colon :: c_colon :: g) = f :: split_dcolon g.
Proof.
  induction f as [|c f IH]; intros g Hd Hl.
  - reflexivity.
  - destruct f as [|c2 f2].
    + cbn [last_notcolon] in Hl. cbn [app]. rewrite split_dcolon_cons2.
      assert (is_colon c && is_colon c_colon = false) as -> by (now destruct (is_colon c)).
      rewrite split_dcolon_cons2. reflexivity.
    + cbn [no_dcolon] in Hd. apply andb_true_iff in Hd as [H1 H2].
      cbn [last_notcolon] in Hl.
      change ((c :: c2 :: f2) ++ c_colon :: c_colon :: g) with (c :: c2 :: (f2 ++ c_colon :: c_colon :: g)).
      rewrite split_dcolon_cons2. destruct (is_colon c && is_colon c2); [discriminate|].
      specialize (IH g H2 Hl). cbn [app] in IH. now rewrite IH.
Qed.

Definition norm_group (g : str) : str :=
  match g with
  | c :: _ => if is_slash c then g else c_slash :: g
  | [] => [c_slash]
  end.

(** no separator: the whole string is the file, the group is "/" *)
Theorem uri_plain : forall f, no_dcolon f = true -> parse_cooler_uri f = Some (f, [c_slash]).
Proof. intros f H. unfold parse_cooler_uri. now rewrite split_dcolon_none. Qed.

(** one separator: split there; the group gets a leading slash unless it has one *)
Theorem uri_split : forall f g,
  no_dcolon f = true -> last_notcolon f = true -> no_dcolon g = true ->
  parse_cooler_uri (f ++ c_colon :: c_colon :: g) = Some (f, norm_group g).
Proof.
  intros f g Hf Hl Hg. unfold parse_cooler_uri.
  rewrite split_dcolon_app, split_dcolon_none by assumption.
  unfold norm_group. destruct g; reflexivity.
Qed.

(** the leading slash may be written or not: f::g and f::/g give the same pair (f, /g) *)
Theorem uri_slash_invariant : forall f g,
  no_dcolon f = true -> last_notcolon f = true -> no_dcolon g = true ->
  match g with c :: _ => is_slash c = false | [] => True end ->
  parse_cooler_uri (f ++ c_colon :: c_colon :: g) = Some (f, c_slash :: g) /\
  parse_cooler_uri (f ++ c_colon :: c_colon :: c_slash :: g) = Some (f, c_slash :: g).
Proof.
  intros f g Hf Hl Hg Hs. split.
  - rewrite uri_split by assumption. unfold norm_group. destruct g; [reflexivity|now rewrite Hs].
  - rewrite uri_split; try assumption; [reflexivity|].
    destruct g as [|x g']; [reflexivity|]. exact Hg.
Qed.

(** two separators are refused *)
Theorem uri_two_separators : forall a b c,
  no_dcolon a = true -> last_notcolon a = true -> no_dcolon b = true -> last_notcolon b = true ->
  parse_cooler_uri (a ++ c_colon :: c_colon :: b ++ c_colon :: c_colon :: c) = None.
Proof.
  intros a b c Ha La Hb Lb. unfold parse_cooler_uri.
  rewrite split_dcolon_app by assumption. rewrite split_dcolon_app by assumption.
  pose proof (split_dcolon_nonempty c). destruct (split_dcolon c); [congruence|reflexivity].
Qed.

(** the result never depends on more than the number of parts *)
Theorem uri_result_shape : forall s f g, parse_cooler_uri s = Some (f, g) ->
  exists c g', g = c :: g' /\ is_slash c = true.
Proof.
  intros s f g. unfold parse_cooler_uri.
  destruct (split_dcolon s) as [|p0 [|p1 [|p2 r]]]; try discriminate; intros H; inversion H; subst.
  - exists c_slash, []. split; reflexivity.
  - destruct p1 as [|x p1'].
    + exists c_slash, []. split; reflexivity.
    + destruct (is_slash x) eqn:E; [exists x, p1'; auto|exists c_slash, (x :: p1'); split; reflexivity].
Qed.

(** ------------------------------------------------------------ whatever is accepted is well-formed (all strings) *)
Lemma take_while_forallb : forall {A} (p : A -> bool) l, forallb p (take_while p l) = true.
Proof. induction l as [|x l IH]; simpl; [reflexivity|]. destruct (p x) eqn:E; simpl; [now rewrite E|reflexivity]. Qed.

Lemma forallb_drop_while : forall {A} (p q : A -> bool) l, forallb q l = true -> forallb q (drop_while p l) = true.
Proof.
  induction l as [|x l IH]; simpl; intros H; [reflexivity|].
  apply andb_true_iff in H as [Hx H]. destruct (p x); [auto|]. simpl. now rewrite Hx, H.
Qed.

Lemma forallb_rev : forall {A} (q : A -> bool) l, forallb q l = true -> forallb q (rev l) = true.
Proof. intros A q l. rewrite !forallb_forall. intros H x Hx. apply H. now apply in_rev. Qed.

Lemma parse_fraction_nonneg : forall value num k, parse_fraction value = Some (num, k) -> 0 <= num /\ 0 <= k.
Proof.
  intros value num k. unfold parse_fraction.
  pose proof (digits_val_nonneg _ (take_while_forallb is_digit value)) as H1.
  destruct (drop_while is_digit value) as [|d r].
  - destruct (is_nil (take_while is_digit value)); [discriminate|]. intros E; inversion E; lia.
  - destruct (is_dot d); [|discriminate].
    pose proof (digits_val_nonneg _ (take_while_forallb is_digit r)) as H2.
    destruct (drop_while is_digit r); [|discriminate].
    destruct (is_nil (take_while is_digit value) && is_nil (take_while is_digit r)); [discriminate|].
    intros E; inversion E; subst. unfold zlen.
    assert (0 < 10 ^ Z.of_nat (length (take_while is_digit r))) by (apply Z.pow_pos_nonneg; lia).
    split; [nia|lia].
Qed.

(** parse_humanized never returns a negative number, on any text *)
Theorem parse_humanized_nonneg : forall s v, parse_humanized s = Some v -> 0 <= v.
Proof.
  intros s v. unfold parse_humanized.
  set (r := drop_while (fun c => negb (is_numch c)) (remove_commas s)).
  destruct (is_nil (take_while is_numch r)); [discriminate|].
  destruct (existsb is_numch (drop_while is_numch r)); [discriminate|].
  destruct (is_nil (drop_while is_numch r)).
  - unfold parse_int. destruct (is_nil (take_while is_numch r)); [discriminate|].
    destruct (forallb is_digit (take_while is_numch r)) eqn:E; [|discriminate].
    intros H; inversion H; subst. now apply digits_val_nonneg.
  - destruct (parse_fraction (take_while is_numch r)) as [[num k]|] eqn:F; [|discriminate].
    destruct (unit_mult (strip (map to_upper (drop_while is_numch r)))) as [m|] eqn:U; [|discriminate].
    intros H; inversion H; subst. apply parse_fraction_nonneg in F as [F1 F2].
    assert (0 < m) by (apply unit_mult_spec in U; lia).
    assert (0 < 10 ^ k) by (apply Z.pow_pos_nonneg; lia).
    apply Z.div_pos; [nia|assumption].
Qed.

Lemma expect_sound : forall toks a ob, expect toks = Some (a, ob) ->
  0 <= a /\ forall b, ob = Some b -> a <= b.
Proof.
  intros toks a ob. unfold expect.
  destruct toks as [|[ty1 t1] rest1]; [discriminate|].
  destruct ty1; try discriminate.
  destruct (parse_humanized t1) as [a0|] eqn:P1; [|discriminate].
  apply parse_humanized_nonneg in P1.
  destruct rest1 as [|[ty2 t2] rest2]; [discriminate|].
  destruct ty2; try discriminate.
  destruct rest2 as [|[ty3 t3] rest3].
  - intros H; inversion H; subst. split; [assumption|discriminate].
  - destruct ty3; try discriminate.
    destruct (parse_humanized t3) as [b0|]; [|discriminate].
    destruct (b0 <? a0) eqn:L; [discriminate|].
    intros H; inversion H; subst. split; [assumption|]. intros b Hb. inversion Hb; subst. lia.
Qed.

Lemma drop_while_snoc_stop : forall (p : ascii -> bool) a h, p h = false ->
  drop_while p (a ++ [h]) = drop_while p a ++ [h].
Proof.
  induction a as [|x a IH]; simpl; intros h H; [now rewrite H|].
  destruct (p x); [now apply IH|reflexivity].
Qed.

Lemma strip_ends : forall s, stops is_blank (strip s) /\ stops is_blank (rev (strip s)).
Proof.
  intros s. unfold strip, rstrip, lstrip. rewrite rev_involutive.
  split.
  - destruct (drop_while is_blank s) as [|h l] eqn:E; [exact I|].
    pose proof (drop_while_head _ _ _ _ E) as Hh.
    change (rev (h :: l)) with (rev l ++ [h]).
    rewrite drop_while_snoc_stop by assumption. rewrite rev_app_distr. exact Hh.
  - destruct (drop_while is_blank (rev (drop_while is_blank s))) as [|h l] eqn:E; [exact I|].
    exact (drop_while_head _ _ _ _ E).
Qed.

Lemma strip_forallb : forall (q : ascii -> bool) s, forallb q s = true -> forallb q (strip s) = true.
Proof.
  intros q s H. unfold strip, rstrip, lstrip.
  apply forallb_rev, forallb_drop_while, forallb_rev, forallb_drop_while, H.
Qed.

(** EVERY string that parse_region_string accepts yields a non-empty colon-free name without blanks
    at its ends, and either no coordinates or 0 <= start (<= end) *)
Theorem parse_region_string_sound : forall s c oa ob,
  parse_region_string s = Some (c, oa, ob) ->
  c <> [] /\ forallb notcolon c = true /\ stops is_blank c /\ stops is_blank (rev c) /\
  ((oa = None /\ ob = None) \/
   exists a, oa = Some a /\ 0 <= a /\ forall b, ob = Some b -> a <= b).
Proof.
  intros s c oa ob. unfold parse_region_string.
  destruct (split_colon_hd s) as [t ->].
  destruct (is_nil (strip (take_while notcolon s))) eqn:N; [discriminate|].
  pose proof (strip_ends (take_while notcolon s)) as [E1 E2].
  pose proof (strip_forallb notcolon _ (take_while_forallb notcolon s)) as E3.
  destruct t as [|p1 t'].
  - intros H; inversion H; subst. repeat split; try assumption; [|now left].
    intros X. now rewrite X in N.
  - destruct (expect (tokenize p1)) as [[a ob']|] eqn:X; [|discriminate].
    intros H; inversion H; subst. apply expect_sound in X as [X1 X2].
    repeat split; try assumption; [intros Y; now rewrite Y in N|].
    right. exists a. auto.
Qed.


(** two "::" are refused wherever they are: for ALL a, b, c (no side condition) *)
Lemma split_dcolon_length_cons : forall n s c, (length s <= n)%nat ->
  (length (split_dcolon s) <= length (split_dcolon (c :: s)))%nat.
Proof.
  induction n as [|n IH]; intros s c Hl.
  - destruct s; [simpl; lia|simpl in Hl; lia].
  - destruct s as [|c1 s1]; [simpl; lia|].
    rewrite (split_dcolon_cons2 c c1 s1).
    destruct (is_colon c && is_colon c1) eqn:E.
    + destruct s1 as [|c2 s2]; [simpl; lia|].
      rewrite (split_dcolon_cons2 c1 c2 s2).
      destruct (is_colon c1 && is_colon c2) eqn:E2.
      * pose proof (IH s2 c2 ltac:(simpl in Hl; lia)). cbn [length]. lia.
      * destruct (split_dcolon (c2 :: s2)) eqn:S; cbn [length]; lia.
    + destruct (split_dcolon (c1 :: s1)) eqn:S; cbn [length]; lia.
Qed.

Lemma split_dcolon_length_sep : forall n a r, (length a <= n)%nat ->
  (S (length (split_dcolon r)) <= length (split_dcolon (a ++ c_colon :: c_colon :: r)))%nat.
Proof.
  induction n as [|n IH]; intros a r Hl.
  - destruct a; [|simpl in Hl; lia]. simpl app. rewrite split_dcolon_cons2. simpl. lia.
  - destruct a as [|c a']; [simpl app; rewrite split_dcolon_cons2; simpl; lia|].
    destruct a' as [|c1 a''].
    + simpl app. rewrite (split_dcolon_cons2 c).
      destruct (is_colon c && is_colon c_colon).
      * pose proof (split_dcolon_length_cons _ r c_colon (le_n _)). cbn [length]. lia.
      * pose proof (IH [] r ltac:(simpl; lia)) as H. simpl app in H.
        destruct (split_dcolon (c_colon :: c_colon :: r)); cbn [length] in *; lia.
    + change ((c :: c1 :: a'') ++ c_colon :: c_colon :: r) with (c :: c1 :: (a'' ++ c_colon :: c_colon :: r)).
      rewrite (split_dcolon_cons2 c c1).
      destruct (is_colon c && is_colon c1).
      * pose proof (IH a'' r ltac:(simpl in Hl; lia)). cbn [length]. lia.
      * pose proof (IH (c1 :: a'') r ltac:(simpl in Hl; simpl; lia)) as H.
        change ((c1 :: a'') ++ c_colon :: c_colon :: r) with (c1 :: a'' ++ c_colon :: c_colon :: r) in H.
        destruct (split_dcolon (c1 :: a'' ++ c_colon :: c_colon :: r)); cbn [length] in *; lia.
Qed.

Theorem uri_two_separators_any : forall a b c,
  parse_cooler_uri (a ++ c_colon :: c_colon :: b ++ c_colon :: c_colon :: c) = None.
Proof.
  intros a b c. unfold parse_cooler_uri.
  pose proof (split_dcolon_length_sep _ a (b ++ c_colon :: c_colon :: c) (le_n _)) as H1.
  pose proof (split_dcolon_length_sep _ b c (le_n _)) as H2.
  pose proof (split_dcolon_nonempty c) as H3.
  destruct (split_dcolon c); [congruence|]. cbn [length] in H2.
  destruct (split_dcolon (a ++ c_colon :: c_colon :: b ++ c_colon :: c_colon :: c)) as [|p0 [|p1 [|p2 r]]];
    cbn [length] in *; try lia. reflexivity.
Qed.

(** ------------------------------------------------------------ parse_region on formatted regions *)
Theorem parse_region_format_roundtrip : forall name s e t L,
  name_ok_b name = true -> lookup name t = Some L -> 0 <= s <= e -> e <= L ->
  parse_region (fmt_region name s e) (Some t) = Some (name, s, e).
Proof.
  intros name s e t L Hn Hl Hse HeL.
  apply (parse_region_complete _ t name (Some s) (Some e) L); try assumption.
  now apply parse_format_roundtrip.
Qed.

Theorem parse_region_format_beyond : forall name s e t L,
  name_ok_b name = true -> lookup name t = Some L -> 0 <= s <= e -> L < e ->
  parse_region (fmt_region name s e) (Some t) = None.
Proof.
  intros name s e t L Hn Hl Hse HeL.
  apply (parse_region_beyond_end _ t name (Some s) e L); try assumption.
  now apply parse_format_roundtrip.
Qed.

Theorem parse_region_format_unknown : forall name s e t,
  name_ok_b name = true -> lookup name t = None -> 0 <= s <= e ->
  parse_region (fmt_region name s e) (Some t) = None.
Proof.
  intros name s e t Hn Hl Hse.
  apply (parse_region_unknown_name _ t name (Some s) (Some e)); try assumption.
  now apply parse_format_roundtrip.
Qed.

(** bare name -> whole chromosome; open end -> up to the chromosome length *)
Theorem parse_region_defaults : forall name t L s,
  name_ok_b name = true -> lookup name t = Some L -> 0 <= s <= L ->
  parse_region name (Some t) = Some (name, 0, L) /\
  parse_region (name ++ c_colon :: dec s ++ [c_hyphen]) (Some t) = Some (name, s, L).
Proof.
  intros name t L s Hn Hl Hs. split.
  - apply (parse_region_complete _ t name None None L); try assumption; try lia.
    now apply parse_region_string_bare.
  - apply (parse_region_complete _ t name (Some s) None L); try assumption; try lia.
    apply parse_format_roundtrip_open; [assumption|lia].
Qed.

(** ------------------------------------------------------------ the accepted language, exactly *)
(** maximal munch: the character after a COORD token cannot extend it *)
Definition munch_end (t : ctok) (r : str) : Prop :=
  match r with
  | [] => True
  | x :: _ => is_alpha x = false /\
              (t_al t = [] -> if t_dot t then is_digit x = false
                              else is_digit x = false /\ is_comma x = false /\ is_dot x = false)
  end.

Lemma tok_end_munch : forall t r, tok_end r -> munch_end t r.
Proof. intros t [|x r] H; simpl in *; [exact I|]. destruct H as (A & B & C & D). split; [assumption|]. intros _. destruct (t_dot t); auto. Qed.

Lemma stops_drop_while : forall {A} (p : A -> bool) l, stops p (drop_while p l).
Proof.
  intros A p l. destruct (drop_while p l) as [|x r] eqn:E; simpl; [exact I|].
  exact (drop_while_head _ _ _ _ E).
Qed.

Lemma match_at_coord_gen : forall ws ip hasdot fd al r,
  forallb is_blank ws = true -> ip <> [] -> forallb is_digit_or_comma ip = true ->
  forallb is_digit fd = true -> forallb is_alpha al = true ->
  stops is_digit_or_comma (frac_part hasdot fd ++ al ++ r) ->
  (hasdot = true -> stops is_digit (al ++ r)) ->
  (hasdot = false -> stops is_dot (al ++ r)) ->
  stops is_alpha r ->
  match_at (ws ++ ip ++ frac_part hasdot fd ++ al ++ r) = Some ((COORD, ip ++ frac_part hasdot fd ++ al), r).
Proof.
  intros ws ip hasdot fd al r Hws Hne Hip Hfd Hal H1 H2 H3 H4.
  destruct ip as [|c ip']; [congruence|]. clear Hne.
  simpl in Hip. apply andb_true_iff in Hip as [Hc Hip].
  unfold match_at.
  rewrite drop_while_app; [|assumption|simpl; cls; lia].
  change ((c :: ip') ++ frac_part hasdot fd ++ al ++ r) with (c :: (ip' ++ frac_part hasdot fd ++ al ++ r)).
  cbv iota beta.
  assert (is_hyphen c = false) as -> by (cls; lia). rewrite Hc.
  simpl take_while. simpl drop_while. rewrite Hc.
  rewrite take_while_app by assumption. rewrite drop_while_app by assumption.
  destruct hasdot; simpl frac_part.
  - specialize (H2 eq_refl). simpl.
    rewrite (take_while_app is_digit fd), (drop_while_app is_digit fd) by assumption.
    rewrite take_while_app, drop_while_app by assumption.
    reflexivity.
  - specialize (H3 eq_refl). simpl app.
    destruct (al ++ r) as [|d q] eqn:Eq.
    + destruct al; [|discriminate]. simpl in Eq. subst r. reflexivity.
    + simpl in H3. rewrite H3. rewrite <- Eq.
      rewrite take_while_app, drop_while_app by assumption. reflexivity.
Qed.

Lemma match_at_ctok_munch : forall ws t r,
  forallb is_blank ws = true -> ctok_ok_b t = true -> munch_end t r ->
  match_at (ws ++ ctok_str t ++ r) = Some ((COORD, ctok_str t), r).
Proof.
  intros ws [ip hasdot fd al] r Hws Ht Hr.
  apply ctok_ok_spec in Ht as (Hne & Hip & Hfd & Hal & Hnd). simpl in *.
  unfold ctok_str. simpl. rewrite <- !app_assoc.
  apply match_at_coord_gen; try assumption.
  - destruct hasdot; simpl; [reflexivity|].
    destruct al as [|x al']; simpl.
    + destruct r as [|y r']; simpl in *; [exact I|]. destruct Hr as [_ Hd]. specialize (Hd eq_refl).
      simpl in Hd. cls. lia.
    + simpl in Hal. apply andb_true_iff in Hal as [Hx _]. cls. lia.
  - intros ->. destruct al as [|x al']; simpl.
    + destruct r as [|y r']; simpl in *; [exact I|]. destruct Hr as [_ Hd]. now specialize (Hd eq_refl).
    + simpl in Hal. apply andb_true_iff in Hal as [Hx _]. cls. lia.
  - intros ->. destruct al as [|x al']; simpl.
    + destruct r as [|y r']; simpl in *; [exact I|]. destruct Hr as [_ Hd]. specialize (Hd eq_refl).
      simpl in Hd. tauto.
    + simpl in Hal. apply andb_true_iff in Hal as [Hx _]. cls. lia.
  - destruct r as [|y r']; simpl in *; [exact I|]. tauto.
Qed.

Lemma is_hyphen_eq : forall c, is_hyphen c = true -> c = c_hyphen.
Proof. intros c H. apply code_inj. rewrite c_hyphen_code. cls. lia. Qed.
Lemma is_dot_eq : forall c, is_dot c = true -> c = c_dot.
Proof. intros c H. apply code_inj. rewrite c_dot_code. cls. lia. Qed.
Lemma is_colon_eq : forall c, is_colon c = true -> c = c_colon.
Proof. intros c H. apply code_inj. rewrite c_colon_code. cls. lia. Qed.

(** what a match tells about the text it was found in *)
Lemma match_at_inv : forall s ty x rest, match_at s = Some ((ty, x), rest) ->
  match ty with
  | HYPHEN => exists ws, forallb is_blank ws = true /\ x = [c_hyphen] /\ s = ws ++ c_hyphen :: rest
  | COORD => exists ws t, forallb is_blank ws = true /\ ctok_ok_b t = true /\ x = ctok_str t /\
                          s = ws ++ ctok_str t ++ rest /\ munch_end t rest
  | OTHER => True
  end.
Proof.
  intros s ty x rest. unfold match_at.
  pose proof (take_drop_while is_blank s) as TD.
  pose proof (take_while_forallb is_blank s) as TB.
  destruct (drop_while is_blank s) as [|c r'] eqn:E.
  - destruct (last_non_newline s) as [[c0 r0]|]; [|discriminate]. intros H; inversion H; subst. exact I.
  - destruct (is_hyphen c) eqn:Hh.
    + intros H; inversion H; subst. apply is_hyphen_eq in Hh. subst c.
      exists (take_while is_blank s). auto.
    + destruct (is_digit_or_comma c) eqn:Hdc; [|intros H; inversion H; subst; exact I].
      cbv zeta.
      pose proof (take_drop_while is_digit_or_comma (c :: r')) as TD1.
      pose proof (take_while_forallb is_digit_or_comma (c :: r')) as TB1.
      assert (Hne : take_while is_digit_or_comma (c :: r') <> []) by (simpl; rewrite Hdc; discriminate).
      pose proof (stops_drop_while is_digit_or_comma (c :: r')) as ST1.
      set (ip := take_while is_digit_or_comma (c :: r')) in *.
      destruct (drop_while is_digit_or_comma (c :: r')) as [|d r1'] eqn:E1.
      * (* nothing follows the integer part *)
        intros H. injection H as H1 H2 H3. subst ty x rest.
        exists (take_while is_blank s), (mk_ctok ip false [] []).
        unfold ctok_str, ctok_ok_b. simpl. rewrite !app_nil_r in *. rewrite TB1.
        repeat split; try assumption.
        -- destruct ip; [congruence|reflexivity].
        -- now rewrite TD1.
      * destruct (is_dot d) eqn:Hd.
        -- apply is_dot_eq in Hd. subst d.
           pose proof (take_drop_while is_digit r1') as TD2.
           pose proof (take_while_forallb is_digit r1') as TB2.
           pose proof (stops_drop_while is_digit r1') as ST2.
           set (fd := take_while is_digit r1') in *.
           set (r2 := drop_while is_digit r1') in *.
           pose proof (take_drop_while is_alpha r2) as TD3.
           pose proof (take_while_forallb is_alpha r2) as TB3.
           pose proof (stops_drop_while is_alpha r2) as ST3.
           set (al := take_while is_alpha r2) in *.
           intros H. injection H as H1 H2 H3. subst ty x rest.
           exists (take_while is_blank s), (mk_ctok ip true fd al).
           unfold ctok_str, ctok_ok_b. simpl. rewrite TB1, TB2, TB3.
           repeat split; try assumption.
           ++ destruct ip; [congruence|reflexivity].
           ++ rewrite <- TD at 1. f_equal. rewrite <- TD1. rewrite <- !app_assoc. f_equal.
              simpl. f_equal. rewrite <- TD2 at 1. rewrite <- app_assoc. f_equal. now rewrite TD3.
           ++ unfold munch_end. simpl.
              destruct (drop_while is_alpha r2) as [|y q] eqn:E3; [exact I|].
              simpl in ST3. split; [assumption|]. intros Hal.
              rewrite Hal in TD3. simpl in TD3. rewrite <- TD3 in ST2. exact ST2.
        -- remember (d :: r1') as r2 eqn:Er2.
           pose proof (take_drop_while is_alpha r2) as TD3.
           pose proof (take_while_forallb is_alpha r2) as TB3.
           pose proof (stops_drop_while is_alpha r2) as ST3.
           set (al := take_while is_alpha r2) in *.
           intros H. injection H as H1 H2 H3. subst ty x rest.
           exists (take_while is_blank s), (mk_ctok ip false [] al).
           unfold ctok_str, ctok_ok_b. simpl. rewrite TB1, TB3.
           repeat split; try assumption.
           ++ destruct ip; [congruence|reflexivity].
           ++ rewrite <- TD at 1. f_equal. rewrite <- TD1. rewrite <- app_assoc. f_equal. now rewrite TD3.
           ++ unfold munch_end. simpl.
              destruct (drop_while is_alpha r2) as [|y q] eqn:E3; [exact I|].
              simpl in ST3. split; [assumption|]. intros Hal.
              rewrite Hal in TD3. simpl in TD3. rewrite <- TD3 in Er2. inversion Er2; subst.
              try rewrite <- TD3 in ST1. simpl in ST1. cls. lia.
Qed.

Lemma last_non_newline_none : forall s, last_non_newline s = None -> forallb is_newline s = true.
Proof.
  induction s as [|c s IH]; simpl; intros H; [reflexivity|].
  destruct (last_non_newline s) as [[c' r']|]; [discriminate|].
  destruct (is_newline c); [now rewrite IH|discriminate].
Qed.

Lemma match_at_none_inv : forall s, match_at s = None -> forallb is_newline s = true.
Proof.
  intros s. unfold match_at.
  destruct (drop_while is_blank s) as [|c r'].
  - destruct (last_non_newline s) as [[c0 r0]|] eqn:L; [discriminate|]. intros _. now apply last_non_newline_none.
  - destruct (is_hyphen c); [discriminate|]. destruct (is_digit_or_comma c); discriminate.
Qed.

(** the shape of every coordinate text on which the grammar succeeds *)
Lemma expect_tokenize_inv : forall body a ob,
  expect (tokenize body) = Some (a, ob) ->
  exists w1 t1 w2 rest2,
    forallb is_blank w1 = true /\ ctok_ok_b t1 = true /\ forallb is_blank w2 = true /\
    body = w1 ++ ctok_str t1 ++ w2 ++ c_hyphen :: rest2 /\ ctok_val t1 = Some a /\
    ((ob = None /\ forallb is_newline rest2 = true) \/
     (exists w3 t2 junk b,
        forallb is_blank w3 = true /\ ctok_ok_b t2 = true /\ rest2 = w3 ++ ctok_str t2 ++ junk /\
        munch_end t2 junk /\ ctok_val t2 = Some b /\ ob = Some b /\ a <= b)).
Proof.
  intros body a ob. rewrite tokenize_eq.
  destruct (match_at body) as [[[ty1 x1] r1]|] eqn:E1; [|discriminate].
  destruct ty1; try discriminate.
  apply match_at_inv in E1 as (w1 & t1 & Hw1 & Ht1 & -> & Hb & _).
  cbn [expect]. rewrite parse_humanized_ctok by assumption.
  destruct (ctok_val t1) as [a0|] eqn:V1; [|discriminate].
  rewrite tokenize_eq.
  destruct (match_at r1) as [[[ty2 x2] r2]|] eqn:E2; [|discriminate].
  destruct ty2; try discriminate.
  apply match_at_inv in E2 as (w2 & Hw2 & -> & Hr1).
  rewrite tokenize_eq.
  destruct (match_at r2) as [[[ty3 x3] r3]|] eqn:E3.
  - destruct ty3; try discriminate.
    apply match_at_inv in E3 as (w3 & t2 & Hw3 & Ht2 & -> & Hr2 & Hm).
    rewrite parse_humanized_ctok by assumption.
    destruct (ctok_val t2) as [b0|] eqn:V2; [|discriminate].
    destruct (b0 <? a0) eqn:L; [discriminate|].
    intros H; inversion H; subst a ob.
    exists w1, t1, w2, r2. repeat split; try assumption; [now rewrite Hb, Hr1|].
    right. exists w3, t2, r3, b0. repeat split; try assumption. lia.
  - intros H; inversion H; subst a ob.
    exists w1, t1, w2, r2. repeat split; try assumption; [now rewrite Hb, Hr1|].
    left. split; [reflexivity|now apply match_at_none_inv].
Qed.

Lemma expect_tokenize_closed : forall w1 t1 w2 w3 t2 junk,
  forallb is_blank w1 = true -> forallb is_blank w2 = true -> forallb is_blank w3 = true ->
  ctok_ok_b t1 = true -> ctok_ok_b t2 = true -> munch_end t2 junk ->
  expect (tokenize (w1 ++ ctok_str t1 ++ w2 ++ c_hyphen :: w3 ++ ctok_str t2 ++ junk))
  = match ctok_val t1, ctok_val t2 with
    | Some a, Some b => if b <? a then None else Some (a, Some b)
    | _, _ => None
    end.
Proof.
  intros w1 t1 w2 w3 t2 junk Hw1 Hw2 Hw3 Ht1 Ht2 Hj.
  rewrite tokenize_eq, match_at_ctok; try assumption.
  2:{ apply tok_end_blank; [assumption|apply tok_end_hyphen]. }
  rewrite tokenize_eq, match_at_hyphen by assumption.
  rewrite tokenize_eq, match_at_ctok_munch by assumption.
  cbn [expect]. rewrite !parse_humanized_ctok by assumption.
  destruct (ctok_val t1); [|reflexivity]. destruct (ctok_val t2); reflexivity.
Qed.

Lemma split_colon_unfold : forall s,
  split_colon s = take_while notcolon s ::
                  match drop_while notcolon s with [] => [] | _ :: r => split_colon r end.
Proof.
  induction s as [|c s IH]; [reflexivity|].
  cbn [split_colon take_while drop_while]. unfold notcolon at 1 3.
  destruct (is_colon c); cbn [negb]; [reflexivity|]. now rewrite IH.
Qed.

(** parse_region_string in terms of the three pieces  name ":" body [":" ...] *)
Lemma parse_region_string_pieces : forall n0 body tail,
  forallb notcolon n0 = true -> forallb notcolon body = true -> colon_tail tail ->
  parse_region_string (n0 ++ c_colon :: body ++ tail) =
  if is_nil (strip n0) then None
  else match expect (tokenize body) with
       | None => None
       | Some (a, ob) => Some (strip n0, Some a, ob)
       end.
Proof.
  intros n0 body tail Hn Hb Ht. rewrite parse_region_string_colon_gen by assumption.
  now rewrite take_while_app_keep, take_notcolon_tail, app_nil_r by assumption.
Qed.

Lemma parse_region_string_pieces_inv : forall s c a ob,
  parse_region_string s = Some (c, Some a, ob) ->
  exists n0 body tail,
    s = n0 ++ c_colon :: body ++ tail /\ forallb notcolon n0 = true /\ forallb notcolon body = true /\
    colon_tail tail /\ strip n0 = c /\ c <> [] /\ expect (tokenize body) = Some (a, ob).
Proof.
  intros s c a ob. unfold parse_region_string. rewrite split_colon_unfold.
  pose proof (take_drop_while notcolon s) as TD.
  pose proof (take_while_forallb notcolon s) as TB.
  destruct (is_nil (strip (take_while notcolon s))) eqn:N; [discriminate|].
  destruct (drop_while notcolon s) as [|x r] eqn:E; [discriminate|].
  pose proof (drop_while_head _ _ _ _ E) as Hx. unfold notcolon in Hx.
  assert (x = c_colon) as -> by (apply is_colon_eq; now destruct (is_colon x)).
  rewrite split_colon_unfold.
  destruct (expect (tokenize (take_while notcolon r))) as [[a0 ob0]|] eqn:X; [|discriminate].
  intros H; inversion H; subst c a ob.
  exists (take_while notcolon s), (take_while notcolon r), (drop_while notcolon r).
  repeat split; try assumption.
  - now rewrite take_drop_while.
  - apply take_while_forallb.
  - pose proof (stops_drop_while notcolon r) as S. unfold colon_tail.
    destruct (drop_while notcolon r); [exact I|]. simpl in S. unfold notcolon in S. now destruct (is_colon a).
  - intros Y. now rewrite Y in N.
Qed.

Lemma forallb_app_inv : forall (p : ascii -> bool) a b, forallb p (a ++ b) = true -> forallb p a = true /\ forallb p b = true.
Proof. intros p a b H. rewrite forallb_app in H. now apply andb_true_iff in H. Qed.

(** THE ACCEPTED LANGUAGE (closed range): a string is accepted with (c, a, b) exactly when it is
      n0 ":" w1 COORD w2 "-" w3 COORD junk tail
    with n0 colon-free and strip n0 = c non-empty, w* blank, the two tokens valued a <= b, junk
    colon-free text that cannot extend the second token, and tail empty or starting with ':' *)
Theorem region_language_closed : forall s c a b,
  parse_region_string s = Some (c, Some a, Some b) <->
  exists n0 w1 t1 w2 w3 t2 junk tail,
    s = n0 ++ c_colon :: (w1 ++ ctok_str t1 ++ w2 ++ c_hyphen :: w3 ++ ctok_str t2 ++ junk) ++ tail /\
    forallb notcolon n0 = true /\ strip n0 = c /\ c <> [] /\
    forallb is_blank w1 = true /\ forallb is_blank w2 = true /\ forallb is_blank w3 = true /\
    ctok_ok_b t1 = true /\ ctok_ok_b t2 = true /\
    forallb notcolon junk = true /\ munch_end t2 junk /\ colon_tail tail /\
    ctok_val t1 = Some a /\ ctok_val t2 = Some b /\ a <= b.
Proof.
  intros s c a b. split.
  - intros H. apply parse_region_string_pieces_inv in H as (n0 & body & tail & -> & Hn & Hb & Ht & Hs & Hc & X).
    apply expect_tokenize_inv in X as (w1 & t1 & w2 & rest2 & Hw1 & Ht1 & Hw2 & -> & V1 & [[Hx _]|X]); [discriminate|].
    destruct X as (w3 & t2 & junk & b0 & Hw3 & Ht2 & -> & Hm & V2 & Hob & Hab).
    inversion Hob; subst b0.
    exists n0, w1, t1, w2, w3, t2, junk, tail. repeat split; try assumption.
    apply forallb_app_inv in Hb as [_ Hb]. apply forallb_app_inv in Hb as [_ Hb].
    apply forallb_app_inv in Hb as [_ Hb]. simpl in Hb. try (apply andb_true_iff in Hb as [_ Hb]).
    apply forallb_app_inv in Hb as [_ Hb]. now apply forallb_app_inv in Hb as [_ Hb].
  - intros (n0 & w1 & t1 & w2 & w3 & t2 & junk & tail & -> & Hn & Hs & Hc & Hw1 & Hw2 & Hw3 & Ht1 & Ht2 & Hj & Hm & Ht & V1 & V2 & Hab).
    rewrite parse_region_string_pieces; try assumption.
    + rewrite Hs. destruct c; [congruence|]. simpl is_nil. cbv iota.
      rewrite expect_tokenize_closed by assumption. rewrite V1, V2.
      destruct (b <? a) eqn:L; [lia|reflexivity].
    + rewrite !forallb_app. simpl. rewrite !forallb_app.
      rewrite (blank_notcolon w1), (blank_notcolon w2), (blank_notcolon w3), (ctok_notcolon t1), (ctok_notcolon t2), Hj by assumption.
      reflexivity.
Qed.

(** open end *)
Theorem region_language_open : forall s c a,
  parse_region_string s = Some (c, Some a, None) <->
  exists n0 w1 t1 w2 nl tail,
    s = n0 ++ c_colon :: (w1 ++ ctok_str t1 ++ w2 ++ c_hyphen :: nl) ++ tail /\
    forallb notcolon n0 = true /\ strip n0 = c /\ c <> [] /\
    forallb is_blank w1 = true /\ forallb is_blank w2 = true /\ forallb is_newline nl = true /\
    ctok_ok_b t1 = true /\ colon_tail tail /\ ctok_val t1 = Some a.
Proof.
  intros s c a. split.
  - intros H. apply parse_region_string_pieces_inv in H as (n0 & body & tail & -> & Hn & Hb & Ht & Hs & Hc & X).
    apply expect_tokenize_inv in X as (w1 & t1 & w2 & rest2 & Hw1 & Ht1 & Hw2 & -> & V1 & [[_ Hnl]|X]).
    + exists n0, w1, t1, w2, rest2, tail. repeat split; assumption.
    + destruct X as (w3 & t2 & junk & b0 & _ & _ & _ & _ & _ & Hob & _). discriminate.
  - intros (n0 & w1 & t1 & w2 & nl & tail & -> & Hn & Hs & Hc & Hw1 & Hw2 & Hnl & Ht1 & Ht & V1).
    rewrite parse_region_string_pieces; try assumption.
    + rewrite Hs. destruct c; [congruence|]. simpl is_nil. cbv iota.
      rewrite tokenize_open by assumption. cbn [expect].
      rewrite parse_humanized_ctok by assumption. now rewrite V1.
    + rewrite !forallb_app. simpl.
      rewrite (blank_notcolon w1), (blank_notcolon w2), (newline_notcolon nl), (ctok_notcolon t1) by assumption.
      reflexivity.
Qed.

(** bare name; and no other form of result exists (see parse_region_string_sound) *)
Theorem region_language_bare : forall s c,
  parse_region_string s = Some (c, None, None) <->
  forallb notcolon s = true /\ strip s = c /\ c <> [].
Proof.
  intros s c. split.
  - unfold parse_region_string. rewrite split_colon_unfold.
    pose proof (take_drop_while notcolon s) as TD.
    destruct (is_nil (strip (take_while notcolon s))) eqn:N; [discriminate|].
    destruct (drop_while notcolon s) as [|x r] eqn:E.
    + rewrite app_nil_r in TD. rewrite TD in *. intros H; inversion H; subst c.
      repeat split; [rewrite <- TD; apply take_while_forallb|]. intros Y. now rewrite Y in N.
    + rewrite split_colon_unfold.
      destruct (expect (tokenize (take_while notcolon r))) as [[a0 ob0]|]; discriminate.
  - intros (Hn & Hs & Hc). unfold parse_region_string.
    rewrite split_colon_nocolon by assumption. rewrite Hs. destruct c; [congruence|reflexivity].
Qed.
