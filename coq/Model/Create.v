(** Creation of a cooler: validation, chunked pixel writing, dense-array loader, data-frame sort,
    attribute decoding, and (for C13) [create] as a step machine over a small file model.
    Anchors: src/cooler/create/_create.py (write_pixels, create, create_cooler, write_info),
             src/cooler/create/_ingest.py (_validate_pixels, ArrayLoader), src/cooler/api.py (info),
             src/cooler/fileops.py (_is_cooler, list_coolers).
    No proofs here (Proofs/CreateProofs.v). *)
From Cooler Require Export Model.Pixels.
From Coq Require Export String Ascii List.
Export ListNotations.
Open Scope Z_scope.

(** * Rows.  A pixel record is (key, payload); the payload type [V] is arbitrary (count only: Z;
      count + extra value columns: list Z). *)

Inductive cerr :=
| ErrNeg       (* BadInputError "Found bin ID < 0" *)
| ErrExcess    (* BadInputError "Found a bin ID that exceeds the declared number of bins" *)
| ErrTril      (* BadInputError "Found bin1_id greater than bin2_id" *)
| ErrDup       (* BadInputError "Found duplicate pixels" *)
| ErrRange     (* ValueError "Values of column .. do not fit the output dtype" (write_pixels, fix D10) *)
| ErrMaxSize   (* RuntimeError from dset.resize beyond maxshape = max_size *)
| ErrIter.     (* the input iterator itself raised *)

Section Rows.
Context {V : Type}.
Notation rowT := (key * V)%type.

(** ** _ingest._validate_pixels (checks in source order: negative, excess, tril, duplicate; then optional sort) *)
Definition has_neg (c : list rowT) : bool :=
  existsb (fun r => (fst (fst r) <? 0) || (snd (fst r) <? 0)) c.
Definition has_excess (n : Z) (c : list rowT) : bool :=
  existsb (fun r => (n <=? fst (fst r)) || (n <=? snd (fst r))) c.
Definition has_tril (c : list rowT) : bool :=
  existsb (fun r => snd (fst r) <? fst (fst r)) c.
(** DataFrame.duplicated(["bin1_id","bin2_id"]).any() : some key occurs twice in the chunk *)
Fixpoint has_dup (c : list rowT) : bool :=
  match c with
  | [] => false
  | r :: t => existsb (fun q => keqb (fst r) (fst q)) t || has_dup t
  end.

(** DataFrame.sort_values(["bin1_id","bin2_id"]) : stable sort by key *)
Fixpoint insert_row (r : rowT) (l : list rowT) : list rowT :=
  match l with
  | [] => [r]
  | h :: t => if kltb (fst h) (fst r) then h :: insert_row r t else r :: l
  end.
Definition sort_rows (l : list rowT) : list rowT := fold_right insert_row [] l.

Definition validate_pixels (n : Z) (boundscheck triucheck dupcheck ensure_sorted : bool)
           (c : list rowT) : cerr + list rowT :=
  if boundscheck && has_neg c then inl ErrNeg
  else if boundscheck && has_excess n c then inl ErrExcess
  else if triucheck && has_tril c then inl ErrTril
  else if dupcheck && has_dup c then inl ErrDup
  else inr (if ensure_sorted then sort_rows c else c).

(** ** _create.write_pixels : each chunk goes to [nnz, nnz+n) of the (resized) datasets *)
Definition wstate := (list rowT * Z * Z)%type.      (* stored rows, nnz, total *)

(** dset.resize((m,)) : truncate or pad with the fill value *)
Definition resize (d : rowT) (l : list rowT) (m : Z) : list rowT :=
  firstn (Z.to_nat m) l ++ repeat d (Z.to_nat m - length l).
(** dset[off : off+len data] = data *)
Definition assign_at (l : list rowT) (off : Z) (data : list rowT) : list rowT :=
  firstn (Z.to_nat off) l ++ data ++ skipn (Z.to_nat off + length data) l.

Variable dflt : rowT.                 (* dataset fill value *)
Variable fits : rowT -> bool.         (* every integer column value fits its output dtype *)
Variable count : option (rowT -> Z).  (* the "count" column when the chunk has one *)

Definition chunk_total (c : list rowT) : Z :=
  match count with Some f => sumZ (map f c) | None => 0 end.

Definition write_chunk (maxsize : Z) (st : wstate) (c : list rowT) : cerr + wstate :=
  let '(stored, nnz, total) := st in
  let n := zlen c in
  if maxsize <? nnz + n then inl ErrMaxSize
  else if negb (forallb fits c) then inl ErrRange
  else inr (assign_at (resize dflt stored (nnz + n)) nnz c, nnz + n, total + chunk_total c).

(** the loop  "for i, chunk in enumerate(map(validator, iterable))" : validation is lazy, chunk by chunk *)
Fixpoint write_pixels (validate : list rowT -> cerr + list rowT) (maxsize : Z)
         (st : wstate) (chunks : list (list rowT)) : cerr + wstate :=
  match chunks with
  | [] => inr st
  | c :: t =>
      match validate c with
      | inl e => inl e
      | inr c' =>
          match write_chunk maxsize st c' with
          | inl e => inl e
          | inr st' => write_pixels validate maxsize st' t
          end
      end
  end.

(** integer range check of write_pixels for list payloads: per value column, Some (lo, hi) = limits of an
    integer output dtype fed with integer input, None = no check (float column) *)
Fixpoint fits_lims (lims : list (option (Z * Z))) (vs : list Z) : bool :=
  match lims, vs with
  | Some (lo, hi) :: lt, v :: vt => (lo <=? v) && (v <=? hi) && fits_lims lt vt
  | None :: lt, _ :: vt => fits_lims lt vt
  | _, _ => true
  end.

(** end of write_pixels (fix 2245e87): when no record reached the datasets (no chunk at all, or only empty
    chunks) the preallocated rows are dropped, so that the column length equals nnz *)
Definition finish_pixels (st : wstate) : wstate :=
  let '(stored, nnz, total) := st in
  if nnz =? 0 then (resize dflt stored 0, nnz, total) else st.

(** ** _create.create : what is observable of the result through pixels/info *)
Record cool := { c_rows : list rowT; c_nnz : Z; c_sum : Z; c_symm : bool; c_nbins : Z }.

Definition max_size (n : Z) (symm : bool) : Z := if symm then n * (n - 1) / 2 + n else n * n.
(** prepare_pixels: datasets are created with init_size = min(5 * n_bins, max_size) fill values; they are
    cut to size by the first resize in write_pixels (an iterator that yields no chunk at all would leave
    init_size stale fill rows behind nnz = 0: repaired defect D21, see [finish_pixels]) *)
Definition init_state (n : Z) (symm : bool) : wstate :=
  (repeat dflt (Z.to_nat (Z.min (5 * n) (max_size n symm))), 0, 0).

Definition create (n : Z) (symmetric_upper boundscheck triucheck dupcheck ensure_sorted : bool)
           (chunks : list (list rowT)) : cerr + cool :=
  let triucheck := triucheck && symmetric_upper in      (* "Changing to False" for square storage *)
  match write_pixels (validate_pixels n boundscheck triucheck dupcheck ensure_sorted)
                     (max_size n symmetric_upper) (init_state n symmetric_upper) chunks with
  | inl e => inl e
  | inr st =>
      let '(stored, nnz, total) := finish_pixels st in
      inr {| c_rows := stored; c_nnz := nnz; c_sum := total; c_symm := symmetric_upper; c_nbins := n |}
  end.

(** create_cooler with a DataFrame / dict : one chunk, sorted by (bin1_id, bin2_id) first *)
Definition create_cooler_frame (n : Z) (symmetric_upper boundscheck triucheck dupcheck ensure_sorted : bool)
           (frame : list rowT) : cerr + cool :=
  create n symmetric_upper boundscheck triucheck dupcheck ensure_sorted [sort_rows frame].

(** Cooler.pixels()[:] : the selector's length is the nnz attribute *)
Definition read_pixels (c : cool) : list rowT := firstn (Z.to_nat (c_nnz c)) (c_rows c).

End Rows.

(** * Full-matrix read of one value column (the range-query engine itself is C03's subject; here the
      full window is defined directly from the stored table). *)
Definition px_of {V} (f : V -> Z) (rows : list (key * V)) : list pixel := map (fun r => (fst r, f (snd r))) rows.

Definition dense_full (symm_mode : bool) (px : list pixel) (i j : Z) : Z :=
  if symm_mode then symm px i j else look px (i, j).

(** sparse=True output as (row, col, value) triples: the stored table plus, in symmetric mode, the mirror
    image of its off-diagonal part *)
Definition flip (p : pixel) : pixel := ((col p, row p), val p).
Definition sparse_full (symm_mode : bool) (px : list pixel) : list pixel :=
  if symm_mode then px ++ map flip (filter (fun p => negb (row p =? col p)) px) else px.

(** * ArrayLoader (_ingest.py): row spans of [chunksize] rows; nonzero entries; mask lo+i <= j *)
Definition row_entries (r : Z) (xs : list Z) : list pixel :=
  map (fun jv => ((r, fst jv), snd jv))
      (filter (fun jv => negb (snd jv =? 0) && (r <=? fst jv)) (enumerate xs)).
Definition span_chunk (lo : Z) (X : list (list Z)) : list pixel :=
  concat (map (fun ix => row_entries (lo + fst ix) (snd ix)) (enumerate X)).

(** util.partition(start, stop, step) = ((i, min(i+step, stop)) for i in range(start, stop, step)), step >= 1 *)
Fixpoint partition_fuel (fuel : nat) (i stop step : Z) : list (Z * Z) :=
  match fuel with
  | O => []
  | S f => if i <? stop then (i, Z.min (i + step) stop) :: partition_fuel f (i + step) stop step else []
  end.
Definition partition (start stop step : Z) : list (Z * Z) :=
  partition_fuel (Z.to_nat (stop - start)) start stop step.

Definition array_loader (A : list (list Z)) (chunksize : Z) : list (list pixel) :=
  map (fun lh => span_chunk (fst lh) (slice A (fst lh) (snd lh))) (partition 0 (zlen A) chunksize).

(** the reference: row-major list of the non-zero entries on or above the diagonal *)
Definition triu_entries (A : list (list Z)) : list pixel := span_chunk 0 A.

(** * api.info : every string attribute is passed through json.loads; kept as a string when that fails.
      [json_word] is the exact decoding for strings over the alphabet [A-Za-z0-9_-] (no whitespace, quotes,
      brackets, dots, plus signs): integers, integers with exponent (floats), true/false/null
      (the installed simplejson refuses NaN/Infinity). *)
Inductive jval := JInt (z : Z) | JFloatLit | JBool (b : bool) | JNull.

Definition is_digit (a : ascii) : bool := let n := nat_of_ascii a in (48 <=? n)%nat && (n <=? 57)%nat.
Definition digit_val (a : ascii) : Z := Z.of_nat (nat_of_ascii a) - 48.
Fixpoint all_digits (s : string) : bool :=
  match s with EmptyString => true | String a r => is_digit a && all_digits r end.
Fixpoint digits_val (acc : Z) (s : string) : Z :=
  match s with EmptyString => acc | String a r => digits_val (10 * acc + digit_val a) r end.
(** split at the first 'e' / 'E' *)
Fixpoint split_exp (s : string) : string * option string :=
  match s with
  | EmptyString => (EmptyString, None)
  | String a r =>
      if (Ascii.eqb a "e" || Ascii.eqb a "E")%bool then (EmptyString, Some r)
      else let '(m, e) := split_exp r in (String a m, e)
  end.
(** JSON int: 0 | [1-9][0-9]* *)
Definition json_intpart (s : string) : bool :=
  match s with
  | EmptyString => false
  | String a r => if Ascii.eqb a "0" then match r with EmptyString => true | _ => false end
                  else is_digit a && all_digits r
  end.
Definition json_exppart (s : string) : bool :=
  match s with
  | EmptyString => false
  | String a r => if Ascii.eqb a "-" then (match r with EmptyString => false | _ => all_digits r end)
                  else all_digits s
  end.
Definition json_number (s : string) : option jval :=
  let '(neg, body) := match s with
                      | String a r => if Ascii.eqb a "-" then (true, r) else (false, s)
                      | EmptyString => (false, s)
                      end in
  let '(m, e) := split_exp body in
  if json_intpart m then
    match e with
    | None => Some (JInt (if neg then - digits_val 0 m else digits_val 0 m))
    | Some ex => if json_exppart ex then Some JFloatLit else None
    end
  else None.
Definition json_word (s : string) : option jval :=
  if String.eqb s "true" then Some (JBool true)
  else if String.eqb s "false" then Some (JBool false)
  else if String.eqb s "null" then Some JNull
  else json_number s.

(** an attribute as returned by info(): decoded JSON value, or the raw string *)
Section Info.
Context {J : Type}.
Variable loads : string -> option J.      (* simplejson.loads, None = ValueError *)
Variable dumps : J -> string.             (* simplejson.dumps *)

Definition info_decode (s : string) : J + string :=
  match loads s with Some j => inl j | None => inr s end.

(** write_info: "genome-assembly" stored raw (default "unknown"); "metadata" stored as dumps(metadata or {}) *)
Definition attr_assembly (assembly : option string) : string :=
  match assembly with Some a => a | None => "unknown"%string end.
Definition attr_metadata (empty_doc : J) (metadata : option J) : string :=
  dumps (match metadata with Some d => d | None => empty_doc end).

Definition info_assembly (assembly : option string) : J + string := info_decode (attr_assembly assembly).
Definition info_metadata (empty_doc : J) (metadata : option J) : J + string :=
  info_decode (attr_metadata empty_doc metadata).
End Info.

(** * Observation helpers for the correspondence run (payload = list of value columns) *)
Definition all_cells (n : Z) : list (Z * Z) :=
  flat_map (fun i => map (fun j => (i, j)) (zrange 0 (Z.to_nat n))) (zrange 0 (Z.to_nat n)).
Definition col_px (k : nat) (rows : list (key * list Z)) : list pixel := px_of (fun v => nth k v 0) rows.
Definition obs_cool (ncols : nat) (c : @cool (list Z)) :=
  (c_rows c, c_nnz c, c_sum c, c_symm c, read_pixels c,
   map (fun k => map (fun ij => dense_full (c_symm c) (col_px k (read_pixels c)) (fst ij) (snd ij))
                     (all_cells (c_nbins c))) (seq 0 ncols),
   map (fun k => sparse_full (c_symm c) (col_px k (read_pixels c))) (seq 0 ncols)).
Definition obs_create (ncols : nat) (r : cerr + @cool (list Z)) :=
  match r with inl e => inl e | inr c => inr (obs_cool ncols c) end.
(** the same without the dense view (tables with hundreds of bins: the sparse view is compared) *)
Definition obs_cool_sparse (ncols : nat) (c : @cool (list Z)) :=
  (c_rows c, c_nnz c, c_sum c, c_symm c, read_pixels c, ([] : list (list Z)),
   map (fun k => sparse_full (c_symm c) (col_px k (read_pixels c))) (seq 0 ncols)).
Definition obs_create_sparse (ncols : nat) (r : cerr + @cool (list Z)) :=
  match r with inl e => inl e | inr c => inr (obs_cool_sparse ncols c) end.
Definition rows_of_px (l : list pixel) : list (key * list Z) := map (fun p => (fst p, [snd p])) l.

(** * C13: create() as a step machine over a small file model.
      A file is an association list  path -> group; a path is the list of its components (ids), [] is the
      root group; an empty list is a file that does not exist.  Only collection-level groups are tracked
      (file root, user groups, destinations); the four reserved children chroms/bins/pixels/indexes of a
      destination and every dataset/attribute other than "format" are summarised by the content id. *)
Definition path := list Z.
Record group := { g_format : bool; g_content : Z }.
Definition file := list (path * group).

Fixpoint path_eqb (a b : path) : bool :=
  match a, b with
  | [], [] => true
  | x :: a', y :: b' => (x =? y) && path_eqb a' b'
  | _, _ => false
  end.
(** [is_prefix d p]: p is d or lies below d *)
Fixpoint is_prefix (d p : path) : bool :=
  match d, p with
  | [], _ => true
  | x :: d', y :: p' => (x =? y) && is_prefix d' p'
  | _ :: _, [] => false
  end.
Fixpoint lookup (f : file) (p : path) : option group :=
  match f with
  | [] => None
  | (q, g) :: t => if path_eqb q p then Some g else lookup t p
  end.
Definition remove_path (f : file) (p : path) : file := filter (fun e => negb (path_eqb (fst e) p)) f.
Definition remove_under (f : file) (d : path) : file := filter (fun e => negb (is_prefix d (fst e))) f.
Definition set_group (f : file) (p : path) (g : group) : file := (p, g) :: remove_path f p.

Definition fresh : group := {| g_format := false; g_content := 0 |}.

(** fileops._is_cooler / is_cooler / list_coolers: recognition by the format attribute alone *)
Definition is_cooler (f : file) (p : path) : bool :=
  match lookup f p with Some g => g_format g | None => false end.
Definition list_coolers (f : file) : list path := filter (is_cooler f) (map fst f).

(** h5py create_group(path) creates the missing intermediate groups *)
Fixpoint proper_prefixes (p : path) : list path :=
  match p with
  | [] => []
  | x :: t => [] :: map (cons x) (proper_prefixes t)
  end.
Definition ensure_group (f : file) (p : path) : file :=
  match lookup f p with Some _ => f | None => set_group f p fresh end.

Inductive mode := ModeW | ModeA.

Inductive step :=
| SOpen (m : mode)          (* h5py.File(file_path, mode) *)
| SMakeTarget               (* root: delete the four reserved children; else create_group / del + create_group *)
| SWrite (tag : Z)          (* write chroms (1) / bins (2) / prepare pixels (3) / indexes (5) *)
| SChunk (ok : bool)        (* one iteration of write_pixels; ok = false: validator, iterator or range check raises *)
| SInfo.                    (* write_info: the only step that sets "format" *)

Definition touch (f : file) (p : path) (tag : Z) : file :=
  match lookup f p with
  | Some g => set_group f p {| g_format := g_format g; g_content := g_content g * 31 + tag |}
  | None => f
  end.

(** None = the step raises (the file keeps the state reached so far) *)
Definition exec_step (dest : path) (s : step) (f : file) : option file :=
  match s with
  | SOpen ModeW => Some [([], fresh)]
  | SOpen ModeA => Some (ensure_group f [])
  | SMakeTarget =>
      match dest with
      | [] => Some (touch f [] 0)
      | _ => Some (set_group (fold_left ensure_group (proper_prefixes dest) (remove_under f dest)) dest fresh)
      end
  | SWrite tag => Some (touch f dest tag)
  | SChunk true => Some (touch f dest 4)
  | SChunk false => None
  | SInfo =>
      match lookup f dest with
      | Some g => Some (set_group f dest {| g_format := true; g_content := g_content g * 31 + 6 |})
      | None => None
      end
  end.

(** run the steps in order; the boolean tells whether all of them completed *)
Fixpoint run (dest : path) (steps : list step) (f : file) : file * bool :=
  match steps with
  | [] => (f, true)
  | s :: t => match exec_step dest s f with
              | None => (f, false)
              | Some f' => run dest t f'
              end
  end.

(** the step list of create(): [oks] tells for each item the iterator produces whether that iteration succeeds
    (false: the validator rejects the chunk, the iterator raises instead of yielding it, or a value does not fit) *)
Definition create_steps (m : mode) (oks : list bool) : list step :=
  [SOpen m; SMakeTarget; SWrite 1; SWrite 2; SWrite 3] ++ map SChunk oks ++ [SWrite 5; SInfo].

(** an input stream: Some chunk, or None = the iterator raises at that point *)
Definition item_ok {V} (validate : list (key * V) -> cerr + list (key * V)) (fits : key * V -> bool)
           (it : option (list (key * V))) : bool :=
  match it with
  | None => false
  | Some c => match validate c with inl _ => false | inr c' => forallb fits c' end
  end.

Definition create_machine {V} (m : mode) (dest : path) (validate : list (key * V) -> cerr + list (key * V))
           (fits : key * V -> bool) (items : list (option (list (key * V)))) (f : file) : file * bool :=
  run dest (create_steps m (map (item_ok validate fits) items)) f.

(** create_from_unordered: the sort pass validates and writes every chunk into a temporary file next to the
    destination; only when all of them succeeded is the destination opened, by a create() fed from the merger *)
Definition create_unordered_machine {V} (m : mode) (dest : path) (validate : list (key * V) -> cerr + list (key * V))
           (fits : key * V -> bool) (items : list (option (list (key * V)))) (f : file) : file * bool :=
  if forallb (item_ok validate fits) items then run dest (create_steps m [true]) f else (f, false).

(** observation of a path for the correspondence run: (exists, format, record unchanged w.r.t. the file before) *)
Definition obs_path (before after : file) (p : path) : bool * bool * bool :=
  match lookup after p with
  | None => (false, false, match lookup before p with None => true | Some _ => false end)
  | Some g => (true, g_format g,
               match lookup before p with
               | Some g0 => Bool.eqb (g_format g0) (g_format g) && (g_content g0 =? g_content g)
               | None => false
               end)
  end.
