#!/bin/bash
# phase 1 (parallel-safe): demo with/without the change + unedited suite with the change
P=$1; WT=$2; ID=${3:-$P-1}
OUT=/verif/seeded/$ID; mkdir -p $OUT
cp $WT/patch.diff $WT/demo.py $OUT/ 2>/dev/null; cp $WT/meta.json $OUT/agent_meta.json 2>/dev/null
export TMPDIR=$WT/.tmp; mkdir -p $TMPDIR
(cd $WT && PYTHONPATH=$WT/src timeout 600 /venv/bin/python -W ignore demo.py >/tmp/lead_scratch/demo_with_$ID.txt 2>&1; echo "exit $?"; tail -3 /tmp/lead_scratch/demo_with_$ID.txt | cut -c1-300) > $OUT/demo_with_change.txt
(cd $WT && PYTHONPATH=/repo/src timeout 600 /venv/bin/python -W ignore demo.py >/tmp/lead_scratch/demo_wo_$ID.txt 2>&1; echo "exit $?"; tail -2 /tmp/lead_scratch/demo_wo_$ID.txt | cut -c1-300) > $OUT/demo_without_change.txt
(cd $WT && PYTHONPATH=$WT/src timeout 1500 /venv/bin/python -m pytest -q -p no:cacheprovider --timeout=900 tests 2>&1 | grep -E "passed|failed" | tail -1) > $OUT/suite_with_change.txt
echo "$ID p1: $(head -1 $OUT/demo_with_change.txt) / $(head -1 $OUT/demo_without_change.txt) / $(cat $OUT/suite_with_change.txt)"
