(** Proofs about the HDF5 object-store model (Model/H5.v): path resolution is monotone under
    link additions, the h5py primitives and cooler's _copy only add links (frame), hard links
    denote the same object, a copy dumps exactly as its source, recognition and listing. *)
From Cooler Require Import Model.H5.
From Coq Require Import Lia.
Module S := Coq.Strings.String.
(* never let simpl/cbn unfold a 64-step traversal *)
Global Opaque FUEL VISIT_FUEL.

(* ------------------------------------------------------------------ association lists *)
Lemma eqb_refl' : forall n, S.eqb n n = true.
Proof. intro; apply S.eqb_refl. Qed.

Lemma assoc_ins_same : forall X n (x : X) l, assoc n (ins_sorted n x l) = Some x.
Proof.
  induction l as [|[m y] r IH]; simpl.
  - now rewrite eqb_refl'.
  - destruct (S.eqb n m) eqn:E; simpl.
    + now rewrite eqb_refl'.
    + destruct (S.ltb n m); simpl.
      * now rewrite eqb_refl'.
      * now rewrite E.
Qed.

Lemma assoc_ins_other : forall X n m (x : X) l, n <> m -> assoc m (ins_sorted n x l) = assoc m l.
Proof.
  induction l as [|[k y] r IH]; intros Hnm; simpl.
  - destruct (S.eqb m n) eqn:E; auto. apply S.eqb_eq in E. congruence.
  - destruct (S.eqb n k) eqn:E; simpl.
    + apply S.eqb_eq in E; subst k.
      destruct (S.eqb m n) eqn:E2; auto. apply S.eqb_eq in E2. congruence.
    + destruct (S.ltb n k); simpl.
      * destruct (S.eqb m n) eqn:E2; auto. apply S.eqb_eq in E2. congruence.
      * destruct (S.eqb m k); auto.
Qed.

Lemma assoc_remove_same : forall X n (l : list (string * X)), assoc n (remove_key n l) = None.
Proof.
  induction l as [|[m y] r IH]; simpl; auto.
  destruct (S.eqb n m) eqn:E; simpl; auto. now rewrite E.
Qed.

Lemma assoc_remove_other : forall X n m (l : list (string * X)), n <> m -> assoc m (remove_key n l) = assoc m l.
Proof.
  induction l as [|[k y] r IH]; intros Hnm; simpl; auto.
  destruct (S.eqb n k) eqn:E; simpl.
  - apply S.eqb_eq in E; subst k.
    destruct (S.eqb m n) eqn:E2; auto. apply S.eqb_eq in E2. congruence.
  - destruct (S.eqb m k); auto.
Qed.

(* ------------------------------------------------------------------ stores *)
Lemma nth_error_upd_same : forall X k (x : X) l, (k < List.length l)%nat -> nth_error (upd k x l) k = Some x.
Proof.
  induction k; destruct l; simpl; intros; try lia; auto. apply IHk. lia.
Qed.

Lemma nth_error_upd_other : forall X k j (x : X) l, k <> j -> nth_error (upd k x l) j = nth_error l j.
Proof.
  induction k; destruct l; destruct j; simpl; intros; try congruence; auto.
Qed.

Lemma length_upd : forall X k (x : X) l, List.length (upd k x l) = List.length l.
Proof. induction k; destruct l; simpl; auto. Qed.

Lemma get_set_same : forall w f s, get_store (set_store w f s) f = s.
Proof. destruct f; reflexivity. Qed.

Lemma get_set_other : forall w f g s, f <> g -> get_store (set_store w f s) g = get_store w g.
Proof. destruct f, g; simpl; congruence. Qed.

Lemma fid_eqb_eq : forall a b, fid_eqb a b = true <-> a = b.
Proof. destruct a, b; simpl; split; congruence. Qed.

Lemma fid_dec : forall a b : fid, {a = b} + {a <> b}.
Proof. decide equality. Qed.

(* ------------------------------------------------------------------ the "only links were added" order *)
Definition links_le (ls ls' : list (string * link)) : Prop :=
  forall n l, assoc n ls = Some l -> assoc n ls' = Some l.

Definition obj_le (x y : obj) : Prop :=
  match x, y with
  | Group a ls, Group a' ls' => a = a' /\ links_le ls ls'
  | Dataset d, Dataset d' => d = d'
  | _, _ => False
  end.

Definition store_le (s s' : option store) : Prop :=
  match s with
  | None => True
  | Some st => exists st', s' = Some st' /\
                 forall o x, nth_error st o = Some x -> exists y, nth_error st' o = Some y /\ obj_le x y
  end.

Definition world_le (w w' : world) : Prop := forall f, store_le (get_store w f) (get_store w' f).

Lemma obj_le_refl : forall x, obj_le x x.
Proof. destruct x; simpl; auto. split; auto. red; auto. Qed.

Lemma obj_le_trans : forall x y z, obj_le x y -> obj_le y z -> obj_le x z.
Proof.
  destruct x, y, z; simpl; try tauto; try congruence.
  intros [-> H1] [-> H2]. split; auto. red; intros. apply H2, H1; auto.
Qed.

Lemma world_le_refl : forall w, world_le w w.
Proof.
  intros w f. unfold store_le. destruct (get_store w f); auto.
  eexists; split; eauto. intros. eexists; split; eauto. apply obj_le_refl.
Qed.

Lemma world_le_trans : forall a b c, world_le a b -> world_le b c -> world_le a c.
Proof.
  intros a b c H1 H2 f. specialize (H1 f). specialize (H2 f). unfold store_le in *.
  destruct (get_store a f); auto.
  destruct H1 as (sb & Eb & Hb). rewrite Eb in H2. destruct H2 as (sc & Ec & Hc).
  exists sc; split; auto. intros o x Hx.
  destruct (Hb _ _ Hx) as (y & Hy & Lxy). destruct (Hc _ _ Hy) as (z & Hz & Lyz).
  exists z; split; auto. eapply obj_le_trans; eauto.
Qed.

Lemma world_le_obj : forall w w' f o x, world_le w w' -> obj_at w f o = Some x ->
  exists y, obj_at w' f o = Some y /\ obj_le x y.
Proof.
  unfold obj_at; intros w w' f o x H Hx. specialize (H f). unfold store_le in H.
  destruct (get_store w f); try discriminate.
  destruct H as (st' & E & Hst). rewrite E. auto.
Qed.

Lemma world_le_exists : forall w w' f, world_le w w' -> file_exists w f = true -> file_exists w' f = true.
Proof.
  unfold file_exists; intros w w' f H. specialize (H f). unfold store_le in H.
  destruct (get_store w f); try discriminate. destruct H as (st' & -> & _). auto.
Qed.

Lemma world_le_lookup : forall w w' f o n l, world_le w w' ->
  lookup_link w f o n = Some l -> lookup_link w' f o n = Some l.
Proof.
  unfold lookup_link; intros w w' f o n l H Hl.
  destruct (obj_at w f o) as [[a ls|d]|] eqn:E; try discriminate.
  destruct (world_le_obj _ _ _ _ _ H E) as (y & Ey & Ly). rewrite Ey.
  destruct y; simpl in Ly; try tauto. destruct Ly as [_ Ly]. auto.
Qed.

(* ------------------------------------------------------------------ resolution is monotone *)
Lemma walk_found_mono : forall k w w' x f o p f1 o1, world_le w w' ->
  walk k w x f o p = Found f1 o1 -> walk k w' x f o p = Found f1 o1.
Proof.
  induction k; simpl; intros w w' x f o p f1 o1 H Hw; try discriminate.
  destruct p as [|n rest]; auto.
  destruct (obj_at w f o) as [[a ls|d]|] eqn:E; try discriminate.
  destruct (world_le_obj _ _ _ _ _ H E) as (y & Ey & Ly). rewrite Ey.
  destruct y as [a' ls'|]; simpl in Ly; try tauto. destruct Ly as [_ Ly].
  destruct (assoc n ls) as [l|] eqn:El; try discriminate.
  rewrite (Ly _ _ El). destruct l; eauto.
  destruct (file_exists w f0) eqn:Ex; try discriminate.
  rewrite (world_le_exists _ _ _ H Ex). eauto.
Qed.

Lemma follow_found_mono : forall w w' f l f1 o1, world_le w w' ->
  follow w f l = Found f1 o1 -> follow w' f l = Found f1 o1.
Proof.
  destruct l; simpl; intros; auto.
  - eapply walk_found_mono; eauto.
  - destruct (file_exists w f0) eqn:Ex; try discriminate.
    rewrite (world_le_exists _ _ _ H Ex). eapply walk_found_mono; eauto.
Qed.

(** a Found result does not depend on the "external link crossed" flag, and survives more fuel *)
Lemma walk_found_flag : forall k w x x' f o p f1 o1,
  walk k w x f o p = Found f1 o1 -> walk k w x' f o p = Found f1 o1.
Proof.
  induction k; simpl; intros; try discriminate.
  destruct p as [|n rest]; auto.
  destruct (obj_at w f o) as [[a ls|d]|]; try discriminate.
  destruct (assoc n ls) as [l|]; try discriminate. destruct l; eauto.
  destruct (file_exists w f0); try discriminate. eauto.
Qed.

Lemma walk_found_fuel : forall k j w x f o p f1 o1,
  walk k w x f o p = Found f1 o1 -> walk (k + j) w x f o p = Found f1 o1.
Proof.
  induction k; simpl; intros; try discriminate.
  destruct p as [|n rest]; auto.
  destruct (obj_at w f o) as [[a ls|d]|]; try discriminate.
  destruct (assoc n ls) as [l|]; try discriminate. destruct l; eauto.
  destruct (file_exists w f0); try discriminate. eauto.
Qed.

(** the unbounded reading of path resolution: some budget suffices *)
Definition resolves_from (w : world) (f : fid) (o : nat) (p : path) (f1 : fid) (o1 : nat) : Prop :=
  exists k, walk k w false f o p = Found f1 o1.
Definition resolves (w : world) (f : fid) (p : path) (f1 : fid) (o1 : nat) : Prop :=
  resolves_from w f O p f1 o1.

Lemma resolve_resolves : forall w f p f1 o1, resolve w f p = Found f1 o1 -> resolves w f p f1 o1.
Proof. intros. exists FUEL. exact H. Qed.

Lemma resolves_mono : forall w w' f o p f1 o1, world_le w w' ->
  resolves_from w f o p f1 o1 -> resolves_from w' f o p f1 o1.
Proof. intros w w' f o p f1 o1 H [k Hk]. exists k. eapply walk_found_mono; eauto. Qed.

Lemma walk_app : forall k1 w x f o p f1 o1, walk k1 w x f o p = Found f1 o1 ->
  forall k2 x2 r f2 o2, walk k2 w x2 f1 o1 r = Found f2 o2 ->
  walk (k1 + k2) w x f o (p ++ r) = Found f2 o2.
Proof.
  induction k1; simpl; intros w x f o p f1 o1 H1 k2 x2 r f2 o2 H2; try discriminate.
  destruct p as [|n rest].
  - inversion H1; subst. simpl.
    replace (S (k1 + k2)) with (k2 + S k1)%nat by lia.
    apply walk_found_fuel. eapply walk_found_flag; eauto.
  - simpl. destruct (obj_at w f o) as [[a ls|d]|]; try discriminate.
    destruct (assoc n ls) as [l|]; try discriminate. destruct l.
    + eapply IHk1; eauto.
    + rewrite <- app_assoc. eapply IHk1; eauto.
    + destruct (file_exists w f0); try discriminate. rewrite <- app_assoc. eapply IHk1; eauto.
Qed.

Lemma resolves_step : forall w f o n l rest f1 o1 f2 o2,
  lookup_link w f o n = Some l -> follow w f l = Found f1 o1 ->
  resolves_from w f1 o1 rest f2 o2 -> resolves_from w f o (n :: rest) f2 o2.
Proof.
  intros w f o n l rest f1 o1 f2 o2 Hl Hf [k Hk].
  unfold lookup_link in Hl.
  destruct (obj_at w f o) as [[a ls|d]|] eqn:E; try discriminate.
  destruct l; simpl in Hf.
  - inversion Hf; subst. exists (S k). simpl. rewrite E, Hl. auto.
  - exists (S (FUEL + k)). simpl. rewrite E, Hl. eapply walk_app; eauto.
  - destruct (file_exists w f0) eqn:Ex; try discriminate.
    exists (S (FUEL + k)). simpl. rewrite E, Hl, Ex.
    eapply walk_app; eauto.
Qed.
