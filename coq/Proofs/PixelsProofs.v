(** Canonical-form lemmas for pixel tables (from the design spike, specialised to bin-id pairs). *)
From Cooler Require Import Model.Pixels.
From Coq Require Import Sorted Permutation ZifyBool.

Definition SSorted (l : list pixel) : Prop := StronglySorted klt (keys l).

(** out is the canonical aggregate of src: strictly sorted, same key set, same value per key *)
Definition Canon (src out : list pixel) : Prop :=
  SSorted out /\ (forall k, In k (keys out) <-> In k (keys src)) /\ (forall k, look out k = look src k).

Lemma kcmp_eq a b : kcmp a b = Eq <-> a = b.
Proof.
  unfold kcmp. destruct a as [a1 a2], b as [b1 b2]; cbn [fst snd].
  destruct (a1 ?= b1) eqn:E1.
  - rewrite Z.compare_eq_iff in E1. subst. rewrite Z.compare_eq_iff. split; [now intros ->|]. intros H; now inversion H.
  - split; [discriminate|]. intros H; inversion H; subst. rewrite Z.compare_refl in E1. discriminate.
  - split; [discriminate|]. intros H; inversion H; subst. rewrite Z.compare_refl in E1. discriminate.
Qed.
Lemma kcmp_lt a b : kcmp a b = Lt <-> klt a b.
Proof.
  unfold kcmp, klt. destruct a as [a1 a2], b as [b1 b2]; cbn [fst snd].
  destruct (a1 ?= b1) eqn:E1.
  - rewrite Z.compare_eq_iff in E1. subst. rewrite Z.compare_lt_iff. intuition lia.
  - rewrite Z.compare_lt_iff in E1. intuition lia.
  - rewrite Z.compare_gt_iff in E1. split; [discriminate|intros H; exfalso; lia].
Qed.
Lemma kcmp_gt a b : kcmp a b = Gt <-> klt b a.
Proof.
  unfold kcmp, klt. destruct a as [a1 a2], b as [b1 b2]; cbn [fst snd].
  destruct (a1 ?= b1) eqn:E1.
  - rewrite Z.compare_eq_iff in E1. subst. rewrite Z.compare_gt_iff. intuition lia.
  - rewrite Z.compare_lt_iff in E1. split; [discriminate|intros H; exfalso; lia].
  - rewrite Z.compare_gt_iff in E1. intuition lia.
Qed.
Lemma klt_irrefl a : ~ klt a a. Proof. unfold klt. lia. Qed.
Lemma klt_trans a b c : klt a b -> klt b c -> klt a c. Proof. unfold klt. lia. Qed.
Lemma kcmp_refl a : kcmp a a = Eq. Proof. now apply kcmp_eq. Qed.
Lemma kltb_spec a b : kltb a b = true <-> klt a b.
Proof. unfold kltb, klt. lia. Qed.

Lemma look_ins k v l k' :
  look (ins k v l) k' = (match kcmp k' k with Eq => v | _ => 0 end) + look l k'.
Proof.
  induction l as [|[k0 v0] t IH]; cbn [ins look]; [lia|].
  destruct (kcmp k k0) eqn:E; cbn [look].
  - apply kcmp_eq in E; subst k0. destruct (kcmp k' k); lia.
  - lia.
  - rewrite IH. lia.
Qed.

Lemma keys_ins k v l x : In x (keys (ins k v l)) <-> x = k \/ In x (keys l).
Proof.
  induction l as [|[k0 v0] t IH]; cbn [ins keys map In fst]; [intuition|].
  destruct (kcmp k k0) eqn:E; cbn [keys map In fst].
  - apply kcmp_eq in E; subst. intuition.
  - intuition.
  - fold (keys (ins k v t)). rewrite IH. fold (keys t). intuition.
Qed.

Lemma sorted_ins k v l : SSorted l -> SSorted (ins k v l).
Proof.
  unfold SSorted. induction l as [|[k0 v0] t IH]; cbn [ins keys map fst]; intro H.
  - constructor; constructor.
  - inversion H as [|? ? Ht Hall]; subst. destruct (kcmp k k0) eqn:E; cbn [keys map fst].
    + constructor; assumption.
    + apply kcmp_lt in E. constructor; [exact H|]. constructor; [exact E|].
      eapply Forall_impl; [|exact Hall]. intros a Ha. eapply klt_trans; eauto.
    + apply kcmp_gt in E. constructor; [apply IH; exact Ht|].
      apply Forall_forall. intros x Hx. apply (keys_ins k v t x) in Hx. destruct Hx as [->|Hx]; [exact E|].
      rewrite Forall_forall in Hall. apply Hall; exact Hx.
Qed.

Lemma look_notin l k : ~ In k (keys l) -> look l k = 0.
Proof.
  induction l as [|[k0 v0] t IH]; cbn [look keys map In fst]; intro H; [reflexivity|].
  destruct (kcmp k k0) eqn:E. { apply kcmp_eq in E. subst. exfalso; apply H; left; reflexivity. }
  all: rewrite IH; [lia| intro; apply H; right; assumption].
Qed.

Lemma look_app l1 l2 k : look (l1 ++ l2) k = look l1 k + look l2 k.
Proof. induction l1 as [|[k0 v0] t IH]; cbn [app look]; [lia|]. rewrite IH. lia. Qed.

Lemma look_perm l l' k : Permutation l l' -> look l k = look l' k.
Proof.
  induction 1 as [|[k0 v0] l l' _ IH|[k0 v0] [k1 v1] l|l l' l'' _ IH1 _ IH2]; cbn [look]; lia.
Qed.

Theorem canon_unique_raw l1 l2 : SSorted l1 -> SSorted l2 ->
  (forall k, In k (keys l1) <-> In k (keys l2)) -> (forall k, look l1 k = look l2 k) -> l1 = l2.
Proof.
  unfold SSorted. revert l2. induction l1 as [|[k1 v1] t1 IH]; intros l2 S1 S2 HK HL.
  - destruct l2 as [|[k2 v2] t2]; [reflexivity|]. exfalso. apply (HK k2). left; reflexivity.
  - destruct l2 as [|[k2 v2] t2]. { exfalso. apply (HK k1). left; reflexivity. }
    cbn [keys map fst] in *. inversion S1 as [|? ? S1t A1]; inversion S2 as [|? ? S2t A2]; subst.
    rewrite Forall_forall in A1, A2.
    assert (k1 = k2) as ->.
    { destruct (proj1 (HK k1) (or_introl eq_refl)) as [E|E]; [symmetry; exact E|].
      destruct (proj2 (HK k2) (or_introl eq_refl)) as [E'|E']; [exact E'|].
      exfalso. apply (klt_irrefl k1). eapply klt_trans; [apply A1; exact E' | apply A2; exact E]. }
    assert (N1: ~ In k2 (map fst t1)) by (intro X; apply (klt_irrefl k2); apply A1; exact X).
    assert (N2: ~ In k2 (map fst t2)) by (intro X; apply (klt_irrefl k2); apply A2; exact X).
    assert (v1 = v2) as ->.
    { pose proof (HL k2) as H. cbn [look] in H. rewrite kcmp_refl in H.
      rewrite (look_notin t1 k2 N1), (look_notin t2 k2 N2) in H. lia. }
    f_equal. apply IH; auto.
    + intro k. split; intro X.
      * destruct (proj1 (HK k) (or_intror X)) as [E|E]; [subst; contradiction|exact E].
      * destruct (proj2 (HK k) (or_intror X)) as [E|E]; [subst; contradiction|exact E].
    + intro k. pose proof (HL k) as H. cbn [look] in H. lia.
Qed.

Theorem canon_unique src a b : Canon src a -> Canon src b -> a = b.
Proof.
  intros (Sa & Ka & La) (Sb & Kb & Lb). apply canon_unique_raw; auto.
  - intros k. rewrite Ka, Kb. reflexivity.
  - intros k. rewrite La, Lb. reflexivity.
Qed.

Lemma fold_ins_facts l : forall acc,
  SSorted acc ->
  let r := fold_left (fun acc p => ins (fst p) (snd p) acc) l acc in
  SSorted r /\ (forall k, In k (keys r) <-> In k (keys acc) \/ In k (keys l))
  /\ (forall k, look r k = look acc k + look l k).
Proof.
  induction l as [|[k0 v0] t IH]; intros acc HS; cbn [fold_left].
  - split; [exact HS|]. split; [intros k; cbn; intuition|]. intros k; cbn; lia.
  - specialize (IH (ins k0 v0 acc) (sorted_ins k0 v0 acc HS)). cbn zeta in IH.
    destruct IH as (S' & K' & L'). cbn [fst snd]. split; [exact S'|]. split.
    + intros k. rewrite K', keys_ins. cbn [keys map In fst]. intuition.
    + intros k. rewrite L', look_ins. cbn [look]. lia.
Qed.

Theorem aggregate_canon l : Canon l (aggregate l).
Proof.
  unfold aggregate.
  destruct (fold_ins_facts l [] ltac:(constructor)) as (S' & K' & L').
  split; [exact S'|]. split.
  - intros k. rewrite K'. cbn. intuition.
  - intros k. rewrite L'. cbn. lia.
Qed.

Theorem aggregate_perm l l' : Permutation l l' -> aggregate l = aggregate l'.
Proof.
  intros HP. apply (canon_unique l); [apply aggregate_canon|].
  destruct (aggregate_canon l') as (S' & K' & L'). split; [exact S'|]. split.
  - intros k. rewrite K'. unfold keys. split; apply Permutation_in; [symmetry|]; now apply Permutation_map.
  - intros k. rewrite L'. symmetry. now apply look_perm.
Qed.

(** an already canonical table is its own aggregate *)
Theorem aggregate_sorted_id l : SSorted l -> aggregate l = l.
Proof.
  intros HS. apply (canon_unique l); [apply aggregate_canon|].
  split; [exact HS|]. split; intros; reflexivity.
Qed.

Lemma aggregate_app_agg l1 l2 : aggregate (aggregate l1 ++ l2) = aggregate (l1 ++ l2).
Proof.
  apply (canon_unique (l1 ++ l2)); [|apply aggregate_canon].
  destruct (aggregate_canon (aggregate l1 ++ l2)) as (S' & K' & L').
  destruct (aggregate_canon l1) as (S1 & K1 & L1).
  split; [exact S'|]. split.
  - intros k. rewrite K'. unfold keys in *. rewrite !map_app, !in_app_iff, K1. reflexivity.
  - intros k. rewrite L', !look_app, L1. reflexivity.
Qed.

Lemma ssorted_b_spec l : ssorted_b l = true <-> SSorted l.
Proof.
  unfold SSorted. induction l as [|p t IH]; cbn [ssorted_b].
  - split; [constructor|reflexivity].
  - destruct t as [|q t'].
    + split; [intros _; cbn; constructor; constructor|reflexivity].
    + rewrite andb_true_iff, IH, kltb_spec. cbn [keys map] in *. split.
      * intros [H1 H2]. constructor; [exact H2|]. constructor; [exact H1|].
        inversion H2 as [|? ? _ Hall]; subst. eapply Forall_impl; [|exact Hall].
        intros a Ha. eapply klt_trans; eauto.
      * intros H. inversion H as [|? ? H2 Hall]; subst. split; [|exact H2].
        inversion Hall; subst; assumption.
Qed.
