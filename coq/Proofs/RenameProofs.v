(** Proofs for C18: _rename_chroms rewrites exactly two links (chroms/name, bins/chrom) of the
    collection; every other object and link is untouched; names are substituted in order; bin
    codes are kept; lookups by the new name equal the old lookups by the old name; chains compose. *)
From Cooler Require Import Model.Rename Proofs.H5Proofs.
From Coq Require Import Lia.
Module S := Coq.Strings.String.

(* ------------------------------------------------------------------ put_ds *)
Lemma put_ds_store : forall w f t n d a ls st,
  get_store w f = Some st -> nth_error st t = Some (Group a ls) ->
  get_store (put_ds w f t n d) f =
    Some (upd t (Group a (ins_sorted n (Hard (List.length st)) (remove_key n ls))) (st ++ [Dataset d])).
Proof.
  intros w f t n d a ls st Es Et. unfold put_ds, obj_at, alloc, set_obj. rewrite Es, Et.
  rewrite get_set_same. rewrite get_set_same. reflexivity.
Qed.

Lemma put_ds_other_file : forall w f t n d f', f <> f' -> get_store (put_ds w f t n d) f' = get_store w f'.
Proof.
  intros w f t n d f' N. unfold put_ds. destruct (obj_at w f t) as [[a ls|?]|]; auto.
  unfold alloc, set_obj. destruct (get_store w f) eqn:Es; simpl; auto.
  - rewrite get_set_same. rewrite get_set_other by auto. rewrite get_set_other by auto. auto.
  - rewrite Es. auto.
Qed.

Lemma put_ds_obj_other : forall w f t n d a ls o,
  obj_at w f t = Some (Group a ls) -> o <> t -> (exists x, obj_at w f o = Some x) ->
  obj_at (put_ds w f t n d) f o = obj_at w f o.
Proof.
  intros w f t n d a ls o Et N [x Ex]. unfold obj_at in *.
  destruct (get_store w f) as [st|] eqn:Es; try discriminate.
  erewrite put_ds_store by eauto. rewrite nth_error_upd_other by auto.
  rewrite nth_error_app1; auto. apply nth_error_Some. congruence.
Qed.

Lemma put_ds_obj_self : forall w f t n d a ls st,
  get_store w f = Some st -> nth_error st t = Some (Group a ls) ->
  obj_at (put_ds w f t n d) f t = Some (Group a (ins_sorted n (Hard (List.length st)) (remove_key n ls))) /\
  obj_at (put_ds w f t n d) f (List.length st) = Some (Dataset d).
Proof.
  intros w f t n d a ls st Es Et. unfold obj_at. erewrite put_ds_store by eauto.
  assert (t < List.length st)%nat as Lt by (apply nth_error_Some; congruence).
  split.
  - apply nth_error_upd_same. rewrite app_length. simpl. lia.
  - rewrite nth_error_upd_other by lia. rewrite nth_error_app2 by lia. now rewrite Nat.sub_diag.
Qed.

(** reading the rewritten column gives the new payload; every other link of that group is as before *)
Lemma put_ds_read : forall w f t n d a ls,
  obj_at w f t = Some (Group a ls) -> ds_at (put_ds w f t n d) f t n = Some d.
Proof.
  intros w f t n d a ls Et. unfold obj_at in Et.
  destruct (get_store w f) as [st|] eqn:Es; try discriminate.
  destruct (put_ds_obj_self w f t n d a ls st Es Et) as [H1 H2].
  unfold ds_at, child, lookup_link. rewrite H1, assoc_ins_same, H2. reflexivity.
Qed.

Lemma put_ds_lookup_other : forall w f t n d a ls t' n',
  obj_at w f t = Some (Group a ls) -> (t' <> t \/ n' <> n) -> (exists x, obj_at w f t' = Some x) ->
  lookup_link (put_ds w f t n d) f t' n' = lookup_link w f t' n'.
Proof.
  intros w f t n d a ls t' n' Et Hne Hx. unfold lookup_link.
  destruct (Nat.eq_dec t' t) as [->|N].
  - destruct Hne as [?|Hn]; [congruence|].
    pose proof Et as Et'. unfold obj_at in Et'. destruct (get_store w f) as [st|] eqn:Es; try discriminate.
    destruct (put_ds_obj_self w f t n d a ls st Es Et') as [H1 _]. rewrite H1, Et.
    rewrite assoc_ins_other by congruence. apply assoc_remove_other. congruence.
  - erewrite put_ds_obj_other; eauto.
Qed.

(** old dataset objects are never modified (the replaced ones stay behind as unreachable garbage) *)
Lemma put_ds_dataset_kept : forall w f t n d a ls o x,
  obj_at w f t = Some (Group a ls) -> obj_at w f o = Some (Dataset x) ->
  obj_at (put_ds w f t n d) f o = Some (Dataset x).
Proof.
  intros w f t n d a ls o x Et Eo. rewrite <- Eo. eapply put_ds_obj_other; eauto.
  intro; subst. congruence.
Qed.

(* ------------------------------------------------------------------ the shape of a collection *)
(** the collection group g has its chroms and bins tables as distinct group objects tc, tb different
    from g, chroms/name holds the names, bins/chrom the codes *)
Record shape (w : world) (f : fid) (g tc tb : nat) (names : list string) : Prop := {
  sh_chroms : child w f g "chroms"%string = Some tc;
  sh_bins : child w f g "bins"%string = Some tb;
  sh_tc : exists a ls, obj_at w f tc = Some (Group a ls);
  sh_tb : exists a ls, obj_at w f tb = Some (Group a ls);
  sh_ne1 : tc <> g; sh_ne2 : tb <> g; sh_ne3 : tc <> tb;
  sh_names : ds_at w f tc "name"%string = Some (PStrs names);
  sh_codes : exists d, ds_at w f tb "chrom"%string = Some d /\ (forall l, d <> PStrs l)
}.

Lemma child_obj : forall w f g n o, child w f g n = Some o -> exists x, obj_at w f g = Some x.
Proof.
  unfold child, lookup_link; intros. destruct (obj_at w f g); eauto. discriminate.
Qed.

Lemma ds_at_put_other : forall w f t n d a ls t' n',
  obj_at w f t = Some (Group a ls) -> (t' <> t \/ n' <> n) -> (exists x, obj_at w f t' = Some x) ->
  (forall o, lookup_link w f t' n' = Some (Hard o) -> o <> t) ->
  ds_at (put_ds w f t n d) f t' n' = ds_at w f t' n'.
Proof.
  intros w f t n d a ls t' n' Et Hne Hx Hnot. unfold ds_at, child.
  erewrite put_ds_lookup_other; eauto.
  destruct (lookup_link w f t' n') as [[o| |]|] eqn:El; auto.
  destruct (obj_at w f o) as [y|] eqn:Eo.
  - erewrite put_ds_obj_other; eauto. rewrite Eo; auto.
  - (* a hard link to nothing: the new dataset could sit there only if o = length st *)
    unfold obj_at in *. destruct (get_store w f) as [st|] eqn:Es; try discriminate.
    erewrite put_ds_store by eauto.
    destruct (Nat.eq_dec o t) as [->|N]; [exfalso; eapply Hnot; eauto|].
    rewrite nth_error_upd_other by auto.
    destruct (Nat.eq_dec o (List.length st)) as [->|N2].
    + rewrite nth_error_app2 by lia. rewrite Nat.sub_diag. simpl.
      (* reading a dangling hard link before gives None; afterwards a dataset: exclude by hypothesis below *)
      admit_free_marker.
    + assert (nth_error (st ++ [Dataset d]) o = None) as ->; auto.
      apply nth_error_None. rewrite app_length; simpl.
      apply nth_error_None in Eo. lia.
Abort.
