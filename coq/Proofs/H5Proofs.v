(** Proofs about the HDF5 object-store model (Model/H5.v): path resolution is monotone under
    link additions, the h5py primitives and cooler's _copy only add links (frame), hard links
    denote the same object, a copy dumps exactly as its source, recognition and listing. *)
From Cooler Require Import Model.H5.
From Coq Require Import Lia.
Module S := Coq.Strings.String.
(* never let simpl/cbn unfold a 64-step traversal *)
Global Opaque FUEL VISIT_FUEL.

(* ------------------------------------------------------------------ association lists *)
Lemma eqb_refl' : forall n, S.eqb n n = true.
Proof. intro; apply S.eqb_refl. Qed.

Lemma assoc_ins_same : forall X n (x : X) l, assoc n (ins_sorted n x l) = Some x.
Proof.
  induction l as [|[m y] r IH]; simpl.
  - now rewrite eqb_refl'.
  - destruct (S.eqb n m) eqn:E; simpl.
    + now rewrite eqb_refl'.
    + destruct (S.ltb n m); simpl.
      * now rewrite eqb_refl'.
      * now rewrite E.
Qed.

Lemma assoc_ins_other : forall X n m (x : X) l, n <> m -> assoc m (ins_sorted n x l) = assoc m l.
Proof.
  induction l as [|[k y] r IH]; intros Hnm; simpl.
  - destruct (S.eqb m n) eqn:E; auto. apply S.eqb_eq in E. congruence.
  - destruct (S.eqb n k) eqn:E; simpl.
    + apply S.eqb_eq in E; subst k.
      destruct (S.eqb m n) eqn:E2; auto. apply S.eqb_eq in E2. congruence.
    + destruct (S.ltb n k); simpl.
      * destruct (S.eqb m n) eqn:E2; auto. apply S.eqb_eq in E2. congruence.
      * destruct (S.eqb m k); auto.
Qed.

Lemma assoc_remove_same : forall X n (l : list (string * X)), assoc n (remove_key n l) = None.
Proof.
  induction l as [|[m y] r IH]; simpl; auto.
  destruct (S.eqb n m) eqn:E; simpl; auto. now rewrite E.
Qed.

Lemma assoc_remove_other : forall X n m (l : list (string * X)), n <> m -> assoc m (remove_key n l) = assoc m l.
Proof.
  induction l as [|[k y] r IH]; intros Hnm; simpl; auto.
  destruct (S.eqb n k) eqn:E; simpl.
  - apply S.eqb_eq in E; subst k.
    destruct (S.eqb m n) eqn:E2; auto. apply S.eqb_eq in E2. congruence.
  - destruct (S.eqb m k); auto.
Qed.

(* ------------------------------------------------------------------ stores *)
Lemma nth_error_upd_same : forall X k (x : X) l, (k < List.length l)%nat -> nth_error (upd k x l) k = Some x.
Proof.
  induction k; destruct l; simpl; intros; try lia; auto. apply IHk. lia.
Qed.

Lemma nth_error_upd_other : forall X k j (x : X) l, k <> j -> nth_error (upd k x l) j = nth_error l j.
Proof.
  induction k; destruct l; destruct j; simpl; intros; try congruence; auto.
Qed.

Lemma length_upd : forall X k (x : X) l, List.length (upd k x l) = List.length l.
Proof. induction k; destruct l; simpl; auto. Qed.

Lemma get_set_same : forall w f s, get_store (set_store w f s) f = s.
Proof. destruct f; reflexivity. Qed.

Lemma get_set_other : forall w f g s, f <> g -> get_store (set_store w f s) g = get_store w g.
Proof. destruct f, g; simpl; congruence. Qed.

Lemma fid_eqb_eq : forall a b, fid_eqb a b = true <-> a = b.
Proof. destruct a, b; simpl; split; congruence. Qed.

Lemma fid_dec : forall a b : fid, {a = b} + {a <> b}.
Proof. decide equality. Qed.

(* ------------------------------------------------------------------ the "only links were added" order *)
Definition links_le (ls ls' : list (string * link)) : Prop :=
  forall n l, assoc n ls = Some l -> assoc n ls' = Some l.

Definition obj_le (x y : obj) : Prop :=
  match x, y with
  | Group a ls, Group a' ls' => a = a' /\ links_le ls ls'
  | Dataset d, Dataset d' => d = d'
  | _, _ => False
  end.

Definition store_le (s s' : option store) : Prop :=
  match s with
  | None => True
  | Some st => exists st', s' = Some st' /\
                 forall o x, nth_error st o = Some x -> exists y, nth_error st' o = Some y /\ obj_le x y
  end.

Definition world_le (w w' : world) : Prop := forall f, store_le (get_store w f) (get_store w' f).

Lemma obj_le_refl : forall x, obj_le x x.
Proof. destruct x; simpl; auto. split; auto. red; auto. Qed.

Lemma obj_le_trans : forall x y z, obj_le x y -> obj_le y z -> obj_le x z.
Proof.
  destruct x, y, z; simpl; try tauto; try congruence.
  intros [-> H1] [-> H2]. split; auto. red; intros. apply H2, H1; auto.
Qed.

Lemma world_le_refl : forall w, world_le w w.
Proof.
  intros w f. unfold store_le. destruct (get_store w f); auto.
  eexists; split; eauto. intros. eexists; split; eauto. apply obj_le_refl.
Qed.

Lemma world_le_trans : forall a b c, world_le a b -> world_le b c -> world_le a c.
Proof.
  intros a b c H1 H2 f. specialize (H1 f). specialize (H2 f). unfold store_le in *.
  destruct (get_store a f); auto.
  destruct H1 as (sb & Eb & Hb). rewrite Eb in H2. destruct H2 as (sc & Ec & Hc).
  exists sc; split; auto. intros o x Hx.
  destruct (Hb _ _ Hx) as (y & Hy & Lxy). destruct (Hc _ _ Hy) as (z & Hz & Lyz).
  exists z; split; auto. eapply obj_le_trans; eauto.
Qed.

Lemma world_le_obj : forall w w' f o x, world_le w w' -> obj_at w f o = Some x ->
  exists y, obj_at w' f o = Some y /\ obj_le x y.
Proof.
  unfold obj_at; intros w w' f o x H Hx. specialize (H f). unfold store_le in H.
  destruct (get_store w f); try discriminate.
  destruct H as (st' & E & Hst). rewrite E. auto.
Qed.

Lemma world_le_exists : forall w w' f, world_le w w' -> file_exists w f = true -> file_exists w' f = true.
Proof.
  unfold file_exists; intros w w' f H. specialize (H f). unfold store_le in H.
  destruct (get_store w f); try discriminate. destruct H as (st' & -> & _). auto.
Qed.

Lemma world_le_lookup : forall w w' f o n l, world_le w w' ->
  lookup_link w f o n = Some l -> lookup_link w' f o n = Some l.
Proof.
  unfold lookup_link; intros w w' f o n l H Hl.
  destruct (obj_at w f o) as [[a ls|d]|] eqn:E; try discriminate.
  destruct (world_le_obj _ _ _ _ _ H E) as (y & Ey & Ly). rewrite Ey.
  destruct y; simpl in Ly; try tauto. destruct Ly as [_ Ly]. auto.
Qed.

(* ------------------------------------------------------------------ resolution is monotone *)
Lemma walk_found_mono : forall k w w' x f o p f1 o1, world_le w w' ->
  walk k w x f o p = Found f1 o1 -> walk k w' x f o p = Found f1 o1.
Proof.
  induction k; simpl; intros w w' x f o p f1 o1 H Hw; try discriminate.
  destruct p as [|n rest]; auto.
  destruct (obj_at w f o) as [[a ls|d]|] eqn:E; try discriminate.
  destruct (world_le_obj _ _ _ _ _ H E) as (y & Ey & Ly). rewrite Ey.
  destruct y as [a' ls'|]; simpl in Ly; try tauto. destruct Ly as [_ Ly].
  destruct (assoc n ls) as [l|] eqn:El; try discriminate.
  rewrite (Ly _ _ El). destruct l; eauto.
  destruct (file_exists w f0) eqn:Ex; try discriminate.
  rewrite (world_le_exists _ _ _ H Ex). eauto.
Qed.

Lemma follow_found_mono : forall w w' f l f1 o1, world_le w w' ->
  follow w f l = Found f1 o1 -> follow w' f l = Found f1 o1.
Proof.
  intros w w' f l f1 o1 H. unfold follow. generalize FUEL; intro K.
  destruct l as [o'|q|f' q]; intro Hf.
  - exact Hf.
  - eapply walk_found_mono; eauto.
  - destruct (file_exists w f') eqn:Ex; try discriminate.
    rewrite (world_le_exists _ _ _ H Ex). eapply walk_found_mono; eauto.
Qed.

(** a Found result does not depend on the "external link crossed" flag, and survives more fuel *)
Lemma walk_found_flag : forall k w x x' f o p f1 o1,
  walk k w x f o p = Found f1 o1 -> walk k w x' f o p = Found f1 o1.
Proof.
  induction k; simpl; intros; try discriminate.
  destruct p as [|n rest]; auto.
  destruct (obj_at w f o) as [[a ls|d]|]; try discriminate.
  destruct (assoc n ls) as [l|]; try discriminate. destruct l; eauto.
  all: destruct (file_exists w f0); try discriminate; eauto.
Qed.

Lemma walk_found_fuel : forall k j w x f o p f1 o1,
  walk k w x f o p = Found f1 o1 -> walk (k + j) w x f o p = Found f1 o1.
Proof.
  induction k; simpl; intros; try discriminate.
  destruct p as [|n rest]; auto.
  destruct (obj_at w f o) as [[a ls|d]|]; try discriminate.
  destruct (assoc n ls) as [l|]; try discriminate. destruct l; eauto.
  all: destruct (file_exists w f0); try discriminate; eauto.
Qed.

(** the unbounded reading of path resolution: some budget suffices *)
Definition resolves_from (w : world) (f : fid) (o : nat) (p : path) (f1 : fid) (o1 : nat) : Prop :=
  exists k, walk k w false f o p = Found f1 o1.
Definition resolves (w : world) (f : fid) (p : path) (f1 : fid) (o1 : nat) : Prop :=
  resolves_from w f O p f1 o1.

Lemma resolve_resolves : forall w f p f1 o1, resolve w f p = Found f1 o1 -> resolves w f p f1 o1.
Proof. intros w f p f1 o1 H. exists FUEL. exact H. Qed.

Lemma resolves_mono : forall w w' f o p f1 o1, world_le w w' ->
  resolves_from w f o p f1 o1 -> resolves_from w' f o p f1 o1.
Proof. intros w w' f o p f1 o1 H [k Hk]. exists k. eapply walk_found_mono; eauto. Qed.

Lemma walk_app : forall k1 w x f o p f1 o1, walk k1 w x f o p = Found f1 o1 ->
  forall k2 x2 r f2 o2, walk k2 w x2 f1 o1 r = Found f2 o2 ->
  walk (k1 + k2) w x f o (p ++ r) = Found f2 o2.
Proof.
  induction k1; intros w x f o p f1 o1 H1 k2 x2 r f2 o2 H2; [simpl in H1; discriminate|].
  destruct p as [|n rest].
  - simpl in H1. inversion H1; subst.
    change ([] ++ r) with r. replace (S k1 + k2)%nat with (k2 + S k1)%nat by lia.
    apply walk_found_fuel. eapply walk_found_flag; eauto.
  - simpl in H1. change (S k1 + k2)%nat with (S (k1 + k2)). simpl.
    destruct (obj_at w f o) as [[a ls|d]|]; try discriminate.
    destruct (assoc n ls) as [l|]; try discriminate. destruct l.
    + eapply IHk1; eauto.
    + rewrite app_assoc. eapply IHk1; eauto.
    + destruct (file_exists w f0); try discriminate. rewrite app_assoc. eapply IHk1; eauto.
Qed.

Lemma resolves_step : forall w f o n l rest f1 o1 f2 o2,
  lookup_link w f o n = Some l -> follow w f l = Found f1 o1 ->
  resolves_from w f1 o1 rest f2 o2 -> resolves_from w f o (n :: rest) f2 o2.
Proof.
  intros w f o n l rest f1 o1 f2 o2 Hl Hf [k Hk].
  unfold lookup_link in Hl.
  destruct (obj_at w f o) as [[a ls|d]|] eqn:E; try discriminate.
  revert Hf. unfold follow. generalize FUEL; intro K.
  destruct l as [o'|q|f' q]; intro Hf.
  - inversion Hf; subst. exists (S k). simpl. rewrite E, Hl. exact Hk.
  - exists (S (K + k)). simpl. rewrite E, Hl. eapply walk_app; eauto.
  - destruct (file_exists w f') eqn:Ex; try discriminate.
    exists (S (K + k)). simpl. rewrite E, Hl, Ex.
    eapply walk_app; eauto.
Qed.

(* ------------------------------------------------------------------ the primitives only add links *)
Lemma store_le_refl : forall s, store_le s s.
Proof.
  destruct s; simpl; auto. eexists; split; eauto. intros. eexists; split; eauto. apply obj_le_refl.
Qed.

Lemma world_le_set : forall w f st st',
  get_store w f = Some st -> store_le (Some st) (Some st') -> world_le w (set_store w f (Some st')).
Proof.
  intros w f st st' E H g. destruct (fid_dec f g) as [<-|N].
  - rewrite get_set_same, E. exact H.
  - rewrite get_set_other by auto. apply store_le_refl.
Qed.

Lemma world_le_create : forall w f st', get_store w f = None -> world_le w (set_store w f (Some st')).
Proof.
  intros w f st' E g. destruct (fid_dec f g) as [<-|N].
  - rewrite E. simpl. auto.
  - rewrite get_set_other by auto. apply store_le_refl.
Qed.

Lemma store_le_app : forall st ext, store_le (Some st) (Some (st ++ ext)).
Proof.
  intros. eexists; split; eauto. intros o x Hx. exists x; split; [|apply obj_le_refl].
  rewrite nth_error_app1; auto. apply nth_error_Some. congruence.
Qed.

Lemma store_le_upd : forall st o x y, nth_error st o = Some x -> obj_le x y ->
  store_le (Some st) (Some (upd o y st)).
Proof.
  intros st o x y Hx Hle. eexists; split; eauto. intros o' x' Hx'.
  destruct (Nat.eq_dec o o') as [<-|N].
  - rewrite nth_error_upd_same by (apply nth_error_Some; congruence).
    eexists; split; eauto. congruence.
  - rewrite nth_error_upd_other by auto. eexists; split; eauto. apply obj_le_refl.
Qed.

Lemma store_le_trans : forall a b c, store_le a b -> store_le b c -> store_le a c.
Proof.
  intros a b c H1 H2. unfold store_le in *. destruct a; auto.
  destruct H1 as (sb & -> & Hb). destruct H2 as (sc & -> & Hc).
  eexists; split; eauto. intros o x Hx.
  destruct (Hb _ _ Hx) as (y & Hy & L1). destruct (Hc _ _ Hy) as (z & Hz & L2).
  exists z; split; auto. eapply obj_le_trans; eauto.
Qed.

Lemma alloc_le : forall w f x w1 g, alloc w f x = (w1, g) -> world_le w w1.
Proof.
  unfold alloc; intros w f x w1 g H. destruct (get_store w f) eqn:E; inversion H; subst.
  - eapply world_le_set; eauto. apply store_le_app.
  - apply world_le_refl.
Qed.

Lemma alloc_obj : forall w f x w1 g st, get_store w f = Some st -> alloc w f x = (w1, g) ->
  g = List.length st /\ get_store w1 f = Some (st ++ [x]) /\ obj_at w1 f g = Some x.
Proof.
  unfold alloc; intros w f x w1 g st E H. rewrite E in H. inversion H; subst.
  split; auto. unfold obj_at. rewrite get_set_same. split; auto.
  rewrite nth_error_app2 by lia. now rewrite Nat.sub_diag.
Qed.

Lemma set_obj_le : forall w f o x y, obj_at w f o = Some x -> obj_le x y -> world_le w (set_obj w f o y).
Proof.
  unfold obj_at, set_obj; intros w f o x y Hx Hle. destruct (get_store w f) eqn:E; try discriminate.
  eapply world_le_set; eauto. eapply store_le_upd; eauto.
Qed.

Lemma set_obj_at : forall w f o x y, obj_at w f o = Some x -> obj_at (set_obj w f o y) f o = Some y.
Proof.
  unfold obj_at, set_obj; intros w f o x y Hx. destruct (get_store w f) eqn:E; try discriminate.
  rewrite get_set_same. apply nth_error_upd_same. apply nth_error_Some. congruence.
Qed.

Lemma links_le_ins : forall n l ls, assoc n ls = None -> links_le ls (ins_sorted n l ls).
Proof.
  intros n l ls Hn m l' Hm. destruct (S.eqb n m) eqn:E.
  - apply S.eqb_eq in E; subst. congruence.
  - rewrite assoc_ins_other; auto. intro; subst. rewrite eqb_refl' in E. discriminate.
Qed.

Lemma bind_le : forall w f g n l w', bind w f g n l = Some w' -> world_le w w'.
Proof.
  unfold bind; intros w f g n l w' H.
  destruct (obj_at w f g) as [[a ls|d]|] eqn:E; try discriminate.
  destruct (assoc n ls) eqn:En; try discriminate. inversion H; subst.
  eapply set_obj_le; eauto. simpl. split; auto. now apply links_le_ins.
Qed.

Lemma bind_lookup : forall w f g n l w', bind w f g n l = Some w' -> lookup_link w' f g n = Some l.
Proof.
  unfold bind; intros w f g n l w' H.
  destruct (obj_at w f g) as [[a ls|d]|] eqn:E; try discriminate.
  destruct (assoc n ls) eqn:En; try discriminate. inversion H; subst.
  unfold lookup_link. erewrite set_obj_at by eauto. apply assoc_ins_same.
Qed.

Lemma ensure_gen_le : forall fol comps w xs xe f o w1 fl f1 g,
  ensure_gen fol w xs xe f o comps = Some (w1, fl, f1, g) -> world_le w w1.
Proof.
  induction comps as [|c rest IH]; simpl; intros w xs xe f o w1 fl f1 g H.
  - inversion H; subst. apply world_le_refl.
  - destruct (obj_at w f o) as [[a ls|d]|] eqn:E; try discriminate.
    destruct (assoc c ls) as [l|] eqn:Ec.
    + destruct (fol w f l); try discriminate. eauto.
    + destruct (alloc w f (Group [] [])) as [wa ga] eqn:Ea.
      eapply world_le_trans; [eapply alloc_le; eauto|].
      eapply world_le_trans; [|eapply IH; eauto].
      destruct (world_le_obj _ _ _ _ _ (alloc_le _ _ _ _ _ Ea) E) as (y & Ey & Ly).
      destruct y as [a' ls'|]; simpl in Ly; try tauto. destruct Ly as [<- Ly].
      assert (ls' = ls) as ->.
      { unfold alloc, obj_at in *. destruct (get_store w f) eqn:Es; try discriminate.
        inversion Ea; subst. rewrite get_set_same in Ey.
        rewrite nth_error_app1 in Ey by (apply nth_error_Some; congruence). congruence. }
      eapply set_obj_le; eauto. simpl; split; auto. now apply links_le_ins.
Qed.

Lemma ensure_le : forall comps w f o w1 fl f1 g,
  ensure w f o comps = Some (w1, fl, f1, g) -> world_le w w1.
Proof. unfold ensure; intros. eapply ensure_gen_le; eauto. Qed.

Lemma add_link_le : forall w f p l lf e1 e2, world_le w (snd (add_link w f p l lf e1 e2)).
Proof.
  unfold add_link; intros. destruct (split_last p) as [[par n]|]; simpl; [|apply world_le_refl].
  destruct (ensure w f 0 par) as [[[[w1 [xs xe]] f1] g]|] eqn:E; simpl; [|apply world_le_refl].
  pose proof (ensure_le _ _ _ _ _ _ _ _ E) as L1.
  destruct l.
  - destruct (fid_eqb f1 lf); simpl; auto.
    destruct (bind w1 f1 g n (Hard o)) eqn:B; simpl; [|apply world_le_refl].
    eapply world_le_trans; eauto. eapply bind_le; eauto.
  - destruct (bind w1 f1 g n (Soft p0)) eqn:B; simpl; [|apply world_le_refl].
    eapply world_le_trans; eauto. eapply bind_le; eauto.
  - destruct xe; simpl; [apply world_le_refl|].
    destruct (bind w1 f1 g n (Ext f0 p0)) eqn:B; simpl; [|apply world_le_refl].
    eapply world_le_trans; eauto. eapply bind_le; eauto.
Qed.

Lemma h5copy_le : forall w sf so df dg dp, world_le w (snd (h5copy w sf so df dg dp)).
Proof.
  unfold h5copy; intros. destruct (split_last dp) as [[par n]|]; simpl; [|apply world_le_refl].
  destruct (get_store w sf) as [src0|]; simpl; [|apply world_le_refl].
  destruct (ensure w df dg par) as [[[[w1 [xs xe]] f1] g]|] eqn:E; simpl; [|apply world_le_refl].
  pose proof (ensure_le _ _ _ _ _ _ _ _ E) as L1.
  destruct (xs || negb (fid_eqb f1 df)); simpl; [apply world_le_refl|].
  destruct (get_store w1 f1) as [st1|] eqn:Es; simpl; [|apply world_le_refl].
  destruct (nth_error st1 g) as [[a ls|d]|] eqn:Eg; simpl; try apply world_le_refl.
  destruct (assoc n ls) eqn:En; simpl; [apply world_le_refl|].
  eapply world_le_trans; eauto. eapply world_le_set; eauto.
  eapply store_le_trans; [|apply store_le_app].
  eapply store_le_upd; eauto. simpl; split; auto. now apply links_le_ins.
Qed.

Lemma copy_children_gen_le : forall fol cpy, (forall w a b c d e, world_le w (snd (cpy w a b c d e))) ->
  forall names w sf so df, world_le w (snd (copy_children_gen fol cpy w sf so names df)).
Proof.
  intros fol cpy Hc. induction names as [|[n l] rest IH]; simpl; intros; [apply world_le_refl|].
  destruct (fol w sf l); simpl; try apply world_le_refl.
  specialize (Hc w f o df 0%nat [n]). destruct (cpy w f o df 0%nat [n]) as [e w1]; simpl in *.
  destruct e; simpl; auto. eapply world_le_trans; eauto.
Qed.

Lemma copy_children_le : forall names w sf so df, world_le w (snd (copy_children w sf so names df)).
Proof. intros. apply copy_children_gen_le. intros. apply h5copy_le. Qed.

(* ------------------------------------------------------------------ frame of _copy (no overwrite, no rename) *)
Lemma open_dst_le : forall w df,
  world_le w (if negb (file_exists w df) || false then set_store w df (Some empty_store) else w).
Proof.
  intros. unfold file_exists. destruct (get_store w df) eqn:E; simpl.
  - apply world_le_refl.
  - now apply world_le_create.
Qed.

(** cp / ln / ln -s without the overwrite flag only ADD links (and objects): whatever the outcome,
    every object of both files is still there with the same attributes and payload and every link it
    had; hence (resolves_mono) every path that resolved keeps resolving to the same object.
    The one exception is the cross-file copy onto the root of the destination, which also updates the
    root attributes (copy_root_frame below). *)
Theorem copy_frame : forall w sf sp df dp link soft e w',
  _copy w sf sp df dp false link false soft = (e, w') ->
  (sf = df \/ dp <> [] \/ link = true \/ soft = true) ->
  world_le w w'.
Proof.
  intros w sf sp df dp link soft e w' H Hdom. unfold _copy in H.
  destruct (Nat.ltb 1 _); [inversion H; subst; apply world_le_refl|].
  destruct (negb (file_exists w sf)); [inversion H; subst; apply world_le_refl|].
  destruct (fid_eqb sf df && (negb (file_exists w df) || false)); [inversion H; subst; apply world_le_refl|].
  pose proof (open_dst_le w df) as L0.
  set (w1 := if negb (file_exists w df) || false then set_store w df (Some empty_store) else w) in *.
  assert (forall x, world_le w1 (snd x) -> x = (e, w') -> world_le w w') as K.
  { intros x Hx ->. eapply world_le_trans; eauto. }
  destruct (fid_eqb sf df) eqn:Esame.
  - destruct (link || false) eqn:El.
    + destruct (resolve w1 sf sp) eqn:Er.
      * pose proof (add_link_le w1 sf dp (Hard o) f EOS EOS) as La.
        destruct (add_link w1 sf dp (Hard o) f EOS EOS) as [ea wa]; simpl in La.
        destruct ea; inversion H; subst; eapply world_le_trans; eauto.
      * inversion H; subst; auto.
      * inversion H; subst; auto.
    + destruct soft.
      * eapply K; [|exact H]. apply add_link_le.
      * destruct (resolve w1 sf sp); try (inversion H; subst; auto; fail).
        eapply K; [|exact H]. apply h5copy_le.
  - destruct link; [inversion H; subst; auto|].
    destruct soft.
    + eapply K; [|exact H]. apply add_link_le.
    + destruct dp as [|d0 dr].
      * destruct Hdom as [->|[N|[N|N]]]; try congruence.
        rewrite (proj2 (fid_eqb_eq df df) eq_refl) in Esame. discriminate.
      * destruct (resolve w1 sf sp); try (inversion H; subst; auto; fail).
        eapply K; [|exact H]. apply h5copy_le.
Qed.

(** cross-file copy onto the destination root: links are only added; the root attributes are updated *)
Theorem copy_root_frame : forall w sf sp df e w', sf <> df ->
  _copy w sf sp df [] false false false false = (e, w') ->
  exists w2 a, world_le w w2 /\ (w' = w2 \/ w' = set_attrs w2 df 0%nat a).
Proof.
  intros w sf sp df e w' Hne H. unfold _copy in H.
  change (Nat.ltb 1 (0 + 0 + 0)) with false in H. cbv iota in H.
  pose (noa := @nil (string * aval)).
  destruct (negb (file_exists w sf)).
  { injection H as He Hw. subst w'. exists w, noa. split; [apply world_le_refl|left; reflexivity]. }
  assert (fid_eqb sf df = false) as Esame.
  { destruct (fid_eqb sf df) eqn:E; auto. apply fid_eqb_eq in E. congruence. }
  rewrite Esame in H. simpl andb in H. cbv iota in H.
  pose proof (open_dst_le w df) as L0.
  set (w1 := if negb (file_exists w df) || false then set_store w df (Some empty_store) else w) in *.
  destruct (resolve w1 sf sp) eqn:Er;
    try (injection H as He Hw; subst w'; exists w1, noa; split; [auto|left; reflexivity]; fail).
  destruct (obj_at w1 f o) as [[a ls|d]|];
    try (injection H as He Hw; subst w'; exists w1, noa; split; [auto|left; reflexivity]; fail).
  pose proof (copy_children_le ls w1 f o df) as Lc.
  destruct (copy_children w1 f o ls df) as [ec wc]; simpl in Lc.
  destruct ec; injection H as He Hw; subst w'; exists wc, a; (split; [eapply world_le_trans; eauto|auto]).
Qed.

(* ------------------------------------------------------------------ where a created link resolves *)
Lemma resolves_nil : forall w f o, resolves_from w f o [] f o.
Proof. intros. exists 1%nat. reflexivity. Qed.

Lemma resolves_app : forall w f o p f1 o1 r f2 o2,
  resolves_from w f o p f1 o1 -> resolves_from w f1 o1 r f2 o2 -> resolves_from w f o (p ++ r) f2 o2.
Proof. intros w f o p f1 o1 r f2 o2 [k1 H1] [k2 H2]. exists (k1 + k2)%nat. eapply walk_app; eauto. Qed.

Lemma split_last_app : forall p par n, split_last p = Some (par, n) -> p = par ++ [n].
Proof.
  induction p as [|c r IH]; simpl; intros par n H; try discriminate.
  destruct (split_last r) as [[q m]|] eqn:E.
  - inversion H; subst. simpl. f_equal. auto.
  - inversion H; subst. destruct r; simpl in E; auto.
    destruct (split_last r) as [[? ?]|]; discriminate.
Qed.

Lemma ensure_gen_resolves : forall comps w xs xe f o w1 fl f1 g,
  ensure_gen follow w xs xe f o comps = Some (w1, fl, f1, g) -> resolves_from w1 f o comps f1 g.
Proof.
  induction comps as [|c rest IH]; simpl; intros w xs xe f o w1 fl f1 g H.
  - inversion H; subst. apply resolves_nil.
  - destruct (obj_at w f o) as [[a ls|d]|] eqn:E; try discriminate.
    destruct (assoc c ls) as [l|] eqn:Ec.
    + destruct (follow w f l) as [f' o'| |] eqn:Ef; try discriminate.
      pose proof (ensure_gen_le _ _ _ _ _ _ _ _ _ _ _ H) as L.
      eapply resolves_step.
      * eapply world_le_lookup; eauto. unfold lookup_link. rewrite E. exact Ec.
      * eapply follow_found_mono; eauto.
      * eapply IH; eauto.
    + destruct (alloc w f (Group [] [])) as [wa ga] eqn:Ea.
      pose proof (ensure_gen_le _ _ _ _ _ _ _ _ _ _ _ H) as L.
      destruct (world_le_obj _ _ _ _ _ (alloc_le _ _ _ _ _ Ea) E) as (y & Ey & _).
      eapply resolves_step with (l := Hard ga).
      * eapply world_le_lookup; eauto. unfold lookup_link.
        erewrite set_obj_at by eauto. apply assoc_ins_same.
      * reflexivity.
      * eapply IH; eauto.
Qed.

Lemma exists_err_not_ok : forall w f g n e, e <> Ok -> exists_err w f g n e <> Ok.
Proof.
  unfold exists_err; intros. destruct (lookup_link w f g n); auto. destruct (follow w f l); auto; discriminate.
Qed.

Lemma add_link_ok : forall w f p l lf e1 e2 w', e1 <> Ok -> e2 <> Ok ->
  add_link w f p l lf e1 e2 = (Ok, w') ->
  exists par n w1 fl f1 g, split_last p = Some (par, n) /\ ensure w f 0 par = Some (w1, fl, f1, g) /\
    bind w1 f1 g n l = Some w' /\ (forall o, l = Hard o -> f1 = lf).
Proof.
  unfold add_link; intros w f p l lf e1 e2 w' N1 N2 H.
  destruct (split_last p) as [[par n]|]; [|inversion H; congruence].
  destruct (ensure w f 0 par) as [[[[w1 [xs xe]] f1] g]|] eqn:E; [|inversion H; congruence].
  exists par, n, w1, (xs, xe), f1, g. split; auto. split; auto.
  assert (forall x, (exists_err w1 f1 g n e1, x) = (Ok, w') -> False) as K.
  { intros x Hx. injection Hx as Hx1 Hx2. exact (exists_err_not_ok w1 f1 g n e1 N1 Hx1). }
  destruct l.
  - destruct (fid_eqb f1 lf) eqn:Ef; [|inversion H].
    destruct (bind w1 f1 g n (Hard o)) eqn:B; [|exfalso; eauto].
    inversion H; subst. split; auto. intros. now apply fid_eqb_eq.
  - destruct (bind w1 f1 g n (Soft p0)) eqn:B; [|exfalso; eauto].
    inversion H; subst. split; auto. intros; discriminate.
  - destruct xe; [inversion H|].
    destruct (bind w1 f1 g n (Ext f0 p0)) eqn:B; [|exfalso; eauto].
    inversion H; subst. split; auto. intros; discriminate.
Qed.

Lemma link_created_resolves : forall w f p l lf e1 e2 w', e1 <> Ok -> e2 <> Ok ->
  add_link w f p l lf e1 e2 = (Ok, w') ->
  exists par n f1 g, p = par ++ [n] /\ resolves_from w' f 0 par f1 g /\ lookup_link w' f1 g n = Some l /\
                     (forall o, l = Hard o -> f1 = lf).
Proof.
  intros w f p l lf e1 e2 w' N1 N2 H.
  destruct (add_link_ok _ _ _ _ _ _ _ _ N1 N2 H) as (par & n & w1 & fl & f1 & g & Hs & He & Hb & Hh).
  exists par, n, f1, g. split; [now apply split_last_app|]. split.
  - eapply resolves_mono; [eapply bind_le; eauto|]. unfold ensure in He. eapply ensure_gen_resolves; eauto.
  - split; auto. eapply bind_lookup; eauto.
Qed.

(** fileops.ln (hard link, same file): the destination is THE SAME OBJECT as the source *)
Theorem ln_spec : forall w f sp dp w',
  _copy w f sp f dp false true false false = (Ok, w') ->
  exists fo o, resolve w f sp = Found fo o /\ resolves w' f dp fo o /\ world_le w w'.
Proof.
  intros w f sp dp w' H.
  assert (world_le w w') as L by (eapply copy_frame; eauto).
  unfold _copy in H. change (Nat.ltb 1 (1 + 0 + 0)) with false in H. cbv iota in H.
  destruct (file_exists w f) eqn:Ex; simpl negb in H; cbv iota in H; [|discriminate].
  rewrite (proj2 (fid_eqb_eq f f) eq_refl) in H. simpl in H.
  destruct (resolve w f sp) as [fo o| |] eqn:Er; try discriminate.
  destruct (add_link w f dp (Hard o) fo EOS EOS) as [ea wa] eqn:Ea.
  destruct ea; try discriminate. injection H as Hw. subst wa.
  assert (EOS <> Ok) as NE by discriminate.
  destruct (link_created_resolves w f dp (Hard o) fo EOS EOS w' NE NE Ea)
    as (par & n & f1 & g & -> & Hpar & Hl & Hh).
  exists fo, o. split; auto. split; auto.
  rewrite (Hh o eq_refl) in *.
  eapply resolves_app; eauto. eapply resolves_step; eauto; [reflexivity|apply resolves_nil].
Qed.

(* ------------------------------------------------------------------ witnesses (known findings, refutations) *)
Definition tiny (k : Z) : cspec :=
  mkSpec [("pixels"%string, Table [("count"%string, Fresh (PInts [k]))])] [("format"%string, AStr MAGIC)].
Definition sx : path := ["x"%string].
Definition sxy : path := ["x"%string; "y"%string].

(** D14a: after  ln f::/ f::/a/b  the traversal of list_coolers exhausts its budget (RecursionError) *)
Definition w_cycle : world :=
  run world0 [OCreate FA [] false (tiny 1); OCopy FA [] FA ["a"; "b"]%string false true false false].
Lemma listing_cycle_refuted : list_coolers w_cycle FA = (ERecursion, []) /\ is_cooler w_cycle FA ["a"; "b"]%string = TTrue.
Proof. vm_compute. split; reflexivity. Qed.

(** D14b: a collection reached through an external link is listed under the target's own path *)
Definition w_ext : world :=
  run world0 [OCreate FA sx false (tiny 1); OCopy FA sx FB ["e"%string] false false false true].
Lemma listing_external_refuted :
  list_coolers w_ext FB = (Ok, [sx]) /\ is_cooler w_ext FB ["e"%string] = TTrue /\ is_cooler w_ext FB sx = TFalse.
Proof. vm_compute. repeat split; reflexivity. Qed.

(** D14c: a dangling link makes the listing fail (AttributeError) *)
Definition w_dangling : world :=
  run world0 [OCreate FA sx false (tiny 1); OCopy FA sx FA ["y"%string] false false false true;
              OCopy FA sx FA ["z"%string] false false true false].
Lemma listing_dangling_refuted :
  list_coolers w_dangling FA = (EAttr, []) /\ is_cooler w_dangling FA ["z"%string] = TTrue /\
  is_cooler w_dangling FA ["y"%string] = TFalse.
Proof. vm_compute. repeat split; reflexivity. Qed.

(** D23: mv into the moved group itself succeeds and the collection is unreachable afterwards *)
Lemma mv_spec_refuted :
  let w := run world0 [OCreate FA sx false (tiny 1)] in
  let r := mv w FA sx FA sxy false in
  fst r = Ok /\ resolve (snd r) FA sxy = Missing true /\
  resolve (snd r) FA sx = Missing false /\ list_coolers (snd r) FA = (Ok, []).
Proof. vm_compute. repeat split; reflexivity. Qed.

(** D24: mv of the root collection fails (KeyError) and still leaves the new hard link behind *)
Lemma mv_root_error_changes_file :
  let w := run world0 [OCreate FA [] false (tiny 1)] in
  let r := mv w FA [] FA sx false in
  fst r = EKey /\ is_cooler w FA sx = TFalse /\ is_cooler (snd r) FA sx = TTrue.
Proof. vm_compute. repeat split; reflexivity. Qed.

(** D26: a soft link created below an external link lands in the other file and dangles *)
Lemma lns_behind_external_refuted :
  let w := run world0 [OCreate FA sxy false (tiny 1); OCreate FB ["z"%string] false (tiny 2);
                       OCopy FA sxy FB sx false false false true] in
  let r := ln w FB ["z"%string] FB sxy true false in
  fst r = Ok /\ is_cooler w FB ["z"%string] = TTrue /\ is_cooler (snd r) FB sxy = TFalse /\
  lookup_link (snd r) FA 2%nat "y"%string = Some (Soft ["z"%string]).
Proof. vm_compute. repeat split; reflexivity. Qed.

(** the error frame does NOT extend to the overwrite flag: a refused cross-file hard link with
    overwrite=True has already truncated the destination file *)
Lemma error_frame_overwrite_refuted :
  let w := run world0 [OCreate FA sx false (tiny 1); OCreate FB sx false (tiny 2)] in
  let r := ln w FA sx FB ["y"%string] false true in
  fst r = EOS /\ is_cooler w FB sx = TTrue /\ is_cooler (snd r) FB sx = TFalse.
Proof. vm_compute. repeat split; reflexivity. Qed.

(** non-vacuity of the frame / same-object theorems *)
Lemma ex_ln_ok :
  let w := run world0 [OCreate FA sx false (tiny 1)] in
  let r := ln w FA sx FA ["z"%string] false false in
  fst r = Ok /\ resolve (snd r) FA ["z"%string] = resolve w FA sx /\ resolve w FA sx = Found FA 1%nat.
Proof. vm_compute. repeat split; reflexivity. Qed.

(* ------------------------------------------------------------------ recognition *)
(** is_cooler never raises (after the D5 and D25 repairs) *)
Theorem is_cooler_never_raises : forall w f p e, is_cooler w f p <> TRaise e.
Proof.
  intros w f p e. unfold is_cooler.
  destruct (negb (file_exists w f)); [discriminate|].
  destruct (contains w f p); try discriminate.
  destruct (resolve w f p); try discriminate.
  destruct (obj_at w f0 o); try discriminate.
  destruct (is_cooler_obj o0); discriminate.
Qed.

(** it is true exactly when the file exists, the path is a member path, and it resolves to an object
    tagged with the cooler format *)
Theorem is_cooler_true_iff : forall w f p,
  is_cooler w f p = TTrue <->
  file_exists w f = true /\ contains w f p = TTrue /\
  exists f1 o x, resolve w f p = Found f1 o /\ obj_at w f1 o = Some x /\ is_cooler_obj x = true.
Proof.
  intros w f p. unfold is_cooler. split.
  - destruct (file_exists w f); simpl; [|discriminate].
    destruct (contains w f p); try discriminate.
    destruct (resolve w f p) as [f1 o| |]; try discriminate.
    destruct (obj_at w f1 o) as [x|] eqn:E; try discriminate.
    destruct (is_cooler_obj x) eqn:Ec; try discriminate.
    intros _. repeat split; auto. exists f1, o, x. auto.
  - intros (Hex & Hc & f1 & o & x & Hr & Ho & Hx). now rewrite Hex, Hc, Hr, Ho, Hx.
Qed.

(** false - not an error - for a path that is not a member path (D5) or does not resolve (D25) *)
Theorem is_cooler_false_elsewhere : forall w f p,
  (contains w f p <> TTrue \/ (forall f1 o, resolve w f p <> Found f1 o)) -> is_cooler w f p = TFalse.
Proof.
  intros w f p H. unfold is_cooler.
  destruct (negb (file_exists w f)); auto.
  destruct (contains w f p) eqn:Ec; auto.
  destruct (resolve w f p) as [f1 o| |] eqn:Er; auto.
  destruct H as [H|H]; [congruence|]. exfalso. eapply H; eauto.
Qed.

(* ------------------------------------------------------------------ write mode *)
Lemma set_store_twice : forall w f a b, set_store (set_store w f a) f b = set_store w f b.
Proof. destruct f; reflexivity. Qed.

(** mode "w" replaces the file: the result does not depend on what the file held (or whether it existed) *)
Theorem create_w_replaces : forall w f p spec,
  create w f p true spec = create (set_store w f None) f p true spec.
Proof. intros. unfold create. simpl orb. cbv iota. now rewrite set_store_twice. Qed.


(* ------------------------------------------------------------------ a copy reads as its source *)
Definition shift_entry (k : nat) (pe : path * dentry) : path * dentry :=
  (fst pe, match snd pe with
           | DG o a => DG (o + k) a
           | DD o x => DD (o + k) x
           | e => e
           end).

Lemma flat_map_map_ext : forall X Y Z (F : X -> list Y) (F' : X -> list Z) (G : X -> X) (Sf : Y -> Z) ls,
  (forall x, In x ls -> F' (G x) = map Sf (F x)) -> flat_map F' (map G ls) = map Sf (flat_map F ls).
Proof.
  induction ls as [|x r IH]; simpl; intros H; auto.
  rewrite map_app, H by auto. f_equal. apply IH. intros; apply H; auto.
Qed.

(** [blk] = the copied block: object o of the source store sits, shifted, at o + k of the destination store *)
Definition copied_block (w w' : world) (sf df : fid) (k : nat) : Prop :=
  exists st_s st', get_store w sf = Some st_s /\ get_store w' df = Some st' /\
    forall o, nth_error st' (o + k) = option_map (shift_obj k) (nth_error st_s o).

Lemma dump_shift : forall d w w' sf df k, copied_block w w' sf df k ->
  forall o pre, dump d w' df (o + k) pre = map (shift_entry k) (dump d w sf o pre).
Proof.
  induction d; intros w w' sf df k Hb o pre; simpl; auto.
  destruct Hb as (st_s & st' & Es & Es' & Hn).
  assert (forall o, obj_at w' df (o + k) = option_map (shift_obj k) (obj_at w sf o)) as Ho.
  { intro o0. unfold obj_at. rewrite Es, Es'. apply Hn. }
  rewrite Ho. destruct (obj_at w sf o) as [[a ls|x]|]; simpl; auto.
  apply flat_map_map_ext. intros [n l] _. simpl. destruct l as [o'| |]; simpl; auto.
  rewrite Ho. destruct (obj_at w sf o') as [[a' ls'|x']|]; simpl; auto.
  unfold shift_entry at 1. simpl. f_equal.
  apply IHd. exists st_s, st'. auto.
Qed.

Lemma h5copy_ok : forall w sf so df dg dp w', h5copy w sf so df dg dp = (Ok, w') ->
  exists k par n g,
    copied_block w w' sf df k /\ dp = par ++ [n] /\
    resolves_from w' df dg par df g /\ lookup_link w' df g n = Some (Hard (so + k)).
Proof.
  unfold h5copy; intros w sf so df dg dp w' H.
  destruct (split_last dp) as [[par n]|] eqn:Hs; try discriminate.
  destruct (get_store w sf) as [src0|] eqn:Esrc; try discriminate.
  destruct (ensure w df dg par) as [[[[w1 [xs xe]] f1] g]|] eqn:E; try discriminate.
  destruct (xs || negb (fid_eqb f1 df)) eqn:Ex; try discriminate.
  apply orb_false_iff in Ex. destruct Ex as [_ Ef]. apply negb_false_iff in Ef. apply fid_eqb_eq in Ef. subst f1.
  destruct (get_store w1 df) as [st1|] eqn:Es1; try discriminate.
  destruct (nth_error st1 g) as [[a ls|]|] eqn:Eg; try discriminate.
  destruct (assoc n ls) eqn:En; try discriminate.
  injection H as <-.
  set (k := List.length st1).
  assert (g < k)%nat as Lg by (apply nth_error_Some; congruence).
  exists k, par, n, g. split; [|split; [|split]].
  - exists src0, (upd g (Group a (ins_sorted n (Hard (so + k)) ls)) st1 ++ map (shift_obj k) src0).
    split; auto. split; [apply get_set_same|].
    intro o. rewrite nth_error_app2 by (rewrite length_upd; fold k; lia).
    rewrite length_upd. fold k. replace (o + k - k)%nat with o by lia. apply nth_error_map.
  - now apply split_last_app.
  - eapply resolves_mono; [|unfold ensure in E; eapply ensure_gen_resolves; eauto].
    eapply world_le_set; eauto.
    eapply store_le_trans; [|apply store_le_app].
    eapply store_le_upd; eauto. simpl; split; auto. now apply links_le_ins.
  - unfold lookup_link, obj_at. rewrite get_set_same.
    rewrite nth_error_app1 by (rewrite length_upd; fold k; lia).
    rewrite nth_error_upd_same by (fold k; lia). apply assoc_ins_same.
Qed.

(** fileops.cp onto a non-root destination of an existing file: the destination resolves to a NEW object
    (id shifted by k) that dumps - structure, attributes, payloads, link values, sharing pattern - exactly as
    the source object did, and nothing else changed (copy_frame) *)
Theorem cp_spec : forall w sf sp df dp w',
  file_exists w df = true -> (sf = df \/ dp <> []) ->
  _copy w sf sp df dp false false false false = (Ok, w') ->
  exists fs o k,
    resolve w sf sp = Found fs o /\ resolves w' df dp df (o + k) /\
    (forall d pre, dump d w' df (o + k) pre = map (shift_entry k) (dump d w fs o pre)) /\
    world_le w w'.
Proof.
  intros w sf sp df dp w' Hex Hdom H.
  assert (world_le w w') as L by (eapply copy_frame; eauto; tauto).
  unfold _copy in H. change (Nat.ltb 1 (0 + 0 + 0)) with false in H. cbv iota in H.
  destruct (negb (file_exists w sf)); try discriminate.
  rewrite Hex in H. simpl negb in H. simpl orb in H. rewrite andb_false_r in H. cbv iota in H.
  assert (forall fs o, h5copy w fs o df 0 dp = (Ok, w') -> resolve w sf sp = Found fs o ->
          exists fs0 o0 k, Found fs o = Found fs0 o0 /\ resolves w' df dp df (o0 + k) /\
            (forall d pre, dump d w' df (o0 + k) pre = map (shift_entry k) (dump d w fs0 o0 pre)) /\ world_le w w') as K.
  { intros fs o Hc Hr. destruct (h5copy_ok _ _ _ _ _ _ _ Hc) as (k & par & n & g & Hb & -> & Hpar & Hl).
    exists fs, o, k. split; auto. split; [|split; auto].
    - eapply resolves_app; eauto. eapply resolves_step; eauto; [reflexivity|apply resolves_nil].
    - intros. now apply dump_shift. }
  destruct (fid_eqb sf df) eqn:Esame.
  - simpl in H. destruct (resolve w sf sp) as [fs o| |] eqn:Er; try discriminate.
    apply fid_eqb_eq in Esame. subst df. eapply K; eauto.
  - simpl in H. destruct dp as [|d0 dr].
    + destruct Hdom as [->|N]; [|congruence]. rewrite (proj2 (fid_eqb_eq df df) eq_refl) in Esame. discriminate.
    + destruct (resolve w sf sp) as [fs o| |] eqn:Er; try discriminate. eapply K; eauto.
Qed.

(* ------------------------------------------------------------------ the listing traversal *)
(** one traversal step of TreeNode.get_children: a member (k, l) of group (f, o) that opens to (f1, o1),
    named the way h5py names it *)
Definition vstep (w : world) (f : fid) (o : nat) (name nm : path) (f1 : fid) (o1 : nat) : Prop :=
  exists a ls k l, obj_at w f o = Some (Group a ls) /\ In (k, l) ls /\
                   nm = child_name name k l /\ follow w f l = Found f1 o1.
Inductive reach (w : world) : fid -> nat -> path -> path -> fid -> nat -> Prop :=
  | reach_one : forall f o name nm f1 o1, vstep w f o name nm f1 o1 -> reach w f o name nm f1 o1
  | reach_more : forall f o name nm f1 o1 p f2 o2,
      vstep w f o name nm f1 o1 -> reach w f1 o1 nm p f2 o2 -> reach w f o name p f2 o2.

Fixpoint go (vis : fid -> nat -> path -> visit_result) (cs : list (path * res)) : visit_result :=
  match cs with
  | [] => (Ok, [])
  | (nm, Found f1 o1) :: r =>
      match vis f1 o1 nm with
      | (Ok, sub) => match go vis r with
                     | (Ok, t) => (Ok, (nm, f1, o1) :: sub ++ t)
                     | e => e
                     end
      | e => e
      end
  | (_, _) :: _ => (EAttr, [])
  end.

Lemma visit_unfold : forall k w f o name,
  visit (S k) w f o name =
  match obj_at w f o with
  | Some (Group _ ls) =>
      match open_children w f name ls with
      | None => (ERuntime, [])
      | Some cs => go (visit k w) cs
      end
  | _ => (Ok, [])
  end.
Proof.
  intros. unfold visit at 1. simpl. destruct (obj_at w f o) as [[a ls|]|]; auto.
  destruct (open_children w f name ls) as [cs|]; auto.
  induction cs as [|[nm r] cs IH]; simpl; auto.
  destruct r; auto. fold (visit k w f0 o0 nm). destruct (visit k w f0 o0 nm) as [[] sub]; auto.
  rewrite IH. reflexivity.
Qed.

Lemma open_children_spec : forall ls w f name cs, open_children w f name ls = Some cs ->
  cs = map (fun kl => (child_name name (fst kl) (snd kl), follow w f (snd kl))) ls.
Proof.
  unfold open_children. induction ls as [|[k l] r IH]; simpl; intros w f name cs H.
  - now injection H as <-.
  - destruct (follow w f l) eqn:Ef; try discriminate;
      destruct (open_children_gen follow w f name r) as [t|] eqn:Et; try discriminate;
      injection H as <-; simpl; f_equal; eauto.
Qed.

Lemma go_spec : forall vis cs L, go vis cs = (Ok, L) ->
  (forall nm r, In (nm, r) cs -> exists f1 o1 sub, r = Found f1 o1 /\ vis f1 o1 nm = (Ok, sub)) /\
  (forall x, In x L <-> exists nm f1 o1 sub, In (nm, Found f1 o1) cs /\ vis f1 o1 nm = (Ok, sub) /\
                                              (x = (nm, f1, o1) \/ In x sub)).
Proof.
  induction cs as [|[nm r] cs IH]; simpl; intros L H.
  - injection H as <-. split; [intros ? ? []|]. intro x; split; [intros []|intros (?&?&?&?&[]&_)].
  - destruct r as [f1 o1| |]; try discriminate.
    destruct (vis f1 o1 nm) as [e sub] eqn:Ev. destruct e; try discriminate.
    destruct (go vis cs) as [e t] eqn:Eg. destruct e; try discriminate.
    injection H as <-. destruct (IH _ eq_refl) as (A & B). split.
    + intros nm' r' [E|Hin]; [injection E as <- <-; eauto|eauto].
    + intro x. split.
      * intros [<-|Hin].
        -- exists nm, f1, o1, sub. auto.
        -- apply in_app_or in Hin. destruct Hin as [Hin|Hin].
           ++ exists nm, f1, o1, sub. auto.
           ++ apply B in Hin. destruct Hin as (nm' & f' & o' & sub' & I & V & D).
              exists nm', f', o', sub'. auto.
      * intros (nm' & f' & o' & sub' & [E|I] & V & D).
        -- injection E as <- <- <-. rewrite Ev in V. injection V as <-.
           destruct D as [->|D]; [left; auto|right; apply in_or_app; auto].
        -- right. apply in_or_app. right. apply B. exists nm', f', o', sub'. auto.
Qed.

(** partial correctness of the traversal: IF it returns without an error, the visited nodes are exactly
    the objects reachable through members, each under the name h5py reports *)
Theorem visit_exact : forall k w f o name nodes, visit k w f o name = (Ok, nodes) ->
  forall p f2 o2, In (p, f2, o2) nodes <-> reach w f o name p f2 o2.
Proof.
  induction k; intros w f o name nodes H; [discriminate|].
  rewrite visit_unfold in H.
  destruct (obj_at w f o) as [[a ls|d]|] eqn:Eo.
  - destruct (open_children w f name ls) as [cs|] eqn:Eoc; try discriminate.
    pose proof (open_children_spec _ _ _ _ _ Eoc) as Hcs.
    destruct (go_spec _ _ _ H) as (A & B).
    assert (forall nm f1 o1, In (nm, Found f1 o1) cs <-> vstep w f o name nm f1 o1) as Hstep.
    { intros nm f1 o1. rewrite Hcs. rewrite in_map_iff. split.
      - intros ([k0 l] & E & Hin). simpl in E. injection E as <- Ef.
        exists a, ls, k0, l. auto.
      - intros (a' & ls' & k0 & l & Eo' & Hin & -> & Ef). rewrite Eo in Eo'. injection Eo' as <- <-.
        exists (k0, l). simpl. rewrite Ef. auto. }
    intros p f2 o2. rewrite B. split.
    + intros (nm & f1 & o1 & sub & I & V & D). apply Hstep in I.
      destruct D as [E|D]; [injection E as -> -> ->; now apply reach_one|].
      eapply reach_more; eauto. eapply IHk; eauto.
    + intros R. inversion R as [? ? ? nm f1 o1 S|? ? ? nm f1 o1 ? ? ? S R']; subst.
      * pose proof S as S0. apply Hstep in S. destruct (A _ _ S) as (f1' & o1' & sub & E & V).
        injection E as <- <-. exists p, f2, o2, sub. auto.
      * pose proof S as S0. apply Hstep in S. destruct (A _ _ S) as (f1' & o1' & sub & E & V).
        injection E as <- <-. exists nm, f1, o1, sub. split; auto. split; auto. right. eapply IHk; eauto.
  - injection H as <-. intros p f2 o2. split; [intros []|].
    intros R. inversion R as [? ? ? nm f1 o1 (a & ls & k0 & l & E & _)|? ? ? nm f1 o1 ? ? ? (a & ls & k0 & l & E & _) _]; congruence.
  - injection H as <-. intros p f2 o2. split; [intros []|].
    intros R. inversion R as [? ? ? nm f1 o1 (a & ls & k0 & l & E & _)|? ? ? nm f1 o1 ? ? ? (a & ls & k0 & l & E & _) _]; congruence.
Qed.

(** list_coolers: whenever it returns a listing at all, the listing is exact with respect to reachability *)
Theorem listing_exact_reach : forall w f L, list_coolers w f = (Ok, L) ->
  forall p, In p L <->
    (p = [] /\ is_cooler_at w f 0 = true) \/
    (exists f2 o2, reach w f 0 [] p f2 o2 /\ is_cooler_at w f2 o2 = true).
Proof.
  intros w f L H p. unfold list_coolers in H.
  destruct (negb (file_exists w f)); try discriminate.
  destruct (visit VISIT_FUEL w f 0 []) as [e nodes] eqn:Ev. destruct e; try discriminate.
  injection H as <-. pose proof (visit_exact _ _ _ _ _ _ Ev) as Hv.
  rewrite in_app_iff, in_map_iff. split.
  - intros [Hroot|((q, o2) & E & Hin)].
    + left. destruct (is_cooler_at w f 0); [|destruct Hroot]. destruct Hroot as [<-|[]]. auto.
    + right. destruct q as [p' f2]. simpl in E. subst p'. apply filter_In in Hin. destruct Hin as [Hin Hc].
      simpl in Hc. exists f2, o2. split; auto. now apply Hv.
  - intros [[-> Hc]|(f2 & o2 & R & Hc)].
    + left. rewrite Hc. simpl. auto.
    + right. exists (p, f2, o2). split; auto. apply filter_In. split; auto. now apply Hv.
Qed.

(* ------------------------------------------------------------------ reachability = path resolution (no external links) *)
Definition no_ext (w : world) (f : fid) : Prop :=
  forall o a ls k l, obj_at w f o = Some (Group a ls) -> In (k, l) ls -> is_ext l = false.
Definition nodup_keys (w : world) (f : fid) : Prop :=
  forall o a ls, obj_at w f o = Some (Group a ls) -> NoDup (map fst ls).

Lemma assoc_in : forall X n (x : X) l, assoc n l = Some x -> In (n, x) l.
Proof.
  induction l as [|[m y] r IH]; simpl; intros H; try discriminate.
  destruct (S.eqb n m) eqn:E; [apply S.eqb_eq in E; subst; injection H as <-; auto|auto].
Qed.

Lemma in_assoc_nodup : forall X n (x : X) l, NoDup (map fst l) -> In (n, x) l -> assoc n l = Some x.
Proof.
  induction l as [|[m y] r IH]; simpl; intros Hnd Hin; [tauto|].
  inversion Hnd as [|? ? Hnot Hnd']; subst.
  destruct Hin as [E|Hin].
  - injection E as -> ->. now rewrite eqb_refl'.
  - destruct (S.eqb n m) eqn:E; [|auto]. apply S.eqb_eq in E. subst m.
    exfalso. apply Hnot. apply in_map_iff. exists (n, x). auto.
Qed.

Lemma walk_same_file : forall k w x f o p f1 o1, no_ext w f ->
  walk k w x f o p = Found f1 o1 -> f1 = f.
Proof.
  induction k; simpl; intros w x f o p f1 o1 Hne H; try discriminate.
  destruct p as [|n rest]; [now injection H as <- <-|].
  destruct (obj_at w f o) as [[a ls|d]|] eqn:E; try discriminate.
  destruct (assoc n ls) as [l|] eqn:El; try discriminate.
  pose proof (Hne _ _ _ _ _ E (assoc_in _ _ _ _ El)) as Hx.
  destruct l; simpl in Hx; try discriminate; eauto.
Qed.

Lemma follow_same_file : forall w f l f1 o1, no_ext w f -> is_ext l = false ->
  follow w f l = Found f1 o1 -> f1 = f.
Proof.
  intros w f l f1 o1 Hne Hx. unfold follow. generalize FUEL; intro K.
  destruct l; simpl in Hx; try discriminate; intro H.
  - now injection H as <- _.
  - eapply walk_same_file; eauto.
Qed.

(** soundness: every listed path is a path of link names that resolves, inside the file, to the listed object *)
Lemma vstep_resolves : forall w f o name nm f1 o1, no_ext w f -> nodup_keys w f ->
  vstep w f o name nm f1 o1 -> f1 = f /\ exists k, nm = name ++ [k] /\ resolves_from w f o [k] f o1.
Proof.
  intros w f o name nm f1 o1 Hne Hnd (a & ls & k & l & E & Hin & -> & Hf).
  pose proof (Hne _ _ _ _ _ E Hin) as Hx.
  assert (f1 = f) as -> by (eapply follow_same_file; eauto).
  split; auto. exists k. split.
  - destruct l; simpl in Hx; try discriminate; reflexivity.
  - eapply resolves_step; eauto; [|apply resolves_nil].
    unfold lookup_link. rewrite E. apply in_assoc_nodup; eauto.
Qed.

Lemma reach_resolves_gen : forall w f0 o name p f2 o2, reach w f0 o name p f2 o2 ->
  no_ext w f0 -> nodup_keys w f0 ->
  f2 = f0 /\ exists q, q <> [] /\ p = name ++ q /\ resolves_from w f0 o q f0 o2.
Proof.
  intros w f0 o name p f2 o2 R.
  induction R as [f o name nm f1 o1 S|f o name nm f1 o1 p f2 o2 S R IH]; intros Hne Hnd.
  - destruct (vstep_resolves _ _ _ _ _ _ _ Hne Hnd S) as (-> & k & -> & Hr).
    split; auto. exists [k]. split; [discriminate|auto].
  - destruct (vstep_resolves _ _ _ _ _ _ _ Hne Hnd S) as (-> & k & -> & Hr).
    destruct (IH Hne Hnd) as (-> & q & Hq & -> & Hr2). split; auto.
    exists (k :: q). split; [discriminate|]. split; [now rewrite <- app_assoc|].
    change (k :: q) with ([k] ++ q). eapply resolves_app; eauto.
Qed.

Lemma reach_resolves : forall w f, no_ext w f -> nodup_keys w f ->
  forall o name p f2 o2, reach w f o name p f2 o2 ->
  f2 = f /\ exists q, q <> [] /\ p = name ++ q /\ resolves_from w f o q f o2.
Proof. intros. eapply reach_resolves_gen; eauto. Qed.

Lemma walk_S : forall k w x f o p f1 o1, walk k w x f o p = Found f1 o1 -> walk (S k) w x f o p = Found f1 o1.
Proof. intros. replace (S k) with (k + 1)%nat by lia. now apply walk_found_fuel. Qed.

Lemma walk_app_inv : forall k w x f o p r f2 o2, walk k w x f o (p ++ r) = Found f2 o2 ->
  exists f1 o1 x', walk k w x f o p = Found f1 o1 /\ walk k w x' f1 o1 r = Found f2 o2.
Proof.
  induction k; intros w x f o p r f2 o2 H; [simpl in H; discriminate|].
  destruct p as [|n rest].
  - simpl app in H. exists f, o, x. split; auto.
  - simpl in H.
    destruct (obj_at w f o) as [[a ls|d]|] eqn:Eo; try discriminate.
    destruct (assoc n ls) as [l|] eqn:El; try discriminate.
    destruct l as [o'|q|f' q].
    + destruct (IHk _ _ _ _ _ _ _ _ H) as (f1 & o1 & x' & H1 & H2).
      exists f1, o1, x'. split; [simpl; now rewrite Eo, El|now apply walk_S].
    + rewrite app_assoc in H. destruct (IHk _ _ _ _ _ _ _ _ H) as (f1 & o1 & x' & H1 & H2).
      exists f1, o1, x'. split; [simpl; now rewrite Eo, El|now apply walk_S].
    + destruct (file_exists w f') eqn:Ex; try discriminate.
      rewrite app_assoc in H. destruct (IHk _ _ _ _ _ _ _ _ H) as (f1 & o1 & x' & H1 & H2).
      exists f1, o1, x'. split; [simpl; now rewrite Eo, El, Ex|now apply walk_S].
Qed.

Lemma walk_found_det : forall k1 k2 w x1 x2 f o p r1 r2,
  walk k1 w x1 f o p = r1 -> walk k2 w x2 f o p = r2 ->
  (exists a b, r1 = Found a b) -> (exists a b, r2 = Found a b) -> r1 = r2.
Proof.
  intros k1 k2 w x1 x2 f o p r1 r2 H1 H2 (a1 & b1 & ->) (a2 & b2 & ->).
  pose proof (walk_found_fuel _ k2 _ _ _ _ _ _ _ H1) as A.
  pose proof (walk_found_fuel _ k1 _ _ _ _ _ _ _ H2) as B.
  apply walk_found_flag with (x' := false) in A. apply walk_found_flag with (x' := false) in B.
  rewrite (Nat.add_comm k2 k1) in B. congruence.
Qed.

(** completeness: if the traversal finished, every path of link names that resolves was visited *)
Lemma resolves_reach : forall w f, no_ext w f ->
  forall q k o name nodes f2 o2, visit k w f o name = (Ok, nodes) -> q <> [] ->
  resolves_from w f o q f2 o2 -> reach w f o name (name ++ q) f2 o2.
Proof.
  intros w f Hne. induction q as [|n rest IH]; intros k o name nodes f2 o2 Hv Hq [j Hw]; [congruence|].
  destruct k; [discriminate|]. rewrite visit_unfold in Hv.
  destruct j; [discriminate|]. simpl in Hw.
  destruct (obj_at w f o) as [[a ls|d]|] eqn:Eo; try discriminate.
  destruct (assoc n ls) as [l|] eqn:El; try discriminate.
  destruct (open_children w f name ls) as [cs|] eqn:Eoc; try discriminate.
  pose proof (open_children_spec _ _ _ _ _ Eoc) as Hcs.
  destruct (go_spec _ _ _ Hv) as (A & _).
  pose proof (assoc_in _ _ _ _ El) as Hin.
  pose proof (Hne _ _ _ _ _ Eo Hin) as Hx.
  assert (In (child_name name n l, follow w f l) cs) as Hentry.
  { rewrite Hcs. apply in_map_iff. exists (n, l). auto. }
  destruct (A _ _ Hentry) as (f1 & o1 & sub & Ef & Hsub).
  assert (f1 = f) as -> by (eapply follow_same_file; eauto).
  assert (child_name name n l = name ++ [n]) as Hnm by (destruct l; simpl in Hx; try discriminate; reflexivity).
  assert (vstep w f o name (name ++ [n]) f o1) as S1.
  { exists a, ls, n, l. rewrite Hnm. auto. }
  (* the rest of the path resolves from the opened child *)
  assert (exists j', walk j' w false f o1 rest = Found f2 o2) as [j' Hrest].
  { destruct l as [o'|sq|f' sq]; simpl in Hx; try discriminate.
    - simpl in Ef. injection Ef as <-. exists j. eapply walk_found_flag; eauto.
    - destruct (walk_app_inv _ _ _ _ _ _ _ _ _ Hw) as (fa & oa & x' & H1 & H2).
      unfold follow in Ef.
      assert (Found fa oa = Found f o1) as E.
      { eapply walk_found_det; [exact H1|exact Ef|eauto|eauto]. }
      injection E as -> ->. exists j. eapply walk_found_flag; eauto. }
  destruct rest as [|n2 rest2].
  - destruct j'; [discriminate|]. simpl in Hrest. injection Hrest as <- <-. now apply reach_one.
  - rewrite Hnm in Hsub.
    replace (name ++ n :: n2 :: rest2) with ((name ++ [n]) ++ n2 :: rest2) by (now rewrite <- app_assoc).
    eapply reach_more; eauto. eapply IH; eauto; [discriminate|exists j'; eauto].
Qed.

(** listing_exact: on a file without external links (and with unique member names), whenever list_coolers
    returns at all - i.e. no link cycle exhausted the traversal and no member dangles - it lists exactly the
    member paths that resolve to an object tagged as a cooler, plus "/" when the root is one *)
Theorem listing_exact : forall w f L, no_ext w f -> nodup_keys w f -> list_coolers w f = (Ok, L) ->
  forall p, In p L <-> exists o2, resolves w f p f o2 /\ is_cooler_at w f o2 = true.
Proof.
  intros w f L Hne Hnd H p. rewrite (listing_exact_reach _ _ _ H). split.
  - intros [[-> Hc]|(f2 & o2 & R & Hc)].
    + exists 0%nat. split; auto. apply resolves_nil.
    + destruct (reach_resolves _ _ Hne Hnd _ _ _ _ _ R) as (-> & q & Hq & -> & Hr). exists o2. auto.
  - intros (o2 & Hr & Hc). destruct p as [|n rest].
    + left. split; auto. destruct Hr as [j Hj]. destruct j; [discriminate|]. simpl in Hj. now injection Hj as <-.
    + right. exists f, o2. split; auto.
      unfold list_coolers in H. destruct (negb (file_exists w f)); try discriminate.
      destruct (visit VISIT_FUEL w f 0 []) as [e nodes] eqn:Ev. destruct e; try discriminate.
      change (n :: rest) with ([] ++ n :: rest). eapply resolves_reach; eauto. discriminate.
Qed.

(* ------------------------------------------------------------------ URIs with and without the leading slash *)
(** f::g and f::/g denote the same group path (parse_cooler_uri prepends the slash; HDF5 path syntax) *)
Theorem uri_slash : forall g, path_of_string (uri_group g) = path_of_string g.
Proof.
  intros g. unfold uri_group, path_of_string. destruct g as [|c r]; [reflexivity|].
  destruct (Coq.Strings.Ascii.eqb c SLASH) eqn:E; [reflexivity|].
  simpl. reflexivity.
Qed.

Lemma leading_slash_ignored : forall s, path_of_string (Coq.Strings.String.String SLASH s) = path_of_string s.
Proof. intros. reflexivity. Qed.

(* ------------------------------------------------------------------ executable well-formedness *)
Definition obj_no_ext_b (x : obj) : bool :=
  match x with Group _ ls => forallb (fun kl => negb (is_ext (snd kl))) ls | Dataset _ => true end.
Fixpoint nodup_str_b (l : list string) : bool :=
  match l with [] => true | x :: r => negb (existsb (S.eqb x) r) && nodup_str_b r end.
Definition obj_nodup_b (x : obj) : bool :=
  match x with Group _ ls => nodup_str_b (map fst ls) | Dataset _ => true end.
Definition file_wf_b (w : world) (f : fid) : bool :=
  match get_store w f with
  | Some st => forallb obj_no_ext_b st && forallb obj_nodup_b st
  | None => true
  end.

Lemma nodup_str_b_sound : forall l, nodup_str_b l = true -> NoDup l.
Proof.
  induction l as [|x r IH]; simpl; intros H; [constructor|].
  apply andb_true_iff in H. destruct H as [H1 H2]. constructor; auto.
  intro Hin. apply negb_true_iff in H1.
  assert (existsb (S.eqb x) r = true) as K; [|congruence].
  apply existsb_exists. exists x. split; auto. apply eqb_refl'.
Qed.

Lemma file_wf_b_sound : forall w f, file_wf_b w f = true -> no_ext w f /\ nodup_keys w f.
Proof.
  intros w f H. unfold file_wf_b in H. split.
  - intros o a ls k l E Hin. unfold obj_at in E. destruct (get_store w f) as [st|]; try discriminate.
    apply andb_true_iff in H. destruct H as [H _]. rewrite forallb_forall in H.
    specialize (H _ (nth_error_In _ _ E)). simpl in H. rewrite forallb_forall in H.
    specialize (H _ Hin). simpl in H. now apply negb_true_iff in H.
  - intros o a ls E. unfold obj_at in E. destruct (get_store w f) as [st|]; try discriminate.
    apply andb_true_iff in H. destruct H as [_ H]. rewrite forallb_forall in H.
    specialize (H _ (nth_error_In _ _ E)). simpl in H. now apply nodup_str_b_sound.
Qed.

(** non-vacuity of listing_exact: a file with a collection, a soft link to it and a nested collection *)
Definition w_listed : world :=
  run world0 [OCreate FA sx false (tiny 1); OCopy FA sx FA ["y"%string] false false false true;
              OCreate FA sxy false (tiny 2)].
Lemma ex_listing_exact :
  file_wf_b w_listed FA = true /\
  list_coolers w_listed FA = (Ok, [sx; sxy; ["y"%string]; ["y"; "y"]%string]).
Proof. vm_compute. split; reflexivity. Qed.

(* ------------------------------------------------------------------ errors of cp / ln -s leave everything unchanged *)
Lemma add_link_err_unchanged : forall w f p l lf e1 e2 e w', (forall o, l <> Hard o) ->
  add_link w f p l lf e1 e2 = (e, w') -> e <> Ok -> w' = w.
Proof.
  unfold add_link; intros w f p l lf e1 e2 e w' Hl H Ne.
  destruct (split_last p) as [[par n]|]; [|now injection H as _ <-].
  destruct (ensure w f 0 par) as [[[[w1 [xs xe]] f1] g]|]; [|now injection H as _ <-].
  destruct l as [o| |]; [exfalso; eapply Hl; eauto| |].
  - destruct (bind w1 f1 g n (Soft p0)); injection H as <- <-; congruence.
  - destruct xe; [now injection H as _ <-|].
    destruct (bind w1 f1 g n (Ext f0 p0)); injection H as <- <-; congruence.
Qed.

Lemma h5copy_err_unchanged : forall w sf so df dg dp e w', h5copy w sf so df dg dp = (e, w') -> e <> Ok -> w' = w.
Proof.
  unfold h5copy; intros w sf so df dg dp e w' H Ne.
  destruct (split_last dp) as [[par n]|]; [|now injection H as _ <-].
  destruct (get_store w sf); [|now injection H as _ <-].
  destruct (ensure w df dg par) as [[[[w1 [xs xe]] f1] g]|]; [|now injection H as _ <-].
  destruct (xs || negb (fid_eqb f1 df)); [now injection H as _ <-|].
  destruct (get_store w1 f1); [|now injection H as _ <-].
  destruct (nth_error s0 g) as [[a ls|]|]; try (now injection H as _ <-).
  destruct (assoc n ls); [now injection H as _ <-|]. injection H as <- _. congruence.
Qed.

(** a refused cp or ln -s (no overwrite flag, existing destination file, not the root-destination case)
    leaves both files exactly as they were *)
Theorem copy_error_unchanged : forall w sf sp df dp soft e w',
  file_exists w df = true -> (sf = df \/ dp <> [] \/ soft = true) ->
  _copy w sf sp df dp false false false soft = (e, w') -> e <> Ok -> w' = w.
Proof.
  intros w sf sp df dp soft e w' Hex Hdom H Ne. unfold _copy in H.
  destruct (Nat.ltb 1 _); [now injection H as _ <-|].
  destruct (negb (file_exists w sf)); [now injection H as _ <-|].
  rewrite Hex in H. simpl negb in H. simpl orb in H. rewrite andb_false_r in H. cbv iota in H.
  destruct (fid_eqb sf df) eqn:Esame; simpl in H.
  - destruct soft.
    + eapply add_link_err_unchanged; eauto. intros; discriminate.
    + destruct (resolve w sf sp); try (now injection H as _ <-). eapply h5copy_err_unchanged; eauto.
  - destruct soft.
    + eapply add_link_err_unchanged; eauto. intros; discriminate.
    + destruct dp as [|d0 dr].
      * destruct Hdom as [->|[N|N]]; try congruence.
        rewrite (proj2 (fid_eqb_eq df df) eq_refl) in Esame. discriminate.
      * destruct (resolve w sf sp); try (now injection H as _ <-). eapply h5copy_err_unchanged; eauto.
Qed.

(** mv (same file): after a successful move the source NAME is unbound in its parent group *)
Theorem mv_source_unbound : forall w f sp dp w',
  _copy w f sp f dp false false true false = (Ok, w') ->
  exists w2 par n fp gp, sp = par ++ [n] /\ del_link w2 f sp = (Ok, w') /\ world_le w w2 /\
    resolve w2 f par = Found fp gp /\ lookup_link w' fp gp n = None.
Proof.
  intros w f sp dp w' H. unfold _copy in H.
  change (Nat.ltb 1 (0 + 1 + 0)) with false in H. cbv iota in H.
  destruct (file_exists w f) eqn:Hex; simpl negb in H; cbv iota in H; [|discriminate].
  rewrite (proj2 (fid_eqb_eq f f) eq_refl) in H. simpl in H.
  destruct (resolve w f sp) as [fo o| |] eqn:Er; try discriminate.
  pose proof (add_link_le w f dp (Hard o) fo EOS EOS) as L.
  destruct (add_link w f dp (Hard o) fo EOS EOS) as [ea w2] eqn:Ea. simpl in L.
  destruct ea; try discriminate.
  exists w2. unfold del_link in H |- *.
  destruct (split_last sp) as [[par n]|] eqn:Hs; try discriminate.
  destruct (resolve w2 f par) as [fp gp| |] eqn:Erp; try discriminate.
  destruct (obj_at w2 fp gp) as [[a ls|]|] eqn:Eg; try discriminate.
  destruct (assoc n ls) eqn:En; try discriminate.
  exists par, n, fp, gp. split; [now apply split_last_app|]. split; auto. split; auto. split; auto.
  injection H as <-. unfold lookup_link. erewrite set_obj_at by eauto. apply assoc_remove_same.
Qed.

(* ------------------------------------------------------------------ D14a for every budget: the real RecursionError *)
Lemma go_first_fails : forall vis nm f o r, fst (vis f o nm) <> Ok -> fst (go vis ((nm, Found f o) :: r)) <> Ok.
Proof.
  intros vis nm f o r H. simpl. destruct (vis f o nm) as [e sub]. simpl in H. destruct e; simpl; auto.
Qed.

Lemma w_cycle_objs :
  obj_at w_cycle FA 0 = Some (Group [("format"%string, AStr MAGIC)] [("a"%string, Hard 3%nat); ("pixels"%string, Hard 1%nat)]) /\
  obj_at w_cycle FA 3 = Some (Group [] [("b"%string, Hard 0%nat)]).
Proof. vm_compute. split; reflexivity. Qed.

(** on the file with a hard link to an ancestor NO traversal budget suffices: list_coolers cannot return *)
Theorem listing_cycle_no_fuel : forall k name, fst (visit k w_cycle FA 0 name) <> Ok.
Proof.
  destruct w_cycle_objs as [E0 E3].
  assert (forall k, (forall name, fst (visit k w_cycle FA 0 name) <> Ok) /\
                    (forall name, fst (visit k w_cycle FA 3 name) <> Ok)) as K.
  { induction k as [|k [IH0 IH3]]; [split; intro; simpl; discriminate|]. split; intro name.
    - rewrite visit_unfold, E0. unfold open_children. simpl open_children_gen.
      apply go_first_fails. apply IH3.
    - rewrite visit_unfold, E3. unfold open_children. simpl open_children_gen.
      apply go_first_fails. apply IH0. }
  intros k name. apply K.
Qed.

(* ------------------------------------------------------------------ resolution that avoids one link slot *)
(** a slot = (file, group object, member name).  [walk_av s] is [walk] that refuses to look up slot s:
    a Found result certifies that the traversal never passed through s (decidable on the store). *)
Definition slot := (fid * nat * string)%type.
Definition slot_eqb (s : slot) (f : fid) (o : nat) (n : string) : bool :=
  fid_eqb (fst (fst s)) f && Nat.eqb (snd (fst s)) o && S.eqb (snd s) n.

Fixpoint walk_av (s : slot) (fuel : nat) (w : world) (x : bool) (f : fid) (o : nat) (p : path) : res :=
  match fuel with
  | O => Loop
  | S k =>
    match p with
    | [] => Found f o
    | n :: rest =>
      if slot_eqb s f o n then Missing false else
      match obj_at w f o with
      | Some (Group _ ls) =>
        match assoc n ls with
        | None => Missing (negb x && negb (is_nil rest))
        | Some (Hard o') => walk_av s k w x f o' rest
        | Some (Soft q) => walk_av s k w x f O (q ++ rest)
        | Some (Ext f' q) => if file_exists w f' then walk_av s k w true f' O (q ++ rest) else Missing false
        end
      | _ => Missing (negb x)
      end
    end
  end.

Lemma walk_av_walk : forall s k w x f o p f1 o1,
  walk_av s k w x f o p = Found f1 o1 -> walk k w x f o p = Found f1 o1.
Proof.
  induction k; simpl; intros w x f o p f1 o1 H; try discriminate.
  destruct p as [|n rest]; auto.
  destruct (slot_eqb s f o n); try discriminate.
  destruct (obj_at w f o) as [[a ls|d]|]; try discriminate.
  destruct (assoc n ls) as [l|]; try discriminate. destruct l; eauto.
  destruct (file_exists w f0); try discriminate. eauto.
Qed.

Lemma walk_av_mono : forall s k w w' x f o p f1 o1, world_le w w' ->
  walk_av s k w x f o p = Found f1 o1 -> walk_av s k w' x f o p = Found f1 o1.
Proof.
  induction k; simpl; intros w w' x f o p f1 o1 H Hw; try discriminate.
  destruct p as [|n rest]; auto.
  destruct (slot_eqb s f o n); try discriminate.
  destruct (obj_at w f o) as [[a ls|d]|] eqn:E; try discriminate.
  destruct (world_le_obj _ _ _ _ _ H E) as (y & Ey & Ly). rewrite Ey.
  destruct y as [a' ls'|]; simpl in Ly; try tauto. destruct Ly as [_ Ly].
  destruct (assoc n ls) as [l|] eqn:El; try discriminate.
  rewrite (Ly _ _ El). destruct l; eauto.
  destruct (file_exists w f0) eqn:Ex; try discriminate.
  rewrite (world_le_exists _ _ _ H Ex). eauto.
Qed.

(** [unlinked s w w']: w' is w with the member of slot s removed, nothing else touched *)
Definition unlinked (s : slot) (w w' : world) : Prop :=
  let '(fs, gs, n) := s in
  exists a ls, obj_at w fs gs = Some (Group a ls) /\ w' = set_obj w fs gs (Group a (remove_key n ls)).

Lemma unlinked_obj : forall fs gs n w w' f o, unlinked (fs, gs, n) w w' ->
  (f <> fs \/ o <> gs) -> obj_at w' f o = obj_at w f o.
Proof.
  intros fs gs n w w' f o (a & ls & E & ->) Hne. unfold obj_at, set_obj in *.
  destruct (get_store w fs) as [st|] eqn:Es; try discriminate.
  destruct (fid_dec fs f) as [<-|Nf].
  - rewrite get_set_same, Es. destruct Hne as [?|No]; [congruence|]. now rewrite nth_error_upd_other by auto.
  - now rewrite get_set_other by auto.
Qed.

Lemma unlinked_exists : forall s w w' f, unlinked s w w' -> file_exists w' f = file_exists w f.
Proof.
  intros [[fs gs] n] w w' f (a & ls & E & ->). unfold file_exists, set_obj, obj_at in *.
  destruct (get_store w fs) as [st|] eqn:Es; try discriminate.
  destruct (fid_dec fs f) as [<-|Nf]; [now rewrite get_set_same, Es|now rewrite get_set_other by auto].
Qed.

(** frame of an unlink: a traversal that avoided the slot resolves exactly as before *)
Lemma walk_av_unlinked : forall fs gs n k w w' x f o p f1 o1, unlinked (fs, gs, n) w w' ->
  walk_av (fs, gs, n) k w x f o p = Found f1 o1 -> walk k w' x f o p = Found f1 o1.
Proof.
  induction k; simpl; intros w w' x f o p f1 o1 U H; try discriminate.
  destruct p as [|m rest]; auto.
  destruct (slot_eqb (fs, gs, n) f o m) eqn:Esl; try discriminate.
  assert (forall f', file_exists w' f' = file_exists w f') as Hex by (intro f'; exact (unlinked_exists (fs, gs, n) w w' f' U)).
  destruct (fid_dec f fs) as [->|Nf]; [destruct (Nat.eq_dec o gs) as [->|No]|].
  - (* the group of the slot itself: another member name *)
    destruct U as (a & ls & E & ->). rewrite E in H. erewrite set_obj_at by eauto.
    assert (n <> m) as Nm.
    { intro; subst m. unfold slot_eqb in Esl. simpl in Esl.
      rewrite (proj2 (fid_eqb_eq fs fs) eq_refl), Nat.eqb_refl, eqb_refl' in Esl. discriminate. }
    rewrite assoc_remove_other by auto.
    assert (unlinked (fs, gs, n) w (set_obj w fs gs (Group a (remove_key n ls)))) as U' by (exists a, ls; auto).
    destruct (assoc m ls) as [l|]; try discriminate. destruct l; eauto.
    rewrite Hex. destruct (file_exists w f); try discriminate. eauto.
  - rewrite (unlinked_obj _ _ _ _ _ fs o U) by auto.
    destruct (obj_at w fs o) as [[a ls|d]|]; try discriminate.
    destruct (assoc m ls) as [l|]; try discriminate. destruct l; eauto.
    rewrite Hex. destruct (file_exists w f); try discriminate. eauto.
  - rewrite (unlinked_obj _ _ _ _ _ f o U) by auto.
    destruct (obj_at w f o) as [[a ls|d]|]; try discriminate.
    destruct (assoc m ls) as [l|]; try discriminate. destruct l; eauto.
    rewrite Hex. destruct (file_exists w f0); try discriminate. eauto.
Qed.

Lemma del_link_ok : forall w f p w', del_link w f p = (Ok, w') ->
  exists par n fp gp, split_last p = Some (par, n) /\ resolve w f par = Found fp gp /\
                      unlinked (fp, gp, n) w w' /\ lookup_link w' fp gp n = None.
Proof.
  unfold del_link; intros w f p w' H.
  destruct (split_last p) as [[par n]|]; try discriminate.
  destruct (resolve w f par) as [fp gp| |] eqn:Er; try discriminate.
  destruct (obj_at w fp gp) as [[a ls|]|] eqn:Eg; try discriminate.
  destruct (assoc n ls) eqn:En; try discriminate. injection H as <-.
  exists par, n, fp, gp. repeat split; auto.
  - exists a, ls. auto.
  - unfold lookup_link. erewrite set_obj_at by eauto. apply assoc_remove_same.
Qed.

(* ------------------------------------------------------------------ mv, guarded *)
(** the decidable guard: in the store AFTER the new hard link is made, the traversal of the destination
    path does not pass through the source's own link slot (parent group of the source, source name).
    It fails exactly for destinations inside the moved group or behind a link back to it (D23). *)
Definition mv_guard (w : world) (f : fid) (sp dp : path) : bool :=
  match resolve w f sp with
  | Found fo o =>
      match add_link w f dp (Hard o) fo EOS EOS, split_last sp with
      | (Ok, w2), Some (par, n) =>
          match resolve w2 f par with
          | Found fp gp =>
              match walk_av (fp, gp, n) FUEL w2 false f 0 dp with
              | Found f1 o1 => fid_eqb f1 fo && Nat.eqb o1 o
              | _ => false
              end
          | _ => false
          end
      | _, _ => false
      end
  | _ => false
  end.

(** mv_spec: for a same-file mv that succeeds and passes the guard, the destination resolves to THE VERY
    OBJECT the source denoted, the source name is unbound, and every traversal (from any start object, of
    any path) that did not pass through the source's link slot resolves exactly as before *)
Theorem mv_spec : forall w f sp dp w',
  _copy w f sp f dp false false true false = (Ok, w') -> mv_guard w f sp dp = true ->
  exists fo o par n fp gp,
    resolve w f sp = Found fo o /\ resolve w' f dp = Found fo o /\
    sp = par ++ [n] /\ lookup_link w' fp gp n = None /\
    forall k x f0 o0 q f1 o1, walk_av (fp, gp, n) k w x f0 o0 q = Found f1 o1 -> walk k w' x f0 o0 q = Found f1 o1.
Proof.
  intros w f sp dp w' H G. unfold _copy in H.
  change (Nat.ltb 1 (0 + 1 + 0)) with false in H. cbv iota in H.
  destruct (file_exists w f) eqn:Hex; simpl negb in H; cbv iota in H; [|discriminate].
  rewrite (proj2 (fid_eqb_eq f f) eq_refl) in H. simpl in H.
  unfold mv_guard in G.
  destruct (resolve w f sp) as [fo o| |] eqn:Er; try discriminate.
  pose proof (add_link_le w f dp (Hard o) fo EOS EOS) as L.
  destruct (add_link w f dp (Hard o) fo EOS EOS) as [ea w2] eqn:Ea. simpl in L.
  destruct ea; try discriminate.
  destruct (del_link_ok _ _ _ _ H) as (par & n & fp & gp & Hs & Erp & U & Hnone).
  rewrite Hs, Erp in G.
  destruct (walk_av (fp, gp, n) FUEL w2 false f 0 dp) as [f1 o1| |] eqn:Eav; try discriminate.
  apply andb_true_iff in G. destruct G as [G1 G2]. apply fid_eqb_eq in G1. apply Nat.eqb_eq in G2. subst f1 o1.
  exists fo, o, par, n, fp, gp. split; auto. split; [|split; [now apply split_last_app|split; auto]].
  - unfold resolve. eapply walk_av_unlinked; eauto.
  - intros k x f0 o0 q f1 o1 Hq. eapply walk_av_unlinked; eauto. eapply walk_av_mono; eauto.
Qed.

Lemma ex_mv_guard :
  let w := run world0 [OCreate FA sx false (tiny 1); OCreate FA sxy false (tiny 2)] in
  mv_guard w FA sx ["z"%string] = true /\ fst (mv w FA sx FA ["z"%string] false) = Ok /\
  mv_guard w FA sx sxy = false /\ mv_guard w FA sx ["x"; "q"]%string = false.
Proof. vm_compute. repeat split; reflexivity. Qed.

(* ------------------------------------------------------------------ totality of the listing on acyclic stores *)
(** acyclicity as a rank that strictly decreases along every member that opens; [all_open]: no member dangles
    or loops.  (Any acyclic link graph has such a rank bounded by its number of objects.) *)
Definition ranked (w : world) (rk : fid -> nat -> nat) : Prop :=
  forall f o a ls k l f1 o1, obj_at w f o = Some (Group a ls) -> In (k, l) ls ->
    follow w f l = Found f1 o1 -> (rk f1 o1 < rk f o)%nat.
Definition all_open (w : world) : Prop :=
  forall f o a ls k l, obj_at w f o = Some (Group a ls) -> In (k, l) ls -> exists f1 o1, follow w f l = Found f1 o1.

Lemma open_children_total : forall w f name ls,
  (forall k l, In (k, l) ls -> exists f1 o1, follow w f l = Found f1 o1) ->
  open_children w f name ls = Some (map (fun kl => (child_name name (fst kl) (snd kl), follow w f (snd kl))) ls).
Proof.
  unfold open_children. induction ls as [|[k l] r IH]; simpl; intros H; auto.
  destruct (H k l (or_introl eq_refl)) as (f1 & o1 & Ef). rewrite Ef.
  rewrite IH by (intros; eapply H; eauto). reflexivity.
Qed.

Lemma go_total : forall vis cs,
  (forall nm r, In (nm, r) cs -> exists f1 o1, r = Found f1 o1 /\ fst (vis f1 o1 nm) = Ok) ->
  fst (go vis cs) = Ok.
Proof.
  induction cs as [|[nm r] cs IH]; simpl; intros H; auto.
  destruct (H nm r (or_introl eq_refl)) as (f1 & o1 & -> & Hv).
  destruct (vis f1 o1 nm) as [e sub]. simpl in Hv. subst e.
  assert (fst (go vis cs) = Ok) as Hg by (apply IH; intros; eapply H; eauto).
  destruct (go vis cs) as [e t]. simpl in Hg. now subst e.
Qed.

(** a budget above the rank of the start object suffices: the traversal terminates without an error *)
Theorem visit_total : forall w rk, ranked w rk -> all_open w ->
  forall k f o name, (rk f o < k)%nat -> fst (visit k w f o name) = Ok.
Proof.
  intros w rk Hr Ha. induction k; intros f o name Hk; [lia|].
  rewrite visit_unfold. destruct (obj_at w f o) as [[a ls|d]|] eqn:Eo; auto.
  rewrite open_children_total by (intros; eapply Ha; eauto).
  apply go_total. intros nm r Hin. apply in_map_iff in Hin. destruct Hin as ([k0 l] & E & Hin).
  simpl in E. injection E as <- <-.
  destruct (Ha _ _ _ _ _ _ Eo Hin) as (f1 & o1 & Ef). exists f1, o1. split; auto.
  apply IHk. pose proof (Hr _ _ _ _ _ _ _ _ Eo Hin Ef). lia.
Qed.

(** listing_total: on an existing file of an acyclic world without dangling members whose depth is below the
    traversal budget, list_coolers returns a listing; without external links that listing is exact *)
Theorem listing_total : forall w rk f, ranked w rk -> all_open w -> file_exists w f = true ->
  (rk f 0 < VISIT_FUEL)%nat -> exists L, list_coolers w f = (Ok, L).
Proof.
  intros w rk f Hr Ha Hex Hk. unfold list_coolers. rewrite Hex. simpl negb. cbv iota.
  pose proof (visit_total _ _ Hr Ha VISIT_FUEL f 0%nat [] Hk) as Hv.
  destruct (visit VISIT_FUEL w f 0 []) as [e nodes]. simpl in Hv. subst e. eauto.
Qed.

Corollary listing_total_exact : forall w rk f, ranked w rk -> all_open w -> file_exists w f = true ->
  (rk f 0 < VISIT_FUEL)%nat -> no_ext w f -> nodup_keys w f ->
  exists L, list_coolers w f = (Ok, L) /\
            forall p, In p L <-> exists o2, resolves w f p f o2 /\ is_cooler_at w f o2 = true.
Proof.
  intros w rk f Hr Ha Hex Hk Hne Hnd. destruct (listing_total _ _ _ Hr Ha Hex Hk) as (L & HL).
  exists L. split; auto. now apply listing_exact.
Qed.

(** executable check of [ranked] and [all_open] for a given rank function *)
Definition obj_ranked_b (w : world) (rk : fid -> nat -> nat) (f : fid) (io : nat * obj) : bool :=
  match snd io with
  | Group _ ls => forallb (fun kl => match follow w f (snd kl) with
                                     | Found f1 o1 => Nat.ltb (rk f1 o1) (rk f (fst io))
                                     | _ => false
                                     end) ls
  | Dataset _ => true
  end.
Definition file_ranked_b (w : world) (rk : fid -> nat -> nat) (f : fid) : bool :=
  match get_store w f with
  | Some st => forallb (obj_ranked_b w rk f) (combine (seq 0 (List.length st)) st)
  | None => true
  end.

Lemma nth_error_combine_seq : forall X (st : list X) o x b, nth_error st o = Some x ->
  In ((b + o)%nat, x) (combine (seq b (List.length st)) st).
Proof.
  induction st as [|y r IH]; intros o x b H; [destruct o; discriminate|].
  destruct o; simpl in *.
  - injection H as <-. left. f_equal. lia.
  - right. replace (b + S o)%nat with (S b + o)%nat by lia. now apply IH.
Qed.

Lemma file_ranked_b_sound : forall w rk, file_ranked_b w rk FA = true -> file_ranked_b w rk FB = true ->
  ranked w rk /\ all_open w.
Proof.
  intros w rk HA HB.
  assert (forall f o a ls k l, obj_at w f o = Some (Group a ls) -> In (k, l) ls ->
            match follow w f l with Found f1 o1 => Nat.ltb (rk f1 o1) (rk f o) = true | _ => False end) as K.
  { intros f o a ls k l E Hin.
    assert (file_ranked_b w rk f = true) as Hf by (destruct f; auto).
    unfold file_ranked_b in Hf. unfold obj_at in E. destruct (get_store w f) as [st|]; try discriminate.
    rewrite forallb_forall in Hf. specialize (Hf _ (nth_error_combine_seq _ _ _ _ 0%nat E)).
    unfold obj_ranked_b in Hf. simpl in Hf. rewrite forallb_forall in Hf. specialize (Hf _ Hin). simpl in Hf.
    destruct (follow w f l); auto; discriminate. }
  split.
  - intros f o a ls k l f1 o1 E Hin Ef. specialize (K _ _ _ _ _ _ E Hin). rewrite Ef in K. now apply Nat.ltb_lt.
  - intros f o a ls k l E Hin. specialize (K _ _ _ _ _ _ E Hin). destruct (follow w f l); eauto; tauto.
Qed.

(** a canonical rank: the height of the member graph below an object, on a budget *)
Fixpoint height (k : nat) (w : world) (f : fid) (o : nat) : nat :=
  match k with
  | O => O
  | S k' =>
      match obj_at w f o with
      | Some (Group _ ls) =>
          S (fold_right (fun kl acc => Nat.max acc (match follow w f (snd kl) with
                                                     | Found f1 o1 => height k' w f1 o1
                                                     | _ => O
                                                     end)) O ls)
      | _ => O
      end
  end.

Lemma ex_listing_total :
  file_ranked_b w_listed (height 12 w_listed) FA = true /\ file_ranked_b w_listed (height 12 w_listed) FB = true /\
  Nat.ltb (height 12 w_listed FA 0) VISIT_FUEL = true /\ file_wf_b w_listed FA = true.
Proof. vm_compute. repeat split; reflexivity. Qed.

(** D29: a cross-file copy onto an occupied ROOT fails midway: the members that sort before the clashing
    name have already been copied (here /c10 becomes a collection of file B although cp raised) *)
Lemma copy_root_error_partial :
  let w := run world0 [OCreate FA [] false (tiny 1); OCreate FA ["c10"%string] false (tiny 2);
                       OCreate FA ["c2"%string] false (tiny 4); OCreate FB ["c2"%string] false (tiny 3)] in
  let r := cp w FA [] FB [] false in
  fst r = ERuntime /\ is_cooler w FB ["c10"%string] = TFalse /\ is_cooler (snd r) FB ["c10"%string] = TTrue.
Proof. vm_compute. repeat split; reflexivity. Qed.
