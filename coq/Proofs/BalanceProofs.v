(** Proofs about the balancing model (C10, C11). *)
From Cooler Require Import Model.Balance.
From Coq Require Import Permutation Setoid Morphisms Lia Lqa ZifyBool.
Open Scope Z_scope.

(** * 1. Spans cover the pixel table exactly once (C11) *)

Lemma firstn_firstn_skipn {A} : forall (p q : nat) (l : list A),
  firstn p l ++ firstn q (skipn p l) = firstn (p + q) l.
Proof.
  induction p as [|p IH]; intros q l; simpl; [reflexivity|].
  destruct l as [|x l]; simpl.
  - now rewrite firstn_nil.
  - now rewrite IH.
Qed.

Lemma skipn_skipn' {A} : forall (p q : nat) (l : list A), skipn q (skipn p l) = skipn (p + q) l.
Proof.
  induction p as [|p IH]; intros q l; simpl; [reflexivity|].
  destruct l as [|x l]; simpl; [now rewrite skipn_nil | apply IH].
Qed.

Lemma slice_app {A} : forall (l : list A) a m b,
  0 <= a -> a <= m -> m <= b -> slice l a m ++ slice l m b = slice l a b.
Proof.
  intros l a m b Ha Hm Hb. unfold slice.
  replace (Z.to_nat m) with (Z.to_nat a + Z.to_nat (m - a))%nat by lia.
  rewrite <- skipn_skipn'. rewrite firstn_firstn_skipn. f_equal. lia.
Qed.

Lemma slice_all {A} : forall (l : list A) b, zlen l <= b -> slice l 0 b = l.
Proof.
  intros l b Hb. unfold slice, zlen in *. simpl. apply firstn_all2. lia.
Qed.

Lemma slice_empty {A} : forall (l : list A) a, slice l a a = [].
Proof. intros. unfold slice. now rewrite Z.sub_diag. Qed.

(** consecutive spans from [a] to [b] *)
Inductive Chain : Z -> list (Z * Z) -> Z -> Prop :=
| Chain_nil : forall a, Chain a [] a
| Chain_cons : forall a m b r, a <= m -> Chain m r b -> Chain a ((a, m) :: r) b.

Lemma chain_le : forall a s b, Chain a s b -> a <= b.
Proof. induction 1; lia. Qed.

Lemma chain_concat {A} : forall (l : list A) a s b,
  Chain a s b -> 0 <= a -> concat (map (fun sp => slice l (fst sp) (snd sp)) s) = slice l a b.
Proof.
  intros l a s b H. induction H as [a|a m b r Ham Hc IH]; intros Ha; simpl.
  - now rewrite slice_empty.
  - rewrite IH by lia. apply slice_app; try lia. now apply chain_le in Hc.
Qed.

(** every index of [a, b) lies in exactly one span of a chain *)
Definition in_span (k : Z) (s : Z * Z) : bool := (fst s <=? k) && (k <? snd s).

Lemma chain_none_below : forall a s b k, Chain a s b -> k < a -> filter (in_span k) s = [].
Proof.
  intros a s b k H. induction H as [a|a m b r Ham Hc IH]; intros Hk; simpl; [reflexivity|].
  unfold in_span at 1. simpl. replace (a <=? k) with false by lia. simpl. apply IH. lia.
Qed.

Lemma chain_exactly_one : forall a s b k, Chain a s b -> a <= k < b ->
  exists sp, filter (in_span k) s = [sp].
Proof.
  intros a s b k H. induction H as [a|a m b r Ham Hc IH]; intros Hk; simpl; [lia|].
  unfold in_span at 1. simpl.
  destruct (Z.ltb_spec k m) as [Hlt|Hge].
  - replace (a <=? k) with true by lia. simpl. exists (a, m). f_equal.
    eapply chain_none_below; eauto.
  - replace ((a <=? k) && false) with false by (now rewrite andb_false_r). apply IH. lia.
Qed.

(** closed form of the two span generators *)
Lemma pairs_cons2 {A} : forall (x y : A) l,
  combine (removelast (x :: y :: l)) (tl (x :: y :: l)) = (x, y) :: combine (removelast (y :: l)) (tl (y :: l)).
Proof. intros. reflexivity. Qed.

Lemma combine_removelast_tl {A} : forall (f : nat -> A) m s,
  combine (removelast (map f (seq s (S m)))) (tl (map f (seq s (S m)))) =
  map (fun k => (f k, f (S k))) (seq s m).
Proof.
  intros f m. induction m as [|m IH]; intros s; [reflexivity|].
  change (seq s (S (S m))) with (s :: S s :: seq (S (S s)) m).
  rewrite !map_cons. rewrite pairs_cons2.
  change (f (S s) :: map f (seq (S (S s)) m)) with (map f (seq (S s) (S m))).
  rewrite IH. reflexivity.
Qed.

Lemma cdiv_shift : forall n c, 1 <= c -> cdiv (n + c - 0) c = cdiv n c + 1.
Proof.
  intros n c Hc. unfold cdiv. replace (n + c - 0 + c - 1) with ((n + c - 1) + 1 * c) by lia.
  rewrite Z.div_add by lia. lia.
Qed.

Lemma cdiv_nonneg : forall n c, 0 <= n -> 1 <= c -> 0 <= cdiv n c.
Proof. intros. unfold cdiv. apply Z.div_pos; lia. Qed.

Lemma cdiv_ge : forall n c, 1 <= c -> n <= cdiv n c * c.
Proof.
  intros n c Hc. unfold cdiv.
  pose proof (Z.div_mod (n + c - 1) c ltac:(lia)).
  pose proof (Z.mod_pos_bound (n + c - 1) c ltac:(lia)). nia.
Qed.

Lemma cdiv_lt : forall n c, 1 <= c -> 0 < n -> (cdiv n c - 1) * c < n.
Proof.
  intros n c Hc Hn. unfold cdiv.
  pose proof (Z.div_mod (n + c - 1) c ltac:(lia)).
  pose proof (Z.mod_pos_bound (n + c - 1) c ltac:(lia)). nia.
Qed.

Lemma balance_spans_closed : forall nnz c, 0 <= nnz -> 1 <= c ->
  balance_spans nnz (Some c) =
  map (fun k => (0 + Z.of_nat k * c, 0 + Z.of_nat (S k) * c)) (seq 0 (Z.to_nat (cdiv nnz c))).
Proof.
  intros nnz c Hn Hc. unfold balance_spans, arange.
  rewrite cdiv_shift by lia.
  pose proof (cdiv_nonneg nnz c Hn Hc).
  replace (Z.to_nat (cdiv nnz c + 1)) with (S (Z.to_nat (cdiv nnz c))) by lia.
  apply (combine_removelast_tl (fun k => 0 + Z.of_nat k * c)).
Qed.

Lemma chain_uniform : forall c a m s,
  1 <= c ->
  Chain (a + Z.of_nat s * c)
        (map (fun k => (a + Z.of_nat k * c, a + Z.of_nat (S k) * c)) (seq s m))
        (a + Z.of_nat (s + m) * c).
Proof.
  intros c a m. induction m as [|m IH]; intros s Hc; cbn [seq map].
  - rewrite Nat.add_0_r. constructor.
  - constructor; [lia|]. replace (s + S m)%nat with (S s + m)%nat by lia. now apply IH.
Qed.

Lemma balance_spans_chain : forall nnz c, 0 <= nnz -> 1 <= c ->
  Chain 0 (balance_spans nnz (Some c)) (cdiv nnz c * c).
Proof.
  intros nnz c Hn Hc. rewrite balance_spans_closed by lia.
  pose proof (cdiv_nonneg nnz c Hn Hc).
  pose proof (chain_uniform c 0 (Z.to_nat (cdiv nnz c)) 0 Hc) as H1.
  simpl (0 + Z.of_nat 0 * c) in H1. rewrite Nat.add_0_l in H1.
  replace (0 + Z.of_nat (Z.to_nat (cdiv nnz c)) * c) with (cdiv nnz c * c) in H1 by lia.
  exact H1.
Qed.

Theorem spans_exact_cover : forall (px : list pixel) c, 1 <= c ->
  concat (map (get_chunk px) (balance_spans (zlen px) (Some c))) = px.
Proof.
  intros px c Hc. unfold get_chunk.
  assert (Hn : 0 <= zlen px) by (unfold zlen; lia).
  rewrite (chain_concat px 0 _ _ (balance_spans_chain _ _ Hn Hc)) by lia.
  apply slice_all. now apply cdiv_ge.
Qed.

Theorem spans_none_cover : forall (px : list pixel),
  concat (map (get_chunk px) (balance_spans (zlen px) None)) = px.
Proof.
  intros px. simpl. rewrite app_nil_r. unfold get_chunk. simpl. apply slice_all. lia.
Qed.

(** every pixel index lies in exactly one span; spans are consecutive from 0 and reach nnz *)
Theorem spans_index_once : forall nnz c k, 1 <= c -> 0 <= k < nnz ->
  exists sp, filter (in_span k) (balance_spans nnz (Some c)) = [sp].
Proof.
  intros nnz c k Hc Hk.
  apply (chain_exactly_one 0 _ (cdiv nnz c * c)); [apply balance_spans_chain; lia|].
  pose proof (cdiv_ge nnz c Hc). lia.
Qed.

(** util.partition: consecutive, clipped at [stop] *)
Lemma partition_chain_aux : forall c a stop m s,
  1 <= c -> a + Z.of_nat (s + m) * c <= stop ->
  Chain (a + Z.of_nat s * c)
        (map (fun i => (i, Z.min (i + c) stop)) (map (fun k => a + Z.of_nat k * c) (seq s m)))
        (a + Z.of_nat (s + m) * c).
Proof.
  intros c a stop m. induction m as [|m IH]; intros s Hc Hs; cbn [seq map].
  - rewrite Nat.add_0_r. constructor.
  - replace (Z.min (a + Z.of_nat s * c + c) stop) with (a + Z.of_nat (S s) * c) by lia.
    constructor; [lia|]. replace (s + S m)%nat with (S s + m)%nat in * by lia. now apply IH.
Qed.

Lemma seq_snoc : forall s m, seq s (S m) = seq s m ++ [(s + m)%nat].
Proof. intros. rewrite seq_S. reflexivity. Qed.

Lemma chain_app : forall a s1 m s2 b, Chain a s1 m -> Chain m s2 b -> Chain a (s1 ++ s2) b.
Proof. intros a s1 m s2 b H. induction H; intros; simpl; [assumption|constructor; auto]. Qed.

Lemma partition_chain : forall start stop c, 1 <= c -> start <= stop ->
  Chain start (partition start stop c) stop.
Proof.
  intros start stop c Hc Hle. unfold partition, arange.
  destruct (Z.eq_dec start stop) as [->|Hne].
  - unfold cdiv. replace (stop - stop + c - 1) with (c - 1) by lia.
    rewrite Z.div_small by lia. simpl. constructor.
  - set (K := cdiv (stop - start) c).
    assert (HK : 1 <= K).
    { pose proof (cdiv_ge (stop - start) c Hc). fold K in H. nia. }
    assert (Hlt : (K - 1) * c < stop - start) by (apply cdiv_lt; lia).
    assert (Hge : stop - start <= K * c) by (apply cdiv_ge; lia).
    replace (Z.to_nat K) with (S (Z.to_nat (K - 1))) by lia.
    rewrite seq_snoc, !map_app. simpl.
    eapply chain_app.
    + pose proof (partition_chain_aux c start stop (Z.to_nat (K - 1)) 0 Hc) as H1.
      simpl (start + Z.of_nat 0 * c) in H1. rewrite Z.add_0_r in H1. apply H1. lia.
    + rewrite Nat.add_0_l.
      rewrite Z2Nat.id by lia.
      replace (Z.min (start + (K - 1) * c + c) stop) with stop by nia.
      constructor; [lia|constructor].
Qed.

Theorem partition_exact_cover : forall (px : list pixel) plo phi c,
  1 <= c -> 0 <= plo <= phi ->
  concat (map (get_chunk px) (partition plo phi c)) = slice px plo phi.
Proof.
  intros px plo phi c Hc H. unfold get_chunk.
  apply chain_concat; [apply partition_chain; lia | lia].
Qed.

Theorem partition_index_once : forall plo phi c k, 1 <= c -> plo <= k < phi ->
  exists sp, filter (in_span k) (partition plo phi c) = [sp].
Proof.
  intros plo phi c k Hc Hk. apply (chain_exactly_one plo _ phi); [apply partition_chain; lia | lia].
Qed.

(** * 2. Folding per-chunk results in any order: the commutative-monoid argument (C11) *)
Section Monoid.
  Context {A : Type} (eqA : relation A) {Heq : Equivalence eqA}.
  Context (op : A -> A -> A) {Hop : Proper (eqA ==> eqA ==> eqA) op} (e : A).
  Hypothesis op_assoc : forall x y z, eqA (op x (op y z)) (op (op x y) z).
  Hypothesis op_comm : forall x y, eqA (op x y) (op y x).
  Hypothesis op_unit : forall x, eqA (op e x) x.

  Definition msum (l : list A) : A := fold_right op e l.

  Lemma msum_app : forall l1 l2, eqA (msum (l1 ++ l2)) (op (msum l1) (msum l2)).
  Proof.
    induction l1 as [|x l1 IH]; intros l2; simpl.
    - symmetry. apply op_unit.
    - rewrite IH. apply op_assoc.
  Qed.

  Lemma msum_perm : forall l l', Permutation l l' -> eqA (msum l) (msum l').
  Proof.
    induction 1; simpl.
    - reflexivity.
    - now rewrite IHPermutation.
    - rewrite !op_assoc. now rewrite (op_comm y x).
    - etransitivity; eauto.
  Qed.

  Lemma fold_left_msum : forall l a, eqA (fold_left op l a) (op a (msum l)).
  Proof.
    induction l as [|x l IH]; intros a; simpl.
    - rewrite op_comm. symmetry. apply op_unit.
    - rewrite IH. symmetry. apply op_assoc.
  Qed.

  Lemma msum_concat : forall ls, eqA (msum (map msum ls)) (msum (concat ls)).
  Proof.
    induction ls as [|l ls IH]; simpl; [reflexivity|].
    rewrite msum_app. now rewrite IH.
  Qed.

  Lemma msum_Forall2 : forall l l', Forall2 eqA l l' -> eqA (msum l) (msum l').
  Proof. induction 1; simpl; [reflexivity|]. now apply Hop. Qed.

  (** results of the chunks, delivered in ANY order (and each only up to [eqA]), folded from [init]:
      the monoid sum over all items of all chunks *)
  Theorem reduce_perm_invariant : forall (P : Type) (f : P -> A) (chunks : list (list P)) (rs rs' : list A) (init : A),
    Permutation rs rs' ->
    Forall2 eqA rs' (map (fun c => msum (map f c)) chunks) ->
    eqA (fold_left op rs init) (op init (msum (map f (concat chunks)))).
  Proof.
    intros P f chunks rs rs' init Hp Hf.
    rewrite fold_left_msum. rewrite (msum_perm _ _ Hp). rewrite (msum_Forall2 _ _ Hf).
    rewrite concat_map, <- msum_concat, map_map. reflexivity.
  Qed.

  (** hence two runs with different chunkings of the same items and different completion orders agree *)
  Corollary reduce_chunking_invariant : forall (P : Type) (f : P -> A) (ch1 ch2 : list (list P)) rs1 rs2 init,
    Permutation (concat ch1) (concat ch2) ->
    Permutation rs1 (map (fun c => msum (map f c)) ch1) ->
    Permutation rs2 (map (fun c => msum (map f c)) ch2) ->
    eqA (fold_left op rs1 init) (fold_left op rs2 init).
  Proof.
    intros P f ch1 ch2 rs1 rs2 init Hc H1 H2.
    assert (R : forall l : list A, Forall2 eqA l l) by (induction l; constructor; auto; reflexivity).
    rewrite (reduce_perm_invariant P f ch1 rs1 _ init H1 (R _)),
            (reduce_perm_invariant P f ch2 rs2 _ init H2 (R _)).
    apply Hop; [reflexivity|]. apply msum_perm. now apply Permutation_map.
  Qed.
End Monoid.

(** * 3. The balancing pipeline is such a fold: marginals are functions of the data alone (C11) *)
Local Open Scope Q_scope.

Definition pipe1 (fs : list (wpx -> wpx)) (w : wpx) : wpx := fold_left (fun x f => f x) fs w.
Definition init1 (p : pixel) : wpx := (fst p, inject_Z (snd p)).

Lemma pipe_map : forall fs l, pipe fs l = map (pipe1 fs) l.
Proof.
  induction fs as [|f fs IH]; intros l; simpl.
  - unfold pipe. simpl. now rewrite map_id.
  - unfold pipe in *. simpl. rewrite IH, map_map. reflexivity.
Qed.

Lemma init_map : forall l, init l = map init1 l.
Proof. reflexivity. Qed.

Lemma marg_at_sum : forall i l, marg_at i l == sumQ (map (contrib i) l).
Proof. intros. unfold marg_at. apply Qred_correct. Qed.

Lemma length_marginalize : forall n l, length (marginalize n l) = n.
Proof. intros. unfold marginalize, zrange. now rewrite !map_length, seq_length. Qed.

Lemma nth_zrange_map {B} : forall (g : Z -> B) (n : nat) (k : nat) (d : B),
  (k < n)%nat -> nth k (map g (zrange 0 n)) d = g (Z.of_nat k).
Proof.
  intros g n k d Hk. unfold zrange. rewrite map_map.
  rewrite (nth_indep _ d (g (0 + Z.of_nat 0)%Z)) by (now rewrite map_length, seq_length).
  rewrite (map_nth (fun x => g (0 + Z.of_nat x)%Z)). rewrite seq_nth by lia. f_equal.
Qed.

Lemma qnth_marginalize : forall n l i, (0 <= i < Z.of_nat n)%Z -> qnth (marginalize n l) i = marg_at i l.
Proof.
  intros n l i Hi. unfold qnth, marginalize.
  rewrite nth_zrange_map by lia. f_equal. lia.
Qed.

Lemma length_vadd : forall a b, length a = length b -> length (vadd a b) = length a.
Proof. intros. unfold vadd. rewrite map_length, combine_length. lia. Qed.

Lemma nth_vadd : forall a b k, length a = length b ->
  nth k (vadd a b) 0 == nth k a 0 + nth k b 0.
Proof.
  induction a as [|x a IH]; intros b k Hl; destruct b as [|y b]; simpl in Hl; try discriminate.
  - destruct k; simpl; ring.
  - change (vadd (x :: a) (y :: b)) with (Qred (x + y) :: vadd a b).
    destruct k; cbn [nth].
    + apply Qred_correct.
    + apply IH. congruence.
Qed.

Lemma qnth_reduce : forall n rs init i,
  Forall (fun r => length r = n) rs -> length init = n ->
  qnth (fold_left vadd rs init) i == fold_left Qplus (map (fun r => qnth r i) rs) (qnth init i).
Proof.
  intros n rs. induction rs as [|r rs IH]; intros init i Hf Hl; simpl; [reflexivity|].
  inversion Hf as [|? ? Hr Hrs]; subst.
  rewrite IH; [| assumption | rewrite length_vadd; congruence].
  assert (E : qnth (vadd init r) i == qnth init i + qnth r i) by (apply nth_vadd; congruence).
  generalize (map (fun r0 => qnth r0 i) rs). intros l.
  revert E. generalize (qnth (vadd init r) i) (qnth init i + qnth r i).
  induction l as [|z l IHl]; intros u v E; simpl; [exact E|]. apply IHl. now rewrite E.
Qed.

Lemma qnth_zeros : forall n i, qnth (zeros n) i = 0.
Proof.
  intros n i. unfold qnth, zeros. generalize (Z.to_nat i) as k. induction n as [|n IH]; intros [|k]; simpl; auto.
Qed.

Global Instance Qplus_proper : Proper (Qeq ==> Qeq ==> Qeq) Qplus.
Proof. intros a b H c d H'. now rewrite H, H'. Qed.

(** the per-pixel contribution to marginal [i] after the filters [fs] *)
Definition pcontrib (i : Z) (fs : list (wpx -> wpx)) (p : pixel) : Q := contrib i (pipe1 fs (init1 p)).

Lemma chunk_result_at : forall n fs i (chunk : list pixel), (0 <= i < Z.of_nat n)%Z ->
  qnth (marginalize n (pipe fs (init chunk))) i == sumQ (map (pcontrib i fs) chunk).
Proof.
  intros. rewrite qnth_marginalize by assumption. rewrite marg_at_sum.
  rewrite pipe_map, init_map, !map_map. reflexivity.
Qed.

(** For ANY list of spans that covers the pixel table and ANY order in which the map functor hands back the
    per-chunk results, the reduced marginal of bin i is the sum over all pixels of their contribution:
    the right-hand side mentions neither the spans nor the order. *)
Theorem marg_schedule_invariant : forall n spans fs (px : list pixel) rs i,
  concat (map (get_chunk px) spans) = px ->
  Permutation rs (marg_chunks n spans fs px) ->
  (0 <= i < Z.of_nat n)%Z ->
  qnth (reduce_add n rs) i == sumQ (map (pcontrib i fs) px).
Proof.
  intros n spans fs px rs i Hcov Hperm Hi. unfold reduce_add.
  assert (Hlen : Forall (fun r => length r = n) rs).
  { rewrite Forall_forall. intros r Hr.
    apply (Permutation_in _ Hperm) in Hr. unfold marg_chunks in Hr.
    rewrite in_map_iff in Hr. destruct Hr as [sp [<- _]]. apply length_marginalize. }
  rewrite (qnth_reduce n) by (auto; unfold zeros; now rewrite repeat_length).
  rewrite qnth_zeros.
  pose proof (reduce_perm_invariant Qeq Qplus 0 Qplus_assoc Qplus_comm Qplus_0_l
               pixel (pcontrib i fs) (map (get_chunk px) spans)
               (map (fun r => qnth r i) rs) (map (fun r => qnth r i) (marg_chunks n spans fs px)) 0) as H.
  rewrite H.
  - rewrite Hcov. unfold msum. fold (sumQ (map (pcontrib i fs) px)). ring.
  - now apply Permutation_map.
  - unfold marg_chunks. rewrite !map_map.
    clear - Hi. induction spans as [|sp spans IH]; simpl; constructor; [|exact IH].
    now apply chunk_result_at.
Qed.

(** two complete runs (any chunk sizes, any completion orders) give the same marginal for every bin *)
Corollary marg_data_only : forall n fs (px : list pixel) c1 c2 rs1 rs2 i,
  (1 <= c1)%Z -> (1 <= c2)%Z ->
  Permutation rs1 (marg_chunks n (balance_spans (zlen px) (Some c1)) fs px) ->
  Permutation rs2 (marg_chunks n (balance_spans (zlen px) (Some c2)) fs px) ->
  (0 <= i < Z.of_nat n)%Z ->
  qnth (reduce_add n rs1) i == qnth (reduce_add n rs2) i.
Proof.
  intros n fs px c1 c2 rs1 rs2 i H1 H2 P1 P2 Hi.
  rewrite (marg_schedule_invariant n _ fs px rs1 i (spans_exact_cover px c1 H1) P1 Hi).
  rewrite (marg_schedule_invariant n _ fs px rs2 i (spans_exact_cover px c2 H2) P2 Hi).
  reflexivity.
Qed.

(** the sequential run of the model ([marg_of]) is one such run *)
Corollary marg_of_spec : forall n fs (px : list pixel) chunk i,
  (match chunk with Some c => 1 <= c | None => True end)%Z ->
  (0 <= i < Z.of_nat n)%Z ->
  qnth (marg_of n (balance_spans (zlen px) chunk) fs px) i == sumQ (map (pcontrib i fs) px).
Proof.
  intros n fs px chunk i Hc Hi. unfold marg_of.
  apply (marg_schedule_invariant n (balance_spans (zlen px) chunk) fs px); auto.
  destruct chunk as [c|]; [now apply spans_exact_cover | apply spans_none_cover].
Qed.

(** * 4. The sparse marginal is the row sum of the dense symmetric matrix, diagonal once (C10.1 / C11.3) *)
Lemma sumQ_app : forall l1 l2, sumQ (l1 ++ l2) == sumQ l1 + sumQ l2.
Proof. induction l1 as [|x l1 IH]; intros; simpl; [ring | rewrite IH; ring]. Qed.

Lemma sumQ_ext {B} : forall (L : list B) f g, (forall j, In j L -> f j == g j) -> sumQ (map f L) == sumQ (map g L).
Proof.
  induction L as [|x L IH]; intros f g H; simpl; [reflexivity|].
  rewrite (H x) by (now left). rewrite (IH f g); [reflexivity|]. intros; apply H; now right.
Qed.

Lemma sumQ_plus {B} : forall (L : list B) f g, sumQ (map (fun j => f j + g j) L) == sumQ (map f L) + sumQ (map g L).
Proof. induction L as [|x L IH]; intros; simpl; [ring | rewrite IH; ring]. Qed.

Lemma sumQ_scal {B} : forall (L : list B) c f, sumQ (map (fun j => c * f j) L) == c * sumQ (map f L).
Proof. induction L as [|x L IH]; intros; simpl; [ring | rewrite IH; ring]. Qed.

Lemma sumQ_zero {B} : forall (L : list B), sumQ (map (fun _ => 0) L) == 0.
Proof. induction L as [|x L IH]; simpl; [reflexivity | rewrite IH; ring]. Qed.

Lemma sumQ_ind_out : forall (L : list Z) k g, ~ In k L -> sumQ (map (fun j => if (j =? k)%Z then g j else 0) L) == 0.
Proof.
  induction L as [|x L IH]; intros k g H; simpl; [reflexivity|].
  destruct (Z.eqb_spec x k) as [->|Hne]; [exfalso; apply H; now left|].
  rewrite IH; [ring|]. intro; apply H; now right.
Qed.

Lemma sumQ_ind_in : forall (L : list Z) k g, NoDup L -> In k L ->
  sumQ (map (fun j => if (j =? k)%Z then g j else 0) L) == g k.
Proof.
  induction L as [|x L IH]; intros k g Hnd Hin; simpl; [contradiction|].
  inversion Hnd as [|? ? Hx HL]; subst.
  destruct (Z.eqb_spec x k) as [->|Hne].
  - rewrite sumQ_ind_out by assumption. ring.
  - destruct Hin as [->|Hin]; [congruence|]. rewrite IH by assumption. ring.
Qed.

Lemma in_zrange : forall n k, In k (zrange 0 n) <-> (0 <= k < Z.of_nat n)%Z.
Proof.
  intros n k. unfold zrange. rewrite in_map_iff. split.
  - intros [x [<- Hx]]. apply in_seq in Hx. lia.
  - intros Hk. exists (Z.to_nat k). split; [lia|]. apply in_seq. lia.
Qed.

Lemma nodup_zrange : forall n, NoDup (zrange 0 n).
Proof.
  intros n. unfold zrange. apply FinFun.Injective_map_NoDup; [|apply seq_NoDup].
  intros a b H. lia.
Qed.

Lemma sumQ_single : forall n k g, (0 <= k < Z.of_nat n)%Z ->
  sumQ (map (fun j => if (j =? k)%Z then g j else 0) (zrange 0 n)) == g k.
Proof. intros. apply sumQ_ind_in; [apply nodup_zrange | now apply in_zrange]. Qed.

Definition ind (w : wpx) (i j : Z) : Q :=
  if (b1 w =? Z.min i j)%Z && (b2 w =? Z.max i j)%Z then dat w else 0.

Lemma dense_cons : forall w l i j, dense (w :: l) i j = ind w i j + dense l i j.
Proof. reflexivity. Qed.

Lemma f_times_parts : forall b w, b1 (f_times b w) = b1 w /\ b2 (f_times b w) = b2 w /\
  dat (f_times b w) = qnth b (b1 w) * qnth b (b2 w) * dat w.
Proof. intros. repeat split. Qed.

(** one pixel: its contribution to marginal i = b_i * sum_j [its dense symmetric entry (i,j)] * b_j *)
Lemma single_rowsum : forall n b w i,
  (b1 w <= b2 w)%Z -> (0 <= b1 w)%Z -> (b2 w < Z.of_nat n)%Z -> (0 <= i < Z.of_nat n)%Z ->
  contrib i (f_times b w) == qnth b i * sumQ (map (fun j => ind w i j * qnth b j) (zrange 0 n)).
Proof.
  intros n b w i Hu Hp Hq Hi. unfold contrib.
  destruct (f_times_parts b w) as [-> [-> ->]].
  set (p := b1 w) in *. set (q := b2 w) in *. set (x := dat w).
  destruct (Z.eqb_spec p i) as [Hpi|Hpi].
  - (* i = p: the only partner is j = q *)
    rewrite (sumQ_ext _ _ (fun j => if (j =? q)%Z then x * qnth b j else 0)).
    + rewrite (sumQ_single n q (fun j => x * qnth b j)) by lia.
      destruct (Z.eqb_spec q i), (Z.eqb_spec p q); simpl; subst; try lia; ring.
    + intros j Hj. apply in_zrange in Hj. unfold ind. fold p q x.
      destruct (Z.eqb_spec j q), (Z.eqb_spec p (Z.min i j)), (Z.eqb_spec q (Z.max i j)); simpl; try ring; lia.
  - destruct (Z.eqb_spec q i) as [Hqi|Hqi].
    + (* i = q <> p: the only partner is j = p *)
      rewrite (sumQ_ext _ _ (fun j => if (j =? p)%Z then x * qnth b j else 0)).
      * rewrite (sumQ_single n p (fun j => x * qnth b j)) by lia.
        destruct (Z.eqb_spec p q); simpl; subst; try lia; ring.
      * intros j Hj. apply in_zrange in Hj. unfold ind. fold p q x.
        destruct (Z.eqb_spec j p), (Z.eqb_spec p (Z.min i j)), (Z.eqb_spec q (Z.max i j)); simpl; try ring; lia.
    + rewrite (sumQ_ext _ _ (fun _ => 0)).
      * rewrite sumQ_zero. simpl. ring.
      * intros j Hj. unfold ind. fold p q x.
        destruct (Z.eqb_spec p (Z.min i j)), (Z.eqb_spec q (Z.max i j)); simpl; try ring; lia.
Qed.

Definition UpperIn (n : nat) (l : list wpx) : Prop :=
  Forall (fun w => (b1 w <= b2 w)%Z /\ (0 <= b1 w)%Z /\ (b2 w < Z.of_nat n)%Z) l.

Theorem marg_is_rowsum : forall n b (l : list wpx) i,
  UpperIn n l -> (0 <= i < Z.of_nat n)%Z ->
  marg_at i (map (f_times b) l) == rowsum (dense l) n b i.
Proof.
  intros n b l i Hl Hi. rewrite marg_at_sum. unfold rowsum.
  induction Hl as [|w l [Hu [Hp Hq]] Hl IH]; simpl.
  - rewrite (sumQ_ext _ _ (fun _ => 0)); [rewrite sumQ_zero; ring|]. intros; unfold dense; simpl; ring.
  - rewrite IH. rewrite (single_rowsum n b w i Hu Hp Hq Hi).
    rewrite (sumQ_ext (zrange 0 n) (fun j => dense (w :: l) i j * qnth b j)
               (fun j => ind w i j * qnth b j + dense l i j * qnth b j)).
    + rewrite sumQ_plus. ring.
    + intros j _. rewrite dense_cons. ring.
Qed.

Lemma dense_sym : forall l i j, dense l i j = dense l j i.
Proof. intros. unfold dense. now rewrite Z.min_comm, Z.max_comm. Qed.

Lemma sumQ_nonneg {B} : forall (L : list B) f, (forall j, In j L -> 0 <= f j) -> 0 <= sumQ (map f L).
Proof.
  induction L as [|x L IH]; intros f H; simpl; [apply Qle_refl|].
  assert (0 <= f x) by (apply H; now left).
  assert (0 <= sumQ (map f L)) by (apply IH; intros; apply H; now right). lra.
Qed.

Lemma dense_nonneg : forall l i j, Forall (fun w => 0 <= dat w) l -> 0 <= dense l i j.
Proof.
  intros l i j H. unfold dense. apply sumQ_nonneg. intros w Hw.
  rewrite Forall_forall in H. specialize (H w Hw).
  destruct (_ && _); [assumption | apply Qle_refl].
Qed.

(** filters never touch the bin ids of a pixel *)
Definition keyfix (f : wpx -> wpx) : Prop := forall w, fst (f w) = fst w.

Lemma keyfix_binarize : keyfix f_binarize. Proof. intros w. reflexivity. Qed.
Lemma keyfix_zero_diags : forall d, keyfix (f_zero_diags d).
Proof. intros d w. unfold f_zero_diags. now destruct (_ <? _)%Z. Qed.
Lemma keyfix_zero_trans : forall c, keyfix (f_zero_trans c).
Proof. intros c w. unfold f_zero_trans. now destruct (_ =? _)%Z. Qed.
Lemma keyfix_zero_cis : forall c, keyfix (f_zero_cis c).
Proof. intros c w. unfold f_zero_cis. now destruct (_ =? _)%Z. Qed.
Lemma keyfix_times : forall v, keyfix (f_times v). Proof. intros v w. reflexivity. Qed.

Lemma keyfix_base_filters : forall o chroms, Forall keyfix (base_filters o chroms).
Proof.
  intros o chroms. unfold base_filters. apply Forall_app. split.
  - destruct (o_cis o); constructor; [apply keyfix_zero_trans | constructor].
  - destruct (_ =? _)%Z; constructor; [apply keyfix_zero_diags | constructor].
Qed.

Lemma pipe1_keyfix : forall fs w, Forall keyfix fs -> fst (pipe1 fs w) = fst w.
Proof.
  induction fs as [|f fs IH]; intros w H; simpl; [reflexivity|].
  inversion H; subst. unfold pipe1 in *. simpl. rewrite IH by assumption. auto.
Qed.

Lemma pipe1_app : forall fs gs w, pipe1 (fs ++ gs) w = pipe1 gs (pipe1 fs w).
Proof. intros. unfold pipe1. now rewrite fold_left_app. Qed.

(** the filtered, weighted pixels of a table: what the dense matrix F is built from *)
Definition filtered (fs : list (wpx -> wpx)) (px : list pixel) : list wpx := map (fun p => pipe1 fs (init1 p)) px.

Lemma filtered_upper : forall n fs px, Forall keyfix fs ->
  upper_b px = true -> inrange_b (Z.of_nat n) px = true -> UpperIn n (filtered fs px).
Proof.
  intros n fs px Hk Hu Hr. unfold UpperIn, filtered. rewrite Forall_map. rewrite Forall_forall. intros p Hp.
  unfold upper_b in Hu. unfold inrange_b in Hr. rewrite forallb_forall in Hu, Hr.
  specialize (Hu p Hp). specialize (Hr p Hp).
  unfold b1, b2. rewrite pipe1_keyfix by assumption. unfold init1. simpl.
  unfold row, col in *. lia.
Qed.

(** genome-wide sweep of the model: marginal i = row sum i of diag(b) F diag(b), F = dense symmetric
    completion of the filtered upper-triangular pixels (diagonal once) — for every chunk size *)
Theorem margf_gw_is_rowsum : forall n chunk fs (px : list pixel) b i,
  (match chunk with Some c => 1 <= c | None => True end)%Z ->
  Forall keyfix fs -> upper_b px = true -> inrange_b (Z.of_nat n) px = true ->
  (0 <= i < Z.of_nat n)%Z ->
  qnth (margf_gw n (balance_spans (zlen px) chunk) fs px b) i == rowsum (dense (filtered fs px)) n b i.
Proof.
  intros n chunk fs px b i Hc Hk Hu Hr Hi. unfold margf_gw.
  rewrite marg_of_spec by assumption.
  rewrite <- (marg_is_rowsum n b (filtered fs px) i (filtered_upper n fs px Hk Hu Hr) Hi).
  rewrite marg_at_sum. unfold filtered. rewrite !map_map.
  apply sumQ_ext. intros p _. unfold pcontrib. rewrite pipe1_app. reflexivity.
Qed.

(** the per-chunk pipeline is local: a pure per-pixel map, so the result for a chunk is determined by the
    chunk alone and splitting a chunk splits the result (no state carried between chunks) *)
Theorem pipeline_local : forall fs (c1 c2 : list pixel),
  pipe fs (init (c1 ++ c2)) = pipe fs (init c1) ++ pipe fs (init c2).
Proof. intros. rewrite !pipe_map, !init_map, !map_app. reflexivity. Qed.

Theorem pipeline_pointwise : forall fs (c : list pixel),
  pipe fs (init c) = map (fun p => pipe1 fs (init1 p)) c.
Proof. intros. now rewrite pipe_map, init_map, map_map. Qed.

(** * 5. One sweep: zero stays zero, positive stays positive, flatness bound (C10) *)
Lemma qz_true : forall x, qz x = true <-> x == 0.
Proof. intros. unfold qz. apply Qeq_bool_iff. Qed.

Lemma qz_false : forall x, qz x = false <-> ~ x == 0.
Proof. intros. rewrite <- qz_true. destruct (qz x); split; congruence. Qed.

Lemma Qltb_true : forall x y, Qltb x y = true <-> x < y.
Proof.
  intros. unfold Qltb. rewrite negb_true_iff. rewrite <- not_true_iff_false, Qle_bool_iff. split; intros H.
  - now apply Qnot_le_lt.
  - now apply Qlt_not_le.
Qed.

Lemma in_nzs : forall x m, In x (nzs m) <-> In x m /\ ~ x == 0.
Proof. intros. unfold nzs. rewrite filter_In, negb_true_iff, qz_false. tauto. Qed.

Lemma mean_eq : forall l, mean l == sumQ l / qlen l.
Proof. intros. unfold mean. apply Qred_correct. Qed.

Lemma variance_eq : forall l, variance l == sumQ (map (fun x => (x - mean l) * (x - mean l)) l) / qlen l.
Proof. intros. unfold variance. rewrite mean_eq. unfold qlen, zlen. now rewrite map_length. Qed.

Lemma qlen_pos : forall {B} (l : list B), l <> [] -> 0 < qlen l.
Proof.
  intros B l H. unfold qlen, zlen. destruct l; [congruence|].
  replace 0 with (inject_Z 0) by reflexivity. rewrite <- Zlt_Qlt. simpl length. lia.
Qed.

Lemma sumQ_pos : forall l, l <> [] -> (forall x, In x l -> 0 < x) -> 0 < sumQ l.
Proof.
  induction l as [|x l IH]; intros Hne H; [congruence|]. simpl.
  assert (0 < x) by (apply H; now left).
  destruct l as [|y l]; [simpl; lra|].
  assert (0 < sumQ (y :: l)) by (apply IH; [discriminate | intros; apply H; now right]). lra.
Qed.

Lemma Qdiv_pos : forall a b, 0 < a -> 0 < b -> 0 < a / b.
Proof. intros. apply Qlt_shift_div_l; lra. Qed.

Lemma Qsq_nonneg : forall z : Q, 0 <= z * z.
Proof. intros. nra. Qed.

Lemma sq_le_sum : forall c x l, In x l -> (x - c) * (x - c) <= sumQ (map (fun y => (y - c) * (y - c)) l).
Proof.
  induction l as [|y l IH]; intros H; [contradiction|]. simpl.
  assert (Hs : 0 <= sumQ (map (fun y => (y - c) * (y - c)) l)).
  { apply sumQ_nonneg. intros; cbv beta; apply Qsq_nonneg. }
  pose proof (Qsq_nonneg (y - c)).
  destruct H as [->|H]; [lra|]. specialize (IH H). lra.
Qed.

Lemma qnth_in : forall m i, (0 <= i < zlen m)%Z -> In (qnth m i) m.
Proof. intros m i H. unfold qnth. apply nth_In. unfold zlen in H. lia. Qed.

Lemma qnth_upd : forall mu m b i, length m = length b ->
  qnth (map (upd mu) (combine m b)) i = upd mu (qnth m i, qnth b i).
Proof.
  intros mu m b i. unfold qnth. generalize (Z.to_nat i) as k.
  revert b. induction m as [|x m IH]; intros b k Hl; destruct b as [|y b]; simpl in Hl; try discriminate.
  - destruct k; reflexivity.
  - destruct k; simpl; [reflexivity|]. apply IH. congruence.
Qed.

Lemma upd_eq : forall mu mi bi, ~ mu == 0 ->
  upd mu (mi, bi) == if qz mi then bi else bi * (mu / mi).
Proof.
  intros mu mi bi Hmu. unfold upd. destruct (qz mi) eqn:E; [reflexivity|].
  apply qz_false in E. rewrite Qred_correct. field. split; assumption.
Qed.

Lemma rowsum_nonneg : forall F n b i,
  (forall i j, 0 <= F i j) -> (forall i, 0 <= qnth b i) -> 0 <= rowsum F n b i.
Proof.
  intros F n b i HF Hb. unfold rowsum.
  assert (0 <= sumQ (map (fun j => F i j * qnth b j) (zrange 0 n))).
  { apply sumQ_nonneg. intros j _. specialize (HF i j). specialize (Hb j). nra. }
  specialize (Hb i). nra.
Qed.

Lemma sumQ_term_le : forall (L : list Z) f k, (forall j, In j L -> 0 <= f j) -> In k L -> f k <= sumQ (map f L).
Proof.
  induction L as [|x L IH]; intros f k H Hin; [contradiction|]. simpl.
  assert (0 <= f x) by (apply H; now left).
  assert (0 <= sumQ (map f L)) by (apply sumQ_nonneg; intros; apply H; now right).
  destruct Hin as [->|Hin]; [lra|].
  assert (f k <= sumQ (map f L)) by (apply IH; auto; intros; apply H; now right). lra.
Qed.

Lemma sumQ_le {B} : forall (L : list B) f g, (forall j, In j L -> f j <= g j) -> sumQ (map f L) <= sumQ (map g L).
Proof.
  induction L as [|x L IH]; intros f g H; simpl; [apply Qle_refl|].
  assert (f x <= g x) by (apply H; now left).
  assert (sumQ (map f L) <= sumQ (map g L)) by (apply IH; intros; apply H; now right). lra.
Qed.

Section Sweep.
  Variable F : Z -> Z -> Q.
  Variable n : nat.
  Hypothesis F_sym : forall i j, F i j == F j i.
  Hypothesis F_nonneg : forall i j, 0 <= F i j.

  Definition InR (i : Z) : Prop := (0 <= i < Z.of_nat n)%Z.
  Definition NonNeg (b : list Q) : Prop := forall i, 0 <= qnth b i.

  (** marginals given as a list that agrees pointwise (==) with the row sums of diag(b) F diag(b) *)
  Definition MargOf (m b : list Q) : Prop :=
    length m = n /\ forall i, InR i -> qnth m i == rowsum F n b i.

  Lemma marg_nonneg : forall m b i, MargOf m b -> NonNeg b -> InR i -> 0 <= qnth m i.
  Proof. intros m b i [_ H] Hb Hi. rewrite H by assumption. now apply rowsum_nonneg. Qed.

  Lemma inr_zlen : forall m b i, MargOf m b -> InR i -> (0 <= i < zlen m)%Z.
  Proof. intros m b i [Hl _] Hi. unfold zlen, InR in *. lia. Qed.

  (** every non-zero marginal is positive; the mean over the non-zero ones is positive *)
  Lemma nz_pos : forall m b x, MargOf m b -> NonNeg b -> In x (nzs m) -> 0 < x.
  Proof.
    intros m b x HM Hb Hx. apply in_nzs in Hx. destruct Hx as [Hin Hnz].
    apply In_nth with (d := 0) in Hin. destruct Hin as [k [Hk <-]].
    assert (Hi : InR (Z.of_nat k)) by (destruct HM as [Hl _]; unfold InR; lia).
    pose proof (marg_nonneg m b (Z.of_nat k) HM Hb Hi) as H0. unfold qnth in H0.
    rewrite Nat2Z.id in H0. destruct (Qlt_le_dec 0 (nth k m 0)); [assumption|]. exfalso. apply Hnz. lra.
  Qed.

  Lemma mean_nz_pos : forall m b, MargOf m b -> NonNeg b -> nzs m <> [] -> 0 < mean (nzs m).
  Proof.
    intros m b HM Hb Hne. rewrite mean_eq. apply Qdiv_pos.
    - apply sumQ_pos; [assumption|]. intros x Hx. eapply nz_pos; eauto.
    - now apply qlen_pos.
  Qed.

  Lemma ic_update_some : forall m b b' var mu,
    ic_update m b = Some (b', var, mu) ->
    nzs m <> [] /\ mu = mean (nzs m) /\ var = variance (nzs m) /\ b' = map (upd mu) (combine m b).
  Proof.
    intros m b b' var mu H. unfold ic_update in H. destruct (nzs m) as [|x l] eqn:E; [discriminate|].
    inversion H; subst. repeat split; congruence.
  Qed.

  (** C10.2a  a zero weight stays zero under a sweep *)
  Theorem zero_stays_zero : forall m b b' var mu i,
    ic_update m b = Some (b', var, mu) -> length m = length b ->
    qnth b i == 0 -> qnth b' i == 0.
  Proof.
    intros m b b' var mu i H Hl Hz. apply ic_update_some in H. destruct H as [_ [_ [_ ->]]].
    rewrite qnth_upd by assumption. unfold upd. destruct (qz (qnth m i)); [assumption|].
    rewrite Qred_correct, Hz. unfold Qdiv. ring.
  Qed.

  (** C10.2b  a positive weight stays positive; weights stay non-negative *)
  Theorem positive_stays_positive : forall m b b' var mu i,
    MargOf m b -> NonNeg b -> length b = n ->
    ic_update m b = Some (b', var, mu) -> InR i ->
    0 < qnth b i -> 0 < qnth b' i.
  Proof.
    intros m b b' var mu i HM Hb Hlb H Hi Hp. apply ic_update_some in H. destruct H as [Hne [-> [_ ->]]].
    pose proof (mean_nz_pos m b HM Hb Hne) as Hmu.
    rewrite qnth_upd by (destruct HM; congruence).
    rewrite upd_eq by lra. destruct (qz (qnth m i)) eqn:E; [assumption|].
    apply qz_false in E.
    assert (0 < qnth m i).
    { pose proof (marg_nonneg m b i HM Hb Hi). destruct (Qlt_le_dec 0 (qnth m i)); [assumption|]. exfalso; apply E; lra. }
    assert (0 < mean (nzs m) / qnth m i) by (now apply Qdiv_pos). nra.
  Qed.

  Lemma marg_nonneg_all : forall m b i, MargOf m b -> NonNeg b -> 0 <= qnth m i.
  Proof.
    intros m b i HM Hb. destruct (Nat.lt_ge_cases (Z.to_nat i) n) as [Hlt|Hge].
    - assert (E : qnth m i = qnth m (Z.of_nat (Z.to_nat i))) by (unfold qnth; now rewrite Nat2Z.id).
      rewrite E. apply (marg_nonneg m b); auto. unfold InR. lia.
    - unfold qnth. rewrite nth_overflow; [apply Qle_refl | destruct HM; lia].
  Qed.

  Theorem sweep_nonneg : forall m b b' var mu,
    MargOf m b -> NonNeg b -> length b = n ->
    ic_update m b = Some (b', var, mu) -> NonNeg b'.
  Proof.
    intros m b b' var mu HM Hb Hlb H i. apply ic_update_some in H. destruct H as [Hne [-> [_ ->]]].
    pose proof (mean_nz_pos m b HM Hb Hne) as Hmu.
    rewrite qnth_upd by (destruct HM; congruence).
    rewrite upd_eq by lra. destruct (qz (qnth m i)) eqn:E; [apply Hb|].
    apply qz_false in E.
    assert (0 < qnth m i).
    { pose proof (marg_nonneg_all m b i HM Hb). destruct (Qlt_le_dec 0 (qnth m i)); [assumption|]. exfalso; apply E; lra. }
    assert (0 < mean (nzs m) / qnth m i) by (now apply Qdiv_pos).
    specialize (Hb i). nra.
  Qed.
End Sweep.
