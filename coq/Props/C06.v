(** C06  Unordered ingestion equals aggregating all records in memory.
    Only statements; proofs are in Proofs/MergeProofs.v.  The model of create_from_unordered is
    Model/Merge.v:unordered_g (one temporary cooler per chunk, optional first merge pass over an edge
    list, final merger; every written chunk goes through validate_pixels and the dtype check). *)
From Cooler Require Import Model.Merge Proofs.PixelsProofs Proofs.MergeProofs.
From Coq Require Import Sorted Permutation.

(** any value type / aggregation function that is insensitive to record order and compatible with a
    two-level merge: a successful ingestion stores the group-by aggregate of all records of all chunks,
    with its index, for every chunking, every mergebuf >= 0, one pass or any admissible edge list *)
Theorem C06_unordered_exact : forall (V : Type) (n : nat) (o : copts) (vcheck : V -> bool) (agg : list V -> V),
  (forall l l' : list (key * V), Permutation l l' -> groupby_agg agg l = groupby_agg agg l') ->
  (forall Gs : list (list (key * V)), groupby_agg agg (concat (map (groupby_agg agg) Gs)) = groupby_agg agg (concat Gs)) ->
  forall (chunks : list (list (key * V))) (buf : Z) (edges : option (list nat)) (m : mcool V),
  (1 <= n)%nat -> 0 <= buf ->
  Forall (fun ch => (o_sort o = true \/ RowSorted ch) /\ Forall (fun p => 0 <= rowof p < Z.of_nat n) ch) chunks ->
  match edges with Some e => Admissible (length chunks) e | None => True end ->
  unordered_g n o vcheck agg chunks buf edges = Ok m ->
  m = mk_cool n (groupby_agg agg (concat chunks)).
Proof. intros V. exact (@unordered_exact V). Qed.
Print Assumptions C06_unordered_exact.

(** counts: the stored table IS the in-memory aggregate (strictly sorted, one row per pixel, per-pixel sum)
    of the concatenation of all chunks; its index is the index of that table; the total is preserved *)
Theorem C06_unordered_eq_aggregate : forall (n : nat) (o : copts) (vcheck : Z -> bool)
    (chunks : list (list pixel)) (buf : Z) (edges : option (list nat)) (m : mcool Z),
  (1 <= n)%nat -> 0 <= buf ->
  Forall (fun ch => (o_sort o = true \/ RowSorted ch) /\ Forall (fun p => 0 <= rowof p < Z.of_nat n) ch) chunks ->
  match edges with Some e => Admissible (length chunks) e | None => True end ->
  unordered_g n o vcheck sumZ chunks buf edges = Ok m ->
  mc_px m = aggregate (concat chunks) /\ mc_off m = index_of n (mc_px m) /\
  total (mc_px m) = total (concat chunks).
Proof. exact unordered_eq_aggregate. Qed.
Print Assumptions C06_unordered_eq_aggregate.

(** independence of how the records are split into chunks, of the chunk order, of the merge buffer, of one
    vs two passes (and of the validation options): same multiset of records, same file content *)
Theorem C06_unordered_independent : forall (n : nat) (o o' : copts) (vc vc' : Z -> bool)
    (chunks chunks' : list (list pixel)) (buf buf' : Z) (edges edges' : option (list nat)) (m m' : mcool Z),
  (1 <= n)%nat -> 0 <= buf -> 0 <= buf' ->
  Permutation (concat chunks) (concat chunks') ->
  Forall (fun ch => (o_sort o = true \/ RowSorted ch) /\ Forall (fun p => 0 <= rowof p < Z.of_nat n) ch) chunks ->
  Forall (fun ch => (o_sort o' = true \/ RowSorted ch) /\ Forall (fun p => 0 <= rowof p < Z.of_nat n) ch) chunks' ->
  match edges with Some e => Admissible (length chunks) e | None => True end ->
  match edges' with Some e => Admissible (length chunks') e | None => True end ->
  unordered_g n o vc sumZ chunks buf edges = Ok m ->
  unordered_g n o' vc' sumZ chunks' buf' edges' = Ok m' -> m = m'.
Proof. exact unordered_independent. Qed.
Print Assumptions C06_unordered_independent.

(** the same independence for every permutation-invariant aggregation obeying the composition law
    agg (map agg Gs) = agg (concat Gs) on non-empty groups (instances: max and min) *)
Theorem C06_unordered_independent_any_agg : forall (V : Type) (agg : list V -> V),
  (forall vs vs', Permutation vs vs' -> agg vs = agg vs') ->
  (forall Gs : list (list V), Forall (fun G => G <> []) Gs -> agg (map agg Gs) = agg (concat Gs)) ->
  forall (n : nat) (o o' : copts) (vc vc' : V -> bool)
    (chunks chunks' : list (list (key * V))) (buf buf' : Z) (edges edges' : option (list nat)) (m m' : mcool V),
  (1 <= n)%nat -> 0 <= buf -> 0 <= buf' ->
  Permutation (concat chunks) (concat chunks') ->
  Forall (fun ch => (o_sort o = true \/ RowSorted ch) /\ Forall (fun p => 0 <= rowof p < Z.of_nat n) ch) chunks ->
  Forall (fun ch => (o_sort o' = true \/ RowSorted ch) /\ Forall (fun p => 0 <= rowof p < Z.of_nat n) ch) chunks' ->
  match edges with Some e => Admissible (length chunks) e | None => True end ->
  match edges' with Some e => Admissible (length chunks') e | None => True end ->
  unordered_g n o vc agg chunks buf edges = Ok m ->
  unordered_g n o' vc' agg chunks' buf' edges' = Ok m' -> m = m'.
Proof. intros V agg H1 H2. exact (unordered_independent_gen agg H1 H2). Qed.
Print Assumptions C06_unordered_independent_any_agg.
Theorem C06_max_min_obey_the_law :
  (forall vs vs', Permutation vs vs' -> lmax vs = lmax vs') /\
  (forall Gs : list (list Z), Forall (fun G => G <> []) Gs -> lmax (map lmax Gs) = lmax (concat Gs)) /\
  (forall vs vs', Permutation vs vs' -> lmin vs = lmin vs') /\
  (forall Gs : list (list Z), Forall (fun G => G <> []) Gs -> lmin (map lmin Gs) = lmin (concat Gs)).
Proof. repeat split; [exact max_perm|exact max_compose|exact min_perm|exact min_compose]. Qed.
Print Assumptions C06_max_min_obey_the_law.

(** no spurious failure (any value type / aggregation; dtype check switched off): at least one chunk, each
    acceptable to the validator under the options in force and sorted by bin1_id (or ensure_sorted), any
    mergebuf >= 0, single pass or any admissible edge list => the ingestion returns a result.  Covers the
    repaired defects D9 (IndexError with 2-3 chunks) and D16 (empty merge epoch). *)
Theorem C06_unordered_total : forall (V : Type) (n : nat) (o : copts) (agg : list V -> V)
    (chunks : list (list (key * V))) (buf : Z) (edges : option (list nat)),
  (1 <= n)%nat -> 0 <= buf -> chunks <> [] ->
  Forall (fun ch => Forall (fun p => KeyOK n o (fst p)) ch /\ (o_dup o = true -> has_dup ch = false) /\
                    (o_sort o = true \/ RowSorted ch) /\ Forall (fun p => 0 <= rowof p < Z.of_nat n) ch) chunks ->
  match edges with Some e => Admissible (length chunks) e | None => True end ->
  exists m, unordered_g n o (fun _ => true) agg chunks buf edges = Ok m.
Proof. intros V. exact (@unordered_total V). Qed.
Print Assumptions C06_unordered_total.

(** total form for counts: the ingestion succeeds AND stores the in-memory aggregate with its index *)
Theorem C06_unordered_correct : forall (n : nat) (o : copts) (chunks : list (list pixel)) (buf : Z) (edges : option (list nat)),
  (1 <= n)%nat -> 0 <= buf -> chunks <> [] ->
  Forall (fun ch => Forall (fun p => KeyOK n o (fst p)) ch /\ (o_dup o = true -> has_dup ch = false) /\
                    (o_sort o = true \/ RowSorted ch) /\ Forall (fun p => 0 <= rowof p < Z.of_nat n) ch) chunks ->
  match edges with Some e => Admissible (length chunks) e | None => True end ->
  unordered_g n o (fun _ => true) sumZ chunks buf edges = Ok (mk_cool n (aggregate (concat chunks))).
Proof. exact unordered_correct. Qed.
Print Assumptions C06_unordered_correct.

(** the same for the EXECUTABLE model that the correspondence run evaluates (all requested integer columns,
    sums accumulated in int64, dtype range checks, all validation options, the computed edge list) *)
Theorem C06_create_from_unordered_exact : forall names bins symm cols bc tc dc es chunks buf mm c,
  (1 <= length bins)%nat -> 0 <= buf -> chunks <> [] ->
  Forall (fun ch => (es = true \/ RowSorted ch) /\ Forall (fun p => 0 <= rowof p < Z.of_nat (length bins)) ch) chunks ->
  create_from_unordered names bins symm cols bc tc dc es chunks buf mm = Ok c ->
  c_px c = groupby_agg (agg_row (sum_ops cols)) (concat chunks) /\
  c_off c = index_of (length bins) (c_px c) /\ c_bins c = bins /\ c_symm c = symm /\ c_cols c = cols.
Proof. exact create_from_unordered_exact. Qed.
Print Assumptions C06_create_from_unordered_exact.

(** the edge list create_from_unordered computes (after the repair of D9) is admissible for every number
    of chunks n >= 1, so the theorems above apply to it *)
Theorem C06_two_pass_edges_ok : forall (n : nat) (max_merge : Z), (1 <= n)%nat ->
  match unordered_edges n max_merge with Some e => Admissible n e | None => True end.
Proof. exact unordered_edges_ok. Qed.
Print Assumptions C06_two_pass_edges_ok.

(** non-vacuity: three chunks that repeat a pixel, mergebuf 1, one pass and the two-pass edge list [0;3] / [0;1;3] *)
Example ex_C06_ingest :
  let o := {| o_bounds := true; o_triu := true; o_dup := true; o_sort := false |} in
  let chunks := [[((2,3),1); ((2,4),1)]; [((0,1),5); ((2,3),2)]; []] in
  unordered_g 5 o (fun _ => true) sumZ chunks 1 None = Ok (mk_cool 5 [((0,1),5); ((2,3),3); ((2,4),1)]) /\
  unordered_g 5 o (fun _ => true) sumZ chunks 1 (unordered_edges 3 1) = Ok (mk_cool 5 [((0,1),5); ((2,3),3); ((2,4),1)]) /\
  unordered_g 5 o (fun _ => true) sumZ chunks 1 (Some [0;1;3]%nat) = Ok (mk_cool 5 [((0,1),5); ((2,3),3); ((2,4),1)]) /\
  unordered_edges 3 1 = Some [0;3]%nat.
Proof. vm_compute. repeat split; reflexivity. Qed.
(** the defect D9 (now repaired): a single edge, as int(sqrt 3) = 1 point gave, makes the final merger
    receive no input at all -> IndexError *)
Example ex_C06_D9_single_edge_fails :
  unordered_g 5 {| o_bounds := true; o_triu := true; o_dup := true; o_sort := false |} (fun _ => true) sumZ
              [[((0,1),5)]; [((0,1),1)]; [((2,2),1)]] 1 (Some [0]%nat) = Err EIndex.
Proof. vm_compute. reflexivity. Qed.
