(** Proofs about the coarsening model (Model/Coarsen.v): C08. *)
From Cooler Require Import Model.Coarsen Proofs.BinsProofs Proofs.PixelsProofs.
From Coq Require Import Sorted Permutation ZifyBool.
Ltac Zify.zify_post_hook ::= Z.to_euclidean_division_equations.

(* ================================================================== list helpers *)
Lemma znth_nth_error (l : list Z) i d x :
  nth_error l i = Some x -> znth l (Z.of_nat i) d = x.
Proof. intros H. unfold znth. rewrite Nat2Z.id. now apply nth_error_nth. Qed.

Lemma nth_error_nil' {A} i : nth_error (@nil A) i = None.
Proof. now destruct i. Qed.

Lemma nth_error_skipn {A} (l : list A) k i : nth_error (skipn k l) i = nth_error l (k + i).
Proof.
  revert l. induction k as [|k IH]; intros l; [reflexivity|].
  destruct l as [|x l]; [now destruct i|]. cbn. apply IH.
Qed.

Lemma nth_error_firstn {A} (l : list A) k i :
  nth_error (firstn k l) i = if (i <? k)%nat then nth_error l i else None.
Proof.
  revert l i. induction k as [|k IH]; intros l i.
  - cbn. now destruct i.
  - destruct l as [|x l].
    + cbn [firstn]. destruct (i <? S k)%nat; destruct i; reflexivity.
    + destruct i as [|i]; [reflexivity|]. cbn [firstn nth_error]. rewrite IH.
      change (S i <? S k)%nat with (i <? k)%nat. reflexivity.
Qed.

(* -------------------------------------------------------------- stride  l[::k] *)
Lemma stride_n_nth {A} (k : nat) : (1 <= k)%nat ->
  forall fuel (l : list A) q, (length l <= fuel)%nat ->
  nth_error (stride_n fuel k l) q = nth_error l (q * k).
Proof.
  intros Hk. induction fuel as [|f IH]; intros l q Hf.
  - destruct l; [|cbn in Hf; lia]. cbn. now rewrite !nth_error_nil'.
  - destruct l as [|x l]; [cbn; now rewrite !nth_error_nil'|].
    cbn [stride_n]. destruct q as [|q]; [reflexivity|].
    cbn [nth_error]. rewrite IH.
    + rewrite nth_error_skipn. reflexivity.
    + rewrite skipn_length. cbn [length] in *. lia.
Qed.

Lemma stride_nth {A} (k : Z) (l : list A) q : 1 <= k ->
  nth_error (stride k l) q = nth_error l (q * Z.to_nat k).
Proof. intros Hk. unfold stride. apply stride_n_nth; lia. Qed.

Lemma stride_length {A} (k : Z) (l : list A) : 1 <= k ->
  Z.of_nat (length (stride k l)) = cdiv (zlen l) k.
Proof.
  intros Hk. unfold zlen.
  set (n := length (stride k l)).
  assert (H1 : forall q, (q < n)%nat -> (q * Z.to_nat k < length l)%nat).
  { intros q Hq. apply nth_error_Some. rewrite <- stride_nth by lia. apply nth_error_Some. exact Hq. }
  assert (H2 : forall q, (q * Z.to_nat k < length l)%nat -> (q < n)%nat).
  { intros q Hq. apply nth_error_Some. rewrite stride_nth by lia. apply nth_error_Some. exact Hq. }
  unfold cdiv.
  destruct (Nat.eq_dec n 0) as [E|E].
  - destruct (Nat.eq_dec (length l) 0) as [E0|E0]; [rewrite E, E0; cbn; nia|].
    specialize (H2 0%nat ltac:(lia)). lia.
  - specialize (H1 (n - 1)%nat ltac:(lia)).
    assert (H3 : ~ (n * Z.to_nat k < length l)%nat) by (intros X; apply H2 in X; lia).
    nia.
Qed.

(* ------------------------------------------------------ cumsum / diff / unique *)
Lemma cumsum_diff l : forall a, cumsum_from a (diff (a :: l)) = l.
Proof.
  induction l as [|b r IH]; intros a; [reflexivity|].
  cbn [diff cumsum_from]. replace (a + (b - a)) with b by lia. f_equal. apply IH.
Qed.

Lemma cumlen_id l : 0 :: cumsum (diff (0 :: l)) = 0 :: l.
Proof. unfold cumsum. now rewrite cumsum_diff. Qed.

Lemma uniq_ins_in x l y : In y (uniq_ins x l) <-> y = x \/ In y l.
Proof.
  induction l as [|z r IH]; cbn [uniq_ins]; [cbn; intuition|].
  destruct (x <? z) eqn:E1; [cbn; intuition|].
  destruct (x =? z) eqn:E2.
  - assert (x = z) by lia. subst. cbn. intuition.
  - cbn [In]. rewrite IH. intuition.
Qed.

Lemma uniq_ins_sorted x l : StronglySorted Z.lt l -> StronglySorted Z.lt (uniq_ins x l).
Proof.
  induction l as [|z r IH]; intros HS; cbn [uniq_ins].
  - constructor; constructor.
  - inversion HS as [|? ? Hr Hall]; subst.
    destruct (x <? z) eqn:E1.
    + constructor; [exact HS|]. constructor; [lia|].
      eapply Forall_impl; [|exact Hall]. intros; lia.
    + destruct (x =? z) eqn:E2; [exact HS|].
      constructor; [now apply IH|].
      apply Forall_forall. intros y Hy. apply uniq_ins_in in Hy as [->|Hy]; [lia|].
      rewrite Forall_forall in Hall. now apply Hall.
Qed.

Lemma np_unique_in l y : In y (np_unique l) <-> In y l.
Proof.
  induction l as [|x r IH]; [reflexivity|]. cbn [np_unique fold_right].
  change (fold_right uniq_ins [] r) with (np_unique r). rewrite uniq_ins_in, IH. cbn. intuition.
Qed.

Lemma np_unique_sorted l : StronglySorted Z.lt (np_unique l).
Proof.
  induction l as [|x r IH]; [constructor|]. cbn [np_unique fold_right].
  apply uniq_ins_sorted. exact IH.
Qed.

(* ----------------------------------------------------------- searchsorted_left *)
(** first position whose element is >= x : no sortedness needed for these facts *)
Lemma ssl_range l x : 0 <= searchsorted_left l x <= zlen l.
Proof.
  unfold zlen. induction l as [|y r IH]; cbn [searchsorted_left length]; [lia|].
  destruct (y <? x); lia.
Qed.

Lemma ssl_before l x : forall i, (Z.of_nat i < searchsorted_left l x) -> nth i l 0 < x.
Proof.
  induction l as [|y r IH]; intros i Hi; cbn [searchsorted_left] in Hi; [lia|].
  destruct (y <? x) eqn:E; [|lia].
  destruct i as [|i]; cbn [nth]; [lia|]. apply IH. lia.
Qed.

Lemma ssl_at l x : searchsorted_left l x < zlen l -> x <= nth (Z.to_nat (searchsorted_left l x)) l 0.
Proof.
  unfold zlen. induction l as [|y r IH]; cbn [searchsorted_left length]; intros H; [lia|].
  destruct (y <? x) eqn:E.
  - pose proof (ssl_range r x) as Hr.
    replace (Z.to_nat (1 + searchsorted_left r x)) with (S (Z.to_nat (searchsorted_left r x))) by lia.
    cbn [nth]. apply IH. lia.
  - cbn. lia.
Qed.

Lemma ssl_lt_len l x : l <> [] -> x <= last l 0 -> searchsorted_left l x < zlen l.
Proof.
  intros Hne Hx. pose proof (ssl_range l x) as Hr.
  destruct (Z.eq_dec (searchsorted_left l x) (zlen l)) as [E|E]; [|lia].
  exfalso. unfold zlen in *.
  assert (Hlast : last l 0 = nth (length l - 1) l 0).
  { clear. induction l as [|a [|b r] IH]; [reflexivity|reflexivity|].
    change (last (a :: b :: r) 0) with (last (b :: r) 0). rewrite IH. cbn [length].
    replace (S (S (length r)) - 1)%nat with (S (S (length r) - 1)) by lia. reflexivity. }
  assert (length l <> 0)%nat by (destruct l; [congruence|discriminate]).
  pose proof (ssl_before l x (length l - 1)%nat ltac:(lia)). lia.
Qed.

Lemma last_nth (l : list Z) : last l 0 = nth (length l - 1) l 0.
Proof.
  induction l as [|a [|b r] IH]; [reflexivity|reflexivity|].
  change (last (a :: b :: r) 0) with (last (b :: r) 0). rewrite IH. cbn [length].
  replace (S (S (length r)) - 1)%nat with (S (S (length r) - 1)) by lia. reflexivity.
Qed.

Lemma last_in (l : list Z) : l <> [] -> In (last l 0) l.
Proof.
  induction l as [|a [|b r] IH]; intros H; [congruence|now left|].
  right. apply IH. discriminate.
Qed.

Lemma sorted_le_nth l : StronglySorted Z.le l ->
  forall i j, (i <= j < length l)%nat -> nth i l 0 <= nth j l 0.
Proof.
  induction 1 as [|a l HS IH Hall]; intros i j Hij; [cbn in Hij; lia|].
  destruct i as [|i], j as [|j]; cbn [nth length] in *; try lia.
  - rewrite Forall_forall in Hall. apply Hall. apply nth_In. lia.
  - apply IH. lia.
Qed.

Lemma sorted_le_last l : StronglySorted Z.le l -> forall x, In x l -> x <= last l 0.
Proof.
  intros HS x Hx. apply (In_nth _ _ 0) in Hx as [i [Hi <-]]. rewrite last_nth.
  apply sorted_le_nth; auto. lia.
Qed.

Lemma sorted_lt_le l : StronglySorted Z.lt l -> StronglySorted Z.le l.
Proof.
  induction 1 as [|a l HS IH Hall]; constructor; auto.
  eapply Forall_impl; [|exact Hall]. intros; lia.
Qed.

Lemma sorted_lt_map (f : Z -> Z) l : StronglySorted Z.lt l ->
  (forall i j, In i l -> In j l -> i < j -> f i < f j) -> StronglySorted Z.lt (map f l).
Proof.
  induction 1 as [|a l HS IH Hall]; intros Hf; cbn [map]; constructor.
  - apply IH. intros i j Hi Hj. apply Hf; now right.
  - apply Forall_forall. intros y Hy. apply in_map_iff in Hy as [j [<- Hj]].
    rewrite Forall_forall in Hall. apply Hf; [now left|now right|now apply Hall].
Qed.

Lemma hd_map_z (f : Z -> Z) l d : l <> [] -> hd d (map f l) = f (hd 0 l).
Proof. destruct l; [congruence|reflexivity]. Qed.

Lemma last_map_z (f : Z -> Z) l d : l <> [] -> last (map f l) d = f (last l 0).
Proof.
  induction l as [|a [|b r] IH]; intros H; [congruence|reflexivity|].
  change (last (map f (a :: b :: r)) d) with (last (map f (b :: r)) d). rewrite IH by discriminate. reflexivity.
Qed.

Lemma prune_unfold rest maxlen :
  greedy_prune_partition (0 :: rest) maxlen =
  map (fun i => znth (0 :: rest) i 0)
    (np_unique (map (searchsorted_left (0 :: rest))
       (map (fun i => maxlen * i) (zrange 0 (Z.to_nat (cdiv (last (0 :: rest) 0) maxlen))) ++ [last (0 :: rest) 0]))).
Proof. unfold greedy_prune_partition. rewrite cumlen_id. reflexivity. Qed.

(** _greedy_prune_partition: the pruned edges are a sub-sequence (strictly increasing positions) of
    the given edges, begin with 0, end with the total, and are strictly increasing in value — for
    every non-decreasing edge list from 0 and every maxlen >= 1 *)
Theorem prune_subsequence rest maxlen :
  let edges := 0 :: rest in
  StronglySorted Z.le edges -> 1 <= maxlen ->
  let p := greedy_prune_partition edges maxlen in
  (exists idx, p = map (fun i => znth edges i 0) idx /\ StronglySorted Z.lt idx /\
               Forall (fun i => 0 <= i < zlen edges) idx) /\
  hd 0 p = 0 /\ last p 0 = last edges 0 /\ StronglySorted Z.lt p.
Proof.
  intros edges HS Hm. cbv zeta. unfold edges. rewrite prune_unfold. fold edges.
  set (total := last edges 0).
  set (cuts := map (fun i => maxlen * i) (zrange 0 (Z.to_nat (cdiv total maxlen))) ++ [total]).
  set (idx := np_unique (map (searchsorted_left edges) cuts)).
  assert (Hne : edges <> []) by discriminate.
  assert (Htot : 0 <= total).
  { unfold total. apply (sorted_le_last edges HS 0). now left. }
  assert (Hcuts : forall c, In c cuts -> 0 <= c <= total).
  { intros c Hc. unfold cuts in Hc. apply in_app_or in Hc as [Hc|[<-|[]]]; [|lia].
    apply in_map_iff in Hc as [i [<- Hi]]. apply in_zrange in Hi. unfold cdiv in Hi. nia. }
  assert (Hidx : forall i, In i idx -> exists c, In c cuts /\ i = searchsorted_left edges c).
  { intros i Hi. unfold idx in Hi. rewrite np_unique_in in Hi. apply in_map_iff in Hi as [c [<- Hc]]. eauto. }
  assert (Hidx' : forall c, In c cuts -> In (searchsorted_left edges c) idx).
  { intros c Hc. unfold idx. apply (proj2 (np_unique_in _ _)). now apply in_map. }
  assert (Hrange : forall i, In i idx -> 0 <= i < zlen edges).
  { intros i Hi. destruct (Hidx i Hi) as [c [Hc ->]]. split; [apply ssl_range|].
    apply ssl_lt_len; auto. apply Hcuts in Hc. fold total. lia. }
  assert (Hsorted : StronglySorted Z.lt idx) by apply np_unique_sorted.
  assert (H0 : In 0 idx).
  { assert (Hc0 : In 0 cuts).
    { unfold cuts. destruct (Z.to_nat (cdiv total maxlen)) eqn:E.
      - assert (total = 0).
        { destruct (Z.eq_dec total 0) as [|Hn]; [assumption|exfalso].
          assert (0 < cdiv total maxlen) by (unfold cdiv; apply Z.div_str_pos; lia). lia. }
        rewrite H. apply in_or_app. right. now left.
      - apply in_or_app. left. rewrite zrange_cons. cbn [map]. left. lia. }
    apply Hidx' in Hc0. unfold edges in Hc0 at 1. cbn [searchsorted_left] in Hc0.
    replace (0 <? 0) with false in Hc0 by reflexivity. exact Hc0. }
  assert (Hidxne : idx <> []) by (intros E; rewrite E in H0; inversion H0).
  assert (Hmono : forall i j, In i idx -> In j idx -> i < j -> znth edges i 0 < znth edges j 0).
  { intros i j Hi Hj Hij. destruct (Hidx j Hj) as [c [Hc ->]].
    pose proof (Hrange _ Hi) as Ri. pose proof (Hrange _ Hj) as Rj.
    assert (A := ssl_before edges c (Z.to_nat i) ltac:(lia)).
    assert (B := ssl_at edges c ltac:(lia)). unfold znth. lia. }
  split; [|split; [|split]].
  - exists idx. split; [reflexivity|]. split; [exact Hsorted|]. apply Forall_forall. exact Hrange.
  - rewrite hd_map_z by exact Hidxne.
    assert (hd 0 idx = 0) as ->.
    { destruct idx as [|a r]; [congruence|]. cbn. inversion Hsorted as [|? ? _ Hall]; subst.
      rewrite Forall_forall in Hall. destruct H0 as [->|H0]; [reflexivity|].
      specialize (Hall 0 H0). specialize (Hrange a ltac:(now left)). lia. }
    reflexivity.
  - rewrite last_map_z by exact Hidxne. fold total.
    assert (Hl : In (last idx 0) idx) by now apply last_in.
    assert (Ht : In (searchsorted_left edges total) idx).
    { apply Hidx'. unfold cuts. apply in_or_app. right. now left. }
    assert (Hge : searchsorted_left edges total <= last idx 0).
    { apply sorted_le_last; [now apply sorted_lt_le|exact Ht]. }
    pose proof (Hrange _ Hl) as Rl. pose proof (Hrange _ Ht) as Rt. unfold zlen in *.
    assert (A := ssl_at edges total ltac:(unfold zlen; lia)).
    assert (B := sorted_le_nth edges HS (Z.to_nat (searchsorted_left edges total)) (Z.to_nat (last idx 0)) ltac:(lia)).
    assert (D : znth edges (last idx 0) 0 <= total).
    { unfold total. apply sorted_le_last; auto. unfold znth. apply nth_In. lia. }
    unfold znth in *. lia.
  - apply sorted_lt_map; auto.
Qed.
