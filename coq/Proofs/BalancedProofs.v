(** C12: balanced reads = raw value x row-bin weight x column-bin weight. *)
From Cooler Require Import Model.Query Model.Balanced Proofs.PixelsProofs Proofs.QueryProofs Proofs.SpansProofs Proofs.QueryMain.
From Coq Require Import Sorted Permutation ZifyBool.
Ltac Zify.zify_post_hook ::= Z.to_euclidean_division_equations.

(** the weight a bin contributes: the stored weight, or its reciprocal for divisive weights *)
Definition adj (divisive : bool) (x : weight) : weight := if divisive then winv x else x.
Definition wt (w : list weight) (divisive : bool) (k : Z) : weight := adj divisive (wnth w k).

Lemma nth_slice {A} (l : list A) lo hi k d : 0 <= lo -> 0 <= k < hi - lo ->
  nth (Z.to_nat k) (slice l lo hi) d = nth (Z.to_nat (lo + k)) l d.
Proof.
  intros Hlo Hk. unfold slice. rewrite nth_firstn_lt by lia. rewrite nth_skipn_add. f_equal. lia.
Qed.
Lemma slice_length {A} (l : list A) lo hi : 0 <= lo -> lo <= hi -> hi <= zlen l -> List.length (slice l lo hi) = Z.to_nat (hi - lo).
Proof. intros. unfold slice, zlen in *. rewrite firstn_length, skipn_length. lia. Qed.

Lemma wnth_bias w lo hi dv k : 0 <= lo -> lo <= hi -> hi <= zlen w -> 0 <= k < hi - lo ->
  wnth (bias w lo hi dv) k = wt w dv (lo + k).
Proof.
  intros Hlo Hlh Hhi Hk. unfold wnth, bias, wt, adj, wnth.
  rewrite (nth_indep _ None (if dv then winv None else None)).
  - rewrite (map_nth (fun x => if dv then winv x else x)). rewrite nth_slice by lia. reflexivity.
  - rewrite map_length, slice_length by lia. lia.
Qed.
Lemma bias_length w lo hi dv : 0 <= lo -> lo <= hi -> hi <= zlen w -> List.length (bias w lo hi dv) = Z.to_nat (hi - lo).
Proof. intros. unfold bias. rewrite map_length. now apply slice_length. Qed.

(** column weights always come from the column range (the bias2 = bias1 shortcut is taken only when the ranges coincide) *)
Lemma bias2_is_column_bias w i0 i1 j0 j1 dv : bias2_of w (i0, i1, j0, j1) dv = bias w j0 j1 dv.
Proof.
  unfold bias2_of, bbox_rows_eq_cols. destruct ((i0 =? j0) && (i1 =? j1)) eqn:E; [|reflexivity].
  assert (i0 = j0 /\ i1 = j1) as [-> ->] by lia. reflexivity.
Qed.

Lemma combine_nth_lt {A B} (la : list A) (lb : list B) k da db :
  (k < List.length la)%nat -> (k < List.length lb)%nat -> nth k (combine la lb) (da, db) = (nth k la da, nth k lb db).
Proof.
  revert lb k; induction la as [|a la IH]; intros lb k Ha Hb; [cbn in Ha; lia|].
  destruct lb as [|b lb]; [cbn in Hb; lia|]. destruct k; cbn [combine nth]; [reflexivity|]. apply IH; cbn in *; lia.
Qed.
Lemma nth_map_combine {A B C} (f : A * B -> C) (la : list A) (lb : list B) k da db dc :
  (k < List.length la)%nat -> (k < List.length lb)%nat -> nth k (map f (combine la lb)) dc = f (nth k la da, nth k lb db).
Proof.
  intros Ha Hb. rewrite (nth_indep _ dc (f (da, db))) by (rewrite map_length, combine_length; lia).
  rewrite (map_nth f). rewrite combine_nth_lt by lia. reflexivity.
Qed.

(** * dense *)
Theorem balanced_dense_cell d w i0 i1 j0 j1 dv a b :
  0 <= i0 -> i0 <= i1 -> i1 <= zlen w -> 0 <= j0 -> j0 <= j1 -> j1 <= zlen w ->
  zlen d = i1 - i0 -> (forall r, In r d -> zlen r = j1 - j0) ->
  0 <= a < i1 - i0 -> 0 <= b < j1 - j0 ->
  nth (Z.to_nat b) (nth (Z.to_nat a) (balanced_dense d w (i0, i1, j0, j1) dv) []) None =
  wmul (wmul (wt w dv (i0 + a)) (wt w dv (j0 + b))) (wofZ (nth (Z.to_nat b) (nth (Z.to_nat a) d []) 0)).
Proof.
  intros Hi0 Hi Hi1 Hj0 Hj Hj1 Hd Hrows Ha Hb. unfold balanced_dense. rewrite bias2_is_column_bias.
  assert (Hla : (Z.to_nat a < List.length d)%nat) by (unfold zlen in Hd; lia).
  rewrite nth_map_combine with (da := @nil Z) (db := @None Q) by (rewrite ?bias_length; lia).
  cbn [fst snd].
  assert (Hrow : zlen (nth (Z.to_nat a) d []) = j1 - j0) by (apply Hrows, nth_In; exact Hla).
  rewrite nth_map_combine with (da := 0) (db := @None Q)
    by (rewrite ?bias_length; unfold zlen in Hrow; lia).
  cbn [fst snd]. change (nth (Z.to_nat a) (bias w i0 i1 dv) None) with (wnth (bias w i0 i1 dv) a).
  change (nth (Z.to_nat b) (bias w j0 j1 dv) None) with (wnth (bias w j0 j1 dv) b).
  rewrite !wnth_bias by lia. reflexivity.
Qed.

(** * sparse: on records inside the window *)
Theorem balanced_sparse_spec out w i0 i1 j0 j1 dv :
  0 <= i0 -> i0 <= i1 -> i1 <= zlen w -> 0 <= j0 -> j0 <= j1 -> j1 <= zlen w ->
  (forall r, In r out -> in_window (i0, i1, j0, j1) (snd r) = true) ->
  balanced_sparse out w (i0, i1, j0, j1) dv =
  map (fun r => (fst (snd r), wmul (wmul (wt w dv (row (snd r))) (wt w dv (col (snd r)))) (wofZ (val (snd r))))) out.
Proof.
  intros Hi0 Hi Hi1 Hj0 Hj Hj1 Hin. unfold balanced_sparse. rewrite bias2_is_column_bias.
  apply map_ext_in. intros r Hr. apply Hin in Hr. unfold in_window in Hr. cbv zeta. unfold ipixel, pixel in *.
  assert (Hrr : i0 <= row (snd r) < i1 /\ j0 <= col (snd r) < j1) by lia. destruct Hrr as [Hrr Hcc].
  rewrite (wnth_bias w i0 i1 dv (row (snd r) - i0)) by lia. rewrite (wnth_bias w j0 j1 dv (col (snd r) - j0)) by lia.
  replace (i0 + (row (snd r) - i0)) with (row (snd r)) by lia. replace (j0 + (col (snd r) - j0)) with (col (snd r)) by lia. reflexivity.
Qed.

(** * pixels *)
Theorem balanced_pixels_spec out w dv :
  balanced_pixels out w dv =
  map (fun r => (r, wmul (wmul (wt w dv (row (snd r))) (wt w dv (col (snd r)))) (wofZ (val (snd r))))) out.
Proof. unfold balanced_pixels, wt, adj. apply map_ext. intro r. destruct dv; reflexivity. Qed.

(** NaN wherever either bin is masked *)
Lemma wmul_none_l x y : wmul (wmul None x) y = None. Proof. reflexivity. Qed.
Lemma wmul_none_r x y : wmul (wmul x None) y = None. Proof. destruct x; reflexivity. Qed.
Lemma wt_masked w dv k : wnth w k = None -> wt w dv k = None.
Proof. unfold wt, adj. intros ->. destruct dv; reflexivity. Qed.

(** * divisive default and missing column *)
Theorem effective_divisive_spec balance dw :
  effective_divisive balance dw =
  match dw with
  | Some b => b
  | None => match balance with
            | Some (Some s) => (String.eqb s "KR" || String.eqb s "VC" || String.eqb s "VC_SQRT")%bool
            | _ => false
            end
  end.
Proof.
  unfold effective_divisive, divisive_names. destruct dw; [reflexivity|]. destruct balance as [[s|]|]; try reflexivity.
  cbn [existsb]. now rewrite orb_false_r, orb_assoc.
Qed.

Theorem missing_column_is_error epx off cs fill form cols balance dw bb name :
  weight_name balance = Some name -> lookup_weights cols name = None ->
  matrix_balanced epx off cs fill form cols balance dw bb = None.
Proof.
  intros Hn Hl. unfold matrix_balanced. destruct (matrix_records epx off cs fill form bb); [|reflexivity].
  now rewrite Hn, Hl.
Qed.
Theorem balanced_never_raw epx off cs fill form cols balance dw bb name out :
  weight_name balance = Some name -> matrix_balanced epx off cs fill form cols balance dw bb <> Some (BRaw out).
Proof.
  intros Hn. unfold matrix_balanced. destruct (matrix_records epx off cs fill form bb); [|discriminate].
  rewrite Hn. destruct (lookup_weights cols name); [|discriminate]. destruct form; discriminate.
Qed.

(** * the whole balanced dense query on a stored symmetric table *)
Lemma zrange_length lo m : List.length (zrange lo m) = m.
Proof. unfold zrange. now rewrite map_length, seq_length. Qed.
Lemma nth_zrange lo m k d : (k < m)%nat -> nth k (zrange lo m) d = lo + Z.of_nat k.
Proof.
  intro H. unfold zrange. rewrite (nth_indep _ d ((fun k => lo + Z.of_nat k) 0%nat)) by (rewrite map_length, seq_length; lia).
  rewrite (map_nth (fun k => lo + Z.of_nat k)). rewrite seq_nth by lia. lia.
Qed.

Theorem dense_balanced_full n epx off cs cols balance dw name w i0 i1 j0 j1 :
  ValidCSR n epx off -> Upper epx -> 1 <= cs ->
  0 <= i0 -> i0 <= i1 -> i1 <= n -> 0 <= j0 -> j0 <= j1 -> j1 <= n -> zlen w = n ->
  weight_name balance = Some name -> lookup_weights cols name = Some w ->
  exists D, matrix_balanced epx off cs true Dense cols balance dw (i0, i1, j0, j1) = Some (BDense D) /\
    forall a b, 0 <= a < i1 - i0 -> 0 <= b < j1 - j0 ->
      nth (Z.to_nat b) (nth (Z.to_nat a) D []) None =
      wmul (wmul (wt w (effective_divisive balance dw) (i0 + a)) (wt w (effective_divisive balance dw) (j0 + b)))
           (wofZ (symm (map snd epx) (i0 + a) (j0 + b))).
Proof.
  intros HV HU Hcs Hi0 Hi Hi1 Hj0 Hj Hj1 Hw Hname Hlook.
  destruct (dense_eq_slice n epx off HV (linspace_cuts cs) (linspace_cuts_ok cs Hcs) i0 i1 j0 j1) as [out [Ho Hd]]; try assumption.
  unfold matrix_balanced, matrix_records. rewrite fill_lower_get_spans_eq, Ho, Hname, Hlook.
  eexists. split; [reflexivity|]. intros a b Ha Hb. rewrite Hd.
  rewrite balanced_dense_cell; try lia.
  - do 2 f_equal.
    rewrite (nth_indep _ [] ((fun i => map (fun j => symm (map snd epx) i j) (zrange j0 (Z.to_nat (j1 - j0)))) 0)) by (rewrite map_length, zrange_length; lia).
    rewrite (map_nth (fun i => map (fun j => symm (map snd epx) i j) (zrange j0 (Z.to_nat (j1 - j0))))).
    rewrite (nth_indep _ 0 ((fun j => symm (map snd epx) (nth (Z.to_nat a) (zrange i0 (Z.to_nat (i1 - i0))) 0) j) 0)) by (rewrite map_length, zrange_length; lia).
    rewrite (map_nth (fun j => symm (map snd epx) (nth (Z.to_nat a) (zrange i0 (Z.to_nat (i1 - i0))) 0) j)).
    rewrite !nth_zrange by lia. f_equal; lia.
  - unfold zlen. rewrite map_length, zrange_length. lia.
  - intros r Hr. apply in_map_iff in Hr. destruct Hr as [i [<- _]]. unfold zlen. rewrite map_length, zrange_length. lia.
Qed.
