(** C08  Coarsening by k is exact block aggregation within each chromosome.
    Only statements; proofs are in Proofs/CoarsenProofs.v.  Model: Model/Coarsen.v
    (coarsen_bins, GenomeSegmentation, rebin by start coordinate, coarse-row edges,
    _greedy_prune_partition, the chunk stream).  A bin table is given as chromosome blocks
    [blocks] (ValidBlocks: block i is a non-empty tiling of chromosome i from 0); the flat table
    the code sees is [concat blocks], chromsizes = [map chrom_end blocks]. *)
From Cooler Require Import Model.Coarsen Proofs.BinsProofs Proofs.PixelsProofs Proofs.CoarsenProofs.
From Coq Require Import Sorted.

(* ------------------------------------------------------------------ 1. the new bin table *)
(** new bin q of chromosome c is [start(old c (q*k)), end(old c (min(q*k+k, n_c) - 1))), there are
    ceil(n_c/k) of them, the new table is a valid tiling with the same chromosome ends *)
Theorem C08_coarsen_bins_spec : forall blocks k, 1 <= k -> ValidBlocks blocks ->
  let nb := map (fun blk => map (fun q =>
                   let x := nth (Z.to_nat (q * k)) blk bin0 in
                   (bchrom x, bstart x, bend (nth (Z.to_nat (Z.min (q * k + k) (zlen blk) - 1)) blk bin0)))
                 (zrange 0 (Z.to_nat (cdiv (zlen blk) k)))) blocks in
  coarsen_bins (concat blocks) (map chrom_end blocks) k = concat nb /\
  ValidBlocks nb /\ map chrom_end nb = map chrom_end blocks /\
  map zlen nb = map (fun blk => cdiv (zlen blk) k) blocks.
Proof. exact coarsen_bins_spec. Qed.
Print Assumptions C08_coarsen_bins_spec.

(* ------------------------------------------- 2. re-binning by start coordinate = by index *)
(** the table old-bin-id -> new-bin-id computed by _aggregate from chromosome and START coordinate
    (division when the new table reports a bin size, searchsorted otherwise) is
    new_off c + m / k  for the old bin at relative index m of chromosome c *)
Theorem C08_rebin_eq_index : forall blocks k, 1 <= k -> ValidBlocks blocks ->
  rebin_table (concat blocks) (map chrom_end blocks) k = index_table (map zlen blocks) k.
Proof. exact rebin_eq_index. Qed.
Print Assumptions C08_rebin_eq_index.

(** both paths separately: the searchsorted path is right on every valid table, the division path
    whenever the NEW table reports a bin size (uses C20 binsize_truthful) *)
Theorem C08_rebin_search_path : forall blocks k, 1 <= k -> ValidBlocks blocks ->
  let newt := concat (map (coarsen_block k) blocks) in
  map (rebin_bin_search newt (map chrom_end blocks)) (concat blocks) = index_table (map zlen blocks) k.
Proof. exact rebin_search_table. Qed.
Print Assumptions C08_rebin_search_path.

Theorem C08_rebin_division_path : forall blocks k, 1 <= k -> ValidBlocks blocks ->
  let newt := concat (map (coarsen_block k) blocks) in
  forall bs, get_binsize newt = Some bs ->
  map (rebin_bin_div newt bs) (concat blocks) = index_table (map zlen blocks) k.
Proof. exact rebin_div_table. Qed.
Print Assumptions C08_rebin_division_path.

(* ------------------------------------------------- 3. no coarse row is split or duplicated *)
(** _greedy_prune_partition, for EVERY non-decreasing edge list from 0 and every chunk size >= 1:
    the result is a sub-sequence of the edges (strictly increasing positions), starts at 0, ends at
    the total and is strictly increasing in value *)
Theorem C08_prune_subsequence : forall rest maxlen,
  let edges := 0 :: rest in
  StronglySorted Z.le edges -> 1 <= maxlen ->
  let p := greedy_prune_partition edges maxlen in
  (exists idx, p = map (fun i => znth edges i 0) idx /\ StronglySorted Z.lt idx /\
               Forall (fun i => 0 <= i < zlen edges) idx) /\
  hd 0 p = 0 /\ last p 0 = last edges 0 /\ StronglySorted Z.lt p.
Proof. exact prune_subsequence. Qed.
Print Assumptions C08_prune_subsequence.

(** the coarse-row edges built from the chromosome offsets and bin1_offset, for any row-sorted pixel
    list, any k and any bin counts: a non-decreasing list from 0 to nnz each of whose entries is an
    ALIGNED cut (every re-keyed row before it is smaller than every re-keyed row after it) *)
Theorem C08_coarse_edges_aligned : forall lens px k,
  1 <= k -> Forall (fun n => 1 <= n) lens -> RowSorted px -> Forall (fun p => 0 <= row p < sumZ lens) px ->
  let E := coarse_edges (0 :: cumsum lens) (bin1_offset (sumZ lens) px) k in
  (exists rest, E = 0 :: rest) /\ StronglySorted Z.le E /\ last E 0 = zlen px /\
  Forall (fun c => AlignedCut (fun r => znth (index_table lens k) r 0) px (Z.to_nat c)) E.
Proof. exact coarse_edges_facts. Qed.
Print Assumptions C08_coarse_edges_aligned.

(* ----------------------------------------- 4. the chunk stream is the canonical aggregate *)
Theorem C08_chunks_canon : forall parts,
  ForallOrdPairs KeysBefore parts -> concat (map aggregate parts) = aggregate (concat parts).
Proof. exact chunks_canon. Qed.
Print Assumptions C08_chunks_canon.

(** coarsen_cooler's pixel table = canonical aggregate of the pixels re-keyed BY INDEX, for every
    valid bin table (fixed or variable), k >= 1, chunk size >= 1 and batch size (= nproc) >= 1
    — hypothesis of the model: results of a batch come back in order (Pool.map) *)
Theorem C08_coarsen_canon : forall blocks px k chunksize batchsize,
  1 <= k -> 1 <= chunksize -> 1 <= batchsize -> ValidBlocks blocks ->
  RowSorted px -> InRangeRows (zlen (concat blocks)) px ->
  coarsen_pixels (concat blocks) (map chrom_end blocks) px k chunksize batchsize
  = aggregate (map (rekey (index_table (map zlen blocks) k)) px)
  /\ Canon (map (rekey (index_table (map zlen blocks) k)) px)
           (coarsen_pixels (concat blocks) (map chrom_end blocks) px k chunksize batchsize).
Proof. intros. split; [now apply coarsen_canon|now apply coarsen_is_canon]. Qed.
Print Assumptions C08_coarsen_canon.

Theorem C08_chunksize_nproc_independent : forall blocks px k cs1 bs1 cs2 bs2,
  1 <= k -> 1 <= cs1 -> 1 <= bs1 -> 1 <= cs2 -> 1 <= bs2 -> ValidBlocks blocks ->
  RowSorted px -> InRangeRows (zlen (concat blocks)) px ->
  coarsen_pixels (concat blocks) (map chrom_end blocks) px k cs1 bs1 =
  coarsen_pixels (concat blocks) (map chrom_end blocks) px k cs2 bs2.
Proof. exact coarsen_chunk_independent. Qed.
Print Assumptions C08_chunksize_nproc_independent.

Theorem C08_totals_preserved : forall blocks px k chunksize batchsize,
  1 <= k -> 1 <= chunksize -> 1 <= batchsize -> ValidBlocks blocks ->
  RowSorted px -> InRangeRows (zlen (concat blocks)) px ->
  total (coarsen_pixels (concat blocks) (map chrom_end blocks) px k chunksize batchsize) = total px.
Proof. exact coarsen_total. Qed.
Print Assumptions C08_totals_preserved.

(* --------------------------------------------------------- 5. composition and merging *)
(** k1 then k2 equals k1*k2: bin table and pixel table, fixed AND variable widths, any chunking *)
Theorem C08_coarsen_compose : forall blocks px k1 k2 cs1 bs1 cs2 bs2 cs bs,
  1 <= k1 -> 1 <= k2 -> 1 <= cs1 -> 1 <= bs1 -> 1 <= cs2 -> 1 <= bs2 -> 1 <= cs -> 1 <= bs ->
  ValidBlocks blocks -> RowSorted px -> InRange (zlen (concat blocks)) px ->
  let sizes := map chrom_end blocks in
  let c1 := coarsen_cooler (concat blocks) sizes px k1 cs1 bs1 in
  coarsen_cooler (fst c1) sizes (snd c1) k2 cs2 bs2 = coarsen_cooler (concat blocks) sizes px (k1 * k2) cs bs.
Proof. exact coarsen_compose. Qed.
Print Assumptions C08_coarsen_compose.

Theorem C08_index_table_compose : forall lens k1 k2, 1 <= k1 -> 1 <= k2 -> Forall (fun n => 0 <= n) lens ->
  map (fun v => znth (index_table (map (fun n => cdiv n k1) lens) k2) v 0) (index_table lens k1)
  = index_table lens (k1 * k2).
Proof. exact index_table_compose. Qed.
Print Assumptions C08_index_table_compose.

(** coarsening commutes with merging; merging is specified as the canonical aggregate of the
    concatenated inputs (property C07) *)
Theorem C08_coarsen_merge_commute : forall lens a b k,
  coarsen_spec lens (aggregate (a ++ b)) k = aggregate (coarsen_spec lens a k ++ coarsen_spec lens b k).
Proof. exact coarsen_merge_commute. Qed.
Print Assumptions C08_coarsen_merge_commute.

(* ----------------------------------------------------- executable hypotheses are sound *)
Theorem C08_hypotheses_decidable : forall blocks px,
  valid_blocks_b blocks = true -> ssorted_b px = true -> inrange_b (zlen (concat blocks)) px = true ->
  ValidBlocks blocks /\ RowSorted px /\ InRange (zlen (concat blocks)) px /\ InRangeRows (zlen (concat blocks)) px.
Proof.
  intros blocks px H1 H2 H3. split; [now apply valid_blocks_b_sound|]. split; [now apply ssorted_b_rowsorted|].
  split; [now apply inrange_b_sound|now apply inrange_rows, inrange_b_sound].
Qed.
Print Assumptions C08_hypotheses_decidable.

(* ------------------------------------------------------------------------ non-vacuity *)
Definition ex_blocks : list (list bin) := [[(0,0,10);(0,10,20);(0,20,35)]; [(1,0,7);(1,7,9)]].
Definition ex_px : list pixel := [((0,0),1);((0,2),2);((1,1),3);((1,4),1);((2,3),5);((3,3),1);((3,4),2)].

(** a variable-width table (longer last bin, defect D1) with a chromosome shorter than k: hypotheses hold,
    the stream has several chunks and equals the index-based aggregate *)
Example ex_C08_hypotheses :
  valid_blocks_b ex_blocks = true /\ ssorted_b ex_px = true /\ inrange_b (zlen (concat ex_blocks)) ex_px = true.
Proof. vm_compute. repeat split; reflexivity. Qed.

Example ex_C08_coarsen :
  coarsen_cooler (concat ex_blocks) (map chrom_end ex_blocks) ex_px 2 1 1 =
    ([(0,0,20);(0,20,35);(1,0,9)], [((0,0),4);((0,1),2);((0,2),1);((1,2),5);((2,2),3)]) /\
  coarsener_edges (concat ex_blocks) ex_px 2 1 = [0; 4; 5; 7] /\
  rebin_table (concat ex_blocks) (map chrom_end ex_blocks) 2 = [0; 0; 1; 2; 2] /\
  get_binsize (coarsen_bins (concat ex_blocks) (map chrom_end ex_blocks) 2) = Some 20.
Proof. vm_compute. repeat split; reflexivity. Qed.

(** a variable table whose k=2 coarsening reports a fixed size: the division path is taken *)
Example ex_C08_division_path :
  let blocks := [[(0,0,3);(0,3,10);(0,10,13);(0,13,20)]; [(1,0,5);(1,5,10)]] in
  valid_blocks_b blocks = true /\ get_binsize (concat blocks) = None /\
  get_binsize (coarsen_bins (concat blocks) (map chrom_end blocks) 2) = Some 10 /\
  rebin_table (concat blocks) (map chrom_end blocks) 2 = [0; 0; 1; 1; 2; 2].
Proof. vm_compute. repeat split; reflexivity. Qed.

(** a variable table whose coarsening is variable too: the searchsorted path is taken *)
Example ex_C08_search_path :
  let blocks := [[(0,0,3);(0,3,11);(0,11,15);(0,15,21);(0,21,30)]; [(1,0,4)]] in
  valid_blocks_b blocks = true /\
  get_binsize (coarsen_bins (concat blocks) (map chrom_end blocks) 2) = None /\
  coarsen_bins (concat blocks) (map chrom_end blocks) 2 = [(0,0,11);(0,11,21);(0,21,30);(1,0,4)] /\
  rebin_table (concat blocks) (map chrom_end blocks) 2 = [0; 0; 1; 1; 2; 3].
Proof. vm_compute. repeat split; reflexivity. Qed.

Example ex_C08_prune :
  greedy_prune_partition [0; 2; 2; 5; 7; 7] 3 = [0; 5; 7] /\ greedy_prune_partition [0; 0; 0] 4 = [0].
Proof. vm_compute. split; reflexivity. Qed.
