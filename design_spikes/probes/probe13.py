import warnings; warnings.filterwarnings("ignore")
import patch_gb
import numpy as np, pandas as pd, cooler
from fractions import Fraction as Fr
from cooler.util import mad
rng=np.random.default_rng(11)
# MAD multiplicative form for odd N
bad=0
for t in range(2000):
    N=int(rng.integers(1,8))*2-1; k=int(rng.integers(1,4))
    x=[Fr(int(a),int(b)) for a,b in zip(rng.integers(1,60,N),rng.integers(1,9,N))]
    xs=sorted(x); xm=xs[N//2]; r=sorted(max(v/xm,xm/v) for v in x); rm=r[N//2]
    cutoff_exact=xm/rm**k
    xf=np.array([float(v) for v in x]); L=np.log(xf); cutoff=np.exp(np.median(L)-k*mad(L))
    for v,vf in zip(x,xf):
        if abs(float(v)/float(cutoff_exact)-1)<1e-9: continue
        if (vf<cutoff)!=(v<cutoff_exact): bad+=1
print("MAD odd-N multiplicative form mismatches:",bad)
# coarsen compose on real code (patched get_binsize)
bad=0;tot=0
def dump(u):
    c=cooler.Cooler(u); return c.bins()[:].values.tolist(), c.pixels()[:].values.tolist(), c.binsize
for t in range(30):
    nchr=int(rng.integers(1,4)); cs=pd.Series({f"c{k}":int(rng.integers(5,90)) for k in range(nchr)})
    if t%2: bins=cooler.binnify(cs,int(rng.integers(3,12)))
    else:
        rows=[]
        for ch,l in cs.items():
            cuts=sorted(set([0,l]+list(rng.integers(1,l,rng.integers(0,9))))); rows+=[(ch,a,b) for a,b in zip(cuts[:-1],cuts[1:])]
        bins=pd.DataFrame(rows,columns=["chrom","start","end"])
    n=len(bins); M=np.triu((rng.random((n,n))<0.6)*rng.integers(1,9,(n,n))); i,j=np.nonzero(M)
    cooler.create_cooler("in.cool",bins,pd.DataFrame({"bin1_id":i,"bin2_id":j,"count":M[i,j]}))
    for k1,k2 in ((2,3),(3,2),(2,2),(5,2)):
        cooler.coarsen_cooler("in.cool","a.cool",k1,chunksize=3); cooler.coarsen_cooler("a.cool","b.cool",k2,chunksize=2)
        cooler.coarsen_cooler("in.cool","d.cool",k1*k2,chunksize=1000)
        tot+=1
        if dump("b.cool")!=dump("d.cool"): bad+=1; print("COMPOSE MISMATCH",t%2,k1,k2,dump("b.cool")[2],dump("d.cool")[2])
print("compose tot",tot,"bad",bad)
