#!/usr/bin/env python3
"""Fail-closed translator: a tiny Python subset (ints, bools, None, tuples, lists, if/elif/else with
re-assignment, comparisons, + - * // %, and/or/not, conditional expressions, raise) -> Gallina.

    tools/py2v.py --repo /repo --out /verif/coq/Gen

regenerates coq/Gen/Translated.v from the *current* source of the scalar decision logic of
cooler/core/_rangequery.py and cooler/core/_selectors.py, and checks a few source-pattern pins (facts about
call sites that the theorems assume).  Anything outside the subset, or a pinned statement that changed, makes the
translator fail for that item: the item is then emitted as a definition named `<name>_UNTRANSLATABLE : unit`, so
the bridge lemmas in Proofs/GenBridge.v stop compiling (a broken tie), and the exit status is 1.
The output file is rewritten only when its content changes (keeps `make` incremental).
"""
from __future__ import annotations

import argparse
import ast
import sys
import textwrap
from pathlib import Path


class Unsupported(Exception):
    pass


def zlit(n: int) -> str:
    return f"({n})" if n < 0 else str(n)


class Fn:
    """translation context of one function"""

    def __init__(self, names=None, calls=None, attrs=None, may_raise=False, opt_vars=()):
        self.names = dict(names or {})      # python name -> gallina text (symbols)
        self.calls = dict(calls or {})      # callee name -> (gallina name, [param names], {defaults})
        self.attrs = dict(attrs or {})      # 'obj.attr' -> gallina text
        self.may_raise = may_raise
        self.opt = set(opt_vars)            # variables currently of type option Z

    # ---------------------------------------------------------------- expressions
    def expr(self, e) -> str:
        if isinstance(e, ast.Constant):
            if e.value is True:
                return "true"
            if e.value is False:
                return "false"
            if e.value is None:
                return "None"
            if isinstance(e.value, int):
                return zlit(e.value)
            raise Unsupported("constant " + repr(e.value))
        if isinstance(e, ast.Name):
            return self.names.get(e.id, e.id)
        if isinstance(e, ast.Attribute):
            key = ast.unparse(e)
            if key in self.attrs:
                return self.attrs[key]
            raise Unsupported("attribute " + key)
        if isinstance(e, ast.Tuple):
            return "(" + ", ".join(self.expr(x) for x in e.elts) + ")"
        if isinstance(e, ast.List):
            return "[" + "; ".join(self.expr(x) for x in e.elts) + "]"
        if isinstance(e, ast.BinOp):
            op = {ast.Add: "+", ast.Sub: "-", ast.Mult: "*", ast.FloorDiv: "/", ast.Mod: "mod"}.get(type(e.op))
            if isinstance(e.op, ast.BitOr):
                return f"({self.expr(e.left)} || {self.expr(e.right)})"      # element-wise `|` of two comparisons, per record
            if not op:
                raise Unsupported("operator " + ast.dump(e.op))
            return f"({self.expr(e.left)} {op} {self.expr(e.right)})"
        if isinstance(e, ast.UnaryOp):
            if isinstance(e.op, ast.Not):
                return f"(negb {self.expr(e.operand)})"
            if isinstance(e.op, ast.USub):
                return f"(- {self.expr(e.operand)})"
            raise Unsupported("unary " + ast.dump(e.op))
        if isinstance(e, ast.BoolOp):
            op = "&&" if isinstance(e.op, ast.And) else "||"
            return "(" + f" {op} ".join(self.expr(v) for v in e.values) + ")"
        if isinstance(e, ast.Compare):
            parts = []
            left = e.left
            for op, right in zip(e.ops, e.comparators):
                l, r = self.expr(left), self.expr(right)
                sym = {ast.Lt: "<?", ast.LtE: "<=?", ast.Gt: ">?", ast.GtE: ">=?", ast.Eq: "=?"}.get(type(op))
                if sym:
                    parts.append(f"({l} {sym} {r})")
                elif isinstance(op, ast.NotEq):
                    parts.append(f"(negb ({l} =? {r}))")
                else:
                    raise Unsupported("comparison " + ast.dump(op))
                left = right
            return "(" + " && ".join(parts) + ")" if len(parts) > 1 else parts[0]
        if isinstance(e, ast.IfExp):
            return f"(if {self.expr(e.test)} then {self.expr(e.body)} else {self.expr(e.orelse)})"
        if isinstance(e, ast.Subscript) and ast.unparse(e) in self.attrs:
            return self.attrs[ast.unparse(e)]       # a named column of a record, e.g. chunk['bin1_id'] -> b1
        if isinstance(e, ast.BinOp) and isinstance(e.op, ast.BitOr):
            return f"({self.expr(e.left)} || {self.expr(e.right)})"      # element-wise `|` of two comparisons, per record
        if isinstance(e, ast.Subscript) and isinstance(e.value, ast.Name) and not isinstance(e.slice, (ast.Slice, ast.Tuple)):
            # seq[k] for an index the surrounding code keeps non-negative (negative indices would wrap in Python: the
            # callers of this translator only use it under a guard k >= 0 that is itself translated)
            return f"(nth (Z.to_nat {self.expr(e.slice)}) {self.expr(e.value)} 0)"
        if isinstance(e, (ast.GeneratorExp, ast.ListComp)):
            # (elt for i in range(a, b, c))  ->  map (fun i => elt) (py_range a b c)
            if len(e.generators) != 1:
                raise Unsupported("comprehension with several generators")
            g = e.generators[0]
            if g.ifs or g.is_async or not isinstance(g.target, ast.Name):
                raise Unsupported("comprehension with a filter or a pattern target")
            it = g.iter
            if not (isinstance(it, ast.Call) and isinstance(it.func, ast.Name) and it.func.id == "range"
                    and len(it.args) == 3 and not it.keywords):
                raise Unsupported("comprehension over something other than range(a, b, c)")
            a, b_, c = (self.expr(x) for x in it.args)
            return f"(map (fun {g.target.id} => {self.expr(e.elt)}) (py_range {a} {b_} {c}))"
        if isinstance(e, ast.Call) and ast.unparse(e.func) == "np.abs" and len(e.args) == 1 and not e.keywords:
            return f"(Z.abs {self.expr(e.args[0])})"
        if isinstance(e, ast.Call) and isinstance(e.func, ast.Name):
            f = e.func.id
            if f == "int" and len(e.args) == 1 and not e.keywords:
                return self.expr(e.args[0])
            if f in ("min", "max") and len(e.args) == 2 and not e.keywords:
                return f"(Z.{f} {self.expr(e.args[0])} {self.expr(e.args[1])})"
            if f in self.calls:
                gname, params, defaults = self.calls[f]
                vals = {}
                if len(e.args) > len(params):
                    raise Unsupported("too many arguments to " + f)
                for p, a in zip(params, e.args):
                    vals[p] = self.expr(a)
                for kw in e.keywords:
                    if kw.arg not in params or kw.arg in vals:
                        raise Unsupported("keyword " + str(kw.arg))
                    vals[kw.arg] = self.expr(kw.value)
                for p in params:
                    if p not in vals:
                        if p not in defaults:
                            raise Unsupported("missing argument " + p)
                        vals[p] = defaults[p]
                return "(" + gname + " " + " ".join(vals[p] for p in params) + ")"
        raise Unsupported("expression " + ast.unparse(e)[:80])

    # ---------------------------------------------------------------- statements
    @staticmethod
    def _targets(t):
        if isinstance(t, ast.Name):
            return [t.id]
        if isinstance(t, ast.Attribute):
            return [ast.unparse(t).replace(".", "_")]
        if isinstance(t, ast.Tuple):
            out = []
            for x in t.elts:
                out += Fn._targets(x)
            return out
        raise Unsupported("assignment target " + ast.unparse(t))

    def assigned(self, stmts):
        out = []
        for s in stmts:
            if isinstance(s, ast.Assign):
                for t in s.targets:
                    for n in self._targets(t):
                        if n not in out:
                            out.append(n)
            elif isinstance(s, ast.AugAssign):
                for n in self._targets(s.target):
                    if n not in out:
                        out.append(n)
            elif isinstance(s, ast.If):
                for v in self.assigned(s.body) + self.assigned(s.orelse):
                    if v not in out:
                        out.append(v)
            elif isinstance(s, (ast.Return, ast.Raise, ast.Expr, ast.Pass)):
                pass
            else:
                raise Unsupported("statement " + type(s).__name__)
        return out

    def exits(self, stmts):
        return any(isinstance(s, (ast.Return, ast.Raise)) or
                   (isinstance(s, ast.If) and (self.exits(s.body) or self.exits(s.orelse))) for s in stmts)

    def ret(self, text):
        return f"Some {text}" if self.may_raise else text

    def _is_none_test(self, test):
        """`X is None` -> X"""
        if (isinstance(test, ast.Compare) and len(test.ops) == 1 and isinstance(test.ops[0], ast.Is)
                and isinstance(test.comparators[0], ast.Constant) and test.comparators[0].value is None
                and isinstance(test.left, ast.Name)):
            return test.left.id
        return None

    def block(self, stmts, defined, k):
        """stmts -> gallina expression; `defined` = variables in scope; k(defined) = expression at fall-through"""
        if not stmts:
            return k(defined)
        s, rest = stmts[0], stmts[1:]
        if isinstance(s, ast.Expr) and isinstance(s.value, ast.Constant):
            return self.block(rest, defined, k)         # docstring
        if isinstance(s, ast.Pass):
            return self.block(rest, defined, k)
        if isinstance(s, ast.Return):
            if s.value is None:
                raise Unsupported("bare return")
            return self.ret(self.expr(s.value))
        if isinstance(s, ast.Raise):
            if not self.may_raise:
                raise Unsupported("raise in a function declared total")
            return "None"
        if isinstance(s, ast.AugAssign):
            op = {ast.Add: "+", ast.Sub: "-"}.get(type(s.op))
            (name,) = self._targets(s.target)
            if not op or name in self.opt:
                raise Unsupported("augmented assignment")
            return f"let {name} := ({name} {op} {self.expr(s.value)}) in\n" + self.block(rest, defined | {name}, k)
        if isinstance(s, ast.Assign) and len(s.targets) == 1:
            names = self._targets(s.targets[0])
            val = self.expr(s.value)
            # option-typed sources propagate through plain tuple/name copies
            if isinstance(s.value, ast.Tuple) and len(s.value.elts) == len(names):
                for n, v in zip(names, s.value.elts):
                    src = self.expr(v)
                    if src in self.opt:
                        self.opt.add(n)
                    else:
                        self.opt.discard(n)
            else:
                for n in names:
                    self.opt.discard(n)
            pat = names[0] if len(names) == 1 else "'(" + ", ".join(names) + ")"
            return f"let {pat} := {val} in\n" + self.block(rest, defined | set(names), k)
        if isinstance(s, ast.If):
            x = self._is_none_test(s.test)
            if x is not None and x in self.opt:
                # narrowing pattern:  if X is None: X = e1  [elif c: X = e2]
                if not (len(s.body) == 1 and isinstance(s.body[0], ast.Assign) and self._targets(s.body[0].targets[0]) == [x]):
                    raise Unsupported("option narrowing: body")
                e1 = self.expr(s.body[0].value)
                self.opt.discard(x)
                if not s.orelse:
                    inner = x
                elif (len(s.orelse) == 1 and isinstance(s.orelse[0], ast.If) and not s.orelse[0].orelse
                      and len(s.orelse[0].body) == 1 and isinstance(s.orelse[0].body[0], ast.Assign)
                      and self._targets(s.orelse[0].body[0].targets[0]) == [x]):
                    c = self.expr(s.orelse[0].test)
                    e2 = self.expr(s.orelse[0].body[0].value)
                    inner = f"if {c} then {e2} else {x}"
                else:
                    raise Unsupported("option narrowing: else part")
                return (f"let {x} := match {x} with None => {e1} | Some {x} => {inner} end in\n"
                        + self.block(rest, defined, k))
            if self.exits(s.body) or self.exits(s.orelse):
                a = self.block(s.body + rest, set(defined), k)
                b = self.block(s.orelse + rest, set(defined), k)
                return f"if {self.expr(s.test)} then (\n{textwrap.indent(a, '  ')})\nelse (\n{textwrap.indent(b, '  ')})"
            vs = self.assigned([s])
            for v in vs:
                if v not in defined and not (v in self.assigned(s.body) and v in self.assigned(s.orelse)):
                    raise Unsupported(f"variable {v} assigned in one branch only and not defined before")
            tup = vs[0] if len(vs) == 1 else "(" + ", ".join(vs) + ")"
            pat = vs[0] if len(vs) == 1 else "'" + tup
            b1 = self.block(s.body, set(defined), lambda d: tup)
            b2 = self.block(s.orelse, set(defined), lambda d: tup)
            return (f"let {pat} := if {self.expr(s.test)} then ({b1}) else ({b2}) in\n"
                    + self.block(rest, defined | set(vs), k))
        raise Unsupported("statement " + ast.unparse(s)[:80])


# ------------------------------------------------------------------------- items
def find(tree, qual):
    parts = qual.split(".")
    body = tree.body
    node = None
    for p in parts:
        node = next((n for n in body if isinstance(n, (ast.FunctionDef, ast.ClassDef)) and n.name == p), None)
        if node is None:
            raise Unsupported("definition not found: " + qual)
        body = node.body
    return node


def strip_doc(stmts):
    if stmts and isinstance(stmts[0], ast.Expr) and isinstance(stmts[0].value, ast.Constant):
        return stmts[1:]
    return stmts


def pin(stmt, text):
    got = ast.unparse(stmt)
    want = ast.unparse(ast.parse(textwrap.dedent(text)).body[0])
    if got != want:
        raise Unsupported(f"pinned statement changed:\n   expected: {want}\n   found:    {got}")


CB = {"_comes_before": ("comes_before", ["a0", "a1", "b0", "b1", "strict"], {"strict": "false"}),
      "_contains": ("contains", ["a0", "a1", "b0", "b1", "strict"], {"strict": "false"})}


def tr_cmp(tree, name, gname):
    f = find(tree, name)
    args = [a.arg for a in f.args.args]
    if args != ["a0", "a1", "b0", "b1", "strict"]:
        raise Unsupported("signature of " + name)
    if [ast.unparse(d) for d in f.args.defaults] != ["False"]:
        raise Unsupported("default of strict in " + name)
    fn = Fn(may_raise=False)
    body = fn.block(f.body, set(args), lambda d: (_ for _ in ()).throw(Unsupported("falls off the end")))
    return f"Definition {gname} (a0 a1 b0 b1 : Z) (strict : bool) : bool :=\n{textwrap.indent(body, '  ')}."


def tr_plan(tree):
    f = find(tree, "FillLowerRangeQuery2D.__init__")
    st = strip_doc(f.body)
    if [a.arg for a in f.args.args] != ["self", "reader", "field", "bbox", "chunksize", "return_index"]:
        raise Unsupported("signature of FillLowerRangeQuery2D.__init__")
    head = ["self.reader = reader", "self.field = field", "self.bbox = bbox", "self.chunksize = chunksize",
            "self.return_index = return_index", "_fetch = self.reader",
            "_fetch_then_transpose = compose(transpose, self.reader)"]
    for s, t in zip(st, head):
        pin(s, t)
    core = st[len(head):]
    # tail: task assembly (pinned), core: everything before `self.tasks = []`
    idx = next((i for i, s in enumerate(core) if ast.unparse(s) == "self.tasks = []"), None)
    if idx is None:
        raise Unsupported("task assembly not found")
    tail = core[idx:]
    core = core[:idx]
    if len(tail) != 2:
        raise Unsupported("task assembly changed")
    pin(tail[1], """
        for fetcher, bbox in zip(fetchers, self._bboxes):
            spans = self.reader.get_spans(bbox, chunksize)
            self.tasks += [(fetcher, field, bbox, span, True, return_index) for span in spans]
    """)
    fn = Fn(names={"_fetch": "false", "_fetch_then_transpose": "true"}, calls=CB, may_raise=True)
    body = fn.block(core, {"bbox", "_fetch", "_fetch_then_transpose"},
                    lambda d: fn.ret("(fetchers, self__bboxes)") if {"fetchers", "self__bboxes"} <= d
                    else (_ for _ in ()).throw(Unsupported("fetchers/_bboxes not assigned on a path")))
    return ("(* result: (transpose the task's output?, bounding box) per task, None = ValueError *)\n"
            "Definition fill_lower_plan (bbox : Z * Z * Z * Z) : option (list bool * list (Z * Z * Z * Z)) :=\n"
            + textwrap.indent(body, "  ") + ".")


def tr_transpose(tree):
    f = find(tree, "transpose")
    st = strip_doc(f.body)
    pin(st[0], 'x, y = dct["bin1_id"], dct["bin2_id"]')
    pin(st[1], 'dct["bin1_id"], dct["bin2_id"] = y, x')
    pin(st[2], "return dct")
    if len(st) != 3:
        raise Unsupported("transpose changed")
    return "Definition transpose_swaps_bin_ids : bool := true."


def tr_direct(tree):
    f = find(tree, "DirectRangeQuery2D.__init__")
    st = strip_doc(f.body)
    pin(st[-1], "self.tasks = [(reader, field, bbox, span, False, return_index) for span in reader.get_spans(bbox, chunksize)]")
    return "Definition direct_tasks_one_per_span_no_reflect : bool := true."


def tr_process_slice(tree):
    f = find(tree, "_IndexingMixin._process_slice")
    if [a.arg for a in f.args.args] != ["self", "s", "nmax"]:
        raise Unsupported("signature of _process_slice")
    st = strip_doc(f.body)
    if len(st) != 1 or not isinstance(st[0], ast.If):
        raise Unsupported("_process_slice: top-level shape")
    top = st[0]
    if ast.unparse(top.test) != "isinstance(s, slice)":
        raise Unsupported("_process_slice: first test")
    b = top.body
    pin(b[0], """
        if s.step not in (1, None):
            raise ValueError("slicing with step != 1 not supported")
    """)
    fn1 = Fn(attrs={"s.start": "start", "s.stop": "stop"}, may_raise=False, opt_vars={"start", "stop"})
    body1 = fn1.block(b[1:], {"start", "stop", "nmax"}, lambda d: (_ for _ in ()).throw(Unsupported("falls off the end")))
    if len(top.orelse) != 1 or not isinstance(top.orelse[0], ast.If):
        raise Unsupported("_process_slice: elif shape")
    el = top.orelse[0]
    if ast.unparse(el.test) != "self._isintlike(s)":
        raise Unsupported("_process_slice: second test")
    if not (len(el.orelse) == 1 and isinstance(el.orelse[0], ast.Raise)):
        raise Unsupported("_process_slice: else branch")
    fn2 = Fn(may_raise=True)
    body2 = fn2.block(el.body, {"s", "nmax"}, lambda d: (_ for _ in ()).throw(Unsupported("falls off the end")))
    return ("Definition process_slice (start stop : option Z) (nmax : Z) : Z * Z :=\n" + textwrap.indent(body1, "  ") + ".\n\n"
            "Definition process_scalar (s nmax : Z) : option (Z * Z) :=\n" + textwrap.indent(body2, "  ") + ".")


def tr_reader_pins(tree):
    """facts about CSRReader.__call__ / get_spans / arg_prune_partition that the hand model mirrors line by line"""
    f = find(tree, "CSRReader.__call__")
    src = ast.unparse(f)
    for needle in ["mask = (bin2 >= j0) & (bin2 < j1)",
                   "to_duplex = (result['bin1_id'] != result['bin2_id']) & (result['bin2_id'] < i1)",
                   "rows = np.full(len(cols), i, dtype=bin1_selector.dtype)",
                   "for i in range(s0, s1):",
                   "lo = self.bin1_offsets[i] - offset_lo",
                   "hi = self.bin1_offsets[i + 1] - offset_lo",
                   "offset_lo, offset_hi = (self.bin1_offsets[s0], self.bin1_offsets[s1])",
                   "x = np.r_[result['bin1_id'], result['bin2_id'][to_duplex]]",
                   "y = np.r_[result['bin2_id'], result['bin1_id'][to_duplex]]"]:
        if needle not in src:
            raise Unsupported("CSRReader.__call__: pinned line changed: " + needle)
    g = ast.unparse(find(tree, "CSRReader.get_spans"))
    for needle in ["if i1 - i0 < 1 or j1 - j0 < 1:", "edges = i0 + arg_prune_partition(self.bin1_offsets[i0:i1 + 1], chunksize)",
                   "return list(zip(edges[:-1], edges[1:]))"]:
        if needle not in g:
            raise Unsupported("CSRReader.get_spans: pinned line changed: " + needle)
    a = ast.unparse(find(tree, "arg_prune_partition"))
    for needle in ["lo, hi = (seq[0], seq[-1])", "num = 2 + (hi - lo) // step", "cuts = np.linspace(lo, hi, num, dtype=int)",
                   "return np.unique(np.searchsorted(seq, cuts))"]:
        if needle not in a:
            raise Unsupported("arg_prune_partition: pinned line changed: " + needle)
    return "Definition reader_source_pins : bool := true."


def tr_partition(tree):
    f = find(tree, "partition")
    if [a.arg for a in f.args.args] != ["start", "stop", "step"]:
        raise Unsupported("signature of partition")
    fn = Fn(may_raise=False)
    body = fn.block(f.body, {"start", "stop", "step"}, lambda d: (_ for _ in ()).throw(Unsupported("falls off the end")))
    return ("Definition partition (start stop step : Z) : list (Z * Z) :=\n" + textwrap.indent(body, "  ") + ".")


def tr_balance_pins(tree):
    """chunk spans of balance_cooler and the per-chromosome spans of the cis-only loop"""
    src = ast.unparse(find(tree, "balance_cooler"))
    for needle in ["edges = np.arange(0, nnz + chunksize, chunksize)", "spans = list(zip(edges[:-1], edges[1:]))",
                   "spans = [(0, nnz)]"]:
        if needle not in src:
            raise Unsupported("balance_cooler: pinned line changed: " + needle)
    cis = ast.unparse(find(tree, "_balance_cisonly"))
    for needle in ["plo, phi = (bin1_offsets[lo], bin1_offsets[hi])", "spans = list(partition(plo, phi, chunksize))"]:
        if needle not in cis:
            raise Unsupported("_balance_cisonly: pinned line changed: " + needle)
    return "Definition balance_span_pins : bool := true."


def tr_multseq(tree):
    """get_multiplier_sequence: the statements around the search loop are pinned, the loop itself
    (`while p >= 0: if target % resn[p] == 0: pred[i] = p; mult[i] = target // resn[p]; break / else: p -= 1`)
    is translated into a fuelled recursion returning (pred[i], mult[i]), (-1, -1) when the loop ends without a hit"""
    f = find(tree, "get_multiplier_sequence")
    if [a.arg for a in f.args.args] != ["resolutions", "bases"]:
        raise Unsupported("signature of get_multiplier_sequence")
    st = strip_doc(f.body)
    if len(st) != 7:
        raise Unsupported("get_multiplier_sequence: statement count")
    pin(st[0], """
        if bases is None:
            bases = {min(resolutions)}
        else:
            bases = set(bases)
    """)
    pin(st[1], "resn = np.array(sorted(bases.union(resolutions)))")
    pin(st[2], "pred = -np.ones(len(resn), dtype=int)")
    pin(st[3], "mult = -np.ones(len(resn), dtype=int)")
    loop = st[4]
    if not (isinstance(loop, ast.For) and ast.unparse(loop.target) == "(i, target)"
            and ast.unparse(loop.iter) == "list(enumerate(resn))[::-1]" and not loop.orelse and len(loop.body) == 2):
        raise Unsupported("get_multiplier_sequence: outer loop shape")
    init, wh = loop.body
    if not (isinstance(init, ast.Assign) and ast.unparse(init.targets[0]) == "p"):
        raise Unsupported("get_multiplier_sequence: p initialisation")
    if not (isinstance(wh, ast.While) and not wh.orelse and len(wh.body) == 1 and isinstance(wh.body[0], ast.If)):
        raise Unsupported("get_multiplier_sequence: while shape")
    iff = wh.body[0]
    hit, miss = iff.body, iff.orelse
    if not (len(hit) == 3 and isinstance(hit[2], ast.Break) and isinstance(hit[0], ast.Assign) and isinstance(hit[1], ast.Assign)
            and ast.unparse(hit[0].targets[0]) == "pred[i]" and ast.unparse(hit[1].targets[0]) == "mult[i]"):
        raise Unsupported("get_multiplier_sequence: hit branch")
    if not (len(miss) == 1 and isinstance(miss[0], ast.AugAssign) and ast.unparse(miss[0].target) == "p"
            and isinstance(miss[0].op, ast.Sub)):
        raise Unsupported("get_multiplier_sequence: miss branch")
    fn = Fn(may_raise=False)
    wtest, itest = fn.expr(wh.test), fn.expr(iff.test)
    e_pred, e_mult = fn.expr(hit[0].value), fn.expr(hit[1].value)
    step = f"(p - {fn.expr(miss[0].value)})"
    pin(st[5], """
        for i, p in enumerate(pred):
            if p == -1 and resn[i] not in bases:
                raise ValueError(f'Resolution {resn[i]} cannot be derived from the base resolutions: {bases}.')
    """)
    pin(st[6], "return (resn, pred, mult)")
    return ("Fixpoint multseq_scan (fuel : nat) (resn : list Z) (target p : Z) : Z * Z :=\n"
            "  match fuel with\n  | O => (-1, -1)\n"
            f"  | S fuel => if {wtest} then (if {itest} then ({e_pred}, {e_mult}) else multseq_scan fuel resn target {step}) else (-1, -1)\n"
            "  end.\n"
            f"Definition multseq_start (i : Z) : Z := {fn.expr(init.value)}.\n"
            "Definition multseq_source_pins : bool := true.")


def tr_validate(tree):
    """_validate_pixels: the per-record predicates of the three integer checks are translated (a numpy comparison over a
    column becomes the comparison on one record, `|` becomes ||); the order of the checks, the flag guarding each, the
    NaN test, the duplicate test and the optional sort are pinned"""
    f = find(tree, "_validate_pixels")
    if [a.arg for a in f.args.args] != ["chunk", "n_bins", "boundscheck", "triucheck", "dupcheck", "ensure_sorted"]:
        raise Unsupported("signature of _validate_pixels")
    st = strip_doc(f.body)
    if len(st) != 6:
        raise Unsupported("_validate_pixels: statement count")
    fn = Fn(attrs={"chunk['bin1_id']": "b1", "chunk['bin2_id']": "b2"}, may_raise=False)
    defs = {}

    def check_pair(assign, test, name, msg_prefix):
        if not (isinstance(assign, ast.Assign) and ast.unparse(assign.targets[0]) == name):
            raise Unsupported(f"_validate_pixels: expected the assignment of {name}")
        if not (isinstance(test, ast.If) and ast.unparse(test.test) == f"np.any({name})" and not test.orelse
                and len(test.body) == 1 and isinstance(test.body[0], ast.Raise)
                and ast.unparse(test.body[0].exc).startswith("BadInputError(" + msg_prefix)):
            raise Unsupported(f"_validate_pixels: the test that follows {name} changed")
        return assign.value

    b = st[0]
    if not (isinstance(b, ast.If) and ast.unparse(b.test) == "boundscheck" and not b.orelse and len(b.body) == 6):
        raise Unsupported("_validate_pixels: boundscheck block")
    miss = check_pair(b.body[0], b.body[1], "is_missing", "'Found a missing")
    if ast.unparse(miss) != "pd.isna(chunk['bin1_id']) | pd.isna(chunk['bin2_id'])":
        raise Unsupported("_validate_pixels: NaN test changed")
    defs["vp_is_neg"] = ("(b1 b2 : Z)", fn.expr(check_pair(b.body[2], b.body[3], "is_neg", "'Found bin ID < 0")))
    defs["vp_is_excess"] = ("(b1 b2 n_bins : Z)", fn.expr(check_pair(b.body[4], b.body[5], "is_excess", "'Found a bin ID that exceeds")))
    t = st[1]
    if not (isinstance(t, ast.If) and ast.unparse(t.test) == "triucheck" and not t.orelse and len(t.body) == 2):
        raise Unsupported("_validate_pixels: triucheck block")
    defs["vp_is_tril"] = ("(b1 b2 : Z)", fn.expr(check_pair(t.body[0], t.body[1], "is_tril", "'Found bin1_id greater")))
    pin(st[2], """
        if not isinstance(chunk, pd.DataFrame):
            chunk = pd.DataFrame(chunk)
    """)
    d = st[3]
    if not (isinstance(d, ast.If) and ast.unparse(d.test) == "dupcheck" and not d.orelse
            and ast.unparse(d.body[0]) == "is_dup = chunk.duplicated(['bin1_id', 'bin2_id'])"
            and ast.unparse(d.body[1].test) == "is_dup.any()" and isinstance(d.body[1].body[-1], ast.Raise)):
        raise Unsupported("_validate_pixels: dupcheck block")
    pin(st[4], """
        if ensure_sorted:
            chunk = chunk.sort_values(['bin1_id', 'bin2_id'])
    """)
    pin(st[5], "return chunk")
    out = [f"Definition {k} {sig} : bool := {body}." for k, (sig, body) in defs.items()]
    out.append("Definition validate_pixels_source_pins : bool := true.")
    return "\n".join(out)


def tr_create_pins(tree):
    """create(): the validator is chained for exactly the documented flags, after triucheck was switched off for square
    storage; write_pixels: the integer fit check guards every store"""
    c = ast.unparse(find(tree, "create"))
    for needle in ["if not symmetric_upper and triucheck:\n        warnings.warn('Creating a non-symmetric matrix, but `triucheck` was set to True. Changing to False.', stacklevel=2)\n        triucheck = False\n    if boundscheck or triucheck or dupcheck or ensure_sorted:\n        validator = validate_pixels(n_bins, boundscheck, triucheck, dupcheck, ensure_sorted)\n        iterable = map(validator, iterable)\n"]:
        if needle not in c:
            raise Unsupported("create: the validator chaining changed")
    w = ast.unparse(find(tree, "write_pixels"))
    for needle in ["data = np.asarray(chunk[col])\n                    if n and np.issubdtype(dset.dtype, np.integer) and np.issubdtype(data.dtype, np.integer):\n                        limits = np.iinfo(dset.dtype)\n                        if data.min() < limits.min or data.max() > limits.max:\n                            raise ValueError(",
                   "dset.resize((nnz + n,))\n                    dset[nnz:nnz + n] = data\n                nnz += n\n                if 'count' in chunk:\n                    total += chunk['count'].sum()\n"]:
        if needle not in w:
            raise Unsupported("write_pixels: pinned block changed: " + needle[:60])
    return "Definition create_write_source_pins : bool := true."


def tr_balance_filters(tree):
    """the element-wise masks of the balancing filters, per pixel: b1, b2 = the pixel's bin ids, c1, c2 = their
    chromosome ids; the masked assignment `data[mask] = 0`, the binarisation and the marginal's bincounts are pinned"""
    out = []
    f = find(tree, "_zero_diags")
    st = strip_doc(f.body)
    pin(st[0], "pixels = chunk['pixels']")
    if not (isinstance(st[1], ast.Assign) and ast.unparse(st[1].targets[0]) == "mask"):
        raise Unsupported("_zero_diags: mask assignment")
    fn = Fn(attrs={"pixels['bin1_id']": "b1", "pixels['bin2_id']": "b2"}, may_raise=False)
    out.append(f"Definition bal_diag_mask (b1 b2 n_diags : Z) : bool := {fn.expr(st[1].value)}.")
    pin(st[2], "data[mask] = 0")
    pin(st[3], "return data")
    for name, gname in (("_zero_trans", "bal_trans_mask"), ("_zero_cis", "bal_cis_mask")):
        f = find(tree, name)
        st = strip_doc(f.body)
        pin(st[0], "chrom_ids = chunk['bins']['chrom']")
        pin(st[1], "pixels = chunk['pixels']")
        if not (isinstance(st[2], ast.Assign) and ast.unparse(st[2].targets[0]) == "mask"):
            raise Unsupported(name + ": mask assignment")
        fn = Fn(attrs={"chrom_ids[pixels['bin1_id']]": "c1", "chrom_ids[pixels['bin2_id']]": "c2"}, may_raise=False)
        out.append(f"Definition {gname} (c1 c2 : Z) : bool := {fn.expr(st[2].value)}.")
        pin(st[3], "data[mask] = 0")
        pin(st[4], "return data")
    b = strip_doc(find(tree, "_binarize").body)
    pin(b[0], "data[data != 0] = 1")
    pin(b[1], "return data")
    m = ast.unparse(find(tree, "_marginalize"))
    for needle in ["offdiag = np.where(pixels['bin1_id'] == pixels['bin2_id'], 0, data)",
                   "marg = np.bincount(pixels['bin1_id'], weights=data, minlength=n) + np.bincount(pixels['bin2_id'], weights=offdiag, minlength=n)"]:
        if needle not in m:
            raise Unsupported("_marginalize: pinned line changed: " + needle[:50])
    out.append("Definition balance_filter_pins : bool := true.")
    return "\n".join(out)


def tr_matrix_balance_pins(tree):
    """the balance branches of api.matrix: which slices the weights come from, the reciprocal for divisive weights and the
    ORDER of the float multiplications (the binary64 model of C12 reproduces exactly this order)"""
    m = ast.unparse(find(tree, "matrix"))
    blocks = {
        "pixels": "        if balance:\n            weights = Cooler(h5).bins()[[name]]\n            df2 = annotate(df, weights, replace=False)\n"
                  "            if divisive_weights:\n                df2[name + '1'] = 1 / df2[name + '1']\n                df2[name + '2'] = 1 / df2[name + '2']\n"
                  "            df['balanced'] = df2[name + '1'] * df2[name + '2'] * df2[field]\n",
        "sparse": "        if balance:\n            weights = h5['bins'][name]\n            bias1 = weights[i0:i1]\n            bias2 = bias1 if (i0, i1) == (j0, j1) else weights[j0:j1]\n"
                  "            if divisive_weights:\n                bias1 = 1 / bias1\n                bias2 = 1 / bias2\n"
                  "            mat.data = bias1[mat.row] * bias2[mat.col] * mat.data\n",
        "dense": "        if balance:\n            weights = h5['bins'][name]\n            bias1 = weights[i0:i1]\n            bias2 = bias1 if (i0, i1) == (j0, j1) else weights[j0:j1]\n"
                 "            if divisive_weights:\n                bias1 = 1 / bias1\n                bias2 = 1 / bias2\n"
                 "            arr = arr * np.outer(bias1, bias2)\n",
    }
    for k, needle in blocks.items():
        if needle not in m:
            raise Unsupported("api.matrix: the balance branch for " + k + " output changed")
    c = ast.unparse(find(tree, "Cooler.matrix"))
    for needle in ["if balance in _4DN_DIVISIVE_WEIGHTS and divisive_weights is None:\n        divisive_weights = True"]:
        if needle not in c:
            raise Unsupported("Cooler.matrix: divisive default changed")
    return "Definition matrix_balance_pins : bool := true."


def tr_float_division_pins(which):
    """the float64 quotients whose floor / ceiling Proofs/FloatDiv.v proves exact: the expressions themselves are pinned
    (a reciprocal multiplication or an integer shortcut is a different computation and needs a different theorem)"""
    def go(tree):
        if which == "extent":
            src = ast.unparse(find(tree, "_region_to_extent"))
            needles = ["yield (chrom_offset + int(np.floor(start / binsize)))", "yield (chrom_offset + int(np.ceil(end / binsize)))"]
        elif which == "binnify":
            src = ast.unparse(find(tree, "binnify"))
            needles = ["n_bins = int(np.ceil(clen / binsize))", "binedges = np.arange(0, n_bins + 1) * binsize", "binedges[-1] = clen"]
        else:
            src = ast.unparse(find(tree, "CoolerCoarsener._aggregate"))
            needles = ["rel_bin1 = np.floor(start1 / binsize).astype(int)", "rel_bin2 = np.floor(start2 / binsize).astype(int)"]
        for needle in needles:
            if needle not in src:
                raise Unsupported(which + ": pinned float-division line changed: " + needle)
        return f"Definition float_division_pins_{which} : bool := true."
    return go


def tr_get_binsize(tree):
    """util.get_binsize: the loop over the per-chromosome groups and the final decision.  The two sets are lists kept
    duplicate-free; the three decisions (`len(sizes) > 1`, `len(sizes) == 1`, `max(last_sizes) > binsize`) are
    translated from the expressions the source has now; the statements that build the sets and the shape of the
    control flow are pinned."""
    f = find(tree, "get_binsize")
    st = strip_doc(f.body)
    if len(st) != 4:
        raise Unsupported("get_binsize: statement count")
    pin(st[0], "sizes = set()")
    pin(st[1], "last_sizes = set()")
    loop = st[2]
    if not (isinstance(loop, ast.For) and not loop.orelse and ast.unparse(loop.target) == "(_chrom, group)"
            and ast.unparse(loop.iter) == "bins.groupby('chrom', observed=True)" and len(loop.body) == 4):
        raise Unsupported("get_binsize: loop header or body length")
    pin(loop.body[0], "widths = group['end'] - group['start']")
    pin(loop.body[1], "sizes.update(widths.iloc[:-1].unique())")
    pin(loop.body[2], "last_sizes.add(widths.iloc[-1])")
    ex = loop.body[3]
    if not (isinstance(ex, ast.If) and not ex.orelse and len(ex.body) == 1 and ast.unparse(ex.body[0]) == "return None"):
        raise Unsupported("get_binsize: early exit")
    fin = st[3]
    if not (isinstance(fin, ast.If) and len(fin.orelse) == 1 and ast.unparse(fin.orelse[0]) == "return None"
            and len(fin.body) == 3):
        raise Unsupported("get_binsize: final decision shape")
    pin(fin.body[0], "binsize = next(iter(sizes))")
    longer = fin.body[1]
    if not (isinstance(longer, ast.If) and not longer.orelse and len(longer.body) == 1
            and ast.unparse(longer.body[0]) == "return None"):
        raise Unsupported("get_binsize: last-bin test shape")
    pin(fin.body[2], "return binsize")
    fn = Fn(calls={"len": ("zlen", ["x"], {}), "max": ("zmax_list", ["x"], {})}, may_raise=False)
    return "\n".join([
        "Definition zlen (l : list Z) : Z := Z.of_nat (length l).",
        "Definition zmax_list (l : list Z) : Z := fold_right Z.max (hd 0 l) l.",
        "(* set.update / set.add on a duplicate-free list *)",
        "Definition set_update (s xs : list Z) : list Z := nodup Z.eq_dec (s ++ xs).",
        f"Definition gb_early_exit (sizes : list Z) : bool := {fn.expr(ex.test)}.",
        f"Definition gb_single (sizes : list Z) : bool := {fn.expr(fin.test)}.",
        f"Definition gb_last_longer (last_sizes : list Z) (binsize : Z) : bool := {fn.expr(longer.test)}.",
        "(* one `widths` list per observed chromosome; None = the early `return None` *)",
        "Fixpoint gb_loop (groups : list (list Z)) (sizes last_sizes : list Z) : option (list Z * list Z) :=",
        "  match groups with",
        "  | [] => Some (sizes, last_sizes)",
        "  | widths :: rest =>",
        "      let sizes := set_update sizes (removelast widths) in",
        "      let last_sizes := set_update last_sizes [last widths 0] in",
        "      if gb_early_exit sizes then None else gb_loop rest sizes last_sizes",
        "  end.",
        "Definition get_binsize (groups : list (list Z)) : option Z :=",
        "  match gb_loop groups [] [] with",
        "  | None => None",
        "  | Some (sizes, last_sizes) =>",
        "      if gb_single sizes then",
        "        let binsize := hd 0 sizes in",
        "        if gb_last_longer last_sizes binsize then None else Some binsize",
        "      else None",
        "  end.",
        "Definition get_binsize_source_pins : bool := true."])


def tr_parse_region(tree):
    """util.parse_region after the region became a triple: the defaults for an open start / end, `End cannot be less than
    start`, `Genomic region out of bounds`.  The two refusal conditions are translated from the expressions the source has
    now (`clen is not None and X` becomes a match on the optional length); everything around them is pinned."""
    f = find(tree, "parse_region")
    st = strip_doc(f.body)
    if len(st) != 7:
        raise Unsupported("parse_region: statement count")
    pin(st[0], """
        if isinstance(reg, str):
            chrom, start, end = parse_region_string(reg)
        else:
            chrom, start, end = reg
            start = int(start) if start is not None else start
            end = int(end) if end is not None else end
    """)
    pin(st[1], """
        try:
            clen = chromsizes[chrom] if chromsizes is not None else None
        except KeyError as e:
            raise ValueError(f"Unknown sequence label: {chrom}") from e
    """)
    pin(st[2], "start = 0 if start is None else start")
    d = st[3]
    if not (isinstance(d, ast.If) and ast.unparse(d.test) == "end is None" and not d.orelse and len(d.body) == 2
            and isinstance(d.body[0], ast.If) and ast.unparse(d.body[0].test) == "clen is None" and not d.body[0].orelse
            and len(d.body[0].body) == 1 and isinstance(d.body[0].body[0], ast.Raise)):
        raise Unsupported("parse_region: default of an open end")
    pin(d.body[1], "end = clen")
    for k in (4, 5):
        if not (isinstance(st[k], ast.If) and not st[k].orelse and len(st[k].body) == 1 and isinstance(st[k].body[0], ast.Raise)):
            raise Unsupported("parse_region: refusal statement shape")
    pin(st[6], "return chrom, start, end")
    fn = Fn(names={"end": "end_"}, may_raise=False)
    lt = fn.expr(st[4].test)
    t = st[5].test
    if not (isinstance(t, ast.BoolOp) and isinstance(t.op, ast.Or)):
        raise Unsupported("parse_region: bounds test is not a disjunction")
    parts = []
    for v in t.values:
        if (isinstance(v, ast.BoolOp) and isinstance(v.op, ast.And) and ast.unparse(v.values[0]) == "clen is not None"
                and len(v.values) == 2):
            parts.append(f"match clen with Some clen => {fn.expr(v.values[1])} | None => false end")
        elif "clen" in ast.unparse(v):
            raise Unsupported("parse_region: clen used outside the `is not None` guard")
        else:
            parts.append(fn.expr(v))
    oob = "(" + " || ".join(parts) + ")"
    return "\n".join([
        f"Definition pr_end_before_start (start end_ : Z) : bool := {lt}.",
        f"Definition pr_out_of_bounds (start end_ : Z) (clen : option Z) : bool := {oob}.",
        "(* start / end as given (None = open), clen = chromsizes[chrom] (None = no chromsizes given); None = ValueError *)",
        "Definition parse_region_tail (start end_ clen : option Z) : option (Z * Z) :=",
        "  let start := match start with None => 0 | Some v => v end in",
        "  match (match end_ with None => clen | Some v => Some v end) with",
        "  | None => None",
        "  | Some end_ =>",
        "      if pr_end_before_start start end_ then None",
        "      else if pr_out_of_bounds start end_ clen then None",
        "      else Some (start, end_)",
        "  end.",
        "Definition parse_region_source_pins : bool := true."])


def pin_body(tree, qual, text):
    """the whole body of a function (docstring dropped) must be, statement for statement, the pinned text"""
    got = strip_doc(find(tree, qual).body)
    want = ast.parse(textwrap.dedent(text)).body
    if len(got) != len(want):
        raise Unsupported(f"{qual}: {len(got)} statements, pinned {len(want)}")
    for g, w in zip(got, want):
        if ast.unparse(g) != ast.unparse(w):
            raise Unsupported(f"{qual}: pinned statement changed:\n   expected: {ast.unparse(w)[:200]}\n   found:    {ast.unparse(g)[:200]}")


def tr_rename_pins(tree):
    """rename_chroms: chroms/name is rewritten from the renamed index, the bins/chrom enum is rebuilt from the NEW names in
    chromosome order over the unchanged codes whenever the column is categorical, and the Cooler object is refreshed"""
    pin_body(tree, "_rename_chroms", """
        chroms = get(grp["chroms"]).set_index("name")
        n_chroms = len(chroms)
        new_names = np.array(chroms.rename(rename_dict).index.values, dtype=CHROM_DTYPE)
        del grp["chroms/name"]
        grp["chroms"].create_dataset("name", shape=(n_chroms,), dtype=new_names.dtype, data=new_names, **h5opts)
        bins = get(grp["bins"])
        n_bins = len(bins)
        if isinstance(bins["chrom"].dtype, pd.CategoricalDtype):
            idmap = dict(zip(new_names, range(n_chroms)))
            chrom_ids = bins["chrom"].cat.codes
            chrom_dtype = h5py.special_dtype(enum=(CHROMID_DTYPE, idmap))
            del grp["bins/chrom"]
            try:
                grp["bins"].create_dataset("chrom", shape=(n_bins,), dtype=chrom_dtype, data=chrom_ids, **h5opts)
            except ValueError:
                chrom_dtype = CHROMID_DTYPE
                grp["bins"].create_dataset("chrom", shape=(n_bins,), dtype=chrom_dtype, data=chrom_ids, **h5opts)
    """)
    pin_body(tree, "rename_chroms", """
        h5opts = _set_h5opts(h5opts)
        with clr.open("r+") as f:
            _rename_chroms(f, rename_dict, h5opts)
        clr._refresh()
    """)
    return "Definition rename_chroms_source_pins : bool := true."


def tr_dtypes_alias_pins(tree):
    """the deprecated `dtype=` spelling of `dtypes=` is resolved in one place, and the resolved mapping is what the creators use"""
    pin_body(tree, "_get_dtypes_arg", """
        if "dtype" in kwargs:
            if dtypes is None:
                dtypes = kwargs.pop("dtype")
                warnings.warn("Use dtypes= instead of dtype=", FutureWarning, stacklevel=2)
            else:
                raise ValueError('Received both "dtypes" and "dtype" arguments. Please use "dtypes" to provide a column name -> dtype mapping. "dtype" remains as an alias but is deprecated.')
        return dtypes
    """)
    for fn_name in ("create", "create_from_unordered", "create_scool"):
        src = ast.unparse(find(tree, fn_name))
        if "dtypes = _get_dtypes_arg(dtypes, kwargs)" not in src:
            raise Unsupported(fn_name + ": the alias is no longer resolved into `dtypes`")
    return "Definition dtypes_alias_source_pins : bool := true."


ITEMS = [
    ("core/_rangequery.py", "comes_before", lambda t: tr_cmp(t, "_comes_before", "comes_before")),
    ("core/_rangequery.py", "contains", lambda t: tr_cmp(t, "_contains", "contains")),
    ("core/_rangequery.py", "fill_lower_plan", tr_plan),
    ("core/_rangequery.py", "transpose_swaps_bin_ids", tr_transpose),
    ("core/_rangequery.py", "direct_tasks_one_per_span_no_reflect", tr_direct),
    ("core/_rangequery.py", "reader_source_pins", tr_reader_pins),
    ("core/_selectors.py", "process_slice", tr_process_slice),
    ("util.py", "partition", tr_partition),
    ("_balance.py", "balance_span_pins", tr_balance_pins),
    ("_reduce.py", "multseq_scan", tr_multseq),
    ("create/_ingest.py", "validate_pixels_source_pins", tr_validate),
    ("create/_create.py", "create_write_source_pins", tr_create_pins),
    ("_balance.py", "balance_filter_pins", tr_balance_filters),
    ("api.py", "matrix_balance_pins", tr_matrix_balance_pins),
    ("core/_rangequery.py", "float_division_pins_extent", tr_float_division_pins("extent")),
    ("util.py", "float_division_pins_binnify", tr_float_division_pins("binnify")),
    ("_reduce.py", "float_division_pins_coarsen", tr_float_division_pins("coarsen")),
    ("util.py", "get_binsize", tr_get_binsize),
    ("util.py", "parse_region_tail", tr_parse_region),
    ("create/_create.py", "rename_chroms_source_pins", tr_rename_pins),
    ("create/_create.py", "dtypes_alias_source_pins", tr_dtypes_alias_pins),
]


def main():
    ap = argparse.ArgumentParser()
    ap.add_argument("--repo", default="/repo")
    ap.add_argument("--out", default=str(Path(__file__).resolve().parent.parent / "coq" / "Gen"))
    args = ap.parse_args()
    src_root = Path(args.repo) / "src" / "cooler"
    out = ["(** GENERATED by tools/py2v.py from src/cooler of the repository under test. Do not edit. *)",
           "From Coq Require Import ZArith List Bool.", "Import ListNotations.", "Open Scope Z_scope.", "",
           "Module Gen.", "",
           "(* range(lo, hi, step) for step >= 1 *)",
           "Definition py_range (lo hi step : Z) : list Z :=",
           "  map (fun k => lo + Z.of_nat k * step) (seq 0 (Z.to_nat ((hi - lo + step - 1) / step))).", ""]
    failures = []
    trees = {}
    for rel, name, fn in ITEMS:
        try:
            if rel not in trees:
                trees[rel] = ast.parse((src_root / rel).read_text())
            out.append(f"(* from {rel} *)")
            out.append(fn(trees[rel]))
        except (Unsupported, OSError, SyntaxError, IndexError, StopIteration) as e:
            failures.append(f"{rel}:{name}: {e}")
            out.append(f"(* translation of {name} FAILED: {str(e)[:300].replace('*)', '* )')} *)")
            out.append(f"Definition {name}_UNTRANSLATABLE : unit := tt.")
        out.append("")
    out.append("End Gen.")
    text = "\n".join(out) + "\n"
    outdir = Path(args.out)
    outdir.mkdir(parents=True, exist_ok=True)
    target = outdir / "Translated.v"
    if not target.exists() or target.read_text() != text:
        target.write_text(text)
    for f in failures:
        print("py2v: FAILED", f)
    print(f"py2v: {len(ITEMS) - len(failures)}/{len(ITEMS)} items translated -> {target}")
    return 1 if failures else 0


if __name__ == "__main__":
    sys.exit(main())
