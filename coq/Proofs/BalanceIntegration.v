(** Cross-property integration of C10 (balancing, Proofs/BalanceProofs.v) with C12 (balanced reads,
    Proofs/BalancedProofs.v) and C03 (dense reads), plus the end-to-end cis-only NaN-set theorem. *)
From Cooler Require Import Model.Query Model.Balanced Proofs.QueryProofs Proofs.QueryMain Proofs.BalancedProofs.
From Cooler Require Import Model.Balance Proofs.BalanceProofs.
From Coq Require Import Lia Lqa Setoid Morphisms Permutation.
Open Scope Z_scope.

(** * 1. What a user reads back after balancing is flat (C10 + C12 + C03) *)

(** a NaN cell counts as 0 in a row sum (numpy.nansum); a NaN weight as 0 *)
Definition valq (c : weight) : Q := match c with Some q => q | None => 0%Q end.
Definition wq (w : list weight) : list Q := map valq w.
(** sum over the columns 0..n-1 of the non-NaN cells of row a of a dense balanced read *)
Definition row_nansum (D : list (list weight)) (a : Z) (n : nat) : Q :=
  sumQ (map (fun b => valq (nth (Z.to_nat b) (nth (Z.to_nat a) D []) None)) (zrange 0 n)).

Lemma qnth_wq : forall w k, qnth (wq w) k = valq (wnth w k).
Proof. intros. unfold qnth, wq, wnth. change 0%Q with (valq None). apply map_nth. Qed.

Lemma look_as_sum : forall (px : list pixel) a b,
  (inject_Z (look px (a, b)) ==
   sumQ (map (fun p => if (row p =? a) && (col p =? b) then inject_Z (val p) else 0) px))%Q.
Proof.
  induction px as [|[[r c] v] t IH]; intros a b; [reflexivity|].
  cbn [look map sumQ fold_right]. rewrite inject_Z_plus. fold (sumQ (map (fun p : pixel => if (row p =? a) && (col p =? b) then inject_Z (val p) else 0%Q) t)).
  rewrite <- IH. unfold kcmp, row, col, val. cbn [fst snd].
  destruct (Z.compare_spec a r) as [E1|E1|E1], (Z.compare_spec b c) as [E2|E2|E2];
    destruct (Z.eqb_spec r a), (Z.eqb_spec c b); cbn [andb]; try lia; reflexivity.
Qed.

(** with no data filter (genome-wide, ignore_diags = 0) the matrix F of the balancing theorems is the
    symmetric completion [symm] that the dense read returns *)
Lemma Fmat_nil_symm : forall (px : list pixel) i j, (Fmat [] px i j == inject_Z (symm px i j))%Q.
Proof.
  intros px i j. unfold Fmat, dense, filtered. rewrite map_map. unfold symm.
  destruct (Z.leb_spec i j) as [H|H]; rewrite look_as_sum; apply sumQ_ext; intros p _;
    unfold pipe1, init1, b1, b2, dat, row, col, val; cbn [fold_left fst snd].
  - rewrite Z.min_l, Z.max_r by lia. reflexivity.
  - rewrite Z.min_r, Z.max_l by lia. reflexivity.
Qed.

Lemma valq_cell : forall (wa wb : weight) (s : Z),
  (valq (wmul (wmul wa wb) (wofZ s)) == valq wa * inject_Z s * valq wb)%Q.
Proof. intros [x|] [y|] s; cbn; ring. Qed.

(** the balanced dense read of the whole matrix: the nan-sum of row a is the a-th row sum of
    diag(w) S diag(w), S the symmetric completion of the stored table, NaN weights counting as 0.
    Multiplicative weights (not a divisive column). *)
Theorem balanced_read_rowsum : forall n epx off cs cols balance dw name w,
  ValidCSR n epx off -> Upper epx -> 1 <= cs -> zlen w = n ->
  weight_name balance = Some name -> lookup_weights cols name = Some w ->
  effective_divisive balance dw = false ->
  exists D, matrix_balanced epx off cs true Dense cols balance dw (0, n, 0, n) = Some (BDense D) /\
    forall a, 0 <= a < n ->
      (row_nansum D a (Z.to_nat n) == rowsum (Fmat [] (map snd epx)) (Z.to_nat n) (wq w) a)%Q /\
      (wnth w a = None -> forall b, 0 <= b < n -> nth (Z.to_nat b) (nth (Z.to_nat a) D []) None = None).
Proof.
  intros n epx off cs cols balance dw name w HV HU Hcs Hw Hname Hlook Hdv.
  assert (Hn : 0 <= n) by (unfold zlen in Hw; lia).
  destruct (dense_balanced_full n epx off cs cols balance dw name w 0 n 0 n HV HU Hcs) as [D [HD Hcell]]; try lia; auto.
  exists D. split; [exact HD|]. intros a Ha. rewrite Hdv in Hcell. split.
  - unfold row_nansum, rowsum. rewrite <- sumQ_scal. apply sumQ_ext. intros b Hb. apply in_zrange in Hb.
    rewrite (Hcell a b) by lia. rewrite !Z.add_0_l. unfold wt, adj.
    rewrite valq_cell, Fmat_nil_symm, !qnth_wq. ring.
  - intros Hna b Hb. rewrite (Hcell a b) by lia. rewrite !Z.add_0_l. unfold wt, adj. rewrite Hna. reflexivity.
Qed.

(** the stored weight column of a run: non-negative, w_j^2 * scale = b_j^2, NaN read as 0
    (i.e. w = b / sqrt(scale) with NaN on the bins whose final weight is 0) *)
Definition StoredWeights (w : list weight) (bb : list Q) (mu : Q) : Prop :=
  forall j, (0 <= qnth (wq w) j)%Q /\ (qnth (wq w) j * qnth (wq w) j * mu == qnth bb j * qnth bb j)%Q.

(** C10 + C12: balance genome-wide with ignore_diags = 0 (no data filter: the read below is of the UNFILTERED
    matrix) until var < tol, store the rescaled weights, read the matrix back with balance=True: every row of a
    retained bin with data sums, over the non-NaN cells, to a value in [1/(1+eps), 1/(1-eps)]. *)
Theorem balanced_read_flat : forall n epx off cs cols balance dw name w chunk tol fuel b bb mu v k eps,
  ValidCSR n epx off -> Upper epx -> 1 <= cs -> zlen w = n ->
  weight_name balance = Some name -> lookup_weights cols name = Some w ->
  effective_divisive balance dw = false ->
  let px := map snd epx in
  let n' := Z.to_nat n in
  chunk_ok chunk -> good_px n' px = true ->
  length b = n' -> NonNeg b ->
  ic_loop (margf_gw n' (balance_spans (zlen px) chunk) [] px) tol fuel b = Some (bb, Some mu, v, k) ->
  (v < tol)%Q -> (0 <= eps)%Q -> (eps < 1)%Q ->
  (nnz_rows (Fmat [] px) n' b * tol <= eps * eps * mu * mu)%Q ->
  StoredWeights w bb mu ->
  exists D, matrix_balanced epx off cs true Dense cols balance dw (0, n, 0, n) = Some (BDense D) /\
    forall a, 0 <= a < n -> ~ (rowsum (Fmat [] px) n' b a == 0)%Q ->
      (1 / (1 + eps) <= row_nansum D a n' /\ row_nansum D a n' <= 1 / (1 - eps))%Q.
Proof.
  intros n epx off cs cols balance dw name w chunk tol fuel b bb mu v k eps HV HU Hcs Hw Hname Hlook Hdv px n'
         Hc Hg Hlb Hnb Hloop Hv He0 He1 HN Hst.
  destruct (balanced_read_rowsum n epx off cs cols balance dw name w HV HU Hcs Hw Hname Hlook Hdv) as [D [HD Hrow]].
  exists D. split; [exact HD|]. intros a Ha Hdata.
  destruct (Hrow a Ha) as [E _]. fold px n' in E. rewrite E.
  assert (Hi : InR n' a) by (unfold InR, n'; lia).
  exact (gw_flatness_rescaled n' chunk [] px Hc Hg (Forall_nil _) (Forall_nil _)
           tol fuel b bb mu v k eps a (wq w) Hlb Hnb Hloop Hv He0 He1 HN Hst Hi Hdata).
Qed.

(** ** the same with ignore_diags = d > 0: the loop equalises the matrix WITHOUT its first d diagonals, so the
    flat quantity of the read is the row sum over the cells with |a - b| >= d *)
Definition row_nansum_off (D : list (list weight)) (a : Z) (n : nat) (d : Z) : Q :=
  sumQ (map (fun b => if Z.abs (a - b) <? d then 0%Q else valq (nth (Z.to_nat b) (nth (Z.to_nat a) D []) None)) (zrange 0 n)).

Lemma Fmat_diags_symm : forall d (px : list pixel) i j,
  (Fmat [f_zero_diags d] px i j == if Z.abs (i - j) <? d then 0 else inject_Z (symm px i j))%Q.
Proof.
  intros d px i j. destruct (Z.ltb_spec (Z.abs (i - j)) d) as [Hd|Hd].
  - unfold Fmat, dense, filtered. rewrite map_map. apply sumQ_zero_ext. intros p _.
    unfold pipe1, init1. cbn [fold_left]. unfold f_zero_diags, b1, b2, dat. cbn [fst snd].
    destruct (Z.ltb_spec (Z.abs (fst (fst p) - snd (fst p))) d) as [H1|H1]; cbn [fst snd].
    + destruct (_ && _); reflexivity.
    + destruct (Z.eqb_spec (fst (fst p)) (Z.min i j)), (Z.eqb_spec (snd (fst p)) (Z.max i j)); cbn [andb]; try reflexivity. lia.
  - rewrite <- Fmat_nil_symm. unfold Fmat, dense, filtered. rewrite !map_map. apply sumQ_ext. intros p _.
    unfold pipe1, init1. cbn [fold_left]. unfold f_zero_diags, b1, b2, dat. cbn [fst snd].
    destruct (Z.ltb_spec (Z.abs (fst (fst p) - snd (fst p))) d) as [H1|H1]; cbn [fst snd]; [|reflexivity].
    destruct (Z.eqb_spec (fst (fst p)) (Z.min i j)), (Z.eqb_spec (snd (fst p)) (Z.max i j)); cbn [andb]; try reflexivity. lia.
Qed.

Theorem balanced_read_rowsum_diags : forall n epx off cs cols balance dw name w d,
  ValidCSR n epx off -> Upper epx -> 1 <= cs -> zlen w = n ->
  weight_name balance = Some name -> lookup_weights cols name = Some w ->
  effective_divisive balance dw = false ->
  exists D, matrix_balanced epx off cs true Dense cols balance dw (0, n, 0, n) = Some (BDense D) /\
    forall a, 0 <= a < n ->
      (row_nansum_off D a (Z.to_nat n) d == rowsum (Fmat [f_zero_diags d] (map snd epx)) (Z.to_nat n) (wq w) a)%Q.
Proof.
  intros n epx off cs cols balance dw name w d HV HU Hcs Hw Hname Hlook Hdv.
  assert (Hn : 0 <= n) by (unfold zlen in Hw; lia).
  destruct (dense_balanced_full n epx off cs cols balance dw name w 0 n 0 n HV HU Hcs) as [D [HD Hcell]]; try lia; auto.
  exists D. split; [exact HD|]. intros a Ha. rewrite Hdv in Hcell.
  unfold row_nansum_off, rowsum. rewrite <- sumQ_scal. apply sumQ_ext. intros b Hb. apply in_zrange in Hb.
  rewrite Fmat_diags_symm. destruct (Z.abs (a - b) <? d); [ring|].
  rewrite (Hcell a b) by lia. rewrite !Z.add_0_l. unfold wt, adj.
  rewrite valq_cell, !qnth_wq. ring.
Qed.

Theorem balanced_read_flat_diags : forall n epx off cs cols balance dw name w chunk d tol fuel b bb mu v k eps,
  ValidCSR n epx off -> Upper epx -> 1 <= cs -> zlen w = n ->
  weight_name balance = Some name -> lookup_weights cols name = Some w ->
  effective_divisive balance dw = false ->
  let px := map snd epx in
  let n' := Z.to_nat n in
  chunk_ok chunk -> good_px n' px = true ->
  length b = n' -> NonNeg b ->
  ic_loop (margf_gw n' (balance_spans (zlen px) chunk) [f_zero_diags d] px) tol fuel b = Some (bb, Some mu, v, k) ->
  (v < tol)%Q -> (0 <= eps)%Q -> (eps < 1)%Q ->
  (nnz_rows (Fmat [f_zero_diags d] px) n' b * tol <= eps * eps * mu * mu)%Q ->
  StoredWeights w bb mu ->
  exists D, matrix_balanced epx off cs true Dense cols balance dw (0, n, 0, n) = Some (BDense D) /\
    forall a, 0 <= a < n -> ~ (rowsum (Fmat [f_zero_diags d] px) n' b a == 0)%Q ->
      (1 / (1 + eps) <= row_nansum_off D a n' d /\ row_nansum_off D a n' d <= 1 / (1 - eps))%Q.
Proof.
  intros n epx off cs cols balance dw name w chunk d tol fuel b bb mu v k eps HV HU Hcs Hw Hname Hlook Hdv px n'
         Hc Hg Hlb Hnb Hloop Hv He0 He1 HN Hst.
  destruct (balanced_read_rowsum_diags n epx off cs cols balance dw name w d HV HU Hcs Hw Hname Hlook Hdv) as [D [HD Hrow]].
  exists D. split; [exact HD|]. intros a Ha Hdata.
  pose proof (Hrow a Ha) as E. fold px n' in E. rewrite E.
  assert (Hi : InR n' a) by (unfold InR, n'; lia).
  exact (gw_flatness_rescaled n' chunk [f_zero_diags d] px Hc Hg
           (Forall_cons _ (keyfix_zero_diags d) (Forall_nil _)) (Forall_cons _ (datnn_zero_diags d) (Forall_nil _))
           tol fuel b bb mu v k eps a (wq w) Hlb Hnb Hloop Hv He0 He1 HN Hst Hi Hdata).
Qed.

(** * 2. cis-only mode end to end: NaN exactly on masked bins or chromosomes without data *)
Lemma length_margf_cis : forall n c bf px full lo hi seg,
  0 <= lo -> lo <= hi -> hi <= Z.of_nat n -> length (margf_cis n c bf px full lo hi seg) = Z.to_nat (hi - lo).
Proof.
  intros. unfold margf_cis, slice. rewrite firstn_length, skipn_length, length_marg_of. lia.
Qed.

Lemma skipn_splice : forall (full seg : list Q) lo hi,
  0 <= lo -> lo <= hi -> hi <= zlen full -> length seg = Z.to_nat (hi - lo) ->
  skipn (Z.to_nat hi) (splice full lo hi seg) = skipn (Z.to_nat hi) full.
Proof.
  intros full seg lo hi H0 H1 H2 Hs. unfold splice, zlen in *.
  assert (L1 : length (firstn (Z.to_nat lo) full) = Z.to_nat lo) by (rewrite firstn_length; lia).
  rewrite skipn_app, L1. rewrite (skipn_all2 (firstn (Z.to_nat lo) full)) by lia. cbn [app].
  rewrite skipn_app, Hs. rewrite (skipn_all2 seg) by lia. cbn [app].
  replace (Z.to_nat hi - Z.to_nat lo - Z.to_nat (hi - lo))%nat with 0%nat by lia. reflexivity.
Qed.

(** the sequential driver over consecutive chromosome ranges: each chromosome's loop starts from its own slice of
    the INITIAL weights b0 (earlier chromosomes only rewrite their own positions) *)
Lemma cis_loop_chain_spec : forall o (n : nat) c bf px (b0 : list Q) ranges a e full rs,
  Chain a ranges e -> 0 <= a -> e <= Z.of_nat n -> length full = n -> length b0 = n ->
  skipn (Z.to_nat a) full = skipn (Z.to_nat a) b0 ->
  cis_loop o n c bf px full ranges = Some rs ->
  Forall2 (fun lohi r => exists full' bb s v k,
             length full' = n /\
             ic_loop (margf_cis n c bf px full' (fst lohi) (snd lohi)) (o_tol o) (o_iters o)
                     (slice b0 (fst lohi) (snd lohi)) = Some (bb, s, v, k) /\
             c_bias r = mark_nan s bb /\ c_scale r = s /\ c_var r = v /\ c_iters r = k) ranges rs.
Proof.
  intros o n c bf px b0 ranges a e full rs Hch. revert full rs.
  induction Hch as [a|a m e r Ham Hc IH]; intros full rs Ha He Hlf Hlb Hag Hloop; simpl in Hloop.
  - injection Hloop as <-. constructor.
  - pose proof (chain_le _ _ _ Hc) as Hme.
    assert (Esl : slice full a m = slice b0 a m) by (unfold slice; now rewrite Hag).
    rewrite Esl in Hloop.
    destruct (ic_loop (margf_cis n c bf px full a m) (o_tol o) (o_iters o) (slice b0 a m))
      as [[[[seg s] v] k]|] eqn:E; [|discriminate].
    destruct (cis_loop o n c bf px (splice full a m seg) r) as [rs'|] eqn:E2; [|discriminate].
    injection Hloop as <-.
    assert (Lseg : length seg = Z.to_nat (m - a)).
    { apply (ic_loop_length (margf_cis n c bf px full a m) (o_tol o) (Z.to_nat (m - a))) with
        (fuel := o_iters o) (b := slice b0 a m) (s := s) (v := v) (k := k); auto.
      - intros b _. apply length_margf_cis; lia.
      - unfold slice. rewrite firstn_length, skipn_length. lia. }
    constructor.
    + exists full, seg, s, v, k. cbn [fst snd c_bias c_scale c_var c_iters]. repeat split; auto.
    + apply (IH (splice full a m seg)); auto; try lia.
      * rewrite length_splice; unfold zlen; lia.
      * rewrite skipn_splice by (unfold zlen; lia).
        replace (Z.to_nat m) with (Z.to_nat a + Z.to_nat (m - a))%nat by lia.
        rewrite <- !skipn_skipn'. now rewrite Hag.
Qed.

Lemma nonneg_slice : forall (b : list Q) lo hi, 0 <= lo -> NonNeg b -> NonNeg (slice b lo hi).
Proof.
  intros b lo hi Hlo Hb i. unfold qnth.
  destruct (Nat.lt_ge_cases (Z.to_nat i) (length (slice b lo hi))) as [Hlt|Hge].
  - assert (Hk : (Z.to_nat i < Z.to_nat (hi - lo))%nat) by (unfold slice in Hlt; rewrite firstn_length in Hlt; lia).
    pose proof (qnth_slice b lo hi (Z.of_nat (Z.to_nat i)) Hlo ltac:(lia)) as E. unfold qnth in E.
    rewrite Nat2Z.id in E. rewrite E. apply Hb.
  - rewrite nth_overflow by lia. apply Qle_refl.
Qed.

Lemma Forall2_impl_in {A B} : forall (P Q : A -> B -> Prop) l l',
  Forall2 P l l' -> (forall x y, In x l -> P x y -> Q x y) -> Forall2 Q l l'.
Proof.
  intros P Q l l' H. induction H as [|x y l l' Hxy H IH]; intros Himp; constructor.
  - apply Himp; [now left | assumption].
  - apply IH. intros x0 y0 Hin. apply Himp. now right.
Qed.

(** chunksize=None means max(nnz, 1), so the effective chunk size of the cis-only partition is always >= 1 *)
Lemma eff_chunk_ge1 : forall o nnz, chunk_ok (o_chunk o) -> 1 <= eff_chunk o nnz.
Proof. intros o nnz H. unfold eff_chunk, chunk_ok in *. destruct (o_chunk o); lia. Qed.

(** the whole cis-only run of the model: for every chromosome [lo,hi) (bins with their own chromosome id, pixels
    sorted by bin1) and every bin i of it, the reported weight is NaN iff the bin is excluded by one of the
    documented filters or the chromosome has no remaining intra-chromosomal data; all other weights are positive *)
Theorem balance_cis_nan_set : forall o n chroms offsets px rs,
  o_cis o = true -> chunk_ok (o_chunk o) -> good_px n px = true -> rows_sorted px ->
  length (x0_bias n (o_x0 o)) = n -> NonNeg (x0_bias n (o_x0 o)) ->
  let ranges := combine (removelast offsets) (tl offsets) in
  Chain 0 ranges (Z.of_nat n) ->
  (forall lo hi, In (lo, hi) ranges -> BlockSep chroms n lo hi) ->
  balance o n chroms offsets px = Some rs ->
  let b0 := initial_bias o n chroms offsets px in
  Forall2 (fun lohi r =>
     let lo := fst lohi in let hi := snd lohi in
     forall i, lo <= i < hi ->
       (onth (c_bias r) (i - lo) = None <->
          AllZero (fun a b => Fmat (base_filters o chroms) px (lo + a) (lo + b)) (Z.to_nat (hi - lo)) (slice b0 lo hi) \/
          (qnth (x0_bias n (o_x0 o)) i == 0)%Q \/ masked_nnz o n chroms px i \/ masked_count o n chroms px i \/
          masked_mad o n chroms offsets px i \/ In i (o_black o)) /\
       (forall x, onth (c_bias r) (i - lo) = Some x -> (0 < x)%Q)) ranges rs.
Proof.
  intros o n chroms offsets px rs Hcis Hck Hg Hs Hx0 Hx0n ranges Hch Hsep Hbal b0.
  pose proof (eff_chunk_ge1 o (zlen px) Hck) as Hc.
  assert (Hnm : length (norm_marg (marg_of n (balance_spans (zlen px) (o_chunk o)) (base_filters o chroms) px) offsets) = n).
  { apply length_norm_marg; [apply length_marg_of | exact Hch]. }
  pose proof (initial_bias_length o n chroms offsets px Hx0 Hnm) as Lb.
  pose proof (initial_bias_nonneg o n chroms offsets px Hx0 Hnm Hx0n) as Nb.
  fold b0 in Lb, Nb.
  unfold balance in Hbal. rewrite Hcis in Hbal. fold b0 ranges in Hbal.
  pose proof (cis_loop_chain_spec o n (eff_chunk o (zlen px)) (base_filters o chroms) px b0 ranges 0 (Z.of_nat n) b0 rs
                Hch ltac:(lia) ltac:(lia) Lb Lb eq_refl Hbal) as HF.
  apply (Forall2_impl_in _ _ _ _ HF). intros [lo hi] r Hin1 Hr.
  cbn [fst snd]. destruct Hr as [full' [bb [s [v [k [Lf [Hloop [Hbias _]]]]]]]]. cbn [fst snd] in Hloop.
  destruct (chain_in_bounds _ _ _ lo hi Hch Hin1) as [B0 [B1 B2]].
  intros i Hi. rewrite Hbias.
  assert (Ls : length (slice b0 lo hi) = Z.to_nat (hi - lo)) by (unfold slice; rewrite firstn_length, skipn_length; lia).
  assert (Hi' : InR (Z.to_nat (hi - lo)) (i - lo)) by (unfold InR; lia).
  destruct (cis_nan_set o chroms n (eff_chunk o (zlen px)) lo hi px Hcis Hc (Hsep lo hi Hin1) Hg Hs B0 B1 B2
              full' (o_tol o) (o_iters o) (slice b0 lo hi) bb s v k (i - lo) Lf Ls (nonneg_slice b0 lo hi B0 Nb) Hloop Hi')
    as [H1 H2].
  split.
  - rewrite H1. rewrite qnth_slice by lia. replace (lo + (i - lo)) with i by lia.
    unfold b0 at 2. rewrite (mask_rules o n chroms offsets px Hx0 Hnm i) by (unfold InR; lia). reflexivity.
  - intros x Hx. now destruct (H2 x Hx).
Qed.
