(** Generic group-by lemmas for the coarsening model (any value type, any aggregation).
    The group-by definitions of Model/Coarsen.v are textually those of Model/Merge.v; the lemmas of the
    sections GroupBy / AggLaws below are ported from Proofs/MergeProofs.v (property C07, builder C) so
    that C08/C09 stay independent of that development. *)
From Cooler Require Import Model.Coarsen Proofs.PixelsProofs Proofs.BinsProofs.
From Coq Require Import Sorted Permutation ZifyBool Arith.

Section GroupBy.
Context {V : Type}.
Notation recd := (key * V)%type.
Notation grp := (key * list V)%type.

Definition gkeys (g : list grp) : list key := map fst g.
Definition GSorted (g : list grp) : Prop := StronglySorted klt (gkeys g).
(** all values stored under key k in a grouped table *)
Fixpoint glook (g : list grp) (k : key) : list V :=
  match g with
  | [] => []
  | (k', vs) :: t => (if keqb k' k then vs else []) ++ glook t k
  end.

Lemma keqb_eq a b : keqb a b = true <-> a = b.
Proof. unfold keqb. destruct a, b; cbn [fst snd]. split; [intros H; f_equal; lia|intros H; inversion H; lia]. Qed.
Lemma keqb_refl a : keqb a a = true. Proof. now apply keqb_eq. Qed.
Lemma keqb_neq a b : keqb a b = false <-> a <> b.
Proof. rewrite <- keqb_eq. destruct (keqb a b); split; congruence. Qed.

Lemma vals_nil k : @vals V [] k = []. Proof. reflexivity. Qed.
Lemma vals_cons (p : recd) l k : vals (p :: l) k = (if keqb (fst p) k then [snd p] else []) ++ vals l k.
Proof. unfold vals. cbn [filter]. destruct (keqb (fst p) k); reflexivity. Qed.
Lemma vals_app (l1 l2 : list recd) k : vals (l1 ++ l2) k = vals l1 k ++ vals l2 k.
Proof. unfold vals. now rewrite filter_app, map_app. Qed.
Lemma vals_notin (l : list recd) k : ~ In k (map fst l) -> vals l k = [].
Proof.
  induction l as [|p l IH]; intros H; [reflexivity|]. rewrite vals_cons, IH.
  - destruct (keqb (fst p) k) eqn:E; [|reflexivity]. apply keqb_eq in E. exfalso. apply H. left. exact E.
  - intro X. apply H. right. exact X.
Qed.
Lemma vals_in (l : list recd) k : In k (map fst l) -> vals l k <> [].
Proof.
  induction l as [|p l IH]; intros H; [contradiction|]. rewrite vals_cons.
  destruct (keqb (fst p) k) eqn:E; [discriminate|]. cbn [app]. apply IH.
  destruct H as [H|H]; [|exact H]. apply keqb_neq in E. contradiction.
Qed.
(** filtering by a predicate on the key keeps or drops all values of a key *)
Lemma vals_filter (P : key -> bool) (l : list recd) k :
  vals (filter (fun p => P (fst p)) l) k = if P k then vals l k else [].
Proof.
  induction l as [|p l IH]; cbn [filter]; [destruct (P k); reflexivity|].
  rewrite vals_cons. destruct (P (fst p)) eqn:Ep.
  - rewrite vals_cons, IH. destruct (keqb (fst p) k) eqn:E.
    + apply keqb_eq in E. subst k. rewrite Ep. reflexivity.
    + destruct (P k); reflexivity.
  - rewrite IH. destruct (keqb (fst p) k) eqn:E; [|reflexivity].
    apply keqb_eq in E. subst k. rewrite Ep. reflexivity.
Qed.
Lemma keys_filter (P : key -> bool) (l : list recd) k :
  In k (map fst (filter (fun p => P (fst p)) l)) <-> In k (map fst l) /\ P k = true.
Proof.
  rewrite !in_map_iff. split.
  - intros (p & E & Hp). apply filter_In in Hp. destruct Hp as (Hp & HP). subst k. split; [exists p; auto|exact HP].
  - intros ((p & E & Hp) & HP). subst k. exists p. split; [reflexivity|]. apply filter_In. auto.
Qed.

Lemma glook_notin g k : ~ In k (gkeys g) -> glook g k = [].
Proof.
  induction g as [|[k' vs] t IH]; intros H; [reflexivity|]. cbn [glook gkeys map fst In] in *.
  destruct (keqb k' k) eqn:E. { apply keqb_eq in E. exfalso. apply H. left. exact E. }
  cbn [app]. apply IH. intro X. apply H. right. exact X.
Qed.
Lemma glook_app g1 g2 k : glook (g1 ++ g2) k = glook g1 k ++ glook g2 k.
Proof. induction g1 as [|[k' vs] t IH]; cbn [app glook]; [reflexivity|]. now rewrite IH, app_assoc. Qed.

Lemma gkeys_gins k v g x : In x (gkeys (gins k v g)) <-> x = k \/ In x (gkeys g).
Proof.
  induction g as [|[k0 vs] t IH]; cbn [gins gkeys map In fst]; [intuition|].
  destruct (kcmp k k0) eqn:E; cbn [gkeys map In fst].
  - apply kcmp_eq in E; subst. intuition.
  - intuition.
  - fold (gkeys (gins k v t)). rewrite IH. fold (gkeys t). intuition.
Qed.
Lemma gsorted_gins k v g : GSorted g -> GSorted (gins k v g).
Proof.
  unfold GSorted. induction g as [|[k0 vs] t IH]; cbn [gins gkeys map fst]; intro H.
  - constructor; constructor.
  - inversion H as [|? ? Ht Hall]; subst. destruct (kcmp k k0) eqn:E; cbn [gkeys map fst].
    + constructor; assumption.
    + apply kcmp_lt in E. constructor; [exact H|]. constructor; [exact E|].
      eapply Forall_impl; [|exact Hall]. intros a Ha. eapply klt_trans; eauto.
    + apply kcmp_gt in E. constructor; [apply IH; exact Ht|].
      apply Forall_forall. intros x Hx. apply (gkeys_gins k v t x) in Hx. destruct Hx as [->|Hx]; [exact E|].
      rewrite Forall_forall in Hall. apply Hall; exact Hx.
Qed.
Lemma gsorted_head_notin k0 vs t : GSorted ((k0, vs) :: t) -> ~ In k0 (gkeys t).
Proof.
  intros H X. inversion H as [|? ? _ Hall]; subst. rewrite Forall_forall in Hall.
  apply (klt_irrefl k0). apply Hall. exact X.
Qed.
Lemma glook_gins k v g q : GSorted g ->
  glook (gins k v g) q = glook g q ++ (if keqb k q then [v] else []).
Proof.
  induction g as [|[k0 vs] t IH]; intros HS; cbn [gins glook].
  - now rewrite app_nil_r.
  - pose proof (gsorted_head_notin _ _ _ HS) as Hn.
    inversion HS as [|? ? HSt Hall]; subst. fold (gkeys t) in *.
    destruct (kcmp k k0) eqn:E; cbn [glook].
    + apply kcmp_eq in E; subst k0. destruct (keqb k q) eqn:Eq.
      * apply keqb_eq in Eq; subst q. rewrite (glook_notin t k Hn). now rewrite !app_nil_r.
      * now rewrite !app_nil_r.
    + apply kcmp_lt in E. destruct (keqb k q) eqn:Eq; [|now rewrite app_nil_r].
      apply keqb_eq in Eq; subst q.
      assert (Hk0 : keqb k0 k = false) by (apply keqb_neq; intros ->; now apply (klt_irrefl k)).
      rewrite Hk0. cbn [app]. rewrite (glook_notin t k); [reflexivity|].
      intro X. rewrite Forall_forall in Hall. apply (klt_irrefl k). eapply klt_trans; [exact E|apply Hall; exact X].
    + rewrite (IH HSt). now rewrite app_assoc.
Qed.

(** g is the sorted grouping of src: strictly sorted keys, same key set, same values per key in order *)
Definition GCanon (src : list recd) (g : list grp) : Prop :=
  GSorted g /\ (forall k, In k (gkeys g) <-> In k (map fst src)) /\ (forall k, glook g k = vals src k).

Lemma fold_gins_facts (l : list recd) : forall acc, GSorted acc ->
  let r := fold_left (fun acc p => gins (fst p) (snd p) acc) l acc in
  GSorted r /\ (forall k, In k (gkeys r) <-> In k (gkeys acc) \/ In k (map fst l))
  /\ (forall k, glook r k = glook acc k ++ vals l k).
Proof.
  induction l as [|[k0 v0] t IH]; intros acc HS; cbn [fold_left].
  - split; [exact HS|]. split; [intros k; cbn; intuition|]. intros k. now rewrite vals_nil, app_nil_r.
  - specialize (IH (gins k0 v0 acc) (gsorted_gins k0 v0 acc HS)). cbn zeta in IH.
    destruct IH as (S' & K' & L'). cbn [fst snd]. split; [exact S'|]. split.
    + intros k. rewrite K', gkeys_gins. cbn [map In fst]. intuition.
    + intros k. rewrite L', (glook_gins _ _ _ _ HS), vals_cons. cbn [fst snd]. now rewrite app_assoc.
Qed.
Theorem group_canon (l : list recd) : GCanon l (group l).
Proof.
  unfold group. destruct (fold_gins_facts l [] ltac:(constructor)) as (S' & K' & L').
  split; [exact S'|]. split.
  - intros k. rewrite K'. cbn. intuition.
  - intros k. rewrite L'. reflexivity.
Qed.

(** two sorted groupings with the same keys whose value lists are related key-wise are related entry-wise *)
Lemma gsorted_rel (R : list V -> list V -> Prop) g1 : forall g2, GSorted g1 -> GSorted g2 ->
  (forall k, In k (gkeys g1) <-> In k (gkeys g2)) ->
  (forall k, In k (gkeys g1) -> R (glook g1 k) (glook g2 k)) ->
  Forall2 (fun e1 e2 => fst e1 = fst e2 /\ R (snd e1) (snd e2)) g1 g2.
Proof.
  induction g1 as [|[k1 v1] t1 IH]; intros g2 S1 S2 HK HL.
  - destruct g2 as [|[k2 v2] t2]; [constructor|]. exfalso. apply (HK k2). left; reflexivity.
  - destruct g2 as [|[k2 v2] t2]. { exfalso. apply (HK k1). left; reflexivity. }
    pose proof (gsorted_head_notin _ _ _ S1) as N1. pose proof (gsorted_head_notin _ _ _ S2) as N2.
    cbn [gkeys map fst] in *. inversion S1 as [|? ? S1t A1]; inversion S2 as [|? ? S2t A2]; subst.
    rewrite Forall_forall in A1, A2.
    assert (k1 = k2) as ->.
    { destruct (proj1 (HK k1) (or_introl eq_refl)) as [E|E]; [symmetry; exact E|].
      destruct (proj2 (HK k2) (or_introl eq_refl)) as [E'|E']; [exact E'|].
      exfalso. apply (klt_irrefl k1). eapply klt_trans; [apply A1; exact E' | apply A2; exact E]. }
    constructor.
    + split; [reflexivity|]. cbn [snd]. specialize (HL k2 (or_introl eq_refl)). cbn [glook] in HL.
      rewrite keqb_refl, (glook_notin t1 k2 N1), (glook_notin t2 k2 N2), !app_nil_r in HL. exact HL.
    + apply IH; auto.
      * intro k. split; intro X.
        -- destruct (proj1 (HK k) (or_intror X)) as [E|E]; [subst; contradiction|exact E].
        -- destruct (proj2 (HK k) (or_intror X)) as [E|E]; [subst; contradiction|exact E].
      * intros k X. specialize (HL k (or_intror X)). cbn [glook] in HL.
        assert (keqb k2 k = false) as Ek by (apply keqb_neq; intros ->; contradiction).
        rewrite Ek in HL. exact HL.
Qed.

Theorem gcanon_unique src g1 g2 : GCanon src g1 -> GCanon src g2 -> g1 = g2.
Proof.
  intros (S1 & K1 & L1) (S2 & K2 & L2).
  assert (F : Forall2 (fun e1 e2 : grp => fst e1 = fst e2 /\ snd e1 = snd e2) g1 g2).
  { apply gsorted_rel; auto.
    - intro k. rewrite K1, K2. reflexivity.
    - intros k _. rewrite L1, L2. reflexivity. }
  clear -F. induction F as [|[a b] [c d] l1 l2 (E1 & E2) _ IH]; [reflexivity|]. cbn in *. subst. reflexivity.
Qed.

(** the source only matters through its key set and its values per key *)
Lemma gcanon_src src src' g :
  (forall k, In k (map fst src) <-> In k (map fst src')) -> (forall k, vals src k = vals src' k) ->
  GCanon src g -> GCanon src' g.
Proof.
  intros HK HV (S1 & K1 & L1). split; [exact S1|]. split.
  - intro k. rewrite K1. apply HK.
  - intro k. rewrite L1. apply HV.
Qed.

Lemma ssorted_klt_app (a b : list key) : StronglySorted klt a -> StronglySorted klt b ->
  (forall x y, In x a -> In y b -> klt x y) -> StronglySorted klt (a ++ b).
Proof.
  induction 1 as [|x a HS IH HF]; intros Sb H; [exact Sb|]. cbn [app]. constructor.
  - apply IH; auto. intros; apply H; [right|]; assumption.
  - apply Forall_app. split; [exact HF|]. apply Forall_forall. intros y Hy. apply H; [left; reflexivity|exact Hy].
Qed.

(** grouping is compositional over a split of the keys into a lower and an upper part *)
Lemma group_app_sorted (l1 l2 : list recd) :
  (forall k1 k2, In k1 (map fst l1) -> In k2 (map fst l2) -> klt k1 k2) ->
  group (l1 ++ l2) = group l1 ++ group l2.
Proof.
  intros Hlt. apply (gcanon_unique (l1 ++ l2)); [apply group_canon|].
  destruct (group_canon l1) as (S1 & K1 & L1). destruct (group_canon l2) as (S2 & K2 & L2).
  split; [|split].
  - unfold GSorted, gkeys in *. rewrite map_app. apply ssorted_klt_app; auto.
    intros x y Hx Hy. apply Hlt; [apply K1; exact Hx|apply K2; exact Hy].
  - intro k. unfold gkeys in *. rewrite !map_app, !in_app_iff, K1, K2. reflexivity.
  - intro k. rewrite glook_app, vals_app, L1, L2. reflexivity.
Qed.

Lemma groupby_agg_app agg (l1 l2 : list recd) :
  (forall k1 k2, In k1 (map fst l1) -> In k2 (map fst l2) -> klt k1 k2) ->
  groupby_agg agg (l1 ++ l2) = groupby_agg agg l1 ++ groupby_agg agg l2.
Proof. intros H. unfold groupby_agg. now rewrite (group_app_sorted _ _ H), map_app. Qed.

Lemma groupby_agg_src agg (l l' : list recd) :
  (forall k, In k (map fst l) <-> In k (map fst l')) -> (forall k, vals l k = vals l' k) ->
  groupby_agg agg l = groupby_agg agg l'.
Proof.
  intros HK HV. unfold groupby_agg. f_equal. apply (gcanon_unique l'); [|apply group_canon].
  eapply gcanon_src; [exact HK|exact HV|apply group_canon].
Qed.

Lemma groupby_agg_keys agg (l : list recd) k : In k (map fst (groupby_agg agg l)) <-> In k (map fst l).
Proof.
  unfold groupby_agg. rewrite map_map. cbn [fst]. destruct (group_canon l) as (_ & K & _). apply K.
Qed.
Lemma groupby_agg_sorted agg (l : list recd) : StronglySorted klt (map fst (groupby_agg agg l)).
Proof. unfold groupby_agg. rewrite map_map. cbn [fst]. destruct (group_canon l) as (S1 & _ & _). exact S1. Qed.
(** the stored value of a key is the aggregate of that key's values over the source, in order *)
Lemma groupby_agg_value agg (l : list recd) k v :
  In (k, v) (groupby_agg agg l) -> v = agg (vals l k).
Proof.
  unfold groupby_agg. rewrite in_map_iff. intros ([k' vs] & E & Hin). cbn [fst snd] in E. inversion E; subst.
  destruct (group_canon l) as (S1 & _ & L1). rewrite <- L1. f_equal.
  clear L1. revert S1 Hin. generalize (group l). induction l0 as [|[k0 vs0] t IH]; intros S1 Hin; [contradiction|].
  pose proof (gsorted_head_notin _ _ _ S1) as N. cbn [glook]. destruct Hin as [E0|Hin].
  - inversion E0; subst. rewrite keqb_refl, (glook_notin t k N), app_nil_r. reflexivity.
  - assert (keqb k0 k = false) as Ek.
    { apply keqb_neq. intros ->. apply N. apply in_map_iff. exists (k, vs). auto. }
    rewrite Ek. cbn [app]. apply IH; [|exact Hin]. inversion S1; assumption.
Qed.
End GroupBy.

(* ------------------------------------------------------------ V = Z, aggregation = sum *)
Lemma gb_sumZ_cons x l : sumZ (x :: l) = x + sumZ l. Proof. reflexivity. Qed.
Lemma look_vals (l : list (key * Z)) k : look l k = sumZ (vals l k).
Proof.
  induction l as [|[k' v] t IH]; [reflexivity|]. rewrite vals_cons. cbn [look fst snd]. rewrite IH.
  destruct (kcmp k k') eqn:E.
  - apply kcmp_eq in E. subst k'. rewrite keqb_refl. cbn [app]. rewrite gb_sumZ_cons. lia.
  - assert (keqb k' k = false) as ->; [|cbn [app]; lia]. apply keqb_neq. intros ->. rewrite kcmp_refl in E. discriminate.
  - assert (keqb k' k = false) as ->; [|cbn [app]; lia]. apply keqb_neq. intros ->. rewrite kcmp_refl in E. discriminate.
Qed.

Lemma look_in_sorted (out : list pixel) k v : SSorted out -> In (k, v) out -> look out k = v.
Proof.
  unfold SSorted. induction out as [|[k0 v0] t IH]; intros HS Hin; [contradiction|].
  cbn [keys map fst] in HS. inversion HS as [|? ? HSt HF]; subst. cbn [look]. destruct Hin as [E|Hin].
  - inversion E; subst. rewrite kcmp_refl, look_notin; [lia|].
    intro X. rewrite Forall_forall in HF. apply (klt_irrefl k). apply HF. exact X.
  - assert (Hk : In k (keys t)) by (apply in_map_iff; exists (k, v); auto).
    rewrite Forall_forall in HF. specialize (HF k Hk).
    destruct (kcmp k k0) eqn:E.
    + apply kcmp_eq in E. subst. exfalso. now apply (klt_irrefl k0).
    + rewrite (IH HSt Hin). lia.
    + rewrite (IH HSt Hin). lia.
Qed.

Lemma key_eq_dec (a b : key) : {a = b} + {a <> b}.
Proof. decide equality; apply Z.eq_dec. Qed.

(** the pandas group-by sum is the canonical aggregate of Model/Pixels.v *)
Theorem groupby_sum_aggregate (l : list pixel) : groupby_agg sumZ l = aggregate l.
Proof.
  apply (canon_unique l); [|apply aggregate_canon].
  pose proof (groupby_agg_sorted sumZ l) as HS.
  split; [exact HS|]. split.
  - intro k. apply groupby_agg_keys.
  - intro k. rewrite (look_vals l k).
    destruct (in_dec key_eq_dec k (keys (groupby_agg sumZ l))) as [Hin|Hnin].
    + unfold keys in Hin. apply in_map_iff in Hin. destruct Hin as ([k' v] & E & Hin). cbn [fst] in E. subst k'.
      rewrite (look_in_sorted _ k v HS Hin). apply groupby_agg_value in Hin. exact Hin.
    + rewrite look_notin by exact Hnin. rewrite vals_notin; [reflexivity|].
      intro X. apply Hnin. apply groupby_agg_keys. exact X.
Qed.


Section AggLaws.
Context {V : Type}.
Notation recd := (key * V)%type.
Variable agg : list V -> V.

(** equal key sets and key-wise equal aggregates give equal group-by results *)
Lemma groupby_agg_rel (l l' : list recd) :
  (forall k, In k (map fst l) <-> In k (map fst l')) ->
  (forall k, In k (map fst l) -> agg (vals l k) = agg (vals l' k)) ->
  groupby_agg agg l = groupby_agg agg l'.
Proof.
  intros HK HV. unfold groupby_agg.
  destruct (group_canon l) as (S1 & K1 & L1). destruct (group_canon l') as (S2 & K2 & L2).
  assert (F : Forall2 (fun e1 e2 : key * list V => fst e1 = fst e2 /\ agg (snd e1) = agg (snd e2)) (group l) (group l')).
  { apply (gsorted_rel (fun vs vs' => agg vs = agg vs')); auto.
    - intro k. rewrite K1, K2. apply HK.
    - intros k Hk. rewrite L1, L2. apply HV. now apply K1. }
  clear S1 K1 L1 S2 K2 L2. induction F as [|[a b] [c d] t1 t2 (E1 & E2) _ IH]; [reflexivity|]. cbn [map fst snd] in *. now rewrite E1, E2, IH.
Qed.

Lemma vals_perm (l l' : list recd) k : Permutation l l' -> Permutation (vals l k) (vals l' k).
Proof.
  induction 1 as [|p l l' _ IH|p q l|l l' l'' _ IH1 _ IH2].
  - reflexivity.
  - rewrite !vals_cons. now apply Permutation_app_head.
  - rewrite !vals_cons, !app_assoc. apply Permutation_app_tail. apply Permutation_app_comm.
  - eapply Permutation_trans; eauto.
Qed.

Hypothesis agg_perm_inv : forall vs vs', Permutation vs vs' -> agg vs = agg vs'.

(** order independence for any permutation-invariant aggregation *)
Lemma groupby_agg_perm (l l' : list recd) : Permutation l l' -> groupby_agg agg l = groupby_agg agg l'.
Proof.
  intros HP. apply groupby_agg_rel.
  - intro k. split; apply Permutation_in; [|symmetry]; now apply Permutation_map.
  - intros k _. apply agg_perm_inv. now apply vals_perm.
Qed.

Lemma vals_sorted_unique (out : list recd) k v : StronglySorted klt (map fst out) -> In (k, v) out -> vals out k = [v].
Proof.
  induction out as [|[k0 v0] t IH]; intros HS Hin; [contradiction|]. cbn [map fst] in HS. inversion HS as [|? ? HSt HF]; subst.
  rewrite vals_cons. cbn [fst snd]. rewrite Forall_forall in HF. destruct Hin as [E|Hin].
  - inversion E; subst. rewrite keqb_refl, vals_notin; [reflexivity|]. intro X. apply (klt_irrefl k). now apply HF.
  - assert (Hk : In k (map fst t)) by (apply in_map_iff; exists (k, v); auto).
    assert (keqb k0 k = false) as -> by (apply keqb_neq; intros ->; apply (klt_irrefl k); now apply HF).
    cbn [app]. now apply IH.
Qed.
Lemma vals_groupby (G : list recd) k :
  vals (groupby_agg agg G) k = match vals G k with [] => [] | _ => [agg (vals G k)] end.
Proof.
  destruct (in_dec key_eq_dec k (map fst G)) as [Hin|Hnin].
  - assert (Hin' : In k (map fst (groupby_agg agg G))) by now apply groupby_agg_keys.
    apply in_map_iff in Hin'. destruct Hin' as ([k' v] & E & Hp). cbn [fst] in E. subst k'.
    rewrite (vals_sorted_unique _ k v (groupby_agg_sorted agg G) Hp).
    apply groupby_agg_value in Hp. subst v. pose proof (vals_in G k Hin). destruct (vals G k); [contradiction|reflexivity].
  - rewrite (vals_notin G k Hnin). apply vals_notin. intro X. apply Hnin. now apply (groupby_agg_keys agg G k).
Qed.

(** compatibility with a two-level merge: aggregating the per-group aggregates of the non-empty groups
    equals aggregating everything *)
Hypothesis agg_decomp : forall xss : list (list V),
  agg (concat (map (fun xs => match xs with [] => [] | _ => [agg xs] end) xss)) = agg (concat xss).

Lemma vals_concat (Gs : list (list recd)) k : vals (concat Gs) k = concat (map (fun G => vals G k) Gs).
Proof. induction Gs as [|G t IH]; [reflexivity|]. cbn [concat map]. now rewrite vals_app, IH. Qed.

Lemma groupby_agg_two_level (Gs : list (list recd)) :
  groupby_agg agg (concat (map (groupby_agg agg) Gs)) = groupby_agg agg (concat Gs).
Proof.
  apply groupby_agg_rel.
  - intro k. rewrite !concat_map, !in_concat. split.
    + intros (ks & H1 & H2). rewrite map_map in H1. apply in_map_iff in H1. destruct H1 as (G & <- & HG).
      apply groupby_agg_keys in H2. exists (map fst G). split; [now apply in_map|exact H2].
    + intros (ks & H1 & H2). apply in_map_iff in H1. destruct H1 as (G & <- & HG).
      exists (map fst (groupby_agg agg G)). split; [rewrite map_map; apply in_map_iff; exists G; auto|now apply groupby_agg_keys].
  - intros k _. rewrite !vals_concat, map_map.
    rewrite (map_ext _ (fun G => match vals G k with [] => [] | _ => [agg (vals G k)] end)) by (intro; apply vals_groupby).
    rewrite <- (map_map (fun G => vals G k) (fun xs => match xs with [] => [] | _ => [agg xs] end)). apply agg_decomp.
Qed.
End AggLaws.
