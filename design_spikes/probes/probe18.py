import warnings; warnings.filterwarnings("ignore")
import numpy as np, pandas as pd, cooler
from cooler.util import parse_region_string, parse_region, parse_cooler_uri
def tryp(f,*a):
    try: return f(*a)
    except Exception as e: return type(e).__name__
for s in ["chr1","chr1:","chr1:10","chr1:10-","chr1:10-20","chr1:1,000-2,000"," chr1 : 10 - 20 ","chr-1.x y:5-7","chr1:-5-10","chr1:abc-10","chr1:10-5","chr1:10-20xyz","chr1:1.5k-2k","chr1:1.5-2","chr1:1.-2",":1-2","chr1:10_20","chr1:10-20:zz","chr1:10-20 30","chr1:1e3-2e3","chr1:10--20","chr1:1kb-2KB","chr1:0.5M-1G","chr1:1,0,0-200","chr1:,5-7","chr1:5k-","chr1:5 k-6k","chr1:１０-20"]:
    print(repr(s),"->",tryp(parse_region_string,s))
cs={"chr1":1000}
for r in ["chr1:0-1000","chr1:0-1001","chrZ:1-2","chr1",("chr1",None,None),("chr1",5,None),("chr1",-1,5),("chr1",7,3)]:
    print(r,"->",tryp(parse_region,r,cs))
for u in ["a.cool","a.cool::x","a.cool::/x","a.cool::/x/y","a.cool::x/y","a.cool::","a::b::c","a.cool::/"]:
    print(u,"->",tryp(parse_cooler_uri,u))
