import warnings; warnings.filterwarnings("ignore")
import patch_gb
import numpy as np, pandas as pd, cooler, h5py, itertools
from cooler.create import ArrayLoader
from cooler.util import rlencode
rng=np.random.default_rng(5)
def validate(uri):
    c=cooler.Cooler(uri)
    with c.open("r") as g:
        b1=g["pixels/bin1_id"][:]; b2=g["pixels/bin2_id"][:]; cnt=g["pixels/count"][:]
        off=g["indexes/bin1_offset"][:]; coff=g["indexes/chrom_offset"][:]; ch=g["bins/chrom"][:]
        a=dict(g.attrs)
    n=a["nbins"]; errs=[]
    if not (len(b1)==len(b2)==len(cnt)==a["nnz"]): errs.append("len")
    keys=list(zip(b1.tolist(),b2.tolist()))
    if keys!=sorted(set(keys)): errs.append("sorted")
    if len(b1) and (b1.min()<0 or max(b1.max(),b2.max())>=n): errs.append("range")
    if a["storage-mode"]=="symmetric-upper" and (b1>b2).any(): errs.append("triu")
    exp=np.searchsorted(b1,np.arange(n+1),"left")
    if not np.array_equal(off,exp): errs.append("off")
    if not np.array_equal(coff,np.searchsorted(ch,np.arange(a["nchroms"]+1),"left")): errs.append("coff")
    if a["sum"]!=cnt.sum(): errs.append("sum")
    if len(ch)!=n: errs.append("nbins")
    return errs
bad=0;tot=0
for t in range(80):
    nchr=int(rng.integers(1,4)); cs=pd.Series({f"c{k}":int(rng.integers(1,45)) for k in range(nchr)})
    bins=cooler.binnify(cs,10); n=len(bins); symm=bool(t%2)
    dens=[0,0.3,1.0][t%3]
    M=(rng.random((n,n))<dens)*rng.integers(1,9,(n,n)); St=np.triu(M) if symm else M
    i,j=np.nonzero(St); px=pd.DataFrame({"bin1_id":i,"bin2_id":j,"count":St[i,j]})
    F=St+np.triu(St,1).T if symm else St
    # random chunking incl empty
    cuts=sorted(rng.integers(0,len(px)+1,rng.integers(0,5)).tolist()); edges=[0]+cuts+[len(px)]
    forms={"frame":px.sample(frac=1,random_state=1),"dict":{k:v.values for k,v in px.items()},"chunks":(px.iloc[a:b] for a,b in zip(edges[:-1],edges[1:]))}
    for name,inp in forms.items():
        tot+=1
        cooler.create_cooler("r.cool",bins,inp,symmetric_upper=symm,ordered=True)
        c=cooler.Cooler("r.cool"); e=validate("r.cool")
        got=c.pixels()[:]
        if e or not np.array_equal(got.values,px.values) or not np.array_equal(c.matrix(balance=False)[:,:],F): bad+=1; print("RT",name,e,symm,n)
    if symm:
        for cz in (1,2,n+1):
            tot+=1
            cooler.create_cooler("r.cool",bins,ArrayLoader(bins,F,cz),ordered=True)
            c=cooler.Cooler("r.cool"); e=validate("r.cool")
            if e or not np.array_equal(c.pixels()[:].values,px.values): bad+=1; print("AL",cz,e)
print("C01/C02 tot",tot,"bad",bad)
# rlencode chunked
bad=0
for t in range(3000):
    a=rng.integers(0,3,rng.integers(0,12)); 
    for cz in range(1,9):
        r1=rlencode(a,cz); r0=rlencode(a)
        if not all(np.array_equal(x,y) for x,y in zip(r1,r0)): bad+=1
print("rlencode chunk mismatches",bad)
