(** Bridge between the regenerated text of util.partition / the pinned span statements of _balance.py
    (coq/Gen/Translated.v, tools/py2v.py) and the balancing model. *)
From Cooler Require Import Model.Balance Gen.Translated.

Lemma gen_partition : forall start stop step, Gen.partition start stop step = partition start stop step.
Proof. intros. unfold Gen.partition, partition, Gen.py_range, arange, cdiv. reflexivity. Qed.

Lemma gen_balance_pins : Gen.balance_span_pins = true.
Proof. reflexivity. Qed.

(** the element-wise masks of the balancing filters as translated from _balance.py (per pixel) are the conditions of the
    model's filters *)
Lemma gen_zero_diags d w :
  f_zero_diags d w = if Gen.bal_diag_mask (b1 w) (b2 w) d then (fst w, 0%Q) else w.
Proof. reflexivity. Qed.
Lemma gen_zero_trans chroms w :
  f_zero_trans chroms w = if Gen.bal_trans_mask (chrom_of chroms (b1 w)) (chrom_of chroms (b2 w)) then (fst w, 0%Q) else w.
Proof. unfold f_zero_trans, Gen.bal_trans_mask. destruct (chrom_of chroms (b1 w) =? chrom_of chroms (b2 w))%Z; reflexivity. Qed.
Lemma gen_zero_cis chroms w :
  f_zero_cis chroms w = if Gen.bal_cis_mask (chrom_of chroms (b1 w)) (chrom_of chroms (b2 w)) then (fst w, 0%Q) else w.
Proof. reflexivity. Qed.
Lemma gen_balance_filter_pins : Gen.balance_filter_pins = true.
Proof. reflexivity. Qed.
