(** Proofs for C04: a genomic range maps to exactly the bins that overlap it. *)
From Cooler Require Import Model.Extent Proofs.BinsProofs.
From Coq Require Import ZifyBool Sorted.
Ltac Zify.zify_post_hook ::= Z.to_euclidean_division_equations.

(* ------------------------------------------------------------ searchsorted on sorted lists *)
Lemma ss_left_bounds l x : 0 <= searchsorted_left l x <= zlen l.
Proof.
  unfold zlen. induction l as [|y l IH]; cbn [searchsorted_left length]; [lia|].
  destruct (y <? x); lia.
Qed.

Lemma ss_right_bounds l x : 0 <= searchsorted_right l x <= zlen l.
Proof.
  unfold zlen. induction l as [|y l IH]; cbn [searchsorted_right length]; [lia|].
  destruct (y <=? x); lia.
Qed.

(** position k lies left of the insertion point iff the element there is smaller *)
Lemma ss_left_nth l x : StronglySorted Z.le l ->
  forall k y, nth_error l k = Some y -> (Z.of_nat k < searchsorted_left l x <-> y < x).
Proof.
  induction 1 as [|y0 l HS IH Hall]; intros k y Hk; [destruct k; discriminate|].
  cbn [searchsorted_left]. pose proof (ss_left_bounds l x) as Hb.
  destruct k as [|k]; cbn in Hk.
  - injection Hk as ->. destruct (y <? x) eqn:E; lia.
  - destruct (y0 <? x) eqn:E.
    + specialize (IH k y Hk). lia.
    + apply nth_error_In in Hk. rewrite Forall_forall in Hall. specialize (Hall y Hk). lia.
Qed.

Lemma ss_right_nth l x : StronglySorted Z.le l ->
  forall k y, nth_error l k = Some y -> (Z.of_nat k < searchsorted_right l x <-> y <= x).
Proof.
  induction 1 as [|y0 l HS IH Hall]; intros k y Hk; [destruct k; discriminate|].
  cbn [searchsorted_right]. pose proof (ss_right_bounds l x) as Hb.
  destruct k as [|k]; cbn in Hk.
  - injection Hk as ->. destruct (y <=? x) eqn:E; lia.
  - destruct (y0 <=? x) eqn:E.
    + specialize (IH k y Hk). lia.
    + apply nth_error_In in Hk. rewrite Forall_forall in Hall. specialize (Hall y Hk). lia.
Qed.

Lemma ss_right_le_left l s e : s < e -> searchsorted_right l s <= searchsorted_left l e.
Proof.
  intros Hse. induction l as [|y l IH]; cbn; [lia|].
  pose proof (ss_left_bounds l e). destruct (y <=? s) eqn:E1, (y <? e) eqn:E2; lia.
Qed.

Lemma ss_left_le_right l s : searchsorted_left l s <= searchsorted_right l s.
Proof.
  induction l as [|y l IH]; cbn; [lia|].
  pose proof (ss_right_bounds l s). destruct (y <=? s) eqn:E1, (y <? s) eqn:E2; lia.
Qed.

(** on a strictly increasing list at most one element equals s *)
Lemma ss_right_le_left_succ l s : StronglySorted Z.lt l ->
  searchsorted_right l s <= searchsorted_left l s + 1.
Proof.
  induction 1 as [|y l HS IH Hall]; cbn; [lia|].
  destruct (y <=? s) eqn:E1, (y <? s) eqn:E2; try lia.
  (* y = s : every later element is > s *)
  assert (y = s) by lia. subst y.
  destruct l as [|z l]; cbn; [lia|].
  inversion Hall as [|? ? Hz _]; subst. destruct (z <=? s) eqn:E3; lia.
Qed.

(* ------------------------------------------------------------ structure of a tiled block *)
Lemma tiled_start_ge c s0 blk : Tiled c s0 blk -> forall x, In x blk -> s0 <= bstart x.
Proof.
  induction 1 as [|s e l Hse HT IH]; intros x Hin; [easy|].
  destruct Hin as [<-|Hin]; [cbn; lia|]. specialize (IH x Hin). lia.
Qed.

Lemma tiled_start_gt c s0 e0 blk : s0 < e0 -> Tiled c e0 blk -> Forall (fun y => s0 < y) (map bstart blk).
Proof.
  intros Hlt HT. apply Forall_forall. intros y Hy. apply in_map_iff in Hy as [x [<- Hx]].
  pose proof (tiled_start_ge _ _ _ HT x Hx). lia.
Qed.

Lemma tiled_starts_ssorted c s0 blk : Tiled c s0 blk -> StronglySorted Z.lt (map bstart blk).
Proof.
  induction 1 as [|s e l Hse HT IH]; cbn; constructor; auto.
  eapply tiled_start_gt; eauto.
Qed.

Lemma ssorted_lt_le l : StronglySorted Z.lt l -> StronglySorted Z.le l.
Proof.
  induction 1 as [|y l HS IH Hall]; constructor; auto.
  eapply Forall_impl; [|exact Hall]. cbn. intros; lia.
Qed.

Lemma tiled_starts_sorted c s0 blk : Tiled c s0 blk -> StronglySorted Z.le (map bstart blk).
Proof. intros HT. eapply ssorted_lt_le, tiled_starts_ssorted; eauto. Qed.

(** consecutive bins touch *)
Lemma tiled_adjacent c s0 blk : Tiled c s0 blk ->
  forall k x x', nth_error blk k = Some x -> nth_error blk (S k) = Some x' -> bstart x' = bend x.
Proof.
  induction 1 as [|s e l Hse HT IH]; intros k x x' Hk Hk'; [destruct k; discriminate|].
  destruct k as [|k]; cbn in Hk, Hk'.
  - injection Hk as <-. inversion HT as [|s1 e1 l1 Hse1 HT1]; subst; cbn in Hk'; [discriminate|].
    injection Hk' as <-. reflexivity.
  - eapply IH; eauto.
Qed.

Lemma tiled_first c s0 blk x : Tiled c s0 blk -> nth_error blk 0 = Some x -> bstart x = s0.
Proof. intros HT Hx. inversion HT; subst; cbn in Hx; [discriminate|]. injection Hx as <-. reflexivity. Qed.

Lemma tiled_nonempty_width c s0 blk x : Tiled c s0 blk -> In x blk -> bstart x < bend x.
Proof. intros HT Hin. pose proof (tiled_width_pos _ _ _ _ HT Hin). unfold bwidth in *. lia. Qed.

Lemma chrom_len_end blk : chrom_len blk = chrom_end blk.
Proof. reflexivity. Qed.

Lemma nth_error_last {A} (l : list A) k x d : nth_error l k = Some x -> S k = length l -> last l d = x.
Proof.
  revert k. induction l as [|y l IH]; intros k Hk Hl; [destruct k; discriminate|].
  destruct k as [|k]; cbn in *.
  - injection Hk as ->. destruct l; [reflexivity|discriminate].
  - destruct l as [|z l]; [destruct k; discriminate|]. apply (IH k); auto.
Qed.

Lemma last_bin_end blk k x : nth_error blk k = Some x -> S k = length blk -> bend x = chrom_len blk.
Proof. intros Hk Hl. unfold chrom_len. now rewrite (nth_error_last _ _ _ (0,0,0) Hk Hl). Qed.

Lemma tiled_end_le_len c s0 blk : Tiled c s0 blk -> forall x, In x blk -> bend x <= chrom_len blk.
Proof.
  induction 1 as [|s e l Hse HT IH]; intros x Hin; [easy|].
  destruct l as [|y l].
  - destruct Hin as [<-|[]]. unfold chrom_len; cbn. lia.
  - change (chrom_len ((c, s, e) :: y :: l)) with (chrom_len (y :: l)).
    destruct Hin as [<-|Hin]; [|now apply IH].
    assert (Hy : bend y <= chrom_len (y :: l)) by (apply IH; now left).
    inversion HT; subst. unfold bend in *; cbn [snd fst] in *. lia.
Qed.

(** the two insertion points of the variable-width path, read on the bins of the block *)
Lemma tiled_select c s0 blk : Tiled c s0 blk ->
  forall s e k x, nth_error blk k = Some x ->
  (Z.of_nat k < searchsorted_left (map bstart blk) e <-> bstart x < e) /\
  (searchsorted_right (map bstart blk) s - 1 <= Z.of_nat k <-> s < bend x \/ S k = length blk).
Proof.
  intros HT s e k x Hk. pose proof (tiled_starts_sorted _ _ _ HT) as HS. split.
  - apply (ss_left_nth _ e HS k). now rewrite nth_error_map, Hk.
  - destruct (nth_error blk (S k)) as [x'|] eqn:Hk'.
    + pose proof (tiled_adjacent _ _ _ HT _ _ _ Hk Hk') as Hadj.
      pose proof (ss_right_nth _ s HS (S k) (bstart x') ltac:(now rewrite nth_error_map, Hk')) as Hr.
      assert (S k < length blk)%nat by (apply nth_error_Some; congruence). lia.
    + apply nth_error_None in Hk'. assert (k < length blk)%nat by (apply nth_error_Some; congruence).
      pose proof (ss_right_bounds (map bstart blk) s) as Hb. unfold zlen in Hb. rewrite map_length in Hb. lia.
Qed.

(* ------------------------------------------------------------ positions in the concatenated table *)
Lemma zlen_app {A} (l r : list A) : zlen (l ++ r) = zlen l + zlen r.
Proof. unfold zlen. rewrite app_length. lia. Qed.

Lemma zlen_nonneg {A} (l : list A) : 0 <= zlen l.
Proof. unfold zlen. lia. Qed.

Lemma firstn_S_nth {A} (l : list A) i x : nth_error l i = Some x -> firstn (S i) l = firstn i l ++ [x].
Proof.
  revert i. induction l as [|y l IH]; intros i Hi; [destruct i; discriminate|].
  destruct i as [|i]; cbn in *.
  - injection Hi as ->. reflexivity.
  - f_equal. now apply IH.
Qed.

Lemma chrom_offset_S blocks i blk : nth_error blocks i = Some blk ->
  chrom_offset blocks (S i) = chrom_offset blocks i + zlen blk.
Proof.
  intros Hi. unfold chrom_offset. rewrite (firstn_S_nth _ _ _ Hi), concat_app, zlen_app. cbn. now rewrite app_nil_r.
Qed.

Lemma chrom_offset_0 blocks : chrom_offset blocks 0 = 0.
Proof. reflexivity. Qed.

Lemma chrom_offset_nonneg blocks i : 0 <= chrom_offset blocks i.
Proof. apply zlen_nonneg. Qed.

Lemma concat_split blocks i blk : nth_error blocks i = Some blk ->
  concat blocks = concat (firstn i blocks) ++ blk ++ concat (skipn (S i) blocks).
Proof.
  revert i. induction blocks as [|b0 blocks IH]; intros i Hi; [destruct i; discriminate|].
  destruct i as [|i]; cbn in *.
  - injection Hi as ->. reflexivity.
  - rewrite <- app_assoc. f_equal. now apply IH.
Qed.

(** the rows of chromosome i sit at positions chrom_offset i + j *)
Lemma nth_error_table blocks i blk j : nth_error blocks i = Some blk -> (j < length blk)%nat ->
  nth_error (table blocks) (Z.to_nat (chrom_offset blocks i) + j) = nth_error blk j.
Proof.
  intros Hi Hj. unfold table. rewrite (concat_split _ _ _ Hi). unfold chrom_offset, zlen.
  rewrite Nat2Z.id. rewrite nth_error_app2 by lia.
  replace (length (concat (firstn i blocks)) + j - length (concat (firstn i blocks)))%nat with j by lia.
  now rewrite nth_error_app1.
Qed.

(** every row of the table is row j of exactly the block its position falls into *)
Lemma table_position blocks k x : nth_error (table blocks) k = Some x ->
  exists i blk j, nth_error blocks i = Some blk /\ nth_error blk j = Some x /\
                  Z.of_nat k = chrom_offset blocks i + Z.of_nat j.
Proof.
  unfold table. revert k. induction blocks as [|b0 blocks IH]; intros k Hk; [destruct k; discriminate|].
  cbn [concat] in Hk. destruct (Nat.ltb_spec k (length b0)) as [Hlt|Hge].
  - rewrite nth_error_app1 in Hk by exact Hlt. exists 0%nat, b0, k. repeat split; auto.
  - rewrite nth_error_app2 in Hk by exact Hge.
    destruct (IH _ Hk) as (i & blk & j & Hi & Hj & Hpos).
    exists (S i), blk, j. repeat split; auto.
    unfold chrom_offset in *. cbn [firstn concat]. rewrite zlen_app. unfold zlen in *. lia.
Qed.

Lemma slice_chrom blocks i blk : nth_error blocks i = Some blk ->
  slice (table blocks) (chrom_offset blocks i) (chrom_offset blocks (S i)) = blk.
Proof.
  intros Hi. rewrite (chrom_offset_S _ _ _ Hi). unfold slice, table.
  rewrite (concat_split _ _ _ Hi). unfold chrom_offset, zlen.
  replace (Z.of_nat (length (concat (firstn i blocks))) + Z.of_nat (length blk) - Z.of_nat (length (concat (firstn i blocks))))
    with (Z.of_nat (length blk)) by lia.
  rewrite !Nat2Z.id.
  rewrite skipn_app, skipn_all, Nat.sub_diag. cbn [app skipn].
  rewrite firstn_app, firstn_all, Nat.sub_diag. cbn. now rewrite app_nil_r.
Qed.

(* ------------------------------------------------------------ variable-width path *)
Section VarPath.
  Variable blocks : list (list bin).
  Variable i : nat.
  Variable blk : list bin.
  Hypothesis HV : ValidBlocks blocks.
  Hypothesis Hi : nth_error blocks i = Some blk.

  Let off := chrom_offset blocks i.
  Let starts := map bstart blk.

  Lemma var_unfold s e :
    region_to_extent_var blocks i s e =
    (off + (searchsorted_right starts s - 1), off + searchsorted_left starts e).
  Proof. unfold region_to_extent_var. now rewrite (slice_chrom _ _ _ Hi). Qed.

  Lemma blk_tiled : blk <> [] /\ Tiled (Z.of_nat i) 0 blk.
  Proof. exact (HV i blk Hi). Qed.

  Lemma ss_right_pos s : 0 <= s -> 1 <= searchsorted_right starts s.
  Proof.
    intros Hs. destruct blk_tiled as [Hne HT]. unfold starts.
    inversion HT as [|s1 e1 l1 Hse1 HT1]; subst; [congruence|].
    cbn. pose proof (ss_right_bounds (map bstart l1) s). destruct (0 <=? s) eqn:E; lia.
  Qed.

  (** row k of the table belongs to chromosome i iff it lies in the block's span *)
  Lemma chrom_rows k x : nth_error (table blocks) k = Some x ->
    (bchrom x = Z.of_nat i <-> off <= Z.of_nat k < off + zlen blk).
  Proof.
    intros Hk. destruct (table_position _ _ _ Hk) as (i' & blk' & j & Hi' & Hj & Hpos).
    destruct (HV i' blk' Hi') as [_ HT'].
    pose proof (tiled_chrom _ _ _ _ HT' (nth_error_In _ _ Hj)) as Hc.
    assert (Hjl : (j < length blk')%nat) by (apply nth_error_Some; congruence).
    split.
    - intros Hx. assert (i' = i) by lia. subst i'. assert (blk' = blk) by congruence. subst blk'.
      unfold off, zlen. lia.
    - intros Hr. rewrite Hc. f_equal.
      destruct (Nat.lt_trichotomy i' i) as [Hlt|[->|Hgt]]; [exfalso| reflexivity |exfalso].
      + (* block i' lies entirely before off *)
        assert (Hle : chrom_offset blocks (S i') <= off).
        { unfold off, chrom_offset, zlen. apply inj_le.
          replace (firstn i blocks) with (firstn (S i') (firstn i blocks)  ++ skipn (S i') (firstn i blocks))
            by apply firstn_skipn.
          rewrite firstn_firstn, Nat.min_l by lia. rewrite concat_app, app_length. lia. }
        rewrite (chrom_offset_S _ _ _ Hi') in Hle. unfold zlen in *. lia.
      + assert (Hle : chrom_offset blocks (S i) <= chrom_offset blocks i').
        { unfold chrom_offset, zlen. apply inj_le.
          replace (firstn i' blocks) with (firstn (S i) (firstn i' blocks)  ++ skipn (S i) (firstn i' blocks))
            by apply firstn_skipn.
          rewrite firstn_firstn, Nat.min_l by lia. rewrite concat_app, app_length. lia. }
        rewrite (chrom_offset_S _ _ _ Hi) in Hle. unfold off, zlen in *. lia.
  Qed.

  Theorem extent_var_overlap s e : 0 <= s < e -> e <= chrom_len blk ->
    let '(lo, hi) := region_to_extent_var blocks i s e in
    (forall k : nat, lo <= Z.of_nat k < hi <->
       exists x, nth_error (table blocks) k = Some x /\ bchrom x = Z.of_nat i /\ bstart x < e /\ s < bend x)
    /\ off <= lo < hi /\ hi <= chrom_offset blocks (S i).
  Proof.
    intros Hse HeL. rewrite var_unfold. destruct blk_tiled as [Hne HT].
    pose proof (ss_right_pos s ltac:(lia)) as Hr1.
    pose proof (ss_right_le_left starts s e ltac:(lia)) as Hrl.
    pose proof (ss_left_bounds starts e) as Hlb. unfold zlen, starts in Hlb. rewrite map_length in Hlb. fold starts in Hlb.
    rewrite (chrom_offset_S _ _ _ Hi). fold off. unfold zlen.
    split; [|lia].
    intros k. split.
    - intros Hk. set (j := Z.to_nat (Z.of_nat k - off)).
      assert (Hj : (j < length blk)%nat) by lia.
      destruct (nth_error blk j) as [x|] eqn:Hx; [|apply nth_error_None in Hx; lia].
      pose proof (nth_error_table _ _ _ j Hi Hj) as Ht. rewrite Hx in Ht.
      pose proof (chrom_offset_nonneg blocks i). fold off in H.
      replace (Z.to_nat (chrom_offset blocks i) + j)%nat with k in Ht by (unfold off in *; lia).
      exists x. split; [exact Ht|].
      destruct (tiled_select _ _ _ HT s e j x Hx) as [Ha Hb]. fold starts in Ha, Hb.
      split; [apply (tiled_chrom _ _ _ _ HT), (nth_error_In _ _ Hx)|].
      split; [apply Ha; lia|].
      assert (Hb' : s < bend x \/ S j = length blk) by (apply Hb; lia).
      destruct Hb' as [|Hlast]; [assumption|]. rewrite (last_bin_end _ _ _ Hx Hlast). lia.
    - intros (x & Hk & Hc & Hxe & Hsx).
      pose proof (proj1 (chrom_rows _ _ Hk) Hc) as Hr.
      set (j := Z.to_nat (Z.of_nat k - off)).
      assert (Hj : (j < length blk)%nat) by (unfold zlen in Hr; lia).
      pose proof (nth_error_table _ _ _ j Hi Hj) as Ht.
      pose proof (chrom_offset_nonneg blocks i). fold off in H.
      replace (Z.to_nat (chrom_offset blocks i) + j)%nat with k in Ht by (unfold off in *; lia).
      rewrite Hk in Ht. symmetry in Ht.
      destruct (tiled_select _ _ _ HT s e j x Ht) as [Ha Hb]. fold starts in Ha, Hb.
      apply Ha in Hxe. assert (searchsorted_right starts s - 1 <= Z.of_nat j) by (apply Hb; now left). lia.
  Qed.

  (** empty range: at most one bin, and it contains the position (closed at its end) *)
  Theorem extent_var_empty s : 0 <= s <= chrom_len blk ->
    let '(lo, hi) := region_to_extent_var blocks i s s in
    lo <= hi <= lo + 1 /\ off <= lo /\ hi <= chrom_offset blocks (S i) /\
    (forall k : nat, lo <= Z.of_nat k < hi ->
       exists x, nth_error (table blocks) k = Some x /\ bchrom x = Z.of_nat i /\ bstart x < s <= bend x).
  Proof.
    intros Hs. rewrite var_unfold. destruct blk_tiled as [Hne HT].
    pose proof (ss_right_pos s ltac:(lia)) as Hr1.
    pose proof (ss_left_le_right starts s) as Hlr.
    pose proof (ss_right_le_left_succ starts s (tiled_starts_ssorted _ _ _ HT)) as Hrl.
    pose proof (ss_left_bounds starts s) as Hlb. unfold zlen, starts in Hlb. rewrite map_length in Hlb. fold starts in Hlb.
    rewrite (chrom_offset_S _ _ _ Hi). fold off. unfold zlen.
    repeat split; try lia.
    intros k Hk. set (j := Z.to_nat (Z.of_nat k - off)).
    assert (Hj : (j < length blk)%nat) by lia.
    destruct (nth_error blk j) as [x|] eqn:Hx; [|apply nth_error_None in Hx; lia].
    pose proof (nth_error_table _ _ _ j Hi Hj) as Ht. rewrite Hx in Ht.
    pose proof (chrom_offset_nonneg blocks i). fold off in H.
    replace (Z.to_nat (chrom_offset blocks i) + j)%nat with k in Ht by (unfold off in *; lia).
    exists x. split; [exact Ht|].
    destruct (tiled_select _ _ _ HT s s j x Hx) as [Ha Hb]. fold starts in Ha, Hb.
    split; [apply (tiled_chrom _ _ _ _ HT), (nth_error_In _ _ Hx)|].
    split; [apply Ha; lia|].
    assert (Hb' : s < bend x \/ S j = length blk) by (apply Hb; lia).
    destruct Hb' as [|Hlast]; [lia|]. rewrite (last_bin_end _ _ _ Hx Hlast). lia.
  Qed.
End VarPath.
