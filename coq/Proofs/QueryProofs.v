(** Proofs about the 2D range-query model (C03): CSR validity as a row decomposition, the reader
    as a filter, counting characterisation of every task, admissible spans, the fill-lower theorem. *)
From Cooler Require Import Model.Query Proofs.PixelsProofs.
From Coq Require Import Sorted Permutation ZifyBool.
Ltac Zify.zify_post_hook ::= Z.to_euclidean_division_equations.

(** * generic list plumbing *)
Lemma zlen_app {A} (a b : list A) : zlen (a ++ b) = zlen a + zlen b.
Proof. unfold zlen. rewrite app_length. lia. Qed.
Lemma zlen_nonneg {A} (a : list A) : 0 <= zlen a. Proof. unfold zlen. lia. Qed.
Lemma zlen_nil {A} (a : list A) : zlen a = 0 -> a = [].
Proof. unfold zlen. destruct a; cbn; [reflexivity|lia]. Qed.

Lemma zrange_S lo n : zrange lo (S n) = lo :: zrange (lo + 1) n.
Proof.
  unfold zrange. cbn [seq map]. f_equal; [lia|]. rewrite <- seq_shift, map_map. apply map_ext. intros; lia.
Qed.
Lemma zrange_app lo a b : zrange lo (a + b) = zrange lo a ++ zrange (lo + Z.of_nat a) b.
Proof.
  revert lo; induction a as [|a IH]; intro lo; cbn [Nat.add].
  - cbn. f_equal. lia.
  - rewrite !zrange_S, IH. cbn [app]. replace (lo + 1 + Z.of_nat a) with (lo + Z.of_nat (S a)) by lia. reflexivity.
Qed.
Lemma in_zrange lo n x : In x (zrange lo n) <-> lo <= x < lo + Z.of_nat n.
Proof.
  unfold zrange. rewrite in_map_iff. setoid_rewrite in_seq. split.
  - intros [k [<- Hk]]. lia.
  - intro H. exists (Z.to_nat (x - lo)). lia.
Qed.

Lemma firstn_plus {A} (l : list A) a b : firstn (a + b) l = firstn a l ++ firstn b (skipn a l).
Proof.
  revert l; induction a as [|a IH]; intro l; cbn [Nat.add]; [reflexivity|].
  destruct l as [|x l]; cbn [firstn skipn app]; [now rewrite firstn_nil|]. now rewrite IH.
Qed.
Lemma skipn_add {A} (l : list A) a b : skipn a (skipn b l) = skipn (b + a) l.
Proof.
  revert l; induction b as [|b IH]; intro l; cbn [Nat.add]; [reflexivity|].
  destruct l as [|x l]; cbn [skipn]; [now rewrite skipn_nil|]. apply IH.
Qed.
Lemma slice_0 {A} (l : list A) a : slice l a a = [].
Proof. unfold slice. replace (a - a) with 0 by lia. reflexivity. Qed.
Lemma slice_split {A} (l : list A) a b c : 0 <= a <= b -> b <= c -> slice l a c = slice l a b ++ slice l b c.
Proof.
  intros Hab Hbc. unfold slice.
  replace (Z.to_nat (c - a)) with (Z.to_nat (b - a) + Z.to_nat (c - b))%nat by lia.
  rewrite firstn_plus. f_equal. rewrite skipn_add. do 2 f_equal. lia.
Qed.

(** * CSR validity as a decomposition of the pixel table into rows *)

Fixpoint labelled_from (k : Z) (rows : list (list ipixel)) : Prop :=
  match rows with
  | [] => True
  | r :: t => Forall (fun x => row (snd x) = k) r /\ labelled_from (k + 1) t
  end.

(** the pixel table is the concatenation of n rows, row i holds exactly the records with bin1 = i,
    and bin1_offset is the prefix-sum index of the row lengths (what index_pixels computes) *)
Definition ValidCSR (n : Z) (epx : list ipixel) (off : list Z) : Prop :=
  exists rows, zlen rows = n /\ epx = concat rows /\ off = psums 0 (map zlen rows) /\ labelled_from 0 rows.

Definition seg (rows : list (list ipixel)) (a b : Z) : list ipixel := concat (slice rows a b).

Lemma psums_nth (rows : list (list ipixel)) : forall acc i, (i <= length rows)%nat ->
  nth i (psums acc (map zlen rows)) 0 = acc + zlen (concat (firstn i rows)).
Proof.
  induction rows as [|r t IH]; intros acc i Hi.
  - assert (i = 0%nat) by (cbn in Hi; lia). subst. cbn. unfold zlen; cbn; lia.
  - destruct i as [|i].
    + cbn. unfold zlen; cbn; lia.
    + cbn [map psums nth firstn concat]. rewrite IH by (cbn in Hi; lia). rewrite zlen_app. lia.
Qed.

Lemma labelled_app k a b : labelled_from k (a ++ b) <-> labelled_from k a /\ labelled_from (k + zlen a) b.
Proof.
  revert k; induction a as [|r t IH]; intro k; cbn [app labelled_from].
  - unfold zlen at 1; cbn [length]. replace (k + Z.of_nat 0) with k by lia. tauto.
  - rewrite IH. replace (k + zlen (r :: t)) with (k + 1 + zlen t) by (unfold zlen; cbn [length]; lia). tauto.
Qed.
Lemma labelled_in k rows r : labelled_from k rows -> In r (concat rows) -> k <= row (snd r) < k + zlen rows.
Proof.
  revert k; induction rows as [|r0 t IH]; intros k H Hin; cbn in Hin; [contradiction|].
  destruct H as [H1 H2]. apply in_app_or in Hin. unfold zlen in *; cbn [length]. destruct Hin as [Hin|Hin].
  - rewrite Forall_forall in H1. apply H1 in Hin. lia.
  - specialize (IH _ H2 Hin). lia.
Qed.
Lemma labelled_nth k rows i : labelled_from k rows -> (i < length rows)%nat ->
  Forall (fun x => row (snd x) = k + Z.of_nat i) (nth i rows []).
Proof.
  revert k i; induction rows as [|r0 t IH]; intros k i H Hi; [cbn in Hi; lia|].
  destruct H as [H1 H2]. destruct i as [|i]; cbn [nth].
  - replace (k + Z.of_nat 0) with k by lia. exact H1.
  - replace (k + Z.of_nat (S i)) with (k + 1 + Z.of_nat i) by lia. apply IH; [exact H2|cbn in Hi; lia].
Qed.

Lemma rows_split3 {A} (rows : list A) a b : (a <= b)%nat ->
  rows = firstn a rows ++ firstn (b - a) (skipn a rows) ++ skipn b rows.
Proof.
  intro H. rewrite <- (firstn_skipn a rows) at 1. f_equal.
  rewrite <- (firstn_skipn (b - a) (skipn a rows)) at 1. f_equal. rewrite skipn_add. f_equal. lia.
Qed.

Lemma skipn_nth_cons {A} (l : list A) i d : (i < length l)%nat -> skipn i l = nth i l d :: skipn (S i) l.
Proof.
  revert i; induction l as [|r t IH]; intros i Hi; [cbn in Hi; lia|].
  destruct i; cbn [skipn nth]; [reflexivity|]. apply IH. cbn in Hi; lia.
Qed.
Lemma firstn_S_nth {A} (l : list A) i d : (i < length l)%nat -> firstn (S i) l = firstn i l ++ [nth i l d].
Proof.
  revert i; induction l as [|r t IH]; intros i Hi; [cbn in Hi; lia|].
  destruct i; cbn [firstn nth app]; [reflexivity|]. f_equal. apply IH. cbn in Hi; lia.
Qed.
Lemma slice_concat_row (rows : list (list ipixel)) i : (i < length rows)%nat ->
  slice (concat rows) (zlen (concat (firstn i rows))) (zlen (concat (firstn (S i) rows))) = nth i rows [].
Proof.
  intro Hi.
  assert (Hs := skipn_nth_cons rows i [] Hi). assert (HS := firstn_S_nth rows i [] Hi).
  rewrite HS, concat_app, zlen_app. cbn [concat]. rewrite app_nil_r.
  rewrite <- (firstn_skipn i rows) at 1. rewrite concat_app, Hs. cbn [concat].
  set (A := concat (firstn i rows)). set (R := nth i rows []). set (Zs := concat (skipn (S i) rows)).
  unfold slice. replace (Z.to_nat (zlen A)) with (length A) by (unfold zlen; lia).
  replace (Z.to_nat (zlen A + zlen R - zlen A)) with (length R) by (unfold zlen; lia).
  rewrite skipn_app, skipn_all, Nat.sub_diag. cbn [skipn app].
  rewrite firstn_app, firstn_all, Nat.sub_diag. cbn [firstn]. now rewrite app_nil_r.
Qed.

Section Valid.
Variables (n : Z) (rows : list (list ipixel)).
Hypothesis Hn : zlen rows = n.
Hypothesis Hlab : labelled_from 0 rows.
Let epx := concat rows.
Let off := psums 0 (map zlen rows).

Lemma off_nth i : 0 <= i <= n -> znth off i 0 = zlen (concat (firstn (Z.to_nat i) rows)).
Proof.
  intro Hi. unfold znth, off. rewrite psums_nth; [lia|]. unfold zlen in Hn. lia.
Qed.

Lemma read_row_valid j0 j1 i : 0 <= i < n ->
  read_row epx off j0 j1 i = filter (colmask j0 j1) (nth (Z.to_nat i) rows []).
Proof.
  intro Hi. unfold read_row. rewrite !off_nth by lia.
  replace (Z.to_nat (i + 1)) with (S (Z.to_nat i)) by lia.
  unfold epx. rewrite slice_concat_row by (unfold zlen in Hn; lia).
  assert (HL := labelled_nth 0 rows (Z.to_nat i) Hlab ltac:(unfold zlen in Hn; lia)).
  rewrite <- (map_id (filter _ _)) at 2. apply map_ext_in. intros [ix [[r c] v]] Hin.
  apply filter_In in Hin. destruct Hin as [Hin _]. rewrite Forall_forall in HL. apply HL in Hin.
  unfold row, col, val in *; cbn [fst snd] in *. repeat f_equal. lia.
Qed.

Lemma base_valid j0 j1 : forall m s0, 0 <= s0 -> s0 + Z.of_nat m <= n ->
  flat_map (read_row epx off j0 j1) (zrange s0 m) = filter (colmask j0 j1) (concat (firstn m (skipn (Z.to_nat s0) rows))).
Proof.
  induction m as [|m IH]; intros s0 H0 H1; [reflexivity|].
  rewrite zrange_S. cbn [flat_map]. rewrite read_row_valid by lia. rewrite IH by lia.
  assert (Hs : skipn (Z.to_nat s0) rows = nth (Z.to_nat s0) rows [] :: skipn (Z.to_nat (s0 + 1)) rows).
  { replace (Z.to_nat (s0 + 1)) with (S (Z.to_nat s0)) by lia. apply skipn_nth_cons. unfold zlen in Hn; lia. }
  rewrite Hs. cbn [firstn concat]. now rewrite filter_app.
Qed.

Lemma base_seg j0 j1 s0 s1 : 0 <= s0 -> s0 <= s1 -> s1 <= n ->
  flat_map (read_row epx off j0 j1) (zrange s0 (Z.to_nat (s1 - s0))) = filter (colmask j0 j1) (seg rows s0 s1).
Proof.
  intros. rewrite base_valid by lia. reflexivity.
Qed.
End Valid.

(** * counting occurrences of a pixel in a record list *)
Definition pixel_eq_dec : forall a b : pixel, {a = b} + {a <> b}.
Proof. decide equality; [apply Z.eq_dec|]. decide equality; apply Z.eq_dec. Defined.
Definition cnt (l : list ipixel) (x : pixel) : nat := count_occ pixel_eq_dec (map snd l) x.

Lemma flip_flip p : flip (flip p) = p.
Proof. destruct p as [[a b] c]; reflexivity. Qed.
Lemma cnt_nil x : cnt [] x = 0%nat. Proof. reflexivity. Qed.
Lemma cnt_app a b x : cnt (a ++ b) x = (cnt a x + cnt b x)%nat.
Proof. unfold cnt. now rewrite map_app, count_occ_app. Qed.
Lemma cnt_filter g f l x : (forall r, g r = f (snd r)) ->
  cnt (filter g l) x = if f x then cnt l x else 0%nat.
Proof.
  intro Hg. unfold cnt. induction l as [|a t IH]; cbn [filter map count_occ]; [now destruct (f x)|].
  rewrite Hg. destruct (f (snd a)) eqn:E; cbn [map count_occ].
  - destruct (pixel_eq_dec (snd a) x) as [Heq|Hne]; rewrite IH.
    + rewrite <- Heq, E. reflexivity.
    + reflexivity.
  - destruct (pixel_eq_dec (snd a) x) as [Heq|Hne]; rewrite IH.
    + rewrite <- Heq, E. reflexivity.
    + reflexivity.
Qed.
Lemma cnt_iflip l x : cnt (map iflip l) x = cnt l (flip x).
Proof.
  unfold cnt. induction l as [|a t IH]; cbn [map count_occ]; [reflexivity|].
  unfold iflip at 1; cbn [snd].
  destruct (pixel_eq_dec (flip (snd a)) x) as [E|E], (pixel_eq_dec (snd a) (flip x)) as [E'|E']; rewrite IH; try reflexivity.
  - exfalso. apply E'. rewrite <- E. now rewrite flip_flip.
  - exfalso. apply E. rewrite E'. now rewrite flip_flip.
Qed.
Lemma cnt_notin l x : (forall r, In r l -> snd r <> x) -> cnt l x = 0%nat.
Proof.
  intro H. unfold cnt. apply count_occ_not_In. intro Hin. apply in_map_iff in Hin. destruct Hin as [r [E Hr]]. exact (H r Hr E).
Qed.
Lemma cnt_zero_range k rs x : labelled_from k rs -> ~ (k <= row x < k + zlen rs) -> cnt (concat rs) x = 0%nat.
Proof.
  intros HL Hr. apply cnt_notin. intros r Hin E. apply (labelled_in k rs r HL) in Hin. subst x. lia.
Qed.

Lemma seg_split rows a b c : 0 <= a <= b -> b <= c -> seg rows a c = seg rows a b ++ seg rows b c.
Proof. intros. unfold seg. rewrite (slice_split rows a b c) by lia. apply concat_app. Qed.
Lemma seg_empty rows a : seg rows a a = [].
Proof. unfold seg. now rewrite slice_0. Qed.

Lemma cnt_seg n rows a b x : zlen rows = n -> labelled_from 0 rows -> 0 <= a -> a <= b -> b <= n ->
  cnt (seg rows a b) x = if (a <=? row x) && (row x <? b) then cnt (concat rows) x else 0%nat.
Proof.
  intros Hn HL Ha Hab Hb.
  assert (Hsp := rows_split3 rows (Z.to_nat a) (Z.to_nat b) ltac:(lia)).
  set (A := firstn (Z.to_nat a) rows) in *. set (M := firstn (Z.to_nat b - Z.to_nat a) (skipn (Z.to_nat a) rows)) in *.
  set (T := skipn (Z.to_nat b) rows) in *.
  assert (HsegM : seg rows a b = concat M).
  { unfold seg, slice, M. do 2 f_equal. lia. }
  assert (HlenA : zlen A = a). { unfold zlen, A in *. rewrite firstn_length. lia. }
  assert (HlenM : zlen M = b - a). { unfold zlen, M in *. rewrite firstn_length, skipn_length. lia. }
  assert (HlenT : zlen T = n - b). { unfold zlen, T in *. rewrite skipn_length. lia. }
  rewrite Hsp in HL. apply labelled_app in HL. destruct HL as [HLA HL]. apply labelled_app in HL. destruct HL as [HLM HLT].
  rewrite HsegM. rewrite Hsp at 1. rewrite !concat_app, !cnt_app.
  destruct ((a <=? row x) && (row x <? b)) eqn:E.
  - rewrite (cnt_zero_range 0 A x HLA) by lia. rewrite (cnt_zero_range _ T x HLT) by lia. lia.
  - apply (cnt_zero_range _ M x HLM). lia.
Qed.

(** * the reader on a valid table *)
Definition cmP (j0 j1 : Z) (p : pixel) : bool := (j0 <=? col p) && (col p <? j1).
Definition tdP (i1 : Z) (p : pixel) : bool := negb (row p =? col p) && (col p <? i1).
Definition in_window (bb : bbox) (p : pixel) : bool :=
  let '(i0, i1, j0, j1) := bb in (i0 <=? row p) && (row p <? i1) && (j0 <=? col p) && (col p <? j1).

Fixpoint chain (lo : Z) (es : list Z) : Prop :=
  match es with [] => True | e :: t => lo <= e /\ chain e t end.
Lemma last_cons_default (e : Z) t d : last (e :: t) d = last t e.
Proof.
  revert e d; induction t as [|e' t IH]; intros e d; [reflexivity|].
  change (last (e :: e' :: t) d) with (last (e' :: t) d). rewrite !IH. reflexivity.
Qed.
Lemma chain_last lo es : chain lo es -> lo <= last es lo.
Proof.
  revert lo; induction es as [|e t IH]; intros lo H; [cbn; lia|].
  destruct H as [H1 H2]. rewrite last_cons_default. specialize (IH e H2). lia.
Qed.

Section Valid2.
Variables (n : Z) (rows : list (list ipixel)).
Hypothesis Hn : zlen rows = n.
Hypothesis Hlab : labelled_from 0 rows.
Let epx := concat rows.
Let off := psums 0 (map zlen rows).

Lemma reader_valid i0 i1 j0 j1 s0 s1 reflect : 0 <= s0 -> s0 <= s1 -> s1 <= n ->
  csr_reader epx off (i0, i1, j0, j1) (s0, s1) reflect =
  let B := filter (colmask j0 j1) (seg rows s0 s1) in
  if reflect then B ++ map iflip (filter (to_duplex i1) B) else B.
Proof. intros. unfold csr_reader. unfold epx, off. rewrite (base_seg n rows Hn Hlab) by lia. reflexivity. Qed.

(** what one reflecting task contributes, as a function of the records of its row span *)
Definition rd_cnt (i1 j0 j1 : Z) (sg : pixel -> nat) (x : pixel) : nat :=
  ((if cmP j0 j1 x then sg x else 0) +
   (if tdP i1 (flip x) then (if cmP j0 j1 (flip x) then sg (flip x) else 0) else 0))%nat.

Lemma cnt_reader i0 i1 j0 j1 s0 s1 x : 0 <= s0 -> s0 <= s1 -> s1 <= n ->
  cnt (csr_reader epx off (i0, i1, j0, j1) (s0, s1) true) x = rd_cnt i1 j0 j1 (cnt (seg rows s0 s1)) x.
Proof.
  intros. rewrite reader_valid by lia. cbv zeta. rewrite cnt_app, cnt_iflip.
  rewrite (cnt_filter (to_duplex i1) (tdP i1)) by reflexivity.
  rewrite !(cnt_filter (colmask j0 j1) (cmP j0 j1)) by reflexivity. reflexivity.
Qed.

Lemma rd_cnt_add i1 j0 j1 f g x :
  rd_cnt i1 j0 j1 (fun y => (f y + g y)%nat) x = (rd_cnt i1 j0 j1 f x + rd_cnt i1 j0 j1 g x)%nat.
Proof. unfold rd_cnt. destruct (cmP j0 j1 x), (tdP i1 (flip x)), (cmP j0 j1 (flip x)); lia. Qed.
Lemma rd_cnt_ext i1 j0 j1 f g x : (forall y, f y = g y) -> rd_cnt i1 j0 j1 f x = rd_cnt i1 j0 j1 g x.
Proof. intro H. unfold rd_cnt. now rewrite !H. Qed.

Lemma cnt_seg_add a b c x : 0 <= a <= b -> b <= c ->
  cnt (seg rows a c) x = (cnt (seg rows a b) x + cnt (seg rows b c) x)%nat.
Proof. intros. rewrite (seg_split rows a b c) by lia. apply cnt_app. Qed.

(** consecutive spans add up to the span from the first to the last edge *)
Lemma cnt_pairs bb x : forall es e0, 0 <= e0 -> chain e0 es -> last es e0 <= n ->
  cnt (flat_map (fun sp => csr_reader epx off bb sp true) (pairs_of_edges (e0 :: es))) x =
  cnt (csr_reader epx off bb (e0, last es e0) true) x.
Proof.
  destruct bb as [[[i0 i1] j0] j1].
  induction es as [|e1 es IH]; intros e0 H0 Hc Hl.
  - cbn [last] in Hl |- *. change (pairs_of_edges [e0]) with (@nil span). cbn [flat_map]. rewrite cnt_nil, cnt_reader by lia.
    unfold rd_cnt. rewrite seg_empty. cbn. destruct (cmP j0 j1 x), (tdP i1 (flip x)), (cmP j0 j1 (flip x)); reflexivity.
  - destruct Hc as [Hc1 Hc2].
    assert (Hl' : last es e1 <= n) by (rewrite last_cons_default in Hl; exact Hl).
    assert (Hcl := chain_last e1 es Hc2).
    replace (pairs_of_edges (e0 :: e1 :: es)) with ((e0, e1) :: pairs_of_edges (e1 :: es)) by reflexivity.
    cbn [flat_map]. rewrite cnt_app, (IH e1 ltac:(lia) Hc2 Hl'). rewrite last_cons_default.
    rewrite !cnt_reader by lia.
    rewrite (rd_cnt_ext _ _ _ (cnt (seg rows e0 (last es e1))) (fun y => (cnt (seg rows e0 e1) y + cnt (seg rows e1 (last es e1)) y)%nat)).
    + now rewrite rd_cnt_add.
    + intro y. apply cnt_seg_add; lia.
Qed.

(** rows between two positions with equal offsets are empty *)
Lemma seg_empty_off a b : 0 <= a -> a <= b -> b <= n -> znth off a 0 = znth off b 0 -> seg rows a b = [].
Proof.
  intros Ha Hab Hb Hoff. unfold off in Hoff. rewrite !(off_nth n rows Hn) in Hoff by lia.
  assert (E : concat (firstn (Z.to_nat b) rows) = concat (firstn (Z.to_nat a) rows) ++ seg rows a b).
  { unfold seg, slice. rewrite <- concat_app. f_equal.
    replace (Z.to_nat b) with (Z.to_nat a + Z.to_nat (b - a))%nat at 1 by lia. apply firstn_plus. }
  rewrite E, zlen_app in Hoff. apply zlen_nil. lia.
Qed.

(** spans as produced from an admissible edge list for the rows [x0, x1) *)
Definition AdmissibleSpans (x0 x1 : Z) (sps : list span) : Prop :=
  exists es, sps = pairs_of_edges (x0 :: es) /\ chain x0 es /\ last es x0 <= x1 /\ znth off (last es x0) 0 = znth off x1 0.

Lemma cnt_task bb sps x : let '(x0, x1, y0, y1) := bb in
  0 <= x0 -> x0 <= x1 -> x1 <= n -> AdmissibleSpans x0 x1 sps ->
  cnt (flat_map (fun sp => csr_reader epx off bb sp true) sps) x = rd_cnt x1 y0 y1 (cnt (seg rows x0 x1)) x.
Proof.
  destruct bb as [[[x0 x1] y0] y1]. intros H0 H01 H1 [es [-> [Hc [Hl Ho]]]].
  assert (Hcl := chain_last x0 es Hc). rewrite (cnt_pairs _ x es x0 H0 Hc ltac:(lia)). rewrite cnt_reader by lia.
  apply rd_cnt_ext. intro y. rewrite (cnt_seg_add x0 (last es x0) x1) by lia.
  rewrite (seg_empty_off (last es x0) x1 ltac:(lia) Hl H1 Ho). rewrite cnt_nil. lia.
Qed.
End Valid2.

Lemma map_flat_map {A B C} (f : B -> C) (g : A -> list B) l : map f (flat_map g l) = flat_map (fun a => map f (g a)) l.
Proof. induction l as [|a t IH]; cbn [flat_map map]; [reflexivity|]. now rewrite map_app, IH. Qed.

Section Main.
Variables (n : Z) (rows : list (list ipixel)).
Hypothesis Hn : zlen rows = n.
Hypothesis Hlab : labelled_from 0 rows.
Let epx := concat rows.
Let off := psums 0 (map zlen rows).
Variable spans : bbox -> list span.
(** what get_spans guarantees (proved below): admissible edges, or nothing when the column range is empty *)
Hypothesis Hspans : forall x0 x1 y0 y1, 0 <= x0 -> x0 <= x1 -> x1 <= n ->
  AdmissibleSpans rows x0 x1 (spans (x0, x1, y0, y1)) \/ (y1 <= y0 /\ spans (x0, x1, y0, y1) = []).

Lemma cnt_run_task tr x0 x1 y0 y1 x : 0 <= x0 -> x0 <= x1 -> x1 <= n ->
  cnt (run_task epx off spans (tr, (x0, x1, y0, y1))) x =
  rd_cnt x1 y0 y1 (fun y => if (x0 <=? row y) && (row y <? x1) then cnt epx y else 0%nat) (if tr then flip x else x).
Proof.
  intros H0 H01 H1. unfold run_task. cbn [fst snd].
  assert (E : forall z, cnt (flat_map (fun sp => csr_reader epx off (x0, x1, y0, y1) sp true) (spans (x0, x1, y0, y1))) z =
              rd_cnt x1 y0 y1 (fun y => if (x0 <=? row y) && (row y <? x1) then cnt epx y else 0%nat) z).
  { intro z. destruct (Hspans x0 x1 y0 y1 H0 H01 H1) as [Ha|[Hy ->]].
    - pose proof (cnt_task n rows Hn Hlab (x0, x1, y0, y1) _ z H0 H01 H1 Ha) as Ht. cbv beta iota in Ht.
      unfold epx, off. rewrite Ht. apply rd_cnt_ext. intro y. apply (cnt_seg n); assumption || lia.
    - cbn [flat_map]. rewrite cnt_nil. unfold rd_cnt, cmP.
      destruct ((y0 <=? col z) && (col z <? y1)) eqn:E1; [lia|].
      destruct ((y0 <=? col (flip z)) && (col (flip z) <? y1)) eqn:E2; [lia|]. now destruct (tdP x1 (flip z)). }
  destruct tr.
  - rewrite <- E. rewrite <- cnt_iflip. f_equal. now rewrite map_flat_map.
  - apply E.
Qed.

Hypothesis Hupper : forall r, In r epx -> row (snd r) <= col (snd r).
Lemma cnt_lower_zero y : col y < row y -> cnt epx y = 0%nat.
Proof. intro H. apply cnt_notin. intros r Hr E. apply Hupper in Hr. subst y. lia. Qed.

(** the fill-lower engine returns every element of the symmetric completion inside the window exactly as often as it is
    stored (so exactly once for a duplicate-free table), and nothing else *)
Theorem fill_lower_cnt i0 i1 j0 j1 : 0 <= i0 -> i0 <= i1 -> i1 <= n -> 0 <= j0 -> j0 <= j1 -> j1 <= n ->
  exists out, fill_lower_query epx off spans (i0, i1, j0, j1) = Some out /\
    forall x, cnt out x =
      ((if in_window (i0, i1, j0, j1) x then cnt epx x else 0) +
       (if in_window (i0, i1, j0, j1) x && negb (row x =? col x)%Z then cnt epx (flip x) else 0))%nat.
Proof.
  intros Hi0 Hi Hi1 Hj0 Hj Hj1.
  unfold fill_lower_query, fill_lower_plan.
  destruct (i1 >? j1) eqn:Eut; cbv iota beta; unfold comes_before, contains; cbn [negb andb];
  repeat match goal with |- context [if ?b then _ else _] => destruct b eqn:? end;
  repeat match goal with H : context [if ?b then _ else _] |- _ => destruct b eqn:? end;
  try (exfalso; lia);
  (eexists; split; [reflexivity|]); intro x; cbn [flat_map]; rewrite ?app_nil_r, ?cnt_app, !cnt_run_task by lia;
  unfold rd_cnt, cmP, tdP, in_window; rewrite ?flip_flip;
  pose proof (cnt_lower_zero x) as Hz1; pose proof (cnt_lower_zero (flip x)) as Hz2;
  destruct x as [[a b] v]; unfold flip, row, col, val in *; cbn [fst snd] in *;
  (destruct (Z.lt_trichotomy a b) as [Hab|[Hab|Hab]];
   [ rewrite (Hz2 ltac:(lia)) | subst b | rewrite (Hz1 ltac:(lia)) ]);
  clear Hz1 Hz2; unfold epx, pixel, key in *;
  repeat match goal with |- context [cnt (concat rows) ?p] => let c := fresh "c" in remember (cnt (concat rows) p) as c eqn:Hc; clear Hc end;
  repeat match goal with |- context [if ?c then _ else _] => destruct c eqn:? end; lia.
Qed.
End Main.
