"""C16 — text export agrees with the API; re-importing it reproduces the cooler.

Correspondence (real CLI in-process through click's CliRunner, model = coq/Model/Dump.v):
  A. `cooler dump -t pixels` x flag combinations x regions x chunk sizes on small coolers
     (symmetric / square, fixed / variable bins, weight column with NaN, empty rows) vs `dump_obs`;
  B. `cooler load -f coo|bg2` of dumps and of hand-written files with remapped --field columns vs
     `load_coo` / `load_bg2` (schema assembled by the model from the raw --field strings);
  C. `cooler cload pairs` on pairs files written with every permutation of the positional columns
     (+ extra --field columns, gaps) vs `cload_pairs`;
  D. `parse_field_param` incl. malformed arguments; E. dump -t bins/chroms and zoomify -r spellings (oracle only);
  F. history pass: the same paths / URIs / BINS strings reused in one process while the files behind them are rewritten
     (module-level caches, stale objects), every output judged for the data stored NOW;
  H. zoomify -r spellings on bases whose ceil(L/256) sits on / next to a progression step (levels vs Model/Zoom.v expand_spec
     and vs a python reading of the documented rule);
  I. shapes of BED bin tables: uniform interior bins with a shorter / LONGER last bin on the first / a middle / the last chromosome,
     single-bin chromosomes, one deviating interior bin; records in every part of every last bin; cload pairs and load -f bg2;
  J. option interplay: {symmetric, -N} x --input-copy-status {unique, duplex, default} x {coo, bg2} x chunk sizes on full-matrix, square
     and upper-triangle dumps, each cell judged by its documented meaning (copy status is ignored for square storage);
  K. float counts (fractional values) re-imported through coo, bg2 and pairs with one chunk, several chunks <= --max-merge and more chunks
     than --max-merge (two-pass merge): values and dtype exact;
  G. names pass: chromosome names that look like numbers / floats / NA tokens / booleans through every text round trip
     (known finding D37: a name equal to a pandas NA token is refused by load / cload pairs, exit 1).
Property oracle (never calls the code under test for its expected value): a plain-python reading of the
option documentation applied to the *input data* the cooler was created from, text read back with the csv
module; plus the library queries (Cooler.pixels / matrix(as_pixels=True) / annotate) as the "corresponding
library query" of the property text.
"""
from __future__ import annotations

import csv
import io
import itertools
import json
import os
import signal
from collections import Counter
from fractions import Fraction

import numpy as np
import pandas as pd

import coqio as C
from gen_bins import names_for, blocks_from_widths

PROP = "C16"
RULE = ("dump: per cooler (12 quick / 30 thorough small coolers: symmetric+square x fixed/variable bins x with/without weight(NaN) x "
        "empty / empty-row variants) every combination of the 6 boolean flags (-f, -b, --join, --one-based-ids, --one-based-starts, -H) on "
        "two coolers x 5 region choices, seeded random combinations (regions on and off bin boundaries, -r2, -c, --annotate, --na-rep, "
        "--float-format, -k 1..3) on the others; load: dump|load round trips (coo/bg2, zero/one-based, symmetric/square/duplex, "
        "chunksize 1..n) and hand-written files with count/extra fields at arbitrary (non-ascending) column numbers; cload pairs: all 24 "
        "permutations of -c1 -p1 -c2 -p2 over the first four columns plus random injective layouts over 5-8 columns with gaps and 1-2 extra "
        "--field columns; audit block: 16 structured (row, column) region pairs (identical, up/downstream, overlapping, nested, trans, single bins, "
        "chromosome ends; four region spellings) x 6 annotating option sets (--join / -b / --annotate / one-based / -c / --na-rep) x -f x -k on two coolers, "
        "float-count cooler with extra bin and pixel columns inside an HDF5 group, and one case per remaining load / cload option and input form "
        "(comment lines, gz, stdin, short flags, duplex with diagonal and mirrored records, positions inside bins, agg=max/min, --append, --metadata ...); "
        "history pass (54 steps in ONE process): one .cool path rewritten between dumps with 6 other coolers (same nbins / variable bins / same chromsizes "
        "and nbins / other names / other content) in two orders, 4 coolers as groups of one file dumped alternately under two URI spellings and then swapped, "
        "load -f bg2 and cload pairs with one BINS string (bed and chromsizes:binsize) whose file is rewritten in between, two orders; "
        "names pass: 14 chromosome-name alphabets (all digits, leading zeros, 1/01/001, digit+letter, float-like, scientific, pandas NA tokens, bool-like, "
        "inf/hex/sign, dots-dashes-underscores, 180-character names, all mixed), each as the only kind in its files: dump / dump --join / -t bins / -t chroms, "
        "dump|load coo and bg2, hand-written bg2 and pairs files, BINS as BED file and as chromsizes:binsize, stored bin and chromosome tables compared as strings in order; "
        "zoomify -r: 8 (thorough 11) spellings (default, B, n, kB, kN, 2kB, 2kn, explicit and mixed lists, spaces, case) on 5 boundary + 4 control tiny bases (binsize 1, 2, 5) and up to 7 spellings incl. 4DN on 2 "
        "binsize-1000 bases, genome lengths chosen so that ceil(L/256) is exactly a step of the binary / nice progression, one below, one above, or L a multiple of 256; "
        "bin-table shapes: 13 BED tables (uniform, shorter / longer last bin on first / middle / last chromosome and everywhere, single-bin chromosomes incl. one longer "
        "than the nominal width, one deviating interior bin, fully variable) x cload pairs and load -f bg2 with records at the first base, one and two nominal widths "
        "further and the last base of every last bin and at every bin edge; non-trivial = at least one data row and at least one non-default option / a non-identity column layout; distinct by input hash")
TRUSTED = ["pandas to_csv / read_csv tokenisation are observed through the CLI, not modelled (the model works on tokenised records and on cells)",
           "click option parsing is observed, not modelled"]
ASSUMPTIONS = ["region -> bin range (region_to_extent) is given to the model as the pair of bin ranges computed by an independent overlap rule (owned by C04)",
               "bin assignment of a position (sanitize_records) is modelled by its C05 specification: the bin of that chromosome containing the position",
               "chunked engines: the model is evaluated with the single-span chunking; chunk-size independence is a theorem (C16_direct_chunks_independent) and is exercised with -k 1..3"]
RESIDUE = ["number formatting by pandas to_csv (float_format % value, str(int)) is observed, not modelled; balanced/weight floats are compared at printed precision (exact text of `fmt % float`)",
           "np.dtype(value) validity and python int() spellings other than optionally signed decimals are outside parse_field_param's model",
           "the fill-lower engine's chunk order for chunksize < nnz is compared as a multiset",
           "`cooler cload pairs --comment-char` is accepted but not passed to read_csv (a comment line after the first record fails with or without it); "
           "observed, outside the claim (decision of the lead): pairs files are generated with leading '#' header lines only",
           "options audited but only observed for their pixel-level neutrality (not modelled): load/cload --mergebuf --max-merge --temp-dir --no-delete-temp "
           "--storage-options --metadata --assembly --append, gz/stdin input, dump -o; float counts / extra bin columns / a cooler inside an HDF5 group are oracle-only"]
ALLOW_AXIOMS = ()

IMPORTS = "From Cooler Require Import Model.Dump."
D18 = "dump-header-missing-when-no-pixel-in-row-range"
NA_NAME = "na-token-chromosome-name-refused"
# pandas' default NA tokens (pandas._libs.parsers.STR_NA_VALUES)
NA_TOKENS = {"", "#N/A", "#N/A N/A", "#NA", "-1.#IND", "-1.#QNAN", "-NaN", "-nan", "1.#IND", "1.#QNAN", "<NA>", "N/A", "NA", "NULL", "NaN", "None", "n/a", "nan", "null"}


# ============================================================ small coolers
class Cool:
    """the input data a test cooler is created from (the oracle reads only this)"""

    def __init__(self, widths, px, weights, symm, tag="", fcount=False, extra=None, names=None):
        self.fcount = fcount                                          # float `count` column (values are dyadic Fractions)
        self.extra = extra or {}                                      # extra float bin columns: name -> [Fraction]
        self.widths = widths
        self.blocks = blocks_from_widths(widths)
        self.bins = [b for blk in self.blocks for b in blk]          # (cid, start, end)
        self.names = list(names) if names else names_for(len(widths))
        self.custom_names = bool(names)
        self.px = sorted(px)                                          # storage order
        self.weights = weights                                        # list of Fraction|None, or None
        self.symm = symm
        self.tag = tag

    def spec(self):
        fr = lambda v: [v.numerator, v.denominator]
        return {"widths": self.widths, "px": [[a, b, fr(v) if self.fcount else v] for a, b, v in self.px], "symm": self.symm,
                "fcount": self.fcount, "extra": {k: [fr(x) for x in v] for k, v in self.extra.items()},
                "names": self.names if self.custom_names else None,
                "weights": None if self.weights is None else [None if w is None else [w.numerator, w.denominator] for w in self.weights]}

    @staticmethod
    def from_spec(s):
        w = s["weights"]
        fc = s.get("fcount", False)
        return Cool(s["widths"], [(a, b, Fraction(v[0], v[1]) if fc else v) for a, b, v in s["px"]],
                    None if w is None else [None if x is None else Fraction(x[0], x[1]) for x in w], s["symm"],
                    fcount=fc, extra={k: [Fraction(x[0], x[1]) for x in v] for k, v in s.get("extra", {}).items()}, names=s.get("names"))

    def bins_df(self):
        df = pd.DataFrame({"chrom": [self.names[c] for c, _, _ in self.bins],
                           "start": [s for _, s, _ in self.bins], "end": [e for _, _, e in self.bins]})
        if self.weights is not None:
            df["weight"] = [np.nan if w is None else float(w) for w in self.weights]
        for k, v in self.extra.items():
            df[k] = [float(x) for x in v]
        return df

    def create(self, uri, mode="w"):
        import cooler
        px = pd.DataFrame({"bin1_id": np.array([p[0] for p in self.px], dtype=np.int64),
                           "bin2_id": np.array([p[1] for p in self.px], dtype=np.int64),
                           "count": np.array([float(p[2]) for p in self.px], dtype=np.float64) if self.fcount
                                    else np.array([p[2] for p in self.px], dtype=np.int32)})
        if self.fcount:        # plus an extra pixel column the dump must ignore
            px["foo"] = np.arange(len(px), dtype=np.int64)
            cooler.create_cooler(uri, self.bins_df(), px, columns=["count", "foo"], dtypes={"count": np.float64},
                                 symmetric_upper=self.symm, ordered=True, mode=mode)
        else:
            cooler.create_cooler(uri, self.bins_df(), px, symmetric_upper=self.symm, ordered=True, mode=mode)

    def coq(self):
        bins = C.lst([C.tup(C.z(c), C.z(s), C.z(e)) for c, s, e in self.bins])
        names = C.lst([C.s(n) for n in self.names])
        if self.weights is None:
            w = "None"
        else:
            w = "(Some " + C.lst(["None" if x is None else f"(Some {C.q(x)})" for x in self.weights]) + ")"
        px = C.lst([C.tup(C.tup(C.z(a), C.z(b)), C.z(v)) for a, b, v in self.px])
        return (f"{{| d_bins := {bins}; d_names := {names}; d_weight := {w}; d_px := {px}; d_symm := {C.b(self.symm)} |}}")


def random_px(rng, n, symm, density, empty_from=None):
    px = []
    for i in range(n):
        if empty_from is not None and i >= empty_from:
            continue
        for j in range(n):
            if symm and j < i:
                continue
            if rng.random() < density:
                px.append((i, j, rng.randint(1, 25)))
    return px


def random_weights(rng, n):
    ws = [Fraction(rng.randint(1, 15), 8) for _ in range(n)]
    for k in rng.sample(range(n), max(1, n // 4)):
        ws[k] = None
    return ws


TABLES = [
    [[10, 10, 5], [10, 7]],          # fixed 10, short last bins
    [[7, 23], [4, 5, 1]],            # variable
    [[3, 3, 3, 3]],                  # one chromosome
    [[5, 5], [5, 2], [4]],           # fixed 5, three chromosomes, one-bin chromosome
    [[2, 9, 1, 6], [8]],             # variable
    [[1, 1, 1], [1, 1]],             # fixed 1
]


def make_coolers(rng, thorough):
    cools = []
    # the two "exhaustive" coolers first
    t0 = TABLES[0]
    n0 = sum(len(w) for w in t0)
    cools.append(Cool(t0, [(0, 0, 3), (0, 3, 1), (1, 1, 4), (1, 2, 7), (2, 2, 1), (2, 4, 5), (3, 4, 2)],
                      [Fraction(1, 2), None, Fraction(5, 4), Fraction(2), Fraction(3, 4)], True, "sym-fixed"))
    cools.append(Cool(TABLES[1], [(0, 0, 2), (0, 4, 6), (1, 0, 3), (2, 1, 9), (2, 2, 1), (3, 0, 4), (3, 3, 8), (4, 1, 5)],
                      [Fraction(3, 8), Fraction(9, 8), None, Fraction(1), Fraction(7, 4)], False, "sq-var"))
    # D18 carriers: rows without pixels / empty cooler
    cools.append(Cool(t0, [(0, 0, 3), (0, 3, 1), (1, 1, 4), (2, 2, 1), (2, 4, 5), (4, 4, 9)],
                      [Fraction(1, 2), None, Fraction(5, 4), Fraction(2), Fraction(3, 4)], True, "sym-emptyrow3"))
    cools.append(Cool(TABLES[3], [], None, True, "empty"))
    nrand = 26 if thorough else 8
    for k in range(nrand):
        t = TABLES[k % len(TABLES)] if k < 2 * len(TABLES) else [[rng.randint(1, 9) for _ in range(rng.randint(1, 4))] for _ in range(rng.randint(1, 3))]
        n = sum(len(w) for w in t)
        symm = rng.random() < 0.6
        px = random_px(rng, n, symm, rng.choice([0.25, 0.5, 0.8]), empty_from=(n - 1 if rng.random() < 0.3 else None))
        w = random_weights(rng, n) if rng.random() < 0.75 else None
        cools.append(Cool(t, px, w, symm, f"rand{k}"))
    return cools


# ============================================================ regions
def region_choices(cool, rng, k):
    """(text, (lo, hi)) pairs: whole chromosomes and sub-ranges on / off bin boundaries; the bin range is the
    set of bins of the chromosome that overlap [start, end) (independent of region_to_extent)"""
    out = []
    for ci, blk in enumerate(cool.blocks):
        name = cool.names[ci]
        base = sum(len(b) for b in cool.blocks[:ci])
        L = blk[-1][2]
        out.append((name, (base, base + len(blk))))
        for _ in range(k):
            s = rng.randint(0, L - 1)
            e = rng.randint(s + 1, L)
            if rng.random() < 0.5:     # snap to bin edges
                edges = [b[1] for b in blk] + [L]
                s = max(x for x in edges if x <= s)
                e = min(x for x in edges if x >= e)
            idx = [i for i, b in enumerate(blk) if b[1] < e and s < b[2]]
            out.append((f"{name}:{s}-{e}", (base + idx[0], base + idx[-1] + 1)))
    return out


# ============================================================ dump options
FLAGS = ("fill", "balanced", "join", "ids1", "starts1", "header")


def default_opts():
    return {"r": None, "r2": None, "fill": False, "balanced": False, "join": False, "annotate": None, "ids1": False,
            "starts1": False, "columns": None, "header": False, "na_rep": None, "ff": None, "k": None}


def cli_args(opt, uri):
    a = ["dump"]
    if opt["r"]:
        a += ["-r", opt["r"][0]]
    if opt["r2"]:
        a += ["-r2", opt["r2"][0]]
    if opt["fill"]:
        a.append("-f")
    if opt["balanced"]:
        a.append("-b")
    if opt["join"]:
        a.append("--join")
    if opt["annotate"]:
        a += ["--annotate", ",".join(opt["annotate"])]
    if opt["ids1"]:
        a.append("--one-based-ids")
    if opt["starts1"]:
        a.append("--one-based-starts")
    if opt["columns"] is not None:
        a += ["-c", ",".join(opt["columns"])]
    if opt["header"]:
        a.append("-H")
    if opt["na_rep"] is not None:
        a += ["--na-rep", opt["na_rep"]]
    if opt["ff"] is not None:
        a += ["--float-format", opt["ff"]]
    if opt["k"] is not None:
        a += ["-k", str(opt["k"])]
    return a + [uri]


def coq_opts(opt):
    def rng_(r):
        return C.tup(C.z(r[1][0]), C.z(r[1][1]))
    if opt["r"] is None:
        r = "None"
    else:
        r = "(Some " + C.tup(rng_(opt["r"]), "None" if opt["r2"] is None else f"(Some {rng_(opt['r2'])})") + ")"
    ann = "None" if not opt["annotate"] else "(Some " + C.lst([C.s(x) for x in opt["annotate"]]) + ")"
    cols = "None" if opt["columns"] is None else "(Some " + C.lst([C.s(x) for x in opt["columns"]]) + ")"
    return (f"{{| o_range := {r}; o_fill := {C.b(opt['fill'])}; o_balanced := {C.b(opt['balanced'])}; o_join := {C.b(opt['join'])}; "
            f"o_annot := {ann}; o_ids1 := {C.b(opt['ids1'])}; o_starts1 := {C.b(opt['starts1'])}; o_columns := {cols}; o_header := {C.b(opt['header'])} |}}")


def all_columns(opt):
    ids = ["chrom1", "start1", "end1", "chrom2", "start2", "end2"] if opt["join"] else ["bin1_id", "bin2_id"]
    cols = ids + ["count"] + (["balanced"] if opt["balanced"] else [])
    for suf in "12":
        cols += [f + suf for f in (opt["annotate"] or [])]
    return cols


def random_opts(cool, rng, regions):
    o = default_opts()
    for f in FLAGS:
        o[f] = rng.random() < 0.5
    if rng.random() < 0.75:
        o["r"] = rng.choice(regions)
        if rng.random() < 0.6:
            o["r2"] = rng.choice(regions)
    if o["balanced"] and cool.weights is None and rng.random() < 0.8:
        o["balanced"] = False
    if rng.random() < 0.3:
        pool = ["weight"] if cool.weights is not None else []
        if not o["join"]:
            pool += ["start", "end", "chrom"]
        if pool:
            o["annotate"] = rng.sample(pool, rng.randint(1, min(2, len(pool))))
    if rng.random() < 0.35:
        cols = all_columns(o)
        o["columns"] = rng.sample(cols, rng.randint(1, len(cols)))
        if rng.random() < 0.15:
            o["columns"].append(o["columns"][0])          # a repeated column is allowed by pandas
    if rng.random() < 0.3:
        o["na_rep"] = rng.choice(["NA", "nan", "."])
    if rng.random() < 0.3:
        o["ff"] = rng.choice([".12g", ".3f", ".2e", "g"])
    if rng.random() < 0.5:
        o["k"] = rng.choice([1, 2, 3, 5])
    return o


# ============================================================ the independent reading of the dump options
def window(cool, opt):
    n = len(cool.bins)
    if opt["r"] is None:
        return (0, n, 0, n)
    i0, i1 = opt["r"][1]
    j0, j1 = opt["r2"][1] if opt["r2"] is not None else (i0, i1)
    return (i0, i1, j0, j1)


def selected(cool, opt):
    """(records, ordered?) : the pixels the documentation promises"""
    i0, i1, j0, j1 = window(cool, opt)
    inw = lambda a, b: i0 <= a < i1 and j0 <= b < j1
    if opt["fill"] and cool.symm:
        out = []
        for a, b, v in cool.px:
            if inw(a, b):
                out.append((a, b, v))
            if a != b and inw(b, a):
                out.append((b, a, v))
        return out, False
    return [(a, b, v) for a, b, v in cool.px if inw(a, b)], True


def fmt_float(fr, opt):
    if fr is None:
        return opt["na_rep"] if opt["na_rep"] is not None else ""
    return ("%" + (opt["ff"] if opt["ff"] is not None else "g")) % float(fr)


def bin_field_text(cool, f, i, opt):
    c, s, e = cool.bins[i]
    if f == "chrom":
        return cool.names[c]
    if f == "start":
        return s
    if f == "end":
        return e
    if f == "weight":
        return ("Q", cool.weights[i])
    if f in cool.extra:
        return ("Q", cool.extra[f][i])
    raise KeyError(f)


def oracle_dump(cool, opt):
    """expected (header names, rows of text cells, ordered?) from the documented meaning of each option"""
    recs, ordered = selected(cool, opt)
    names = all_columns(opt)
    rows = []
    for a, b, v in recs:
        d = {}
        if opt["join"]:
            for suf, i in (("1", a), ("2", b)):
                c, s, e = cool.bins[i]
                d["chrom" + suf], d["start" + suf], d["end" + suf] = cool.names[c], s, e
        else:
            d["bin1_id"], d["bin2_id"] = a + (1 if opt["ids1"] else 0), b + (1 if opt["ids1"] else 0)
        d["count"] = ("Q", v) if cool.fcount else v
        if opt["balanced"]:
            w1, w2 = cool.weights[a], cool.weights[b]
            d["balanced"] = ("Q", None if w1 is None or w2 is None else w1 * w2 * v)
        for suf, i in (("1", a), ("2", b)):
            for f in (opt["annotate"] or []):
                d[f + suf] = bin_field_text(cool, f, i, opt)
        if opt["starts1"]:
            for col in ("start1", "start2"):
                if col in d:
                    d[col] += 1
        rows.append(d)
    cols = names if opt["columns"] is None else list(opt["columns"])
    out = []
    for d in rows:
        out.append([fmt_float(d[c][1], opt) if isinstance(d[c], tuple) else str(d[c]) for c in cols])
    return cols, out, ordered


def py_plan(bb):
    """sub-boxes whose rows the engines read (independent re-reading of FillLowerRangeQuery2D's case split,
    used only for the D18 signature predicate)"""
    i0, i1, j0, j1 = bb
    if i1 > j1:
        i0, i1, j0, j1 = j0, j1, i0, i1
    if i0 == j0 or (i0 < j0 and i1 <= j0):
        return [(i0, i1, j0, j1)]
    if i0 < j0 and i1 <= j1:
        return [(i0, j0, j0, j1), (j0, i1, j0, j1)]
    return [(j0, i0, i0, i1), (i0, i1, i0, j1)]


def zero_chunks(cool, opt):
    bb = window(cool, opt)
    boxes = py_plan(bb) if (opt["fill"] and cool.symm) else [bb]
    for (i0, i1, j0, j1) in boxes:
        if i1 - i0 >= 1 and j1 - j0 >= 1 and any(i0 <= a < i1 for a, _, _ in cool.px):
            return False
    return True


# ============================================================ running the CLI
class Timeout(Exception):
    pass


def _alarm(signum, frame):
    raise Timeout()


def invoke(runner, cli, args, limit=20, input=None):
    """(exit_code or 'timeout', stdout) ; never raises"""
    old = signal.signal(signal.SIGALRM, _alarm)
    signal.alarm(limit)
    try:
        res = runner.invoke(cli, args, input=input)
        code = res.exit_code
        out = res.stdout
    except Timeout:
        code, out = "timeout", ""
    except BaseException as e:      # pragma: no cover
        code, out = "crash:" + type(e).__name__, ""
    finally:
        signal.alarm(0)
        signal.signal(signal.SIGALRM, old)
    return code, out


def read_tsv(text):
    # default (minimal) quoting: pandas writes a lone empty field as "" so that the line is not blank
    return [row for row in csv.reader(io.StringIO(text), delimiter="\t")]


def model_lines(val, opt):
    """parsed `dump_obs` value -> (status, header|None, rows of text cells)"""
    if val is None:
        return "error", None, []
    header, rows = None, []
    for ln in val[1]:
        if ln[1] == "OHeader":
            header = list(ln[2])
        else:
            cells = []
            for c in ln[2]:
                kind = c[1]
                if kind == "OZ":
                    cells.append(str(c[2]))
                elif kind == "OS":
                    cells.append(c[2])
                elif kind == "OQ":
                    cells.append(fmt_float(Fraction(c[2], c[3]), opt))
                else:
                    cells.append(fmt_float(None, opt))
            rows.append(cells)
    return "ok", header, rows


def sort_rows(rows):
    return sorted(rows)


SKIP = ("skip-model",)


def check_dump_case(ctx, cool, opt, code, text, mval, lib=None, extra_args=None):
    case = {"kind": "dump", "extra_args": extra_args or [], "cool": cool.spec(), "opt": {k: (list(v) if isinstance(v, tuple) else v) for k, v in opt.items()}}
    lines = read_tsv(text) if code == 0 else []
    exp_cols, exp_rows, ordered = (None, None, True)
    valid_cols = opt["columns"] is None or all(c in all_columns(opt) for c in opt["columns"])
    valid_ann = all(f in ("chrom", "start", "end") or (f == "weight" and cool.weights is not None) or f in cool.extra for f in (opt["annotate"] or []))
    needs_w = opt["balanced"] and cool.weights is None
    wellformed = valid_cols and valid_ann and not needs_w
    nontrivial = False
    if wellformed:
        exp_cols, exp_rows, ordered = oracle_dump(cool, opt)
        nontrivial = len(exp_rows) > 0 and (any(opt[f] for f in FLAGS) or opt["r"] is not None or opt["columns"] is not None)
    ctx.case(case, nontrivial=bool(nontrivial), kind="dump:" + ("fill" if opt["fill"] and cool.symm else "direct") + (":region" if opt["r"] else ""))
    # ---- model vs implementation
    mstat, mhead, mrows = model_lines(None if mval is SKIP else mval, opt)
    istat = "ok" if code == 0 else ("error" if isinstance(code, int) else code)
    exact_order = ordered or opt["k"] is None
    if mval is not SKIP:
        ctx.compare("dump exit status", case, istat, mstat)
    if mval is not SKIP and istat == "ok" and mstat == "ok":
        mfull = ([mhead] if mhead is not None else []) + mrows
        if exact_order:
            ctx.compare("dump lines", case, lines, mfull)
        elif mhead is not None:
            ctx.compare("dump lines (header + multiset)", case, lines[:1] + sort_rows(lines[1:]), [mhead] + sort_rows(mrows))
        else:
            ctx.compare("dump lines (multiset)", case, sort_rows(lines), sort_rows(mrows))
    # ---- property oracle
    if not wellformed:
        if needs_w and code == 0:
            ctx.fail(case, {"why": "balanced values requested from a cooler without weights, exit status 0"}, None)
        return
    if code != 0:
        ctx.fail(case, {"why": "dump failed", "exit": str(code)}, None)
        return
    body = lines
    if opt["header"]:
        if lines[:1] == [exp_cols] and (exp_cols not in exp_rows or len(lines) == len(exp_rows) + 1):
            body = lines[1:]
        elif lines == [] and exp_rows == [] and zero_chunks(cool, opt):
            # the header is only written inside the chunk loop: engine yields zero chunks -> no header (finding D18)
            ctx.fail(case, {"why": "header requested, nothing printed", "expected": [exp_cols]}, D18)
            body = []
        else:
            ctx.fail(case, {"why": "header line missing or wrong", "expected": exp_cols, "got_first": lines[:2]}, None)
            return
    ok = (body == exp_rows) if ordered else (sort_rows(body) == sort_rows(exp_rows))
    if not ok:
        ctx.fail(case, {"why": "dump rows differ from the documented reading", "expected": exp_rows[:12], "got": body[:12]}, None)
    if lib is not None:
        lrows, keep = lib
        pbody = [[r[k] for k in keep] for r in body]
        lok = (sort_rows(pbody) == sort_rows(lrows))
        if ordered and not (opt["fill"] and cool.symm):
            lok = pbody == lrows
        if not lok:
            ctx.fail(case, {"why": "dump differs from the library query", "library": lrows[:12], "got": body[:12]}, None)


def library_rows(clr, cool, opt):
    """the corresponding library query rendered with the same float format, and the dump columns it speaks about;
    None when there is no direct equivalent.  direct: Cooler.matrix(as_pixels=True, balance, join).fetch(r, r2);
    fill-lower: Cooler.matrix(sparse=True, balance).fetch(r, r2) as (row, col, value) triples (+ cooler.annotate for --join)"""
    import cooler
    if opt["columns"] is not None or opt["annotate"] or opt["ids1"] or opt["starts1"]:
        return None
    i0, i1, j0, j1 = window(cool, opt)
    ncols = len(all_columns(opt))
    if opt["fill"] and cool.symm:
        sel = clr.matrix(balance=opt["balanced"], sparse=True)
        m = sel[:, :] if opt["r"] is None else sel.fetch(opt["r"][0], opt["r2"][0] if opt["r2"] is not None else opt["r"][0])
        vname = "balanced" if opt["balanced"] else "count"
        df = pd.DataFrame({"bin1_id": m.row.astype(np.int64) + i0, "bin2_id": m.col.astype(np.int64) + j0, vname: m.data})
        keep = [k for k, c in enumerate(all_columns(opt)) if c not in ("count", "balanced") or c == vname]
        if opt["join"]:
            df = cooler.annotate(df, clr.bins()[:][["chrom", "start", "end"]], replace=True)
    else:
        sel = clr.matrix(balance=opt["balanced"], as_pixels=True, join=opt["join"])
        df = sel[:, :] if opt["r"] is None else sel.fetch(opt["r"][0], opt["r2"][0] if opt["r2"] is not None else opt["r"][0])
        keep = list(range(ncols))
    rows = []
    for rec in df.itertuples(index=False):
        cells = []
        for name, v in zip(df.columns, rec):
            if name == "balanced" or (name == "count" and cool.fcount):
                cells.append(fmt_float(None if pd.isna(v) else Fraction(float(v)), opt))
            else:
                cells.append(str(v))
        rows.append(cells)
    return rows, keep


def run_dump(ctx, runner, cli, thorough):
    import cooler
    rng = ctx.rng
    cools = make_coolers(rng, thorough)
    ddir = ctx.tmp / "dump"
    ddir.mkdir(exist_ok=True)
    jobs = []          # (cool index, opt)
    regs = []
    for ci, cool in enumerate(cools):
        regions = region_choices(cool, rng, 3 if thorough else 2)
        regs.append(regions)
        opts = []
        if ci < 2:
            # exhaustive: 2^6 flags x {whole, chrom, sub-range, (r, r2) above diagonal, (r, r2) below}
            first, last = regions[0], regions[-1]
            sub = regions[1]
            rchoices = [(None, None), (first, None), (sub, None), (first, last), (last, sub)]
            for bits in itertools.product([False, True], repeat=6):
                for r, r2 in (rchoices if thorough or ci == 0 else rchoices[:3] + rchoices[4:]):
                    o = default_opts()
                    o.update(dict(zip(FLAGS, bits)))
                    o["r"], o["r2"] = r, r2
                    opts.append(o)
        # regression corpus D7 (fixed): --one-based-ids alone, -c alone; known finding D18: header with an empty row range
        o = default_opts(); o["ids1"] = True; opts.append(o)
        o = default_opts(); o["columns"] = ["count", "bin1_id"]; opts.append(o)
        o = default_opts(); o["columns"] = ["bin2_id"]; o["ids1"] = True; o["header"] = True; opts.append(o)
        o = default_opts(); o["header"] = True; o["r"] = regions[-1]; opts.append(o)
        o = default_opts(); o["header"] = True; o["fill"] = True; o["r"] = regions[-1]; o["r2"] = regions[0]; opts.append(o)
        if cool.weights is not None:      # a lone NaN field is written as "" by to_csv (found by the thorough tier)
            o = default_opts(); o["balanced"] = True; o["columns"] = ["balanced"]; opts.append(o)
        # malformed stream: unknown column, unknown annotation, balanced without weights
        o = default_opts(); o["columns"] = ["nope"]; opts.append(o)
        o = default_opts(); o["annotate"] = ["nope"]; opts.append(o)
        o = default_opts(); o["balanced"] = True; opts.append(o)
        nrand = (120 if thorough else 22) if ci >= 2 else (40 if thorough else 10)
        for _ in range(nrand):
            opts.append(random_opts(cool, rng, regions))
        jobs += [(ci, o) for o in opts]
    # ---- model
    pre = "\n".join(f"Definition cool{ci} := {cool.coq()}." for ci, cool in enumerate(cools))
    exprs = [f"dump_obs cool{ci} {coq_opts(o)}" for ci, o in jobs]
    mvals = C.coq_eval(IMPORTS, exprs, preamble=pre, tmpdir=ctx.tmp / "dumpv", shard=400, jobs=4)
    # the generated coolers satisfy the hypotheses of the theorems (SSorted, Upper when symmetric, bins_ok_b, in range)
    hyp = C.coq_eval(IMPORTS, [f"(ssorted_b (d_px cool{ci}), (if d_symm cool{ci} then upper_b (d_px cool{ci}) else true), "
                               f"bins_ok_b (d_bins cool{ci}) (d_names cool{ci}), inrange_b (zlen (d_bins cool{ci})) (d_px cool{ci}))"
                               for ci in range(len(cools))], preamble=pre, tmpdir=ctx.tmp / "hypv", jobs=1)
    for ci, h in enumerate(hyp):
        if list(h) != [True, True, True, True]:
            ctx.disagree("generator produced a cooler outside the theorems' hypotheses", {"kind": "hypotheses", "cool": cools[ci].spec()}, [True] * 4, list(h))
    # ---- implementation
    uris, clrs = [], []
    for ci, cool in enumerate(cools):
        uri = str(ddir / f"c{ci}.cool")
        cool.create(uri)
        uris.append(uri)
        clrs.append(cooler.Cooler(uri))
    nlib = 0
    for (ci, o), mv in zip(jobs, mvals):
        code, text = invoke(runner, cli, cli_args(o, uris[ci]))
        lib = None
        wellformed = not (o["balanced"] and cools[ci].weights is None)
        if wellformed and code == 0:
            try:
                lib = library_rows(clrs[ci], cools[ci], o)
            except Exception as e:           # the library query itself failing is a finding of C03/C12, not of the dump
                lib = None
            nlib += lib is not None
        check_dump_case(ctx, cools[ci], o, code, text, mv, lib)
    ctx.extra["dump_cases"] = len(jobs)
    ctx.extra["dump_cases_with_library_query"] = nlib
    return cools, uris


# ============================================================ audit block: region geometry x annotating options, representations
def reg_text(cool, lo, hi, style=0):
    """region text for the bins lo..hi-1 (inside one chromosome); style 0 plain, 1 whole chromosome by name when it is,
    2 open end `name:start-` when it reaches the chromosome end, 3 thousands separators"""
    c = cool.bins[lo][0]
    blk = cool.blocks[c]
    s_, e = cool.bins[lo][1], cool.bins[hi - 1][2]
    name = cool.names[c]
    if style == 1 and s_ == 0 and e == blk[-1][2]:
        return name
    if style == 2 and e == blk[-1][2]:
        return f"{name}:{s_}-"
    if style == 3:
        sep = lambda x: (str(x)[:-1] + "," + str(x)[-1]) if x >= 10 else str(x)
        return f"{name}:{sep(s_)}-{sep(e)}"
    return f"{name}:{s_}-{e}"


def region_pairs(cool):
    """structured (row range, column range) pairs: identical, up/downstream, overlapping, nested, trans, single bins,
    chromosome ends; as bin ranges"""
    sizes = [len(b) for b in cool.blocks]
    ci = max(range(len(sizes)), key=lambda k: sizes[k])
    b0, m = sum(sizes[:ci]), sizes[ci]
    ti = next((k for k in range(len(sizes)) if k != ci), None)
    A, B, AB, BC, ALL, MID = (b0, b0 + 1), (b0 + m - 1, b0 + m), (b0, b0 + 2), (b0 + 1, b0 + m), (b0, b0 + m), (b0 + 1, b0 + 2)
    pairs = [(ALL, ALL), (A, B), (B, A), (AB, BC), (BC, AB), (MID, ALL), (ALL, MID), (B, B), (MID, None), (A, None)]
    if ti is not None:
        t0, tm = sum(sizes[:ti]), sizes[ti]
        T, TF, TL = (t0, t0 + tm), (t0, t0 + 1), (t0 + tm - 1, t0 + tm)
        pairs += [(ALL, T), (T, ALL), (TF, MID), (TL, TL), (B, TF), (TL, A)]
    return pairs


def audit_option_sets(cool):
    w = cool.weights is not None
    sets = [dict(join=True), dict(annotate=["start", "end"], starts1=True, ids1=True)]
    if w:
        sets += [dict(balanced=True), dict(annotate=["weight"]), dict(join=True, balanced=True, starts1=True, header=True),
                 dict(join=True, annotate=["weight"], columns=["weight2", "chrom1", "count", "start2"], na_rep="NA")]
    return sets


def run_dump_audit(ctx, runner, cli, cools, uris):
    import cooler
    jobs = []
    for ci in (0, 1):
        cool = cools[ci]
        for pi, (r, r2) in enumerate(region_pairs(cool)):
            for oi, st in enumerate(audit_option_sets(cool)):
                variants = [(f, k) for f in (False, True) for k in (None, 1)] if ci == 0 else [(False, 1 if (pi + oi) % 2 else None)]
                for fill, k in variants:
                    o = default_opts()
                    o.update(st)
                    o["fill"], o["k"] = fill, k
                    o["r"] = (reg_text(cool, *r, style=(pi + oi) % 4), tuple(r))
                    o["r2"] = None if r2 is None else (reg_text(cool, *r2, style=(pi + 2 * oi + 1) % 4), tuple(r2))
                    jobs.append((ci, o))
    pre = "\n".join(f"Definition cool{ci} := {cools[ci].coq()}." for ci in (0, 1))
    mvals = C.coq_eval(IMPORTS, [f"dump_obs cool{ci} {coq_opts(o)}" for ci, o in jobs], preamble=pre, tmpdir=ctx.tmp / "auditv", shard=250, jobs=4)
    clrs = {ci: cooler.Cooler(uris[ci]) for ci in (0, 1)}
    for (ci, o), mv in zip(jobs, mvals):
        code, text = invoke(runner, cli, cli_args(o, uris[ci]))
        lib = None
        if code == 0:
            try:
                lib = library_rows(clrs[ci], cools[ci], o)
            except Exception:
                lib = None
        check_dump_case(ctx, cools[ci], o, code, text, mv, lib)
    # ---- representations the model does not cover (oracle only): float counts + extra pixel column, extra float bin
    # column, a cooler inside an HDF5 group, --no-balance / -o - spellings, -t bins with --na-rep / --float-format
    t = TABLES[0]
    Fr = Fraction
    fc = Cool(t, [(0, 0, Fr(7, 2)), (0, 3, Fr(1)), (1, 1, Fr(17, 4)), (1, 2, Fr(3, 8)), (2, 2, Fr(1)), (2, 4, Fr(5)), (4, 4, Fr(1, 8))],
              [Fr(1, 2), None, Fr(5, 4), Fr(2), Fr(3, 4)], True, "float-count", fcount=True,
              extra={"gc": [Fr(1, 8), Fr(1, 4), Fr(1, 2), Fr(3, 4), Fr(1)]})
    furi = str(ctx.tmp / "dump" / "fc.cool") + "::/a/b"
    fc.create(furi)
    fclr = cooler.Cooler(furi)
    rp = region_pairs(fc)
    flist = []
    for st in (dict(), dict(header=True, ff=".3f"), dict(ff=".2e"), dict(balanced=True, ff=".12g"), dict(annotate=["gc"]),
               dict(annotate=["gc", "weight"], columns=["gc2", "weight1", "count"], na_rep="nan"), dict(join=True, annotate=["gc"], header=True),
               dict(balanced=True, na_rep=".", fill=True), dict(fill=True, join=True, ff=".1f")):
        for (r, r2) in [(None, None), rp[3], rp[11]]:
            o = default_opts()
            o.update(st)
            if r is not None:
                o["r"], o["r2"] = (reg_text(fc, *r), tuple(r)), (reg_text(fc, *r2, style=2), tuple(r2))
            flist.append((o, []))
    o = default_opts(); flist.append((o, ["--no-balance"]))
    o = default_opts(); o["header"] = True; flist.append((o, ["-o", "-"]))
    for o, extra in flist:
        code, text = invoke(runner, cli, cli_args(o, furi)[:-1] + extra + [furi])
        lib = None
        if code == 0 and not extra:
            try:
                lib = library_rows(fclr, fc, o)
            except Exception:
                lib = None
        check_dump_case(ctx, fc, o, code, text, SKIP, lib, extra_args=extra)
    for na, ff, cols in ((None, None, None), ("NA", ".2f", None), ("-", ".3e", ["gc", "chrom", "weight"])):
        case = {"kind": "dump-bins-format", "na_rep": na, "ff": ff, "columns": cols}
        ctx.case(case, nontrivial=True, kind="dump:bins")
        args = ["dump", "-t", "bins", "-H"] + (["--na-rep", na] if na is not None else []) + (["--float-format", ff] if ff else []) \
            + (["-c", ",".join(cols)] if cols else []) + [furi]
        code, text = invoke(runner, cli, args)
        lines = read_tsv(text) if code == 0 else []
        fo = {"na_rep": na, "ff": ff}
        expd = {"chrom": [fc.names[c] for c, _, _ in fc.bins], "start": [str(s_) for _, s_, _ in fc.bins], "end": [str(e) for _, _, e in fc.bins],
                "weight": [fmt_float(w, fo) for w in fc.weights], "gc": [fmt_float(g, fo) for g in fc.extra["gc"]]}
        ok = bool(lines) and sorted(lines[0]) == sorted(cols or expd) and (cols is None or lines[0] == cols) and len(lines) == len(fc.bins) + 1 \
            and all([row[k] for row in lines[1:]] == expd[name] for k, name in enumerate(lines[0]))
        if not ok:
            ctx.fail(case, {"why": "dump -t bins with formatting options differs from the bin table", "got": lines[:4], "exit": str(code)}, None)
    ctx.extra["dump_audit_cases"] = len(jobs) + len(flist) + 3


# ============================================================ load / cload helpers
def write_bins(cool, path):
    with open(path, "w") as f:
        for c, s_, e in cool.bins:
            f.write(f"{cool.names[c]}\t{s_}\t{e}\n")


def fixed_binsize(cool):
    """b when every chromosome is tiled by [k*b, min((k+1)*b, L)) (independent reading), else None"""
    cands = {blk[0][2] - blk[0][1] for blk in cool.blocks if len(blk) > 1}
    if len(cands) != 1:
        return None
    b = cands.pop()
    for blk in cool.blocks:
        L = blk[-1][2]
        for k, (_, s_, e) in enumerate(blk):
            if s_ != k * b or e != min((k + 1) * b, L):
                return None
    return b


def bins_kind(cool, rng):
    return "sizes" if (fixed_binsize(cool) is not None and rng.random() < 0.5) else "bed"


def bins_arg(cool, ddir, tag, kind):
    b = fixed_binsize(cool)
    if b is not None and kind == "sizes":
        p = ddir / f"{tag}.chromsizes"
        p.write_text("".join(f"{n}\t{blk[-1][2]}\n" for n, blk in zip(cool.names, cool.blocks)))
        return f"{p}:{b}"
    p = ddir / f"{tag}.bins.bed"
    write_bins(cool, p)
    return str(p)


def read_pixels(uri, cols=("count",), floats=False):
    """(storage is symmetric?, [(bin1, bin2, v...)]) of a cooler file, or None when it cannot be read;
    floats=True: value columns must be stored as floating point and are returned as exact Fractions"""
    import cooler
    try:
        clr = cooler.Cooler(uri)
        df = clr.pixels()[:]
        if floats:
            if any(df[c].dtype.kind != "f" for c in cols):
                return None
            out = [tuple([int(a), int(b)] + [Fraction(float(x)) for x in vals]) for a, b, *vals in zip(df["bin1_id"], df["bin2_id"], *[df[c] for c in cols])]
            return clr.storage_mode == "symmetric-upper", out
        out = [tuple(int(x) for x in rec) for rec in zip(df["bin1_id"], df["bin2_id"], *[df[c] for c in cols])]
        return clr.storage_mode == "symmetric-upper", out
    except Exception as e:
        return None


def coq_text(text):
    return C.lst([C.lst([C.s(t) for t in rec]) for rec in text])


def coq_bins(cool):
    return C.lst([C.tup(C.z(c), C.z(s_), C.z(e)) for c, s_, e in cool.bins])


def coq_names(cool):
    return C.lst([C.s(n) for n in cool.names])


def fp_list(args, agg):
    return C.lst([f"parse_field_param {C.s(a)} true {C.b(agg)}" for a in args])


def mpx(val):
    """parsed `option (list pixel)` -> list of (a, b, v) or None"""
    if val is None:
        return None
    return [tuple(p) for p in val[1]]


TRIL = {"reflect": "Reflect", "drop": "Drop", None: "Keep"}


# ============================================================ B. load
def py_load(recs, n_bins, one_based, tril, chunk):
    """independent reading of `load`: records (b1, b2, v) -> sorted pixel list, or None when the input is refused
    (a pixel repeated inside one chunk)"""
    out = Counter()
    seen_any = False
    for k in range(0, len(recs), chunk):
        keys = set()
        for a, b, v in recs[k:k + chunk]:
            if one_based:
                a, b = a - 1, b - 1
            if a > b:
                if tril == "reflect":
                    a, b = b, a
                elif tril == "drop":
                    continue
            if (a, b) in keys:
                return None
            keys.add((a, b))
            out[(a, b)] += v
            seen_any = True
    return sorted((a, b, v) for (a, b), v in out.items())


def impl_load(runner, cli, cool, case, ldir, k):
    """run `cooler load` on the case's text; (exit code, pixel rows or None, storage symmetric? or None).
    case["mode"]: file (default) | gz | stdin ; case["comment"]: a comment character, comment lines are interleaved;
    case["extra"]: further CLI arguments ; case["post"]: post-conditions to observe (metadata / assembly / append / tempdir)"""
    import gzip
    import cooler
    mode = case.get("mode", "file")
    body = ""
    for i, rec in enumerate(case["text"]):
        if case.get("comment") and i % 2 == 1:
            body += case["comment"] + " a comment\tline\n"
        body += "\t".join(rec) + "\n"
    inp = ldir / (f"in{k}.txt" + (".gz" if mode == "gz" else ""))
    if mode == "gz":
        with gzip.open(inp, "wt") as f:
            f.write(body)
    elif mode == "file":
        inp.write_text(body)
    out = ldir / f"out{k}.cool"
    post = case.get("post") or {}
    target = str(out)
    if post.get("append"):       # a first collection is already in the file; the new one goes to a second group with -a
        cool.create(str(out))
        target = str(out) + "::/second"
        append_flag = ["-a" if case.get("short") else "--append"]
    args = ["load", "-f", case["fmt"]]
    if case["one_based"]:
        args.append("--one-based")
    if not case["symm"]:
        args.append("-N" if case.get("short") else "--no-symmetric-upper")
    if case["duplex"]:
        args += ["--input-copy-status", "duplex"]
    if case["chunk"] is not None:
        args += ["-c" if case.get("short") else "--chunksize", str(case["chunk"])]
    for a in case["fields"]:
        args += ["--field", a]
    extra = list(case.get("extra") or []) + (append_flag if post.get("append") else [])
    tdir = None
    if post.get("tempdir"):
        tdir = ldir / f"tmp{k}"
        tdir.mkdir(exist_ok=True)
        extra += ["--temp-dir", str(tdir)]
    if post.get("metadata") is not None:
        mp = ldir / f"meta{k}.json"
        mp.write_text(json.dumps(post["metadata"]))
        extra += ["--metadata", str(mp)]
    args += extra + [bins_arg(cool, ldir, f"b{k}", case["bins"]), "-" if mode == "stdin" else str(inp), target]
    code, _ = invoke(runner, cli, args, limit=30, input=body if mode == "stdin" else None)
    vn = case["vn"]
    got = read_pixels(target, cols=tuple(vn), floats=case.get("floats", False)) if code == 0 else None
    obs = {}
    if code == 0 and post:
        try:
            clr = cooler.Cooler(target)
            obs["metadata"] = clr.info.get("metadata")
            obs["assembly"] = clr.info.get("genome-assembly")
            obs["groups"] = sorted(cooler.fileops.list_coolers(str(out)))
            if post.get("append"):
                first = read_pixels(str(out))
                obs["first_intact"] = first is not None and first[1] == [tuple(p) for p in cool.px]
            if tdir is not None:
                obs["tempdir_left"] = sorted(os.listdir(tdir))
            if post.get("bins_table"):
                bt = clr.bins()[:]
                obs["bins"] = [[str(c), int(s_), int(e)] for c, s_, e in zip(bt["chrom"], bt["start"], bt["end"])]
                obs["chroms"] = [[str(n), int(l)] for n, l in zip(clr.chromnames, clr.chromsizes.values)]
        except Exception as e:
            obs["error"] = type(e).__name__
    case["_obs"] = obs
    for pth in (inp, out):
        if pth.exists():
            pth.unlink()
    return code, (None if got is None else got[1]), (None if got is None else got[0])


def oracle_load(cool, case, code, ires, storage):
    """None when the property holds on this case, else a detail dict"""
    bad = oracle_load_pixels(cool, case, code, ires, storage)
    if bad:
        return bad
    post, obs = case.get("post") or {}, case.get("_obs") or {}
    if post and code == 0:
        if "error" in obs:
            return {"why": "the loaded file cannot be inspected", "obs": obs}
        if post.get("metadata") is not None and obs.get("metadata") != post["metadata"]:
            return {"why": "--metadata not stored", "obs": obs}
        if post.get("assembly") is not None and obs.get("assembly") != post["assembly"]:
            return {"why": "--assembly not stored", "obs": obs}
        if post.get("append") and (obs.get("groups") != ["/", "/second"] or not obs.get("first_intact")):
            return {"why": "--append: the existing collection was lost or altered", "obs": obs}
        if post.get("bins_table") and (obs.get("bins") != [[cool.names[c], s_, e] for c, s_, e in cool.bins]
                                       or obs.get("chroms") != [[n, blk[-1][2]] for n, blk in zip(cool.names, cool.blocks)]):
            return {"why": "the stored bin / chromosome table is not the one of the BINS argument as it is now", "obs": obs}
        if post.get("tempdir") and not post.get("keep_temp") and obs.get("tempdir_left"):
            return {"why": "temporary files left in --temp-dir", "obs": obs}
        if post.get("keep_temp") and not obs.get("tempdir_left"):
            return {"why": "--no-delete-temp: no temporary file kept in --temp-dir", "obs": obs}
    return None


def oracle_load_pixels(cool, case, code, ires, storage):
    vn = case["vn"]
    if case["kind"] == "load-dump":
        exp = [tuple(p) for p in cool.px]
        if ires != exp or storage != cool.symm:
            return {"why": "load(dump(c)) != c", "expected": exp[:15], "got": None if ires is None else ires[:15], "exit": str(code)}
        return None
    # independent reading of the file: value columns by their declared numbers
    nums = {"count": 2 if case["fmt"] == "coo" else 6}
    for a in case["fields"]:
        head = a.split(":")[0]
        if "=" in head:
            nm, num = head.split("=", 1)
            nums[nm] = int(num) - 1
    index = {(cool.names[c], s_): i for i, (c, s_, e) in enumerate(cool.bins)}
    recs = []
    for rec in case["text"]:
        if case["fmt"] == "coo":
            a, b = int(rec[0]), int(rec[1])
            if case["one_based"]:
                a, b = a - 1, b - 1
        else:
            d = 1 if case["one_based"] else 0
            a = py_bin_of(cool, cool.names.index(rec[0]), int(rec[1]) - d)
            b = py_bin_of(cool, cool.names.index(rec[3]), int(rec[4]) - d)
        recs.append((a, b, [Fraction(rec[nums[v]]) if case.get("floats") else int(rec[nums[v]]) for v in vn]))
    tril = None if not case["symm"] else ("drop" if case["duplex"] else "reflect")
    chunk = case["chunk"] if case["chunk"] is not None else len(case["text"]) + 1
    cols_exp = []
    for vi in range(len(vn)):
        r = py_load([(a, b, vals[vi]) for a, b, vals in recs], len(cool.bins), False, tril, chunk)
        if r is None:
            return {"why": "a pixel repeated inside one chunk was accepted"} if code == 0 else None
        cols_exp.append(r)
    exp = [tuple([a, b] + [cx[i][2] for cx in cols_exp]) for i, (a, b, _) in enumerate(cols_exp[0])]
    if ires != exp:
        return {"why": "loaded pixel table differs from the independent reading of the file", "expected": exp[:15],
                "got": None if ires is None else ires[:15], "exit": str(code)}
    return None


def run_load(ctx, runner, cli, cools, uris, thorough):
    rng = ctx.rng
    ldir = ctx.tmp / "load"
    ldir.mkdir(exist_ok=True)
    jobs = []       # dicts
    # ---- 1. dump | load round trips
    for ci, cool in enumerate(cools):
        if not cool.px:
            continue
        variants = []
        for fmt in ("coo", "bg2"):
            for ob in (False, True):
                variants.append((fmt, ob, False))
        if cool.symm:
            variants.append(("coo", False, True))      # fill-lower dump, --input-copy-status duplex
            variants.append(("bg2", True, True))
        if not thorough and ci >= 3:
            variants = rng.sample(variants, 2)
        for fmt, ob, duplex in variants:
            o = default_opts()
            o["fill"] = duplex
            if fmt == "bg2":
                o["join"], o["starts1"] = True, ob
            else:
                o["ids1"] = ob
            code, text = invoke(runner, cli, cli_args(o, uris[ci]))
            chunk = rng.choice([None, 1, 2, 3, len(cool.px)])
            jobs.append({"kind": "load-dump", "ci": ci, "fmt": fmt, "one_based": ob, "duplex": duplex, "chunk": chunk,
                         "text": read_tsv(text) if code == 0 else None, "fields": [], "symm": cool.symm,
                         "dump_opt": o})
    # ---- 2. hand-written files with remapped value columns
    def handwritten(ci, fmt, fields_spec, symm, ob, chunk, recs, ncols, extra_names, inner=False):
        """fields_spec: list of (name, colnum0, dtype or None) in declaration order"""
        cool = cools[ci]
        text = []
        for a, b, vals in recs:
            row = ["junk%d" % rng.randint(0, 9) for _ in range(ncols)]
            if fmt == "coo":
                row[0], row[1] = str(a), str(b)
            else:
                for off, i in ((0, a), (3, b)):
                    c, s_, e = cool.bins[i - (1 if False else 0)]
                    pos = (e - 1) if inner else s_          # any position inside the bin names the bin
                    row[off], row[off + 1], row[off + 2] = cool.names[c], str(pos + (1 if ob else 0)), str(e)
            for (name, k, _), v in zip(fields_spec, vals):
                row[k] = str(v)
            text.append(row)
        args = [f"{n}={k + 1}" + (f":dtype={d}" if d else "") for n, k, d in fields_spec]
        return {"kind": "load-fields", "ci": ci, "fmt": fmt, "one_based": ob, "duplex": False, "chunk": chunk, "text": text,
                "fields": args, "symm": symm, "vnames": [n for n, _, _ in fields_spec]}

    def random_recs(cool, symm, nvals, ob_coo, allow_dup_across=False):
        n = len(cool.bins)
        keys = set()
        recs = []
        for _ in range(rng.randint(1, 9)):
            a, b = rng.randrange(n), rng.randrange(n)
            k = (min(a, b), max(a, b)) if symm else (a, b)
            if k in keys:
                continue
            keys.add(k)
            d = 1 if ob_coo else 0
            recs.append((a + d, b + d, [rng.randint(0, 30) for _ in range(nvals)]))
        return recs

    # regression corpus D8: load --field foo=5 --field count=3
    ci0 = 0
    recs = [(0, 0, [7, 70]), (3, 1, [2, 20]), (1, 2, [5, 50])]
    jobs.append(handwritten(ci0, "coo", [("foo", 4, "int"), ("count", 2, None)], True, False, None, recs, 5, ["foo"]))
    jobs.append(handwritten(ci0, "bg2", [("foo", 8, "int"), ("count", 7, None)], True, False, None, recs, 9, ["foo"]))
    for _ in range(60 if thorough else 22):
        ci = rng.randrange(len(cools))
        cool = cools[ci]
        fmt = rng.choice(["coo", "bg2"])
        base = 2 if fmt == "coo" else 6
        ncols = base + rng.randint(1, 4)
        nf = rng.randint(1, min(2, ncols - base))
        cols = rng.sample(range(base, ncols), nf)
        names = ["count", "foo"][:nf]
        if nf == 2 and rng.random() < 0.5:
            names = names[::-1]
        spec = [(nm, k, rng.choice([None, "int", "int64"]) if nm != "count" else rng.choice([None, "int32"])) for nm, k in zip(names, cols)]
        if "count" not in names:
            continue
        symm = rng.random() < 0.6
        ob = rng.random() < 0.4
        recs = random_recs(cool, symm, nf, ob and fmt == "coo")
        if fmt == "bg2":
            recs = [(a, b, v) for a, b, v in recs]
        chunk = rng.choice([None, 1, 2, 3])
        jobs.append(handwritten(ci, fmt, spec, symm, ob, chunk, recs, ncols, [n for n in names if n != "count"]))
    # malformed: the same pixel twice inside one chunk (refused), across chunks (summed)
    jobs.append(handwritten(0, "coo", [("count", 2, None)], True, False, None, [(0, 1, [3]), (1, 0, [4])], 3, []))
    jobs.append(handwritten(0, "coo", [("count", 2, None)], True, False, 1, [(0, 1, [3]), (1, 0, [4]), (0, 1, [5])], 3, []))

    # ---- audit: options and input representations not used above (each on a small hand-written file)
    def aud(fmt="coo", symm=True, ob=False, chunk=None, recs=None, ci=0, inner=False, **kw):
        recs = recs if recs is not None else [(0, 0, [7]), (3, 1, [2]), (1, 2, [5]), (4, 4, [9])]
        ncols = 3 if fmt == "coo" else 7
        jb = handwritten(ci, fmt, [("count", ncols - 1, None)], symm, ob, chunk, recs, ncols, [], inner=inner)
        jb["fields"] = kw.pop("fields", [])               # default schema unless stated
        jb["kind"] = "load-audit"
        jb.update(kw)
        jobs.append(jb)
    aud(comment="#")
    aud(comment="%", extra=["--comment-char", "%"], fmt="bg2")
    aud(mode="gz", chunk=2)
    aud(mode="stdin", fmt="bg2", ob=True)
    aud(symm=False, short=True, chunk=2)
    aud(extra=["--input-copy-status", "unique"])
    aud(chunk=1, extra=["--mergebuf", "2", "--max-merge", "2"], post={"tempdir": True})
    aud(chunk=1, extra=["--no-delete-temp"], post={"tempdir": True, "keep_temp": True})
    aud(extra=["--assembly", "hgX", "--storage-options", "compression=gzip,compression_opts=4"],
        post={"metadata": {"k": [1, 2], "s": "x"}, "assembly": "hgX"})
    aud(post={"append": True})
    aud(recs=[(0, 0, [7]), (0, 3, [2]), (3, 0, [2]), (1, 2, [5]), (2, 1, [5]), (4, 4, [9])], duplex=True)
    aud(recs=[(0, 0, [7]), (0, 3, [2]), (3, 0, [2]), (2, 1, [5]), (4, 4, [9])], duplex=True, fmt="bg2", chunk=2, inner=True)
    aud(fmt="bg2", inner=True, ob=True)
    aud(fmt="bg2", inner=True, ci=1, symm=False)
    aud(fields=["count:dtype=int64"], extra=[])
    # float counts: dump (12 significant digits) | load --count-as-float, resp. --field count:dtype=float
    Fr = Fraction
    fcool = Cool(TABLES[0], [(0, 0, Fr(7, 2)), (0, 3, Fr(1)), (1, 1, Fr(17, 4)), (1, 2, Fr(3, 8)), (2, 4, Fr(5)), (4, 4, Fr(1, 8))],
                 None, True, "float-count", fcount=True)
    furi = str(ldir / "fc.cool")
    fcool.create(furi)
    for fmt, extra, fields in (("coo", ["--count-as-float"], []), ("bg2", [], ["count:dtype=float"]), ("coo", ["--count-as-float"], ["count=3"])):
        o = default_opts(); o["ff"] = ".12g"; o["join"] = fmt == "bg2"
        code, text = invoke(runner, cli, cli_args(o, furi))
        jobs.append({"kind": "load-dump", "ci": 0, "cool": fcool, "fmt": fmt, "one_based": False, "duplex": False, "chunk": rng.choice([None, 2]),
                     "text": read_tsv(text) if code == 0 else None, "fields": fields, "symm": True, "dump_opt": o,
                     "extra": extra, "floats": True, "nomodel": True})

    # ---- run: model
    exprs, meta = [], []
    for jb in jobs:
        cool = jb.get("cool") or cools[jb["ci"]]
        jb.setdefault("vn", jb.get("vnames") or ["count"])
        if jb["text"] is None or jb.get("nomodel"):
            continue
        tril = None
        if jb["symm"]:
            tril = "drop" if jb["duplex"] else "reflect"
        chunk = jb["chunk"] if jb["chunk"] is not None else len(jb["text"]) + 1
        sch = f"load_schema {C.b(jb['fmt'] == 'bg2')} {fp_list(jb['fields'], False)}"
        vnames = jb.get("vnames") or ["count"]
        jb["tril"], jb["chunk_eff"], jb["vn"] = tril, chunk, vnames
        for vn in vnames:
            if jb["fmt"] == "coo":
                e = (f"match {sch} with Some s => load_coo s {C.s(vn)} {C.b(jb['one_based'])} {TRIL[tril]} {C.nat(chunk)} {coq_text(jb['text'])} | None => None end")
            else:
                e = (f"match {sch} with Some s => load_bg2 {coq_bins(cool)} {coq_names(cool)} s {C.s(vn)} {C.b(jb['one_based'])} {TRIL[tril]} {C.nat(chunk)} {coq_text(jb['text'])} | None => None end")
            exprs.append(e)
            meta.append((jb, vn))
        if jb["kind"] == "load-dump":
            # the dump text itself, as the model prints it
            if jb["fmt"] == "coo" and not jb["duplex"]:
                exprs.append(f"Some (coo_text {C.b(jb['one_based'])} {C.lst([C.tup(C.tup(C.z(a), C.z(b)), C.z(v)) for a, b, v in cool.px])})")
                meta.append((jb, "__text"))
            elif jb["fmt"] == "bg2" and not jb["duplex"]:
                exprs.append(f"Some (bg2_text {coq_bins(cool)} {coq_names(cool)} {C.b(jb['one_based'])} {C.lst([C.tup(C.tup(C.z(a), C.z(b)), C.z(v)) for a, b, v in cool.px])})")
                meta.append((jb, "__text"))
    mvals = C.coq_eval(IMPORTS, exprs, tmpdir=ctx.tmp / "loadv", shard=30, jobs=4)
    by_job = {}
    for (jb, vn), mv in zip(meta, mvals):
        by_job.setdefault(id(jb), {})[vn] = mv
    # ---- run: implementation + oracle
    for k, jb in enumerate(jobs):
        cool = jb.get("cool") or cools[jb["ci"]]
        case = {"kind": jb["kind"], "cool": cool.spec(), "fmt": jb["fmt"], "one_based": jb["one_based"], "duplex": jb["duplex"],
                "chunk": jb["chunk"], "fields": jb["fields"], "symm": jb["symm"], "text": jb["text"], "vn": jb.get("vn", ["count"]),
                "bins": bins_kind(cool, rng),
                "dump_opt": ({kk: (list(v) if isinstance(v, tuple) else v) for kk, v in jb["dump_opt"].items()} if "dump_opt" in jb else None)}
        for key in ("mode", "comment", "extra", "post", "short", "floats"):
            if key in jb:
                case[key] = jb[key]
        ctx.case(case, nontrivial=bool(jb["text"]) and (jb["one_based"] or jb["chunk"] is not None or bool(jb["fields"]) or jb["fmt"] == "bg2"),
                 kind=jb["kind"] + ":" + jb["fmt"])
        if jb["text"] is None:
            ctx.fail(case, {"why": "the dump to be re-loaded failed"}, None)
            continue
        code, ires, storage = impl_load(runner, cli, cool, case, ldir, k)
        # model
        vn = jb["vn"]
        mm = by_job.get(id(jb), {})
        if not jb.get("nomodel"):
            mcols = [mpx(mm[v]) for v in vn]
            if any(mc is None for mc in mcols):
                mres = None
            else:
                mres = [tuple([a, b] + [mc[i][2] for mc in mcols]) for i, (a, b, _) in enumerate(mcols[0])]
            ctx.compare("load pixel table", case, None if ires is None else [list(x) for x in ires], None if mres is None else [list(x) for x in mres])
        if "__text" in mm:
            ctx.compare("dump text == model coo_text/bg2_text", case, jb["text"], [list(r) for r in mm["__text"][1]])
        bad = oracle_load(cool, case, code, ires, storage)
        if bad:
            ctx.fail(case, bad, None)
    ctx.extra["load_cases"] = len(jobs)


# ============================================================ C. cload pairs
def py_bin_of(cool, cid, pos):
    for i, (c, s_, e) in enumerate(cool.bins):
        if c == cid and s_ <= pos < e:
            return i
    return None


POS_NAMES = ["chrom1", "pos1", "chrom2", "pos2"]


def impl_cload(runner, cli, cool, case, pdir, k):
    """case["mode"]: file | gz | stdin (stdin through a real subprocess: CliRunner's stdin has no peek());
    duplex / short / extra / post as for load.  Only leading '#' header lines are written: `cload pairs --comment-char` is
    accepted by the CLI but not handed to read_csv (observed; outside the claim, see RESIDUE)"""
    import gzip
    import subprocess
    import sys
    import cooler
    lay = case["layout"]
    mode = case.get("mode", "file")
    body = "## pairs format v1.0\n#columns: whatever\n" if case["header"] else ""
    for i, rec in enumerate(case["text"]):
        body += "\t".join(rec) + "\n"
    inp = pdir / (f"p{k}.pairs" + (".gz" if mode == "gz" else ""))
    if mode == "gz":
        with gzip.open(inp, "wt") as f:
            f.write(body)
    elif mode == "file":
        inp.write_text(body)
    out = pdir / f"o{k}.cool"
    post = case.get("post") or {}
    target = str(out)
    extra = list(case.get("extra") or [])
    if post.get("append"):
        cool.create(str(out))
        target = str(out) + "::/second"
        extra.append("--append")
    tdir = None
    if post.get("tempdir"):
        tdir = pdir / f"tmp{k}"
        tdir.mkdir(exist_ok=True)
        extra += ["--temp-dir", str(tdir)]
    if post.get("metadata") is not None:
        mp = pdir / f"meta{k}.json"
        mp.write_text(json.dumps(post["metadata"]))
        extra += ["--metadata", str(mp)]
    args = ["cload", "pairs", "-c1", str(lay["chrom1"] + 1), "-p1", str(lay["pos1"] + 1), "-c2", str(lay["chrom2"] + 1), "-p2", str(lay["pos2"] + 1)]
    if case["zero_based"]:
        args.append("-0" if case.get("short") else "--zero-based")
    if not case["symm"]:
        args.append("-N" if case.get("short") else "--no-symmetric-upper")
    if case.get("duplex"):
        args += ["--input-copy-status", "duplex"]
    if case["chunk"] is not None:
        args += ["-c" if case.get("short") else "--chunksize", str(case["chunk"])]
    for a in case["fields"]:
        args += ["--field", a]
    args += extra + [bins_arg(cool, pdir, f"b{k}", case["bins"]), "-" if mode == "stdin" else str(inp), target]
    if mode == "stdin":
        try:
            pr = subprocess.run([sys.executable, "-W", "ignore", "-c", "from cooler.cli import cli; cli()"] + args, input=body.encode(),
                                capture_output=True, timeout=60)
            code = pr.returncode
        except subprocess.TimeoutExpired:
            code = "timeout"
    else:
        code, _ = invoke(runner, cli, args, limit=30)
    got = None
    if code == 0:
        got = read_pixels(target, cols=("count",))
        if got is not None and case["extras"]:
            ex = read_pixels(target, cols=tuple(case["extras"]), floats=bool(case.get("floats")))
            got = None if ex is None or len(ex[1]) != len(got[1]) else (got[0], [g + e[2:] for g, e in zip(got[1], ex[1])])
    obs = {}
    if code == 0 and post:
        try:
            clr = cooler.Cooler(target)
            obs["metadata"] = clr.info.get("metadata")
            obs["assembly"] = clr.info.get("genome-assembly")
            obs["groups"] = sorted(cooler.fileops.list_coolers(str(out)))
            if post.get("append"):
                first = read_pixels(str(out))
                obs["first_intact"] = first is not None and first[1] == [tuple(p) for p in cool.px]
            if tdir is not None:
                obs["tempdir_left"] = sorted(os.listdir(tdir))
            if post.get("bins_table"):
                bt = clr.bins()[:]
                obs["bins"] = [[str(c), int(s_), int(e)] for c, s_, e in zip(bt["chrom"], bt["start"], bt["end"])]
                obs["chroms"] = [[str(n), int(l)] for n, l in zip(clr.chromnames, clr.chromsizes.values)]
        except Exception as e:
            obs["error"] = type(e).__name__
    case["_obs"] = obs
    for pth in (inp, out):
        if pth.exists():
            pth.unlink()
    return code, (None if got is None else got[1])


def oracle_cload(cool, case, code, ires, pdir, k):
    """independent count of the records as written (columns read by their declared numbers), then the library path"""
    import cooler
    from cooler.create import sanitize_records, aggregate_records
    lay, extras = case["layout"], case["extras"]
    num = (lambda t: Fraction(t)) if case.get("floats") else int
    recs = [{nm: (rec[kk] if nm.startswith("chrom") else (int(rec[kk]) if nm.startswith("pos") else num(rec[kk]))) for nm, kk in lay.items()}
            for rec in case["text"]]
    aggs = case.get("aggs") or {}
    combine = {"sum": lambda x, y: x + y, "max": max, "min": min}
    cnt = Counter()
    sums = {e: {} for e in extras}
    for r in recs:
        if r["chrom1"] not in cool.names or r["chrom2"] not in cool.names:
            continue
        a1 = (cool.names.index(r["chrom1"]), r["pos1"] - (0 if case["zero_based"] else 1))
        a2 = (cool.names.index(r["chrom2"]), r["pos2"] - (0 if case["zero_based"] else 1))
        if case["symm"] and a2 < a1:
            if case.get("duplex"):
                continue
            a1, a2 = a2, a1
        key = (py_bin_of(cool, *a1), py_bin_of(cool, *a2))
        cnt[key] += 1
        for e in extras:
            sums[e][key] = r[e] if key not in sums[e] else combine[aggs.get(e, "sum")](sums[e][key], r[e])
    exp = sorted(tuple([a, b, cnt[(a, b)]] + [sums[e][(a, b)] for e in extras]) for (a, b) in cnt)
    if ires != exp:
        return {"why": "cload pairs differs from the independent count of the records", "expected": exp[:15],
                "got": None if ires is None else ires[:15], "exit": str(code)}
    try:
        df = pd.DataFrame({"chrom1": [r["chrom1"] for r in recs], "pos1": np.array([r["pos1"] for r in recs], dtype=np.int64),
                           "chrom2": [r["chrom2"] for r in recs], "pos2": np.array([r["pos2"] for r in recs], dtype=np.int64)})
        for e in extras:
            df[e] = np.array([float(r[e]) for r in recs], dtype=np.float64) if case.get("floats") else np.array([r[e] for r in recs], dtype=np.int64)
        bdf = cool.bins_df()[["chrom", "start", "end"]]
        san = sanitize_records(bdf, schema="pairs", decode_chroms=True, is_one_based=not case["zero_based"],
                               tril_action=("drop" if case.get("duplex") else "reflect") if case["symm"] else None, sort=True, validate=True)
        agg = aggregate_records(agg={e: aggs.get(e, "sum") for e in extras}, count=True, sort=False)
        lout = pdir / f"lib{k}.cool"
        cooler.create_cooler(str(lout), bdf, [agg(san(df))], columns=extras + ["count"], ordered=False,
                             symmetric_upper=case["symm"], boundscheck=False, triucheck=False, dupcheck=False, ensure_sorted=False)
        lgot = read_pixels(str(lout), cols=("count",))
        if lgot is not None and extras:
            lex = read_pixels(str(lout), cols=tuple(extras), floats=bool(case.get("floats")))
            lgot = None if lex is None else (lgot[0], [g + e[2:] for g, e in zip(lgot[1], lex[1])])
        lres = None if lgot is None else lgot[1]
        if lout.exists():
            lout.unlink()
    except Exception as e:
        lres = "library-error:" + type(e).__name__
    if lres != ires:
        return {"why": "cload pairs differs from the library path (sanitize_records + aggregate_records + create_cooler)",
                "library": lres if isinstance(lres, str) else (None if lres is None else lres[:15]), "got": None if ires is None else ires[:15]}
    post, obs = case.get("post") or {}, case.get("_obs") or {}
    if post and code == 0:
        if "error" in obs:
            return {"why": "the created file cannot be inspected", "obs": obs}
        if post.get("metadata") is not None and obs.get("metadata") != post["metadata"]:
            return {"why": "--metadata not stored", "obs": obs}
        if post.get("assembly") is not None and obs.get("assembly") != post["assembly"]:
            return {"why": "--assembly not stored", "obs": obs}
        if post.get("append") and (obs.get("groups") != ["/", "/second"] or not obs.get("first_intact")):
            return {"why": "--append: the existing collection was lost or altered", "obs": obs}
        if post.get("bins_table") and (obs.get("bins") != [[cool.names[c], s_, e] for c, s_, e in cool.bins]
                                       or obs.get("chroms") != [[n, blk[-1][2]] for n, blk in zip(cool.names, cool.blocks)]):
            return {"why": "the stored bin / chromosome table is not the one of the BINS argument as it is now", "obs": obs}
        if post.get("tempdir") and obs.get("tempdir_left"):
            return {"why": "temporary files left in --temp-dir", "obs": obs}
    return None


def run_cload(ctx, runner, cli, cools, thorough):
    import cooler
    from cooler.create import sanitize_records, aggregate_records
    rng = ctx.rng
    pdir = ctx.tmp / "pairs"
    pdir.mkdir(exist_ok=True)
    jobs = []

    def make_job(ci, layout, ncols, nextra, zero_based, symm, chunk, header, dtype_decl, nrec=None):
        """layout: dict name -> column number (0-based) for chrom1,pos1,chrom2,pos2,(score),(s2)"""
        cool = cools[ci]
        recs = []
        for _ in range(nrec if nrec is not None else rng.randint(3, 14)):
            r = {}
            for side in "12":
                c = rng.randrange(len(cool.blocks))
                L = cool.blocks[c][-1][2]
                p0 = rng.randrange(L)                        # zero-based position, < L (pos == L is finding D2 of C05)
                r["chrom" + side] = cool.names[c] if rng.random() > 0.06 else "chrUn"
                r["pos" + side] = p0 if zero_based else p0 + 1
            for e in range(nextra):
                r[["score", "s2"][e]] = rng.randint(0, 40)
            recs.append(r)
        text = []
        for r in recs:
            row = ["j%d" % rng.randint(0, 9) for _ in range(ncols)]
            for nm, k in layout.items():
                row[k] = str(r[nm])
            text.append(row)
        fields = []
        for e in range(nextra):
            nm = ["score", "s2"][e]
            fields.append(f"{nm}={layout[nm] + 1}" + (":dtype=int" if dtype_decl else "") + (",agg=sum" if dtype_decl and rng.random() < 0.5 else ""))
        if nextra == 2 and rng.random() < 0.5:
            fields = fields[::-1]
        return {"ci": ci, "layout": layout, "ncols": ncols, "zero_based": zero_based, "symm": symm, "chunk": chunk,
                "header": header, "fields": fields, "text": text, "recs": recs, "extras": ["score", "s2"][:nextra]}

    pos_names = POS_NAMES
    # regression corpus D8: -c1 4 -p1 3 -c2 2 -p2 1
    jobs.append(make_job(0, {"chrom1": 3, "pos1": 2, "chrom2": 1, "pos2": 0}, 4, 0, False, True, None, True, False))
    perms = list(itertools.permutations(range(4)))
    for pi, perm in enumerate(perms):
        ci = pi % len(cools)
        jobs.append(make_job(ci, dict(zip(pos_names, perm)), 4, 0, pi % 2 == 0, pi % 3 != 0, rng.choice([None, 2]), pi % 4 == 0, False))
    for _ in range(90 if thorough else 18):
        ci = rng.randrange(len(cools))
        nextra = rng.choice([0, 1, 1, 2])
        ncols = rng.randint(4 + nextra, 8)
        cols = rng.sample(range(ncols), 4 + nextra)
        layout = dict(zip(pos_names + ["score", "s2"][:nextra], cols))
        jobs.append(make_job(ci, layout, ncols, nextra, rng.random() < 0.5, rng.random() < 0.6, rng.choice([None, 1, 3]),
                             rng.random() < 0.3, rng.random() < 0.6))
    # ---- audit: options / representations not used above
    ident = dict(zip(pos_names, range(4)))

    def aud(**kw):
        nextra = kw.pop("nextra", 0)
        lay = dict(ident)
        if nextra:
            lay["score"] = 5
        jb = make_job(kw.pop("ci", 0), lay, 4 + (2 if nextra else 0), nextra, kw.pop("zero_based", False), kw.pop("symm", True),
                      kw.pop("chunk", None), kw.pop("header", False), False, nrec=kw.pop("nrec", 9))
        jb.update(kw)
        jobs.append(jb)
        return jb
    aud(duplex=True)
    aud(duplex=True, chunk=2, ci=1, zero_based=True, short=True)
    aud(mode="gz", header=True)
    aud(mode="stdin", header=True, nrec=5)
    aud(symm=False, zero_based=True, short=True, chunk=3)
    aud(chunk=1, extra=["--mergebuf", "2", "--max-merge", "2"], post={"tempdir": True})
    aud(extra=["--assembly", "hgX", "--storage-options", "compression=gzip,compression_opts=4"], post={"metadata": {"k": [1, 2]}, "assembly": "hgX"})
    aud(post={"append": True})
    for aggname in ("max", "min", "sum"):
        jb = aud(nextra=1, aggs={"score": aggname}, floats=True, nomodel=True)
        for row, r in zip(jb["text"], jb["recs"]):
            row[5] = str(r["score"] / 4)                        # dyadic floats
        jb["fields"] = [f"score=6:dtype=float,agg={aggname}"]
    # ---- model
    exprs, meta = [], []
    for jb in jobs:
        if jb.get("nomodel"):
            continue
        cool = cools[jb["ci"]]
        lay = jb["layout"]
        sch = (f"cload_schema {C.z(lay['chrom1'] + 1)} {C.z(lay['pos1'] + 1)} {C.z(lay['chrom2'] + 1)} {C.z(lay['pos2'] + 1)} {fp_list(jb['fields'], True)}")
        tril = ("drop" if jb.get("duplex") else "reflect") if jb["symm"] else None
        for vn in [None] + jb["extras"]:
            v = "None" if vn is None else f"(Some {C.s(vn)})"
            exprs.append(f"match {sch} with Some s => cload_pairs {coq_bins(cool)} {coq_names(cool)} s {v} {C.b(not jb['zero_based'])} {TRIL[tril]} {coq_text(jb['text'])} | None => None end")
            meta.append((jb, vn))
    mvals = C.coq_eval(IMPORTS, exprs, tmpdir=ctx.tmp / "pairsv", shard=25, jobs=4)
    by_job = {}
    for (jb, vn), mv in zip(meta, mvals):
        by_job.setdefault(id(jb), {})[vn] = mpx(mv)
    # ---- implementation, library path, oracle
    for k, jb in enumerate(jobs):
        cool = cools[jb["ci"]]
        lay = jb["layout"]
        case = {"kind": "cload-pairs", "cool": cool.spec(), "layout": lay, "ncols": jb["ncols"], "zero_based": jb["zero_based"],
                "symm": jb["symm"], "chunk": jb["chunk"], "header": jb["header"], "fields": jb["fields"], "text": jb["text"],
                "extras": jb["extras"], "bins": bins_kind(cool, rng)}
        for key in ("mode", "duplex", "short", "extra", "post", "aggs", "floats"):
            if key in jb:
                case[key] = jb[key]
        identity = [lay[n] for n in POS_NAMES] == [0, 1, 2, 3]
        ctx.case(case, nontrivial=not identity, kind="cload:" + ("ascending" if [lay[n] for n in POS_NAMES] == sorted(lay[n] for n in POS_NAMES) else "non-ascending"))
        code, ires = impl_cload(runner, cli, cool, case, pdir, k)
        if not jb.get("nomodel"):
            mm = by_job[id(jb)]
            mcols = [mm[None]] + [mm[e] for e in jb["extras"]]
            mres = None if any(mc is None for mc in mcols) else [tuple([a, b] + [mc[i][2] for mc in mcols]) for i, (a, b, _) in enumerate(mcols[0])]
            ctx.compare("cload pairs pixel table", case, None if ires is None else [list(x) for x in ires], None if mres is None else [list(x) for x in mres])
        bad = oracle_cload(cool, case, code, ires, pdir, k)
        if bad:
            ctx.fail(case, bad, None)
    ctx.extra["cload_cases"] = len(jobs)


# ============================================================ D. parse_field_param
FIELD_ARGS = ["count", "count=3", "foo=12", "foo=1", "foo=0", "foo=-1", "foo=abc", "foo=", "=3", "a=b=c", "foo=3:dtype=int", "foo=3:dtype=float64",
              "foo=3:agg=sum", "foo=3:dtype=int32,agg=mean", "foo=3:agg=sum,dtype=uint16", "foo=3:bar=1", "foo=3:dtype", "foo=3:dtype=a=b", "foo=3:",
              "foo:dtype=float", "count:dtype=float", "foo:agg=first", "x:y:z", "foo=3:dtype=int:agg=sum", "", ":", "foo=007", "foo=3:dtype=int,", "a.b-c=2"]


def run_fieldparam(ctx):
    import click
    from cooler.cli._util import parse_field_param
    cases, exprs = [], []
    for arg in FIELD_ARGS:
        for colnum, agg in ((True, True), (True, False), (False, True)):
            cases.append((arg, colnum, agg))
            exprs.append(f"parse_field_param {C.s(arg)} {C.b(colnum)} {C.b(agg)}")
    mvals = C.coq_eval(IMPORTS, exprs, tmpdir=ctx.tmp / "fpv", shard=200, jobs=2)
    for (arg, colnum, agg), mv in zip(cases, mvals):
        case = {"kind": "parse_field_param", "arg": arg, "includes_colnum": colnum, "includes_agg": agg}
        ctx.case(case, nontrivial=(":" in arg or "=" in arg), kind="field-param")
        try:
            name, k, dt, ag = parse_field_param(arg, includes_colnum=colnum, includes_agg=agg)
            impl = ["FP", name, k, None if dt is None else str(np.dtype(dt)), ag]
        except click.BadParameter:
            impl = ["Bad"]
        except Exception as e:
            impl = ["raises:" + type(e).__name__]
        if mv[1] == "FPBad":
            model = ["Bad"]
        else:
            _, _, name, k, dt, ag = mv
            model = ["FP", name, None if k is None else k[1], None if dt is None else str(np.dtype(dt[1])), None if ag is None else ag[1]]
        ctx.compare("parse_field_param", case, impl, model)
        # oracle: the documented form  name[=number][:dtype=..][,agg=..]
        import re
        m = re.fullmatch(r"([^:=]*)(?:=([0-9]+))?(?::(.*))?", arg)
        if m and (m.group(2) is None or (colnum and int(m.group(2)) >= 1)) and impl[0] == "FP":
            if impl[1] != m.group(1) or impl[2] != (None if m.group(2) is None else int(m.group(2)) - 1):
                ctx.fail(case, {"why": "field name / number not as written", "got": impl}, None)


# ============================================================ E. bins / chroms tables, zoomify -r spellings (oracle only)
def run_light(ctx, runner, cli, cools, uris, thorough):
    import cooler
    rng = ctx.rng
    for ci, cool in enumerate(cools[: (len(cools) if thorough else 5)]):
        for header in (False, True):
            for cols in (None, ["end", "chrom"]):
                case = {"kind": "dump-bins", "cool": cool.spec(), "header": header, "columns": cols}
                ctx.case(case, nontrivial=header or cols is not None, kind="dump:bins")
                args = ["dump", "-t", "bins"] + (["-H"] if header else []) + (["-c", ",".join(cols)] if cols else []) + [uris[ci]]
                code, text = invoke(runner, cli, args)
                names = ["chrom", "start", "end"] + (["weight"] if cool.weights is not None else [])
                rows = []
                for i, (c, s_, e) in enumerate(cool.bins):
                    d = {"chrom": cool.names[c], "start": str(s_), "end": str(e)}
                    if cool.weights is not None:
                        d["weight"] = fmt_float(cool.weights[i], default_opts())
                    rows.append([d[n] for n in (cols or names)])
                exp = ([cols or names] if header else []) + rows
                if code != 0 or read_tsv(text) != exp:
                    ctx.fail(case, {"why": "dump -t bins differs from the bin table", "expected": exp[:8], "got": read_tsv(text)[:8] if code == 0 else str(code)}, None)
        case = {"kind": "dump-chroms", "cool": cool.spec()}
        ctx.case(case, nontrivial=True, kind="dump:chroms")
        code, text = invoke(runner, cli, ["dump", "-t", "chroms", "-H", uris[ci]])
        exp = [["name", "length"]] + [[n, str(blk[-1][2])] for n, blk in zip(cool.names, cool.blocks)]
        if code != 0 or read_tsv(text) != exp:
            ctx.fail(case, {"why": "dump -t chroms differs from the chromosome table", "expected": exp, "got": read_tsv(text) if code == 0 else str(code)}, None)
    # --out: a plain and a gzipped file hold exactly what is streamed to stdout
    import gzip
    for ci, cool in enumerate(cools[:4]):
        o = default_opts(); o["header"] = True; o["join"] = True; o["balanced"] = cool.weights is not None; o["k"] = 2
        code0, text0 = invoke(runner, cli, cli_args(o, uris[ci]))
        for ext in (".tsv", ".tsv.gz"):
            case = {"kind": "dump-out", "cool": cool.spec(), "ext": ext}
            ctx.case(case, nontrivial=bool(cool.px), kind="dump:--out")
            outp = str(ctx.tmp / f"out{ci}{ext}")
            code, text = invoke(runner, cli, cli_args(o, uris[ci])[:-1] + ["-o", outp, uris[ci]])
            try:
                got = gzip.open(outp, "rt").read() if ext.endswith(".gz") else open(outp).read()
            except Exception as e:
                got = "unreadable:" + type(e).__name__
            if code != 0 or code0 != 0 or got != text0 or text != "":
                ctx.fail(case, {"why": "dump -o differs from the stdout stream", "exit": str(code), "file": got[:300], "stdout": text0[:300]}, None)
            if os.path.exists(outp):
                os.remove(outp)
    # zoomify -r spellings (regression D4: "10b") — light, builder of C09 owns the ladder
    zdir = ctx.tmp / "zoom"
    zdir.mkdir(exist_ok=True)
    sizes = [600, 424]
    bins = pd.DataFrame({"chrom": ["a"] * 600 + ["b"] * 424, "start": list(range(600)) + list(range(424)),
                         "end": list(range(1, 601)) + list(range(1, 425))})
    a = sorted(rng.randrange(1024) for _ in range(150))
    px = Counter()
    for x in a:
        y = rng.randrange(x, 1024)
        px[(x, y)] += 1
    keys = sorted(px)
    base = str(zdir / "z.cool")
    cooler.create_cooler(base, bins, pd.DataFrame({"bin1_id": [k[0] for k in keys], "bin2_id": [k[1] for k in keys], "count": [px[k] for k in keys]}))
    maxres = -(-sum(sizes) // 256)

    def seq(start, style):
        out, x, k = [], start, 0
        steps = [2, 2.5, 2] if style == "n" else [2, 2, 2]
        while x <= maxres:
            out.append(int(x))
            x = x * steps[k % 3]
            k += 1
        return out

    def expected(spec):
        res = []
        for tok in [t.strip().lower() for t in spec.split(",")]:
            if tok in ("n", "b"):
                res += seq(1, tok)
            elif tok[-1] in "nb":
                res += seq(int(tok[:-1]), tok[-1])
            else:
                res.append(int(tok))
        return sorted(set(res) | {1})

    for spec in ["2,4", "2b", "b", "n", "2n", "10b", "4", "3n", "B", " 2 , 4 ", "10n", "2B,3"]:
        case = {"kind": "zoomify-spec", "spec": spec}
        ctx.case(case, nontrivial=True, kind="zoomify -r")
        out = str(zdir / "z.mcool")
        code, _ = invoke(runner, cli, ["zoomify", "-r", spec, "-o", out, base], limit=60)
        try:
            lv = sorted(int(p.split("/")[-1]) for p in cooler.fileops.list_coolers(out))
        except Exception as e:
            lv = None
        if code != 0 or lv != expected(spec):
            ctx.fail(case, {"why": "zoomify -r spelling", "expected": expected(spec), "got": lv, "exit": str(code)}, "D4-regression" if spec == "10b" and code != 0 else None)
        if os.path.exists(out):
            os.remove(out)


# ============================================================ F. history pass: state carried between calls in one process
class HistCtx:
    """forwards to the real context, labelling every case with its position in the history (a history case can only be
    replayed by re-running the whole history)"""

    def __init__(self, ctx, step):
        self._ctx, self._step = ctx, step

    def _wrap(self, case):
        return {"kind": "history", "step": self._step, "inner": case}

    def case(self, case, nontrivial=True, kind=None):
        self._ctx.case(self._wrap(case), nontrivial=nontrivial, kind="history:" + (kind or "?").split(":")[0])

    def fail(self, case, detail, signature=None):
        self._ctx.fail(self._wrap(case), detail, signature)

    def compare(self, what, case, impl, model):
        return self._ctx.compare(what, self._wrap(case), impl, model)

    def disagree(self, what, case, impl, model):
        self._ctx.disagree(what, self._wrap(case), impl, model)

    def __getattr__(self, name):
        return getattr(self._ctx, name)


def history_coolers():
    Fr = Fraction
    A = Cool([[10, 10, 5], [10, 7]], [(0, 0, 3), (0, 3, 1), (1, 1, 4), (1, 2, 7), (2, 2, 1), (2, 4, 5), (3, 4, 2)],
             [Fr(1, 2), None, Fr(5, 4), Fr(2), Fr(3, 4)], True, "A")
    A2 = Cool([[10, 10, 5], [10, 7]], [(0, 1, 6), (0, 4, 2), (1, 3, 8), (2, 2, 9), (3, 3, 1), (4, 4, 4)],
              [Fr(3, 2), Fr(1, 4), None, Fr(1), Fr(7, 8)], True, "A2-same-table-other-content")
    B = Cool([[7, 23], [4, 5, 1]], [(0, 0, 2), (0, 4, 6), (1, 0, 3), (2, 1, 9), (2, 2, 1), (3, 0, 4), (3, 3, 8), (4, 1, 5)],
             [Fr(3, 8), Fr(9, 8), None, Fr(1), Fr(7, 4)], False, "B-variable-same-nbins")
    E = Cool([[5, 10, 10], [4, 13]], [(0, 2, 5), (1, 1, 2), (1, 4, 3), (2, 3, 6), (3, 3, 7)],
             [Fr(1), Fr(3, 4), Fr(5, 8), None, Fr(2)], True, "E-same-chromsizes-same-nbins-other-bins")
    N = Cool([[10, 10, 5], [10, 7]], [(0, 0, 1), (0, 2, 2), (1, 4, 3), (3, 3, 4), (3, 4, 5)],
             [Fr(2), Fr(1, 2), Fr(1, 4), Fr(3, 2), None], True, "N-other-names", names=["x1", "y2"])
    Cc = Cool([[10, 10], [10, 10, 10, 3]], [(0, 0, 1), (0, 5, 2), (1, 2, 3), (4, 5, 4), (5, 5, 6)],
              [Fr(1, 2), Fr(1), Fr(3, 2), None, Fr(2), Fr(1, 4)], True, "C-same-binsize-more-bins")
    F = Cool([[10, 10], [10, 10, 2]], [(0, 1, 2), (1, 4, 3), (2, 2, 1)], None, True, "F-same-binsize-same-nbins-other-chromsizes")
    return {"A": A, "A2": A2, "B": B, "E": E, "N": N, "C": Cc, "F": F}


def history_dump_opts(cool):
    rp = region_pairs(cool)
    w = cool.weights is not None
    out = []
    o = default_opts(); out.append(o)
    o = default_opts(); o.update(join=True, balanced=w); out.append(o)
    r, r2 = rp[11]                                   # trans: (column chromosome, row chromosome)
    o = default_opts(); o.update(join=True, balanced=w, starts1=True); o["r"] = (reg_text(cool, *r), tuple(r)); o["r2"] = (reg_text(cool, *r2, style=1), tuple(r2)); out.append(o)
    r, r2 = rp[4]
    o = default_opts(); o.update(fill=True, annotate=["weight"] if w else None); o["r"] = (reg_text(cool, *r), tuple(r)); o["r2"] = (reg_text(cool, *r2), tuple(r2)); out.append(o)
    return out


def history_tables(hc, runner, cli, cool, uri):
    """dump -t bins / -t chroms of the collection behind [uri] as it is NOW"""
    names = ["chrom", "start", "end"] + (["weight"] if cool.weights is not None else [])
    rows = []
    for i, (c, s_, e) in enumerate(cool.bins):
        d = {"chrom": cool.names[c], "start": str(s_), "end": str(e)}
        if cool.weights is not None:
            d["weight"] = fmt_float(cool.weights[i], default_opts())
        rows.append([d[n] for n in names])
    for table, exp in (("bins", [names] + rows), ("chroms", [["name", "length"]] + [[n, str(blk[-1][2])] for n, blk in zip(cool.names, cool.blocks)])):
        case = {"kind": "dump-" + table, "cool": cool.spec()}
        hc.case(case, nontrivial=True, kind="dump:" + table)
        code, text = invoke(runner, cli, ["dump", "-t", table, "-H", uri])
        if code != 0 or read_tsv(text) != exp:
            hc.fail(case, {"why": f"dump -t {table} differs from the table stored now", "expected": exp[:8], "got": read_tsv(text)[:8] if code == 0 else str(code)}, None)


def history_dump(hc, runner, cli, cool, uri):
    import cooler
    for o in history_dump_opts(cool):
        code, text = invoke(runner, cli, cli_args(o, uri))
        lib = None
        if code == 0:
            try:
                lib = library_rows(cooler.Cooler(uri), cool, o)
            except Exception:
                lib = None
        check_dump_case(hc, cool, o, code, text, SKIP, lib)
    history_tables(hc, runner, cli, cool, uri)


def history_ingest(hc, runner, cli, cool, kind, hdir, rng):
    """load -f bg2 and cload pairs with the SAME bins argument string, the SAME input and output paths"""
    n = len(cool.bins)
    keys, recs = set(), []
    for _ in range(7):
        a, b = rng.randrange(n), rng.randrange(n)
        k = (min(a, b), max(a, b))
        if k not in keys:
            keys.add(k)
            recs.append((a, b, rng.randint(1, 30)))
    text = []
    for a, b, v in recs:
        row = []
        for i in (a, b):
            c, s_, e = cool.bins[i]
            row += [cool.names[c], str(e - 1), str(e)]
        text.append(row + [str(v)])
    case = {"kind": "load-audit", "cool": cool.spec(), "fmt": "bg2", "one_based": False, "duplex": False, "chunk": None, "fields": [],
            "symm": True, "text": text, "vn": ["count"], "bins": kind, "post": {"bins_table": True}}
    hc.case(case, nontrivial=True, kind="load")
    code, ires, storage = impl_load(runner, cli, cool, case, hdir, "H")
    bad = oracle_load(cool, case, code, ires, storage)
    if bad:
        hc.fail(case, bad, None)
    rows = []
    for _ in range(8):
        row = []
        for _side in "12":
            c = rng.randrange(len(cool.blocks))
            row += [cool.names[c], str(rng.randrange(cool.blocks[c][-1][2]))]
        rows.append(row)
    case = {"kind": "cload-pairs", "cool": cool.spec(), "layout": dict(zip(POS_NAMES, range(4))), "ncols": 4, "zero_based": True, "symm": True,
            "chunk": None, "header": False, "fields": [], "text": rows, "extras": [], "bins": kind, "post": {"bins_table": True}}
    hc.case(case, nontrivial=True, kind="cload")
    code, ires = impl_cload(runner, cli, cool, case, hdir, "H")
    bad = oracle_cload(cool, case, code, ires, hdir, "H")
    if bad:
        hc.fail(case, bad, None)


def run_history(ctx, runner, cli):
    """ONE process, the same strings (paths, URIs, BINS arguments) while the files behind them change in between;
    every output is judged for the data stored NOW"""
    rng = ctx.rng
    hdir = ctx.tmp / "history"
    hdir.mkdir(exist_ok=True)
    H = history_coolers()
    step = [0]

    def hc():
        step[0] += 1
        return HistCtx(ctx, step[0])
    # (a1) one path, rewritten with another cooler between the dumps; (c) then the same in another order
    path = str(hdir / "same.cool")
    order = ["A", "B", "N", "E", "C", "A2", "A"]
    for seq in (order, ["A2", "E", "A", "C", "N", "B", "A2"]):
        for name in seq:
            if os.path.exists(path):
                os.remove(path)
            H[name].create(path)
            history_dump(hc(), runner, cli, H[name], path)
    # (a2) several coolers as groups of ONE file, dumped alternately (two spellings of the URI); then the groups swap content
    gpath = str(hdir / "groups.cool")
    for assign in (["A", "B", "N", "E"], ["E", "N", "A2", "B"]):
        if os.path.exists(gpath):
            os.remove(gpath)
        for gi, name in enumerate(assign):
            H[name].create(f"{gpath}::/g{gi}", mode="a" if gi else "w")
        for k, gi in enumerate([0, 1, 2, 3, 1, 0, 3, 2, 0, 2]):
            uri = f"{gpath}::/g{gi}" if k % 2 == 0 else f"{gpath}::g{gi}"
            history_dump(hc(), runner, cli, H[assign[gi]], uri)
    # (b) load / cload: the same BINS string, the file behind it rewritten; A / E agree in chromsizes and number of bins
    for kind, seq in (("bed", ["A", "E", "B", "N", "A", "E"]), ("sizes", ["A", "F", "N", "A", "C"]),
                      ("bed", ["E", "A", "N", "B", "E"]), ("sizes", ["C", "N", "F", "A"])):
        for name in seq:
            history_ingest(hc(), runner, cli, H[name], kind, hdir, rng)
    ctx.extra["history_steps"] = step[0]


# ============================================================ G. representations of chromosome names
NAME_ALPHABETS = [
    ("all-digits", ["1", "2", "10"]),
    ("one-digit-name", ["7"]),
    ("leading-zeros", ["01", "02", "007"]),
    ("same-number-different-text", ["1", "01", "001"]),
    ("mixed-digit-letter", ["1", "X", "MT"]),
    ("float-like", ["2.0", "3.5", "10.25"]),
    ("scientific", ["1e5", "2E3", "1e-2"]),
    ("na-like", ["NA", "nan", "null"]),
    ("na-like-2", ["None", "NaN", "NULL"]),
    ("bool-like", ["true", "false", "True"]),
    ("inf-hex-sign", ["inf", "0x1A", "+1"]),
    ("dots-dashes-underscores", ["chr1.1", "chr_2-x", "a.b_c-d"]),
    ("very-long", ["L" * 180 + "1", "L" * 180 + "2"]),
    ("everything-mixed", ["1", "NA", "chrX.1", "true", "01"]),
]


class SigCtx:
    """forwards to the real context; failures of load / cload runs that exit non-zero carry the given signature"""

    def __init__(self, ctx, signature):
        self._ctx, self._sig = ctx, signature

    def fail(self, case, detail, signature=None):
        refused = isinstance(detail, dict) and str(detail.get("exit")) not in ("0", "None")
        self._ctx.fail(case, detail, self._sig if (signature is None and refused) else signature)

    def __getattr__(self, name):
        return getattr(self._ctx, name)


def names_cooler(names, variable, rng):
    """a small symmetric cooler over the given chromosome names (binsize 10, or variable bins)"""
    widths = []
    for k in range(len(names)):
        widths.append([7, 13 + k] if variable else [10] * (1 + k % 2) + [3 + k])
    n = sum(len(w) for w in widths)
    px = random_px(rng, n, True, 0.5) or [(0, 0, 1)]
    return Cool(widths, px, None, True, "names", names=names)


def run_names(ctx, runner, cli, thorough):
    """text in = collection out whatever the chromosome names look like: names are strings, in the order given"""
    from common import load_known
    rng = ctx.rng
    ndir = ctx.tmp / "names"
    ndir.mkdir(exist_ok=True)
    na_registered = any(kf.get("signature") == NA_NAME and kf.get("property") == PROP for kf in load_known())
    for ai, (tag, names) in enumerate(NAME_ALPHABETS):
        for variable in ((False, True) if thorough else (bool(ai % 2),)):
            cool = names_cooler(names, variable, rng)
            uri = str(ndir / f"n{ai}{int(variable)}.cool")
            cool.create(uri)
            # dump: ids, joined names, tables
            for st in (dict(), dict(join=True, header=True)):
                o = default_opts(); o.update(st)
                code, text = invoke(runner, cli, cli_args(o, uri))
                check_dump_case(ctx, cool, o, code, text, SKIP, None)
            history_tables(ctx, runner, cli, cool, uri)
            # a chromosome named like a pandas NA token cannot be re-imported (candidate finding NA_NAME, reported to the lead):
            # its load / cload half runs once the signature is a registered known finding of C16; the dump half always runs
            na_names = bool(NA_TOKENS & set(cool.names))
            if na_names and not na_registered:
                ctx.extra.setdefault("names_load_half_withheld", []).append(tag)
                continue
            sigctx = SigCtx(ctx, NA_NAME) if na_names else ctx
            # dump --join | load -f bg2 and dump | load -f coo, bins given as a BED file and as chromsizes:binsize
            kinds = ["bed"] + (["sizes"] if fixed_binsize(cool) is not None else [])
            for kind in kinds:
                for fmt in ("bg2", "coo"):
                    o = default_opts(); o["join"] = fmt == "bg2"
                    code, text = invoke(runner, cli, cli_args(o, uri))
                    case = {"kind": "load-dump", "cool": cool.spec(), "fmt": fmt, "one_based": False, "duplex": False, "chunk": None, "fields": [],
                            "symm": True, "text": read_tsv(text) if code == 0 else None, "vn": ["count"], "bins": kind, "names": tag,
                            "dump_opt": {kk: (list(v) if isinstance(v, tuple) else v) for kk, v in o.items()}, "post": {"bins_table": True}}
                    sigctx.case(case, nontrivial=True, kind="names:load-" + fmt)
                    if case["text"] is None:
                        sigctx.fail(case, {"why": "the dump to be re-loaded failed"}, None)
                        continue
                    code, ires, storage = impl_load(runner, cli, cool, case, ndir, f"N{ai}")
                    bad = oracle_load(cool, case, code, ires, storage)
                    if bad:
                        sigctx.fail(case, bad, None)
                # hand-written bg2 (positions inside bins) and pairs files
                history_ingest(sigctx, runner, cli, cool, kind, ndir, rng)
    ctx.extra["name_alphabets"] = [t for t, _ in NAME_ALPHABETS]


# ============================================================ H. zoomify -r spellings at the tile-size boundary
def zoom_spec_items(spec):
    """token classes of a resolution spec for Model/Zoom.v's expand_spec (same tokenisation as the CLI: split ',', strip, lower)"""
    items = []
    for tok in spec.split(","):
        t = tok.strip().lower()
        if t == "4dn":
            items.append("Spec4DN")
        elif t == "n":
            items.append("SpecN")
        elif t == "b":
            items.append("SpecB")
        elif t.endswith("n"):
            items.append(f"(SpecIntN {C.z(int(t[:-1]))})")
        elif t.endswith("b"):
            items.append(f"(SpecIntB {C.z(int(t[:-1]))})")
        else:
            items.append(f"(SpecInt {C.z(int(t))})")
    return C.lst(items)


def zoom_levels_oracle(binsize, L, spec):
    """the documented rule: progressions (x2 / 1-2-5) start at the given resolution and keep the values <= ceil(L / 256);
    explicit integers are taken as they are; the base resolution is always present"""
    maxres = -(-L // 256)

    def prog(start, nice):
        out, x, k = [], start, 0
        while x <= maxres:
            out.append(x)
            x = x * ([2, 5, 2][k % 3]) // ([1, 2, 1][k % 3]) if nice else x * 2
            k += 1
        return out
    res = {binsize}
    for tok in (spec if spec is not None else "b").split(","):
        t = tok.strip().lower()
        if t == "4dn":
            res |= {1000, 2000} | set(prog(5000, True))
        elif t in ("n", "b"):
            res |= set(prog(binsize, t == "n"))
        elif t[-1] in "nb":
            res |= set(prog(int(t[:-1]), t[-1] == "n"))
        else:
            res.add(int(t))
    return sorted(res)


def zoom_base(zdir, case, tag):
    import cooler
    b, sizes = case["binsize"], case["sizes"]
    names = ["a", "b", "c"][: len(sizes)]
    bins = cooler.binnify(pd.Series(sizes, index=names), b)
    n = len(bins)
    px = sorted({(0, 0), (0, n - 1), (n // 2, n // 2), (n // 3, n - 2), (n - 1, n - 1)})
    base = str(zdir / f"{tag}.cool")
    if os.path.exists(base):
        os.remove(base)
    cooler.create_cooler(base, bins, pd.DataFrame({"bin1_id": [p[0] for p in px], "bin2_id": [p[1] for p in px], "count": [k + 1 for k in range(len(px))]}))
    return base


def zoom_run(runner, cli, zdir, case, base):
    """(exit status, sorted levels found in the output file or None)"""
    import cooler
    out = base[:-5] + ".mcool"
    if os.path.exists(out):
        os.remove(out)
    args = ["zoomify"] + (["-r", case["spec"]] if case["spec"] is not None else []) + ["-o", out, base]
    code, _ = invoke(runner, cli, args, limit=60)
    try:
        lv = sorted(int(p.split("/")[-1]) for p in cooler.fileops.list_coolers(out))
    except Exception:
        lv = None
    if os.path.exists(out):
        os.remove(out)
    return code, lv


def zoom_cases(thorough):
    """bases whose genome length L puts ceil(L / 256) exactly on a step of the binary / nice progression, one below, one above,
    and on a multiple of 256 (floor = ceil); every spelling of the spec on each"""
    exact = [(1, 400), (1, 1100), (2, 1000), (2, 2500), (5, 2400)]            # ceil(L/256) = 2, 5, 4, 10, 10: a step, floor is not
    control = [(1, 1024), (2, 768), (2, 1030), (5, 1000)]                     # multiple of 256 / one below / one above / below the base
    if thorough:
        exact += [(1, 1000), (1, 1900), (2, 2000), (5, 6200)]
        control += [(1, 1300), (2, 2304), (2, 2600), (5, 6400)]
    small = [(b, L, True) for b, L in exact] + [(b, L, thorough) for b, L in control]
    big = [2_559_900, 2_560_000] + ([2_561_000, 2_559_000] if thorough else [])
    cases = []
    for b, L, full in small:
        sizes = [L // 2 + 3, L - (L // 2 + 3)]
        specs = [None, "B", "n", f"{b}b", f"{b}N", f"{2 * b}B", f" {2 * b}n ", f"{2 * b},{4 * b}", f" {2 * b} , {b}B", f"{b}n,{4 * b}", f"{4 * b}N,{2 * b}b"]
        if not full:
            specs = [None, "n", f"{2 * b}B", f"{b}n,{4 * b}"]
        elif not thorough:
            specs = [None, "B", "n", f"{b}N", f"{2 * b}B", f" {2 * b}n ", f" {2 * b} , {b}B", f"{b}n,{4 * b}"]
        for sp in specs:
            cases.append({"kind": "zoomify-levels", "binsize": b, "sizes": sizes, "spec": sp})
    for L in big:
        sizes = [L - 1_000_000, 1_000_000]
        for sp in (["4DN", " 4dn", "N", "1000n", "1000,2000,5000N", "2000B,4Dn", "5000N"] if thorough or L % 256 else ["4dn", "N"]):
            cases.append({"kind": "zoomify-levels", "binsize": 1000, "sizes": sizes, "spec": sp})
    return cases


def run_zoom_specs(ctx, runner, cli, thorough):
    zdir = ctx.tmp / "zoomspec"
    zdir.mkdir(exist_ok=True)
    cases = zoom_cases(thorough)
    exprs = [f"expand_spec {C.z(c['binsize'])} (maxres_fixed {C.z(sum(c['sizes']))}) {zoom_spec_items(c['spec'] if c['spec'] is not None else 'b')}" for c in cases]
    model = C.coq_eval("From Cooler Require Import Model.Zoom.", exprs, tmpdir=ctx.tmp / "zoomspecv", shard=200, jobs=2)
    bases = {}
    for case, mo in zip(cases, model):
        L = sum(case["sizes"])
        ctx.case(case, nontrivial=True, kind="zoomify -r boundary")
        key = (case["binsize"], tuple(case["sizes"]))
        if key not in bases:
            bases[key] = zoom_base(zdir, case, f"z{len(bases)}")
        code, lv = zoom_run(runner, cli, zdir, case, bases[key])
        mlv = sorted(set(mo) | {case["binsize"]})
        ctx.compare("cooler zoomify -r levels", case, lv if code == 0 else str(code), mlv)
        exp = zoom_levels_oracle(case["binsize"], L, case["spec"])
        if code != 0 or lv != exp:
            ctx.fail(case, {"why": "levels written by zoomify differ from the documented expansion of the spec", "maxres": -(-L // 256),
                            "expected": exp, "got": lv, "exit": str(code)}, None)
    ctx.extra["zoomify_boundary_cases"] = len(cases)


# ============================================================ I. shapes of BED bin tables (uniform interior + odd last bins)
BIN_SHAPES = [
    ("uniform-exact", [[10, 10, 10], [10, 10], [10, 10, 10, 10]]),
    ("shorter-last-first-chrom", [[10, 10, 4], [10, 10], [10, 10, 10]]),
    ("shorter-last-middle-chrom", [[10, 10], [10, 10, 7], [10, 10, 10]]),
    ("shorter-last-last-chrom", [[10, 10], [10, 10, 10], [10, 1]]),
    ("longer-last-first-chrom", [[10, 10, 15], [10, 10, 10, 6]]),
    ("longer-last-middle-chrom", [[10, 10], [10, 10, 17], [10, 10, 5]]),
    ("longer-last-last-chrom", [[10, 10], [10, 5], [10, 10, 25]]),
    ("longer-last-everywhere", [[10, 13], [10, 10, 21], [10, 34]]),
    ("single-bin-chroms", [[10, 10, 10], [7], [10, 10], [10]]),
    ("single-long-bin-first", [[30], [10, 10, 3]]),
    ("single-short-bin-first", [[4], [10, 10, 10]]),
    ("one-interior-bin-differs", [[10, 12, 10, 10], [10, 10]]),
    ("fully-variable", [[3, 11, 6], [8, 2, 9]]),
]


def shape_positions(cool):
    """(chromosome id, zero-based position) anchors: first and last base of every chromosome, and in every LAST bin its first base,
    the bases one and two nominal bin widths further (when the bin is that long) and its last base; plus every interior bin edge"""
    out = []
    for ci, blk in enumerate(cool.blocks):
        b = blk[0][2] - blk[0][1]
        _, s_, e = blk[-1]
        cand = [0, s_, s_ + b - 1, s_ + b, s_ + b + 1, s_ + 2 * b, e - 2, e - 1]
        for _, bs, be in blk:
            cand += [bs, be - 1]
        for pos in cand:
            if 0 <= pos < e and (ci, pos) not in out:
                out.append((ci, pos))
    return out


def run_bin_shapes(ctx, runner, cli, thorough):
    sdir = ctx.tmp / "shapes"
    sdir.mkdir(exist_ok=True)
    for tag, widths in BIN_SHAPES:
        cool = Cool(widths, [(0, 0, 1)], None, True, "shape:" + tag)
        anchors = shape_positions(cool)
        m = len(anchors)
        pairs = [(anchors[i], anchors[(i * 7 + 3) % m]) for i in range(m)] + [(anchors[i], anchors[i]) for i in range(0, m, 3)]
        # cload pairs (zero-based positions), BINS = the BED file
        rows = [[cool.names[c1], str(p1), cool.names[c2], str(p2)] for (c1, p1), (c2, p2) in pairs]
        case = {"kind": "cload-pairs", "cool": cool.spec(), "layout": dict(zip(POS_NAMES, range(4))), "ncols": 4, "zero_based": True, "symm": True,
                "chunk": None, "header": False, "fields": [], "text": rows, "extras": [], "bins": "bed", "shape": tag, "post": {"bins_table": True}}
        ctx.case(case, nontrivial=True, kind="shapes:cload")
        code, ires = impl_cload(runner, cli, cool, case, sdir, "S")
        bad = oracle_cload(cool, case, code, ires, sdir, "S")
        if bad:
            ctx.fail(case, bad, None)
        # load -f bg2 with the anchors as start positions (every record its own chunk, equal pixels add up)
        text, seen = [], set()
        for k, ((c1, p1), (c2, p2)) in enumerate(pairs):
            key = tuple(sorted((py_bin_of(cool, c1, p1), py_bin_of(cool, c2, p2))))
            if key in seen:                       # one record per pixel: `load` refuses a pixel repeated inside a chunk
                continue
            seen.add(key)
            text.append([cool.names[c1], str(p1), str(p1 + 1), cool.names[c2], str(p2), str(p2 + 1), str(1 + k % 5)])
        # the tail anchors of every last bin must survive the de-duplication: put them first in a second file
        tail = [(a, a) for a in anchors if a[1] == cool.blocks[a[0]][-1][2] - 1]
        case = {"kind": "load-audit", "cool": cool.spec(), "fmt": "bg2", "one_based": False, "duplex": False, "chunk": None, "fields": [],
                "symm": True, "text": text, "vn": ["count"], "bins": "bed", "shape": tag, "post": {"bins_table": True}}
        for txt in (text, [[cool.names[c], str(p), str(p + 1), cool.names[c], str(p), str(p + 1), "3"] for (c, p), _ in tail]):
            case = dict(case, text=txt)
            ctx.case(case, nontrivial=True, kind="shapes:load-bg2")
            code, ires, storage = impl_load(runner, cli, cool, case, sdir, "S")
            bad = oracle_load(cool, case, code, ires, storage)
            if bad:
                ctx.fail(case, bad, None)
    ctx.extra["bin_table_shapes"] = [t for t, _ in BIN_SHAPES]


# ============================================================ J. storage mode x --input-copy-status x format (option interplay)
def run_copy_status(ctx, runner, cli, cools, uris):
    """cross product {symmetric, -N} x {unique, duplex} x {coo, bg2} on three kinds of text: the full-matrix dump (-f) of a symmetric
    cooler, the dump of a square cooler, the upper-triangle dump of a symmetric cooler.  Documented meaning per cell: symmetric + unique
    mirrors lower-triangle records into the upper triangle (a pixel repeated inside one chunk is refused, across chunks it adds up);
    symmetric + duplex drops them; with -N (square storage) the copy status has no meaning and every record is stored as it is"""
    cdir = ctx.tmp / "copystatus"
    cdir.mkdir(exist_ok=True)
    sym, sq = cools[0], cools[1]
    sources = [("full-matrix-of-symmetric", sym, uris[0], True), ("square", sq, uris[1], False), ("upper-of-symmetric", sym, uris[0], False)]
    k = 0
    for sname, cool, uri, fill in sources:
        for fmt in ("coo", "bg2"):
            o = default_opts(); o["fill"] = fill; o["join"] = fmt == "bg2"
            code, text = invoke(runner, cli, cli_args(o, uri))
            text = read_tsv(text) if code == 0 else None
            for symm in (True, False):
                for status in ("unique", "duplex", None):
                    for chunk in ((None, 3) if status else (None,)):
                        k += 1
                        case = {"kind": "load-audit", "cool": cool.spec(), "fmt": fmt, "one_based": False, "duplex": status == "duplex", "chunk": chunk,
                                "fields": [], "symm": symm, "text": text, "vn": ["count"], "bins": "bed", "source": sname,
                                "short": k % 2 == 0, "extra": ["--input-copy-status", "unique"] if status == "unique" else []}
                        ctx.case(case, nontrivial=True, kind="copy-status:" + ("sym" if symm else "square") + ":" + str(status))
                        if text is None:
                            ctx.fail(case, {"why": "the dump to be re-loaded failed"}, None)
                            continue
                        code2, ires, storage = impl_load(runner, cli, cool, case, cdir, "X")
                        bad = oracle_load(cool, case, code2, ires, storage)
                        if not bad and code2 == 0 and storage != symm:
                            bad = {"why": "storage mode of the loaded cooler is not the requested one", "symmetric": storage}
                        if bad:
                            ctx.fail(case, bad, None)
    ctx.extra["copy_status_cases"] = k


# ============================================================ K. float counts through the one-pass and the two-pass merge
def run_float_merge(ctx, runner, cli):
    """fractional `count` values re-imported through coo, bg2 and pairs with 1 chunk, several chunks <= --max-merge and
    more chunks than --max-merge (two-pass merge of the unordered creator): values and dtype must come back exactly"""
    rng = ctx.rng
    fdir = ctx.tmp / "floatmerge"
    fdir.mkdir(exist_ok=True)
    widths = [[10] * 6, [10] * 3 + [4]]
    n = 10
    cells = [(i, j) for i in range(n) for j in range(i, n)]
    px = [(i, j, Fraction(rng.randint(1, 63), 8)) for (i, j) in rng.sample(cells, 40)]
    cool = Cool(widths, px, None, True, "float-merge", fcount=True)
    uri = str(fdir / "f.cool")
    cool.create(uri)
    plans = [("one-chunk", None, []), ("chunks<=max-merge", 15, []), ("two-pass", 3, ["--max-merge", "3"]), ("two-pass-4", 4, ["--max-merge", "2", "--mergebuf", "5"])]
    for fmt, fextra, fields in (("coo", ["--count-as-float"], []), ("coo", [], ["count=3:dtype=float"]), ("bg2", [], ["count=7:dtype=float"]), ("bg2", ["--count-as-float"], [])):
        o = default_opts(); o["ff"] = ".12g"; o["join"] = fmt == "bg2"
        code, text = invoke(runner, cli, cli_args(o, uri))
        for pname, chunk, mextra in plans:
            case = {"kind": "load-dump", "cool": cool.spec(), "fmt": fmt, "one_based": False, "duplex": False, "chunk": chunk, "fields": fields,
                    "symm": True, "text": read_tsv(text) if code == 0 else None, "vn": ["count"], "bins": "sizes", "plan": pname,
                    "dump_opt": {kk: (list(v) if isinstance(v, tuple) else v) for kk, v in o.items()}, "extra": fextra + mextra, "floats": True}
            ctx.case(case, nontrivial=True, kind="float-merge:load-" + fmt)
            if case["text"] is None:
                ctx.fail(case, {"why": "the dump to be re-loaded failed"}, None)
                continue
            code2, ires, storage = impl_load(runner, cli, cool, case, fdir, "F")
            bad = oracle_load(cool, case, code2, ires, storage)
            if bad:
                ctx.fail(case, bad, None)
    # pairs with a float count column: one or two records per pixel whose values add up to the pixel's value
    rows, expect = [], {}
    for a, b, v in cool.px:
        parts = [v / 2, v / 2] if (a + b) % 3 == 0 else [v]
        for part in parts:
            ends = []
            for i in (a, b):
                c, s_, e = cool.bins[i]
                ends += [cool.names[c], str(rng.randrange(s_, e))]
            rows.append(ends + [repr(float(part))])
        expect[(a, b)] = v
    rng.shuffle(rows)
    for pname, chunk, mextra in plans:
        case = {"kind": "cload-float", "cool": cool.spec(), "text": rows, "chunk": chunk, "extra": mextra, "plan": pname}
        ctx.case(case, nontrivial=True, kind="float-merge:cload")
        bad = cload_float_check(runner, cli, cool, case, fdir)
        if bad:
            ctx.fail(case, bad, None)


def cload_float_check(runner, cli, cool, case, fdir):
    inp, out = fdir / "fp.pairs", fdir / "fp.cool"
    inp.write_text("".join("\t".join(r) + "\n" for r in case["text"]))
    if out.exists():
        out.unlink()
    args = ["cload", "pairs", "-c1", "1", "-p1", "2", "-c2", "3", "-p2", "4", "-0", "--field", "count=5:dtype=float"]
    if case["chunk"] is not None:
        args += ["--chunksize", str(case["chunk"])]
    args += list(case["extra"]) + [bins_arg(cool, fdir, "fp", "sizes"), str(inp), str(out)]
    code, _ = invoke(runner, cli, args, limit=60)
    got = read_pixels(str(out), cols=("count",), floats=True) if code == 0 else None
    exp = Counter()
    for r in case["text"]:                         # independent reading of the file
        a = py_bin_of(cool, cool.names.index(r[0]), int(r[1]))
        b = py_bin_of(cool, cool.names.index(r[2]), int(r[3]))
        exp[(min(a, b), max(a, b))] += Fraction(r[4])
    expl = sorted((a, b, v) for (a, b), v in exp.items())
    for pth in (inp, out):
        if pth.exists():
            pth.unlink()
    if got is None or got[1] != expl:
        return {"why": "cload pairs with a float count column: values / dtype not reproduced", "exit": str(code),
                "expected": [[a, b, float(v)] for a, b, v in expl[:10]], "got": None if got is None else [[a, b, float(v)] for a, b, v in got[1][:10]]}
    return None


# ============================================================ run / replay
def run(ctx):
    from click.testing import CliRunner
    from cooler.cli import cli
    import logging
    logging.disable(logging.INFO)
    thorough = ctx.tier == "thorough"
    runner = CliRunner()
    cwd = os.getcwd()
    os.chdir(ctx.tmp)
    try:
        import time
        tm, t0 = {}, time.time()
        cools, uris = run_dump(ctx, runner, cli, thorough); tm["dump"] = round(time.time() - t0, 1); t0 = time.time()
        run_dump_audit(ctx, runner, cli, cools, uris); tm["dump_audit"] = round(time.time() - t0, 1); t0 = time.time()
        run_load(ctx, runner, cli, cools, uris, thorough); tm["load"] = round(time.time() - t0, 1); t0 = time.time()
        run_cload(ctx, runner, cli, cools, thorough); tm["cload"] = round(time.time() - t0, 1); t0 = time.time()
        run_fieldparam(ctx); tm["fieldparam"] = round(time.time() - t0, 1); t0 = time.time()
        run_light(ctx, runner, cli, cools, uris, thorough); tm["light"] = round(time.time() - t0, 1); t0 = time.time()
        run_history(ctx, runner, cli); tm["history"] = round(time.time() - t0, 1); t0 = time.time()
        run_names(ctx, runner, cli, thorough); tm["names"] = round(time.time() - t0, 1); t0 = time.time()
        run_zoom_specs(ctx, runner, cli, thorough); tm["zoom_specs"] = round(time.time() - t0, 1); t0 = time.time()
        run_bin_shapes(ctx, runner, cli, thorough); tm["bin_shapes"] = round(time.time() - t0, 1); t0 = time.time()
        run_copy_status(ctx, runner, cli, cools, uris); tm["copy_status"] = round(time.time() - t0, 1); t0 = time.time()
        run_float_merge(ctx, runner, cli); tm["float_merge"] = round(time.time() - t0, 1)
        ctx.extra["section_wall_s"] = tm
    finally:
        os.chdir(cwd)
        logging.disable(logging.NOTSET)


def replay(ctx, case):
    from click.testing import CliRunner
    from cooler.cli import cli
    import logging
    import shutil
    logging.disable(logging.INFO)
    runner = CliRunner()
    kind = case["kind"]
    cwd = os.getcwd()
    os.chdir(ctx.tmp)
    try:
        if kind == "dump":
            cool = Cool.from_spec(case["cool"])
            opt = case["opt"]
            for k in ("r", "r2"):
                if opt[k] is not None:
                    opt[k] = (opt[k][0], tuple(opt[k][1]))
            uri = str(ctx.tmp / "replay.cool")
            cool.create(uri)
            code, text = invoke(runner, cli, cli_args(opt, uri)[:-1] + list(case.get("extra_args") or []) + [uri])
            sub = type(ctx)(ctx.prop, ctx.tier, ctx.seed)
            check_dump_case(sub, cool, opt, code, text, SKIP, extra_args=case.get("extra_args"))
            shutil.rmtree(sub.tmp, ignore_errors=True)
            return not sub.failures
        if kind in ("load-dump", "load-fields", "load-audit"):
            cool = Cool.from_spec(case["cool"])
            if kind == "load-dump":
                uri = str(ctx.tmp / "replay.cool")
                cool.create(uri)
                opt = case["dump_opt"]
                code, text = invoke(runner, cli, cli_args(opt, uri))
                if code != 0:
                    return False
                case = dict(case, text=read_tsv(text))
            code, ires, storage = impl_load(runner, cli, cool, case, ctx.tmp, 0)
            return oracle_load(cool, case, code, ires, storage) is None
        if kind == "cload-pairs":
            cool = Cool.from_spec(case["cool"])
            code, ires = impl_cload(runner, cli, cool, case, ctx.tmp, 0)
            return oracle_cload(cool, case, code, ires, ctx.tmp, 0) is None
        if kind == "cload-float":
            return cload_float_check(runner, cli, Cool.from_spec(case["cool"]), case, ctx.tmp) is None
        if kind == "zoomify-levels":
            code, lv = zoom_run(runner, cli, ctx.tmp, case, zoom_base(ctx.tmp, case, "replay"))
            return code == 0 and lv == zoom_levels_oracle(case["binsize"], sum(case["sizes"]), case["spec"])
        if kind == "history":        # state between calls: only the whole history reproduces it
            sub = type(ctx)(ctx.prop, ctx.tier, ctx.seed)
            try:
                run_history(sub, runner, cli)
            finally:
                shutil.rmtree(sub.tmp, ignore_errors=True)
            return not [f for f in sub.failures if f[0].get("step") == case["step"] and f[2] is None]
        # the light checks (bins/chroms tables, zoomify spellings, parse_field_param) re-run as a whole
        sub = type(ctx)(ctx.prop, ctx.tier, ctx.seed)
        try:
            if kind == "parse_field_param":
                run_fieldparam(sub)
            else:
                cools = make_coolers(sub.rng, False)[:5]
                uris = []
                for ci, cool in enumerate(cools):
                    uris.append(str(ctx.tmp / f"r{ci}.cool"))
                    cool.create(uris[-1])
                sub.tmp = ctx.tmp
                run_light(sub, runner, cli, cools, uris, False)
        finally:
            pass
        return not [f for f in sub.failures if f[0].get("kind") == kind and all(f[0].get(k) == v for k, v in case.items() if k != "cool")]
    finally:
        os.chdir(cwd)
        logging.disable(logging.NOTSET)
