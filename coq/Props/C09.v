(** C09  Every zoom level of a multires file equals direct coarsening of its base.
    Only statements; proofs are in Proofs/ZoomProofs.v.  Model: Model/Zoom.v. *)
From Cooler Require Import Model.Zoom Proofs.BinsProofs Proofs.PixelsProofs Proofs.CoarsenGroupBy Proofs.CoarsenProofs Proofs.ZoomProofs.
From Coq Require Import Sorted Permutation.

(** get_multiplier_sequence, when it returns: resn = sorted(set(bases) | set(resolutions)); every entry is
    either a base (pred = -1) or has a predecessor EARLIER in resn of which it is an integer multiple >= 2 *)
Theorem C09_multseq_sound : forall res bs resn pred mult,
  Positive res -> Positive bs ->
  get_multiplier_sequence res (Some bs) = Some (resn, pred, mult) ->
  resn = np_unique (bs ++ res) /\ length pred = length resn /\ length mult = length resn /\
  forall i, (i < length resn)%nat ->
    (nth i pred 0 = -1 /\ nth i mult 0 = -1 /\ In (nth i resn 0) bs) \/
    (0 <= nth i pred 0 < Z.of_nat i /\ 2 <= nth i mult 0 /\
     nth (Z.to_nat (nth i pred 0)) resn 0 * nth i mult 0 = nth i resn 0).
Proof.
  intros res bs resn pred mult Hr Hb H.
  destruct (multseq_sound res bs Hr Hb resn pred mult H) as (-> & A & B & D). auto.
Qed.
Print Assumptions C09_multseq_sound.

(** it refuses (ValueError) exactly when some requested resolution is not a multiple of any base *)
Theorem C09_multseq_complete : forall res bs, Positive res -> Positive bs ->
  (get_multiplier_sequence res (Some bs) = None <-> exists r, In r res /\ forall b, In b bs -> r mod b <> 0).
Proof. exact multseq_complete. Qed.
Print Assumptions C09_multseq_complete.

(** zoomify_cooler (bases = (bin size, cooler) per base URI, all valid coolers): when it returns, the levels
    written are exactly the requested and base resolutions, each once; every level is the copied base
    (a base is never re-derived, even when it is a multiple of another base) or the DIRECT coarsening of a
    base by the ratio of resolutions — for any chunk/batch size, whatever chain of intermediate levels the
    multiplier sequence used; and it refuses exactly when a requested resolution is not a multiple of a base *)
Theorem C09_zoom_level_eq_direct : forall bases res chunksize batchsize,
  1 <= chunksize -> 1 <= batchsize -> Positive res -> Positive (map fst bases) ->
  (forall b c, In (b, c) bases -> ValidCooler c) ->
  (forall lv, zoomify_cooler bases res chunksize batchsize = Some lv ->
     Permutation (map fst lv) (np_unique (map fst bases ++ res)) /\ NoDup (map fst lv) /\
     forall r c, lookup r lv = Some c ->
       ((In r (map fst bases) /\ lookup r (base_dict bases) = Some c) \/
        (~ In r (map fst bases) /\ exists b cb k, In b (map fst bases) /\ lookup b (base_dict bases) = Some cb /\
            2 <= k /\ r = b * k /\ forall cs bs, 1 <= cs -> 1 <= bs -> c = coarsen_c cb k cs bs))
       /\ ValidCooler c) /\
  (zoomify_cooler bases res chunksize batchsize = None <->
     exists r, In r res /\ forall b, In b (map fst bases) -> r mod b <> 0).
Proof. exact zoom_level_eq_direct. Qed.
Print Assumptions C09_zoom_level_eq_direct.

(** the same for zoomify_cooler(columns=, agg=) with ANY value type and any aggregation that is permutation
    invariant and composes over a partition into non-empty blocks (sum, max, min: C08_sum_max_min_compose;
    not the mean: ex_C09_mean_chain_refuted) *)
Theorem C09_zoom_level_eq_direct_any_agg : forall (V : Type) (agg : list V -> V),
  (forall vs vs', Permutation vs vs' -> agg vs = agg vs') ->
  (forall Gs : list (list V), Forall (fun G => G <> []) Gs -> agg (map agg Gs) = agg (concat Gs)) ->
  forall bases res chunksize batchsize,
  1 <= chunksize -> 1 <= batchsize -> Positive res -> Positive (map fst bases) ->
  (forall b c, In (b, c) bases -> ValidCoolerG c) ->
  (forall lv, zoomify_cooler_g agg bases res chunksize batchsize = Some lv ->
     Permutation (map fst lv) (np_unique (map fst bases ++ res)) /\ NoDup (map fst lv) /\
     forall r c, lookup r lv = Some c ->
       ((In r (map fst bases) /\ lookup r (base_dict bases) = Some c) \/
        (~ In r (map fst bases) /\ exists b cb k, In b (map fst bases) /\ lookup b (base_dict bases) = Some cb /\
            2 <= k /\ r = b * k /\ forall cs bs, 1 <= cs -> 1 <= bs -> c = coarsen_cg agg cb k cs bs))
       /\ ValidCoolerG c) /\
  (zoomify_cooler_g agg bases res chunksize batchsize = None <->
     exists r, In r res /\ forall b, In b (map fst bases) -> r mod b <> 0).
Proof. intros V agg Hp Hc. exact (zoom_level_eq_direct_g agg Hp (composes_decomp agg Hc)). Qed.
Print Assumptions C09_zoom_level_eq_direct_any_agg.

(** instantiated: sum, max and min (V = Z), as driven by the harness *)
Theorem C09_zoom_level_eq_direct_sum_max_min : forall op bases res chunksize batchsize,
  1 <= chunksize -> 1 <= batchsize -> Positive res -> Positive (map fst bases) ->
  (forall b c, In (b, c) bases -> ValidCoolerG c) ->
  forall lv, zoomify_cooler_g (agg_of op) bases res chunksize batchsize = Some lv ->
  forall r c, lookup r lv = Some c -> ~ In r (map fst bases) ->
  exists b cb k, In b (map fst bases) /\ lookup b (base_dict bases) = Some cb /\ 2 <= k /\ r = b * k /\
                 c = coarsen_cg (agg_of op) cb k chunksize batchsize.
Proof.
  intros op bases res cs bs Hcs Hbs Hr Hb Hv lv E r c Hl Hn.
  destruct (zoom_level_eq_direct_g (agg_of op) (agg_of_perm op) (agg_of_decomp op) bases res cs bs Hcs Hbs Hr Hb Hv) as [H _].
  destruct (H lv E) as (_ & _ & D). destruct (D r c Hl) as [[(X & _)|(_ & b & cb & k & A1 & A2 & A3 & A4 & A5)] _]; [contradiction|].
  exists b, cb, k. repeat split; auto.
Qed.
Print Assumptions C09_zoom_level_eq_direct_sum_max_min.

(** the step used along the chain: two coarsenings of a valid cooler compose *)
Theorem C09_coarsen_c_compose : forall c k1 k2 cs1 bs1 cs2 bs2 cs bs,
  1 <= k1 -> 1 <= k2 -> 1 <= cs1 -> 1 <= bs1 -> 1 <= cs2 -> 1 <= bs2 -> 1 <= cs -> 1 <= bs -> ValidCooler c ->
  coarsen_c (coarsen_c c k1 cs1 bs1) k2 cs2 bs2 = coarsen_c c (k1 * k2) cs bs.
Proof. exact coarsen_c_compose. Qed.
Print Assumptions C09_coarsen_c_compose.

(* --------------------------------------------------- the -r grammar of `cooler zoomify` *)
(** rB -> exactly the r*2^i <= max, ascending; rN -> exactly the r*{1,2,5}*10^j <= max, ascending
    (a strictly sorted list is determined by its members: sorted_lt_ext) *)
Theorem C09_spec_binary : forall start stop, 1 <= start ->
  (forall y, In y (preferred_sequence start stop true) <-> exists i, 0 <= i /\ y = start * 2 ^ i /\ y <= stop) /\
  StronglySorted Z.lt (preferred_sequence start stop true).
Proof. exact preferred_binary_spec. Qed.
Print Assumptions C09_spec_binary.

Theorem C09_spec_nice : forall start stop, 1 <= start ->
  (forall y, In y (preferred_sequence start stop false) <->
     exists j m, 0 <= j /\ (m = 1 \/ m = 2 \/ m = 5) /\ y = start * 10 ^ j * m /\ y <= stop) /\
  StronglySorted Z.lt (preferred_sequence start stop false).
Proof. exact preferred_nice_spec. Qed.
Print Assumptions C09_spec_nice.

Theorem C09_sorted_determined : forall l1 l2, StronglySorted Z.lt l1 -> StronglySorted Z.lt l2 ->
  (forall y, In y l1 <-> In y l2) -> l1 = l2.
Proof. exact sorted_lt_ext. Qed.
Print Assumptions C09_sorted_determined.

(** the expansion itself: items in order; 4DN is an alias for 1000,2000,5000N; plain integers stand for themselves *)
Theorem C09_spec_expand : forall curres maxres items,
  expand_spec curres maxres items = concat (map (fun it =>
    match it with
    | SpecN => preferred_sequence curres maxres false
    | SpecB => preferred_sequence curres maxres true
    | Spec4DN => 1000 :: 2000 :: preferred_sequence 5000 maxres false
    | SpecIntN r => preferred_sequence r maxres false
    | SpecIntB r => preferred_sequence r maxres true
    | SpecInt r => [r]
    end) items).
Proof. reflexivity. Qed.
Print Assumptions C09_spec_expand.

Example ex_C09_multseq :
  get_multiplier_sequence [8;4;16;12] (Some [2;4]) = Some ([2; 4; 8; 12; 16], [-1; 0; 1; 1; 2], [-1; 2; 2; 3; 2]) /\
  get_multiplier_sequence [2;3;6] (Some [1]) = Some ([1; 2; 3; 6], [-1; 0; 0; 2], [-1; 2; 3; 2]) /\
  get_multiplier_sequence [6;7] (Some [2]) = None.
Proof. vm_compute. repeat split; reflexivity. Qed.

(** a two-base run of the D17 shape (bases 2 and 4 over one chromosome of 4 resp. 2 bins; base 4 carries its
    own data): level 4 is the COPY of base 4, level 8 derives from it *)
Definition ex_b2 : cooler := ([(0,0,2);(0,2,4);(0,4,6);(0,6,8)], [8], [((0,0),1);((0,3),2);((2,3),5)]).
Definition ex_b4 : cooler := ([(0,0,4);(0,4,8)], [8], [((0,1),100)]).
Example ex_C09_zoomify :
  zoomify_cooler [(2, ex_b2); (4, ex_b4)] [8] 1 1 =
    Some [(8, ([(0,0,8)], [8], [((0,0),100)])); (2, ex_b2); (4, ex_b4)] /\
  zoomify_cooler [(2, ex_b2)] [4; 8] 1 1 =
    Some [(8, ([(0,0,8)], [8], [((0,0),8)])); (4, ([(0,0,4);(0,4,8)], [8], [((0,0),1);((0,1),2);((1,1),5)])); (2, ex_b2)] /\
  zoomify_cooler [(2, ex_b2)] [4; 7] 1 1 = None.
Proof. vm_compute. repeat split; reflexivity. Qed.

Example ex_C09_valid_cooler : ValidCooler ex_b2 /\ ValidCooler ex_b4.
Proof.
  split.
  - exists [[(0,0,2);(0,2,4);(0,4,6);(0,6,8)]]. split; [reflexivity|]. split; [apply valid_blocks_b_sound; reflexivity|].
    split; [reflexivity|]. split; [apply ssorted_b_rowsorted; reflexivity|apply inrange_b_sound; reflexivity].
  - exists [[(0,0,4);(0,4,8)]]. split; [reflexivity|]. split; [apply valid_blocks_b_sound; reflexivity|].
    split; [reflexivity|]. split; [apply ssorted_b_rowsorted; reflexivity|apply inrange_b_sound; reflexivity].
Qed.

Example ex_C09_spec :
  expand_spec 10 200 [SpecIntB 10] = [10; 20; 40; 80; 160] /\
  expand_spec 10 200 [SpecIntN 10] = [10; 20; 50; 100; 200] /\
  expand_spec 1000 11719 [Spec4DN] = [1000; 2000; 5000; 10000] /\
  expand_spec 10 200 [SpecInt 20; SpecIntB 40] = [20; 40; 80; 160].
Proof. vm_compute. repeat split; reflexivity. Qed.

(** max along a chain 2 -> 4 -> 8 equals max over the base block; the mean along the same chain does NOT
    equal the mean over the base block (which is why the harness never uses mean on chains) *)
Definition ex_g2 : gcooler Z := ([(0,0,2);(0,2,4);(0,4,6);(0,6,8)], [8], [((0,0),1);((0,2),3);((1,3),5)]).
Example ex_C09_max_chain :
  zoomify_cooler_g agg_max [(2, ex_g2)] [4; 8] 1 1 =
    Some [(8, ([(0,0,8)], [8], [((0,0),5)])); (4, ([(0,0,4);(0,4,8)], [8], [((0,0),1);((0,1),5)])); (2, ex_g2)] /\
  coarsen_cg agg_max ex_g2 4 1 1 = ([(0,0,8)], [8], [((0,0),5)]).
Proof. vm_compute. split; reflexivity. Qed.
Example ex_C09_mean_chain_refuted :
  (exists lv c, zoomify_cooler_g agg_mean [(2, ex_g2)] [4; 8] 1 1 = Some lv /\ lookup 8 lv = Some c /\
                c <> coarsen_cg agg_mean ex_g2 4 1 1) /\
  snd (coarsen_cg agg_mean ex_g2 4 1 1) = [((0,0),3)].
Proof.
  split; [|vm_compute; reflexivity].
  eexists. eexists. split; [vm_compute; reflexivity|]. split; [vm_compute; reflexivity|]. vm_compute. discriminate.
Qed.

(** ---- tie to the source by translation: the inner search loop of get_multiplier_sequence
    (`while p >= 0: if target % resn[p] == 0: pred[i] = p; mult[i] = target // resn[p]; break / else: p -= 1`) is
    translated from _reduce.py on every run (tools/py2v.py -> Gen.multseq_scan, started at Gen.multseq_start i = i - 1);
    what it computes for position i is the model's (pred[i], mult[i]).  The statements around the loop (base set, sorted
    union, -1 initialisation, the final derivability check) are pinned: Gen.multseq_source_pins exists only if they are
    unchanged. *)
From Cooler Require Import Gen.Translated Proofs.GenBridgeZoom.
Theorem C09_source_search_loop_is_model : forall resn i, (i < length resn)%nat ->
  Gen.multseq_scan (S i) resn (nth i resn 0) (Gen.multseq_start (Z.of_nat i)) = pred_mult resn i.
Proof. exact gen_multseq_is_pred_mult. Qed.
Print Assumptions C09_source_search_loop_is_model.
Theorem C09_source_pins : Gen.multseq_source_pins = true.
Proof. exact gen_multseq_pins. Qed.
Print Assumptions C09_source_pins.

(** the coarsener's re-binning quotient `np.floor(start / binsize)` — the expression Proofs/FloatDiv.v proves exact (see
    C08_binary64_relative_bin_exact) — is pinned in the source on every run: a reciprocal multiplication is a different
    computation (it is wrong for about one bin size in nine) *)
Theorem C09_float_division_source_pins : Gen.float_division_pins_coarsen = true.
Proof. reflexivity. Qed.
Print Assumptions C09_float_division_source_pins.
