(* FloatDiv.v -- flooring / ceiling the binary64 round-to-nearest-even quotient
   of two integers below 2^53 yields the exact integer floor / ceiling division.

   Self-contained: Coq stdlib + Flocq.Core only. *)

From Coq Require Import ZArith Reals Lia Lra.
From Flocq Require Import Core.
Open Scope Z_scope.

Definition b64_format_exp := FLT_exp (-1074) 53.
Definition rnd64 (x : R) : R := round radix2 b64_format_exp ZnearestE x.
(* float64 true division of two integers that are themselves exactly representable *)
Definition fdiv (s b : Z) : R := rnd64 (IZR s / IZR b).

(* ------------------------------------------------------------------ *)
(* Format instances                                                    *)
(* ------------------------------------------------------------------ *)

Local Instance prec53_gt_0 : Prec_gt_0 53.
Proof. unfold Prec_gt_0. lia. Qed.

Local Instance b64_valid_exp : Valid_exp b64_format_exp.
Proof. unfold b64_format_exp. apply FLT_exp_valid. exact prec53_gt_0. Qed.

Notation fmt64 := (generic_format radix2 b64_format_exp).

(* ------------------------------------------------------------------ *)
(* Membership in the format                                            *)
(* ------------------------------------------------------------------ *)

Lemma fmt64_F2R :
  forall m ex : Z, Z.abs m <= 2^53 -> -1074 <= ex ->
  fmt64 (IZR m * bpow radix2 ex).
Proof.
intros m ex Hm Hex.
destruct (Z_lt_le_dec (Z.abs m) (2^53)) as [Hlt|Hge].
- unfold b64_format_exp. apply generic_format_FLT.
  apply (FLT_spec radix2 (-1074) 53 _ (Float radix2 m ex)).
  + unfold F2R. simpl. reflexivity.
  + simpl Fnum. exact Hlt.
  + simpl Fexp. exact Hex.
- assert (Hc : m = 2^53 \/ m = - 2^53) by lia.
  assert (Hb : IZR (2^53) = bpow radix2 53).
  { change (2^53) with (Zpower radix2 53). apply IZR_Zpower. lia. }
  assert (Hf : fmt64 (bpow radix2 (53 + ex))).
  { unfold b64_format_exp. apply generic_format_FLT_bpow; first [exact prec53_gt_0 | lia]. }
  destruct Hc as [-> | ->].
  + rewrite Hb, <- bpow_plus. exact Hf.
  + rewrite opp_IZR, Hb, Ropp_mult_distr_l_reverse, <- bpow_plus.
    apply generic_format_opp. exact Hf.
Qed.

(* the operands really are floats: *)
Theorem int_lt_2p53_representable :
  forall z : Z, Z.abs z <= 2^53 -> generic_format radix2 b64_format_exp (IZR z).
Proof.
intros z Hz.
replace (IZR z) with (IZR z * bpow radix2 0)%R by (simpl; ring).
apply fmt64_F2R; [exact Hz | lia].
Qed.

Lemma bpow_neg_inv :
  forall E : Z, 0 <= E -> bpow radix2 (- E) = (/ IZR (2 ^ E))%R.
Proof.
intros E HE.
rewrite bpow_opp. f_equal.
symmetry. change (2 ^ E) with (Zpower radix2 E). apply IZR_Zpower. exact HE.
Qed.

(* ------------------------------------------------------------------ *)
(* Round-to-nearest cannot jump over a closer format member            *)
(* ------------------------------------------------------------------ *)

Lemma rnd64_N_pt :
  forall x g : R, fmt64 g -> (Rabs (rnd64 x - x) <= Rabs (g - x))%R.
Proof.
intros x g Hg.
destruct (round_N_pt radix2 b64_format_exp (fun t => negb (Z.even t)) x) as [_ H].
exact (H g Hg).
Qed.

Lemma rnd64_lt :
  forall x p n : R, fmt64 p -> (p < n)%R -> (2 * x < p + n)%R -> (rnd64 x < n)%R.
Proof.
intros x p n Hp Hpn Hx.
destruct (Rlt_or_le (rnd64 x) n) as [H|H]; [exact H|].
exfalso.
generalize (rnd64_N_pt x p Hp).
unfold Rabs.
destruct (Rcase_abs (rnd64 x - x)); destruct (Rcase_abs (p - x)); lra.
Qed.

Lemma rnd64_gt :
  forall x q m : R, fmt64 q -> (m < q)%R -> (q + m < 2 * x)%R -> (m < rnd64 x)%R.
Proof.
intros x q m Hq Hmq Hx.
destruct (Rlt_or_le m (rnd64 x)) as [H|H]; [exact H|].
exfalso.
generalize (rnd64_N_pt x q Hq).
unfold Rabs.
destruct (Rcase_abs (rnd64 x - x)); destruct (Rcase_abs (q - x)); lra.
Qed.

Lemma rnd64_ge_fmt :
  forall x y : R, fmt64 x -> (x <= y)%R -> (x <= rnd64 y)%R.
Proof.
intros x y Hx Hxy. unfold rnd64.
apply round_ge_generic; auto with typeclass_instances.
Qed.

Lemma rnd64_le_fmt :
  forall x y : R, fmt64 y -> (x <= y)%R -> (rnd64 x <= y)%R.
Proof.
intros x y Hy Hxy. unfold rnd64.
apply round_le_generic; auto with typeclass_instances.
Qed.

(* ------------------------------------------------------------------ *)
(* Choice of the binade / spacing exponent                             *)
(* ------------------------------------------------------------------ *)

Lemma find_E :
  forall n b : Z, 1 <= n -> 0 < b < 2^53 -> (n - 1) * b < 2^53 ->
  exists E : Z, 0 <= E <= 53 /\ n * 2^E <= 2^53 /\ b < 2 * 2^E.
Proof.
intros n b Hn Hb Hnb.
destruct (Z.eq_dec n 1) as [->|Hn1].
- exists 53. split; [lia|]. split; lia.
- set (k := n - 1). assert (Hk : 1 <= k) by (unfold k; lia).
  assert (Hk53 : k < 2^53) by nia.
  assert (Hl0 : 0 <= Z.log2 k) by apply Z.log2_nonneg.
  assert (Hl52 : Z.log2 k < 53) by (apply Z.log2_lt_pow2; lia).
  destruct (Z.log2_spec k) as [Hlo Hhi]; [lia|].
  set (e := Z.log2 k) in *.
  exists (52 - e).
  assert (Hsplit : 2^53 = 2^e * (2 * 2^(52 - e))).
  { replace 53 with (e + (1 + (52 - e))) at 1 by lia.
    rewrite Z.pow_add_r by lia. rewrite (Z.pow_add_r 2 1) by lia.
    reflexivity. }
  assert (Hse : 2^(Z.succ e) = 2 * 2^e) by (rewrite Z.pow_succ_r; lia).
  assert (Hpe : 0 < 2^e) by (apply Z.pow_pos_nonneg; lia).
  assert (HpE : 0 < 2^(52 - e)) by (apply Z.pow_pos_nonneg; lia).
  split; [lia|]. split.
  + replace n with (k + 1) by (unfold k; lia).
    assert (k + 1 <= 2 * 2^e) by lia.
    rewrite Hsplit. nia.
  + fold k in Hnb.
    assert (b * 2^e < 2^e * (2 * 2^(52 - e))) by nia.
    nia.
Qed.

(* ------------------------------------------------------------------ *)
(* Real-number inequalities                                            *)
(* ------------------------------------------------------------------ *)

Lemma floor_real_ineq :
  forall S B N T : R,
  (0 < B)%R -> (0 < T)%R -> (B < 2 * T)%R -> (S + 1 <= N * B)%R ->
  (2 * (S / B) < (N * T - 1) * / T + N)%R.
Proof.
intros S B N T HB HT HBT HS.
assert (HiB : (0 < / B)%R) by (apply Rinv_0_lt_compat; exact HB).
assert (HiT : (0 < / T)%R) by (apply Rinv_0_lt_compat; exact HT).
assert (E1 : (B * / B = 1)%R) by (apply Rinv_r; lra).
assert (E2 : (T * / T = 1)%R) by (apply Rinv_r; lra).
assert (H1 : (S / B <= N - / B)%R).
{ unfold Rdiv. replace (N - / B)%R with ((N * B - 1) * / B)%R.
  - apply Rmult_le_compat_r; lra.
  - replace ((N * B - 1) * / B)%R with (N * (B * / B) - / B)%R by ring.
    rewrite E1. ring. }
assert (H2 : (/ T < 2 * / B)%R).
{ replace (/ T)%R with (B * (/ B * / T))%R by (rewrite <- Rmult_assoc, E1; ring).
  replace (2 * / B)%R with ((2 * T) * (/ B * / T))%R.
  - apply Rmult_lt_compat_r; [apply Rmult_lt_0_compat; assumption | exact HBT].
  - replace (2 * T * (/ B * / T))%R with (2 * / B * (T * / T))%R by ring.
    rewrite E2. ring. }
replace ((N * T - 1) * / T)%R with (N * (T * / T) - / T)%R by ring.
rewrite E2. lra.
Qed.

Lemma ceil_real_ineq :
  forall S B M T : R,
  (0 < B)%R -> (0 < T)%R -> (B < 2 * T)%R -> (M * B + 1 <= S)%R ->
  ((M * T + 1) * / T + M < 2 * (S / B))%R.
Proof.
intros S B M T HB HT HBT HS.
assert (HiB : (0 < / B)%R) by (apply Rinv_0_lt_compat; exact HB).
assert (HiT : (0 < / T)%R) by (apply Rinv_0_lt_compat; exact HT).
assert (E1 : (B * / B = 1)%R) by (apply Rinv_r; lra).
assert (E2 : (T * / T = 1)%R) by (apply Rinv_r; lra).
assert (H1 : (M + / B <= S / B)%R).
{ unfold Rdiv. replace (M + / B)%R with ((M * B + 1) * / B)%R.
  - apply Rmult_le_compat_r; lra.
  - replace ((M * B + 1) * / B)%R with (M * (B * / B) + / B)%R by ring.
    rewrite E1. ring. }
assert (H2 : (/ T < 2 * / B)%R).
{ replace (/ T)%R with (B * (/ B * / T))%R by (rewrite <- Rmult_assoc, E1; ring).
  replace (2 * / B)%R with ((2 * T) * (/ B * / T))%R.
  - apply Rmult_lt_compat_r; [apply Rmult_lt_0_compat; assumption | exact HBT].
  - replace (2 * T * (/ B * / T))%R with (2 * / B * (T * / T))%R by ring.
    rewrite E2. ring. }
replace ((M * T + 1) * / T)%R with (M * (T * / T) + / T)%R by ring.
rewrite E2. lra.
Qed.

Lemma div_le_real :
  forall S B K : R, (0 < B)%R -> (K * B <= S)%R -> (K <= S / B)%R.
Proof.
intros S B K HB H.
assert (HiB : (0 < / B)%R) by (apply Rinv_0_lt_compat; exact HB).
replace K with (K * B * / B)%R by (field; lra).
unfold Rdiv. apply Rmult_le_compat_r; lra.
Qed.

Lemma div_ge_real :
  forall S B K : R, (0 < B)%R -> (S <= K * B)%R -> (S / B <= K)%R.
Proof.
intros S B K HB H.
assert (HiB : (0 < / B)%R) by (apply Rinv_0_lt_compat; exact HB).
replace K with (K * B * / B)%R by (field; lra).
unfold Rdiv. apply Rmult_le_compat_r; lra.
Qed.

(* ------------------------------------------------------------------ *)
(* Main theorems                                                       *)
(* ------------------------------------------------------------------ *)

Theorem floor_fdiv_exact :
  forall s b : Z, 0 <= s < 2^53 -> 0 < b < 2^53 -> Zfloor (fdiv s b) = s / b.
Proof.
intros s b Hs Hb.
set (k := s / b).
assert (Hlo : b * k <= s) by (apply Z.mul_div_le; lia).
assert (Hhi : s < b * Z.succ k) by (apply Z.mul_succ_div_gt; lia).
assert (Hk0 : 0 <= k) by (apply Z.div_pos; lia).
assert (Hk53 : k < 2^53) by nia.
assert (HB : (0 < IZR b)%R) by (apply IZR_lt; lia).
apply Zfloor_imp. unfold fdiv. split.
- (* k <= rnd x *)
  apply rnd64_ge_fmt.
  + apply int_lt_2p53_representable. lia.
  + apply div_le_real; [exact HB|].
    rewrite <- mult_IZR. apply IZR_le. lia.
- (* rnd x < k + 1 *)
  destruct (find_E (k + 1) b) as [E [HE [HnE HbE]]]; [lia | lia | nia |].
  assert (HpE : 0 < 2^E) by (apply Z.pow_pos_nonneg; lia).
  assert (HT : (0 < IZR (2^E))%R) by (apply IZR_lt; lia).
  apply (rnd64_lt _ ((IZR (k + 1) * IZR (2^E) - 1) * / IZR (2^E))%R).
  + rewrite <- bpow_neg_inv by lia.
    rewrite <- mult_IZR, <- minus_IZR.
    apply fmt64_F2R; lia.
  + assert (E2 : (IZR (2^E) * / IZR (2^E) = 1)%R) by (apply Rinv_r; lra).
    assert (HiT : (0 < / IZR (2^E))%R) by (apply Rinv_0_lt_compat; exact HT).
    replace ((IZR (k + 1) * IZR (2 ^ E) - 1) * / IZR (2 ^ E))%R
      with (IZR (k + 1) * (IZR (2^E) * / IZR (2^E)) - / IZR (2^E))%R by ring.
    rewrite E2. lra.
  + apply floor_real_ineq; try assumption.
    * replace 2%R with (IZR 2) by reflexivity.
      rewrite <- mult_IZR. apply IZR_lt. lia.
    * replace 1%R with (IZR 1) by reflexivity.
      rewrite <- plus_IZR, <- mult_IZR. apply IZR_le. lia.
Qed.

Theorem ceil_fdiv_exact :
  forall e b : Z, 0 <= e < 2^53 -> 0 < b < 2^53 -> Zceil (fdiv e b) = - ((- e) / b).
Proof.
intros e b He Hb.
destruct (Z.eq_dec e 0) as [->|He0].
- (* e = 0 *)
  assert (H0 : - (- 0 / b) = 0).
  { change (- 0) with 0. rewrite Z.div_0_l by lia. reflexivity. }
  rewrite H0. unfold fdiv.
  unfold Rdiv. rewrite Rmult_0_l.
  unfold rnd64. rewrite round_0 by auto with typeclass_instances.
  apply Zceil_IZR.
- set (q := (- e) / b).
  assert (Hlo : b * q <= - e) by (apply Z.mul_div_le; lia).
  assert (Hhi : - e < b * Z.succ q) by (apply Z.mul_succ_div_gt; lia).
  set (k := - q).
  assert (Hk1 : 1 <= k) by (unfold k; nia).
  assert (Hke : k <= e) by (unfold k; nia).
  assert (Hlo' : e <= k * b) by (unfold k; lia).
  assert (Hhi' : (k - 1) * b + 1 <= e) by (unfold k; lia).
  assert (HB : (0 < IZR b)%R) by (apply IZR_lt; lia).
  apply Zceil_imp. unfold fdiv. split.
  + (* k - 1 < rnd x *)
    destruct (find_E k b) as [E [HE [HnE HbE]]]; [lia | lia | lia |].
    assert (HpE : 0 < 2^E) by (apply Z.pow_pos_nonneg; lia).
    assert (HT : (0 < IZR (2^E))%R) by (apply IZR_lt; lia).
    apply (rnd64_gt _ ((IZR (k - 1) * IZR (2^E) + 1) * / IZR (2^E))%R).
    * rewrite <- bpow_neg_inv by lia.
      rewrite <- mult_IZR, <- plus_IZR.
      apply fmt64_F2R; [|lia].
      rewrite Z.abs_eq by nia. nia.
    * assert (E2 : (IZR (2^E) * / IZR (2^E) = 1)%R) by (apply Rinv_r; lra).
      assert (HiT : (0 < / IZR (2^E))%R) by (apply Rinv_0_lt_compat; exact HT).
      replace ((IZR (k - 1) * IZR (2 ^ E) + 1) * / IZR (2 ^ E))%R
        with (IZR (k - 1) * (IZR (2^E) * / IZR (2^E)) + / IZR (2^E))%R by ring.
      rewrite E2. lra.
    * apply ceil_real_ineq; try assumption.
      -- replace 2%R with (IZR 2) by reflexivity.
         rewrite <- mult_IZR. apply IZR_lt. lia.
      -- replace 1%R with (IZR 1) by reflexivity.
         rewrite <- mult_IZR, <- plus_IZR. apply IZR_le. lia.
  + (* rnd x <= k *)
    apply rnd64_le_fmt.
    * apply int_lt_2p53_representable. lia.
    * apply div_ge_real; [exact HB|].
      rewrite <- mult_IZR. apply IZR_le. lia.
Qed.

