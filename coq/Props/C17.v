(** C17  Every cell of a single-cell file reads back as the matrix given for it.
    Statements about the model of create_scool over the object store (Model/Scool.v, Model/H5.v),
    each closed by a lemma of Proofs/ScoolProofs.v.
    [cell_ok w f rc o1 o2 o3 c]: /cells/<name of c> is a group whose chroms table IS the object rc, whose
    bins table has the objects o1 o2 o3 as chrom/start/end plus c's own extra columns with c's payloads,
    and whose pixels and indexes tables hold exactly the columns given for c.
    [keeps w w']: every link that could be looked up and every dataset object is unchanged. *)
From Cooler Require Import Model.Scool Proofs.H5Proofs Proofs.ScoolProofs.

(** appending one cell on a fresh name keeps everything that was readable (frame) and writes its tables *)
Theorem C17_append_cell_frame : forall w f a0 ls0 name sp w',
  file_exists w f = true -> obj_at w f 0 = Some (Group a0 ls0) -> cell_fresh w f ls0 name ->
  create w f ["cells"%string; name] false sp = (Ok, w') ->
  keeps w w' /\
  exists gc g, child w' f 0 "cells"%string = Some gc /\ child w' f gc name = Some g /\
               (forall g0, assoc "cells"%string ls0 = Some (Hard g0) -> gc = g0) /\
               forall n src, In (n, src) (cs_tables sp) -> table_ok w' f g n src.
Proof. exact create_cell_spec. Qed.
Print Assumptions C17_append_cell_frame.

(** ... and adds exactly one member to /cells *)
Theorem C17_append_cell_adds_one_name : forall w f a0 ls0 name sp w' gc,
  file_exists w f = true -> obj_at w f 0 = Some (Group a0 ls0) -> cell_fresh w f ls0 name ->
  create w f ["cells"%string; name] false sp = (Ok, w') ->
  child w' f 0 "cells"%string = Some gc ->
  forall m l, lookup_link w' f gc m = Some l ->
    m = name \/ exists g0, assoc "cells"%string ls0 = Some (Hard g0) /\ lookup_link w f g0 m = Some l.
Proof. exact create_cell_keys. Qed.
Print Assumptions C17_append_cell_adds_one_name.

(** induction over the cell list: creating cell B leaves cell A as it was *)
Theorem C17_all_cells_by_induction : forall cells w f rc rb o1 o2 o3 done w',
  root_ok w f rc rb o1 o2 o3 -> cells_state w f done ->
  NoDup (done ++ map c_name cells) ->
  append_cells w f cells = (Ok, w') ->
  keeps w w' /\ (forall c, In c cells -> cell_ok w' f rc o1 o2 o3 c) /\
  cells_state w' f (done ++ map c_name cells).
Proof. exact append_cells_spec. Qed.
Print Assumptions C17_all_cells_by_induction.

(** the property: for distinct names, create_scool (mode "w") gives a file in which the common tables are
    stored once at the root with the given payloads, EVERY cell reads back as given with chroms and the
    three bin columns being the root's own objects, and /cells has no member besides the given names *)
Theorem C17_every_cell_reads_back : forall w f rchroms rbins rattrs cells w' dc ds de,
  create_scool w f true rchroms rbins rattrs cells = (Ok, w') ->
  NoDup (map c_name cells) ->
  In ("chrom"%string, dc) rbins -> In ("start"%string, ds) rbins -> In ("end"%string, de) rbins ->
  exists rc rb o1 o2 o3,
    root_ok w' f rc rb o1 o2 o3 /\
    (forall k d, In (k, d) rchroms -> ds_at w' f rc k = Some d) /\
    (forall k d, In (k, d) rbins -> ds_at w' f rb k = Some d) /\
    (forall c, In c cells -> cell_ok w' f rc o1 o2 o3 c) /\
    cells_state w' f (map c_name (sort_cells cells)).
Proof. exact create_scool_spec. Qed.
Print Assumptions C17_every_cell_reads_back.

(** every cell group carries the cooler tag after all appends, and the attributes of every older object are kept *)
Theorem C17_every_cell_is_tagged : forall cells w f rc rb o1 o2 o3 done w',
  root_ok w f rc rb o1 o2 o3 -> cells_state w f done ->
  NoDup (done ++ map c_name cells) -> Forall cell_tagged cells ->
  append_cells w f cells = (Ok, w') ->
  attrs_kept w w' /\
  forall c, In c cells -> forall gc g, child w' f 0 "cells"%string = Some gc -> child w' f gc (c_name c) = Some g ->
    is_cooler_at w' f g = true.
Proof. exact append_cells_coolers. Qed.
Print Assumptions C17_every_cell_is_tagged.

(** recognition: the file written by create_scool (mode w, at least one cell, distinct names, every cell tagged
    as a cooler, the root tagged with the single-cell marker) is recognised by is_scool_file ... *)
Theorem C17_recognised_as_single_cell_file : forall w f rchroms rbins rattrs cells w' dc ds de,
  create_scool w f true rchroms rbins rattrs cells = (Ok, w') ->
  NoDup (map c_name cells) -> cells <> [] -> Forall cell_tagged cells ->
  In ("chrom"%string, dc) rbins -> In ("start"%string, ds) rbins -> In ("end"%string, de) rbins ->
  NoDup (map fst rattrs) -> In ("format"%string, AStr MAGIC_SCOOL) rattrs ->
  is_scool_file w' f = Some true.
Proof. exact create_scool_recognised. Qed.
Print Assumptions C17_recognised_as_single_cell_file.

(** ... and no file without the marker is *)
Theorem C17_not_recognised_without_marker : forall w f, file_exists w f = true ->
  has_format w f 0 MAGIC_SCOOL = false -> is_scool_file w f = Some false.
Proof. exact not_scool_without_marker. Qed.
Print Assumptions C17_not_recognised_without_marker.

(** listing (partial: one inclusion): whenever list_scool_cells returns on that file (no external links, unique
    member names), every given cell is listed as /cells/<name>.  That nothing else is listed follows from
    C15_listing_exact only together with the fact that no other object of the file carries the cooler tag,
    which is not proved here (it is observed on every run); the natural order is applied by the caller. *)
Theorem C17_every_cell_listed_partial : forall w f rchroms rbins rattrs cells w' dc ds de L,
  create_scool w f true rchroms rbins rattrs cells = (Ok, w') ->
  NoDup (map c_name cells) -> Forall cell_tagged cells ->
  In ("chrom"%string, dc) rbins -> In ("start"%string, ds) rbins -> In ("end"%string, de) rbins ->
  no_ext w' f -> nodup_keys w' f -> list_scool_cells w' f = (Ok, L) ->
  forall c, In c cells -> In (cell_path c) L.
Proof. exact create_scool_cells_listed. Qed.
Print Assumptions C17_every_cell_listed_partial.

(** sorting the cell names only permutes them *)
Theorem C17_sorted_names_are_the_given_names : forall l, Permutation.Permutation (sort_cells l) l.
Proof. exact sort_cells_perm. Qed.
Print Assumptions C17_sorted_names_are_the_given_names.

(** non-vacuity + listing and recognition on a concrete file: two cells (one empty, a name with a space),
    per-cell extra bin column, shared start column *)
Example ex_C17_two_cells :
  fst ex_scool = Ok /\
  list_scool_cells (snd ex_scool) FA = (Ok, [["cells"; "cell A"]; ["cells"; "cellB"]]%string) /\
  is_scool_file (snd ex_scool) FA = Some true /\
  resolve (snd ex_scool) FA ["cells"; "cellB"; "bins"; "start"]%string = resolve (snd ex_scool) FA ["bins"; "start"]%string /\
  resolve (snd ex_scool) FA ["cells"; "cell A"; "bins"; "w"]%string <> resolve (snd ex_scool) FA ["cells"; "cellB"; "bins"; "w"]%string.
Proof. exact ex_scool_ok. Qed.

(** the deprecated `dtype=` spelling of the pixel dtype mapping is resolved in one place (_get_dtypes_arg) and the resolved mapping is
    what create / create_from_unordered / create_scool go on to use: pinned in the source on every run (tools/py2v.py) *)
From Cooler Require Import Gen.Translated.
Theorem C17_dtypes_alias_source_pins : Gen.dtypes_alias_source_pins = true.
Proof. reflexivity. Qed.
Print Assumptions C17_dtypes_alias_source_pins.
