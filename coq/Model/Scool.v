(** cooler.create.create_scool (_create.py:1131-1325), create(append_scool=True) (:638-666),
    fileops.is_scool_file / list_scool_cells over the object store of Model/H5.v.   No proofs here. *)
From Cooler Require Export Model.Rename.

Definition MAGIC_SCOOL : string := "HDF5::SCOOL"%string.

Record cell := mkCell {
  c_name : string;
  c_extra_bins : list (string * payload);   (* per-cell extra bin columns (e.g. weight) *)
  c_pixels : list (string * payload);       (* bin1_id, bin2_id, count, ... *)
  c_indexes : list (string * payload);      (* chrom_offset, bin1_offset *)
  c_attrs : list (string * aval)
}.

(** sorted(cell_name_pixels_dict): insertion sort by code-point order *)
Fixpoint insert_cell (c : cell) (l : list cell) : list cell :=
  match l with
  | [] => [c]
  | d :: r => if Coq.Strings.String.leb (c_name c) (c_name d) then c :: d :: r else d :: insert_cell c r
  end.
Definition sort_cells (l : list cell) : list cell := fold_right insert_cell [] l.

(** the tables of one cell as create(append_scool=True) writes them:
    chroms = hard link to the root's chroms GROUP; bins = a new group whose chrom/start/end are hard
    links to the root's three datasets, plus the cell's own extra columns; pixels and indexes fresh *)
Definition cell_spec (w : world) (f : fid) (c : cell) : option cspec :=
  match child w f O "chroms"%string, child w f O "bins"%string with
  | Some rc, Some rb =>
      match child w f rb "chrom"%string, child w f rb "start"%string, child w f rb "end"%string with
      | Some o1, Some o2, Some o3 =>
          Some (mkSpec
            [("chroms"%string, ShareGroup rc);
             ("bins"%string, Table ([("chrom"%string, Share o1); ("start"%string, Share o2); ("end"%string, Share o3)]
                                    ++ map (fun kv => (fst kv, Fresh (snd kv))) (c_extra_bins c)));
             ("pixels"%string, Table (map (fun kv => (fst kv, Fresh (snd kv))) (c_pixels c)));
             ("indexes"%string, Table (map (fun kv => (fst kv, Fresh (snd kv))) (c_indexes c)))]
            (c_attrs c))
      | _, _, _ => None
      end
  | _, _ => None
  end.

Definition cell_path (c : cell) : path := ["cells"%string; c_name c].

Fixpoint append_cells_gen (mk : world -> fid -> path -> bool -> cspec -> outcome * world)
         (w : world) (f : fid) (cells : list cell) : outcome * world :=
  match cells with
  | [] => (Ok, w)
  | c :: r =>
      match cell_spec w f c with
      | Some sp =>
          match mk w f (cell_path c) false sp with
          | (Ok, w1) => append_cells_gen mk w1 f r
          | e => e
          end
      | None => (EKey, w)
      end
  end.
Definition append_cells := append_cells_gen create.

(** create_scool(file, bins, cells, mode): the root gets chroms, bins (the common table) and the
    single-cell info attributes, then one append-create per cell name in sorted order *)
Definition create_scool (w : world) (f : fid) (mode_w : bool)
           (root_chroms root_bins : list (string * payload)) (root_attrs : list (string * aval))
           (cells : list cell) : outcome * world :=
  let w0 := if mode_w || negb (file_exists w f) then set_store w f (Some empty_store) else w in
  let w1 := del_if_present w0 f ["chroms"; "bins"]%string in
  match write_tables w1 f O
          [("chroms"%string, Table (map (fun kv => (fst kv, Fresh (snd kv))) root_chroms));
           ("bins"%string, Table (map (fun kv => (fst kv, Fresh (snd kv))) root_bins))] with
  | Some w2 => append_cells (set_attrs w2 f O root_attrs) f (sort_cells cells)
  | None => (EValue, w1)
  end.

(** ---- recognition and listing *)
Definition keys_of (w : world) (f : fid) (o : nat) : list string :=
  match obj_at w f o with Some (Group _ ls) => map fst ls | _ => [] end.
Definition has_format (w : world) (f : fid) (o : nat) (m : string) : bool :=
  match obj_at w f o with
  | Some x => match assoc "format"%string (attrs_of x) with Some v => aval_eqb v (AStr m) | None => false end
  | None => false
  end.
Definition mem_str (x : string) (l : list string) : bool := existsb (Coq.Strings.String.eqb x) l.

Definition follow_name (w : world) (f : fid) (o : nat) (n : string) : option (fid * nat) :=
  match lookup_link w f o n with
  | Some l => match follow w f l with Found f1 o1 => Some (f1, o1) | _ => None end
  | None => None
  end.

(** is_scool_file: format tag, the three root members, at least one cell and every cell a cooler
    (None = the file is not HDF5: OSError) *)
Definition is_scool_file (w : world) (f : fid) : option bool :=
  if negb (file_exists w f) then None else
  if negb (has_format w f O MAGIC_SCOOL) then Some false else
  let ks := keys_of w f O in
  if negb (mem_str "chroms"%string ks && mem_str "bins"%string ks && mem_str "cells"%string ks) then Some false else
  match follow_name w f O "cells"%string with
  | Some (fc, oc) =>
      match keys_of w fc oc with
      | [] => Some false
      | cs => Some (forallb (fun k => match follow_name w fc oc k with
                                      | Some (f1, o1) => is_cooler_at w f1 o1
                                      | None => false
                                      end) cs)
      end
  | None => Some false
  end.

(** list_scool_cells: the listing of list_coolers without "/" (OSError when not a scool file) *)
Definition list_scool_cells (w : world) (f : fid) : outcome * list path :=
  match is_scool_file w f with
  | Some true =>
      match list_coolers w f with
      | (Ok, l) => (Ok, filter (fun p => negb (is_nil p)) l)
      | e => e
      end
  | _ => (EOS, [])
  end.
