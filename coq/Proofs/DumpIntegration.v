(** C16 integration with C03 (Model/Query.v, Proofs/SpansProofs.v, Proofs/QueryMain.v) and C02 (Proofs/IndexProofs.v):
    the span computation of CSRReader.get_spans as modelled by the lead is admissible for the dump's engine model for
    every chunk size >= 1, so the dump theorems hold without the admissibility hypothesis; the two engine models agree
    extensionally; corollary over every collection that satisfies the published schema. *)
From Coq Require Import String QArith Permutation Sorted ZifyBool.
From Coq Require Import List.
From Cooler Require Import Model.Dump Proofs.PixelsProofs Proofs.BinsProofs Proofs.DumpProofs Proofs.DumpSpansProofs.
From Cooler Require Model.Query Proofs.QueryProofs Proofs.SpansProofs Proofs.QueryMain Proofs.EndToEnd Model.Index Proofs.IndexProofs.
Open Scope Z_scope.

(** the edge list inside CSRReader.get_spans, with the lead's arg_prune_partition (Model/Query.v) *)
Definition get_edges (off : list Z) (k : Z) (bb : bbox) : list Z :=
  let '(i0, i1, j0, j1) := bb in
  if (i1 - i0 <? 1) || (j1 - j0 <? 1) then []
  else map (Z.add i0) (Query.arg_prune_partition (slice off i0 (i1 + 1)) k).

Lemma get_spans_edges off k bb : Query.get_spans off k bb = spans_of (get_edges off k bb).
Proof.
  destruct bb as [[[i0 i1] j0] j1]. unfold Query.get_spans, get_edges.
  destruct ((i1 - i0 <? 1) || (j1 - j0 <? 1)); reflexivity.
Qed.

(** [off] is the bin1_offset index of the table: off[i] = number of records with bin1 < i, i = 0..n *)
Definition OffsetsFor (px : list pixel) (n : Z) (off : list Z) : Prop :=
  zlen off = n + 1 /\ forall i, 0 <= i <= n -> znth off i 0 = offset px i.

Lemma sorted_map_mono (f : Z -> Z) m : forall lo,
  (forall a b, a <= b -> f a <= f b) -> StronglySorted Z.le (map f (zrange lo m)).
Proof.
  induction m as [|m IH]; intros lo Hf; [constructor|].
  rewrite zrange_cons. cbn [map]. constructor; [now apply IH|].
  apply Forall_forall. intros y Hy. apply in_map_iff in Hy as (x & <- & Hx). apply in_zrange in Hx. apply Hf. lia.
Qed.

Lemma chain_sorted lo es : QueryProofs.chain lo es -> Sorted Z.le (lo :: es).
Proof.
  revert lo. induction es as [|e t IH]; intros lo H; [repeat constructor|].
  destruct H as [Hle Hc]. constructor; [now apply IH|now constructor].
Qed.

Lemma slice_offsets px n off i0 i1 :
  OffsetsFor px n off -> 0 <= i0 -> i0 <= i1 -> i1 <= n ->
  slice off i0 (i1 + 1) = map (offset px) (zrange i0 (Z.to_nat (i1 - i0 + 1))).
Proof.
  intros [Hlen Hoff] H0 H01 H1. unfold zlen in Hlen.
  apply (nth_ext _ _ 0 0).
  - unfold slice. rewrite firstn_length, skipn_length, map_length, zrange_length. lia.
  - intros k Hk. unfold slice in *. rewrite firstn_length, skipn_length in Hk.
    rewrite SpansProofs.nth_firstn_lt by lia. rewrite SpansProofs.nth_skipn_add.
    rewrite nth_map_zrange by lia.
    specialize (Hoff (i0 + Z.of_nat k) ltac:(lia)). unfold znth in Hoff. rewrite <- Hoff. f_equal. lia.
Qed.

(** the REAL span computation is admissible for my engine model, for every chunk size >= 1 *)
Theorem get_edges_admissible px n off k i0 i1 j0 j1 :
  OffsetsFor px n off -> 1 <= k -> 0 <= i0 -> i0 <= i1 -> i1 <= n ->
  AdmissibleCuts px (i0, i1, j0, j1) (get_edges off k (i0, i1, j0, j1)).
Proof.
  intros Ho Hk H0 H01 H1. unfold get_edges.
  destruct ((i1 - i0 <? 1) || (j1 - j0 <? 1)) eqn:Ed.
  - cbn. repeat split; [constructor|lia|]. intros p _ Hp. unfold span_pred, inb in Hp. lia.
  - set (seq := slice off i0 (i1 + 1)).
    assert (Eseq : seq = map (offset px) (zrange i0 (Z.to_nat (i1 - i0 + 1)))) by (now apply (slice_offsets px n)).
    assert (Hs : StronglySorted Z.le seq) by (rewrite Eseq; apply sorted_map_mono; intros; now apply offset_mono).
    assert (Hlen : length seq = Z.to_nat (i1 - i0 + 1)) by (rewrite Eseq; now rewrite map_length, zrange_length).
    assert (Hne : seq <> []) by (intro E; rewrite E in Hlen; cbn in Hlen; lia).
    destruct (SpansProofs.prune_admissible seq _ Hs Hne (SpansProofs.linspace_admissible seq k Hs Hne Hk))
      as (es & Hp & Hc & Hb & Hl).
    change (Query.arg_prune_partition seq k) with
      (Query.prune_with_cuts seq (Query.linspace_int (hd 0 seq) (last seq 0) (2 + (last seq 0 - hd 0 seq) / k))).
    rewrite Hp. cbn [map]. rewrite Z.add_0_r.
    assert (Hlast : last (i0 :: map (Z.add i0) es) i0 = i0 + last es 0).
    { rewrite QueryProofs.last_cons_default. rewrite <- (Z.add_0_r i0) at 2. apply SpansProofs.last_map_add. }
    unfold zlen in Hb. rewrite Hlen in Hb.
    assert (Hoffe : offset px (i0 + last es 0) = offset px i1).
    { rewrite Eseq in Hl. rewrite nth_map_zrange in Hl by lia. rewrite Z2Nat.id in Hl by lia. rewrite Hl.
      rewrite <- Eseq. rewrite (SpansProofs.last_nth_len seq 0 Hne). rewrite Hlen.
      rewrite Eseq. rewrite nth_map_zrange by lia. f_equal. lia. }
    split; [|split; [reflexivity|split]].
    + apply chain_sorted. rewrite <- (Z.add_0_r i0) at 1. now apply SpansProofs.chain_map_add.
    + rewrite Hlast. lia.
    + intros p Hp' Hs'. rewrite Hlast.
      destruct (Z_lt_ge_dec (row p) (i0 + last es 0)) as [Hlt|Hge]; [assumption|exfalso].
      unfold span_pred, inb in Hs'.
      pose proof (offset_strict px (i0 + last es 0) i1 p ltac:(lia) Hp' ltac:(lia)). lia.
Qed.

(* ------------------------------------------------------------------ the dump for every -k >= 1 *)
Definition BoxIn (n : Z) (bb : bbox) : Prop :=
  let '(i0, i1, j0, j1) := bb in 0 <= i0 /\ i0 <= i1 /\ i1 <= n /\ 0 <= j0 /\ j0 <= j1 /\ j1 <= n.

(** direct engine: no admissibility hypothesis left; `Query.get_spans off k` is the lead's model of CSRReader.get_spans *)
Theorem dump_direct_every_chunksize c o n off k :
  o_fill o && d_symm c = false ->
  RowSorted (d_px c) -> OffsetsFor (d_px c) n off -> BoxIn n (bbox_of c o) -> 1 <= k ->
  dump_pixels c o (get_edges off k) =
    if o_balanced o && no_weights c then None
    else match Query.get_spans off k (bbox_of c o) with
         | [] => Some []
         | _ :: _ =>
             match annot_chunk c o (window_select (d_px c) (bbox_of c o)) with
             | None => None
             | Some rows =>
                 match o_header o, header_of c o with
                 | true, Some h => Some (Header h :: body_of rows)
                 | _, _ => Some (body_of rows)
                 end
             end
         end.
Proof.
  intros Hd Hs Ho Hb Hk. rewrite get_spans_edges. apply dump_eq_query_direct; try assumption.
  destruct (bbox_of c o) as [[[i0 i1] j0] j1]. cbn in Hb. apply (get_edges_admissible _ n); tauto.
Qed.

Lemma plan_boxes_in n i0 i1 j0 j1 plan t :
  BoxIn n (i0, i1, j0, j1) -> fill_plan (i0, i1, j0, j1) = Some plan -> In t plan ->
  let '(x0, x1, _, _) := snd t in 0 <= x0 /\ x0 <= x1 /\ x1 <= n.
Proof.
  intros Hb Hp Hin. cbn in Hb. unfold fill_plan in Hp.
  destruct (j1 <? i1) eqn:Eut;
  repeat match type of Hp with context [if ?b then _ else _] => destruct b eqn:? end;
  try discriminate; injection Hp as <-; cbn [In] in Hin;
  unfold comes_before, contains in *;
  repeat match goal with H : context [if ?b then _ else _] |- _ => destruct b eqn:? end;
  repeat (destruct Hin as [<-|Hin]; [cbn [snd]; lia|]); try contradiction.
Qed.

Lemma plan_admissible_every_chunksize px n off k i0 i1 j0 j1 :
  OffsetsFor px n off -> 1 <= k -> BoxIn n (i0, i1, j0, j1) ->
  PlanAdmissible px (i0, i1, j0, j1) (get_edges off k).
Proof.
  intros Ho Hk Hb plan t Hp Hin. pose proof (plan_boxes_in n i0 i1 j0 j1 plan t Hb Hp Hin) as Hx.
  destruct t as [tr [[[x0 x1] y0] y1]]. cbn [snd] in *. apply (get_edges_admissible px n); tauto.
Qed.

(** fill-lower engine, every chunk size: a rearrangement of the symmetric completion inside the window, each once *)
Theorem fill_every_chunksize px n off k i0 i1 j0 j1 :
  Upper px -> NoDup px -> RowSorted px -> OffsetsFor px n off -> BoxIn n (i0, i1, j0, j1) -> 1 <= k ->
  exists chunks, fill_chunks px (i0, i1, j0, j1) (get_edges off k) = Some chunks /\
    Permutation (concat chunks) (fill_spec px (i0, i1, j0, j1)) /\ NoDup (concat chunks).
Proof.
  intros HU Hn Hs Ho Hb Hk.
  pose proof (fill_chunks_perm px i0 i1 j0 j1 (get_edges off k) HU Hn Hs) as H.
  cbn in Hb. specialize (H ltac:(tauto) ltac:(tauto) (plan_admissible_every_chunksize px n off k i0 i1 j0 j1 Ho Hk Hb)).
  destruct (fill_chunks px (i0, i1, j0, j1) (get_edges off k)) as [chunks|]; [|contradiction].
  exists chunks. tauto.
Qed.

(** ... and the text of `dump -f` on a symmetric-upper cooler *)
Theorem dump_fill_every_chunksize c o n off k :
  o_fill o && d_symm c = true ->
  Upper (d_px c) -> NoDup (d_px c) -> RowSorted (d_px c) -> OffsetsFor (d_px c) n off -> BoxIn n (bbox_of c o) -> 1 <= k ->
  exists chunks,
    engine_chunks c o (get_edges off k) = Some chunks /\
    Permutation (concat chunks) (fill_spec (d_px c) (bbox_of c o)) /\ NoDup (concat chunks) /\
    dump_pixels c o (get_edges off k) =
      if o_balanced o && no_weights c then None
      else match chunks with
           | [] => Some []
           | _ :: _ =>
               match annot_chunk c o (concat chunks) with
               | None => None
               | Some rows =>
                   match o_header o, header_of c o with
                   | true, Some h => Some (Header h :: body_of rows)
                   | _, _ => Some (body_of rows)
                   end
               end
           end.
Proof.
  intros Hf HU Hn Hs Ho Hb Hk. destruct (bbox_of c o) as [[[i0 i1] j0] j1] eqn:Ebb.
  destruct (fill_every_chunksize (d_px c) n off k i0 i1 j0 j1 HU Hn Hs Ho Hb Hk) as (chunks & Hc & Hp & Hnd).
  exists chunks. assert (He : engine_chunks c o (get_edges off k) = Some chunks).
  { unfold engine_chunks. now rewrite Hf, Ebb. }
  split; [exact He|]. split; [exact Hp|]. split; [exact Hnd|]. now apply dump_of_chunks.
Qed.

(* ------------------------------------------------------------------ agreement with the engines of Model/Query.v *)
Lemma map_snd_filter_enum (f : pixel -> bool) (l : list (Z * pixel)) :
  map snd (filter (fun r => f (snd r)) l) = filter f (map snd l).
Proof. induction l as [|r t IH]; [reflexivity|]. cbn. destruct (f (snd r)); cbn; now rewrite IH. Qed.

Lemma window_select_query px bb :
  window_select px bb = filter (QueryProofs.in_window bb) px.
Proof. destruct bb as [[[i0 i1] j0] j1]. unfold window_select. apply filter_ext. intros [[a b] v]. unfold in_window, QueryProofs.in_window, inb, row, col. cbn [fst snd]. destruct (i0 <=? a), (a <? i1), (j0 <=? b), (b <? j1); reflexivity. Qed.

(** direct engine: my engine model and Query.direct_query return the same records in the same order *)
Theorem direct_engine_agrees px n off k i0 i1 j0 j1 :
  QueryProofs.ValidCSR n (Query.epx_of px) off -> RowSorted px -> OffsetsFor px n off ->
  1 <= k -> 0 <= i0 -> i0 <= i1 -> i1 <= n ->
  concat (direct_chunks px (i0, i1, j0, j1) (get_edges off k))
  = map snd (Query.direct_query (Query.epx_of px) off (Query.get_spans off k) (i0, i1, j0, j1)).
Proof.
  intros HV Hs Ho Hk H0 H01 H1.
  rewrite (direct_chunks_concat px _ _ Hs (get_edges_admissible px n off k i0 i1 j0 j1 Ho Hk H0 H01 H1)).
  rewrite (QueryMain.direct_query_get_spans n _ _ k i0 i1 j0 j1 HV Hk H0 H01 H1).
  unfold QueryMain.winP. rewrite (map_snd_filter_enum (QueryProofs.in_window (i0, i1, j0, j1))).
  unfold Query.epx_of. rewrite EndToEnd.map_snd_enumerate. apply window_select_query.
Qed.

Lemma fill_spec_query px bb :
  fill_spec px bb = filter (QueryProofs.in_window bb) (QueryMain.completion px).
Proof. destruct bb as [[[i0 i1] j0] j1]. unfold fill_spec. apply filter_ext. intros [[a b] v]. unfold in_window, QueryProofs.in_window, inb, row, col. cbn [fst snd]. destruct (i0 <=? a), (a <? i1), (j0 <=? b), (b <? j1); reflexivity. Qed.

(** fill-lower engine: my engine model and Query.fill_lower_query return rearrangements of one another *)
Theorem fill_engine_agrees px n off k i0 i1 j0 j1 :
  QueryProofs.ValidCSR n (Query.epx_of px) off -> Upper px -> NoDup px -> RowSorted px -> OffsetsFor px n off ->
  BoxIn n (i0, i1, j0, j1) -> 1 <= k ->
  exists chunks out,
    fill_chunks px (i0, i1, j0, j1) (get_edges off k) = Some chunks /\
    Query.fill_lower_query (Query.epx_of px) off (Query.get_spans off k) (i0, i1, j0, j1) = Some out /\
    Permutation (concat chunks) (map snd out).
Proof.
  intros HV HU Hn Hs Ho Hb Hk.
  destruct (fill_every_chunksize px n off k i0 i1 j0 j1 HU Hn Hs Ho Hb Hk) as (chunks & Hc & Hp & _).
  cbn in Hb.
  assert (HUq : QueryMain.Upper (Query.epx_of px)).
  { intros r Hr. apply HU. rewrite <- (EndToEnd.map_snd_enumerate px). now apply in_map. }
  destruct (QueryMain.fill_lower_get_spans n _ off k i0 i1 j0 j1 HV HUq Hk) as (out & Hq & Hpq); try tauto.
  exists chunks, out. split; [exact Hc|]. split; [exact Hq|].
  rewrite Hp. unfold Query.epx_of in Hpq. rewrite EndToEnd.map_snd_enumerate in Hpq.
  rewrite fill_spec_query. now symmetry.
Qed.

(* ------------------------------------------------------------------ every schema-valid collection (C02), every chunk size *)
Lemma offsets_for_index px n : 0 <= n -> OffsetsFor px n (Index.offsets_of n (map row px)).
Proof.
  intro Hn. unfold OffsetsFor, Index.offsets_of. split.
  - unfold zlen. rewrite map_length, zrange_length. lia.
  - intros i Hi. unfold znth. replace (Z.to_nat i) with (Z.to_nat i) by reflexivity.
    rewrite (nth_indep _ 0 (Index.count_lt (map row px) 0)) by (rewrite map_length, zrange_length; lia).
    rewrite map_nth. rewrite (nth_error_nth _ _ _ (nth_error_zrange 0 (Z.to_nat (n + 1)) (Z.to_nat i) ltac:(lia))).
    unfold Index.count_lt, offset. rewrite EndToEnd.zlen_filter_map. f_equal. apply filter_ext. intro p. f_equal. lia.
Qed.

Lemma stored_collection_facts (c : Index.cooler) :
  IndexProofs.ValidCSR c ->
  let px := Index.pixels_of c in
  SSorted px /\ RowSorted px /\ NoDup px /\ (Index.symmetric_upper c = true -> Upper px) /\
  OffsetsFor px (Index.nbins c) (Index.bin1_offset c) /\
  QueryProofs.ValidCSR (Index.nbins c) (Query.epx_of px) (Index.bin1_offset c).
Proof.
  intro HV. pose proof (EndToEnd.stored_cooler_meets_query_hypotheses c HV) as (HQ & _ & _ & _).
  destruct HV as (H1 & H2 & H3 & Hs & Hr & Hu & Hoff & Hbc & _). cbv zeta.
  set (px := Index.pixels_of c) in *.
  assert (Hn : 0 <= Index.nbins c) by (rewrite <- Hbc; unfold zlen; lia).
  assert (Hb1 : Index.bin1 c = map row px).
  { unfold px, Index.pixels_of. symmetry. apply EndToEnd.map_row_pixels_of; unfold zlen in *; lia. }
  repeat split.
  - exact Hs.
  - now apply ssorted_rowsorted.
  - apply (NoDup_map_inv fst). now apply EndToEnd.ssorted_nodup_keys.
  - intros Hsym p Hp. now apply Hu.
  - rewrite Hoff, Hb1. unfold zlen. destruct (offsets_for_index px (Index.nbins c) Hn) as [Hl _]. exact Hl.
  - rewrite Hoff, Hb1. now destruct (offsets_for_index px (Index.nbins c) Hn).
  - exact HQ.
Qed.

(** the dumped cooler [dc] describes the stored collection [c] *)
Definition Describes (dc : dcooler) (c : Index.cooler) : Prop :=
  d_px dc = Index.pixels_of c /\ d_symm dc = Index.symmetric_upper c /\ zlen (d_bins dc) = Index.nbins c.

(** C16 over C02: for EVERY collection that satisfies the published schema, every option setting, every window inside the
    bin table and EVERY -k >= 1 (spans computed by the lead's model of CSRReader.get_spans):
    the dump is the annotated list of the stored records inside the window in storage order, resp. (with -f on a
    symmetric-upper collection) the annotation of a rearrangement of the symmetric completion inside the window, each once *)
Theorem stored_collection_dump (c : Index.cooler) (dc : dcooler) o k :
  IndexProofs.ValidCSR c -> Describes dc c -> BoxIn (Index.nbins c) (bbox_of dc o) -> 1 <= k ->
  let cuts := get_edges (Index.bin1_offset c) k in
  (o_fill o && d_symm dc = false ->
     dump_pixels dc o cuts =
       if o_balanced o && no_weights dc then None
       else match Query.get_spans (Index.bin1_offset c) k (bbox_of dc o) with
            | [] => Some []
            | _ :: _ =>
                match annot_chunk dc o (window_select (Index.pixels_of c) (bbox_of dc o)) with
                | None => None
                | Some rows =>
                    match o_header o, header_of dc o with
                    | true, Some h => Some (Header h :: body_of rows)
                    | _, _ => Some (body_of rows)
                    end
                end
            end) /\
  (o_fill o && d_symm dc = true ->
     exists chunks,
       engine_chunks dc o cuts = Some chunks /\
       Permutation (concat chunks) (fill_spec (Index.pixels_of c) (bbox_of dc o)) /\ NoDup (concat chunks) /\
       dump_pixels dc o cuts =
         if o_balanced o && no_weights dc then None
         else match chunks with
              | [] => Some []
              | _ :: _ =>
                  match annot_chunk dc o (concat chunks) with
                  | None => None
                  | Some rows =>
                      match o_header o, header_of dc o with
                      | true, Some h => Some (Header h :: body_of rows)
                      | _, _ => Some (body_of rows)
                      end
                  end
              end).
Proof.
  intros HV (Hpx & Hsym & Hnb) Hb Hk cuts.
  destruct (stored_collection_facts c HV) as (Hs & Hrs & Hnd & HU & Ho & _). rewrite <- Hpx in *.
  split.
  - intro Hd. unfold cuts. now apply (dump_direct_every_chunksize dc o (Index.nbins c)).
  - intro Hf. unfold cuts. apply (dump_fill_every_chunksize dc o (Index.nbins c)); try assumption.
    apply HU. rewrite <- Hsym. apply andb_prop in Hf. tauto.
Qed.

(* ------------------------------------------------------------------ when does the real get_spans yield no span? (finding D18 for every -k) *)
Lemma spans_of_nil_iff a l : spans_of (a :: l) = [] <-> l = [].
Proof. destruct l as [|b t]; [cbn; tauto|]. rewrite spans_of_cons. split; discriminate. Qed.

Theorem get_spans_nil_iff px n off k i0 i1 j0 j1 :
  OffsetsFor px n off -> 1 <= k -> 0 <= i0 -> i0 <= i1 -> i1 <= n ->
  (Query.get_spans off k (i0, i1, j0, j1) = [] <->
   degenerate (i0, i1, j0, j1) = true \/ offset px i0 = offset px i1).
Proof.
  intros Ho Hk H0 H01 H1. rewrite get_spans_edges. unfold get_edges, degenerate.
  destruct ((i1 - i0 <? 1) || (j1 - j0 <? 1)) eqn:Ed; [cbn; tauto|].
  set (seq := slice off i0 (i1 + 1)).
  assert (Eseq : seq = map (offset px) (zrange i0 (Z.to_nat (i1 - i0 + 1)))) by (now apply (slice_offsets px n)).
  assert (Hs : StronglySorted Z.le seq) by (rewrite Eseq; apply sorted_map_mono; intros; now apply offset_mono).
  assert (Hlen : length seq = Z.to_nat (i1 - i0 + 1)) by (rewrite Eseq; now rewrite map_length, zrange_length).
  assert (Hne : seq <> []) by (intro E; rewrite E in Hlen; cbn in Hlen; lia).
  set (cuts := Query.linspace_int (hd 0 seq) (last seq 0) (2 + (last seq 0 - hd 0 seq) / k)).
  assert (Hadm : SpansProofs.AdmissibleCuts seq cuts) by (now apply SpansProofs.linspace_admissible).
  destruct (SpansProofs.prune_admissible seq cuts Hs Hne Hadm) as (es & Hp & Hc & Hb & Hl).
  change (Query.arg_prune_partition seq k) with (Query.prune_with_cuts seq cuts).
  assert (Hstrict : StronglySorted Z.lt (Query.prune_with_cuts seq cuts)) by apply SpansProofs.unique_sorted.
  assert (Hmem : forall e, In e es -> exists cut, cut <= last seq 0 /\ e = searchsorted_left seq cut).
  { intros e He. assert (Hin : In e (Query.prune_with_cuts seq cuts)) by (rewrite Hp; now right).
    unfold Query.prune_with_cuts in Hin. rewrite SpansProofs.unique_in in Hin. apply in_map_iff in Hin as (cut & <- & Hcut).
    exists cut. split; [|reflexivity]. destruct Hadm as (_ & _ & Hall). rewrite Forall_forall in Hall. now apply Hall. }
  rewrite Hp in *. cbn [map]. rewrite spans_of_nil_iff.
  unfold zlen in Hb. rewrite Hlen in Hb.
  assert (Hhd : hd 0 seq = offset px i0).
  { rewrite Eseq. replace (Z.to_nat (i1 - i0 + 1)) with (S (Z.to_nat (i1 - i0))) by lia. rewrite zrange_cons. reflexivity. }
  assert (Hlastseq : last seq 0 = offset px i1).
  { rewrite (SpansProofs.last_nth_len seq 0 Hne), Hlen, Eseq. rewrite nth_map_zrange by lia. f_equal. lia. }
  split.
  - intro E. right. apply map_eq_nil in E. subst es. cbn in Hl.
    rewrite Eseq in Hl. rewrite (nth_map_zrange (offset px) i0 _ 0) in Hl by lia. rewrite <- Eseq in Hl.
    rewrite Hlastseq in Hl. rewrite <- Hl. f_equal. lia.
  - intros [Hx|Heq]; [discriminate|].
    destruct es as [|e t]; [reflexivity|exfalso].
    apply StronglySorted_inv in Hstrict as [_ Hall]. apply Forall_inv in Hall.
    destruct (Hmem e (or_introl eq_refl)) as (cut & Hcut & ->).
    pose proof (SpansProofs.ss_mono seq cut (hd 0 seq) ltac:(lia)). pose proof (SpansProofs.ss_hd seq 0). lia.
Qed.

(** a span exists iff some stored record lies in the row range of a non-degenerate box — for every -k *)
Corollary get_spans_nonempty_iff_pixel px n off k i0 i1 j0 j1 :
  OffsetsFor px n off -> 1 <= k -> 0 <= i0 -> i0 <= i1 -> i1 <= n ->
  (Query.get_spans off k (i0, i1, j0, j1) <> [] <->
   degenerate (i0, i1, j0, j1) = false /\ exists p, In p px /\ i0 <= row p < i1).
Proof.
  intros Ho Hk H0 H01 H1. rewrite (get_spans_nil_iff px n off k i0 i1 j0 j1 Ho Hk H0 H01 H1).
  destruct (degenerate (i0, i1, j0, j1)); [split; [intro H; contradiction H; now left|intros [H _]; discriminate]|].
  split.
  - intro H. split; [reflexivity|].
    assert (Hlt : offset px i0 < offset px i1) by (pose proof (offset_mono px i0 i1 H01); destruct (Z.eq_dec (offset px i0) (offset px i1)); [contradiction H; now right|lia]).
    clear - Hlt H01. unfold offset, zlen in Hlt. induction px as [|q t IH]; [cbn in Hlt; lia|].
    cbn [filter] in Hlt. destruct (row q <? i0) eqn:E0, (row q <? i1) eqn:E1; cbn [length] in Hlt.
    + destruct IH as (p & Hp & Hr); [lia|]. exists p. split; [now right|assumption].
    + lia.
    + exists q. split; [now left|lia].
    + destruct IH as (p & Hp & Hr); [lia|]. exists p. split; [now right|assumption].
  - intros [_ (p & Hp & Hr)] [Hx|Heq]; [discriminate|].
    pose proof (offset_strict px i0 i1 p H01 Hp Hr). lia.
Qed.

(** chunk-size independence of the dump of a stored collection (direct engine): any two -k >= 1 give the same text *)
Corollary stored_collection_dump_chunksize_independent (c : Index.cooler) (dc : dcooler) o k1 k2 :
  IndexProofs.ValidCSR c -> Describes dc c -> BoxIn (Index.nbins c) (bbox_of dc o) -> 1 <= k1 -> 1 <= k2 ->
  o_fill o && d_symm dc = false ->
  dump_pixels dc o (get_edges (Index.bin1_offset c) k1) = dump_pixels dc o (get_edges (Index.bin1_offset c) k2).
Proof.
  intros HV Hdesc Hb H1 H2 Hd.
  destruct (stored_collection_dump c dc o k1 HV Hdesc Hb H1) as [E1 _].
  destruct (stored_collection_dump c dc o k2 HV Hdesc Hb H2) as [E2 _].
  rewrite (E1 Hd), (E2 Hd).
  destruct (stored_collection_facts c HV) as (_ & _ & _ & _ & Ho & _).
  destruct (bbox_of dc o) as [[[i0 i1] j0] j1]. cbn in Hb.
  pose proof (get_spans_nil_iff _ _ _ k1 i0 i1 j0 j1 Ho H1 ltac:(tauto) ltac:(tauto) ltac:(tauto)) as N1.
  pose proof (get_spans_nil_iff _ _ _ k2 i0 i1 j0 j1 Ho H2 ltac:(tauto) ltac:(tauto) ltac:(tauto)) as N2.
  destruct (Query.get_spans (Index.bin1_offset c) k1 (i0, i1, j0, j1)) eqn:G1,
           (Query.get_spans (Index.bin1_offset c) k2 (i0, i1, j0, j1)) eqn:G2; try reflexivity.
  - destruct N1 as [N1 _]. destruct N2 as [_ N2]. specialize (N2 (N1 eq_refl)). discriminate.
  - destruct N2 as [N2 _]. destruct N1 as [_ N1]. specialize (N1 (N2 eq_refl)). discriminate.
Qed.

(** the index as Model/Query.v derives it from a table is the one [OffsetsFor] describes *)
Lemma offsets_for_query px n : 0 <= n -> OffsetsFor px n (Query.offsets_of n px).
Proof.
  intro Hn. unfold OffsetsFor, Query.offsets_of. split.
  - unfold zlen. rewrite map_length, zrange_length. lia.
  - intros i Hi. unfold znth. change (fun b : Z => zlen (filter (fun p : pixel => row p <? b) px)) with (offset px).
    rewrite nth_map_zrange by lia. f_equal. lia.
Qed.

(* ------------------------------------------------------------------ any cut sequence (float rounding inside np.linspace) *)
(** np.linspace's interior cuts are computed in floating point; whatever they are, as long as the cut sequence contains
    lo and hi and stays <= hi (SpansProofs.AdmissibleCuts), the resulting edges are admissible for the dump's engine *)
Definition edges_with (cutsf : list Z -> list Z) (off : list Z) (bb : bbox) : list Z :=
  let '(i0, i1, j0, j1) := bb in
  if (i1 - i0 <? 1) || (j1 - j0 <? 1) then []
  else map (Z.add i0) (Query.prune_with_cuts (slice off i0 (i1 + 1)) (cutsf (slice off i0 (i1 + 1)))).

Lemma spans_with_edges cutsf off bb : SpansProofs.spans_with cutsf off bb = spans_of (edges_with cutsf off bb).
Proof.
  destruct bb as [[[i0 i1] j0] j1]. unfold SpansProofs.spans_with, edges_with.
  destruct ((i1 - i0 <? 1) || (j1 - j0 <? 1)); reflexivity.
Qed.

Theorem edges_with_admissible px n off cutsf i0 i1 j0 j1 :
  (forall seq, StronglySorted Z.le seq -> seq <> [] -> SpansProofs.AdmissibleCuts seq (cutsf seq)) ->
  OffsetsFor px n off -> 0 <= i0 -> i0 <= i1 -> i1 <= n ->
  AdmissibleCuts px (i0, i1, j0, j1) (edges_with cutsf off (i0, i1, j0, j1)).
Proof.
  intros Hcuts Ho H0 H01 H1. unfold edges_with.
  destruct ((i1 - i0 <? 1) || (j1 - j0 <? 1)) eqn:Ed.
  - cbn. repeat split; [constructor|lia|]. intros p _ Hp. unfold span_pred, inb in Hp. lia.
  - set (seq := slice off i0 (i1 + 1)).
    assert (Eseq : seq = map (offset px) (zrange i0 (Z.to_nat (i1 - i0 + 1)))) by (now apply (slice_offsets px n)).
    assert (Hs : StronglySorted Z.le seq) by (rewrite Eseq; apply sorted_map_mono; intros; now apply offset_mono).
    assert (Hlen : length seq = Z.to_nat (i1 - i0 + 1)) by (rewrite Eseq; now rewrite map_length, zrange_length).
    assert (Hne : seq <> []) by (intro E; rewrite E in Hlen; cbn in Hlen; lia).
    destruct (SpansProofs.prune_admissible seq _ Hs Hne (Hcuts seq Hs Hne)) as (es & Hp & Hc & Hb & Hl).
    rewrite Hp. cbn [map]. rewrite Z.add_0_r.
    assert (Hlast : last (i0 :: map (Z.add i0) es) i0 = i0 + last es 0).
    { rewrite QueryProofs.last_cons_default. rewrite <- (Z.add_0_r i0) at 2. apply SpansProofs.last_map_add. }
    unfold zlen in Hb. rewrite Hlen in Hb.
    assert (Hoffe : offset px (i0 + last es 0) = offset px i1).
    { rewrite Eseq in Hl. rewrite nth_map_zrange in Hl by lia. rewrite Z2Nat.id in Hl by lia. rewrite Hl.
      rewrite <- Eseq. rewrite (SpansProofs.last_nth_len seq 0 Hne). rewrite Hlen.
      rewrite Eseq. rewrite nth_map_zrange by lia. f_equal. lia. }
    split; [|split; [reflexivity|split]].
    + apply chain_sorted. rewrite <- (Z.add_0_r i0) at 1. now apply SpansProofs.chain_map_add.
    + rewrite Hlast. lia.
    + intros p Hp' Hs'. rewrite Hlast.
      destruct (Z_lt_ge_dec (row p) (i0 + last es 0)) as [Hlt|Hge]; [assumption|exfalso].
      unfold span_pred, inb in Hs'.
      pose proof (offset_strict px (i0 + last es 0) i1 p ltac:(lia) Hp' ltac:(lia)). lia.
Qed.

(** the direct dump for every admissible cut function (in particular the floating-point linspace of numpy) *)
Theorem dump_direct_every_cut_sequence c o n off cutsf :
  (forall seq, StronglySorted Z.le seq -> seq <> [] -> SpansProofs.AdmissibleCuts seq (cutsf seq)) ->
  o_fill o && d_symm c = false ->
  RowSorted (d_px c) -> OffsetsFor (d_px c) n off -> BoxIn n (bbox_of c o) ->
  dump_pixels c o (edges_with cutsf off) =
    if o_balanced o && no_weights c then None
    else match SpansProofs.spans_with cutsf off (bbox_of c o) with
         | [] => Some []
         | _ :: _ =>
             match annot_chunk c o (window_select (d_px c) (bbox_of c o)) with
             | None => None
             | Some rows =>
                 match o_header o, header_of c o with
                 | true, Some h => Some (Header h :: body_of rows)
                 | _, _ => Some (body_of rows)
                 end
             end
         end.
Proof.
  intros Hcuts Hd Hs Ho Hb. rewrite spans_with_edges. apply dump_eq_query_direct; try assumption.
  destruct (bbox_of c o) as [[[i0 i1] j0] j1]. cbn in Hb. apply (edges_with_admissible _ n); tauto.
Qed.

(** fill-lower for every admissible cut function *)
Theorem fill_every_cut_sequence px n off cutsf i0 i1 j0 j1 :
  (forall seq, StronglySorted Z.le seq -> seq <> [] -> SpansProofs.AdmissibleCuts seq (cutsf seq)) ->
  Upper px -> NoDup px -> RowSorted px -> OffsetsFor px n off -> BoxIn n (i0, i1, j0, j1) ->
  exists chunks, fill_chunks px (i0, i1, j0, j1) (edges_with cutsf off) = Some chunks /\
    Permutation (concat chunks) (fill_spec px (i0, i1, j0, j1)) /\ NoDup (concat chunks).
Proof.
  intros Hcuts HU Hn Hs Ho Hb.
  assert (Ha : PlanAdmissible px (i0, i1, j0, j1) (edges_with cutsf off)).
  { intros plan t Hp Hin. pose proof (plan_boxes_in n i0 i1 j0 j1 plan t Hb Hp Hin) as Hx.
    destruct t as [tr [[[x0 x1] y0] y1]]. cbn [snd] in *. apply (edges_with_admissible px n); tauto. }
  pose proof (fill_chunks_perm px i0 i1 j0 j1 (edges_with cutsf off) HU Hn Hs) as H.
  cbn in Hb. specialize (H ltac:(tauto) ltac:(tauto) Ha).
  destruct (fill_chunks px (i0, i1, j0, j1) (edges_with cutsf off)) as [chunks|]; [|contradiction].
  exists chunks. tauto.
Qed.
