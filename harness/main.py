"""./check driver: proofs re-check + correspondence run + verdict + evidence."""
from __future__ import annotations

import argparse
import importlib
import json
import os
import sys
import traceback

import common


def main():
    ap = argparse.ArgumentParser()
    ap.add_argument("prop")
    ap.add_argument("--tier", default=os.environ.get("VERIF_TIER", "quick"), choices=["quick", "thorough"])
    ap.add_argument("--replay")
    ap.add_argument("--build-only", action="store_true")
    ap.add_argument("--no-proofs", action="store_true", help="development only: skip the proof re-check")
    args = ap.parse_args()
    if os.environ.get("VERIF_TIER") in ("quick", "thorough") and "--tier" not in sys.argv:
        args.tier = os.environ["VERIF_TIER"]
    seed = int(os.environ.get("VERIF_SEED", "20260927"))
    prop = args.prop.upper()
    mod = importlib.import_module(prop.lower())
    ctx = common.Ctx(prop, args.tier, seed, allow_axioms=getattr(mod, "ALLOW_AXIOMS", ()))
    ctx.rule = getattr(mod, "RULE", "")
    ctx.trusted = list(getattr(mod, "TRUSTED", []))
    ctx.assumptions = list(getattr(mod, "ASSUMPTIONS", []))
    ctx.residue = list(getattr(mod, "RESIDUE", []))

    if args.replay:
        rp = json.load(open(args.replay))
        if rp.get("kind") != "failing-input":
            print(f"replay names broken obligations, no input: {rp.get('broken_obligations')}")
            print(json.dumps(rp.get("first_disagreement"), indent=1)[:3000])
            sys.exit(0)
        try:
            ok = mod.replay(ctx, rp["case"])
        finally:
            import shutil
            shutil.rmtree(ctx.tmp, ignore_errors=True)
        print("replay:", "property holds on this case now" if ok else "property FAILS on this case")
        sys.exit(0 if ok else 1)

    if not args.no_proofs:
        ctx.check_proofs()
        if args.tier == "thorough" and not ctx.broken:
            ctx.thorough_recheck()
    if args.build_only:
        import shutil
        shutil.rmtree(ctx.tmp, ignore_errors=True)
        print("broken:", ctx.broken)
        sys.exit(1 if ctx.broken else 0)
    try:
        mod.run(ctx)
    except common.coqio_ModelEvalError as e:  # model could not be evaluated: broken correspondence
        ctx.broke("model evaluation failed (correspondence cannot be established): " + str(e)[-800:])
    except Exception:
        # The correspondence run could not be completed (typically the implementation raised where the harness
        # did not expect it).  On the unchanged tree this does not happen; when it does, the tie between model and
        # code is not established, which is reported like any other broken correspondence (no failing input known).
        tb = traceback.format_exc()
        print(tb, file=sys.stderr)
        ctx.broke("correspondence run aborted by an unexpected exception: " + " | ".join(tb.strip().splitlines()[-4:])[-900:])
    sys.exit(ctx.finish())


if __name__ == "__main__":
    main()
