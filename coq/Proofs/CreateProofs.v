(** Proofs about Model/Create.v (C01, C13). *)
From Cooler Require Import Model.Create Proofs.PixelsProofs.
From Coq Require Import Permutation Sorting.Sorted ZifyBool.
Open Scope Z_scope.
