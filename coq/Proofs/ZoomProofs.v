(** Proofs about the multi-resolution model (Model/Zoom.v): C09. *)
From Cooler Require Import Model.Zoom Proofs.BinsProofs Proofs.PixelsProofs Proofs.CoarsenProofs.
From Coq Require Import Sorted Permutation ZifyBool.

(* ============================================================ get_multiplier_sequence *)
Lemma memZ_in x l : memZ x l = true <-> In x l.
Proof.
  unfold memZ. rewrite existsb_exists. split.
  - intros [y [Hy E]]. apply Z.eqb_eq in E. now subst.
  - intros H. exists x. split; [exact H|apply Z.eqb_refl].
Qed.

(** the downward scan returns the nearest smaller position whose resolution divides the target *)
Lemma scan_down_spec t : forall rp p,
  (scan_down t rp p = (-1, -1) /\ forall r, In r rp -> t mod r <> 0) \/
  (exists j r, nth_error rp j = Some r /\ t mod r = 0 /\ scan_down t rp p = (p - Z.of_nat j, t / r) /\
               forall j' r', (j' < j)%nat -> nth_error rp j' = Some r' -> t mod r' <> 0).
Proof.
  induction rp as [|r rp IH]; intros p; cbn [scan_down].
  - left. split; [reflexivity|intros r []].
  - destruct (t mod r =? 0) eqn:E.
    + right. exists 0%nat, r. split; [reflexivity|]. split; [lia|]. split; [f_equal; lia|]. intros j' r' Hj. lia.
    + destruct (IH (p - 1)) as [[H1 H2]|(j & r0 & Hj & Hm & Hs & Hbefore)].
      * left. split; [exact H1|]. intros r' [<-|Hr']; [lia|now apply H2].
      * right. exists (S j), r0. split; [exact Hj|]. split; [exact Hm|]. split; [rewrite Hs; f_equal; lia|].
        intros j' r' Hj' Hn. destruct j' as [|j']; cbn in Hn; [injection Hn as <-; lia|].
        apply (Hbefore j' r'); [lia|exact Hn].
Qed.

Lemma nth_error_rev_firstn (l : list Z) i j r : (i <= length l)%nat ->
  nth_error (rev (firstn i l)) j = Some r -> (j < i)%nat /\ nth_error l (i - 1 - j) = Some r.
Proof.
  intros Hi Hj.
  assert (Hlen : length (firstn i l) = i) by (rewrite firstn_length; lia).
  assert (Hjl : (j < i)%nat).
  { rewrite <- Hlen, <- rev_length. apply nth_error_Some. congruence. }
  split; [exact Hjl|].
  assert (H := nth_error_nth (rev (firstn i l)) j 0 Hj).
  rewrite rev_nth in H by (rewrite firstn_length; lia). rewrite firstn_length in H.
  replace (Nat.min i (length l) - S j)%nat with (i - 1 - j)%nat in H by lia.
  assert (Hf : nth_error (firstn i l) (i - 1 - j) = Some r).
  { rewrite <- H. apply nth_error_nth'. rewrite firstn_length. lia. }
  rewrite nth_error_firstn in Hf. destruct (i - 1 - j <? i)%nat; [exact Hf|discriminate].
Qed.

Lemma pred_mult_spec resn i : (i < length resn)%nat ->
  let t := nth i resn 0 in
  (pred_mult resn i = (-1, -1) /\ forall q r, (q < i)%nat -> nth_error resn q = Some r -> t mod r <> 0) \/
  (exists q r, (q < i)%nat /\ nth_error resn q = Some r /\ t mod r = 0 /\ pred_mult resn i = (Z.of_nat q, t / r)).
Proof.
  intros Hi t. unfold pred_mult. fold t.
  destruct (scan_down_spec t (rev (firstn i resn)) (Z.of_nat i - 1)) as [[H1 H2]|(j & r & Hj & Hm & Hs & _)].
  - left. split; [exact H1|]. intros q r Hq Hn. apply H2. apply in_rev. rewrite rev_involutive.
    apply (nth_error_In _ q). rewrite nth_error_firstn. apply Nat.ltb_lt in Hq. now rewrite Hq.
  - right. apply nth_error_rev_firstn in Hj as [Hji Hn]; [|lia].
    exists (i - 1 - j)%nat, r. split; [lia|]. split; [exact Hn|]. split; [exact Hm|].
    rewrite Hs. f_equal. lia.
Qed.

Definition Positive (l : list Z) : Prop := Forall (fun x => 1 <= x) l.

Lemma sorted_lt_nth l : StronglySorted Z.lt l ->
  forall i j x y, (i < j)%nat -> nth_error l i = Some x -> nth_error l j = Some y -> x < y.
Proof.
  induction 1 as [|a l HS IH Hall]; intros i j x y Hij Hx Hy; [now rewrite nth_error_nil' in Hx|].
  destruct j as [|j]; [lia|]. cbn in Hy. destruct i as [|i]; cbn in Hx.
  - injection Hx as <-. rewrite Forall_forall in Hall. apply Hall. eapply nth_error_In; eauto.
  - apply (IH i j); auto. lia.
Qed.

Section MultSeq.
  Variable res bs : list Z.
  Hypothesis Hres : Positive res.
  Hypothesis Hbs : Positive bs.
  Let resn := np_unique (bs ++ res).

  Lemma resn_in x : In x resn <-> In x bs \/ In x res.
  Proof. unfold resn. rewrite np_unique_in, in_app_iff. reflexivity. Qed.

  Lemma resn_pos x : In x resn -> 1 <= x.
  Proof.
    intros H. apply resn_in in H. unfold Positive in *. rewrite Forall_forall in Hres, Hbs.
    destruct H; auto.
  Qed.

  Lemma resn_sorted : StronglySorted Z.lt resn.
  Proof. apply np_unique_sorted. Qed.

  (** what get_multiplier_sequence returns, when it returns *)
  Theorem multseq_sound resn' pred mult :
    get_multiplier_sequence res (Some bs) = Some (resn', pred, mult) ->
    resn' = resn /\ length pred = length resn /\ length mult = length resn /\
    forall i, (i < length resn)%nat ->
      (nth i pred 0 = -1 /\ nth i mult 0 = -1 /\ In (nth i resn 0) bs) \/
      (0 <= nth i pred 0 < Z.of_nat i /\ 2 <= nth i mult 0 /\
       nth (Z.to_nat (nth i pred 0)) resn 0 * nth i mult 0 = nth i resn 0).
  Proof.
    unfold get_multiplier_sequence. fold resn.
    set (pm := map (pred_mult resn) (seq 0 (length resn))).
    destruct (existsb _ _) eqn:E; [discriminate|]. intros H. injection H as <- <- <-.
    split; [reflexivity|]. split; [unfold pm; now rewrite !map_length, seq_length|].
    split; [unfold pm; now rewrite !map_length, seq_length|].
    intros i Hi.
    assert (Hpm : nth_error pm i = Some (pred_mult resn i)).
    { unfold pm. rewrite nth_error_map, (nth_error_nth' _ 0%nat) by (rewrite seq_length; lia).
      rewrite seq_nth by lia. reflexivity. }
    assert (Hp : nth i (map fst pm) 0 = fst (pred_mult resn i)).
    { apply nth_error_nth. rewrite nth_error_map, Hpm. reflexivity. }
    assert (Hm : nth i (map snd pm) 0 = snd (pred_mult resn i)).
    { apply nth_error_nth. rewrite nth_error_map, Hpm. reflexivity. }
    rewrite Hp, Hm.
    assert (Hri : nth_error resn i = Some (nth i resn 0)) by now apply nth_error_nth'.
    destruct (pred_mult_spec resn i Hi) as [[H1 _]|(q & r & Hq & Hn & Hmod & H1)].
    - left. rewrite H1. cbn [fst snd]. split; [reflexivity|]. split; [reflexivity|].
      (* not refused: the entry is a base *)
      destruct (memZ (nth i resn 0) bs) eqn:Em; [now apply memZ_in|exfalso].
      apply Bool.not_true_iff_false in E. apply E. apply existsb_exists.
      exists (nth i resn 0, -1). split.
      + apply (nth_error_In _ i). apply nth_error_combine; [exact Hri|].
        rewrite nth_error_map, Hpm, H1. reflexivity.
      + cbn [fst snd]. rewrite Em. reflexivity.
    - right. rewrite H1. cbn [fst snd]. rewrite Nat2Z.id, (nth_error_nth _ _ 0 Hn).
      assert (Hr : 1 <= r) by (apply resn_pos; eapply nth_error_In; eauto).
      assert (Hlt : r < nth i resn 0) by (apply (sorted_lt_nth resn resn_sorted q i); auto).
      assert (Hex : nth i resn 0 = r * (nth i resn 0 / r)) by (apply Z_div_exact_full_2; lia).
      split; [lia|]. split; [nia|lia].
  Qed.

  (** it refuses exactly when some requested resolution is not a multiple of any base *)
  Theorem multseq_complete :
    get_multiplier_sequence res (Some bs) = None <->
    exists r, In r res /\ forall b, In b bs -> r mod b <> 0.
  Proof.
    unfold get_multiplier_sequence. fold resn.
    set (pm := map (pred_mult resn) (seq 0 (length resn))).
    assert (Hpm : forall i, (i < length resn)%nat -> nth_error pm i = Some (pred_mult resn i)).
    { intros i Hi. unfold pm. rewrite nth_error_map, (nth_error_nth' _ 0%nat) by (rewrite seq_length; lia).
      rewrite seq_nth by lia. reflexivity. }
    assert (Hlen : length (map fst pm) = length resn) by (unfold pm; now rewrite !map_length, seq_length).
    (* the refusal test, index by index *)
    assert (Hex : existsb (fun rp => (snd rp =? -1) && negb (memZ (fst rp) bs)) (combine resn (map fst pm)) = true <->
                  exists i, (i < length resn)%nat /\ fst (pred_mult resn i) = -1 /\ ~ In (nth i resn 0) bs).
    { rewrite existsb_exists. split.
      - intros [[r p] [Hin Ht]]. apply In_nth_error in Hin as [i Hi]. cbn [fst snd] in Ht.
        assert (Hil : (i < length resn)%nat).
        { assert (H : (i < length (combine resn (map fst pm)))%nat) by (apply nth_error_Some; congruence).
          rewrite combine_length in H. lia. }
        rewrite (nth_error_combine resn (map fst pm) i (nth i resn 0) (fst (pred_mult resn i))) in Hi.
        2:{ now apply nth_error_nth'. }
        2:{ rewrite nth_error_map, (Hpm i Hil). reflexivity. }
        injection Hi as <- <-. exists i. split; [exact Hil|]. split; [lia|].
        intros Hin'. apply memZ_in in Hin'. rewrite Hin' in Ht. cbn in Ht. lia.
      - intros (i & Hil & Hp & Hnb). exists (nth i resn 0, fst (pred_mult resn i)). split.
        + apply (nth_error_In _ i). apply nth_error_combine; [now apply nth_error_nth'|].
          rewrite nth_error_map, (Hpm i Hil). reflexivity.
        + cbn [fst snd]. rewrite Hp. destruct (memZ (nth i resn 0) bs) eqn:Em; [apply memZ_in in Em; contradiction|reflexivity]. }
    assert (Hdiv : forall x y z, 1 <= y -> 1 <= z -> x mod y = 0 -> y mod z = 0 -> x mod z = 0).
    { intros x y z Hy Hz H1 H2. apply Z.mod_divide; [lia|]. apply Z.mod_divide in H1, H2; try lia.
      eapply Z.divide_trans; eauto. }
    split.
    - intros H.
      assert (E : existsb (fun rp => (snd rp =? -1) && negb (memZ (fst rp) bs)) (combine resn (map fst pm)) = true).
      { destruct (existsb (fun rp => (snd rp =? -1) && negb (memZ (fst rp) bs)) (combine resn (map fst pm))) in H |- *; [reflexivity|discriminate]. }
      clear H. apply (proj1 Hex) in E. destruct E as (i & Hil & Hp & Hnb).
      assert (Hri : nth_error resn i = Some (nth i resn 0)) by now apply nth_error_nth'.
      assert (Hin : In (nth i resn 0) resn) by (eapply nth_error_In; eauto).
      exists (nth i resn 0). split.
      + apply resn_in in Hin as [Hin|Hin]; [contradiction|exact Hin].
      + intros b Hb Hmod.
        assert (Hbpos : 1 <= b) by (unfold Positive in Hbs; rewrite Forall_forall in Hbs; auto).
        assert (Hbr : In b resn) by (apply resn_in; now left).
        apply In_nth_error in Hbr as [q Hq].
        assert (Hble : b <= nth i resn 0).
        { apply Z.mod_divide in Hmod; [|lia]. apply Z.divide_pos_le; [|exact Hmod]. apply resn_pos in Hin. lia. }
        assert (Hne : b <> nth i resn 0) by (intros ->; contradiction).
        assert (Hqi : (q < i)%nat).
        { destruct (Nat.lt_trichotomy q i) as [Hlt|[->|Hgt]]; [exact Hlt| |].
          - rewrite Hri in Hq. injection Hq as Hq. lia.
          - pose proof (sorted_lt_nth resn resn_sorted i q _ _ Hgt Hri Hq). lia. }
        destruct (pred_mult_spec resn i Hil) as [[_ H2]|(q' & r' & Hq' & Hn' & Hm' & H1)].
        * apply (H2 q b Hqi Hq Hmod).
        * rewrite H1 in Hp. cbn in Hp. lia.
    - intros (r & Hr & Hnone).
      (* strong induction along the predecessor chain *)
      assert (Hchain : forall n i, (i < n)%nat -> (i < length resn)%nat ->
                (forall b, In b bs -> nth i resn 0 mod b <> 0) ->
                exists i', (i' < length resn)%nat /\ fst (pred_mult resn i') = -1 /\ ~ In (nth i' resn 0) bs).
      { induction n as [|n IH]; intros i Hin Hil Hnb; [lia|].
        assert (Hnotbase : ~ In (nth i resn 0) bs).
        { intros Hb. apply (Hnb _ Hb). apply Z.mod_same. assert (1 <= nth i resn 0) by (apply resn_pos, nth_In; lia). lia. }
        destruct (pred_mult_spec resn i Hil) as [[H1 _]|(q & r0 & Hq & Hn & Hm & H1)].
        - exists i. rewrite H1. auto.
        - apply (IH q); [lia|apply nth_error_Some; congruence|].
          intros b Hb Hmod. apply (Hnb b Hb).
          assert (1 <= r0) by (apply resn_pos; eapply nth_error_In; eauto).
          assert (1 <= b) by (unfold Positive in Hbs; rewrite Forall_forall in Hbs; auto).
          rewrite (nth_error_nth _ _ 0 Hn) in Hmod. apply (Hdiv _ r0 b); auto. }
      assert (Hrin : In r resn) by (apply resn_in; now right).
      apply (In_nth _ _ 0) in Hrin as (i & Hil & Hi).
      destruct (Hchain (S i) i ltac:(lia) Hil ltac:(rewrite Hi; exact Hnone)) as (i' & A & B & D).
      assert (E : existsb (fun rp => (snd rp =? -1) && negb (memZ (fst rp) bs)) (combine resn (map fst pm)) = true)
        by (apply Hex; eauto).
      rewrite E. reflexivity.
  Qed.
End MultSeq.

(* ================================================================= coolers as records *)
Definition ValidCooler (c : cooler) : Prop :=
  exists blocks, c_bins c = concat blocks /\ ValidBlocks blocks /\ c_sizes c = map chrom_end blocks /\
                 RowSorted (c_px c) /\ InRange (zlen (concat blocks)) (c_px c).

Lemma coarsen_c_valid c k cs bs : 1 <= k -> 1 <= cs -> 1 <= bs -> ValidCooler c -> ValidCooler (coarsen_c c k cs bs).
Proof.
  intros Hk Hcs Hbs (blocks & Eb & HV & Es & HS & HR).
  destruct (coarsen_bins_spec blocks k Hk HV) as (E1 & V1 & Ends1 & Lens1).
  exists (map (coarsen_block k) blocks). unfold coarsen_c, coarsen_cooler, c_bins, c_sizes, c_px in *. cbn [fst snd].
  rewrite Eb, Es, E1. split; [reflexivity|]. split; [exact V1|]. split; [now rewrite Ends1|].
  rewrite (coarsen_canon blocks (snd c) k cs bs) by (auto using inrange_rows).
  assert (Hlens : Forall (fun n => 0 <= n) (map zlen blocks)).
  { eapply Forall_impl; [|exact (valid_lens blocks HV)]. intros; cbn in *; lia. }
  split.
  - apply ssorted_rowsorted. unfold coarsen_spec. now destruct (aggregate_canon (map (rekey (index_table (map zlen blocks) k)) (snd c))).
  - rewrite zlen_concat, Lens1, <- (map_map zlen (fun n => cdiv n k)).
    apply coarsen_spec_inrange; auto. now rewrite <- zlen_concat.
Qed.

Lemma coarsen_c_compose c k1 k2 cs1 bs1 cs2 bs2 cs bs :
  1 <= k1 -> 1 <= k2 -> 1 <= cs1 -> 1 <= bs1 -> 1 <= cs2 -> 1 <= bs2 -> 1 <= cs -> 1 <= bs -> ValidCooler c ->
  coarsen_c (coarsen_c c k1 cs1 bs1) k2 cs2 bs2 = coarsen_c c (k1 * k2) cs bs.
Proof.
  intros H1 H2 Hc1 Hb1 Hc2 Hb2 Hc Hb (blocks & Eb & HV & Es & HS & HR).
  pose proof (coarsen_compose blocks (c_px c) k1 k2 cs1 bs1 cs2 bs2 cs bs H1 H2 Hc1 Hb1 Hc2 Hb2 Hc Hb HV HS HR) as H.
  cbv zeta in H. unfold coarsen_c. unfold c_bins, c_sizes, c_px in *. cbn [fst snd] in *.
  rewrite Eb, Es. rewrite H. reflexivity.
Qed.

Lemma coarsen_c_chunk_independent c k cs1 bs1 cs2 bs2 :
  1 <= k -> 1 <= cs1 -> 1 <= bs1 -> 1 <= cs2 -> 1 <= bs2 -> ValidCooler c ->
  coarsen_c c k cs1 bs1 = coarsen_c c k cs2 bs2.
Proof.
  intros Hk Hc1 Hb1 Hc2 Hb2 (blocks & Eb & HV & Es & HS & HR).
  unfold coarsen_c, coarsen_cooler. unfold c_bins, c_sizes, c_px in *. cbn [fst snd] in *. rewrite Eb, Es.
  rewrite (coarsen_chunk_independent blocks (snd c) k cs1 bs1 cs2 bs2) by (auto using inrange_rows). reflexivity.
Qed.
