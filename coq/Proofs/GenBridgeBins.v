(** Tie between util.get_binsize as TRANSLATED from util.py on every run ([Gen.get_binsize]: the loop over the
    per-chromosome groups with its early exit, the two sets, the three decisions) and the hand model
    ([Bins.get_binsize]: one duplicate-free list of all non-last widths, one list of last widths, decided at the end).
    The early exit never changes the answer: a set that already holds two widths cannot shrink to one. *)
From Cooler Require Import Model.Bins Gen.Translated.
From Coq Require Import Lia ZifyBool.
Open Scope Z_scope.

Lemma nodup_app_nodup_l (l1 l2 : list Z) : nodup Z.eq_dec (nodup Z.eq_dec l1 ++ l2) = nodup Z.eq_dec (l1 ++ l2).
Proof.
  induction l1 as [|x l1 IH]; [reflexivity|].
  cbn [nodup app]. destruct (in_dec Z.eq_dec x l1) as [Hin|Hnin].
  - destruct (in_dec Z.eq_dec x (l1 ++ l2)) as [_|Hn]; [exact IH|]. exfalso; apply Hn, in_or_app; left; exact Hin.
  - cbn [nodup app].
    destruct (in_dec Z.eq_dec x (nodup Z.eq_dec l1 ++ l2)) as [Ha|Ha]; destruct (in_dec Z.eq_dec x (l1 ++ l2)) as [Hb|Hb].
    + exact IH.
    + exfalso; apply Hb. apply in_app_or in Ha. apply in_or_app. destruct Ha as [Ha|Ha]; [left; exact (proj1 (nodup_In Z.eq_dec _ _) Ha) | right; exact Ha].
    + exfalso; apply Ha. apply in_app_or in Hb. apply in_or_app. destruct Hb as [Hb|Hb]; [left; exact (proj2 (nodup_In Z.eq_dec _ _) Hb) | right; exact Hb].
    + rewrite IH. reflexivity.
Qed.

Lemma nodup_length_mono (l1 l2 : list Z) : (length (nodup Z.eq_dec l1) <= length (nodup Z.eq_dec (l1 ++ l2)))%nat.
Proof.
  apply NoDup_incl_length; [apply NoDup_nodup|].
  intros x Hx. apply (proj1 (nodup_In Z.eq_dec _ _)) in Hx. apply (proj2 (nodup_In Z.eq_dec _ _)). apply in_or_app. left; exact Hx.
Qed.

(** the loop, in closed form *)
Lemma gb_loop_closed : forall groups s l,
  match Gen.gb_loop groups (nodup Z.eq_dec s) (nodup Z.eq_dec l) with
  | Some (s', l') => s' = nodup Z.eq_dec (s ++ concat (map (@removelast Z) groups))
                     /\ l' = nodup Z.eq_dec (l ++ map (fun g => last g 0) groups)
  | None => (1 < length (nodup Z.eq_dec (s ++ concat (map (@removelast Z) groups))))%nat
  end.
Proof.
  induction groups as [|g groups IH]; intros s l.
  - cbn [Gen.gb_loop map concat]. rewrite !app_nil_r. split; reflexivity.
  - cbn [Gen.gb_loop map concat]. unfold Gen.set_update. rewrite !nodup_app_nodup_l.
    unfold Gen.gb_early_exit, Gen.zlen.
    destruct (Z.of_nat (length (nodup Z.eq_dec (s ++ removelast g))) >? 1) eqn:He.
    + pose proof (nodup_length_mono (s ++ removelast g) (concat (map (@removelast Z) groups))) as Hm.
      rewrite <- app_assoc in Hm. lia.
    + specialize (IH (s ++ removelast g) (l ++ [last g 0])).
      destruct (Gen.gb_loop groups _ _) as [[s' l']|].
      * destruct IH as [Hs Hl]. rewrite <- !app_assoc in Hs, Hl. cbn [app] in Hl. split; assumption.
      * rewrite <- app_assoc in IH. exact IH.
Qed.

Lemma existsb_nodup (f : Z -> bool) (l : list Z) : existsb f (nodup Z.eq_dec l) = existsb f l.
Proof.
  destruct (existsb f l) eqn:E.
  - apply existsb_exists in E. destruct E as [x [Hx Hf]]. apply existsb_exists. exists x. split; [exact (proj2 (nodup_In Z.eq_dec _ _) Hx) | exact Hf].
  - destruct (existsb f (nodup Z.eq_dec l)) eqn:E'; [|reflexivity].
    apply existsb_exists in E'. destruct E' as [x [Hx Hf]]. apply (proj1 (nodup_In Z.eq_dec _ _)) in Hx.
    assert (existsb f l = true) as Ht by (apply existsb_exists; exists x; split; assumption). congruence.
Qed.

Lemma zmax_list_gt (l : list Z) (b : Z) : l <> [] -> (Gen.zmax_list l >? b) = existsb (fun w => b <? w) l.
Proof.
  unfold Gen.zmax_list. destruct l as [|x l]; [congruence|]. intros _. cbn [hd].
  assert (forall l' d, (fold_right Z.max d l' >? b) = existsb (fun w => b <? w) l' || (d >? b)) as H.
  { induction l' as [|y l' IH]; intro d; cbn [fold_right existsb]; [reflexivity|].
    specialize (IH d). destruct (existsb _ l'); destruct (d >? b) eqn:?; destruct (b <? y) eqn:?; cbn in *; lia. }
  rewrite (H (x :: l) x). cbn [existsb]. destruct (b <? x) eqn:?; destruct (existsb _ l); cbn; lia.
Qed.

Theorem gen_get_binsize_is_model : forall t,
  Gen.get_binsize (map (fun c => map bwidth (rows_of t c)) (chroms_of t)) = get_binsize t.
Proof.
  intro t. unfold Gen.get_binsize, get_binsize.
  set (groups := map (fun c => map bwidth (rows_of t c)) (chroms_of t)).
  pose proof (gb_loop_closed groups [] []) as H. cbn [nodup app] in H.
  destruct (Gen.gb_loop groups [] []) as [[s' l']|].
  - destruct H as [Hs Hl]. subst s' l'.
    set (sizes := nodup Z.eq_dec (concat (map (@removelast Z) groups))).
    unfold Gen.gb_single, Gen.gb_last_longer, Gen.zlen.
    destruct sizes as [|b [|b2 r]] eqn:Es.
    + reflexivity.
    + cbn [length hd]. replace (Z.of_nat 1 =? 1) with true by reflexivity.
      destruct groups as [|g gs] eqn:Eg.
      * cbn in Es. discriminate.
      * rewrite zmax_list_gt.
        -- rewrite existsb_nodup. reflexivity.
        -- intro Hn. assert (In (last g 0) (nodup Z.eq_dec (map (fun g0 => last g0 0) (g :: gs)))) as Hi
             by (apply (proj2 (nodup_In Z.eq_dec _ _)); left; reflexivity).
           rewrite Hn in Hi. exact Hi.
    + cbn [length]. replace (Z.of_nat (S (S (length r))) =? 1) with false by lia. reflexivity.
  - destruct (nodup Z.eq_dec (concat (map (@removelast Z) groups))) as [|b [|b2 r]]; cbn [length] in H; try lia; reflexivity.
Qed.
