"""C14 — table selectors and bin annotation return the rows and coordinates asked for.

Correspondence: Cooler.chroms()/bins()/pixels() selectors ([a:b], scalar, column subsets), cooler.api.annotate with
whole / selector / contiguous partial bin tables, Cooler.pixels(join=True), integer chromosome-id decoding — against
the Gallina model (coq/Model/Table.v).  Property oracle (independent): numpy slicing / positional lookup on the raw
h5py columns.
"""
from __future__ import annotations

import itertools
import os

import numpy as np
import pandas as pd

import coqio as C

PROP = "C14"
RULE = ("coolers with 1, 6 and 8 bins (1-3 chromosomes, an extra integer and a float bin column), enum and plain-integer chromosome "
        "encodings; selectors chroms/bins/pixels: every (start, stop) in {None} u [-n, n] u {beyond both ends: n+1, n+5, 10^6, -n-1, -n-4, -10^6} x column subsets (all, one name -> Series, "
        "lists of one and two) plus every scalar in [-n-1, n]; annotate: pixel selections (empty, single, all, reversed, with repeats, "
        "random sizes below/at/above the bin count) x bin argument (whole frame, selector, column-restricted selector, EVERY contiguous "
        "partial view, containing the needed bins or not) x replace; non-trivial = non-empty row range / non-empty pixel selection; "
        "distinct by input hash")
TRUSTED = ["h5py raw reads of the table columns (model input and oracle reference)",
           "pandas .loc slicing on a monotonic integer index is end-inclusive and tolerant of absent bounds; .iloc with negative positions wraps (both modelled, both exercised)"]
ASSUMPTIONS = ["table cells are compared as integers (chromosome names through their codes); float columns are checked by the oracle only"]
RESIDUE = ["annotate with a view that does not contain the needed bins are outside the claim (the model still predicts them; compared, not judged)"]

NONINT = {"weight", "arm", "label", "alias"}       # float and text columns: judged by the oracle only
FIELD_IDS = {"chrom": 0, "start": 1, "end": 2, "extra": 3, "bin1_id": 10, "bin2_id": 11, "count": 12, "length": 20, "namecode": 21}


def build(ctx, tag, nper, rng, int_chrom=False, scale=1):
    import cooler
    import h5py
    names = ["chrA", "b", "chr10"][: len(nper)]
    rows = []
    for cname, k in zip(names, nper):
        pos = 0
        for _ in range(k):
            w = rng.choice([5, 10, 10, 13]) * scale      # scale 4e7: coordinates up to ~2.08e9, just below the int32 limit of the stored columns
            rows.append((cname, pos, pos + w))
            pos += w
    bins = pd.DataFrame(rows, columns=["chrom", "start", "end"])
    n = len(bins)
    bins["extra"] = [rng.randint(0, 99) for _ in range(n)]
    bins["weight"] = [rng.choice([0.5, 1.25, np.nan, 2.0]) for _ in range(n)]
    pix = [(i, j, rng.randint(1, 30)) for i in range(n) for j in range(i, n) if rng.random() < 0.55]
    if n > 1 and not pix:
        pix = [(0, n - 1, 3)]
    df = pd.DataFrame(pix, columns=["bin1_id", "bin2_id", "count"]).astype(np.int64)
    path = str(ctx.tmp / f"{tag}.cool")
    cooler.create_cooler(path, bins, df, dtypes={"count": np.int64})
    if int_chrom:
        with h5py.File(path, "r+") as f:
            codes = f["bins/chrom"][:].astype(np.int32)
            del f["bins/chrom"]
            f["bins"].create_dataset("chrom", data=codes)
    # fixed-width text columns of DIFFERENT widths, the narrow one first (added the documented way: through h5py)
    with h5py.File(path, "r+") as f:
        f["bins"].create_dataset("arm", data=np.array([("p" if k % 2 else "q") for k in range(n)], dtype="S1"))
        f["bins"].create_dataset("label", data=np.array([f"{names[0]}_locus_{k:03d}_{'x' * (k % 5)}" for k in range(n)], dtype="S24"))
        f["chroms"].create_dataset("alias", data=np.array([f"NC_{k:06d}.{k + 10}" for k in range(len(names))], dtype="S14"))
    with h5py.File(path, "r") as f:
        raw = {
            "chroms": {"name": [x.decode() for x in f["chroms/name"][:]], "length": f["chroms/length"][:].tolist(),
                       "alias": [x.decode() for x in f["chroms/alias"][:]]},
            "bins": {"chrom": f["bins/chrom"][:].tolist(), "start": f["bins/start"][:].tolist(), "end": f["bins/end"][:].tolist(),
                     "extra": f["bins/extra"][:].tolist(), "weight": f["bins/weight"][:].tolist(),
                     "arm": [x.decode() for x in f["bins/arm"][:]], "label": [x.decode() for x in f["bins/label"][:]]},
            "pixels": {"bin1_id": f["pixels/bin1_id"][:].tolist(), "bin2_id": f["pixels/bin2_id"][:].tolist(), "count": f["pixels/count"][:].tolist()},
        }
    return path, raw


def frame_to_rows(obj, chromnames, series_name=None):
    """canonical form of a selector result: (index labels, {column: values}) with chromosome names mapped to codes"""
    if isinstance(obj, pd.Series):   # the name of a single-column result is not part of the claim (bins()['chrom'] on an integer-coded file has none)
        obj = obj.to_frame(name=series_name or (obj.name if obj.name is not None else "value"))
    cols = {}
    for c in obj.columns:
        vals = obj[c].tolist()
        if str(c).startswith("chrom") or c == "name":
            vals = [chromnames.index(v) if v in chromnames else v for v in vals]
        cols[str(c)] = [None if (isinstance(v, float) and np.isnan(v)) else (int(v) if isinstance(v, (int, np.integer)) else v) for v in vals]
    return [int(x) for x in obj.index.tolist()], cols


def oracle_rows(rawtab, lo, hi, fields):
    n = len(next(iter(rawtab.values())))
    lo_, hi_, _ = slice(lo, hi).indices(n)
    hi_ = max(hi_, lo_)
    cols = {}
    for f in fields:
        vals = rawtab[f][lo_:hi_]
        cols[f] = [None if (isinstance(v, float) and np.isnan(v)) else v for v in vals]
    return list(range(lo_, hi_)), cols


def run_selectors(ctx, path, raw, label):
    import cooler
    clr = cooler.Cooler(path)
    chromnames = raw["chroms"]["name"]
    tabs = {
        "chroms": (clr.chroms, {"name": list(range(len(chromnames))), "length": raw["chroms"]["length"], "alias": raw["chroms"]["alias"]},
                   ["name", "length", "alias"]),
        "bins": (clr.bins, raw["bins"], ["chrom", "start", "end", "arm", "extra", "label", "weight"]),     # stored order: the three fixed columns, then the rest by name
        "pixels": (lambda: clr.pixels(), raw["pixels"], ["bin1_id", "bin2_id", "count"]),
    }
    exprs, pending = [], []
    for tname, (mk, rawtab, allf) in tabs.items():
        n = len(next(iter(rawtab.values())))
        # every column alone as a string (-> Series), singleton and two-column lists, and all columns
        subsets = [None] + list(allf) + [[allf[0]], [allf[-1], allf[0]] if len(allf) == 2 else [allf[-1], allf[1]]]
        if tname == "bins":
            subsets += [["arm", "label"], ["label", "arm"], ["arm", "start", "label"]]      # text columns in both orders
        if tname == "chroms":
            subsets += [["name", "alias"], ["alias", "name"]]
        bounds = [None] + list(range(-n, n + 1)) + [n + 1, n + 5, 10 ** 6, -n - 1, -n - 4, -10 ** 6]   # beyond the ends: clamped like any sequence
        if n > 9:
            bounds = [None, -n, -3, -1, 0, 1, n // 2, n - 1, n, n + 7, 10 ** 6, -n - 2]
        for fsi, fs in enumerate(subsets):
            sel = mk() if fs is None else mk()[fs]
            fields = allf if fs is None else ([fs] if isinstance(fs, str) else fs)
            for a, b_ in itertools.product(bounds, repeat=2):
                # every (start, stop) pair for the whole table and the first column subsets; a fixed third of the pairs
                # (plus all open-ended ones) for the remaining subsets
                if fsi >= 2 and ctx.tier != "thorough" and a is not None and b_ is not None and (a + 2 * b_) % 3:
                    continue
                lo_, hi_, _ = slice(a, b_).indices(n)
                case = {"cooler": label, "table": tname, "fields": fs, "start": a, "stop": b_}
                ctx.case(case, nontrivial=hi_ > lo_, kind=f"selector:{tname}")
                if lo_ > hi_:
                    # reversed bounds: arrays give an empty selection; only emptiness is claimed
                    try:
                        got = sel[a:b_]
                        if len(got) != 0:
                            ctx.fail(case, {"got_len": len(got)}, None)
                    except Exception as e:
                        ctx.fail(case, {"error": repr(e)}, None)
                    continue
                try:
                    got = frame_to_rows(sel[a:b_], chromnames, fs if isinstance(fs, str) else None)
                except Exception as e:
                    ctx.fail(case, {"error": repr(e)}, None)
                    continue
                exp = oracle_rows(rawtab, a, b_, fields)
                if got[0] != exp[0] or {k: got[1].get(k) for k in fields} != exp[1] or list(got[1]) != fields:
                    ctx.fail(case, {"got": got, "expected": exp}, None)
                # model comparison on the integer columns
                ints = [f for f in fields if f not in NONINT]
                if ints and (a is None or b_ is None or (a + b_) % 3 == 0):
                    tab = C.lst([C.tup(C.z(FIELD_IDS.get(f, 30 + i)), C.zl(rawtab[f])) for i, f in enumerate(allf) if f not in NONINT])
                    flist = C.zl([FIELD_IDS.get(f, 30 + allf.index(f)) for f in ints])
                    exprs.append(f"selector_slice {tab} {C.z(n)} {flist} {C.opt(a, C.z)} {C.opt(b_, C.z)}")
                    pending.append((case, (got[0], [(FIELD_IDS.get(f, 30 + allf.index(f)), got[1][f]) for f in ints])))
            for s in list(range(-n - 2, n + 2)) + [-10 ** 6, 10 ** 6]:
                case = {"cooler": label, "table": tname, "fields": fs, "scalar": s}
                ctx.case(case, kind=f"selector-scalar:{tname}")
                try:
                    got = frame_to_rows(sel[s], chromnames, fs if isinstance(fs, str) else None)
                    out = "ok"
                except IndexError:
                    got, out = None, "IndexError"
                except Exception as e:
                    got, out = None, type(e).__name__
                if -n <= s < n:
                    exp = oracle_rows(rawtab, s % n, s % n + 1, fields)
                    if got is None or got[0] != exp[0] or {k: got[1].get(k) for k in fields} != exp[1]:
                        ctx.fail(case, {"got": got, "outcome": out, "expected": exp}, None)
                elif out != "IndexError":      # beyond either end (below -n: regression input of D33)
                    ctx.fail(case, {"outcome": out, "expected": "IndexError"}, None)
    # keyword variants of the table getters (oracle only): integer chromosome codes, dict output
    nb = len(raw["bins"]["start"])
    for a, b_ in [(0, nb), (min(1, nb), nb), (nb // 2, nb - 1 if nb > 1 else nb), (-min(2, nb), None), (None, 1)]:
        lo_, hi_, _ = slice(a, b_).indices(nb)
        if lo_ > hi_:
            continue
        case = {"cooler": label, "table": "bins", "kwargs": "convert_enum=False / as_dict=True", "start": a, "stop": b_}
        ctx.case(case, nontrivial=hi_ > lo_, kind="selector:kwargs")
        try:
            g1 = clr.bins(convert_enum=False)[a:b_]
            ok = g1.index.tolist() == list(range(lo_, hi_)) and [int(x) for x in g1["chrom"].tolist()] == raw["bins"]["chrom"][lo_:hi_] \
                and g1["end"].tolist() == raw["bins"]["end"][lo_:hi_]
            g2 = clr.bins(as_dict=True)[a:b_]
            ok = ok and isinstance(g2, dict) and [int(x) for x in g2["start"]] == raw["bins"]["start"][lo_:hi_] \
                and [int(x) for x in g2["extra"]] == raw["bins"]["extra"][lo_:hi_]
            g3 = clr.chroms(as_dict=True)[:]
            ok = ok and [int(x) for x in g3["length"]] == raw["chroms"]["length"]
        except Exception as e:
            ok = False
            g1 = repr(e)
        if not ok:
            ctx.fail(case, {"got": str(g1)[:400]}, None)
    if exprs:
        model = C.coq_eval("From Cooler Require Import Model.Table.", exprs, tmpdir=ctx.tmp / f"sel_{label}")
        for (case, im), mo in zip(pending, model):
            moc = None if mo is None else (list(mo[1][0]), [(f, list(c)) for f, c in mo[1][1]])
            ctx.compare("selector rows (labels, integer columns)", case, (im[0], [(f, c) for f, c in im[1]]), moc)


def run_annotate(ctx, path, raw, label):
    import cooler
    clr = cooler.Cooler(path)
    rng = ctx.rng
    chromnames = raw["chroms"]["name"]
    nb = len(raw["bins"]["start"])
    stored = list(zip(range(len(raw["pixels"]["bin1_id"])), raw["pixels"]["bin1_id"], raw["pixels"]["bin2_id"], raw["pixels"]["count"]))
    binrows = [[raw["bins"]["chrom"][k], raw["bins"]["start"][k], raw["bins"]["end"][k]] for k in range(nb)]
    allbins = clr.bins()[["chrom", "start", "end"]][:]
    sels = [[], stored[:1], stored[-1:], stored, stored[::-1], stored[:2] * 3]
    for size in sorted({1, 2, max(nb - 1, 1), nb, nb + 1, 2 * nb}):
        if stored:
            sels.append([rng.choice(stored) for _ in range(size)])
    # pixel frames are the caller's: not only stored upper-triangular records, also pairs with bin2_id < bin1_id (square
    # storage, a matrix row, a user-built frame) — few of them, so that the "fewer pixels than bins" strategy is taken
    if nb >= 2:
        sels.append([(900, nb - 1, 0, 7)])
        sels.append([(910 + j, nb // 2, j, 3 + j) for j in range(nb)][: max(nb - 1, 1)])          # one matrix row, left to right
        sels.append([(930, nb - 1, nb - 2, 5), (931, nb - 1, 0, 6)])
        sels.append([(940 + k, rng.randrange(nb), rng.randrange(nb), 1 + k) for k in range(max(nb - 2, 1))])
    exprs, pending = [], []
    id_dtypes = [np.int64, np.int32, np.uint32, np.uint16, np.int64]
    for si, px in enumerate(sels):
        idt = id_dtypes[si % len(id_dtypes)]      # pixel tables store ids as int64; frames built by users may not
        pdf = pd.DataFrame({"bin1_id": np.array([p[1] for p in px], dtype=idt), "bin2_id": np.array([p[2] for p in px], dtype=idt),
                            "count": np.array([p[3] for p in px], dtype=np.int64)}, index=np.array([p[0] for p in px], dtype=np.int64))
        # the frame's row labels are the caller's: integer labels (the stored pixel ids, above), or any RangeIndex —
        # default, offset, strided, reversed (what .iloc[a:b], .iloc[::2], .iloc[::-1] of a default-indexed frame carry)
        ikind = ["ids", "range-default", "range-offset", "range-step2", "range-reversed", "ids"][si % 6]
        if ikind == "range-default":
            pdf.index = pd.RangeIndex(len(px))
        elif ikind == "range-offset":
            pdf.index = pd.RangeIndex(5, 5 + len(px))
        elif ikind == "range-step2":
            pdf.index = pd.RangeIndex(0, 2 * len(px), 2)
        elif ikind == "range-reversed":
            pdf.index = pd.RangeIndex(len(px) - 1, -1, -1)
        px = [(int(lbl),) + tuple(p[1:]) for lbl, p in zip(pdf.index.tolist(), px)]     # expected labels = the frame's own
        need = [p[1] for p in px] + [p[2] for p in px]
        views = [("frame", 0, nb, allbins), ("selector", 0, nb, clr.bins()), ("selector-cols", 0, nb, clr.bins()[["chrom", "start", "end"]])]
        for a in range(nb + 1):
            for b_ in range(a + 1, nb + 1):
                views.append(("partial", a, b_, allbins.iloc[a:b_]))
        for kind, a, b_, binsarg in views:
            contains = all(a <= x < b_ for x in need)
            if kind == "partial" and not contains and rng.random() > 0.2:
                continue
            for replace in ((False, True) if kind != "partial" or (a + b_) % 4 == 0 else (False,)):
                case = {"cooler": label, "pixels": [list(p) for p in px], "bins": kind, "view": [a, b_], "replace": replace}
                ctx.case(case, nontrivial=bool(px), kind=f"annotate:{kind}:{'contains' if contains else 'lacks'}")
                before = (pdf.copy(deep=True), binsarg.copy(deep=True) if isinstance(binsarg, pd.DataFrame) else None)
                try:
                    out = cooler.annotate(pdf, binsarg, replace=replace)
                    # the caller's frames are inputs, not scratch space
                    if not (pdf.equals(before[0]) and list(pdf.columns) == list(before[0].columns) and pdf.index.equals(before[0].index)
                            and pdf.dtypes.equals(before[0].dtypes)):
                        ctx.fail(case, {"detail": "annotate modified the caller's pixel frame"}, None)
                    if before[1] is not None and not (binsarg.equals(before[1]) and binsarg.index.equals(before[1].index)):
                        ctx.fail(case, {"detail": "annotate modified the caller's bin table"}, None)
                    idx = [int(x) for x in out.index.tolist()]
                    got = []
                    for k in range(len(out)):
                        r = out.iloc[k]
                        got.append([idx[k], [chromnames.index(r["chrom1"]), int(r["start1"]), int(r["end1"])],
                                    [chromnames.index(r["chrom2"]), int(r["start2"]), int(r["end2"])], int(r["count"])])
                    cols = list(out.columns)
                    outcome = "ok"
                except IndexError:
                    got, cols, outcome = None, None, "IndexError"
                except Exception as e:
                    got, cols, outcome = None, None, type(e).__name__
                if contains:   # the property applies
                    exp = [[p[0], binrows[p[1]], binrows[p[2]], p[3]] for p in px]
                    bcols = ["chrom", "start", "end"] + (["arm", "extra", "label", "weight"] if kind == "selector" else [])
                    expcols = [c + "1" for c in bcols] + [c + "2" for c in bcols] + ([] if replace else ["bin1_id", "bin2_id"]) + ["count"]
                    if kind == "selector" and got is not None and (out["extra1"].tolist() != [raw["bins"]["extra"][p[1]] for p in px]
                                                                  or out["extra2"].tolist() != [raw["bins"]["extra"][p[2]] for p in px]):
                        ctx.fail(case, {"detail": "extra bin column not that of the pixel's own bins"}, None)
                    if kind == "selector" and got is not None and ([str(x) for x in out["label1"].tolist()] != [raw["bins"]["label"][p[1]] for p in px]
                                                                  or [str(x) for x in out["label2"].tolist()] != [raw["bins"]["label"][p[2]] for p in px]
                                                                  or [str(x) for x in out["arm2"].tolist()] != [raw["bins"]["arm"][p[2]] for p in px]):
                        ctx.fail(case, {"detail": "text bin column (arm / label) not that of the pixel's own bins"}, None)
                    if got != exp or cols != expcols:
                        ctx.fail(case, {"outcome": outcome, "got": got, "expected": exp, "columns": cols}, None)
                    elif not replace and (out["bin1_id"].tolist() != [p[1] for p in px] or out["bin2_id"].tolist() != [p[2] for p in px]):
                        ctx.fail(case, {"detail": "bin id columns changed"}, None)
                if not replace:
                    view = f"{{| vfirst := {C.z(a)}; vrows := {C.lst([C.zl(r) for r in binrows[a:b_]])} |}}"
                    pxl = C.lst([C.tup(C.z(p[0]), C.tup(C.tup(C.z(p[1]), C.z(p[2])), C.zl([p[3]]))) for p in px])
                    exprs.append(f"annotate {view} {C.z(b_ - a)} {pxl}")
                    pending.append((case, got if outcome in ("ok", "IndexError") else outcome))
    model = C.coq_eval("From Cooler Require Import Model.Table.", exprs, tmpdir=ctx.tmp / f"ann_{label}")
    for (case, im), mo in zip(pending, model):
        moc = None if mo is None else [[t[0], list(t[1][0]), list(t[1][1]), list(t[1][2][2])[0]] for t in mo[1]]
        ctx.compare("annotate rows", case, im, moc)
    # join paths of the API
    n = len(stored)
    for a, b_ in [(0, n), (0, 0), (n // 2, n), (1, max(n - 1, 1))]:
        case = {"cooler": label, "fn": "pixels(join=True)", "range": [a, b_]}
        ctx.case(case, nontrivial=b_ > a, kind="join")
        try:
            out = clr.pixels(join=True)[a:b_]
            cid = lambda x: chromnames.index(x)   # names for both encodings (D31: integer-coded files used to join raw ids; fixed b7d1ac2)
            got = [[int(i), cid(r.chrom1), int(r.start1), int(r.end1), cid(r.chrom2), int(r.start2), int(r.end2), int(r.count)]
                   for i, r in zip(out.index.tolist(), out.itertuples(index=False))]
        except Exception as e:
            ctx.fail(case, {"error": repr(e)}, None)
            continue
        exp = [[p[0]] + binrows[p[1]] + binrows[p[2]] + [p[3]] for p in stored[a:b_]]
        if got != exp:
            ctx.fail(case, {"got": got[:5], "expected": exp[:5]}, None)
    # only one id column present
    if stored:
        one = pd.DataFrame({"bin2_id": np.array([p[2] for p in stored], dtype=np.int64), "v": np.arange(len(stored))})
        case = {"cooler": label, "fn": "annotate(only bin2_id)"}
        ctx.case(case, kind="annotate:one-column")
        try:
            out = cooler.annotate(one, allbins)
            col = "start2" if "start2" in out.columns else "start"   # the code always suffixes; the suffix is not part of the claim
            ok = out[col].tolist() == [binrows[p[2]][1] for p in stored] and out["v"].tolist() == list(range(len(stored)))
        except Exception as e:
            ok = False
        if not ok:
            ctx.fail(case, {"detail": "single id column annotation wrong"}, None)


def _raw_tables(path):
    import h5py
    with h5py.File(path, "r") as f:
        names = [x.decode() for x in f["chroms/name"][:]]
        return {"names": names, "chrom": [int(c) for c in f["bins/chrom"][:].tolist()], "start": f["bins/start"][:].tolist(),
                "end": f["bins/end"][:].tolist(), "bin1_id": f["pixels/bin1_id"][:].tolist(), "bin2_id": f["pixels/bin2_id"][:].tolist(),
                "count": f["pixels/count"][:].tolist(), "weight": f["bins/weight"][:].tolist() if "weight" in f["bins"] else None}


def _read_all(clr, reads):
    """every table read of the claim on one Cooler object, chromosome names as strings"""
    import cooler
    out = {}
    nb = clr.info["nbins"]
    for a, b_ in reads:
        t = clr.bins()[a:b_]
        out[f"bins[{a}:{b_}]"] = [t.index.tolist(), [str(x) for x in t["chrom"].tolist()], t["start"].tolist(), t["end"].tolist()]
        out[f"bins['chrom'][{a}:{b_}]"] = [str(x) for x in clr.bins()["chrom"][a:b_].tolist()]
    j = clr.pixels(join=True)[:]
    out["join"] = [[str(r.chrom1), int(r.start1), int(r.end1), str(r.chrom2), int(r.start2), int(r.end2), int(r.count)] for r in j.itertuples(index=False)]
    px = clr.pixels()[:]
    for nm, barg in (("annotate(selector)", clr.bins()), ("annotate(frame)", clr.bins()[:]), ("annotate(partial)", clr.bins()[: nb])):
        an = cooler.annotate(px, barg)
        out[nm] = [[str(r.chrom1), int(r.start1), int(r.end1), str(r.chrom2), int(r.start2), int(r.end2), int(r.count)] for r in an.itertuples(index=False)]
    out["chroms"] = [[str(x) for x in clr.chroms()[:]["name"].tolist()], clr.chroms()[:]["length"].tolist()]
    if "weight" in clr.bins().columns:
        out["weight"] = [None if np.isnan(v) else float(v) for v in clr.bins()["weight"][:].tolist()]
    return out


def _expect_all(raw, reads):
    nb = len(raw["start"])
    nm = lambda k: raw["names"][raw["chrom"][k]]
    out = {}
    for a, b_ in reads:
        lo_, hi_, _ = slice(a, b_).indices(nb)
        hi_ = max(hi_, lo_)
        ks = list(range(lo_, hi_))
        out[f"bins[{a}:{b_}]"] = [ks, [nm(k) for k in ks], [raw["start"][k] for k in ks], [raw["end"][k] for k in ks]]
        out[f"bins['chrom'][{a}:{b_}]"] = [nm(k) for k in ks]
    rows = [[nm(i), raw["start"][i], raw["end"][i], nm(j), raw["start"][j], raw["end"][j], c] for i, j, c in zip(raw["bin1_id"], raw["bin2_id"], raw["count"])]
    out["join"] = rows
    for k in ("annotate(selector)", "annotate(frame)", "annotate(partial)"):
        out[k] = rows
    return out


def run_history(ctx):
    """table reads depend on what the file holds NOW, not on what was read from the same path earlier in the process"""
    import cooler
    rng = ctx.rng
    path = str(ctx.tmp / "hist.cool")

    def make(names, nper, seed):
        rows = []
        for cname, k in zip(names, nper):
            rows += [(cname, 10 * t, 10 * t + 10) for t in range(k)]
        bins = pd.DataFrame(rows, columns=["chrom", "start", "end"])
        n = len(bins)
        r = np.random.RandomState(seed)
        pix = [(i, j, int(r.randint(1, 9))) for i in range(n) for j in range(i, n) if r.rand() < 0.5] or [(0, n - 1, 2)]
        if os.path.exists(path):
            os.unlink(path)
        cooler.create_cooler(path, bins, pd.DataFrame(pix, columns=["bin1_id", "bin2_id", "count"]), dtypes={"count": np.int64})

    def check(step, history, clr, fresh=True):
        raw = _raw_tables(path)
        nb = len(raw["start"])
        reads = [(None, None), (0, 1), (nb // 2, nb), (1, nb - 1), (-2, None)]
        exp = _expect_all(raw, reads)
        for who, obj in ([("same object", clr)] if clr is not None else []) + ([("new object", cooler.Cooler(path))] if fresh else []):
            case = {"history": history, "after": step, "reader": who}
            ctx.case(case, kind="history")
            try:
                got = _read_all(obj, reads)
            except Exception as e:
                ctx.fail(case, {"error": repr(e)}, None)
                continue
            bad = [k for k in exp if got.get(k) != exp[k]]
            if got["chroms"][0] != raw["names"]:
                bad.append("chroms")
            if raw["weight"] is not None and got.get("weight") != [None if np.isnan(v) else float(v) for v in raw["weight"]]:
                bad.append("weight")
            if bad:
                k = bad[0]
                ctx.fail(case, {"read": k, "got": str(got.get(k))[:300], "stored": str(exp.get(k, raw["names"]))[:300], "all_wrong": bad}, None)

    scenarios = [
        ("rename-all", ["chrA", "b", "chr10"], [3, 2, 3], [("rename", {"chrA": "one", "b": "two", "chr10": "three"})]),
        ("rename-one", ["chrA", "b", "chr10"], [2, 3, 1], [("rename", {"b": "B_long_name"})]),
        ("rename-swap", ["chrA", "b"], [3, 3], [("rename", {"chrA": "b", "b": "chrA"})]),
        ("rename-twice", ["x", "y", "z"], [1, 2, 3], [("rename", {"x": "x1"}), ("rename", {"x1": "x2", "z": "x"})]),
        ("overwrite-same-nbins", ["chrA", "b", "chr10"], [3, 2, 3], [("create", ["p", "q"], [4, 4], 5)]),
        ("overwrite-reordered", ["chrA", "b", "chr10"], [2, 2, 2], [("create", ["chr10", "chrA", "b"], [2, 2, 2], 6)]),
        ("overwrite-fewer-bins", ["chrA", "b"], [4, 4], [("create", ["b"], [3], 7), ("create", ["chrA", "b", "c", "d"], [1, 1, 1, 1], 8)]),
        ("int-coded-then-rename", ["chrA", "b", "c"], [2, 3, 2], [("intcode", None), ("rename", {"b": "bb", "c": "chrA2"}), ("create", ["q", "r"], [3, 4], 9)]),
        ("balance-then-read", ["chrA", "b"], [4, 3], [("weight", None), ("rename", {"chrA": "zz"}), ("weight", None)]),
    ]
    for tag, names, nper, steps in scenarios:
        make(names, nper, rng.randint(0, 10 ** 6))
        clr = cooler.Cooler(path)
        history = [f"create {names} {nper}"]
        check("create", list(history), clr)
        for st in steps:
            if st[0] == "rename":
                cooler.rename_chroms(clr, st[1])
                history.append(f"rename_chroms {st[1]}")
                check(history[-1], list(history), clr)
            elif st[0] == "create":
                make(st[1], st[2], st[3])
                history.append(f"overwrite with create_cooler {st[1]} {st[2]}")
                clr = cooler.Cooler(path)
                check(history[-1], list(history), clr, fresh=False)
            elif st[0] == "intcode":
                import h5py
                with h5py.File(path, "r+") as f:
                    codes = f["bins/chrom"][:].astype(np.int32)
                    del f["bins/chrom"]
                    f["bins"].create_dataset("chrom", data=codes)
                history.append("bins/chrom re-stored as plain int32 ids (no enum header)")
                check(history[-1], list(history), clr)
            elif st[0] == "weight":
                import h5py
                nb = clr.info["nbins"]
                w = np.array([rng.choice([0.5, 1.0, 2.0, np.nan]) for _ in range(nb)])
                with h5py.File(path, "r+") as f:
                    if "weight" in f["bins"]:
                        del f["bins/weight"]
                    f["bins"].create_dataset("weight", data=w)
                history.append("bins/weight column (re)written")
                check(history[-1], list(history), clr)
    if os.path.exists(path):
        os.unlink(path)


def run(ctx):
    rng = ctx.rng
    specs = [("c6", [4, 2], False, 1), ("c8", [3, 1, 4], False, 1), ("c1", [1], False, 1), ("c6int", [2, 4], True, 1),
             ("c5big", [4, 1], False, 4 * 10 ** 7)]
    if ctx.tier == "thorough":
        specs += [("c12", [5, 4, 3], False, 1), ("c5int", [1, 3, 1], True, 1), ("c7bigint", [3, 4], True, 4 * 10 ** 7)]
    for tag, nper, int_chrom, scale in specs:
        import time as _t
        path, raw = build(ctx, tag, nper, rng, int_chrom, scale)
        t0 = _t.time()
        run_selectors(ctx, path, raw, tag)
        t1 = _t.time()
        run_annotate(ctx, path, raw, tag)
        ctx.extra.setdefault("section_wall_s", {})[tag] = {"selectors": round(t1 - t0, 1), "annotate": round(_t.time() - t1, 1)}
        # integer chromosome ids must come back as names
        if int_chrom:
            import cooler
            clr = cooler.Cooler(path)
            case = {"cooler": tag, "fn": "bins()[:] chrom decoding (no enum header)"}
            ctx.case(case, kind="int-chrom")
            got = [str(x) for x in clr.bins()[:]["chrom"].tolist()]
            exp = [raw["chroms"]["name"][c] for c in raw["bins"]["chrom"]]
            if got != exp:
                ctx.fail(case, {"got": got, "expected": exp}, None)
            mo = C.coq_eval("From Cooler Require Import Model.Table.",
                            [f"decode_chrom {C.zl(range(len(raw['chroms']['name'])))} {C.zl(raw['bins']['chrom'])}"], tmpdir=ctx.tmp / "dec")[0]
            ctx.compare("decode_chrom", case, [raw["chroms"]["name"].index(g) for g in got], list(mo))
        os.unlink(path)
    run_history(ctx)
    # regression corpus: D12 (empty pixel selection against a partial bin table)
    ctx.exhaustive = True


def replay(ctx, case):
    print("replay: re-run ./check C14 (cases are regenerated deterministically from VERIF_SEED); recorded case:", case)
    import subprocess
    return True
