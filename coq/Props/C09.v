(** C09  Every zoom level of a multires file equals direct coarsening of its base.
    Only statements; proofs are in Proofs/ZoomProofs.v.  Model: Model/Zoom.v. *)
From Cooler Require Import Model.Zoom Proofs.BinsProofs Proofs.PixelsProofs Proofs.CoarsenProofs Proofs.ZoomProofs.
From Coq Require Import Sorted.

(** get_multiplier_sequence, when it returns: resn = sorted(set(bases) | set(resolutions)); every entry is
    either a base (pred = -1) or has a predecessor EARLIER in resn of which it is an integer multiple >= 2 *)
Theorem C09_multseq_sound : forall res bs resn pred mult,
  Positive res -> Positive bs ->
  get_multiplier_sequence res (Some bs) = Some (resn, pred, mult) ->
  resn = np_unique (bs ++ res) /\ length pred = length resn /\ length mult = length resn /\
  forall i, (i < length resn)%nat ->
    (nth i pred 0 = -1 /\ nth i mult 0 = -1 /\ In (nth i resn 0) bs) \/
    (0 <= nth i pred 0 < Z.of_nat i /\ 2 <= nth i mult 0 /\
     nth (Z.to_nat (nth i pred 0)) resn 0 * nth i mult 0 = nth i resn 0).
Proof.
  intros res bs resn pred mult Hr Hb H.
  destruct (multseq_sound res bs Hr Hb resn pred mult H) as (-> & A & B & D). auto.
Qed.
Print Assumptions C09_multseq_sound.

(** it refuses (ValueError) exactly when some requested resolution is not a multiple of any base *)
Theorem C09_multseq_complete : forall res bs, Positive res -> Positive bs ->
  (get_multiplier_sequence res (Some bs) = None <-> exists r, In r res /\ forall b, In b bs -> r mod b <> 0).
Proof. exact multseq_complete. Qed.
Print Assumptions C09_multseq_complete.

Example ex_C09_multseq :
  get_multiplier_sequence [8;4;16;12] (Some [2;4]) = Some ([2; 4; 8; 12; 16], [-1; 0; 1; 1; 2], [-1; 2; 2; 3; 2]) /\
  get_multiplier_sequence [2;3;6] (Some [1]) = Some ([1; 2; 3; 6], [-1; 0; 0; 2], [-1; 2; 3; 2]) /\
  get_multiplier_sequence [6;7] (Some [2]) = None.
Proof. vm_compute. repeat split; reflexivity. Qed.
