import warnings; warnings.filterwarnings("ignore")
import numpy as np, pandas as pd, cooler, h5py, os, itertools
rng=np.random.default_rng(1)
bad=0; tot=0
for n in [1,2,3,5,6]:
  chromsizes=pd.Series({"a":10*n}); bins=cooler.binnify(chromsizes,10)
  for trial in range(3):
    for symm in (True,False):
        M=(rng.random((n,n))<0.5)*rng.integers(1,9,(n,n))
        if symm: M=np.triu(M); F=M+np.triu(M,1).T
        else: F=M
        i,j=np.nonzero(M); px=pd.DataFrame({"bin1_id":i,"bin2_id":j,"count":M[i,j]})
        cooler.create_cooler("m.cool",bins,px,symmetric_upper=symm)
        c=cooler.Cooler("m.cool")
        for cs in (1,2,3,100):
            sel=c.matrix(balance=False,chunksize=cs); sp=c.matrix(balance=False,sparse=True,chunksize=cs)
            for i0,i1,j0,j1 in itertools.product(range(n+1),repeat=4):
                if i0>i1 or j0>j1: continue
                tot+=1
                A=sel[i0:i1,j0:j1]; S=sp[i0:i1,j0:j1]
                if not (np.array_equal(A,F[i0:i1,j0:j1]) and np.array_equal(S.toarray(),A) and len(set(zip(S.row,S.col)))==S.nnz):
                    bad+=1
                    if bad<5: print("MISMATCH",n,symm,cs,(i0,i1,j0,j1))
print("C03 windows",tot,"bad",bad)
# slices spellings
sel=c.matrix(balance=False)
print(sel[-2:, :].shape, sel[2].shape, sel[-1].shape)
try: print(sel[-7].shape)
except Exception as e: print("neg oob:",type(e).__name__)
try: print(sel[0:100].shape)
except Exception as e: print("stop oob:",type(e).__name__, e)
print(c.pixels()[0:1000].shape, c.bins()[-100:].shape)
