(** Coarsening a cooler by an integer factor k  (src/cooler/_reduce.py: CoolerCoarsener,
    _greedy_prune_partition; src/cooler/util.py: GenomeSegmentation).   No proofs here.

    Representation: a bin table is a flat [list bin] (Model/Bins.v), chromosome ids are
    positions in the chromosome table, [sizes] is the chromosome-length column
    (clr.chromsizes, by id), a pixel table is a [list pixel] (Model/Pixels.v, value column
    = the summed count).                                                              *)
From Cooler Require Export Model.Bins Model.Pixels.

(* ------------------------------------------------------------------ numpy helpers *)
(** python extended slice  l[::k]  (k >= 1).  [fuel] only bounds the recursion. *)
Fixpoint stride_n {A} (fuel k : nat) (l : list A) : list A :=
  match fuel with
  | O => []
  | S f => match l with
           | [] => []
           | x :: _ => x :: stride_n f k (skipn k l)
           end
  end.
Definition stride {A} (k : Z) (l : list A) : list A := stride_n (length l) (Z.to_nat k) l.

(** np.cumsum *)
Fixpoint cumsum_from (acc : Z) (l : list Z) : list Z :=
  match l with
  | [] => []
  | x :: r => (acc + x) :: cumsum_from (acc + x) r
  end.
Definition cumsum (l : list Z) : list Z := cumsum_from 0 l.

(** np.diff *)
Fixpoint diff (l : list Z) : list Z :=
  match l with
  | x :: ((y :: _) as r) => (y - x) :: diff r
  | _ => []
  end.

(** np.unique : sorted, duplicates removed (insertion into a strictly sorted list) *)
Fixpoint uniq_ins (x : Z) (l : list Z) : list Z :=
  match l with
  | [] => [x]
  | y :: r => if x <? y then x :: l else if x =? y then l else y :: uniq_ins x r
  end.
Definition np_unique (l : list Z) : list Z := fold_right uniq_ins [] l.

(** consecutive groups of [n] elements:  [l[i:i+n] for i in range(0, len(l), n)]  *)
Fixpoint chunks_n {A} (fuel n : nat) (l : list A) : list (list A) :=
  match fuel with
  | O => []
  | S f => match l with
           | [] => []
           | _ => firstn n l :: chunks_n f n (skipn n l)
           end
  end.
Definition chunks_of {A} (n : Z) (l : list A) : list (list A) := chunks_n (length l) (Z.to_nat n) l.

(* --------------------------------------------------------- coarsen_bins (:567-584) *)
(** _each(group):  out = group[["chrom","start"]].iloc[::k]
                   end = group["end"].iloc[k-1::k];  if len(end) < len(out): end = r_[end, chromsizes[name]] *)
Definition coarsen_group (k csize : Z) (g : list bin) : list bin :=
  let out := stride k g in
  let ends := map bend (stride k (skipn (Z.to_nat (k - 1)) g)) in
  let ends' := if (length ends <? length out)%nat then ends ++ [csize] else ends in
  map (fun xe => (bchrom (fst xe), bstart (fst xe), snd xe)) (combine out ends').

(** old_bins.groupby("chrom", observed=True).apply(_each).reset_index(drop=True) *)
Definition coarsen_bins (t : list bin) (sizes : list Z) (k : Z) : list bin :=
  concat (map (fun c => coarsen_group k (znth sizes c 0) (rows_of t c)) (chroms_of t)).

(* ------------------------------------------- GenomeSegmentation (util.py:792-816) *)
Definition nbins_per_chrom (t : list bin) : list Z := map (fun c => zlen (rows_of t c)) (chroms_of t).
Definition chrom_binoffset (t : list bin) : list Z := 0 :: cumsum (nbins_per_chrom t).
Definition chrom_abspos (sizes : list Z) : list Z := 0 :: cumsum sizes.
Definition start_abspos (t : list bin) (sizes : list Z) : list Z :=
  map (fun x => znth (chrom_abspos sizes) (bchrom x) 0 + bstart x) t.

(* ------------------------------------------------ re-binning in _aggregate (:586-624) *)
(** new bin id of an old bin, found from the old bin's chromosome and START coordinate:
      binsize (of the NEW table) known :  chrom_binoffset[chrom] + floor(start / binsize)
      otherwise                        :  searchsorted(start_abspos, chrom_abspos[chrom] + start, "right") - 1 *)
Definition rebin_bin (newt : list bin) (sizes : list Z) (x : bin) : Z :=
  match get_binsize newt with
  | Some bs => znth (chrom_binoffset newt) (bchrom x) 0 + bstart x / bs
  | None => searchsorted_right (start_abspos newt sizes) (znth (chrom_abspos sizes) (bchrom x) 0 + bstart x) - 1
  end.
(** the searchsorted path alone (used when gs.binsize is None) *)
Definition rebin_bin_search (newt : list bin) (sizes : list Z) (x : bin) : Z :=
  searchsorted_right (start_abspos newt sizes) (znth (chrom_abspos sizes) (bchrom x) 0 + bstart x) - 1.
Definition rebin_bin_div (newt : list bin) (bs : Z) (x : bin) : Z :=
  znth (chrom_binoffset newt) (bchrom x) 0 + bstart x / bs.

(** old bin id -> new bin id, as a table over all old bins (pixels(join=True) looks the
    old bin up by id and the re-binning uses its chrom/start) *)
Definition rebin_table (oldt : list bin) (sizes : list Z) (k : Z) : list Z :=
  let newt := coarsen_bins oldt sizes k in
  map (rebin_bin newt sizes) oldt.

Definition rekey (tbl : list Z) (p : pixel) : pixel :=
  ((znth tbl (row p) 0, znth tbl (col p) 0), val p).

(** the index-based reading of the property: old bin number m of chromosome c (with n_c
    bins) goes to new bin  new_off c + m / k,  new_off c = sum_{c' < c} ceil(n_c' / k) *)
Fixpoint index_table_from (off k : Z) (lens : list Z) : list Z :=
  match lens with
  | [] => []
  | n :: r => map (fun m => off + m / k) (zrange 0 (Z.to_nat n)) ++ index_table_from (off + cdiv n k) k r
  end.
Definition index_table (lens : list Z) (k : Z) : list Z := index_table_from 0 k lens.

(* ------------------------------------------------ indexes of the source cooler *)
(** indexes/bin1_offset : number of pixels whose bin1_id is < i, i = 0..n   *)
Definition bin1_offset (n : Z) (px : list pixel) : list Z :=
  map (fun i => zlen (filter (fun p => row p <? i) px)) (zrange 0 (Z.to_nat (n + 1))).
(** indexes/chrom_offset *)
Definition chrom_offset (t : list bin) : list Z := chrom_binoffset t.

(* ------------------------------- coarse-row edges and pruning (:547-565, :314-324) *)
(** for every chromosome i:  old_bin1_offset[c0:c1:k],  then old_bin1_offset[-1] *)
Definition coarse_edges (choff b1off : list Z) (k : Z) : list Z :=
  concat (map (fun i => stride k (slice b1off (znth choff i 0) (znth choff (i + 1) 0)))
              (zrange 0 (length choff - 1)))
  ++ [last b1off 0].

(** _greedy_prune_partition(edges, maxlen) *)
Definition greedy_prune_partition (edges : list Z) (maxlen : Z) : list Z :=
  let cumlen := 0 :: cumsum (diff edges) in
  let total := last cumlen 0 in
  let cuts := map (fun i => maxlen * i) (zrange 0 (Z.to_nat (cdiv total maxlen))) ++ [total] in
  let idx := np_unique (map (searchsorted_left cumlen) cuts) in
  map (fun i => znth edges i 0) idx.

(* ---------------------------------------------- the chunk stream (:586-646) *)
Definition spans (e : list Z) : list (Z * Z) := combine (removelast e) (tl e).

(** _aggregate(span): re-key the pixels lo..hi, group by (bin1, bin2) sorted, sum *)
Definition aggregate_span (px : list pixel) (tbl : list Z) (s : Z * Z) : list pixel :=
  aggregate (map (rekey tbl) (slice px (fst s) (snd s))).

(** __iter__: batches of [batchsize] spans go through an order-preserving map *)
Definition coarsener_iter (px : list pixel) (tbl : list Z) (edges : list Z) (batchsize : Z) : list (list pixel) :=
  concat (map (map (aggregate_span px tbl)) (chunks_of batchsize (spans edges))).

Definition coarsener_edges (oldt : list bin) (px : list pixel) (k chunksize : Z) : list Z :=
  greedy_prune_partition (coarse_edges (chrom_offset oldt) (bin1_offset (zlen oldt) px) k) chunksize.

(** coarsen_cooler: (new bin table, new pixel table) — create() stores the concatenated chunks *)
Definition coarsen_pixels (oldt : list bin) (sizes : list Z) (px : list pixel) (k chunksize batchsize : Z) : list pixel :=
  concat (coarsener_iter px (rebin_table oldt sizes k) (coarsener_edges oldt px k chunksize) batchsize).

Definition coarsen_cooler (oldt : list bin) (sizes : list Z) (px : list pixel) (k chunksize batchsize : Z)
  : list bin * list pixel :=
  (coarsen_bins oldt sizes k, coarsen_pixels oldt sizes px k chunksize batchsize).

(** the specification side: one canonical aggregate of all re-keyed pixels, keyed by index *)
Definition coarsen_spec (lens : list Z) (px : list pixel) (k : Z) : list pixel :=
  aggregate (map (rekey (index_table lens k)) px).

(* ====================================================================================
   Any value type V and any aggregation  agg : list V -> V   ("the sum or requested aggregate")
   ==================================================================================== *)
Section GenericAgg.
Context {V : Type}.
Notation recd := (key * V)%type.

(** pandas groupby(["bin1_id","bin2_id"], sort=True).aggregate(agg): groups in ascending key order, the
    values of a group in order of appearance (storage order).  Textually the definition of
    Model/Merge.v (property C07), repeated here so that C08/C09 do not depend on that development. *)
Fixpoint gins (k : key) (v : V) (g : list (key * list V)) : list (key * list V) :=
  match g with
  | [] => [(k, [v])]
  | (k', vs) :: t =>
      match kcmp k k' with
      | Eq => (k', vs ++ [v]) :: t
      | Lt => (k, [v]) :: g
      | Gt => (k', vs) :: gins k v t
      end
  end.
Definition group (l : list recd) : list (key * list V) :=
  fold_left (fun acc p => gins (fst p) (snd p) acc) l [].
Definition groupby_agg (agg : list V -> V) (l : list recd) : list recd :=
  map (fun g => (fst g, agg (snd g))) (group l).

(** the values stored at key k, in storage order *)
Definition vals (l : list recd) (k : key) : list V :=
  map snd (filter (fun p => keqb (fst p) k) l).

Definition grow (p : recd) : Z := fst (fst p).
Definition gcol (p : recd) : Z := snd (fst p).
Definition grekey (tbl : list Z) (p : recd) : recd :=
  ((znth tbl (grow p) 0, znth tbl (gcol p) 0), snd p).

(** indexes/bin1_offset of a table with any value columns *)
Definition bin1_offset_g (n : Z) (px : list recd) : list Z :=
  map (fun i => zlen (filter (fun p => grow p <? i) px)) (zrange 0 (Z.to_nat (n + 1))).

Definition aggregate_span_g (agg : list V -> V) (px : list recd) (tbl : list Z) (s : Z * Z) : list recd :=
  groupby_agg agg (map (grekey tbl) (slice px (fst s) (snd s))).

Definition coarsener_iter_g (agg : list V -> V) (px : list recd) (tbl : list Z) (edges : list Z) (batchsize : Z)
  : list (list recd) :=
  concat (map (map (aggregate_span_g agg px tbl)) (chunks_of batchsize (spans edges))).

Definition coarsener_edges_g (oldt : list bin) (px : list recd) (k chunksize : Z) : list Z :=
  greedy_prune_partition (coarse_edges (chrom_offset oldt) (bin1_offset_g (zlen oldt) px) k) chunksize.

Definition coarsen_pixels_g (agg : list V -> V) (oldt : list bin) (sizes : list Z) (px : list recd)
           (k chunksize batchsize : Z) : list recd :=
  concat (coarsener_iter_g agg px (rebin_table oldt sizes k) (coarsener_edges_g oldt px k chunksize) batchsize).

Definition coarsen_cooler_g (agg : list V -> V) (oldt : list bin) (sizes : list Z) (px : list recd)
           (k chunksize batchsize : Z) : list bin * list recd :=
  (coarsen_bins oldt sizes k, coarsen_pixels_g agg oldt sizes px k chunksize batchsize).

(** the specification side: ONE group-by over all re-keyed pixels, keyed by index *)
Definition coarsen_spec_g (agg : list V -> V) (lens : list Z) (px : list recd) (k : Z) : list recd :=
  groupby_agg agg (map (grekey (index_table lens k)) px).
End GenericAgg.

(** the aggregations the harness drives through the model (V = Z) *)
Definition agg_max (l : list Z) : Z := match l with [] => 0 | x :: r => fold_left Z.max r x end.
Definition agg_min (l : list Z) : Z := match l with [] => 0 | x :: r => fold_left Z.min r x end.
(** pandas 'mean' on an integer column, scaled: (sum, count) is not representable in one Z; the model
    uses the floor of the mean, which is enough for the refutation of composition *)
Definition agg_mean (l : list Z) : Z := match l with [] => 0 | _ => sumZ l / zlen l end.
Inductive aggop := AggSum | AggMax | AggMin.
Definition agg_of (op : aggop) : list Z -> Z :=
  match op with AggSum => sumZ | AggMax => agg_max | AggMin => agg_min end.
