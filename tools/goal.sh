#!/bin/bash
# usage: goal.sh File.v LINE [taillines] -- prints the proof state just before LINE (1-based) of a file under /verif/coq
f=$1; n=$2
d=$(mktemp -d /tmp/goalXXXX)
head -n $((n-1)) /verif/coq/$f > $d/G.v
echo "Show. " >> $d/G.v
cd /verif/coq && timeout 300 coqc -q -Q . Cooler $d/G.v 2>&1 | tail -${3:-40}
rm -rf $d
