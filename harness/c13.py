"""C13 - invalid input or a failed write never yields a cooler nor harms its neighbours.

Fault injection on the real code through the public API only: cooler.create_cooler (ordered and ordered=False) is fed
valid chunk streams with one invalid record of each kind at every chunk index/position, a value that does not fit the
output dtype, or an iterator that raises before chunk k; destinations: new file, new / nested group in a file that
already holds collections, an existing non-cooler group, the root of such a file.  Afterwards the file is inspected
with fileops.is_cooler, fileops.list_coolers, Cooler(uri) and a SHA-1 of every tracked group's attributes+datasets.
The same runs are evaluated on the Gallina step machine (coq/Model/Create.v: create_machine, create_unordered_machine,
validate_pixels) and compared path by path.
Property oracle (independent of the model): error raised; destination not recognised/listed; other groups' SHA equal.
"""
from __future__ import annotations

import hashlib
import os
import shutil

import numpy as np

import coqio as C
import gen_c01 as G

PROP = "C13"
RULE = ("valid streams of 0-4 chunks (an empty chunk included) x one fault: invalid record {id<0, id>=n, lower-triangle, duplicate key} "
        "inserted at every chunk index and at the first/middle/last position, a count that overflows int32 in every chunk, the iterator "
        "raising before every chunk index 0..m, and no fault (control) x destinations {new file root (w and a), new group and nested new "
        "group in a new file, new group / nested group / existing non-cooler group / group inside a plain group / group inside a cooler / "
        "root of a file holding 2 coolers + a plain group with a sub-group, new group beside a root cooler} x ordered / unordered creation; "
        "quick tier: every fault on 4 main destinations, rotating over the others; non-trivial = a fault after at least one written chunk, "
        "or a destination inside a file that already holds collections; plus whole-table (DataFrame / dict) inputs with one invalid record of each "
        "kind; every combination of boundscheck/triucheck/dupcheck (+ensure_sorted) x every kind of invalid record (a fault counts only when its "
        "check is on); duplicates identical in every column and duplicates differing in the value; an empty chunk followed by a non-empty "
        "one; destination URIs with and without the leading slash; every invalid family x id representation {int8..int64, uint8..uint64, "
        "integral float64, Python-object ints} x container {DataFrame, dict of arrays, dict of lists} x API {create_cooler ordered / unordered / whole "
        "table, create} x count dtype, verdict decided by the value of the record as written; missing ids (float NaN, Int64 pd.NA: regression inputs of repaired D36), "
        "an infinite id and a missing id / count column through every API x {DataFrame, dict}; every run under one combination of the optional creation arguments "
        "{metadata none / {} / dict / list} x {assembly} x {h5opts} x {extra value column} x {dtypes} (+ max_merge for unordered), rotating through the "
        "full cross (thorough: full cross on representative faults); failed and completed writes (create_cooler ordered / unordered, merge_coolers, coarsen_cooler; mode a and r+) aimed at a new level and at an "
        "existing non-cooler group under /resolutions of an .mcool and at a new cell of an .scool, observed through is_cooler, list_coolers, "
        "`cooler ls` and Cooler(dest); `cooler load -f coo|bg2` with text records whose bin id is == n_bins or beyond (bg2: a start equal to the last chromosome's length, "
        "an exact multiple of the bin size), every position, default / small chunks / square mode: non-zero exit and no recognised cooler, or "
        "every stored id < n_bins; merge_coolers and coarsen_cooler with a corrupted input as producers; zoomify_cooler and `cooler zoomify` as producers: "
        "1-3 base coolers, an invalid stored record (lower-triangle pixel of a symmetric-upper base, out-of-range id written raw, duplicate) in the "
        "first / second / third base, nested and non-nested resolution lists, chunk sizes 1/2/7/1000 (expected verdict computed from the coarse "
        "coordinates the record is mapped to); "
        "distinct by case hash")
TRUSTED = ["h5py/HDF5 group and attribute semantics are observed (SHA of attrs+datasets per tracked group), modelled only as path -> {format, content id}"]
ASSUMPTIONS = ["faults are Python exceptions at chunk boundaries (validator, iterator, range check), as the property states"]
RESIDUE = ["a process killed inside an HDF5 write (torn file) is outside the model",
           "merge / coarsen as producers surface as an iterator exception and are covered only in that form",
           "a destination that already held a cooler is outside the property (a root destination keeps its stale format attribute); compared model-vs-code only"]

NAMES = {1: "a", 2: "b", 3: "g", 4: "sub", 7: "y", 8: "x", 9: "new",
         20: "resolutions", 21: "5", 22: "10", 23: "20", 24: "stub", 30: "cells", 31: "c1", 32: "c2", 33: "c3"}
WIDTHS = [[5, 5, 2], [4]]          # 4 bins
NB = 4


class InjectedError(Exception):
    pass


def pstr(p):
    return "/" + "/".join(NAMES[i] for i in p)


# ----------------------------------------------------------------------------- scenario files
def build_templates(d):
    import cooler
    import h5py
    import pandas as pd
    bins = G.bins_for(WIDTHS)
    px = {"bin1_id": np.array([0, 1, 3]), "bin2_id": np.array([1, 1, 3]), "count": np.array([4, 5, 6])}
    multi = str(d / "tpl_multi.cool")
    cooler.create_cooler(multi + "::/a", bins, px)
    cooler.create_cooler(multi + "::/b", bins, {k: v[:2] for k, v in px.items()}, mode="a", assembly="mm10")
    with h5py.File(multi, "r+") as f:
        g = f.create_group("g")
        g.attrs["note"] = "plain group"
        g.create_dataset("data", data=np.arange(7))
        s = g.create_group("sub")
        s.attrs["k"] = 3
        s.create_dataset("d2", data=np.array([1.5, 2.5]))
        f.attrs["rootattr"] = "x"
    rootc = str(d / "tpl_rootcooler.cool")
    cooler.create_cooler(rootc, bins, px, metadata={"who": "root"})
    cooler.create_cooler(rootc + "::/b", bins, px, mode="a")
    # a multi-resolution file as zoomify_cooler lays it out (root format attribute HDF5::MCOOL, levels under /resolutions),
    # plus a plain non-cooler group under /resolutions
    base = str(d / "tpl_base.cool")
    cooler.create_cooler(base, bins, px)
    mcool = str(d / "tpl.mcool")
    cooler.zoomify_cooler(base, mcool, [5, 10], chunksize=10)
    with h5py.File(mcool, "r+") as f:
        g = f["resolutions"].create_group("stub")
        g.attrs["note"] = "not a level"
        g.create_dataset("d", data=np.arange(3))
    os.remove(base)
    # a single-cell file (root format HDF5::SCOOL, cells under /cells)
    scool = str(d / "tpl.scool")
    cooler.create_scool(scool, bins, {"c1": pd.DataFrame(px), "c2": pd.DataFrame({k: v[:2] for k, v in px.items()})})
    return {"multi": multi, "rootcooler": rootc, "newfile": None, "mcool": mcool, "scool": scool}


SCEN_GROUPS = {   # tracked groups existing before: path -> is a cooler
    "newfile": {},
    "multi": {(): False, (1,): True, (2,): True, (3,): False, (3, 4): False},
    "rootcooler": {(): True, (2,): True},
    "mcool": {(): False, (20,): False, (20, 21): True, (20, 22): True, (20, 24): False},
    "scool": {(): False, (30,): False, (30, 31): True, (30, 32): True},
}

TARGETS = [  # (scenario, dest, mode, in_property_scope)
    ("newfile", (), "w", True), ("multi", (9,), "a", True), ("multi", (3,), "a", True), ("multi", (9, 8), "a", True),
    ("multi", (), "a", True),                                                                                           # main five
    ("newfile", (), "a", True), ("newfile", (9,), "a", True), ("newfile", (9, 8, 7), "w", True),
    ("multi", (3, 9), "a", True), ("multi", (1, 9), "a", True), ("multi", (9,), "w", True),
    ("rootcooler", (9,), "a", True),
    ("multi", (1,), "a", False), ("rootcooler", (), "a", False),
    # directory layouts with a listing convention: a new level / an existing non-cooler group under /resolutions of an .mcool,
    # a new cell under /cells of an .scool (indices >= LAYOUT0)
    ("mcool", (20, 23), "a", True), ("mcool", (20, 23), "r+", True), ("mcool", (20, 24), "a", True), ("scool", (30, 33), "a", True),
]
LAYOUT0 = 14


NMAIN = 5
assert TARGETS[6] == ("newfile", (9,), "a", True) and TARGETS[10] == ("multi", (9,), "w", True)


def universe(scen, dest):
    u = set(SCEN_GROUPS[scen])
    u.add(())
    for k in range(1, len(dest) + 1):
        u.add(tuple(dest[:k]))
    return sorted(u)


def sha_group(f, p, tracked):
    """SHA-1 over the attributes and every dataset below group p, not descending into other tracked groups"""
    import h5py
    h = hashlib.sha1()

    def attrs(o):
        for k in sorted(o.attrs):
            v = o.attrs[k]
            h.update(repr((k, v.tolist() if hasattr(v, "tolist") else v, str(getattr(v, "dtype", type(v).__name__)))).encode())

    def walk(g, path):
        attrs(g)
        for name in sorted(g):
            o = g[name]
            sub = path.rstrip("/") + "/" + name
            if isinstance(o, h5py.Group):
                if sub in tracked:
                    continue
                h.update(("G:" + name).encode())
                walk(o, sub)
            else:
                h.update(repr(("D", name, str(o.dtype), o.shape)).encode())
                data = o[()]
                h.update(repr(data.tolist()).encode() if hasattr(data, "tolist") else repr(data).encode())
                attrs(o)

    walk(f[p], p)
    return h.hexdigest()


def observe(path, paths):
    """{pathstr: (exists, is_cooler, listed, sha)}, list_coolers"""
    import h5py
    from cooler import fileops
    if not os.path.exists(path):
        return dict({pstr(p): (False, False, False, None) for p in paths}, __ls__=[]), []
    tracked = {pstr(p) for p in paths}
    st, val = G.guarded(lambda: fileops.list_coolers(path), 30)
    if st != "ok":          # a crash of the listing is an observation, not a harness error
        val = ["<list_coolers raised " + st + ">"]
    listing = [("/" + x.strip("/")) if x != "/" else "/" for x in val]

    def _ls():
        from click.testing import CliRunner
        from cooler.cli import cli
        res = CliRunner().invoke(cli, ["ls", path])
        if res.exit_code != 0:
            raise RuntimeError(f"exit code {res.exit_code}")
        return [ln.split("::", 1)[1] for ln in res.output.splitlines() if "::" in ln]
    st, val = G.guarded(_ls, 30)
    out = {"__ls__": sorted(val) if st == "ok" else ["<cooler ls failed: " + str(val)[:60] + ">"]}
    with h5py.File(path, "r") as f:
        for p in paths:
            s = pstr(p)
            ex = (s == "/") or (s in f and isinstance(f[s], h5py.Group))
            out[s] = (ex, None, s in listing, sha_group(f, s, tracked - {s}) if ex else None)
    for p in paths:
        s = pstr(p)
        ex, _, li, sh = out[s]
        st, val = G.guarded(lambda: bool(fileops.is_cooler(path + "::" + s)), 30)
        out[s] = (ex, val if st == "ok" else "<is_cooler raised " + st + ">", li, sh)
    return out, sorted(listing)


# ----------------------------------------------------------------------------- streams and faults
BASE_STREAMS = [
    [],
    [[[0, 1, [3]], [1, 2, [4]]]],
    [[[0, 0, [1]]], [[0, 3, [2]], [2, 2, [5]]]],
    [[[0, 0, [1]], [0, 2, [2]]], [], [[1, 1, [3]], [3, 3, [4]]]],
    [[[0, 1, [1]]], [[1, 1, [2]]], [[1, 3, [3]]], [[2, 3, [4]]]],
    [[], [[0, 2, [6]], [2, 2, [7]]]],                                   # an empty chunk first, then a non-empty one
]
BAD = {"neg": [[-1, 2, [1]], [0, -1, [1]]], "excess": [[0, NB, [1]], [NB, NB, [1]], [NB + 3, 1, [1]]], "tril": [[2, 1, [1]], [3, 0, [1]]]}


def gen_faults():
    """list of (stream_index, fault) ; fault = None | ("record", kind, k, pos, rec) | ("raise", k) | ("range", k)"""
    out = []
    for si, st in enumerate(BASE_STREAMS):
        out.append((si, None))
        for k, ch in enumerate(st):
            poss = sorted({0, len(ch) // 2, len(ch)})
            for kind in ("neg", "excess", "tril", "dup"):
                for t, pos in enumerate(poss):
                    if kind == "dup":
                        if not ch:
                            continue
                        rec = list(ch[(pos + t) % len(ch)])
                        rec = [rec[0], rec[1], [rec[2][0] + 1]]
                    else:
                        rec = BAD[kind][(k + t) % len(BAD[kind])]
                    out.append((si, ("record", kind, k, pos, rec)))
            if ch:      # a duplicate that is identical in every column (the "dup" kind above differs in the value column)
                out.append((si, ("record", "dupsame", k, len(ch), [ch[0][0], ch[0][1], list(ch[0][2])])))
            out.append((si, ("range", k)))
        for k in range(len(st) + 1):
            out.append((si, ("raise", k)))
    return out


def apply_fault(stream, fault):
    """-> items: list of chunk-rows or None (raise)"""
    items = [list(c) for c in stream]
    if fault is None:
        return items
    if fault[0] == "record":
        _, kind, k, pos, rec = fault
        items[k] = items[k][:pos] + [rec] + items[k][pos:]
        return items
    if fault[0] == "range":
        k = fault[1]
        items[k] = items[k] + [[3, 3, [2 ** 31]]] if not any(r[:2] == [3, 3] for r in items[k]) else [[r[0], r[1], [2 ** 31]] if r[:2] == [3, 3] else r for r in items[k]]
        return items
    k = fault[1]
    return items[:k] + [None]


def make_iter(items, chunkform, id_dtype="int64", count_dtype="int64", extra=False):
    cols = [["count", "int", "int32", count_dtype]] + ([W_COL] if extra else [])

    def gen():
        for i, it in enumerate(items):
            if it is None:
                raise InjectedError(f"iterator failed before chunk {i}")
            yield G.make_chunk(with_extra(it) if extra else it, cols, chunkform, id_dtype)
    return gen()


def special_chunk(rows, name, form):
    """invalid inputs that have no integer value: built from a valid chunk"""
    import pandas as pd
    d = G.make_chunk(rows, [["count", "int", "int32", "int64"]], "dict", "float64" if name in ("nan_id", "inf_id") else "int64")
    if name == "nan_id":                                  # regression corpus of repaired defect D36: float NaN id
        d["bin1_id"][-1] = np.nan
    elif name == "na_id":                                 # ... and the pandas nullable-integer form of a missing id
        b1 = pd.array([int(x) for x in d["bin1_id"]], dtype="Int64")
        b1[-1] = pd.NA
        d["bin1_id"] = pd.Series(b1)
        d["bin2_id"] = pd.Series(pd.array([int(x) for x in d["bin2_id"]], dtype="Int64"))
    elif name == "inf_id":
        d["bin2_id"][-1] = np.inf
    elif name == "missing_bin2":
        del d["bin2_id"]
    elif name == "missing_count":
        del d["count"]
    return pd.DataFrame(d) if form == "df" else d


def make_special_iter(items, name, form):
    def gen():
        for i, it in enumerate(items):
            yield special_chunk(it, name, form) if i == len(items) - 1 else G.make_chunk(it, [["count", "int", "int32", "int64"]], form)
    return gen()


ID_REPS = ["int8", "int16", "int32", "int64", "uint8", "uint16", "uint32", "uint64", "float64", "object"]
CONTAINERS = ["df", "dict", "lists"]
APIS = ["ordered", "unordered", "frame", "create"]


def rep_supported(case):
    """representations the unchanged library accepts for VALID input (observed, and as documented: tables of numpy columns):
    chunks of an iterator must hold arrays / Series, not lists; Python-object id columns are only accepted where pandas
    re-infers them (a whole table given as dict of lists)"""
    lists_ok = case.get("form") == "frame"
    if case["chunkform"] == "lists" and not lists_ok:
        return False
    if case.get("id_dtype") == "object" and not (case["chunkform"] == "lists" and lists_ok):
        return False
    return True


# ----------------------------------------------------------------------------- optional creation arguments
# arguments that do not change the validity of the input: the verdict must not depend on them
ARG_METADATA = [None, {}, {"k": [1, {"z": None}], "s": "x"}, [1, "two"]]
ARG_ASSEMBLY = [None, "hg19"]
ARG_H5OPTS = [None, {"compression": "lzf"}, {"compression": None}]
ARG_COMBOS = [{"metadata": mi, "assembly": ai, "h5opts": hi_, "extra": ex, "dtypes": dt}
              for mi in range(4) for ai in range(2) for hi_ in range(3) for ex in (False, True) for dt in (False, True)]
W_COL = ["w", "float", "default", "float64"]


def with_extra(rows):
    return [[r[0], r[1], [r[2][0], ((r[0] + 2 * r[1]) % 5) * 4]] for r in rows]


def arg_kwargs(args, allow_extra=True):
    """keyword arguments of create / create_cooler / merge_coolers / coarsen_cooler for one combination"""
    kw = {}
    if not args:
        return kw, False
    if ARG_METADATA[args["metadata"]] is not None:
        kw["metadata"] = ARG_METADATA[args["metadata"]]
    if ARG_ASSEMBLY[args["assembly"]] is not None:
        kw["assembly"] = ARG_ASSEMBLY[args["assembly"]]
    if ARG_H5OPTS[args["h5opts"]] is not None:
        kw["h5opts"] = dict(ARG_H5OPTS[args["h5opts"]])
    extra = bool(args["extra"]) and allow_extra
    if extra:
        kw["columns"] = ["count", "w"]
    if args["dtypes"]:
        kw["dtypes"] = {"w": np.float32} if extra else {"count": np.int32}
    return kw, extra


# ----------------------------------------------------------------------------- one run
_BEFORE = {}


def impl_run(case, tpl, workdir):
    import cooler
    scen, dest, mode = case["scenario"], tuple(case["dest"]), case["mode"]
    path = str(workdir / "t.cool")
    for fn in os.listdir(workdir):
        os.remove(workdir / fn)
    if tpl[scen]:
        shutil.copy(tpl[scen], path)
    paths = universe(scen, dest)
    ck = (scen, tuple(paths))                      # the state before the run is that of the template: observe it once
    if ck not in _BEFORE:
        _BEFORE[ck] = observe(path, paths)[0]
    before = _BEFORE[ck]
    uri = path if not dest else path + "::" + (pstr(dest)[1:] if case.get("uri_noslash") else pstr(dest))
    if case.get("producer"):
        return producer_run(case, path, uri, paths, before, workdir)
    kw = {"mode": mode, "symmetric_upper": case["symm"]}
    kw.update(case.get("opts", {}))
    akw, extra = arg_kwargs(case.get("args"), allow_extra=not case.get("special"))
    kw.update(akw)
    if case["ordered"]:
        kw["ordered"] = True
    else:
        kw["ordered"] = False
        kw["mergebuf"] = case.get("mergebuf", 20_000_000)
        if case.get("max_merge") is not None:
            kw["max_merge"] = case["max_merge"]
    if case.get("special") and case.get("form") == "frame":
        pixels = special_chunk(case["items"][0], case["special"], case["chunkform"])
        kw.pop("ordered", None)
    elif case.get("special"):
        pixels = make_special_iter(case["items"], case["special"], case["chunkform"])
    elif case.get("form") == "frame":     # a whole table (DataFrame or dict): create_cooler sorts it and hands it to create() as one chunk
        import pandas as pd
        tbl = G.make_chunk(with_extra(case["items"][0]) if extra else case["items"][0],
                           [["count", "int", "int32", case.get("count_dtype", "int64")]] + ([W_COL] if extra else []),
                           "lists" if case["chunkform"] == "lists" else "dict", case.get("id_dtype", "int64"))
        pixels = pd.DataFrame(tbl) if case["chunkform"] == "df" else tbl
        kw.pop("ordered", None)
    else:
        pixels = make_iter(case["items"], case["chunkform"], case.get("id_dtype", "int64"), case.get("count_dtype", "int64"), extra)
    if case.get("api") == "create":     # cooler.create.create with the deprecated append flag: mode = "a" if append else "w"
        from cooler.create import create as _create
        kw.pop("ordered", None)
        kw.pop("mode", None)
        kw["append"] = (mode == "a")
        st, msg = G.guarded(lambda: _create(uri, G.bins_for(WIDTHS), pixels, **kw), 60)
    else:
        st, msg = G.guarded(lambda: cooler.create_cooler(uri, G.bins_for(WIDTHS), pixels, **kw), 60)
    after, listing = observe(path, paths)
    opens, info_ = G.guarded(lambda: dict(cooler.Cooler(uri).info), 20)
    leftovers = sorted(fn for fn in os.listdir(workdir) if fn != "t.cool")
    return {"result": "ok" if st == "ok" else G.err_kind_of_message(st, msg), "before": before, "after": after, "listing": listing,
            "cooler_opens": opens == "ok", "cooler_format": info_.get("format") if opens == "ok" else None, "leftovers": leftovers}


def producer_run(case, path, uri, paths, before, workdir):
    """merge_coolers / coarsen_cooler as the producer of the chunk stream: one input holds a record with an out-of-range
    bin id (written raw), so the stream fails inside the destination's create() after some chunks"""
    import cooler
    import h5py
    bins = G.bins_for(WIDTHS)
    akw, _ = arg_kwargs(case.get("args"), allow_extra=False)
    akw.pop("dtypes", None)
    akw.pop("assembly", None)          # merge_coolers / coarsen_cooler take the assembly from their input and pass it on themselves
    kw = dict(akw, mode=case["mode"])
    px1 = {"bin1_id": np.array([0, 0, 1, 2, 3]), "bin2_id": np.array([0, 2, 1, 3, 3]), "count": np.array([1, 2, 3, 4, 5])}
    px2 = {"bin1_id": np.array([0, 1, 2, 2]), "bin2_id": np.array([1, 3, 2, 3]), "count": np.array([7, 8, 9, 10])}
    in1, in2 = str(workdir / "in1.cool"), str(workdir / "in2.cool")
    cooler.create_cooler(in1, bins, px1)
    cooler.create_cooler(in2, bins, px2)
    if case["fault"] is not None:
        with h5py.File(in2, "r+") as f:                   # corrupt a late record of the second input
            f["pixels/bin2_id"][case["fault"][2]] = 1000
    if case["producer"] == "merge":
        fn = lambda: cooler.merge_coolers(uri, [in1, in2], mergebuf=case.get("mergebuf", 2), **kw)      # noqa: E731
    else:
        fn = lambda: cooler.coarsen_cooler(in2, uri, 2, chunksize=case.get("mergebuf", 2), **kw)        # noqa: E731
    st, msg = G.guarded(fn, 60)
    after, listing = observe(path, paths)
    opens, info_ = G.guarded(lambda: dict(cooler.Cooler(uri).info), 20)
    for fn_ in (in1, in2):
        os.remove(fn_)
    leftovers = sorted(x for x in os.listdir(workdir) if x != "t.cool")
    return {"result": "ok" if st == "ok" else G.err_kind_of_message(st, msg), "before": before, "after": after, "listing": listing,
            "cooler_opens": opens == "ok", "cooler_format": info_.get("format") if opens == "ok" else None, "leftovers": leftovers}


def file_lit(scen):
    ents = []
    for i, (p, fmt) in enumerate(sorted(SCEN_GROUPS[scen].items())):
        ents.append(f"({C.zl(p)}, {{| g_format := {C.b(fmt)}; g_content := {C.z(100 + i)} |}})")
    return C.lst(ents)


def model_expr(case):
    scen, dest = case["scenario"], tuple(case["dest"])
    items = C.lst(["None" if it is None else f"(Some {G.rows_lit(it)})" for it in case["items"]])
    chunks = G.chunks_lit([it for it in case["items"] if it is not None])
    if case.get("form") == "frame":
        items = f"[Some (sort_rows {G.rows_lit(case['items'][0])})]"
        chunks = f"[sort_rows {G.rows_lit(case['items'][0])}]"
    lims = G.lims_lit([["count", "int", "int32", "int64"]])
    fits = f"(fun r : key * list Z => fits_lims {lims} (snd r))"
    o = case.get("opts", {})
    bc, tcf, dc, es = o.get("boundscheck", True), o.get("triucheck", True), o.get("dupcheck", True), o.get("ensure_sorted", False)
    val = f"(validate_pixels (V:=list Z) {C.z(NB)} {C.b(bc)} {C.b(tcf and case['symm'])} {C.b(dc)} {C.b(es)})"
    cflags = f"{C.b(case['symm'])} {C.b(bc)} {C.b(tcf)} {C.b(dc)} {C.b(es)}"
    mach = "create_machine" if case["ordered"] else "create_unordered_machine"
    m = "ModeW" if case["mode"] == "w" else "ModeA"
    uni = C.lst([C.zl(p) for p in universe(scen, dest)])
    # first error of the stream as the functional model of create sees it (None = every chunk accepted)
    err = (f"(match create ((0,0),[0]) {fits} (Some (fun r : key * list Z => nth 0 (snd r) 0)) {C.z(NB)} {cflags} "
           f"{chunks} with inl e => Some e | inr _ => None end)")
    if not case["ordered"]:
        # the sort pass creates one temporary cooler per chunk: the first failing chunk decides
        err = (f"(hd_error (flat_map (fun c => match create ((0,0),[0]) {fits} (Some (fun r : key * list Z => nth 0 (snd r) 0)) {C.z(NB)} "
               f"{cflags} [c] with inl e => [e] | inr _ => [] end) {chunks}))")
    return (f"(let b := {file_lit(scen)} in let r := {mach} {m} {C.zl(dest)} {val} {fits} {items} b in "
            f"(snd r, map (obs_path b (fst r)) {uni}, list_coolers (fst r), {err}))")


def oracle(case, out):
    """property violations on this run, decided from the input and the observed file only"""
    bad = []
    dest = tuple(case["dest"])
    fault = case["fault"]
    o = case.get("opts", {})
    effective = fault is not None
    if fault is not None and fault[0] == "record":
        rec = fault[4]
        oob = rec[0] < 0 or rec[1] < 0 or rec[0] >= NB or rec[1] >= NB
        effective = ((o.get("boundscheck", True) and oob)
                     or (o.get("triucheck", True) and case["symm"] and rec[0] > rec[1])
                     or (o.get("dupcheck", True) and fault[1] in ("dup", "dupsame")))
    if not effective:
        if out["result"] != "ok":
            bad.append(("a valid stream was refused", "ok", out["result"]))
        elif not out["after"][pstr(dest)][1] or not out["after"][pstr(dest)][2]:
            bad.append(("completed creation is not recognised/listed", True, out["after"][pstr(dest)]))
    else:
        if out["result"] == "ok":
            bad.append(("invalid input / failing iterator was not rejected", "error", "ok"))
        if case["in_scope"]:
            ex, isc, listed, _ = out["after"][pstr(dest)]
            if isc or listed:
                bad.append(("destination recognised or listed as a cooler after a failed creation", False, [isc, listed]))
            if pstr(dest) in out["after"]["__ls__"]:
                bad.append(("`cooler ls` prints the destination after a failed creation", "not printed", out["after"]["__ls__"]))
            if out.get("cooler_format") is not None:
                bad.append(("Cooler(dest) presents the half-written destination with a format attribute", None, out["cooler_format"]))
    if case["mode"] in ("a", "r+"):
        for p, was_cooler in SCEN_GROUPS[case["scenario"]].items():
            under = (p == ()) if not dest else (p[:len(dest)] == dest)
            if under:
                continue
            b, a = out["before"][pstr(p)], out["after"][pstr(p)]
            if not a[0] or a[3] != b[3] or a[1] != b[1] or a[2] != b[2]:
                bad.append((f"neighbour {pstr(p)} changed", b, a))
    return bad


def check(ctx, case, out, mv):
    ok_m, obs_m, list_m, err_m = mv
    dest = tuple(case["dest"])
    paths = universe(case["scenario"], dest)
    nontriv = (case["fault"] is not None and (case["fault"][-1] if case["fault"][0] != "record" else case["fault"][2]) >= 1) or case["scenario"] != "newfile"
    ctx.case(case, nontrivial=bool(nontriv), kind=f"{case['scenario']}:{pstr(dest)}:{case['mode']}:{'ordered' if case['ordered'] else 'unordered'}:{'control' if case['fault'] is None else case['fault'][0] + ('-' + case['fault'][1] if case['fault'][0] == 'record' else '')}")
    # expected error kind according to the model
    if err_m is not None:
        exp = err_m[1][1]
    elif any(it is None for it in case["items"]):
        exp = "ErrIter"
    else:
        exp = "ok"
    if case.get("rep_case"):
        # which exception class an unsupported container raises is not modelled; refused-or-not is
        ctx.compare("refused or accepted", case, out["result"] == "ok", exp == "ok")
    else:
        ctx.compare("result / error kind", case, out["result"], exp)
    ctx.compare("completed", case, out["result"] == "ok", ok_m)
    for p, om in zip(paths, obs_m):
        ex, isc, listed, sh = out["after"][pstr(p)]
        b = out["before"][pstr(p)]
        unchanged = (not ex and not b[0]) or (ex and b[0] and sh == b[3] and isc == b[1])
        ctx.compare(f"group {pstr(p)} (exists, is_cooler, unchanged)", case, [ex, isc, unchanged], list(om))
        if isc != listed:
            ctx.disagree(f"is_cooler and list_coolers differ on {pstr(p)}", case, [isc, listed], "equal")
    ctx.compare("list_coolers", case, out["listing"], sorted(pstr(tuple(p)) for p in list_m))
    ctx.compare("`cooler ls` lists what list_coolers lists", case, out["after"]["__ls__"], out["listing"])
    bad = oracle(case, out)
    if bad:
        ctx.fail(case, {"violations": [[str(x)[:300] for x in b_] for b_ in bad[:4]]}, None)


def gen_cases(ctx):
    thorough = ctx.tier == "thorough"
    faults = gen_faults()
    cases = []
    rot = 0
    for fi, (si, fault) in enumerate(faults):
        items = apply_fault(BASE_STREAMS[si], fault)
        tgts = list(range(NMAIN))
        if thorough:
            tgts = list(range(len(TARGETS)))
        else:
            tgts += [NMAIN + (rot % (len(TARGETS) - NMAIN))] + ([NMAIN + ((rot + 5) % (len(TARGETS) - NMAIN))] if fi % 2 == 0 else [])
            rot += 3
        for ti in tgts:
            scen, dest, mode, scope = TARGETS[ti]
            symm = not (ti >= NMAIN and (fi + ti) % 5 == 0)
            cases.append({"scenario": scen, "dest": list(dest), "mode": mode, "in_scope": scope, "symm": symm, "ordered": True,
                          "stream": si, "fault": list(fault) if fault else None, "items": items, "chunkform": ["dict", "df"][(fi + ti) % 2]})
            if dest and (fi + ti) % 2:
                cases[-1]["uri_noslash"] = True          # "file::new/x" instead of "file::/new/x"
        # unordered creation (at least one chunk: the merge of zero inputs is C06's subject)
        if BASE_STREAMS[si] and (thorough or fi % 3 == 0):
            for ti in ((1, 6, 0, 2, 4) if thorough else ((1, 6)[(fi // 3) % 2],)):
                scen, dest, mode, scope = TARGETS[ti]
                cases.append({"scenario": scen, "dest": list(dest), "mode": mode, "in_scope": scope, "symm": True, "ordered": False,
                              "stream": si, "fault": list(fault) if fault else None, "items": items, "chunkform": "df",
                              "mergebuf": [20_000_000, 2][fi % 2]})
    # whole-table input (DataFrame / dict): one invalid record of each kind, rows in shuffled order
    table = [[2, 3, [4]], [0, 1, [1]], [1, 1, [2]], [0, 3, [3]]]
    k = 0
    for kind in ("neg", "excess", "tril", "dup", None):
        for pos in (0, 2, 4):
            rec = None if kind is None else ([table[pos % 4][0], table[pos % 4][1], [9]] if kind == "dup" else BAD[kind][pos % len(BAD[kind])])
            rows = table[:pos] + ([rec] if rec else []) + table[pos:]
            for ti in ((1, 0) if thorough else ((1, 0)[k % 2],)):
                scen, dest, mode, scope = TARGETS[ti]
                cases.append({"scenario": scen, "dest": list(dest), "mode": mode, "in_scope": scope, "symm": True, "ordered": True, "form": "frame",
                              "stream": -1, "fault": ["record", kind, 0, pos, rec] if kind else None, "items": [rows], "chunkform": ["df", "dict"][k % 2]})
            k += 1
    # every invalid family x every column representation the API is handed: bin ids int8..int64, uint8..uint64, float64 holding
    # integral values, Python-object ints; counts int64 / uint16 / float64; chunks as DataFrame, dict of arrays, dict of lists;
    # through create_cooler(ordered=True), create_cooler(ordered=False), a whole table, and cooler.create.create.
    # The expectation is decided by the VALUE of the record as written (a negative id cannot be written unsigned: skipped).
    fam = [("tril", [2, 1, [1]]), ("excess", [1, NB, [1]]), ("neg", [-1, 2, [1]]), ("dup", [2, 2, [9]]), (None, None)]
    k = 0
    for idt in ID_REPS:
        for cont in CONTAINERS:
            for api in APIS:
                k += 1
                kinds = fam if thorough else [fam[0], fam[1], fam[2 + k % 3]]
                for kind, rec in kinds:
                    if kind == "neg" and idt.startswith("uint"):
                        continue
                    fault = ["record", kind, 1, 1 + k % 2, rec] if kind else None
                    items = apply_fault(BASE_STREAMS[2], tuple(fault) if fault else None)
                    scen, dest, mode, scope = TARGETS[(1, 0, 4)[k % 3]]
                    case = {"scenario": scen, "dest": list(dest), "mode": mode, "in_scope": scope, "symm": True, "ordered": api != "unordered",
                            "rep_case": True, "id_dtype": idt, "count_dtype": ["int64", "uint16", "float64"][k % 3], "chunkform": cont,
                            "stream": 2, "fault": fault, "items": items}
                    if api == "frame":
                        case["form"] = "frame"
                        case["items"] = [[r for it in items for r in it]]
                    elif api == "create":
                        case["api"] = "create"
                    if kind is None and not rep_supported(case):
                        continue
                    cases.append(case)
    # every combination of the check toggles x every kind of invalid record (last chunk of a 2-chunk stream)
    k = 0
    base = BASE_STREAMS[2]
    recs = [("neg", [-1, 2, [1]]), ("neg", [0, -1, [1]]), ("excess", [0, NB, [1]]), ("excess", [NB + 3, 1, [1]]), ("tril", [2, 1, [1]]),
            ("dup", [2, 2, [9]]), ("dupsame", [2, 2, [5]])]
    for kind, rec in recs:
        for bits in range(8):
            opts = {"boundscheck": bool(bits & 1), "triucheck": bool(bits & 2), "dupcheck": bool(bits & 4)}
            if bits == 7 and not thorough:
                continue                                 # all checks on: the main enumeration above
            if (k % 3) == 0:
                opts["ensure_sorted"] = True
            fault = ["record", kind, 1, 1, rec]
            for ti in ((1, 0, 4) if thorough else ((1, 0, 4)[k % 3],)):
                scen, dest, mode, scope = TARGETS[ti]
                cases.append({"scenario": scen, "dest": list(dest), "mode": mode, "in_scope": scope, "symm": (k % 4) != 3, "ordered": True, "opts": opts,
                              "stream": 2, "fault": fault, "items": apply_fault(base, tuple(fault)), "chunkform": ["dict", "df"][k % 2]})
            k += 1
    # cooler.create.create called directly: the mode / append rule
    for fi, (si, fault) in enumerate(faults):
        if si == 2 and (fault is None or fault[0] == "raise" or (fault[0] == "record" and fault[3] == 0 and fault[1] in ("excess", "dup"))):
            for ti in (1, 10):
                scen, dest, mode, scope = TARGETS[ti]
                cases.append({"scenario": scen, "dest": list(dest), "mode": mode, "in_scope": scope, "symm": True, "ordered": True, "api": "create",
                              "stream": si, "fault": list(fault) if fault else None, "items": apply_fault(BASE_STREAMS[si], fault), "chunkform": "dict"})
    # failed (and completed) writes aimed at a level of an .mcool / a cell of an .scool, then the listing observables
    k = 0
    for ti in range(LAYOUT0, len(TARGETS)):
        scen, dest, mode, scope = TARGETS[ti]
        for si, fault in ((2, None), (2, ("record", "excess", 1, 1, [1, NB, [1]])), (4, ("record", "tril", 2, 0, [3, 1, [1]])), (2, ("raise", 1)),
                          (2, ("raise", 0)), (3, ("range", 2)), (2, ("record", "dup", 1, 2, [2, 2, [9]]))):
            k += 1
            c = {"scenario": scen, "dest": list(dest), "mode": mode, "in_scope": scope, "symm": True, "ordered": True, "stream": si,
                 "fault": list(fault) if fault else None, "items": apply_fault(BASE_STREAMS[si], fault), "chunkform": ["dict", "df"][k % 2]}
            if k % 3 == 0:
                c["uri_noslash"] = True
            cases.append(c)
            if fault is not None and fault[0] == "raise" and mode == "a":
                cases.append(dict(c, ordered=False, mergebuf=2))
    # merge_coolers / coarsen_cooler as producers (their failure reaches create() as a failing chunk of the stream)
    k = 0
    for producer in ("merge", "coarsen"):
        for fault in (None, ["producer", "corrupt-input", 3], ["producer", "corrupt-input", 1]):
            for ti in ((1, 0, 4, 2, 3) + tuple(range(LAYOUT0, len(TARGETS))) if thorough else (1, 0, 4) + tuple(range(LAYOUT0, len(TARGETS)))):
                k += 1
                scen, dest, mode, scope = TARGETS[ti]
                cases.append({"scenario": scen, "dest": list(dest), "mode": mode, "in_scope": scope, "symm": True, "ordered": True, "rep_case": True,
                              "producer": producer, "mergebuf": [2, 1, 100][k % 3], "stream": -2, "fault": fault,
                              "items": [[]] if fault is None else [None], "chunkform": "dict"})
    # optional creation arguments that do not change validity (metadata, assembly, h5opts, extra column, dtypes; max_merge for the
    # unordered path): every case above runs under one combination, rotating through the full cross ...
    for i, c in enumerate(cases):
        c["args"] = dict(ARG_COMBOS[(i * 37) % len(ARG_COMBOS)])
        if not c["ordered"]:
            c["max_merge"] = [None, 1, 2][i % 3]
    # ... and in the thorough tier the full cross on a set of representative faults x destinations
    if thorough:
        reps = [c for c in cases if c.get("stream") == 3 and not c.get("rep_case") and not c.get("opts") and c["dest"] in ([9], [], [3])
                and (c["fault"] is None or c["fault"][0] == "raise" or (c["fault"][0] == "record" and c["fault"][3] == 0))]
        seen = set()
        for c in reps:
            key = (tuple(c["dest"]), c["scenario"], c["mode"], str(c["fault"]), c["ordered"])
            if key in seen or len(seen) >= 24:
                continue
            seen.add(key)
            for combo in ARG_COMBOS:
                c2 = dict(c)
                c2["args"] = dict(combo)
                cases.append(c2)
    return cases


# ----------------------------------------------------------------------------- zoomify_cooler / `cooler zoomify` as a producer
ZLEN = 24000          # one chromosome, so that the coarse bin of base bin i under factor k is i // k


def zbins(res):
    import pandas as pd
    starts = list(range(0, ZLEN, res))
    return pd.DataFrame({"chrom": ["chrZ"] * len(starts), "start": starts, "end": [min(s_ + res, ZLEN) for s_ in starts]})


def zbase_pixels(res, invalid):
    """stored records of one base cooler: a valid upper-triangular table plus, optionally, one invalid stored record"""
    n = -(-ZLEN // res)
    keys = sorted({(i, j) for i in range(n) for j in (i, i + 2) if j < n})[:10]
    recs = [[i, j, 1 + (3 * i + j) % 7] for (i, j) in keys]
    if invalid and invalid["kind"] in ("tril", "dup"):
        recs.append([invalid["pixel"][0], invalid["pixel"][1], 5])
        recs.sort(key=lambda r: (r[0], r[1]))
    return n, recs


def zoom_expected(case):
    """independent reading of what zoomify must do: levels in increasing order, each from the largest smaller level dividing it;
    a derived level whose stream would hold a lower-triangle or out-of-range record must be refused and must not become a cooler"""
    bases = {b["res"]: b for b in case["bases"]}
    alls = sorted(set(bases) | set(case["resolutions"]))
    keys = {}
    for r, b in bases.items():
        n, recs = zbase_pixels(r, b.get("invalid"))
        ks = [(x[0], x[1]) for x in recs]
        if b.get("invalid") and b["invalid"]["kind"] == "oob":
            ks[-1] = (ks[-1][0], 10 * n + 1)
        keys[r] = ks
    status = {r: "cooler" for r in bases}
    nnz = {r: len(keys[r]) for r in bases}
    failed = None
    for r in alls:
        if r in bases:
            continue
        if failed is not None:
            status[r] = "absent"
            continue
        pred = max(q for q in alls if q < r and r % q == 0)
        m = r // pred
        n_r = -(-ZLEN // r)
        ks = sorted({(a // m, b_ // m) for (a, b_) in keys[pred]})
        if any(a > b_ or a >= n_r or b_ >= n_r or a < 0 for (a, b_) in ks):
            failed = r
            status[r] = "partial"
            continue
        keys[r] = ks
        status[r] = "cooler"
        nnz[r] = len(ks)
    return {"refused": failed is not None, "fail_level": failed, "status": status, "nnz": nnz, "levels": alls}


def zoom_impl(case, workdir):
    import cooler
    import h5py
    from cooler import fileops
    for fn in os.listdir(workdir):
        os.remove(workdir / fn)
    uris = []
    for b in case["bases"]:
        n, recs = zbase_pixels(b["res"], b.get("invalid"))
        fn = str(workdir / f"base_{b['res']}.cool")
        px = {"bin1_id": np.array([r[0] for r in recs]), "bin2_id": np.array([r[1] for r in recs]), "count": np.array([r[2] for r in recs])}
        cooler.create_cooler(fn, zbins(b["res"]), px, triucheck=False, dupcheck=False)
        if b.get("invalid") and b["invalid"]["kind"] == "oob":
            with h5py.File(fn, "r+") as f:                # an out-of-range id can only get into a cooler raw
                f["pixels/bin2_id"][len(recs) - 1] = 10 * n + 1
        uris.append(fn)
    out = str(workdir / "z.mcool")
    if case["api"] == "cli":
        from click.testing import CliRunner
        from cooler.cli import cli

        def fn_():
            res = CliRunner().invoke(cli, ["zoomify", "-r", ",".join(str(r) for r in case["resolutions"]), "-c", str(case["chunksize"]), "-o", out, uris[0]])
            if res.exit_code != 0:
                raise (res.exception if isinstance(res.exception, Exception) else RuntimeError(f"exit code {res.exit_code}"))
    else:
        def fn_():
            cooler.zoomify_cooler(uris if len(uris) > 1 else uris[0], out, case["resolutions"], case["chunksize"])
    st, msg = G.guarded(fn_, 120)
    exp = zoom_expected(case)
    obs = {}
    listing = []
    if os.path.exists(out):
        st2, val = G.guarded(lambda: fileops.list_coolers(out), 30)
        listing = val if st2 == "ok" else ["<list_coolers raised " + st2 + ">"]
        with h5py.File(out, "r") as f:
            exists = {r: f"resolutions/{r}" in f for r in exp["levels"]}
        for r in exp["levels"]:
            st3, isc = G.guarded(lambda: bool(fileops.is_cooler(out + f"::/resolutions/{r}")), 30)
            nz = None
            if st3 == "ok" and isc:
                st4, nz = G.guarded(lambda: int(cooler.Cooler(out + f"::/resolutions/{r}").info["nnz"]), 30)
            obs[str(r)] = [bool(exists[r]), isc if st3 == "ok" else "<is_cooler raised>", f"/resolutions/{r}" in listing, nz]
    else:
        obs = {str(r): [False, False, False, None] for r in exp["levels"]}
    return {"result": "ok" if st == "ok" else st, "levels": obs, "listing": listing}


def zoom_oracle(case, out):
    exp = zoom_expected(case)
    bad = []
    if exp["refused"] and out["result"] == "ok":
        bad.append(("an invalid stored record reached a coarser level without an error", "error", "ok"))
    if not exp["refused"] and out["result"] != "ok":
        bad.append(("valid bases were refused", "ok", out["result"]))
    for r in exp["levels"]:
        ex, isc, listed, nz = out["levels"][str(r)]
        want = exp["status"][r]
        if want == "cooler":
            if isc is not True or not listed:
                bad.append((f"level {r} should be a recognised, listed cooler", True, [isc, listed]))
            elif nz != exp["nnz"][r]:
                bad.append((f"level {r}: number of pixels", exp["nnz"][r], nz))
        elif isc is not False or listed:
            bad.append((f"level {r} ({'being written when creation stopped' if want == 'partial' else 'never reached'}) recognised or listed", False, [isc, listed]))
    return bad


def zoom_model_expr(case):
    exp = zoom_expected(case)
    bases = {b["res"] for b in case["bases"]}
    idx = {r: i for i, r in enumerate(exp["levels"])}
    ents = ["([], {| g_format := false; g_content := 1 |})", "([50], {| g_format := false; g_content := 2 |})"]
    ents += [f"([50; {idx[r]}], {{| g_format := true; g_content := {10 + idx[r]} |}})" for r in sorted(bases)]
    val = f"(validate_pixels (V:=list Z) 4 true true true false)"
    expr = "b"
    for r in exp["levels"]:
        if r in bases or exp["status"][r] == "absent":
            continue
        items = "[Some []]" if exp["status"][r] == "cooler" else "[None]"
        expr = f"(fst (create_machine ModeA [50; {idx[r]}] {val} (fun _ => true) {items} {expr}))"
    paths = C.lst([f"[50; {idx[r]}]" for r in exp["levels"]])
    return f"(let b := {C.lst(ents)} in let f := {expr} in (map (obs_path b f) {paths}, list_coolers f))"


def zoom_cases(ctx):
    thorough = ctx.tier == "thorough"
    T = lambda px: {"kind": "tril", "pixel": px}     # noqa: E731
    fams = [
        ([{"res": 1000}], [1000, 2000, 4000]),                                                        # control, nested
        ([{"res": 1000}], [1000, 2000, 3000, 6000]),                                                  # control, non-nested
        ([{"res": 1000, "invalid": T([3, 2])}], [1000, 2000, 3000]),                                  # same base read again with factor 3
        ([{"res": 1000, "invalid": T([3, 2])}], [1000, 2000, 4000]),                                  # (3,2) -> (1,1): stays valid
        ([{"res": 1000, "invalid": T([3, 1])}], [1000, 2000, 4000]),                                  # refused at the first derived level
        ([{"res": 1000}, {"res": 5000, "invalid": T([2, 1])}], [1000, 2000, 5000, 10000]),            # invalid record in the SECOND base
        ([{"res": 1000, "invalid": T([5, 4])}, {"res": 4000}], [1000, 2000, 4000, 8000, 3000]),       # first base, hit by factor 3 only
        ([{"res": 1000}, {"res": 3000}, {"res": 5000, "invalid": T([4, 3])}], [1000, 2000, 3000, 6000, 5000, 10000]),   # third base
        ([{"res": 1000}, {"res": 3000, "invalid": {"kind": "oob"}}], [1000, 2000, 3000, 6000]),       # out-of-range id, second base
        ([{"res": 2000, "invalid": {"kind": "oob"}}], [2000, 4000]),
        ([{"res": 1000}, {"res": 5000, "invalid": {"kind": "dup", "pixel": [1, 1]}}], [1000, 2000, 5000, 10000]),   # duplicates add up
        ([{"res": 1000}, {"res": 3000}, {"res": 5000}], [1000, 2000, 3000, 6000, 5000, 10000]),       # control, three bases
    ]
    cases = []
    k = 0
    for bases, res in fams:
        for cs in ((1, 2, 7, 1000) if thorough else ((1, 2, 1000)[k % 3], (7, 1000, 1)[k % 3])):
            k += 1
            cases.append({"grp": "zoomify", "bases": bases, "resolutions": res, "chunksize": cs, "api": "py"})
            if len(bases) == 1 and (thorough or k % 2):
                cases.append({"grp": "zoomify", "bases": bases, "resolutions": res, "chunksize": cs, "api": "cli"})
    return cases


def run_zoomify(ctx, work):
    cases = zoom_cases(ctx)
    outs = run_parallel([("zoom", c, None, str(work)) for c in cases])
    model = C.coq_eval("From Cooler Require Import Model.Create.", [zoom_model_expr(c) for c in cases], tmpdir=ctx.tmp / "zmodel")
    for c, o, (obs_m, list_m) in zip(cases, outs, model):
        exp = zoom_expected(c)
        ctx.case(c, nontrivial=True, kind=f"zoomify:{c['api']}:{'refused' if exp['refused'] else 'accepted'}")
        ctx.compare("zoomify completed", c, o["result"] == "ok", not exp["refused"])
        ctx.compare("zoom levels (exists, is_cooler)", c, [o["levels"][str(r)][:2] for r in exp["levels"]], [[om[0], om[1]] for om in obs_m])
        bad = zoom_oracle(c, o)
        if bad:
            ctx.fail(c, {"violations": [[str(x)[:300] for x in b_] for b_ in bad[:4]]}, None)
    return len(cases)


# ----------------------------------------------------------------------------- `cooler load` per input format
LSIZES = [("chrA", 20), ("chrB", 10)]      # the LAST chromosome's length is an exact multiple of the bin size
LBIN = 5
LNB = 6


def load_cases(ctx):
    """text input of `cooler load` per format with records whose bin id ends up == n_bins or beyond (for bg2: a start equal to
    the last chromosome's length), plus valid controls; no loader may ever write a recognised cooler holding a bin id >= n_bins"""
    coo_valid = [[0, 1, 3], [1, 4, 2], [5, 5, 7]]
    bg2 = lambda c1, s1, c2, s2, v: [c1, s1, s1 + LBIN, c2, s2, s2 + LBIN, v]     # noqa: E731
    bg2_valid = [bg2("chrA", 0, "chrA", 5, 3), bg2("chrA", 5, "chrB", 0, 2), bg2("chrB", 5, "chrB", 5, 7)]
    fams = [("coo", "control", []), ("coo", "id==n_bins (bin2)", [[2, LNB, 1]]), ("coo", "id==n_bins (both)", [[LNB, LNB, 1]]),
            ("coo", "id beyond", [[1, LNB + 3, 1]]),
            ("bg2", "control", []), ("bg2", "start2 == last chromosome length", [bg2("chrA", 10, "chrB", 10, 1)]),
            ("bg2", "both starts == last chromosome length", [bg2("chrB", 10, "chrB", 10, 1)]),
            ("bg2", "start beyond the last chromosome", [bg2("chrB", 0, "chrB", 15, 1)])]
    cases = []
    k = 0
    for fmt, what, extra in fams:
        for pos in ((0, 1, 3) if extra else (0,)):
            for opts in ([], ["--chunksize", "2"], ["--no-symmetric-upper"]):
                k += 1
                if ctx.tier != "thorough" and extra and (k % 3) == 0:
                    continue
                rows = list(coo_valid if fmt == "coo" else bg2_valid)
                for r in extra:
                    rows.insert(min(pos, len(rows)), r)
                cases.append({"grp": "load-cli", "format": fmt, "what": what, "rows": rows, "options": opts, "invalid": bool(extra)})
    return cases


def load_ids(case):
    """the bin ids the records denote (value semantics): coo ids as written; bg2: offset of the chromosome + start // binsize"""
    if case["format"] == "coo":
        return [[r[0], r[1]] for r in case["rows"]]
    off, o = {}, 0
    for name, ln in LSIZES:
        off[name] = o
        o += -(-ln // LBIN)
    return [[off[r[0]] + r[1] // LBIN, off[r[3]] + r[4] // LBIN] for r in case["rows"]]


def load_impl(case, workdir):
    import h5py
    from click.testing import CliRunner
    from cooler import fileops
    from cooler.cli import cli
    for fn in os.listdir(workdir):
        os.remove(workdir / fn)
    cs = workdir / "sizes.tsv"
    cs.write_text("".join(f"{n}\t{ln}\n" for n, ln in LSIZES))
    px = workdir / "pixels.txt"
    px.write_text("".join("\t".join(str(x) for x in r) + "\n" for r in case["rows"]))
    out = str(workdir / "t.cool")

    def fn_():
        res = CliRunner().invoke(cli, ["load", "-f", case["format"], *case["options"], f"{cs}:{LBIN}", str(px), out])
        return res.exit_code
    st, code = G.guarded(fn_, 60)
    res = {"exit": code if st == "ok" else st, "recognised": False, "max_id": None, "nnz": None}
    if os.path.exists(out):
        st2, isc = G.guarded(lambda: bool(fileops.is_cooler(out)), 30)
        res["recognised"] = isc if st2 == "ok" else "<is_cooler raised>"
        if isc is True:
            with h5py.File(out, "r") as f:
                ids = list(f["pixels/bin1_id"][:]) + list(f["pixels/bin2_id"][:])
                res["nnz"] = int(f.attrs["nnz"])
                res["nbins"] = int(f.attrs["nbins"])
            res["max_id"] = int(max(ids)) if ids else -1
            res["min_id"] = int(min(ids)) if ids else 0
    return res


def load_oracle(case, out):
    bad = []
    if out["recognised"] is True:
        if out["max_id"] >= out["nbins"] or out["min_id"] < 0:
            bad.append(("a recognised cooler holds a bin id outside [0, n_bins)", f"< {out['nbins']}", [out["min_id"], out["max_id"]]))
        if out["exit"] != 0:
            bad.append(("the loader failed but left a recognised cooler", "not recognised", out["exit"]))
    elif out["exit"] == 0:
        bad.append(("the loader reported success without a recognised cooler", "cooler", out["recognised"]))
    if not case["invalid"] and (out["exit"] != 0 or out["recognised"] is not True or out["nnz"] != len(case["rows"])):
        bad.append(("valid text input was not loaded", len(case["rows"]), [out["exit"], out["recognised"], out["nnz"]]))
    return bad


def _load_worker(args):
    from pathlib import Path
    case, base = args
    wd = Path(base) / f"p{os.getpid()}"
    wd.mkdir(exist_ok=True)
    return load_impl(case, wd)


def run_load(ctx, work):
    import multiprocessing as mp
    cases = load_cases(ctx)
    jobs = [(c, str(work)) for c in cases]
    try:
        if os.environ.get("VERIF_SERIAL") == "1":
            raise RuntimeError
        with mp.get_context("fork").Pool(4) as pool:
            outs = list(pool.imap(_load_worker, jobs, chunksize=4))
    except Exception:  # noqa: BLE001
        outs = [_load_worker(j) for j in jobs]
    # model: the validator on the ids the records denote (bounds check on, triangle check as the storage mode has it)
    exprs = []
    for c in cases:
        symm = "--no-symmetric-upper" not in c["options"]
        ids = [sorted(p) if symm else p for p in load_ids(c)]        # the loader mirrors lower-triangle records in symmetric mode
        rows = C.lst([f"(({C.z(a)}, {C.z(b_)}), [0])" for a, b_ in ids])
        exprs.append(f"(match validate_pixels (V:=list Z) {C.z(LNB)} true {C.b(symm)} false false {rows} with inl _ => false | inr _ => true end)")
    model = C.coq_eval("From Cooler Require Import Model.Create.", exprs, tmpdir=ctx.tmp / "loadmodel")
    for c, o, mv in zip(cases, outs, model):
        ctx.case(c, nontrivial=True, kind=f"load-cli:{c['format']}:{'invalid' if c['invalid'] else 'control'}")
        ctx.compare("cooler load accepted / refused", c, o["exit"] == 0 and o["recognised"] is True, bool(mv))
        bad = load_oracle(c, o)
        if bad:
            ctx.fail(c, {"violations": [[str(x)[:300] for x in b_] for b_ in bad[:4]]}, None)
    return len(cases)


def special_cases(ctx):
    # a missing bin id (float NaN, Int64 pd.NA) compares false with every bound: defect D36, repaired; its inputs stay here as
    # an ordinary invalid-input family (regression corpus) judged by the hard oracle
    names = ["nan_id", "na_id", "inf_id", "missing_bin2", "missing_count"]
    out = []
    k = 0
    for name in names:
        for cont in ("df", "dict"):
            for api in APIS:
                k += 1
                scen, dest, mode, scope = TARGETS[(1, 0, 4)[k % 3]]
                items = [list(c) for c in BASE_STREAMS[2]]
                case = {"scenario": scen, "dest": list(dest), "mode": mode, "in_scope": scope, "symm": True, "ordered": api != "unordered",
                        "special": name, "chunkform": cont, "stream": 2, "fault": ["special", name, 1], "items": items}
                if api == "frame":
                    case["form"] = "frame"
                    case["items"] = [[r for it in items for r in it]]
                elif api == "create":
                    case["api"] = "create"
                case["args"] = dict(ARG_COMBOS[(k * 41) % len(ARG_COMBOS)])
                out.append(case)
    return out


def _worker(args):
    kind, case, tpl, base = args
    from pathlib import Path
    wd = Path(base) / f"p{os.getpid()}"                   # one scratch directory (and one before-state cache) per worker process
    wd.mkdir(exist_ok=True)
    return zoom_impl(case, wd) if kind == "zoom" else impl_run(case, tpl, wd)


def run_parallel(jobs):
    """implementation side of independent runs in 4 worker processes (results in order); sequential fallback"""
    import multiprocessing as mp
    if os.environ.get("VERIF_SERIAL") != "1":
        try:
            with mp.get_context("fork").Pool(4) as pool:
                return list(pool.imap(_worker, jobs, chunksize=8))
        except Exception as e:  # noqa: BLE001
            print("note: worker pool unavailable (%s), running sequentially" % type(e).__name__)
    return [_worker(j) for j in jobs]


def run(ctx):
    d = ctx.tmp / "c13"
    d.mkdir(exist_ok=True)
    tpl = build_templates(d)
    _BEFORE.clear()
    work = d / "work"
    work.mkdir(exist_ok=True)
    cases = gen_cases(ctx)
    # inputs without an integer value (NaN / inf ids, a missing column): no model literal exists; the property oracle decides
    sc = special_cases(ctx)
    for c, o in zip(sc, run_parallel([("run", c, tpl, str(work)) for c in sc])):
        ctx.case(c, nontrivial=True, kind=f"special:{c['special']}")
        bad = oracle(c, o)
        if bad:
            ctx.fail(c, {"violations": [[str(x)[:300] for x in b_] for b_ in bad[:4]]}, None)
    nzoom = run_zoomify(ctx, work)
    nload = run_load(ctx, work)
    outs = run_parallel([("run", c, tpl, str(work)) for c in cases])
    exprs = [model_expr(c) for c in cases]
    model = C.coq_eval("From Cooler Require Import Model.Create.", exprs, tmpdir=ctx.tmp / "model", shard=120, jobs=4)
    opens_failed = 0
    leftovers = 0
    for c, o, mv in zip(cases, outs, model):
        check(ctx, c, o, mv)
        if o["result"] != "ok" and o["cooler_opens"]:
            opens_failed += 1
        leftovers += bool(o["leftovers"])
    ctx.extra["scopes"] = {"runs": len(cases), "zoomify_runs": nzoom, "load_cli_runs": nload, "faults": len(gen_faults()), "targets": len(TARGETS),
                           "failed_runs_where_Cooler(uri)_still_constructs": opens_failed,
                           "runs_leaving_temporary_files_next_to_the_destination": leftovers,
                           "note": "Cooler(uri) does not test the format attribute; it constructs on any group that has a chroms table (recorded, not part of the oracle)"}
    ctx.exhaustive = True


def replay(ctx, case):
    d = ctx.tmp / "c13"
    d.mkdir(exist_ok=True)
    if case.get("grp") == "load-cli":
        work = d / "work"
        work.mkdir(exist_ok=True)
        bad = load_oracle(case, load_impl(case, work))
        for b_ in bad:
            print("violation:", b_)
        shutil.rmtree(ctx.tmp, ignore_errors=True)
        return not bad
    if case.get("grp") == "zoomify":
        work = d / "work"
        work.mkdir(exist_ok=True)
        bad = zoom_oracle(case, zoom_impl(case, work))
        for b_ in bad:
            print("violation:", b_)
        shutil.rmtree(ctx.tmp, ignore_errors=True)
        return not bad
    tpl = build_templates(d)
    _BEFORE.clear()
    work = d / "work"
    work.mkdir(exist_ok=True)
    out = impl_run(case, tpl, work)
    bad = oracle(case, out)
    for b_ in bad:
        print("violation:", b_)
    shutil.rmtree(ctx.tmp, ignore_errors=True)
    return not bad
