(** Proofs for C18: _rename_chroms rewrites exactly two links (chroms/name, bins/chrom) of the
    collection; every other object and link is untouched; names are substituted in order; bin
    codes are kept; lookups by the new name equal the old lookups by the old name; chains compose. *)
From Cooler Require Import Model.Rename Proofs.H5Proofs.
From Coq Require Import Lia.
Module S := Coq.Strings.String.

(* ------------------------------------------------------------------ put_ds *)
Lemma put_ds_store : forall w f t n d a ls st,
  get_store w f = Some st -> nth_error st t = Some (Group a ls) ->
  get_store (put_ds w f t n d) f =
    Some (upd t (Group a (ins_sorted n (Hard (List.length st)) (remove_key n ls))) (st ++ [Dataset d])).
Proof.
  intros w f t n d a ls st Es Et. unfold put_ds, obj_at, alloc, set_obj. rewrite Es, Et.
  rewrite get_set_same. rewrite get_set_same. reflexivity.
Qed.

Lemma put_ds_other_file : forall w f t n d f', f <> f' -> get_store (put_ds w f t n d) f' = get_store w f'.
Proof.
  intros w f t n d f' N. unfold put_ds. destruct (obj_at w f t) as [[a ls|?]|]; auto.
  unfold alloc, set_obj. destruct (get_store w f) eqn:Es; simpl; auto.
  - rewrite get_set_same. rewrite get_set_other by auto. rewrite get_set_other by auto. auto.
  - rewrite Es. auto.
Qed.

Lemma put_ds_obj_other : forall w f t n d a ls o,
  obj_at w f t = Some (Group a ls) -> o <> t -> (exists x, obj_at w f o = Some x) ->
  obj_at (put_ds w f t n d) f o = obj_at w f o.
Proof.
  intros w f t n d a ls o Et N [x Ex]. unfold obj_at in *.
  destruct (get_store w f) as [st|] eqn:Es; try discriminate.
  erewrite put_ds_store by eauto. rewrite nth_error_upd_other by auto.
  rewrite nth_error_app1; auto. apply nth_error_Some. congruence.
Qed.

Lemma put_ds_obj_self : forall w f t n d a ls st,
  get_store w f = Some st -> nth_error st t = Some (Group a ls) ->
  obj_at (put_ds w f t n d) f t = Some (Group a (ins_sorted n (Hard (List.length st)) (remove_key n ls))) /\
  obj_at (put_ds w f t n d) f (List.length st) = Some (Dataset d).
Proof.
  intros w f t n d a ls st Es Et. unfold obj_at. erewrite put_ds_store by eauto.
  assert (t < List.length st)%nat as Lt by (apply nth_error_Some; congruence).
  split.
  - apply nth_error_upd_same. rewrite app_length. simpl. lia.
  - rewrite nth_error_upd_other by lia. rewrite nth_error_app2 by lia. now rewrite Nat.sub_diag.
Qed.

(** reading the rewritten column gives the new payload; every other link of that group is as before *)
Lemma put_ds_read : forall w f t n d a ls,
  obj_at w f t = Some (Group a ls) -> ds_at (put_ds w f t n d) f t n = Some d.
Proof.
  intros w f t n d a ls Et. unfold obj_at in Et.
  destruct (get_store w f) as [st|] eqn:Es; try discriminate.
  destruct (put_ds_obj_self w f t n d a ls st Es Et) as [H1 H2].
  unfold ds_at, child, lookup_link. rewrite H1, assoc_ins_same, H2. reflexivity.
Qed.

Lemma put_ds_lookup_other : forall w f t n d a ls t' n',
  obj_at w f t = Some (Group a ls) -> (t' <> t \/ n' <> n) -> (exists x, obj_at w f t' = Some x) ->
  lookup_link (put_ds w f t n d) f t' n' = lookup_link w f t' n'.
Proof.
  intros w f t n d a ls t' n' Et Hne Hx. unfold lookup_link.
  destruct (Nat.eq_dec t' t) as [->|N].
  - destruct Hne as [?|Hn]; [congruence|].
    pose proof Et as Et'. unfold obj_at in Et'. destruct (get_store w f) as [st|] eqn:Es; try discriminate.
    destruct (put_ds_obj_self w f t n d a ls st Es Et') as [H1 _]. rewrite H1, Et.
    rewrite assoc_ins_other by congruence. apply assoc_remove_other. congruence.
  - erewrite put_ds_obj_other; eauto.
Qed.

(** old dataset objects are never modified (the replaced ones stay behind as unreachable garbage) *)
Lemma put_ds_dataset_kept : forall w f t n d a ls o x,
  obj_at w f t = Some (Group a ls) -> obj_at w f o = Some (Dataset x) ->
  obj_at (put_ds w f t n d) f o = Some (Dataset x).
Proof.
  intros w f t n d a ls o x Et Eo. rewrite <- Eo. eapply put_ds_obj_other; eauto.
  intro; subst. congruence.
Qed.

(* ------------------------------------------------------------------ the shape of a collection *)
(** the collection group g has its chroms and bins tables as distinct group objects tc, tb different
    from g, chroms/name holds the names, bins/chrom the codes *)
Record shape (w : world) (f : fid) (g tc tb : nat) (names : list string) : Prop := {
  sh_chroms : child w f g "chroms"%string = Some tc;
  sh_bins : child w f g "bins"%string = Some tb;
  sh_tc : exists a ls, obj_at w f tc = Some (Group a ls);
  sh_tb : exists a ls, obj_at w f tb = Some (Group a ls);
  sh_ne1 : tc <> g; sh_ne2 : tb <> g; sh_ne3 : tc <> tb;
  sh_names : ds_at w f tc "name"%string = Some (PStrs names);
  sh_codes : exists d, ds_at w f tb "chrom"%string = Some d /\ (forall l, d <> PStrs l)
}.

Lemma child_obj : forall w f g n o, child w f g n = Some o -> exists x, obj_at w f g = Some x.
Proof.
  unfold child, lookup_link; intros. destruct (obj_at w f g); eauto. discriminate.
Qed.

Lemma lookup_obj : forall w f t n l, lookup_link w f t n = Some l -> exists x, obj_at w f t = Some x.
Proof. unfold lookup_link; intros. destruct (obj_at w f t); eauto. discriminate. Qed.

(** a column that could be read before, other than the rewritten one, reads the same afterwards
    (same dataset object, same payload) *)
Lemma ds_at_put_kept : forall w f t n d a ls t' n' x,
  obj_at w f t = Some (Group a ls) -> (t' <> t \/ n' <> n) ->
  ds_at w f t' n' = Some x -> ds_at (put_ds w f t n d) f t' n' = Some x.
Proof.
  intros w f t n d a ls t' n' x Et Hne H. unfold ds_at, child in *.
  destruct (lookup_link w f t' n') as [[o| |]|] eqn:El; try discriminate.
  erewrite put_ds_lookup_other; eauto using lookup_obj. rewrite El.
  destruct (obj_at w f o) as [[|y]|] eqn:Eo; try discriminate.
  erewrite put_ds_dataset_kept; eauto.
Qed.

Lemma child_put_kept : forall w f t n d a ls t' n' o,
  obj_at w f t = Some (Group a ls) -> (t' <> t \/ n' <> n) ->
  child w f t' n' = Some o -> child (put_ds w f t n d) f t' n' = Some o.
Proof.
  intros w f t n d a ls t' n' o Et Hne H. unfold child in *.
  destruct (lookup_link w f t' n') as [[o'| |]|] eqn:El; try discriminate.
  erewrite put_ds_lookup_other; eauto using lookup_obj. now rewrite El.
Qed.

Lemma put_ds_group_kept : forall w f t n d a ls t',
  obj_at w f t = Some (Group a ls) -> (exists a' ls', obj_at w f t' = Some (Group a' ls')) ->
  exists a' ls', obj_at (put_ds w f t n d) f t' = Some (Group a' ls').
Proof.
  intros w f t n d a ls t' Et (a' & ls' & E').
  destruct (Nat.eq_dec t' t) as [->|N].
  - unfold obj_at in Et. destruct (get_store w f) as [st|] eqn:Es; try discriminate.
    destruct (put_ds_obj_self w f t n d a ls st Es Et) as [H1 _]. eauto.
  - erewrite put_ds_obj_other; eauto.
Qed.

Lemma shape_chromnames : forall w f g tc tb names, shape w f g tc tb names -> chromnames w f g = names.
Proof. intros w f g tc tb names H. unfold chromnames. now rewrite (sh_chroms _ _ _ _ _ _ H), (sh_names _ _ _ _ _ _ H). Qed.

Lemma shape_put_name : forall w f g tc tb names new,
  shape w f g tc tb names -> shape (put_ds w f tc "name"%string (PStrs new)) f g tc tb new.
Proof.
  intros w f g tc tb names new H. destruct H.
  destruct sh_tc0 as (a & ls & Etc).
  constructor; auto.
  - eapply child_put_kept; eauto.
  - eapply child_put_kept; eauto.
  - eapply put_ds_group_kept; eauto.
  - eapply put_ds_group_kept; eauto.
  - eapply put_ds_read; eauto.
  - destruct sh_codes0 as (d & Ed & Hd). exists d. split; auto. eapply ds_at_put_kept; eauto.
Qed.

Lemma shape_put_chrom : forall w f g tc tb names d,
  shape w f g tc tb names -> (forall l, d <> PStrs l) ->
  shape (put_ds w f tb "chrom"%string d) f g tc tb names.
Proof.
  intros w f g tc tb names d H Hd. destruct H.
  destruct sh_tb0 as (a & ls & Etb).
  constructor; auto.
  - eapply child_put_kept; eauto.
  - eapply child_put_kept; eauto.
  - eapply put_ds_group_kept; eauto.
  - eapply put_ds_group_kept; eauto.
  - eapply ds_at_put_kept; eauto.
  - exists d. split; auto. eapply put_ds_read; eauto.
Qed.

(** what _rename_chroms does, step by step *)
Lemma rename_unfold : forall w f g tc tb names m w',
  shape w f g tc tb names -> rename_chroms w f g m = Some w' ->
  let new := map (subst m) names in
  let w1 := put_ds w f tc "name"%string (PStrs new) in
  (exists hdr codes, ds_at w f tb "chrom"%string = Some (PEnum hdr codes) /\
                     w' = put_ds w1 f tb "chrom"%string (PEnum new codes)) \/
  ((forall hdr codes, ds_at w f tb "chrom"%string <> Some (PEnum hdr codes)) /\ w' = w1).
Proof.
  intros w f g tc tb names m w' H R new w1. unfold rename_chroms in R.
  rewrite (sh_chroms _ _ _ _ _ _ H), (sh_bins _ _ _ _ _ _ H), (sh_names _ _ _ _ _ _ H) in R.
  fold new in R. fold w1 in R.
  destruct (sh_codes _ _ _ _ _ _ H) as (d & Ed & Hd).
  destruct (sh_tc _ _ _ _ _ _ H) as (a & ls & Etc).
  assert (ds_at w1 f tb "chrom"%string = Some d) as E1.
  { eapply ds_at_put_kept; eauto. left. apply not_eq_sym. exact (sh_ne3 _ _ _ _ _ _ H). }
  rewrite E1 in R. rewrite Ed.
  destruct d; inversion R; subst.
  - right. split; auto. intros; discriminate.
  - exfalso. eapply Hd; eauto.
  - left. eauto.
Qed.

(** C18 central theorem: names are substituted in the original order and the collection keeps its shape *)
Theorem rename_names : forall w f g tc tb names m w',
  shape w f g tc tb names -> rename_chroms w f g m = Some w' ->
  shape w' f g tc tb (map (subst m) names) /\ chromnames w' f g = map (subst m) (chromnames w f g).
Proof.
  intros w f g tc tb names m w' H R.
  assert (shape w' f g tc tb (map (subst m) names)) as H'.
  { destruct (rename_unfold _ _ _ _ _ _ _ _ H R) as [(hdr & codes & _ & ->)|[_ ->]].
    - apply shape_put_chrom; [apply shape_put_name with (names := names); auto|intros; discriminate].
    - apply shape_put_name with (names := names); auto. }
  split; auto. rewrite (shape_chromnames _ _ _ _ _ _ H'), (shape_chromnames _ _ _ _ _ _ H). auto.
Qed.

(** frame: every column that could be read, other than chroms/name and bins/chrom, is the same dataset
    with the same payload afterwards (lengths, starts, ends, extra columns, pixels, indexes) *)
Theorem rename_frame : forall w f g tc tb names m w' t col x,
  shape w f g tc tb names -> rename_chroms w f g m = Some w' ->
  ~ (t = tc /\ col = "name"%string) -> ~ (t = tb /\ col = "chrom"%string) ->
  ds_at w f t col = Some x -> ds_at w' f t col = Some x.
Proof.
  intros w f g tc tb names m w' t col x H R N1 N2 Hx.
  destruct (sh_tc _ _ _ _ _ _ H) as (a & ls & Etc).
  assert (t <> tc \/ col <> "name"%string) as D1.
  { destruct (Nat.eq_dec t tc); [right; intro; apply N1; auto|left; auto]. }
  assert (t <> tb \/ col <> "chrom"%string) as D2.
  { destruct (Nat.eq_dec t tb); [right; intro; apply N2; auto|left; auto]. }
  pose proof (ds_at_put_kept w f tc "name"%string (PStrs (map (subst m) names)) a ls t col x Etc D1 Hx) as K1.
  destruct (rename_unfold _ _ _ _ _ _ _ _ H R) as [(hdr & codes & _ & ->)|[_ ->]]; auto.
  destruct (sh_tb _ _ _ _ _ _ (shape_put_name _ _ _ _ _ _ (map (subst m) names) H)) as (a2 & ls2 & Etb).
  eapply ds_at_put_kept; eauto.
Qed.

(** the tables of the collection are the same objects as before *)
Theorem rename_tables_kept : forall w f g tc tb names m w' tbl o,
  shape w f g tc tb names -> rename_chroms w f g m = Some w' ->
  child w f g tbl = Some o -> child w' f g tbl = Some o.
Proof.
  intros w f g tc tb names m w' tbl o H R Hc.
  destruct (sh_tc _ _ _ _ _ _ H) as (a & ls & Etc).
  assert (child (put_ds w f tc "name"%string (PStrs (map (subst m) names))) f g tbl = Some o) as K1.
  { eapply child_put_kept; eauto. left. apply not_eq_sym. exact (sh_ne1 _ _ _ _ _ _ H). }
  destruct (rename_unfold _ _ _ _ _ _ _ _ H R) as [(hdr & codes & _ & ->)|[_ ->]]; auto.
  destruct (sh_tb _ _ _ _ _ _ (shape_put_name _ _ _ _ _ _ (map (subst m) names) H)) as (a2 & ls2 & Etb).
  eapply child_put_kept; eauto. left. apply not_eq_sym. exact (sh_ne2 _ _ _ _ _ _ H).
Qed.

Corollary rename_column_kept : forall w f g tc tb names m w' tbl col x,
  shape w f g tc tb names -> rename_chroms w f g m = Some w' ->
  (tbl, col) <> ("chroms"%string, "name"%string) -> (tbl, col) <> ("bins"%string, "chrom"%string) ->
  (forall t, child w f g tbl = Some t -> (t = tc -> tbl = "chroms"%string) /\ (t = tb -> tbl = "bins"%string)) ->
  column w f g tbl col = Some x -> column w' f g tbl col = Some x.
Proof.
  intros w f g tc tb names m w' tbl col x H R N1 N2 Hinj Hx. unfold column in *.
  destruct (child w f g tbl) as [t|] eqn:Ec; try discriminate.
  rewrite (rename_tables_kept _ _ _ _ _ _ _ _ _ _ H R Ec).
  destruct (Hinj t eq_refl) as [I1 I2].
  eapply rename_frame; eauto.
  - intros [-> ->]. apply N1. now rewrite I1.
  - intros [-> ->]. apply N2. now rewrite I2.
Qed.

(** bin codes are kept, the enum header becomes the new names *)
Theorem rename_codes : forall w f g tc tb names m w',
  shape w f g tc tb names -> rename_chroms w f g m = Some w' ->
  bin_codes w' f g = bin_codes w f g /\
  (forall hdr codes, ds_at w f tb "chrom"%string = Some (PEnum hdr codes) ->
                     ds_at w' f tb "chrom"%string = Some (PEnum (map (subst m) names) codes)) /\
  (forall codes, ds_at w f tb "chrom"%string = Some (PInts codes) ->
                 ds_at w' f tb "chrom"%string = Some (PInts codes)).
Proof.
  intros w f g tc tb names m w' H R.
  destruct (rename_names _ _ _ _ _ _ _ _ H R) as [H' _].
  unfold bin_codes. rewrite (sh_bins _ _ _ _ _ _ H), (sh_bins _ _ _ _ _ _ H').
  destruct (sh_tc _ _ _ _ _ _ H) as (a & ls & Etc).
  destruct (rename_unfold _ _ _ _ _ _ _ _ H R) as [(hdr & codes & Ed & ->)|[Hno ->]].
  - destruct (sh_tb _ _ _ _ _ _ (shape_put_name _ _ _ _ _ _ (map (subst m) names) H)) as (a2 & ls2 & Etb).
    rewrite (put_ds_read _ _ _ _ _ _ _ Etb). rewrite Ed. simpl. split; auto. split.
    + intros hdr' codes' E'. congruence.
    + intros codes' E'. congruence.
  - assert (forall d, ds_at w f tb "chrom"%string = Some d ->
                      ds_at (put_ds w f tc "name"%string (PStrs (map (subst m) names))) f tb "chrom"%string = Some d) as K.
    { intros d Ed. eapply ds_at_put_kept; eauto. left. apply not_eq_sym. exact (sh_ne3 _ _ _ _ _ _ H). }
    destruct (sh_codes _ _ _ _ _ _ H) as (d & Ed & _). rewrite (K _ Ed), Ed. split; auto. split.
    + intros hdr codes E'. exfalso. injection E' as ->. eapply Hno; eauto.
    + intros codes E'. auto.
Qed.

(* ------------------------------------------------------------------ lookups by name *)
Lemma chromid_from_none : forall names i x, ~ In x names -> chromid_from names i x = None.
Proof.
  induction names as [|n r IH]; simpl; intros i x Hn; auto.
  rewrite IH by tauto. destruct (S.eqb n x) eqn:E; auto. apply S.eqb_eq in E. tauto.
Qed.

Lemma chromid_from_some : forall names i x, In x names -> chromid_from names i x <> None.
Proof.
  induction names as [|n r IH]; simpl; intros i x Hin; [tauto|].
  destruct (chromid_from r (i + 1) x) eqn:E; [discriminate|].
  destruct Hin as [->|Hin]; [rewrite S.eqb_refl; discriminate|].
  exfalso. eapply IH; eauto.
Qed.

(** dict(zip(new_names, range(n)))[s x] = dict(zip(names, range(n)))[x] when the new names are distinct *)
Lemma chromid_from_subst : forall (s : string -> string) names i x,
  NoDup (map s names) -> In x names ->
  chromid_from (map s names) i (s x) = chromid_from names i x.
Proof.
  induction names as [|n r IH]; simpl; intros i x Hnd Hin; [tauto|].
  inversion Hnd as [|? ? Hnot Hnd']; subst.
  destruct (in_dec S.string_dec x r) as [Hr|Hr].
  - rewrite IH by auto. destruct (chromid_from r (i + 1) x) eqn:E; auto.
    exfalso. eapply chromid_from_some; eauto.
  - destruct Hin as [->|Hin]; [|tauto].
    rewrite (chromid_from_none r (i + 1) x Hr).
    rewrite chromid_from_none by exact Hnot.
    now rewrite !S.eqb_refl.
Qed.

Theorem rename_chromid : forall m names x,
  NoDup (map (subst m) names) -> In x names ->
  chromid (map (subst m) names) (subst m x) = chromid names x.
Proof. intros. unfold chromid. now apply chromid_from_subst. Qed.

(** Cooler.extent by the new name = extent by the old name before *)
Theorem rename_extent : forall w f g tc tb names m w' x,
  shape w f g tc tb names -> rename_chroms w f g m = Some w' ->
  NoDup (map (subst m) names) -> In x names ->
  (forall ti, child w f g "indexes"%string = Some ti -> ti <> tc /\ ti <> tb) ->
  (forall ti, child w f g "indexes"%string = Some ti -> exists d, ds_at w f ti "chrom_offset"%string = Some d) ->
  extent w' f g (subst m x) = extent w f g x.
Proof.
  intros w f g tc tb names m w' x H R Hnd Hin Hti Hoff.
  destruct (rename_names _ _ _ _ _ _ _ _ H R) as [H' Hn].
  unfold extent. rewrite Hn, (shape_chromnames _ _ _ _ _ _ H).
  rewrite rename_chromid by auto.
  destruct (chromid names x); auto.
  destruct (child w f g "indexes"%string) as [ti|] eqn:Ei.
  - rewrite (rename_tables_kept _ _ _ _ _ _ _ _ _ _ H R Ei).
    destruct (Hoff ti eq_refl) as (d & Ed). destruct (Hti ti eq_refl) as [N1 N2].
    rewrite (rename_frame _ _ _ _ _ _ _ _ ti "chrom_offset"%string d H R) by (auto; intros [? ?]; congruence).
    now rewrite Ed.
  - (* no indexes table before: none afterwards either (links of g are untouched) *)
    destruct (child w' f g "indexes"%string) as [ti'|] eqn:Ei'; auto.
    exfalso. clear Hti Hoff.
    destruct (sh_tc _ _ _ _ _ _ H) as (a & ls & Etc).
    unfold child in Ei, Ei'.
    assert (lookup_link w' f g "indexes"%string = lookup_link w f g "indexes"%string) as K.
    { destruct (child_obj _ _ _ _ _ (sh_chroms _ _ _ _ _ _ H)) as (xg & Exg).
      destruct (rename_unfold _ _ _ _ _ _ _ _ H R) as [(hdr & codes & _ & ->)|[_ ->]].
      - destruct (sh_tb _ _ _ _ _ _ (shape_put_name _ _ _ _ _ _ (map (subst m) names) H)) as (a2 & ls2 & Etb).
        erewrite put_ds_lookup_other; eauto.
        + erewrite put_ds_lookup_other; eauto. left. apply not_eq_sym. exact (sh_ne1 _ _ _ _ _ _ H).
        + left. apply not_eq_sym. exact (sh_ne2 _ _ _ _ _ _ H).
        + destruct (child_obj _ _ _ _ _ (sh_chroms _ _ _ _ _ _ (shape_put_name _ _ _ _ _ _ (map (subst m) names) H))); eauto.
      - erewrite put_ds_lookup_other; eauto. left. apply not_eq_sym. exact (sh_ne1 _ _ _ _ _ _ H). }
    rewrite K in Ei'. destruct (lookup_link w f g "indexes"%string) as [[?| |]|]; discriminate.
Qed.

(** bin labels (api.bins()["chrom"]): substituted, for both encodings, when the stored codes are valid
    and (enum encoding) the header listed the names *)
Lemma nth_name_map : forall s names c, 0 <= c < Z.of_nat (List.length names) ->
  nth_name (map s names) c = s (nth_name names c).
Proof.
  intros s names c Hc. unfold nth_name.
  rewrite nth_indep with (d' := s ""%string) by (rewrite map_length; lia).
  apply map_nth.
Qed.

Theorem rename_labels : forall w f g tc tb names m w',
  shape w f g tc tb names -> rename_chroms w f g m = Some w' ->
  Forall (fun c => 0 <= c < Z.of_nat (List.length names)) (bin_codes w f g) ->
  (forall hdr codes, ds_at w f tb "chrom"%string = Some (PEnum hdr codes) -> hdr = names) ->
  bin_labels w' f g = map (subst m) (bin_labels w f g).
Proof.
  intros w f g tc tb names m w' H R Hrange Hhdr.
  destruct (rename_names _ _ _ _ _ _ _ _ H R) as [H' Hn].
  destruct (rename_codes _ _ _ _ _ _ _ _ H R) as (_ & Kenum & Kint).
  unfold bin_labels. unfold bin_codes in Hrange.
  rewrite (sh_bins _ _ _ _ _ _ H) in *. rewrite (sh_bins _ _ _ _ _ _ H').
  destruct (sh_codes _ _ _ _ _ _ H) as (d & Ed & Hd). rewrite Ed in *.
  destruct d as [codes|l|hdr codes].
  - rewrite (Kint _ eq_refl). rewrite Hn, (shape_chromnames _ _ _ _ _ _ H). simpl in Hrange.
    rewrite map_map. apply map_ext_in. intros c Hc. rewrite Forall_forall in Hrange.
    apply nth_name_map; auto.
  - exfalso. eapply Hd; eauto.
  - rewrite (Kenum _ _ eq_refl). rewrite (Hhdr _ _ eq_refl). simpl in Hrange.
    rewrite map_map. apply map_ext_in. intros c Hc. rewrite Forall_forall in Hrange.
    apply nth_name_map; auto.
Qed.

(** chains of renamings compose: the names are substituted map after map *)
Theorem rename_chain_names : forall ms w f g tc tb names w',
  shape w f g tc tb names -> rename_chain w f g ms = Some w' ->
  let final := fold_left (fun ns m => map (subst m) ns) ms names in
  shape w' f g tc tb final /\ chromnames w' f g = final.
Proof.
  induction ms as [|m r IH]; simpl; intros w f g tc tb names w' H R.
  - inversion R; subst. split; auto. eapply shape_chromnames; eauto.
  - destruct (rename_chroms w f g m) as [w1|] eqn:E1; try discriminate.
    destruct (rename_names _ _ _ _ _ _ _ _ H E1) as [H1 _].
    eapply IH; eauto.
Qed.

Corollary rename_twice : forall w f g tc tb names m1 m2 w1 w2,
  shape w f g tc tb names -> rename_chroms w f g m1 = Some w1 -> rename_chroms w1 f g m2 = Some w2 ->
  chromnames w2 f g = map (fun x => subst m2 (subst m1 x)) names.
Proof.
  intros w f g tc tb names m1 m2 w1 w2 H R1 R2.
  destruct (rename_chain_names [m1; m2] w f g tc tb names w2 H) as [_ K].
  - simpl. now rewrite R1, R2.
  - rewrite K. simpl. apply map_map.
Qed.

(* ------------------------------------------------------------------ witnesses *)
Definition spec18 : cspec :=
  mkSpec [("chroms"%string, Table [("name"%string, Fresh (PStrs ["chr1"; "chr2"; "chrX"]%string));
                                   ("length"%string, Fresh (PInts [25; 20; 7]))]);
          ("bins"%string, Table [("chrom"%string, Fresh (PEnum ["chr1"; "chr2"; "chrX"]%string [0; 0; 0; 1; 1; 2]));
                                 ("start"%string, Fresh (PInts [0; 10; 20; 0; 10; 0]));
                                 ("end"%string, Fresh (PInts [10; 20; 25; 10; 20; 7]))]);
          ("pixels"%string, Table [("bin1_id"%string, Fresh (PInts [0; 1])); ("bin2_id"%string, Fresh (PInts [4; 2]));
                                   ("count"%string, Fresh (PInts [1; 5]))]);
          ("indexes"%string, Table [("chrom_offset"%string, Fresh (PInts [0; 3; 5; 6]));
                                    ("bin1_offset"%string, Fresh (PInts [0; 1; 2; 2; 2; 2; 2]))])]
         [("format"%string, AStr MAGIC)].
Definition w18 : world := snd (create world0 FA [] false spec18).
Definition swap12 : list (string * string) := [("chr1", "chr2"); ("chr2", "chr1")]%string.

Lemma ex_shape18 : shape w18 FA 0 1 4 ["chr1"; "chr2"; "chrX"]%string.
Proof.
  constructor; try (vm_compute; reflexivity); try (vm_compute; discriminate).
  - vm_compute. eauto.
  - vm_compute. eauto.
  - eexists. split; [vm_compute; reflexivity|]. intros; discriminate.
Qed.

(** a swap is a simultaneous substitution; looking up the new name gives the old extent *)
Lemma ex_swap18 :
  match rename_chroms w18 FA 0 swap12 with
  | Some w' => chromnames w' FA 0 = ["chr2"; "chr1"; "chrX"]%string /\
               bin_labels w' FA 0 = ["chr2"; "chr2"; "chr2"; "chr1"; "chr1"; "chrX"]%string /\
               extent w' FA 0 "chr2"%string = Some (0, 3) /\ extent w18 FA 0 "chr1"%string = Some (0, 3) /\
               column w' FA 0 "pixels"%string "count"%string = Some (PInts [1; 5])
  | None => False
  end.
Proof. vm_compute. repeat split; reflexivity. Qed.

(** outside the claimed domain: a map that produces a duplicate name makes the lookup by name ambiguous *)
Lemma rename_duplicate_refuted :
  match rename_chroms w18 FA 0 [("chr1", "chr2")]%string with
  | Some w' => chromnames w' FA 0 = ["chr2"; "chr2"; "chrX"]%string /\
               extent w' FA 0 "chr2"%string = Some (3, 5) /\ extent w18 FA 0 "chr1"%string = Some (0, 3)
  | None => False
  end.
Proof. vm_compute. repeat split; reflexivity. Qed.

(* ------------------------------------------------------------------ queries by the new name *)
(** a matrix / bins query addressed by the NEW name on the renamed collection returns what the query by the
    OLD name returned on the original: same extent (rename_extent) over untouched columns (rename_frame) *)
Theorem rename_fetch : forall w f g tc tb names m w' x,
  shape w f g tc tb names -> rename_chroms w f g m = Some w' ->
  NoDup (map (subst m) names) -> In x names ->
  (forall ti, child w f g "indexes"%string = Some ti -> ti <> tc /\ ti <> tb) ->
  (forall ti, child w f g "indexes"%string = Some ti -> exists d, ds_at w f ti "chrom_offset"%string = Some d) ->
  (forall tp, child w f g "pixels"%string = Some tp -> tp <> tc /\ tp <> tb) ->
  (forall col, In col ["bin1_id"; "bin2_id"; "count"]%string -> exists d, column w f g "pixels"%string col = Some d) ->
  (forall col, In col ["start"; "end"]%string -> exists d, column w f g "bins"%string col = Some d) ->
  fetch_pixels w' f g (subst m x) = fetch_pixels w f g x /\
  fetch_bin_coords w' f g (subst m x) = fetch_bin_coords w f g x.
Proof.
  intros w f g tc tb names m w' x H R Hnd Hin Hti Hoff Htp Hpx Hbn.
  assert (forall col, In col ["bin1_id"; "bin2_id"; "count"]%string ->
            column w' f g "pixels"%string col = column w f g "pixels"%string col) as Kp.
  { intros col Hc. destruct (Hpx col Hc) as (d & Ed). rewrite Ed.
    apply (rename_column_kept w f g tc tb names m w' "pixels"%string col d H R).
    - intro E; inversion E.
    - intro E; inversion E.
    - intros t Ht. destruct (Htp t Ht). split; intro; congruence.
    - exact Ed. }
  assert (forall col, In col ["start"; "end"]%string ->
            column w' f g "bins"%string col = column w f g "bins"%string col) as Kb.
  { intros col Hc. destruct (Hbn col Hc) as (d & Ed). rewrite Ed.
    apply (rename_column_kept w f g tc tb names m w' "bins"%string col d H R).
    - intro E; inversion E.
    - intro E. injection E as E. subst col. simpl in Hc. destruct Hc as [E|[E|[]]]; discriminate.
    - intros t Ht. rewrite (sh_bins _ _ _ _ _ _ H) in Ht. injection Ht as <-. split; auto.
      intro E. exfalso. exact (sh_ne3 _ _ _ _ _ _ H (eq_sym E)).
    - exact Ed. }
  unfold fetch_pixels, fetch_bin_coords.
  rewrite (rename_extent _ _ _ _ _ _ _ _ _ H R Hnd Hin Hti Hoff).
  rewrite !Kp by (simpl; auto). rewrite !Kb by (simpl; auto). auto.
Qed.

Lemma ex_fetch18 :
  match rename_chroms w18 FA 0 swap12 with
  | Some w' => fetch_pixels w' FA 0 "chr2"%string = Some [(1, 2, 5)] /\ fetch_pixels w18 FA 0 "chr1"%string = Some [(1, 2, 5)] /\
               fetch_bin_coords w' FA 0 "chr2"%string = Some [(0, 10); (10, 20); (20, 25)]
  | None => False
  end.
Proof. vm_compute. repeat split; reflexivity. Qed.
