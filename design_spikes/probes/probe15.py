import warnings; warnings.filterwarnings("ignore")
import patch_gb
import numpy as np, pandas as pd, cooler, itertools, collections, os
rng=np.random.default_rng(21)
bad=0;tot=0
for t in range(60):
    nchr=int(rng.integers(1,3)); cs=pd.Series({f"c{k}":int(rng.integers(10,50)) for k in range(nchr)})
    bins=cooler.binnify(cs,10); n=len(bins); k=int(rng.integers(1,5)); symm=bool(t%2)
    exp=collections.Counter(); uris=[]
    for q in range(k):
        dens=[0,0.2,0.6,1.0][int(rng.integers(0,4))]
        M=(rng.random((n,n))<dens)*rng.integers(1,9,(n,n)); 
        if symm: M=np.triu(M)
        i,j=np.nonzero(M); 
        for a,b in zip(i,j): exp[(int(a),int(b))]+=int(M[a,b])
        cooler.create_cooler(f"m{q}.cool",bins,pd.DataFrame({"bin1_id":i,"bin2_id":j,"count":M[i,j]}),symmetric_upper=symm); uris.append(f"m{q}.cool")
    for buf in (1,2,5,10**6):
        tot+=1
        try: cooler.merge_coolers("out.cool",uris,mergebuf=buf)
        except Exception as e:
            nnzs=[cooler.Cooler(u).info["nnz"] for u in uris]; offs=[cooler.Cooler(u)._load_dset("indexes/bin1_offset").tolist() for u in uris]
            bad+=1; print("MERGE EXC",type(e).__name__,str(e)[:40],"k",k,"buf",buf,"nnz",nnzs,"offs",offs[:2]); continue
        p=cooler.Cooler("out.cool").pixels()[:]
        got=[(int(a),int(b),int(c)) for a,b,c in p.values]
        if got!=sorted((a,b,c) for (a,b),c in exp.items()) or cooler.Cooler("out.cool").info["sum"]!=sum(exp.values()):
            bad+=1; print("MERGE MISMATCH",k,buf,symm)
print("merge tot",tot,"bad",bad)
# unordered
bad=0;tot=0
for t in range(40):
    cs=pd.Series({"a":30,"b":20}); bins=cooler.binnify(cs,10); n=5
    recs=[(int(a),int(b)) for a,b in zip(rng.integers(0,n,rng.integers(0,25)),rng.integers(0,n,25)) if a<=b]
    nch=int(rng.integers(1,7)); parts=[[] for _ in range(nch)]
    for r in recs: parts[int(rng.integers(0,nch))].append(r)
    def chunks():
        for p in parts:
            cnt=collections.Counter(p); ks=sorted(cnt)
            yield pd.DataFrame({"bin1_id":[a for a,b in ks],"bin2_id":[b for a,b in ks],"count":[cnt[x] for x in ks]},dtype=int)
    for buf,mm in ((1,200),(3,200),(100,200),(2,2),(1,1)):
        tot+=1
        try:
            cooler.create_cooler("u.cool",bins,chunks(),ordered=False,mergebuf=buf,max_merge=mm)
        except Exception as e:
            print("UNORD EXC",type(e).__name__,nch,buf,mm); bad+=1; continue
        p=cooler.Cooler("u.cool").pixels()[:]; cnt=collections.Counter(recs)
        if [(int(a),int(b),int(c)) for a,b,c in p.values]!=sorted((a,b,c) for (a,b),c in cnt.items()): bad+=1; print("UNORD MISMATCH",nch,buf,mm)
print("unordered tot",tot,"bad",bad)
