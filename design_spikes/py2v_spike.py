"""Spike: fail-closed translation of a tiny Python subset to Gallina (Z/bool/option/tuples)."""
import ast, sys, textwrap
class Unsupported(Exception): pass
def expr(e, env):
    if isinstance(e, ast.Constant):
        if e.value is True: return "true"
        if e.value is False: return "false"
        if e.value is None: return "None"
        if isinstance(e.value,int): return f"({e.value})%Z" if e.value<0 else f"{e.value}%Z"
        raise Unsupported(ast.dump(e))
    if isinstance(e, ast.Name):
        return env.get(e.id, e.id)
    if isinstance(e, ast.Tuple): return "("+", ".join(expr(x,env) for x in e.elts)+")"
    if isinstance(e, ast.List): return "["+"; ".join(expr(x,env) for x in e.elts)+"]"
    if isinstance(e, ast.BinOp):
        op={ast.Add:"+",ast.Sub:"-",ast.Mult:"*",ast.FloorDiv:"/",ast.Mod:"mod"}.get(type(e.op))
        if not op: raise Unsupported(ast.dump(e))
        return f"({expr(e.left,env)} {op} {expr(e.right,env)})"
    if isinstance(e, ast.UnaryOp) and isinstance(e.op, ast.Not): return f"(negb {expr(e.operand,env)})"
    if isinstance(e, ast.BoolOp):
        op="&&" if isinstance(e.op,ast.And) else "||"
        return "("+f" {op} ".join(expr(v,env) for v in e.values)+")"
    if isinstance(e, ast.Compare):
        parts=[]; left=e.left
        for op,right in zip(e.ops,e.comparators):
            sym={ast.Lt:"<?",ast.LtE:"<=?",ast.Eq:"=?"}.get(type(op))
            l,r=expr(left,env),expr(right,env)
            if sym: parts.append(f"({l} {sym} {r})")
            elif isinstance(op,ast.Gt): parts.append(f"({r} <? {l})")
            elif isinstance(op,ast.GtE): parts.append(f"({r} <=? {l})")
            elif isinstance(op,ast.NotEq): parts.append(f"(negb ({l} =? {r}))")
            else: raise Unsupported(ast.dump(op))
            left=right
        return "("+" && ".join(parts)+")" if len(parts)>1 else parts[0]
    if isinstance(e, ast.IfExp): return f"(if {expr(e.test,env)} then {expr(e.body,env)} else {expr(e.orelse,env)})"
    if isinstance(e, ast.Call) and isinstance(e.func, ast.Name) and e.func.id in ("_comes_before","_contains"):
        args=[expr(a,env) for a in e.args]; kw={k.arg:expr(k.value,env) for k in e.keywords}
        args.append(kw.get("strict","false"))
        return f"({e.func.id.lstrip('_')} "+" ".join(args)+")"
    raise Unsupported(ast.dump(e))
def assigned(stmts):
    out=[]
    for s in stmts:
        if isinstance(s, ast.Assign):
            for t in s.targets:
                for n in ([t] if isinstance(t,ast.Name) else t.elts if isinstance(t,ast.Tuple) else []):
                    if isinstance(n,ast.Name) and n.id not in out: out.append(n.id)
        elif isinstance(s, ast.If): 
            for v in assigned(s.body)+assigned(s.orelse):
                if v not in out: out.append(v)
    return out
def returns(stmts): return any(isinstance(s,(ast.Return,ast.Raise)) or (isinstance(s,ast.If) and (returns(s.body) or returns(s.orelse))) for s in stmts)
def block(stmts, env, k):
    """translate statement list; k = continuation producing final expr text given env (for fallthrough)."""
    if not stmts: return k(env)
    s,rest=stmts[0],stmts[1:]
    if isinstance(s, ast.Expr) and isinstance(s.value, ast.Constant): return block(rest,env,k)  # docstring
    if isinstance(s, ast.Return): return "Some "+expr(s.value,env)
    if isinstance(s, ast.Raise): return "None"
    if isinstance(s, ast.Assign) and len(s.targets)==1:
        t=s.targets[0]
        if isinstance(t, ast.Name): return f"let {t.id} := {expr(s.value,env)} in\n"+block(rest,env,k)
        if isinstance(t, ast.Tuple) and all(isinstance(n,ast.Name) for n in t.elts):
            return f"let '({', '.join(n.id for n in t.elts)}) := {expr(s.value,env)} in\n"+block(rest,env,k)
        raise Unsupported(ast.dump(t))
    if isinstance(s, ast.If):
        if returns(s.body) or returns(s.orelse):
            # branches may return: duplicate the rest into fallthrough branches
            return f"if {expr(s.test,env)} then ({block(s.body+rest,env,k)}) else ({block(s.orelse+rest,env,k)})"
        vs=assigned([s])
        tup="("+", ".join(vs)+")"
        b1=block(s.body,env,lambda e:tup); b2=block(s.orelse,env,lambda e:tup)
        return f"let '{tup} := if {expr(s.test,env)} then ({b1}) else ({b2}) in\n"+block(rest,env,k)
    raise Unsupported(ast.dump(s)[:80])
src=open("/repo/src/cooler/core/_rangequery.py").read(); tree=ast.parse(src)
fns={n.name:n for n in ast.walk(tree) if isinstance(n,ast.FunctionDef)}
for name in ("_comes_before","_contains"):
    f=fns[name]; args=[a.arg for a in f.args.args]
    body=block(f.body,{},lambda e:"None")
    print(f"Definition {name.lstrip('_')} ({' '.join(args[:-1])} : Z) ({args[-1]} : bool) : option bool :=\n{textwrap.indent(body,'  ')}.\n")
