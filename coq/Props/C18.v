(** C18  Renaming chromosomes changes names only.   (statements follow; see Proofs/RenameProofs.v) *)
From Cooler Require Import Model.Rename.
