#!/usr/bin/env python3
"""Compose /verif/seeded/<id>/meta.json from the seeding agent's meta and the lead's verification outputs."""
import json, os, sys
sid = sys.argv[1]
d = f"/verif/seeded/{sid}"
def rd(n):
    p = os.path.join(d, n)
    return open(p).read().strip() if os.path.exists(p) else ""
am = {}
try:
    am = json.load(open(os.path.join(d, "agent_meta.json")))
except Exception:
    pass
chk = rd("check_output.txt")
meta = {
    "id": sid,
    "property": am.get("property", sid.split("-")[0]),
    "summary": am.get("summary", ""),
    "files": am.get("files", []),
    "needs_to_manifest": am.get("needs_to_manifest", ""),
    "why_tests_pass": am.get("why_tests_pass", ""),
    "origin": "written by an independent sub-agent given only the property text and its own scratch worktree of /repo (nothing from /verif)",
    "verified_by_lead": {
        "demo_with_change": rd("demo_with_change.txt").splitlines()[:3],
        "demo_without_change": rd("demo_without_change.txt").splitlines()[:3],
        "suite_with_change": rd("suite_with_change.txt"),
        "commands": ["tools/seedverify.sh (demo with PYTHONPATH=<worktree>/src, demo with PYTHONPATH=/repo/src, pytest in the worktree, VERIF_REPO=<worktree> ./check <property>)"],
    },
    "check_result": {"output": chk.splitlines(), "caught": "VIOLATION" in chk, "with_failing_input": ("VIOLATION" in chk and "no-failing-input-found" not in chk)},
}
if len(sys.argv) > 2:
    meta["notes"] = sys.argv[2]
json.dump(meta, open(os.path.join(d, "meta.json"), "w"), indent=1)
print(sid, "caught" if meta["check_result"]["caught"] else "MISSED", "| demo with:", meta["verified_by_lead"]["demo_with_change"][:1], "| without:", meta["verified_by_lead"]["demo_without_change"][:1], "|", meta["verified_by_lead"]["suite_with_change"])
