"""Shared helpers of the C01 / C13 harnesses (builder B2): bin tables, chunk construction,
guarded calls into the implementation, Coq literals for rows."""
from __future__ import annotations

import signal

import numpy as np
import pandas as pd

import coqio as C
from gen_bins import blocks_from_widths, names_for, table_from_blocks

SCALE = 8  # float columns hold multiples of 1/8; the model sees value*8


class Timeout(Exception):
    pass


def _alarm(signum, frame):
    raise Timeout()


def guarded(fn, seconds=30):
    """run fn() under a wall-clock limit; returns ("ok", value) | (ExceptionClassName, message) | ("timeout", "")"""
    old = signal.signal(signal.SIGALRM, _alarm)
    signal.alarm(seconds)
    try:
        return "ok", fn()
    except Timeout:
        return "timeout", ""
    except Exception as e:  # noqa: BLE001 - the class name is the observable
        return type(e).__name__, str(e)
    finally:
        signal.alarm(0)
        signal.signal(signal.SIGALRM, old)


# bin-table families, by number of bins n (widths per chromosome)
BIN_TABLES = {
    1: [[[5]], [[1]]],
    2: [[[5, 3]], [[4], [9]], [[2, 7]]],
    3: [[[5, 5, 2]], [[3], [3], [1]], [[4, 4], [3]], [[1, 6, 2]]],
    4: [[[3, 3, 3, 1]], [[5, 2], [5, 5]], [[2], [7, 1, 3]], [[6], [6], [6], [2]]],
    5: [[[4, 4, 1], [4, 2]], [[1, 2, 3, 4, 5]], [[10], [3, 3, 3, 3]], [[2, 2], [2], [2, 1]]],
    6: [[[5, 5, 5, 5, 5, 1]], [[3, 3, 1], [3, 3, 2]], [[7], [1, 9, 2], [4, 4]]],
    7: [[[2, 2, 2, 1], [2, 2, 2]], [[9, 1, 1, 3, 8, 2, 2]], [[4, 4, 3], [4], [4, 4, 1]]],
}


# larger tables (the dtype of the input id columns matters once bin1 * nbins leaves the range of a narrow integer type)
BIG_TABLES = {
    12: [[5, 5, 5, 5, 2], [7, 7, 7, 1], [3, 9, 4]],
    13: [[4] * 9 + [1], [6, 6, 2]],
    16: [[10] * 8, [10] * 5 + [3], [10, 10, 4]],
    20: [[3] * 11 + [2], [8], [5, 1, 5, 1, 5, 1, 5, 2]],
    300: [[10] * 149 + [3], [10] * 100, [7] * 49 + [2]],
}
ID_DTYPES = ["int8", "uint8", "int16", "uint16", "int32", "uint32", "int64"]


def id_dtype_holds(name, n):
    return n - 1 <= int(np.iinfo(np_dtype(name)).max)


def bins_for(widths):
    return table_from_blocks(blocks_from_widths(widths))


def nbins_of(widths):
    return sum(len(w) for w in widths)


def np_dtype(name):
    return {"int8": np.int8, "int16": np.int16, "int32": np.int32, "int64": np.int64, "uint8": np.uint8,
            "uint16": np.uint16, "uint32": np.uint32, "uint64": np.uint64, "object": object, "float64": np.float64, "float32": np.float32, "bool": np.bool_}[name]


def col_values(rows, k, kind, in_dtype=None):
    """numpy array for value column k of rows [[b1,b2,[v0,v1..]]..]; float columns are stored scaled by SCALE"""
    vals = [r[2][k] for r in rows]
    if kind == "float":
        return np.array([v / SCALE for v in vals], dtype=np.float64)
    return np.array(vals, dtype=np_dtype(in_dtype or "int64"))


def make_chunk(rows, cols, form="dict", id_dtype="int64"):
    """cols = [[name, kind, out_dtype, in_dtype], ...]"""
    d = {"bin1_id": np.array([r[0] for r in rows], dtype=np_dtype(id_dtype)),
         "bin2_id": np.array([r[1] for r in rows], dtype=np_dtype(id_dtype))}
    for k, col in enumerate(cols):
        d[col[0]] = col_values(rows, k, col[1], col[3] if len(col) > 3 else None)
    if form == "df":
        return pd.DataFrame(d)
    if form == "lists":                                   # dict of plain Python lists
        return {k: v.tolist() for k, v in d.items()}
    return d


def split_rows(rows, cuts):
    out, pos = [], 0
    for c in cuts:
        out.append(rows[pos:pos + c])
        pos += c
    assert pos == len(rows)
    return out


def weak_compositions(L, k):
    """all ways to write L as an ordered sum of k non-negative parts"""
    if k == 0:
        return [[]] if L == 0 else []
    if k == 1:
        return [[L]]
    out = []
    for first in range(L + 1):
        for rest in weak_compositions(L - first, k - 1):
            out.append([first] + rest)
    return out


# ---- Coq literals
def row_lit(r):
    return f"(({C.z(r[0])}, {C.z(r[1])}), {C.zl(r[2])})"


def rows_lit(rows):
    return C.lst([row_lit(r) for r in rows])


def chunks_lit(chunks):
    return C.lst([rows_lit(c) for c in chunks])


def lims_lit(cols):
    out = []
    for col in cols:
        if col[1] == "int":
            ii = np.iinfo(np_dtype(col[2]))
            out.append(f"(Some ({C.z(int(ii.min))}, {C.z(int(ii.max))}))")
        else:
            out.append("None")
    return C.lst(out)


def err_class(name):
    """exception classes of the implementation <-> model error constructors"""
    return {"ErrNeg": "BadInputError", "ErrExcess": "BadInputError", "ErrTril": "BadInputError",
            "ErrDup": "BadInputError", "ErrRange": "ValueError", "ErrMaxSize": "RuntimeError",
            "ErrIter": "InjectedError"}[name]


def err_kind_of_message(cls, msg):
    """finer observable: which check fired, from the message of the real exception"""
    if cls == "BadInputError":
        if msg.startswith("Found bin ID < 0"):
            return "ErrNeg"
        if msg.startswith("Found a bin ID that exceeds"):
            return "ErrExcess"
        if msg.startswith("Found bin1_id greater than bin2_id"):
            return "ErrTril"
        if msg.startswith("Found duplicate pixels"):
            return "ErrDup"
    if cls == "ValueError" and "do not fit the output dtype" in msg:
        return "ErrRange"
    if cls == "RuntimeError" and "dimension" in msg:
        return "ErrMaxSize"
    if cls == "InjectedError":
        return "ErrIter"
    return cls
