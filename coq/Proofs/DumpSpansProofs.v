(** C16: the model's own chunking (CSRReader.get_spans for chunksize >= nnz) is admissible.
    Separate file because it uses the zrange lemmas of Proofs/BinsProofs.v. *)
From Coq Require Import String Ascii QArith Permutation Sorted ZifyBool.
From Coq Require Import List.
From Cooler Require Import Model.Dump Proofs.PixelsProofs Proofs.BinsProofs Proofs.DumpProofs.
Open Scope Z_scope.

(* ================================================================= 8. the model's own chunking (get_spans for chunksize >= nnz) is admissible *)
Lemma searchsorted_left_spec l x :
  let k := searchsorted_left l x in
  0 <= k <= zlen l /\ (k < zlen l -> x <= nth (Z.to_nat k) l 0).
Proof.
  induction l as [|y t IH]; cbn zeta in *; unfold zlen in *; cbn [searchsorted_left length].
  - split; [lia|]. cbn. lia.
  - destruct (y <? x) eqn:E.
    + destruct IH as [Hk Hn]. split; [lia|]. intro Hlt.
      replace (Z.to_nat (1 + searchsorted_left t x)) with (S (Z.to_nat (searchsorted_left t x))) by lia.
      cbn [nth]. apply Hn. lia.
    + split; [lia|]. intros _. cbn. lia.
Qed.

Lemma searchsorted_left_stops l x k :
  (k < length l)%nat -> x <= nth k l 0 -> searchsorted_left l x <= Z.of_nat k.
Proof.
  revert k. induction l as [|y t IH]; intros k Hk Hx; [cbn in Hk; lia|].
  cbn [searchsorted_left]. destruct (y <? x) eqn:E; [|lia].
  destruct k as [|k']; [cbn in Hx; lia|]. cbn in Hk, Hx. specialize (IH k' ltac:(lia) Hx). lia.
Qed.

Lemma offset_mono px a b : a <= b -> offset px a <= offset px b.
Proof.
  intro Hab. unfold offset, zlen. induction px as [|p t IH]; [cbn; lia|]. cbn [filter].
  destruct (row p <? a) eqn:Ea, (row p <? b) eqn:Eb; cbn [length]; lia.
Qed.

Lemma offset_strict px a b p : a <= b -> In p px -> a <= row p < b -> offset px a < offset px b.
Proof.
  intros Hab Hin Hr. unfold offset, zlen. induction px as [|q t IH]; [contradiction|]. cbn [filter].
  pose proof (offset_mono t a b Hab) as Hm. unfold offset, zlen in Hm.
  destruct Hin as [->|Hin].
  - destruct (row p <? a) eqn:Ea, (row p <? b) eqn:Eb; cbn [length]; lia.
  - specialize (IH Hin). destruct (row q <? a) eqn:Ea, (row q <? b) eqn:Eb; cbn [length]; lia.
Qed.

Lemma nth_map_zrange (f : Z -> Z) lo n k : (k < n)%nat -> nth k (map f (zrange lo n)) 0 = f (lo + Z.of_nat k).
Proof.
  intro Hk. rewrite (nth_indep _ 0 (f 0)) by (rewrite map_length, zrange_length; lia).
  rewrite map_nth. f_equal. apply nth_error_nth. now apply nth_error_zrange.
Qed.

Lemma last_edge_spec px i0 i1 :
  i0 <= i1 ->
  i0 <= last_edge px i0 i1 <= i1 /\
  forall p, In p px -> i0 <= row p < i1 -> row p < last_edge px i0 i1.
Proof.
  intro Hi. unfold last_edge. set (n := Z.to_nat (i1 - i0 + 1)). set (L := map (offset px) (zrange i0 n)).
  assert (Hlen : length L = n) by (unfold L; now rewrite map_length, zrange_length).
  pose proof (searchsorted_left_spec L (offset px i1)) as [Hk Hn]. cbn zeta in *. unfold zlen in *. rewrite Hlen in *.
  assert (Hstop : searchsorted_left L (offset px i1) <= i1 - i0).
  { replace (i1 - i0) with (Z.of_nat (Z.to_nat (i1 - i0))) by lia. apply searchsorted_left_stops; [lia|].
    unfold L. rewrite nth_map_zrange by lia. replace (i0 + Z.of_nat (Z.to_nat (i1 - i0))) with i1 by lia. lia. }
  split; [lia|]. intros p Hp Hr.
  set (k := searchsorted_left L (offset px i1)) in *.
  destruct (Z_lt_ge_dec (row p) (i0 + k)) as [Hlt|Hge]; [assumption|exfalso].
  assert (Hk' : k < Z.of_nat n) by lia. specialize (Hn Hk').
  unfold L in Hn. rewrite nth_map_zrange in Hn by lia. rewrite Z2Nat.id in Hn by lia.
  pose proof (offset_strict px (i0 + k) i1 p ltac:(lia) Hp ltac:(lia)). lia.
Qed.

(** the model's own (single-span) chunking is admissible *)
Theorem edges1_admissible px i0 i1 j0 j1 :
  i0 <= i1 -> AdmissibleCuts px (i0, i1, j0, j1) (edges1 px (i0, i1, j0, j1)).
Proof.
  intro Hi. unfold edges1, degenerate. destruct ((i1 - i0 <? 1) || (j1 - j0 <? 1)) eqn:Ed.
  - cbn. repeat split; [constructor|lia|]. intros p _ Hp. unfold span_pred, inb in Hp. lia.
  - destruct (last_edge_spec px i0 i1 Hi) as [He Hcov].
    destruct (last_edge px i0 i1 =? i0) eqn:Ee.
    + cbn. repeat split; [repeat constructor|lia|]. intros p Hp Hs.
      specialize (Hcov p Hp). unfold span_pred, inb in Hs. lia.
    + cbn. repeat split; [repeat constructor; lia|lia|]. intros p Hp Hs.
      apply (Hcov p Hp). unfold span_pred, inb in Hs. lia.
Qed.

(** ... and it has a span exactly when some stored pixel lies in the row range of a non-degenerate box *)
Lemma edges1_has_span px i0 i1 j0 j1 :
  i0 <= i1 ->
  (spans_of (edges1 px (i0, i1, j0, j1)) <> [] <->
   degenerate (i0, i1, j0, j1) = false /\ exists p, In p px /\ i0 <= row p < i1).
Proof.
  intro Hi. unfold edges1. destruct (degenerate (i0, i1, j0, j1)) eqn:Ed.
  - cbn. split; [intro H; now contradiction H|intros [H _]; discriminate].
  - destruct (last_edge_spec px i0 i1 Hi) as [He Hcov].
    destruct (last_edge px i0 i1 =? i0) eqn:Ee.
    + cbn. split; [intro H; now contradiction H|]. intros [_ (p & Hp & Hr)]. specialize (Hcov p Hp Hr). lia.
    + cbn. split; [intros _; split; [reflexivity|]|discriminate].
      (* offsets differ, so a pixel lies in between *)
      assert (Hoff : offset px i0 < offset px i1).
      { unfold last_edge in *. set (n := Z.to_nat (i1 - i0 + 1)) in *.
        set (L := map (offset px) (zrange i0 n)) in *.
        destruct L as [|y t] eqn:EL.
        - cbn in Ee. lia.
        - cbn [searchsorted_left] in Ee. destruct (y <? offset px i1) eqn:Ey; [|lia].
          assert (y = offset px i0).
          { assert (H0 : nth 0 L 0 = offset px (i0 + 0)) by (unfold L; apply nth_map_zrange; lia).
            rewrite EL in H0. cbn in H0. rewrite Z.add_0_r in H0. exact H0. }
          lia. }
      clear - Hoff Hi. unfold offset, zlen in Hoff. induction px as [|q t IH]; [cbn in Hoff; lia|].
      cbn [filter] in Hoff. destruct (row q <? i0) eqn:E0, (row q <? i1) eqn:E1; cbn [length] in Hoff.
      * destruct IH as (p & Hp & Hr); [lia|]. exists p. split; [now right|assumption].
      * lia.
      * exists q. split; [now left|lia].
      * destruct IH as (p & Hp & Hr); [lia|]. exists p. split; [now right|assumption].
Qed.

(** the evaluated model [dump1], direct engine: instance of dump_eq_query_direct for the single-span chunking *)
Corollary dump1_eq_query_direct c o :
  o_fill o && d_symm c = false -> RowSorted (d_px c) ->
  (let '(i0, i1, _, _) := bbox_of c o in i0 <= i1) ->
  dump1 c o =
    if o_balanced o && no_weights c then None
    else match spans_of (edges1 (d_px c) (bbox_of c o)) with
         | [] => Some []
         | _ :: _ =>
             match annot_chunk c o (window_select (d_px c) (bbox_of c o)) with
             | None => None
             | Some rows =>
                 match o_header o, header_of c o with
                 | true, Some h => Some (Header h :: body_of rows)
                 | _, _ => Some (body_of rows)
                 end
             end
         end.
Proof.
  intros Hd Hs Hb. unfold dump1. apply dump_eq_query_direct; try assumption.
  destruct (bbox_of c o) as [[[i0 i1] j0] j1]. now apply edges1_admissible.
Qed.
