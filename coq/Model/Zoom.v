(** Multi-resolution files: get_multiplier_sequence, zoomify_cooler, the CLI resolution-spec
    expansion   (src/cooler/_reduce.py:358-502, 756-881; src/cooler/cli/zoomify.py:188-215).
    No proofs here. *)
From Cooler Require Export Model.Coarsen.
Open Scope Z_scope.

Definition memZ (x : Z) (l : list Z) : bool := existsb (Z.eqb x) l.

(* ----------------------------------------------- get_multiplier_sequence (:447-502) *)
(** the inner  while p >= 0  loop: scan the resolutions below the target downwards and stop at the
    first one that divides it;  revprefix = resn[i-1], resn[i-2], ..., resn[0],  p = index of its head *)
Fixpoint scan_down (target : Z) (revprefix : list Z) (p : Z) : Z * Z :=
  match revprefix with
  | [] => (-1, -1)
  | r :: rest => if target mod r =? 0 then (p, target / r) else scan_down target rest (p - 1)
  end.

Definition pred_mult (resn : list Z) (i : nat) : Z * Z :=
  scan_down (nth i resn 0) (rev (firstn i resn)) (Z.of_nat i - 1).

Definition list_min (l : list Z) : option Z :=
  match l with [] => None | x :: r => Some (fold_left Z.min r x) end.

(** returns None where the Python raises ValueError.  bases = None: the smallest requested
    resolution is the base.  resn = sorted(set(bases) | set(resolutions)) *)
Definition get_multiplier_sequence (resolutions : list Z) (bases : option (list Z))
  : option (list Z * list Z * list Z) :=
  let obases := match bases with
                | Some b => Some b
                | None => match list_min resolutions with Some m => Some [m] | None => None end
                end in
  match obases with
  | None => None
  | Some bs =>
      let resn := np_unique (bs ++ resolutions) in
      let pm := map (pred_mult resn) (seq 0 (length resn)) in
      let pred := map fst pm in
      let mult := map snd pm in
      if existsb (fun rp => (snd rp =? -1) && negb (memZ (fst rp) bs)) (combine resn pred)
      then None
      else Some (resn, pred, mult)
  end.

(* --------------------------------------------------------- zoomify_cooler (:756-881) *)
Fixpoint lookup {A} (r : Z) (lv : list (Z * A)) : option A :=
  match lv with
  | [] => None
  | (r', c) :: rest => if r =? r' then Some c else lookup r rest
  end.

(** parsed_uris[base_binsize] = ... in input order: a later base with the same bin size wins *)
Definition base_dict {A} (bases : list (Z * A)) : list (Z * A) := rev bases.

(** The level-derivation logic of zoomify_cooler does not look inside a cooler: it is written once over
    an abstract level type C with its coarsening function (coarsen_cooler with the requested columns and
    aggregation), and instantiated below. *)
Section ZoomWith.
  Context {C : Type}.
  Variable coarsenC : C -> Z -> Z -> Z -> C.     (* level -> factor -> chunksize -> batchsize -> level *)
  Variable emptyC : C.

  (** one iteration of the "Aggregate" loop; None = KeyError (predecessor level missing) *)
  Definition zoom_step_w (resn pred mult bres : list Z) (chunksize batchsize : Z)
             (olv : option (list (Z * C))) (i : nat) : option (list (Z * C)) :=
    match olv with
    | None => None
    | Some lv =>
        let p := nth i pred (-1) in
        if (p =? -1) || memZ (nth i resn 0) bres then Some lv
        else
          let prev := nth (Z.to_nat p) resn 0 in
          let m := nth i mult 0 in
          match lookup prev lv with
          | None => None
          | Some c => Some ((prev * m, coarsenC c m chunksize batchsize) :: lv)
          end
    end.

  (** bases: (bin size or 1 for a variable table, level) per base URI.  Result: the groups
      /resolutions/<r> of the output file, most recently written first; None = ValueError *)
  Definition zoomify_with (bases : list (Z * C)) (resolutions : list Z) (chunksize batchsize : Z)
    : option (list (Z * C)) :=
    let bres := map fst bases in
    match get_multiplier_sequence resolutions (Some bres) with
    | None => None
    | Some (resn, pred, mult) =>
        let copied := map (fun b => (b, match lookup b (base_dict bases) with Some c => c | None => emptyC end))
                          (np_unique bres) in
        fold_left (zoom_step_w resn pred mult bres chunksize batchsize) (seq 0 (length resn)) (Some copied)
    end.
End ZoomWith.

(** what zoomify reads from / writes for one resolution: bin table, chromsizes, pixels.
    (Extra bin columns such as `weight` travel with a base level because the whole /bins group
    is copied; they are not part of this record: base levels are copied as they are.) *)
Definition cooler := (list bin * list Z * list pixel)%type.
Definition c_bins (c : cooler) := fst (fst c).
Definition c_sizes (c : cooler) := snd (fst c).
Definition c_px (c : cooler) := snd c.

(** default aggregation (sum of the count column) *)
Definition coarsen_c (c : cooler) (k chunksize batchsize : Z) : cooler :=
  let r := coarsen_cooler (c_bins c) (c_sizes c) (c_px c) k chunksize batchsize in
  (fst r, c_sizes c, snd r).
Definition zoom_step := zoom_step_w coarsen_c.
Definition zoomify_cooler : list (Z * cooler) -> list Z -> Z -> Z -> option (list (Z * cooler)) :=
  zoomify_with coarsen_c ([], [], []).

(** any value type and requested aggregation:  zoomify_cooler(..., columns=, agg=) *)
Definition gcooler (V : Type) := (list bin * list Z * list (key * V))%type.
Definition coarsen_cg {V} (agg : list V -> V) (c : gcooler V) (k chunksize batchsize : Z) : gcooler V :=
  let r := coarsen_cooler_g agg (fst (fst c)) (snd (fst c)) (snd c) k chunksize batchsize in
  (fst r, snd (fst c), snd r).
Definition zoomify_cooler_g {V} (agg : list V -> V)
  : list (Z * gcooler V) -> list Z -> Z -> Z -> option (list (Z * gcooler V)) :=
  zoomify_with (coarsen_cg agg) ([], [], []).

(** the levels listed in the file, ascending *)
Definition level_list {A} (lv : list (Z * A)) : list Z := np_unique (map fst lv).

(* ------------------------------ preferred_sequence / geomprog / niceprog (:358-444) *)
(** geomprog(start, 2) as long as <= stop.  [fuel] bounds the number of terms. *)
Fixpoint geom_upto (fuel : nat) (x mul stop : Z) : list Z :=
  match fuel with
  | O => []
  | S f => if x <=? stop then x :: geom_upto f (x * mul) mul stop else []
  end.

(** niceprog(start): start, 2s, 5s, 10s, 20s, 50s, 100s, ...   cut at the first value > stop *)
Fixpoint nice_upto (fuel : nat) (x stop : Z) : list Z :=
  match fuel with
  | O => []
  | S f =>
      if x * 2 <=? stop then
        x * 2 :: (if x * 5 <=? stop then
                    x * 5 :: (if x * 10 <=? stop then x * 10 :: nice_upto f (x * 10) stop else [])
                  else [])
      else []
  end.

(** preferred_sequence(start, stop, style): [] when start > stop; the first element is always
    emitted, then elements while they are <= stop *)
Definition preferred_sequence (start stop : Z) (binary : bool) : list Z :=
  if stop <? start then []
  else if binary then start :: geom_upto (Z.to_nat (Z.log2_up (stop + 2)) + 1) (start * 2) 2 stop
  else start :: nice_upto (Z.to_nat (Z.log2_up (stop + 2)) + 1) start stop.

(* ------------------------------------- CLI resolution-spec expansion (zoomify.py:188-215) *)
(** a spec item after  s.strip().lower() :  "n" | "b" | "4dn" | "<int>n" | "<int>b" | "<int>" ;
    the harness passes the token class and the parsed integer *)
Inductive spec_item :=
| SpecN                 (* "n"   *)
| SpecB                 (* "b"   *)
| Spec4DN               (* "4dn" *)
| SpecIntN (r : Z)      (* "<r>n" *)
| SpecIntB (r : Z)      (* "<r>b" *)
| SpecInt (r : Z).      (* "<r>"  *)

Definition expand_item (curres maxres : Z) (it : spec_item) : list Z :=
  match it with
  | SpecN => preferred_sequence curres maxres false
  | SpecB => preferred_sequence curres maxres true
  | Spec4DN => 1000 :: 2000 :: preferred_sequence 5000 maxres false
  | SpecIntN r => preferred_sequence r maxres false
  | SpecIntB r => preferred_sequence r maxres true
  | SpecInt r => [r]
  end.

Definition expand_spec (curres maxres : Z) (items : list spec_item) : list Z :=
  concat (map (expand_item curres maxres) items).

(** maxres = int(ceil(genome_length / HIGLASS_TILE_DIM)),  HIGLASS_TILE_DIM = 256 *)
Definition maxres_fixed (genome_length : Z) : Z := cdiv genome_length 256.
